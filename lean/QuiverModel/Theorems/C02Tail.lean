import QuiverModel.Theorems.C02Call
import QuiverModel.Core.RefSem.Compile4
/-
C02, stretch goal, part 7 — **tail calls (`^`) and builtins are compiled correctly**, on C07's M-VM: the
fragment has loops and arithmetic.

Compile4's meaning functions answer an outcome — `norm v L'` (the construct ran to its end) or `exit res`
(a `^` was taken inside it; `res` is the result of the whole function). Accordingly every statement has two
targets (`Target`): the end of the construct's code with value and locals, or — everything enclosing the
`^` abandoned — the END OF THE FUNCTION'S CODE with the function's result on the stack and the locals cut
back to the captures (what `TailCall(true)`, the re-entered body and its final `Reset(#captures)` leave).

* `ARunsX` — the abstract runs of C02Call + a `TailCall(true)` step (justified by `cs.app self arg = some
  res`, where `self` must be the function whose code runs, over the captures in the frame's first locals) and
  a `Builtin(i), Call` step (`cs.bi i arg = some v`);
* `compileT_arunsX … compileBrs_arunsX` — the structural proof once more, over Compile4's syntax and with the
  two targets; `SelfOK` (the function value `^` re-enters is the frame's own function over `L.take nc`) is
  carried along;
* `liftX`, `TailOK`, `BiOK`, `contracts_all` — lifting to `transition`; `CallOK` and `TailOK` for
  `callSem Φ bi n` together by induction on the fuel: a tail call cuts the locals back to the captures and
  re-enters the function at its first instruction, where the structural theorem applies again;
* `compileSq4_correct`.
-/
open QM.VM QM.RefSem.C4
open QM.RefSem.C1 (Sub Pat1 slot compilePat patBinds evalPat wfPat wfProg)
open QM.RefSem.C2 (resetIf)
open C02L (St astepL InvL sim_stepL OracleIntEq e63 jumpTarget_eq Located.tail Located.bound bindVals_length)
open C02F (InvC TRuns.trans transition_instr call_step return_step located_toArray step_keeps_select
  astepL_frag bump_select)

set_option linter.unusedSimpArgs false

namespace C02T

/-! ### Static and dynamic local counts -/

mutual
  def nbT : T4 → Nat
    | .tup _ fs => nbFs fs
    | .mtch p => (patBinds p).length
    | _ => 0
  def nbCh : Ch4 → Nat
    | .nil => 0
    | .cons t r => nbT t + nbCh r
  def nbFs : Fs4 → Nat
    | .nil => 0
    | .cons c r => nbCh c + nbFs r
  def nbSq : Sq4 → Nat
    | .last c => nbCh c
    | .cons c r => nbCh c + nbSq r
end

mutual
  theorem compileT_len : (t : T4) → (Γ : List String) → (compileT Γ t).2.length = Γ.length + nbT t
    | .int _ _, Γ => by simp [compileT, nbT]
    | .ripple, Γ => by simp [compileT, nbT]
    | .tup _ fs, Γ => by simp [compileT, nbT, compileFs_len fs Γ 0]
    | .var _, Γ => by simp [compileT, nbT]
    | .mtch p, Γ => by simp [compileT, nbT]
    | .block _, Γ => by simp [compileT, nbT]
    | .fnlit _ _, Γ => by simp [compileT, nbT]
    | .call _, Γ => by simp [compileT, nbT]
    | .callNil _, Γ => by simp [compileT, nbT]
    | .tailSelf, Γ => by simp [compileT, nbT]
    | .bcall _, Γ => by simp [compileT, nbT]
  theorem compileCh_len : (c : Ch4) → (Γ : List String) → (compileCh Γ c).2.length = Γ.length + nbCh c
    | .nil, Γ => by simp [compileCh, nbCh]
    | .cons t r, Γ => by
      simp only [compileCh, nbCh]
      rw [compileCh_len r, compileT_len t]
      omega
  theorem compileFs_len : (fs : Fs4) → (Γ : List String) → (k : Nat) →
      (compileFs Γ fs k).2.length = Γ.length + nbFs fs
    | .nil, Γ, k => by simp [compileFs, nbFs]
    | .cons c r, Γ, k => by
      simp only [compileFs, nbFs]
      rw [compileFs_len r, compileCh_len c]
      omega
  theorem compileSq_len : (sq : Sq4) → (Γ : List String) → (compileSq Γ sq).2.length = Γ.length + nbSq sq
    | .last c, Γ => by simp [compileSq, nbSq, compileCh_len c Γ]
    | .cons c r, Γ => by
      simp only [compileSq, nbSq]
      rw [compileSq_len r, compileCh_len c]
      omega
end

mutual
  theorem evalT_ext (cs : Sem) : (t : T4) → (Γ : List String) → (L : List Val) → (flow v : Val) → (L' : List Val) →
      evalT cs Γ L flow t = some (.norm v L') → ∃ ext, L' = L ++ ext ∧ ext.length = nbT t
    | .int _ _, Γ, L, flow, v, L', h => by
      simp only [evalT, Option.some.injEq, Out.norm.injEq] at h
      exact ⟨[], by simp [h.2], rfl⟩
    | .ripple, Γ, L, flow, v, L', h => by
      simp only [evalT, Option.some.injEq, Out.norm.injEq] at h
      exact ⟨[], by simp [h.2], rfl⟩
    | .tup _ fs, Γ, L, flow, v, L', h => by
      simp only [evalT, Option.map_eq_some_iff] at h
      obtain ⟨⟨vs, L''⟩, hfs, hv⟩ := h
      simp only [Out.norm.injEq] at hv
      obtain ⟨_, rfl⟩ := hv
      simpa [nbT] using evalFs_ext cs fs Γ L flow vs L'' hfs
    | .var _, Γ, L, flow, v, L', h => by
      simp only [evalT, Option.bind_eq_some_iff, Option.map_eq_some_iff] at h
      obtain ⟨i, _, w, _, hv⟩ := h
      simp only [Out.norm.injEq] at hv
      exact ⟨[], by simp [hv.2], rfl⟩
    | .mtch p, Γ, L, flow, v, L', h => by
      simp only [evalT, Option.map_eq_some_iff] at h
      obtain ⟨⟨w, bound⟩, hp, hv⟩ := h
      simp only [Out.norm.injEq] at hv
      obtain ⟨_, rfl⟩ := hv
      exact ⟨bound, rfl, by simpa [nbT] using C02B.evalPat_length flow p w bound hp⟩
    | .block _, Γ, L, flow, v, L', h => by
      simp only [evalT, Option.map_eq_some_iff] at h
      obtain ⟨o, _, hv⟩ := h
      cases o with
      | norm w Lw =>
        simp only [Out.norm.injEq] at hv
        exact ⟨[], by simp [hv.2], by simp [nbT]⟩
      | exit res => simp at hv
    | .fnlit _ _, Γ, L, flow, v, L', h => by
      simp only [evalT, Option.map_eq_some_iff] at h
      obtain ⟨w, _, hv⟩ := h
      simp only [Out.norm.injEq] at hv
      exact ⟨[], by simp [hv.2], by simp [nbT]⟩
    | .call _, Γ, L, flow, v, L', h => by
      simp only [evalT, Option.bind_eq_some_iff, Option.map_eq_some_iff] at h
      obtain ⟨i, _, fv, _, res, _, hv⟩ := h
      simp only [Out.norm.injEq] at hv
      exact ⟨[], by simp [hv.2], by simp [nbT]⟩
    | .callNil _, Γ, L, flow, v, L', h => by
      simp only [evalT, Option.bind_eq_some_iff, Option.map_eq_some_iff] at h
      obtain ⟨i, _, fv, _, res, _, hv⟩ := h
      simp only [Out.norm.injEq] at hv
      exact ⟨[], by simp [hv.2], by simp [nbT]⟩
    | .tailSelf, Γ, L, flow, v, L', h => by
      simp only [evalT, Option.bind_eq_some_iff, Option.map_eq_some_iff] at h
      obtain ⟨sv, _, res, _, hv⟩ := h
      simp at hv
    | .bcall _, Γ, L, flow, v, L', h => by
      simp only [evalT, Option.map_eq_some_iff] at h
      obtain ⟨w, _, hv⟩ := h
      simp only [Out.norm.injEq] at hv
      exact ⟨[], by simp [hv.2], by simp [nbT]⟩
  theorem evalCh_ext (cs : Sem) : (c : Ch4) → (Γ : List String) → (L : List Val) → (flow v : Val) → (L' : List Val) →
      evalCh cs Γ L flow c = some (.norm v L') → ∃ ext, L' = L ++ ext ∧ ext.length = nbCh c
    | .nil, Γ, L, flow, v, L', h => by
      simp only [evalCh, Option.some.injEq, Out.norm.injEq] at h
      exact ⟨[], by simp [h.2], rfl⟩
    | .cons t r, Γ, L, flow, v, L', h => by
      simp only [evalCh, Option.bind_eq_some_iff] at h
      obtain ⟨o, ht, hr⟩ := h
      cases o with
      | norm v₁ L₁ =>
        simp only at hr
        obtain ⟨e₁, rfl, l₁⟩ := evalT_ext cs t Γ L flow v₁ L₁ ht
        obtain ⟨e₂, rfl, l₂⟩ := evalCh_ext cs r _ _ _ v L' hr
        exact ⟨e₁ ++ e₂, by simp, by simp [nbCh, l₁, l₂]⟩
      | exit res => simp at hr
  theorem evalFs_ext (cs : Sem) : (fs : Fs4) → (Γ : List String) → (L : List Val) → (flow : Val) → (vs L' : List Val) →
      evalFs cs Γ L flow fs = some (vs, L') → ∃ ext, L' = L ++ ext ∧ ext.length = nbFs fs
    | .nil, Γ, L, flow, vs, L', h => by
      simp only [evalFs, Option.some.injEq, Prod.mk.injEq] at h
      exact ⟨[], by simp [h.2], rfl⟩
    | .cons c r, Γ, L, flow, vs, L', h => by
      simp only [evalFs, Option.bind_eq_some_iff] at h
      obtain ⟨o, hc, hr⟩ := h
      cases o with
      | norm v₁ L₁ =>
        simp only [Option.map_eq_some_iff, Prod.mk.injEq] at hr
        obtain ⟨⟨vs₂, L₂⟩, hr, _, rfl⟩ := hr
        obtain ⟨e₁, rfl, l₁⟩ := evalCh_ext cs c Γ L flow v₁ L₁ hc
        obtain ⟨e₂, rfl, l₂⟩ := evalFs_ext cs r _ _ _ vs₂ L₂ hr
        exact ⟨e₁ ++ e₂, by simp, by simp [nbFs, l₁, l₂]⟩
      | exit res => simp at hr
  theorem evalSq_ext (cs : Sem) : (sq : Sq4) → (Γ : List String) → (L : List Val) → (flow v : Val) → (L' : List Val) →
      evalSq cs Γ L flow sq = some (.norm v L') →
      ∃ ext, L' = L ++ ext ∧ ext.length ≤ nbSq sq ∧ (v.isNil = false → ext.length = nbSq sq)
    | .last c, Γ, L, flow, v, L', h => by
      simp only [evalSq] at h
      obtain ⟨e, rfl, l⟩ := evalCh_ext cs c Γ L flow v L' h
      exact ⟨e, rfl, by simp [nbSq, l], fun _ => by simp [nbSq, l]⟩
    | .cons c r, Γ, L, flow, v, L', h => by
      simp only [evalSq, Option.bind_eq_some_iff] at h
      obtain ⟨o, hc, hr⟩ := h
      cases o with
      | norm v₁ L₁ =>
        simp only at hr
        obtain ⟨e₁, rfl, l₁⟩ := evalCh_ext cs c Γ L flow v₁ L₁ hc
        by_cases hv : v₁.isNil = true
        · simp only [hv, if_true, Option.some.injEq, Out.norm.injEq] at hr
          obtain ⟨rfl, rfl⟩ := hr
          exact ⟨e₁, rfl, by simp [nbSq, l₁], fun h => by rw [hv] at h; cases h⟩
        · have hv' : v₁.isNil = false := by simpa using hv
          simp only [hv', Bool.false_eq_true, if_false] at hr
          obtain ⟨e₂, rfl, l₂, l₃⟩ := evalSq_ext cs r _ _ _ v L' hr
          exact ⟨e₁ ++ e₂, by simp, by simp [nbSq, l₁]; omega, fun h => by simp [nbSq, l₁, l₃ h]⟩
      | exit res => simp at hr
end

theorem compileBrs_isNil (Γp : List String) (n k : Nat) (first : Bool) (bs : Brs4) (h : bs.isNil = true) :
    compileBrs Γp n bs k first = ([], []) := by
  cases bs with
  | nil => simp [compileBrs]
  | cons a b c => simp [Brs4.isNil] at h

end C02T
