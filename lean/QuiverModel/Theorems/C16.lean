import QuiverModel.Lemmas.VM.Frames
/-
C16 — tail calls run in constant space (theorems on M-VM given the C07 certificate).
-/
namespace C16
open QM.VM

theorem below_base_eq {P : Prog} {A : Array Anns} {s0 : Nat} {sel : Option SelectState} :
    ∀ {rest : List Frame} {sb lb : Nat}, Below P A s0 sel rest sb lb → sb = stackBaseOf P A s0 rest
  | [], _, _, h => h
  | g :: rest, sb, lb, h => by
    obtain ⟨fn, a, i, sbg, hat, _, hcase, hrec⟩ := h
    have ih := below_base_eq hrec
    simp only [stackBaseOf, hat.hfn, hat.hann, hat.hinstr]
    rcases hcase with ⟨rfl, hs, _⟩ | ⟨rfl, hs, _⟩
    · simp [handedOver]; omega
    · simp [handedOver]; omega

/-- **The operand stack is determined by the frame stack**: while a process of a certified program
runs (not parked, no select in progress) at an annotated pc, its stack has exactly
`stackBaseOf frames.tail + ann.height` cells — a function of the frame list and the annotations,
independent of how the state was reached. -/
theorem stack_length_running {P : Prog} {A : Array Anns} {s0 : Nat} (hA : AllChecked P A)
    {p : Proc} {f : Frame} {rest : List Frame}
    (hinv : Inv P A s0 p) (hfr : p.frames = f :: rest) (hpark : p.park = .none)
    (hsel : p.selectState = none) {a : Ann}
    (ha : (annsOf A f.functionIndex)[f.counter]? = some (some a)) :
    p.stack.length = stackBaseOf P A s0 rest + a.height := by
  obtain ⟨_, sb, htop, hbelow⟩ := hinv.unpack hfr
  have hsb := below_base_eq hbelow
  cases htop with
  | exhausted fn hfn hpc hs hl _ _ =>
    -- an annotated pc is inside the function
    exfalso
    have hC := checked_of hA hfn
    have := (Array.getElem?_eq_some_iff.mp ha).1
    rw [hC.size] at this
    omega
  | normal fn a' i hat hl hs _ _ =>
    rw [hat.hann] at ha
    cases ha
    omega
  | spawning _ _ _ _ _ hp => rw [hp] at hpark; cases hpark
  | effecting _ _ _ _ _ hp => rw [hp] at hpark; cases hpark
  | selecting _ _ _ _ st hst => rw [hsel] at hst; cases hst

/-- Two states of a certified program with the same frame stack, both running, have operand
stacks of the same size. -/
theorem stack_determined_by_frames {P : Prog} {A : Array Anns} {s0 : Nat} (hA : AllChecked P A)
    {p q : Proc} (hp : Inv P A s0 p) (hq : Inv P A s0 q) (hfr : p.frames = q.frames)
    (hpp : p.park = .none) (hqp : q.park = .none) (hps : p.selectState = none) (hqs : q.selectState = none)
    {f : Frame} {rest : List Frame} (hf : p.frames = f :: rest) {a : Ann}
    (ha : (annsOf A f.functionIndex)[f.counter]? = some (some a)) :
    p.stack.length = q.stack.length := by
  rw [stack_length_running hA hp hf hpp hps ha, stack_length_running hA hq (hfr ▸ hf) hqp hqs ha]

/-- What a `TailCall` does to the frame list, unconditionally (model level): the current frame is
replaced by a fresh frame (counter 0) with the same locals base; nothing is pushed. -/
theorem tailcall_frames {P : Prog} {p p' : Proc} {r : Bool} {act : Option Action}
    (h : handleTailCall P p r = .ok (p', act)) :
    ∃ f rest f', p.frames = f :: rest ∧ p'.frames = f' :: rest ∧ f'.localsBase = f.localsBase ∧
      f'.counter = 0 ∧ (r = true → f'.functionIndex = f.functionIndex ∧ f'.capturesCount = f.capturesCount) := by
  unfold handleTailCall at h
  cases r with
  | true =>
    simp only [if_true] at h
    split at h
    · cases h
    · split at h
      · cases h
      · rename_i f rest hfr
        simp only [ok, Except.ok.injEq, Prod.mk.injEq] at h
        obtain ⟨rfl, _⟩ := h
        exact ⟨f, rest, _, hfr, rfl, rfl, rfl, fun _ => ⟨rfl, rfl⟩⟩
  | false =>
    simp only [Bool.false_eq_true, if_false] at h
    repeat' split at h
    all_goals (try cases h)
    rename_i f rest hfr
    exact ⟨f, rest, _, hfr, rfl, rfl, rfl, fun h => by cases h⟩

/-- **`tailcall_shape`**: a `TailCall` step leaves `frames.length` unchanged. -/
theorem tailcall_frames_length {P : Prog} {p p' : Proc} {r : Bool} {act : Option Action}
    (h : handleTailCall P p r = .ok (p', act)) : p'.frames.length = p.frames.length := by
  obtain ⟨f, rest, f', h1, h2, _⟩ := tailcall_frames h
  rw [h1, h2]; rfl

/-- The current frame of a running process that is about to execute instruction `i` is in the
`normal` shape at an annotation for `i`. -/
theorem top_normal_of_current {P : Prog} {A : Array Anns} {s0 : Nat} {p : Proc} {f : Frame}
    {rest : List Frame} {i : Instr}
    (hinv : Inv P A s0 p) (hfr : p.frames = f :: rest) (hpark : p.park = .none)
    (hcur : P.currentInstr p = some i) (hns : i ≠ .select) :
    ∃ fn a sb, FrameAt P A f fn a i ∧ f.localsBase + a.locals ≤ p.locals.length ∧
      p.stack.length = sb + a.height ∧ SelNotAt p.selectState rest.length ∧
      Below P A s0 p.selectState rest sb f.localsBase := by
  obtain ⟨_, sb, htop, hbelow⟩ := hinv.unpack hfr
  simp only [Prog.currentInstr, hfr] at hcur
  cases htop with
  | exhausted fn hfn hpc _ _ _ _ => simp [hfn, hpc] at hcur
  | normal fn a i' hat hl hs _ hsel =>
    simp only [hat.hfn, hat.hinstr, Option.some.injEq] at hcur
    subst hcur
    exact ⟨fn, a, sb, hat, hl, hs, hsel, hbelow⟩
  | spawning _ _ _ _ _ hp => rw [hp] at hpark; cases hpark
  | effecting _ _ _ _ _ hp => rw [hp] at hpark; cases hpark
  | selecting fn a hat _ _ _ _ _ _ =>
    simp only [hat.hfn, hat.hinstr, Option.some.injEq] at hcur
    exact absurd hcur.symm hns

/-- **`tailcall_shape`** (covers `^` — `TailCall(true)` — and `^f` / `^~` — `TailCall(false)`,
i.e. `mutual_tailcall_shape`): in a certified program a `TailCall` step
  * keeps the suspended frames (so `frames.length` is unchanged) and the frame's locals base,
  * enters the target function at counter 0 with `locals.length = locals_base + captures` exactly,
  * and leaves the operand stack at the frame's entry height: `stackBaseOf rest + 1`.
All three sizes are functions of `(rest, locals_base, target function)` only. -/
theorem tailcall_shape {P : Prog} {A : Array Anns} {s0 : Nat} (hA : AllChecked P A)
    {p p' : Proc} {f : Frame} {rest : List Frame} {r : Bool} {act : Option Action}
    (hinv : Inv P A s0 p) (hfr : p.frames = f :: rest) (hpark : p.park = .none)
    (hcur : P.currentInstr p = some (.tailCall r))
    (hstep : handleTailCall P p r = .ok (p', act)) :
    ∃ f' fn', p'.frames = f' :: rest ∧ f'.localsBase = f.localsBase ∧ f'.counter = 0 ∧
      P.functions[f'.functionIndex]? = some fn' ∧ f'.capturesCount = fn'.captures ∧
      (r = true → f'.functionIndex = f.functionIndex) ∧
      p'.frames.length = p.frames.length ∧
      p'.locals.length = f.localsBase + fn'.captures ∧
      p'.stack.length = stackBaseOf P A s0 rest + 1 := by
  obtain ⟨fn, a, sb, hat, hl, hs, _, hbelow⟩ :=
    top_normal_of_current hinv hfr hpark hcur (by simp)
  have hsb := below_base_eq hbelow
  obtain ⟨succs, htr, _⟩ := hat.transfer hA
  cases r with
  | true =>
    obtain ⟨hh, hcaps⟩ := transfer_tailCall_true htr
    cases hst : p.stack with
    | nil => simp [hst] at hs; omega
    | cons arg s =>
      simp only [handleTailCall, hst, hfr, ok, if_true, Except.ok.injEq, Prod.mk.injEq] at hstep
      obtain ⟨rfl, _⟩ := hstep
      have hself : fn.selfTail = true := by
        obtain ⟨hlt, hget⟩ := Array.getElem?_eq_some_iff.mp hat.hinstr
        simp only [Function.selfTail, List.contains_iff_mem]
        rw [← hget]
        exact Array.getElem_mem_toList hlt
      have hcc := hat.hcc hself
      refine ⟨_, fn, rfl, rfl, rfl, hat.hfn, hcc, (fun _ => rfl), (by simp [hfr]), ?_, ?_⟩
      · simp [List.length_take, hcc]; omega
      · simp [hst] at hs ⊢; omega
  | false =>
    have hh := transfer_tailCall_false htr
    cases hst : p.stack with
    | nil => simp [hst] at hs; omega
    | cons fv s =>
      cases s with
      | nil => simp [hst] at hs; omega
      | cons arg s' =>
        have hsw := hinv.stackWF
        rw [hst] at hsw
        cases fv with
        | fn fi caps =>
          obtain ⟨fn', hfn', hcl, _⟩ := Val.wf_fn_inv (AllWF.cons_iff.mp hsw).1
          simp only [handleTailCall, hst, hfn', hfr, ok, Bool.false_eq_true, if_false, Except.ok.injEq,
            Prod.mk.injEq] at hstep
          obtain ⟨rfl, _⟩ := hstep
          refine ⟨_, fn', rfl, rfl, rfl, hfn', hcl, (fun h => by cases h), (by simp [hfr]), ?_, ?_⟩
          · simp [List.length_take, hcl]; omega
          · simp [hst] at hs ⊢; omega
        | _ => simp [handleTailCall, hst] at hstep

/-- Sizes `(frames, locals, stack)` of a process that has just entered function `fi` on top of the
suspended frames `rest` with locals base `lb`. -/
structure AtEntry (P : Prog) (A : Array Anns) (s0 : Nat) (rest : List Frame) (lb fi : Nat) (q : Proc) : Prop where
  shape : ∃ f fn, q.frames = f :: rest ∧ f.functionIndex = fi ∧ f.localsBase = lb ∧ f.counter = 0 ∧
    P.functions[fi]? = some fn ∧ q.locals.length = lb + fn.captures ∧
    q.stack.length = stackBaseOf P A s0 rest + 1

/-- Entry sizes are a function of `(rest, lb, fi)`. -/
theorem AtEntry.sizes_eq {P : Prog} {A : Array Anns} {s0 : Nat} {rest : List Frame} {lb fi : Nat}
    {q1 q2 : Proc} (h1 : AtEntry P A s0 rest lb fi q1) (h2 : AtEntry P A s0 rest lb fi q2) :
    q1.frames.length = q2.frames.length ∧ q1.locals.length = q2.locals.length ∧
      q1.stack.length = q2.stack.length := by
  obtain ⟨f1, fn1, hf1, _, _, _, hfn1, hl1, hs1⟩ := h1.shape
  obtain ⟨f2, fn2, hf2, _, _, _, hfn2, hl2, hs2⟩ := h2.shape
  rw [hfn1] at hfn2
  cases hfn2
  exact ⟨by rw [hf1, hf2]; rfl, by rw [hl1, hl2], by rw [hs1, hs2]⟩

/-- A `TailCall` re-enters: the state after it is `AtEntry` of the target on the *same*
activation `(rest, locals_base)`. -/
theorem tailcall_reenters {P : Prog} {A : Array Anns} {s0 : Nat} (hA : AllChecked P A)
    {p p' : Proc} {f : Frame} {rest : List Frame} {r : Bool} {act : Option Action}
    (hinv : Inv P A s0 p) (hfr : p.frames = f :: rest) (hpark : p.park = .none)
    (hcur : P.currentInstr p = some (.tailCall r))
    (hstep : handleTailCall P p r = .ok (p', act)) :
    ∃ fi, AtEntry P A s0 rest f.localsBase fi p' ∧ (r = true → fi = f.functionIndex) := by
  obtain ⟨f', fn', h1, h2, h3, h4, _, h6, _, h8, h9⟩ := tailcall_shape hA hinv hfr hpark hcur hstep
  exact ⟨f'.functionIndex, ⟨f', fn', h1, rfl, h2, h3, h4, h8, h9⟩, h6⟩

/-- Entering through a `Call` on a closure: the callee is `AtEntry` on the activation
`(caller's frames, caller's locals count)`. -/
theorem call_enters {P : Prog} {A : Array Anns} {s0 : Nat} (hA : AllChecked P A) {O : Oracle}
    {p p' : Proc} {f : Frame} {rest : List Frame} {act : Option Action} {fi : Nat} {caps : ValList} {s : List Val}
    (hinv : Inv P A s0 p) (hfr : p.frames = f :: rest) (hpark : p.park = .none)
    (hcur : P.currentInstr p = some .call) (hst : p.stack = .fn fi caps :: s)
    (hstep : handleCall O P p = .ok (p', act)) :
    AtEntry P A s0 (f :: rest) p.locals.length fi p' := by
  obtain ⟨fn, a, sb, hat, hl, hs, hsel, hbelow⟩ := top_normal_of_current hinv hfr hpark hcur (by simp)
  have hsb := below_base_eq hbelow
  obtain ⟨succs, htr, _⟩ := hat.transfer hA
  obtain ⟨hh, _⟩ := transfer_call htr
  have hsw := hinv.stackWF
  rw [hst] at hsw
  obtain ⟨fn', hfn', hcl, _⟩ := Val.wf_fn_inv (AllWF.cons_iff.mp hsw).1
  cases s with
  | nil => simp [hst] at hs; omega
  | cons param s' =>
    simp only [handleCall, hst, hfn', ok, Except.ok.injEq, Prod.mk.injEq] at hstep
    obtain ⟨rfl, _⟩ := hstep
    refine ⟨⟨Frame.new fi p.locals.length caps.toList.length, fn', by simp [hfr], rfl, rfl, rfl, hfn',
      by simp [hcl], ?_⟩⟩
    simp only [stackBaseOf, hat.hfn, hat.hann, hat.hinstr, handedOver]
    simp [hst] at hs ⊢
    omega

/-- Reachability that never drops below frame depth `d`. -/
inductive ReachAbove (P : Prog) (d : Nat) : Proc → Proc → Prop
  | refl (p : Proc) : ReachAbove P d p p
  | step {p0 p p' : Proc} {ev : Event} {act : Option Action} :
      ReachAbove P d p0 p → EventWF P ev → transition P p ev = some (.ok (p', act)) →
      d ≤ p'.frames.length → ReachAbove P d p0 p'

/-- Along a path that stays inside the activation, the invariant and the activation persist. -/
theorem reachAbove_inv {P : Prog} {A : Array Anns} {s0 : Nat} (hA : AllChecked P A)
    {q0 q : Proc} {rest : List Frame} {lb : Nat}
    (hinv0 : Inv P A s0 q0) (hact0 : InActivation rest lb q0)
    (hreach : ReachAbove P (rest.length + 1) q0 q) : Inv P A s0 q ∧ InActivation rest lb q := by
  induction hreach with
  | refl => exact ⟨hinv0, hact0⟩
  | step _ hev htr hd ih =>
    obtain ⟨hi, ha⟩ := ih
    have := inv_step hA hi hev
    rw [htr] at this
    exact ⟨this, transition_activation ha htr hd⟩

/-- **`loop_head_invariant`**: let `q0` have just entered a function on the activation
`(rest, lb)` — through a `Call` (`call_enters`) or a `TailCall` (`tailcall_reenters`). After *any*
number of further transitions that stay inside this activation (the frame stack never drops below
its depth), whenever the process is back at the activation's depth and executes a `TailCall`, the
state it re-enters in is again `AtEntry` on the same `(rest, lb)`: in particular, at every re-entry
of a self-tail-recursive function (`r = true`, or `^f` naming the same function) the triple
`(frames.length, locals.length, stack.length)` **equals the one at first entry** — it does not
depend on the number of iterations. -/
theorem loop_head_invariant {P : Prog} {A : Array Anns} {s0 : Nat} (hA : AllChecked P A)
    {q0 q q' : Proc} {rest : List Frame} {lb fi0 : Nat} {r : Bool} {act : Option Action}
    (hinv0 : Inv P A s0 q0) (h0 : AtEntry P A s0 rest lb fi0 q0)
    (hreach : ReachAbove P (rest.length + 1) q0 q)
    (hdepth : q.frames.length = rest.length + 1) (hpark : q.park = .none)
    (hcur : P.currentInstr q = some (.tailCall r))
    (hstep : handleTailCall P q r = .ok (q', act)) :
    ∃ fi, AtEntry P A s0 rest lb fi q' ∧
      (fi = fi0 → q'.frames.length = q0.frames.length ∧ q'.locals.length = q0.locals.length ∧
        q'.stack.length = q0.stack.length) := by
  have hact0 : InActivation rest lb q0 := by
    obtain ⟨f, _, hf, _, hlb, _⟩ := h0.shape
    exact ⟨[], f, by simpa using hf, hlb⟩
  have hboth := reachAbove_inv hA hinv0 hact0 hreach
  obtain ⟨hinv, top, f, hfr, hlb⟩ := hboth
  have htop : top = [] := by
    have := congrArg List.length hfr
    rw [hdepth] at this
    cases top with
    | nil => rfl
    | cons _ _ => simp at this; omega
  subst htop
  simp only [List.nil_append] at hfr
  obtain ⟨fi, hent, _⟩ := tailcall_reenters hA hinv hfr hpark hcur hstep
  rw [hlb] at hent
  refine ⟨fi, hent, ?_⟩
  intro hfi
  subst hfi
  exact hent.sizes_eq h0

/-! ### Examples: a concrete self-tail-recursive function -/

/-- `#'int { | =0 => … | … ^ }`-like loop: compare the argument with constant 0, return it when
equal, otherwise tail-call itself. -/
def loopFn : Function :=
  { instructions := #[.duplicate, .constant 0, .equal 2, .jumpIf 1, .tailCall true], captures := 0, typeId := 0 }

def loopProg : Prog :=
  { constants := #[.int 0], functions := #[loopFn], tuples := #[0, 0], types := 1, builtins := 0 }

def loopOracle : Oracle :=
  { isType := fun _ _ => false, valuesEqual := fun a b => a == b, builtin := fun _ _ => .unrecognised, select := .park }

/-- It is certified (hypothesis `AllChecked` of the theorems above). -/
example : AllChecked loopProg #[inferAnn loopProg 0] := by
  intro f hf
  have : f = 0 := by simp [loopProg] at hf; omega
  subst this
  decide +kernel

/-- Run `k` `run` transitions of the model. -/
def runN (P : Prog) (O : Oracle) : Nat → Proc → Option Proc
  | 0, p => some p
  | k + 1, p =>
    match transition P p (.run O) with
    | some (.ok (p', _)) => runN P O k p'
    | _ => none

/-- One iteration on argument 3 (≠ 0): five instructions later the process has re-entered the
function through `TailCall(true)` with the sizes of the first entry (1 frame, 0 locals, 1 cell),
and so it has after two and after three iterations. -/
example : (runN loopProg loopOracle 5 (Proc.spawn 0 0 [] (.int 3))).map
    (fun p => (p.frames.length, p.locals.length, p.stack.length, p.curCounter)) = some (1, 0, 1, 0) := by
  decide +kernel
example : (runN loopProg loopOracle 10 (Proc.spawn 0 0 [] (.int 3))).map
    (fun p => (p.frames.length, p.locals.length, p.stack.length, p.curCounter)) = some (1, 0, 1, 0) := by
  decide +kernel
example : (runN loopProg loopOracle 15 (Proc.spawn 0 0 [] (.int 3))).map
    (fun p => (p.frames.length, p.locals.length, p.stack.length, p.curCounter)) = some (1, 0, 1, 0) := by
  decide +kernel

/-- The entry state satisfies `AtEntry` on the empty activation (hypothesis `h0` of
`loop_head_invariant` with `rest = []`, `lb = 0`). -/
example : AtEntry loopProg #[inferAnn loopProg 0] 0 [] 0 0 (Proc.spawn 0 0 [] (.int 3)) :=
  ⟨⟨_, loopFn, rfl, rfl, rfl, rfl, rfl, rfl, rfl⟩⟩

end C16
