import QuiverModel.Core.Packaging.Renaming
import QuiverModel.Core.Packaging.Sem
import QuiverModel.Lemmas.Packaging.Exec
import QuiverModel.Lemmas.Packaging.ValueInstrs
import QuiverModel.Lemmas.Packaging.Inject
import QuiverModel.Lemmas.Packaging.Nested
import QuiverModel.Lemmas.Packaging.Canon
import QuiverModel.Lemmas.Packaging.Mark
import QuiverModel.Lemmas.Packaging.Reach
import QuiverModel.Lemmas.Packaging.ReachTransfer
import QuiverModel.Lemmas.Packaging.SweepId
import QuiverModel.Lemmas.Packaging.ShakeResources
import QuiverModel.Lemmas.Packaging.FuelSuffices
import QuiverModel.Core.Packaging.Merge
import QuiverModel.Lemmas.Packaging.MergeImport
import QuiverModel.Lemmas.Packaging.MergeFrame
import QuiverModel.Lemmas.Packaging.MergeLoops
import QuiverModel.Lemmas.Packaging.MergeInj
/-
C10 — packaging steps preserve behaviour (property theorems).

  * `C10.validateB_sound`, `C10.checkRenaming_sound` — the validator is sound: whatever map it
    returns makes `P'` a consistent renaming (`IsRenaming`) of the reachable part of `P`.
  * `C10.checkRenamingExplain_ok_iff` — the driver's entry point agrees with `checkRenaming`.

(`run_commutes_with_renaming`, `valueToInstrs_roundtrip` follow below.)

Further down (the packaging steps themselves, ported into the model):
  * `tree_shake`: `treeShake_structRenaming`, `treeShake_isRenaming`, `treeShake_preserves_behaviour` (T1),
    `treeShake_keeps_exactly_reachable` (T3), `treeShake_result_has_no_dead_entries`, `treeShake_idempotent`,
    `treeShake_idempotent_bytecode`, `treeShake_statement` (T2), `treeShake_fuel_suffices`,
    `legacy_shake_loses_process_entry` (F13 witness); through C08/C09 in Theorems/C10Tables.lean.
  * `merge_bytecode`: `merge_never_disturbs_loaded_programs`, `merge_isRenaming_types_tuples`,
    `merge_isRenaming_partial`, `merge_isRenaming`, `merge_preserves_behaviour`, `merge_fast_path_breaks_renaming`.
-/
namespace C10
open QM QM.Packaging

/-- The validator's Boolean verdict for a given ρ implies the declarative relation. -/
theorem validateB_sound {ρ : Ren} {P P' : Prog} {e e' : Nat}
    (h : validateB ρ P P' e e' = true) : IsRenaming ρ P P' e e' := by
  simp only [validateB, checks, List.all_cons, List.all_nil, Bool.and_true, Bool.and_eq_true] at h
  obtain ⟨hentry, hic, hif, hit, hiy, hib, hnil, hok, hfns, hconsts, htuples, hbuiltins, htypes, hres,
    hcompat, hfparam, hbparam, hcanon⟩ := h
  exact {
    entry := by simpa using hentry
    inj_const := AMap.inj_of_injB hic
    inj_fn := AMap.inj_of_injB hif
    inj_tuple := AMap.inj_of_injB hit
    inj_type := AMap.inj_of_injB hiy
    inj_builtin := AMap.inj_of_injB hib
    nil_fixed := by simpa using hnil
    ok_fixed := by simpa using hok
    fns := fun f f' hf => fnOK_spec (AMap.all_of_get hfns hf)
    consts := fun c c' hc => constOK_spec (AMap.all_of_get hconsts hc)
    tuples := fun t t' ht => tupleOK_spec (AMap.all_of_get htuples ht)
    builtins := fun b b' hb => builtinOK_spec (AMap.all_of_get hbuiltins hb)
    types := fun t t' ht => typeOK_spec (AMap.all_of_get htypes ht)
    resources := fun r r' hr => resourceOK_spec (AMap.all_of_get hres hr)
    compat := fun f f' F hf hF t ht t' ht' c c' hc hp =>
      compatFnOK_spec (AMap.all_of_get hcompat hf) hF ht ht' (mem_presentPairs hc hp)
    fparam := fun f f' hf c c' hc hp =>
      fparamOK_spec (AMap.all_of_get hfparam hf) (mem_presentPairs hc hp)
    bparam := fun b b' hb c c' hc hp =>
      bparamOK_spec (AMap.all_of_get hbparam hb) (mem_presentPairs hc hp)
    canon := fun a a' b b' ha hb => canonOK_spec hcanon ha hb }

/-- **Validator soundness.** If `checkRenaming` returns a map, `P'` is a consistent renaming of the
    reachable part of `P` under that map. (The recovery traversal is not trusted: only its output is
    validated.) -/
theorem checkRenaming_sound {P P' : Prog} {e e' : Nat} {ρ : Ren}
    (h : checkRenaming P P' e e' = some ρ) : IsRenaming ρ P P' e e' := by
  unfold checkRenaming at h
  split at h
  · rename_i ρ0 _
    split at h
    · rename_i hv
      cases h
      exact validateB_sound hv
    · cases h
  · cases h

/-- The driver answers `ok` exactly when `checkRenaming` returns a map (the same one). -/
theorem checkRenamingExplain_ok_iff {P P' : Prog} {e e' : Nat} {ρ : Ren} :
    checkRenamingExplain P P' e e' = .ok ρ ↔ checkRenaming P P' e e' = some ρ := by
  unfold checkRenamingExplain checkRenaming
  split
  · split <;> simp
  · simp

/-- Non-vacuity: a two-function program with a dead function and a dead constant, and its shaken
    form; the validator accepts and recovers the shift. -/
def exP : Prog :=
  { consts := #[.int 7, .int 9],
    fns := #[{ instrs := [.const 0], captures := 0, typeId := 0 },
             { instrs := [.const 1, .function 2, .call, .isType 1], captures := 0, typeId := 0 },
             { instrs := [.tuple 2], captures := 0, typeId := 0 }],
    builtins := #[],
    tuples := #[⟨none, []⟩, ⟨some "Ok", []⟩, ⟨some "A", [(none, 1)]⟩],
    types := #[.callable 1 1 1, .int],
    resources := #[],
    compat := [(1, [.int])],
    canon := #[0, 1, 2] }

def exP' : Prog :=
  { consts := #[.int 9],
    fns := #[{ instrs := [.const 0, .function 1, .call, .isType 1], captures := 0, typeId := 0 },
             { instrs := [.tuple 2], captures := 0, typeId := 0 }],
    builtins := #[],
    tuples := #[⟨none, []⟩, ⟨some "Ok", []⟩, ⟨some "A", [(none, 1)]⟩],
    types := #[.callable 1 1 1, .int],
    resources := #[],
    compat := [(1, [.int])],
    canon := #[0, 1, 2] }

example : (checkRenaming exP exP' 1 0).isSome = true := by decide
example : ∃ ρ, IsRenaming ρ exP exP' 1 0 := by
  have h : (checkRenaming exP exP' 1 0).isSome = true := by decide
  obtain ⟨ρ, hρ⟩ := Option.isSome_iff_exists.mp h
  exact ⟨ρ, checkRenaming_sound hρ⟩
/-- …and rejects when the shaken program's compatibility row lost a tag (the F13 shape). -/
example : checkRenaming exP { exP' with compat := [] } 1 0 = none := by decide

end C10

/-! ## Execution commutes with a validated renaming -/

namespace C10
open QM QM.Packaging

/-- Side condition on a state of the *source* program: if the next instruction is a type test, the
    tested value's tag type has an entry in `P`'s type table (the value lies inside the program's
    type universe). The compiler registers the static type of every scrutinee, so accepted programs
    satisfy it (C01/C08 territory — here a hypothesis); without it what `IsType` answers depends on
    which *other* programs share the table (see notes/C10.md, "tagPresent"). -/
def IsTypeSafe (P : Prog) (s : St) : Prop :=
  ∀ fr rest t v st, s.frames = fr :: rest → fetch P fr = some (.isType t) → s.stack = v :: st →
    P.tagPresent v.tag = true

/-- One step (an instruction, a frame auto-pop, or completion) commutes with the renaming, given how
    the type tests of the current function answer. -/
theorem step_commutes_of {ρ : Ren} {P P' : Prog} {e e' : Nat} (hρ : IsRenaming ρ P P' e e')
    {B B' : BuiltinSem} (hB : BuiltinsCommute ρ B B') {s s' : St} (hs : RelSt ρ s s')
    (hist : ∀ fr rest t t' v v' st, s.frames = fr :: rest → fetch P fr = some (.isType t) →
      (∃ F, P.fns[fr.fn]? = some F ∧ t ∈ isTypeOps F.instrs ∧ ∃ f', ρ.fn.get fr.fn = some f') →
      ρ.type.get t = some t' → s.stack = v :: st → RelVal ρ v v' →
      P.isCompat t v.tag = P'.isCompat t' v'.tag) :
    RelRes ρ (step P B s) (step P' B' s') := by
  obtain ⟨hstack, hlocals, hframes, hpers⟩ := hs
  rcases s with ⟨stk, lo, frs, pe⟩
  rcases s' with ⟨stk', lo', frs', pe'⟩
  simp only at hstack hlocals hframes hpers hist
  subst hpers
  unfold step
  cases hframes with
  | nil =>
    cases hstack with
    | nil => exact .err _
    | cons hv _ => exact .done hv
  | cons hfr hrest =>
    rename_i fr fr' rest rest'
    rcases fetch_rel hρ hfr with ⟨h1, h2⟩ | ⟨i, i', F, hF, hFi, h1, h2, hi⟩
    · simp only [h1, h2, hfr.base]
      have hempty : rest'.isEmpty = rest.isEmpty := by cases hrest <;> rfl
      rw [hempty]
      have hlo : RelVals ρ (if (!pe' || !rest.isEmpty) = true then lo.take fr.base else lo)
          (if (!pe' || !rest.isEmpty) = true then lo'.take fr.base else lo') := by
        split
        · exact hlocals.take _
        · exact hlocals
      cases hrest with
      | nil => exact relNext hstack hlo .nil
      | cons hc hcs => exact relNext hstack hlo (.cons hc.advance hcs)
    · simp only [h1, h2]
      have hs2 : RelSt ρ ⟨stk, lo, fr :: rest, pe'⟩ ⟨stk', lo', fr' :: rest', pe'⟩ :=
        ⟨hstack, hlocals, .cons hfr hrest, rfl⟩
      refine exec_commutes hρ hB hs2 hfr hrest hi ?_
      intro t t' v v' st hit ht hst hv
      subst hit
      exact hist fr rest t t' v v' st rfl h1 ⟨F, hF, mem_isTypeOps hFi, _, hfr.fn⟩ ht hst hv

/-- **One step commutes with a validated renaming**, for a state whose type test (if any) is on a
    value inside the program's type universe. -/
theorem step_commutes {ρ : Ren} {P P' : Prog} {e e' : Nat} (hρ : IsRenaming ρ P P' e e')
    {B B' : BuiltinSem} (hB : BuiltinsCommute ρ B B') {s s' : St} (hs : RelSt ρ s s')
    (hsafe : IsTypeSafe P s) : RelRes ρ (step P B s) (step P' B' s') := by
  refine step_commutes_of hρ hB hs ?_
  intro fr rest t t' v v' st hfrs hfetch ⟨F, hF, hmem, f', hf'⟩ ht hst hv
  exact hρ.compat _ _ F hf' hF t hmem t' ht _ _ hv.tag (hsafe fr rest t v st hfrs hfetch hst)

/-- Under the strict form no side condition is needed. -/
theorem step_commutes_strict {ρ : Ren} {P P' : Prog} {e e' : Nat} (hρ : IsRenamingStrict ρ P P' e e')
    {B B' : BuiltinSem} (hB : BuiltinsCommute ρ B B') {s s' : St} (hs : RelSt ρ s s') :
    RelRes ρ (step P B s) (step P' B' s') := by
  refine step_commutes_of hρ.toIsRenaming hB hs ?_
  intro fr rest t t' v v' st _ _ ⟨F, hF, hmem, f', hf'⟩ ht _ hv
  exact hρ.compat_all _ _ F hf' hF t hmem t' ht _ _ hv.tag

/-- The start states of the two entries are related (`spawn_process(entry, [], argument)`). -/
theorem start_related {ρ : Ren} {P P' : Prog} {e e' : Nat} (hρ : IsRenaming ρ P P' e e') {a a' : Val}
    (ha : RelVal ρ a a') : RelSt ρ (St.start e a) (St.start e' a') :=
  ⟨.cons ha .nil, .nil, .cons ⟨hρ.entry, rfl, rfl, rfl⟩ .nil, rfl⟩

/-- **Execution commutes with renaming** (`stepsTo P s t → stepsTo P' (ρ s) (ρ t)`): every state `P`
    reaches from `s` is matched by a ρ-related state `P'` reaches from the related `s'` in the same
    number of steps — for every input, every execution length, every builtin semantics that commutes
    with ρ. Covers tree-shake and merge for all executions at once. -/
theorem run_commutes_with_renaming {ρ : Ren} {P P' : Prog} {e e' : Nat} (hρ : IsRenaming ρ P P' e e')
    {B B' : BuiltinSem} (hB : BuiltinsCommute ρ B B') {s t : St} (hst : Steps P B s t) :
    ∀ {s' : St}, RelSt ρ s s' → (∀ u, Steps P B s u → IsTypeSafe P u) →
      ∃ t', Steps P' B' s' t' ∧ RelSt ρ t t' := by
  induction hst with
  | refl s => intro s' hs _; exact ⟨s', .refl s', hs⟩
  | @cons s m u hstep _ ih =>
    intro s' hs hsafe
    have h1 := step_commutes hρ hB hs (hsafe s (.refl s))
    rw [hstep] at h1
    generalize hstep' : step P' B' s' = r' at h1
    cases h1 with
    | next hm =>
      obtain ⟨t', ht', hrel⟩ := ih hm (fun u hu => hsafe u (.cons hstep hu))
      exact ⟨t', .cons hstep' ht', hrel⟩

/-- …and so do the *results*: whatever a fuelled run of `P` ends with (value, error class, panic,
    or a yield to the scheduler with its state), the run of `P'` with the same fuel ends with the
    ρ-related result. -/
theorem run_result_commutes {ρ : Ren} {P P' : Prog} {e e' : Nat} (hρ : IsRenaming ρ P P' e e')
    {B B' : BuiltinSem} (hB : BuiltinsCommute ρ B B') :
    ∀ (fuel : Nat) {s s' : St} {r : Res}, RelSt ρ s s' → (∀ u, Steps P B s u → IsTypeSafe P u) →
      run P B fuel s = some r → ∃ r', run P' B' fuel s' = some r' ∧ RelRes ρ r r'
  | 0, _, _, _, _, _, h => by simp [run] at h
  | fuel + 1, s, s', r, hs, hsafe, h => by
    have h1 := step_commutes hρ hB hs (hsafe s (.refl s))
    simp only [run] at h ⊢
    generalize hstep' : step P' B' s' = r' at h1
    cases hstep : step P B s with
    | next m =>
      rw [hstep] at h h1
      cases h1 with
      | next hm => exact run_result_commutes hρ hB fuel hm (fun u hu => hsafe u (.cons hstep hu)) h
    | err e0 =>
      rw [hstep] at h h1; cases h
      cases h1 with
      | err => exact ⟨_, rfl, .err _⟩
    | panic =>
      rw [hstep] at h h1; cases h
      cases h1 with
      | panic => exact ⟨_, rfl, .panic⟩
    | yield m i =>
      rw [hstep] at h h1; cases h
      cases h1 with
      | yield hm hi => exact ⟨_, rfl, .yield hm hi⟩
    | done v =>
      rw [hstep] at h h1; cases h
      cases h1 with
      | done hv => exact ⟨_, rfl, .done hv⟩

/-- The same without any side condition, for pairs the validator reports as `strict`. -/
theorem run_commutes_strict {ρ : Ren} {P P' : Prog} {e e' : Nat} (hρ : IsRenamingStrict ρ P P' e e')
    {B B' : BuiltinSem} (hB : BuiltinsCommute ρ B B') {s t : St} (hst : Steps P B s t) :
    ∀ {s' : St}, RelSt ρ s s' → ∃ t', Steps P' B' s' t' ∧ RelSt ρ t t' := by
  induction hst with
  | refl s => intro s' hs; exact ⟨s', .refl s', hs⟩
  | @cons s m u hstep _ ih =>
    intro s' hs
    have h1 := step_commutes_strict hρ hB hs
    rw [hstep] at h1
    generalize hstep' : step P' B' s' = r' at h1
    cases h1 with
    | next hm =>
      obtain ⟨t', ht', hrel⟩ := ih hm
      exact ⟨t', .cons hstep' ht', hrel⟩

/-- The strict check is sound as well. -/
theorem strictB_sound {ρ : Ren} {P P' : Prog} {e e' : Nat} (h : validateB ρ P P' e e' = true)
    (hs : strictB ρ P P' = true) : IsRenamingStrict ρ P P' e e' :=
  { toIsRenaming := validateB_sound h
    compat_all := fun _ _ _ hf hF _ ht _ ht' _ _ hc =>
      compatFnOK_spec (AMap.all_of_get hs hf) hF ht ht' (mem_tagPairs hc) }

/-- **The `canon` clause of `IsRenaming` follows from name/label preservation** when both `canon`
    tables are the ones `compute_canonical_tuples` computes (`Prog.CanonComputed`, decided by
    `canonComputedB` and checked per program by the driver): two tuple ids are canonically equal iff
    their name and field labels agree (`canonOf_eq_iff_shape`), and the `tuples` clause says ρ preserves
    both. So `Equal` can be trusted across a renaming without looking at the tables at all. -/
theorem canon_of_name_label_preservation {ρ : Ren} {P P' : Prog} (hc : P.CanonComputed) (hc' : P'.CanonComputed)
    (htup : ∀ t t', ρ.tuple.get t = some t' →
      ∃ T T', P.tuples[t]? = some T ∧ P'.tuples[t']? = some T' ∧ T'.name = T.name ∧
        T'.fields.map (·.1) = T.fields.map (·.1) ∧
        mapOpt (fun (p : Option String × Nat) => ρ.type.get p.2) T.fields = some (T'.fields.map (·.2))) :
    ∀ a a' b b', ρ.tuple.get a = some a' → ρ.tuple.get b = some b' →
      (P.canonOf a = P.canonOf b ↔ P'.canonOf a' = P'.canonOf b') := by
  intro a a' b b' ha hb
  obtain ⟨Ta, Ta', hTa, hTa', hna, hla, _⟩ := htup a a' ha
  obtain ⟨Tb, Tb', hTb, hTb', hnb, hlb, _⟩ := htup b b' hb
  rw [canonOf_eq_iff_shape hc hTa hTb, canonOf_eq_iff_shape hc' hTa' hTb']
  have ea : shapeOf Ta' = shapeOf Ta := by simp [shapeOf, hna, hla]
  have eb : shapeOf Tb' = shapeOf Tb := by simp [shapeOf, hnb, hlb]
  rw [ea, eb]

/-- Non-vacuity of the execution theorem: `exP` run from its entry reaches a final state, and the
    shaken `exP'` reaches the related one. -/
example : ∃ r, run exP (fun _ _ => .panic) 20 (St.start 1 Val.nil) = some r := ⟨_, rfl⟩

end C10

/-! ## Import = evaluate in place: the value → instructions round trip -/

namespace C10
open QM QM.Packaging

/-- **`valueToInstrs_roundtrip`** (model of `value_to_instructions_from_cache`, used for `%m` and
    `%m.f`): if emission succeeds for a well-formed value `v` — every tuple / function / builtin id
    resolves in `P` with the right arity, which holds for any value the VM built from `P` — then
    (1) the program only grew (`P.Le P1`), and (2) wherever the emitted sequence is placed (any
    function, any offset, any surrounding stack / locals / frames, any later extension `Q` of the
    program, any builtin semantics) running it leaves **exactly `v`** on top of the untouched stack,
    locals and frames unchanged, `pc` just past the sequence. So using an imported value is the same
    as having evaluated the module body in place. Closures keep their captures (`Function(f)` pops
    the re-emitted capture values). -/
theorem valueToInstrs_roundtrip {P P1 : Prog} {v : Val} {is : List Instr}
    (h : v2iA P v = some (P1, is)) (hw : WfVal P v) :
    P.Le P1 ∧
    ∀ (Q : Prog), P1.Le Q → ∀ (B : BuiltinSem) (S L : List Val) (fn base caps pc : Nat) (rest : List Frame)
      (pers : Bool), CodeAt Q fn pc is →
      Steps Q B ⟨S, L, ⟨fn, base, caps, pc⟩ :: rest, pers⟩
                ⟨v :: S, L, ⟨fn, base, caps, pc + is.length⟩ :: rest, pers⟩ := by
  obtain ⟨hle, hreb⟩ := v2iA_rebuilds v P P1 is h hw
  exact ⟨hle, fun Q hQ B S L fn base caps pc rest pers hc => by
    simpa using hreb Q hQ B S L fn base caps pc rest pers hc⟩

/-- Emission fails only where the Rust reports an error: it succeeds on every well-formed value. -/
theorem valueToInstrs_total_on_wf : ∀ (v : Val) (P : Prog), WfVal P v → (v2iA P v).isSome = true := by
  intro v P hw
  suffices h : (∀ (v : Val) (P : Prog), WfVal P v → (v2iA P v).isSome = true) ∧
      (∀ (vs : List Val) (P : Prog), WfVals P vs → (v2iAList P vs).isSome = true) from h.1 v P hw
  clear hw v P
  have key : ∀ n, (∀ (v : Val) (P : Prog), sizeOf v ≤ n → WfVal P v → (v2iA P v).isSome = true) ∧
      (∀ (vs : List Val) (P : Prog), sizeOf vs ≤ n → WfVals P vs → (v2iAList P vs).isSome = true) := by
    intro n
    induction n with
    | zero =>
      constructor
      · intro v P hsz _; cases v <;> simp at hsz
      · intro vs P hsz _
        cases vs with
        | nil => simp [v2iAList]
        | cons v vs => simp at hsz
    | succ n ih =>
      constructor
      · intro v P hsz hw
        cases v with
        | int z => simp [v2iA]
        | bin bs => simp [v2iA]
        | ref r => exact hw.elim
        | proc a b => exact hw.elim
        | res a b => exact hw.elim
        | builtin b =>
          have hb : b < P.builtins.size := hw
          simp [v2iA, hb]
        | tuple t fs =>
          obtain ⟨_, hfs⟩ := hw
          have := ih.2 fs P (by simp at hsz; omega) hfs
          simp only [v2iA]
          cases hl : v2iAList P fs with
          | none => rw [hl] at this; cases this
          | some r => simp
        | fn f cs =>
          obtain ⟨⟨F, hF, _⟩, hcs⟩ := hw
          have := ih.2 cs P (by simp at hsz; omega) hcs
          simp only [v2iA, hF]
          cases hl : v2iAList P cs with
          | none => rw [hl] at this; cases this
          | some r => simp
      · intro vs P hsz hw
        cases vs with
        | nil => simp [v2iAList]
        | cons v vs =>
          have h1 := ih.1 v P (by simp at hsz; omega) hw.1
          simp only [v2iAList]
          cases hv : v2iA P v with
          | none => rw [hv] at h1; cases h1
          | some r =>
            obtain ⟨P1, i1⟩ := r
            have hle := (v2iA_rebuilds v P P1 i1 hv hw.1).1
            have h2 := ih.2 vs P1 (by simp at hsz; omega) (WfVals.mono hle vs hw.2)
            simp only
            cases hvs : v2iAList P1 vs with
            | none => rw [hvs] at h2; cases h2
            | some r2 => simp
  exact ⟨fun v P hw => (key (sizeOf v)).1 v P (Nat.le_refl _) hw,
         fun vs P hw => (key (sizeOf vs)).2 vs P (Nat.le_refl _) hw⟩

/-- What the compiler guarantees about a function body and capture injection relies on (C07's
    checker certifies the first for every emitted function): every jump lands inside the function
    (`0 ≤ target ≤ length`), and the function never resets its locals below its `n` captures. -/
structure BodyOK (F : Fn) (n : Nat) : Prop where
  jumps : ∀ (pc : Nat) (off : Int), (F.instrs[pc]? = some (.jump off) ∨ F.instrs[pc]? = some (.jumpIf off)) →
    0 ≤ (pc : Int) + off + 1 ∧ (pc : Int) + off + 1 ≤ F.instrs.length
  resets : ∀ (pc m : Nat), F.instrs[pc]? = some (.reset m) → n ≤ m

/-- Statement of behavioural equivalence for capture injection (`inject_function_captures`, the
    `quiv run` / `quiv compile` entry extraction) **in full generality** — any captures, including
    closures that capture themselves something: the injected capture-free function `g`, called with
    `a`, ends like the closure `fn f caps` called with `a`. For captures without nested capturing
    closures this is `injectCaptures_equiv` below (proved). In full generality the statement needs a
    value relation (a nested capturing closure is itself replaced by an injected function, so results
    are equal only up to that replacement, see `Rebuilt`) and is false as soon as such closures are
    compared with `Equal` (two closures whose captures are shape-equal but built with different tuple
    ids are `values_equal`, their injected functions are different indices) — it is kept as the
    statement, not claimed. -/
def InjectCapturesEquivStatement : Prop :=
  ∀ (P P2 : Prog) (f g : Nat) (caps : List Val) (F : Fn) (B : BuiltinSem) (a : Val) (fuel : Nat) (r : Res),
    injectCaptures P f caps = some (P2, g) → WfVals P caps → P.fns[f]? = some F → BodyOK F caps.length →
    run P2 B fuel ⟨[a], caps, [⟨f, 0, caps.length, 0⟩], false⟩ = some r →
    (∀ v, r = .done v → ∃ fuel', run P2 B fuel' (St.start g a) = some (.done v)) ∧
    (∀ e, r = .err e → ∃ fuel', run P2 B fuel' (St.start g a) = some (.err e))

/-- **`injectCaptures_prelude_partial`.** For captures that contain no closure with captures of their
    own (integers, binaries, tuples, builtins, capture-free functions — `Flat`): the injected function
    `g` consists of a prelude followed by exactly the body of `f`, and running the prelude in the frame
    a call of `g` creates (no captures, `pc = 0`) reaches the first instruction of the body with the
    stack untouched (the argument is still on top) and **the closure's captures, in order, as the frame's first locals** —
    the configuration `Call` creates for the closure `fn f caps` itself. (Storing them in another order
    — e.g. reversed — falsifies this theorem.) -/
theorem injectCaptures_prelude_partial {P P2 : Prog} {f g : Nat} {caps : List Val}
    (h : injectCaptures P f caps = some (P2, g)) (hw : WfVals P caps) (hfl : FlatList caps) :
    P.Le P2 ∧ ∃ (F : Fn) (prelude : List Instr),
      P2.fns[f]? = some F ∧
      P2.fns[g]? = some { instrs := prelude ++ F.instrs, captures := 0, typeId := F.typeId } ∧
      ∀ (Q : Prog), P2.Le Q → ∀ (B : BuiltinSem) (S L : List Val) (base : Nat) (rest : List Frame)
        (pers : Bool),
        Steps Q B ⟨S, L, ⟨g, base, 0, 0⟩ :: rest, pers⟩
                  ⟨S, L ++ caps, ⟨g, base, 0, prelude.length⟩ :: rest, pers⟩ := by
  unfold injectCaptures at h
  split at h
  · cases h
  · rename_i P1 prelude hst
    split at h
    · cases h
    · rename_i F hF
      obtain ⟨hle1, hstores⟩ := v2iBStores_stores caps P P1 prelude hst hw hfl
      have hle2 := registerFn_le P1 { instrs := prelude ++ F.instrs, captures := 0, typeId := F.typeId }
      have hget := registerFn_get P1 { instrs := prelude ++ F.instrs, captures := 0, typeId := F.typeId }
      simp only [Option.some.injEq] at h
      rw [h] at hle2 hget
      simp only at hle2 hget
      refine ⟨hle1.trans hle2, F, prelude, hle2.fns _ _ hF, hget, ?_⟩
      intro Q hQ B S L base rest pers
      have hcode : CodeAt Q g 0 prelude := by
        intro k i hk
        refine ⟨_, hQ.fns _ _ hget, ?_⟩
        have hlt : k < prelude.length := by
          rcases Nat.lt_or_ge k prelude.length with h | h
          · exact h
          · rw [List.getElem?_eq_none h] at hk; cases hk
        simp only [Nat.zero_add]
        rw [List.getElem?_append_left hlt]; exact hk
      have := hstores Q (hle2.trans hQ) B S L g base 0 0 rest pers hcode
      simpa using this

/-- **`injectCaptures_equiv`** — capture injection preserves behaviour, for captures without nested
    capturing closures. In any program `Q` extending the injected one, with any builtin semantics, for
    every argument `a` and every execution: if the call of the closure `fn f caps` with `a` (frame of
    `f`, captures as the first locals) ends with a value / an error class / a panic, then the call of
    the injected function `g` with `a` (`spawn_process(g, [], a)`, what `quiv run` executes) ends with
    **the same** value / error class / panic (after possibly more steps: each `TailCall(true)` re-runs
    the prelude); if it yields to the scheduler, so does the other, at the same instruction, with
    identical stack and locals and frames that differ only in the bottom frame (`f@pc` vs
    `g@pc+prelude.length`). -/
theorem injectCaptures_equiv {P P2 : Prog} {f g : Nat} {caps : List Val} {F : Fn}
    (h : injectCaptures P f caps = some (P2, g)) (hw : WfVals P caps) (hfl : FlatList caps)
    (hF : P.fns[f]? = some F) (hbody : BodyOK F caps.length)
    (hsize : ∀ G, P2.fns[g]? = some G → G.instrs.length < 2 ^ 64) :
    ∀ (Q : Prog), P2.Le Q → ∀ (B : BuiltinSem) (a : Val) (pers : Bool) (fuel : Nat) (r : Res),
      run Q B fuel ⟨[a], caps, [⟨f, 0, caps.length, 0⟩], pers⟩ = some r →
      ∃ fuel' r', run Q B fuel' ⟨[a], [], [⟨g, 0, 0, 0⟩], pers⟩ = some r' ∧
        (∀ v, r = .done v → r' = .done v) ∧ (∀ e, r = .err e → r' = .err e) ∧ (r = .panic → r' = .panic) ∧
        (∀ t i, r = .yield t i → ∃ t', r' = .yield t' i ∧ t'.stack = t.stack ∧ t'.locals = t.locals) := by
  obtain ⟨hle, F', prelude, hF2, hG, hpre⟩ := injectCaptures_prelude_partial h hw hfl
  have hFF : F' = F := by
    have := hle.fns _ _ hF
    rw [hF2] at this; cases this; rfl
  subst hFF
  intro Q hQ B a pers fuel r hrun
  have hlen : (prelude ++ F'.instrs).length < 2 ^ 64 := hsize _ hG
  have hs : InjSetup Q B f g prelude.length caps.length caps F' prelude :=
    { hF := hQ.fns _ _ hF2
      hG := hQ.fns _ _ hG
      hk := rfl
      hn := rfl
      prelude := fun S L base rest pers => hpre Q hQ B S L base rest pers
      jumps := fun pc off hj => by
        obtain ⟨h0, h1⟩ := hbody.jumps pc off hj
        refine ⟨h0, ?_⟩
        have : ((prelude ++ F'.instrs).length : Int) < 2 ^ 64 := by exact_mod_cast hlen
        simp only [List.length_append, Int.natCast_add] at this
        omega
      resets := hbody.resets }
  -- after the prelude the `g` run is in the state related to the closure's start state
  have hstart := hpre Q hQ B [a] [] 0 [] pers
  simp only [List.nil_append] at hstart
  have hR : InjRel f g prelude.length caps.length 0 caps
      ⟨[a], caps, [⟨f, 0, caps.length, 0⟩], pers⟩ ⟨[a], caps, [⟨g, 0, 0, prelude.length⟩], pers⟩ :=
    ⟨rfl, rfl, rfl, Or.inr ⟨[], 0, rfl, (by simp), (by intro fr hfr; cases hfr), (by simp), (by simp)⟩⟩
  obtain ⟨fuel1, r', hrun', hrel⟩ := inj_sim_run hs fuel hR hrun
  obtain ⟨fuel2, hrun2⟩ := run_mono_steps hstart hrun'
  refine ⟨fuel2, r', hrun2, ?_, ?_, ?_, ?_⟩
  · intro v hv; subst hv; cases hrel; rfl
  · intro e he; subst he; cases hrel; rfl
  · intro hp; subst hp; cases hrel; rfl
  · intro t i ht; subst ht
    cases hrel with
    | yield _ hRt => exact ⟨_, rfl, hRt.stack, hRt.locals⟩

/-- The `done` / `err` part in the shape of `InjectCapturesEquivStatement` (for `Flat` captures). -/
theorem injectCaptures_equiv_results {P P2 : Prog} {f g : Nat} {caps : List Val} {F : Fn}
    (h : injectCaptures P f caps = some (P2, g)) (hw : WfVals P caps) (hfl : FlatList caps)
    (hF : P.fns[f]? = some F) (hbody : BodyOK F caps.length)
    (hsize : ∀ G, P2.fns[g]? = some G → G.instrs.length < 2 ^ 64)
    (B : BuiltinSem) (a : Val) (fuel : Nat) (r : Res)
    (hrun : run P2 B fuel ⟨[a], caps, [⟨f, 0, caps.length, 0⟩], false⟩ = some r) :
    (∀ v, r = .done v → ∃ fuel', run P2 B fuel' (St.start g a) = some (.done v)) ∧
    (∀ e, r = .err e → ∃ fuel', run P2 B fuel' (St.start g a) = some (.err e)) := by
  obtain ⟨fuel', r', hrun', hd, he, _, _⟩ :=
    injectCaptures_equiv h hw hfl hF hbody hsize P2 (Prog.Le.refl _) B a false fuel r hrun
  constructor
  · intro v hv; exact ⟨fuel', by rw [← hd v hv]; exact hrun'⟩
  · intro e hev; exact ⟨fuel', by rw [← he e hev]; exact hrun'⟩

/-- **`injectCaptures_prelude_nested`** — the prelude theorem for *arbitrary* captures, nested
    capturing closures included (what `Program::value_to_instructions` does recursively): the injected
    function `g` is a prelude followed by the body of `f`, and its prelude stores — in order — the
    captures **rebuilt**: every capturing closure inside them is itself replaced by an injected
    capture-free function with the same property (`Rebuilt`, recursively). For captures without
    nested capturing closures `Rebuilt` is equality and this is `injectCaptures_prelude_partial`. -/
theorem injectCaptures_prelude_nested {P P2 : Prog} {f g : Nat} {caps : List Val}
    (h : injectCaptures P f caps = some (P2, g)) (hw : WfVals P caps) :
    P.Le P2 ∧ ∃ (F : Fn) (prelude : List Instr) (caps' : List Val),
      P2.fns[f]? = some F ∧
      P2.fns[g]? = some { instrs := prelude ++ F.instrs, captures := 0, typeId := F.typeId } ∧
      All2 (Rebuilt P2) caps caps' ∧ PreludeStores P2 g prelude caps' := by
  unfold injectCaptures at h
  split at h
  · cases h
  · rename_i P1 prelude hst
    split at h
    · cases h
    · rename_i F hF
      obtain ⟨hle1, caps', hreb, hstores⟩ := v2iBStores_nested caps P P1 prelude hst hw
      have hle2 := registerFn_le P1 { instrs := prelude ++ F.instrs, captures := 0, typeId := F.typeId }
      have hget := registerFn_get P1 { instrs := prelude ++ F.instrs, captures := 0, typeId := F.typeId }
      simp only [Option.some.injEq] at h
      rw [h] at hle2 hget
      simp only at hle2 hget
      refine ⟨hle1.trans hle2, F, prelude, caps', hle2.fns _ _ hF, hget, Rebuilt.monoList hle2 _ _ hreb, ?_⟩
      intro Q' hQ' B S L base rest pers
      have hcode : CodeAt Q' g 0 prelude := by
        intro k i hk
        refine ⟨_, hQ'.fns _ _ hget, ?_⟩
        have hlt : k < prelude.length := by
          rcases Nat.lt_or_ge k prelude.length with h | h
          · exact h
          · rw [List.getElem?_eq_none h] at hk; cases hk
        simp only [Nat.zero_add]
        rw [List.getElem?_append_left hlt]; exact hk
      have := hstores Q' (hle2.trans hQ') B S L g base 0 0 rest pers hcode
      simpa using this

/-- Non-vacuity: a closure capturing an integer and a tuple, injected into a small program. -/
example : ∃ P2 g, injectCaptures exP 2 [.int 5, .tuple 2 [.int 6]] = some (P2, g) ∧
    (P2.fns[g]?).map (·.instrs) = some [.const 2, .store, .const 3, .tuple 2, .store, .tuple 2] := by
  refine ⟨_, _, rfl, ?_⟩
  decide

end C10

/-! ## `tree_shake` itself, for every program -/

namespace C10
open QM QM.Packaging

/-- **(T1, structural part) — for EVERY program and entry.** Whenever the port of `tree_shake` returns
    (the Rust does not index out of range on a dangling id), the shaken program is a structural renaming
    of the original by the rank tables the sweep builds: entry ↦ entry, every kept function is the
    instruction-by-instruction image of the original, its callable type / every kept constant, tuple,
    builtin and type entry is the image of the original entry, all five tables are injective, NIL and OK
    keep ids 0 and 1. Proved from the mark phase (`markAll_closed`: the marks are closed under reference —
    a fixpoint argument over the guarded mutual recursion of `collect_type_refs` / `collect_tuple_refs`,
    the BFS, the builtin pass and the index-only pass) and the sweep phase (`sweep_structRenaming`). The
    port is tied to optimisation.rs by exact equality of the produced bytecode on every program the
    harness packages (`shake:model-equals-tree_shake`). -/
theorem treeShake_structRenaming {P : Prog} {e : Nat} {out : ShakeOut} (h : treeShake P e = some out) :
    IsStructRenaming out.ren P out.prog e out.entry := by
  unfold treeShake treeShakeWith at h
  split at h
  · cases h
  · rename_i m hm
    exact (sweep_structRenaming h (markAll_closed hm)).2

/-- the same for the sweep before 5a04882 — it is a structural renaming too: what it loses is not
    structure but a *table row* (see `legacy_shake_loses_process_entry`) -/
theorem treeShakeLegacy_structRenaming {P : Prog} {e : Nat} {out : ShakeOut}
    (h : treeShakeWith true P e = some out) : IsStructRenaming out.ren P out.prog e out.entry := by
  unfold treeShakeWith at h
  split at h
  · cases h
  · rename_i m hm
    exact (sweep_structRenaming h (markAll_closed hm)).2

/-- The three run-time tables `tree_shake` does not produce (the loader recomputes them from the shaken
    type table): what remains to be known about them — per instance by `validateB`, in general by C08's
    `rename_invariant` — for the shaken program to be a full `IsRenaming`. -/
structure TablesAgree (ρ : Ren) (P P' : Prog) : Prop where
  compat : ∀ f f' F, ρ.fn.get f = some f' → P.fns[f]? = some F → ∀ t, t ∈ isTypeOps F.instrs →
    ∀ t', ρ.type.get t = some t' → ∀ c c', renameTag ρ c = some c' → P.tagPresent c = true →
      P.isCompat t c = P'.isCompat t' c'
  fparam : ∀ f f', ρ.fn.get f = some f' → ∀ c c', renameTag ρ c = some c' → P.tagPresent c = true →
    P.msgCompatFn f c = P'.msgCompatFn f' c'
  bparam : ∀ b b', ρ.builtin.get b = some b' → ∀ c c', renameTag ρ c = some c' → P.tagPresent c = true →
    P.msgCompatBuiltin b c = P'.msgCompatBuiltin b' c'
  resources : ∀ r r', ρ.resource.get r = some r' → ∃ n, P.resources[r]? = some n ∧ P'.resources[r']? = some n

/-- **(T1) Shaking preserves behaviour for all programs, inputs and execution lengths.** `P'` is the
    shaken bytecode as loaded (same six tables as `treeShake` produced, plus the recomputed lookup
    tables). If the canonical-tuple tables are the computed ones and the compatibility tables agree
    through the sweep's renaming (`TablesAgree`), then `P'` is a full `IsRenaming` of `P`, hence every run
    of `P` from the entry is matched step for step by a related run of `P'`
    (`run_commutes_with_renaming`). -/
theorem treeShake_isRenaming {P P' : Prog} {e : Nat} {out : ShakeOut} (h : treeShake P e = some out)
    (hfns : P'.fns = out.prog.fns) (hconsts : P'.consts = out.prog.consts) (htuples : P'.tuples = out.prog.tuples)
    (hbuiltins : P'.builtins = out.prog.builtins) (htypes : P'.types = out.prog.types)
    (hc : P.CanonComputed) (hc' : P'.CanonComputed) (ht : TablesAgree out.ren P P') :
    IsRenaming out.ren P P' e out.entry := by
  have hs := treeShake_structRenaming h
  have hs' : IsStructRenaming out.ren P P' e out.entry :=
    { entry := hs.entry, inj_const := hs.inj_const, inj_fn := hs.inj_fn, inj_tuple := hs.inj_tuple,
      inj_type := hs.inj_type, inj_builtin := hs.inj_builtin, nil_fixed := hs.nil_fixed, ok_fixed := hs.ok_fixed,
      fns := by rw [hfns]; exact hs.fns
      consts := by rw [hconsts]; exact hs.consts
      tuples := by rw [htuples]; exact hs.tuples
      builtins := by rw [hbuiltins]; exact hs.builtins
      types := by rw [htypes]; exact hs.types }
  exact hs'.toIsRenaming ht.resources ht.compat ht.fparam ht.bparam
    (canon_of_name_label_preservation hc hc' hs'.tuples)

theorem treeShake_preserves_behaviour {P P' : Prog} {e : Nat} {out : ShakeOut} (h : treeShake P e = some out)
    (hfns : P'.fns = out.prog.fns) (hconsts : P'.consts = out.prog.consts) (htuples : P'.tuples = out.prog.tuples)
    (hbuiltins : P'.builtins = out.prog.builtins) (htypes : P'.types = out.prog.types)
    (hc : P.CanonComputed) (hc' : P'.CanonComputed) (ht : TablesAgree out.ren P P')
    {B B' : BuiltinSem} (hB : BuiltinsCommute out.ren B B') {a a' : Val} (ha : RelVal out.ren a a') {t : St}
    (hrun : Steps P B (St.start e a) t) (hsafe : ∀ u, Steps P B (St.start e a) u → IsTypeSafe P u) :
    ∃ t', Steps P' B' (St.start out.entry a') t' ∧ RelSt out.ren t t' := by
  have hρ := treeShake_isRenaming h hfns hconsts htuples hbuiltins htypes hc hc' ht
  exact run_commutes_with_renaming hρ hB hrun (start_related hρ ha) hsafe

/-- Statement of (T2) idempotence and (T3 ⊇) in one formula. PROVED below: `treeShake_statement`, from
    `treeShake_idempotent` (five tables, entry, identity remap tables — every program and entry),
    `treeShake_idempotent_bytecode` (the resource-name list too: `second_shake_resources`), `treeShake_keeps_everything_reachable` (`Closed`),
    `treeShake_keeps_exactly_reachable` (T3 both directions), `treeShake_fuel_suffices`; (T1) is
    `treeShake_preserves_behaviour` (modulo `TablesAgree`) and `C10.treeShake_preserves_behaviour_computed`
    (Theorems/C10Tables.lean: `TablesAgree` derived from `TablesComputed` + `PresenceKept`). The driver still checks
    per instance that `validateB` accepts the port's own renaming against the real tables and that shaking the shaken
    program returns it unchanged (including the resource list). -/
def TreeShakeStatement : Prop :=
  ∀ (P : Prog) (e : Nat) (out : ShakeOut), treeShake P e = some out →
    -- T2: shaking again changes nothing and renames by the identity
    (∀ out2, treeShake out.prog out.entry = some out2 →
      bytecodeDiff out2.prog out.prog = none ∧ out2.entry = out.entry ∧ ∀ f f', out2.ren.fn.get f = some f' → f' = f) ∧
    -- T3 (⊇): the marks are closed under reference — everything reachable is kept
    Closed P e out.marks

/-- the part of the statement that is proved: T3 (⊇) -/
theorem treeShake_keeps_everything_reachable {P : Prog} {e : Nat} {out : ShakeOut} (h : treeShake P e = some out) :
    out.ren = shakeRen P out.marks ∧ Closed P e out.marks := by
  unfold treeShake treeShakeWith at h
  split at h
  · cases h
  · rename_i m hm
    have hc := markAll_closed hm
    have hr := (sweep_structRenaming h hc).1
    have hmarks : out.marks = m := by
      simp only [sweep] at h
      split at h
      · split at h
        · cases h
        · cases h; rfl
      · cases h
    rw [hmarks]
    exact ⟨by rw [hr], hc⟩

/-- the marks a successful shake reports are the marks `markAll` computed -/
theorem treeShake_marks {P : Prog} {e : Nat} {out : ShakeOut} (h : treeShake P e = some out) :
    markAll P e false = some out.marks := by
  unfold treeShake treeShakeWith at h
  split at h
  · cases h
  · rename_i m hm
    have hmarks : out.marks = m := by
      simp only [sweep] at h
      split at h
      · split at h
        · cases h
        · cases h; rfl
      · cases h
    rw [hmarks]; exact hm

/-- **(T3 ⊆) Everything kept is reachable** — the converse invariant of the mark phase: every function,
    constant, tuple, type, builtin and resource name that `tree_shake` keeps is justified by a reference
    path from the entry, the NIL / OK tuples, or the index-only rule (`Reach`, Lemmas/Packaging/Reach.lean);
    for every program and entry. -/
theorem treeShake_keeps_only_reachable {P : Prog} {e : Nat} {out : ShakeOut} (h : treeShake P e = some out) :
    Just P e out.marks :=
  markAll_just (treeShake_marks h)

theorem treeShake_sweep {P : Prog} {e : Nat} {out : ShakeOut} (h : treeShake P e = some out) :
    sweep P e out.marks = some out := by
  have hm := treeShake_marks h
  unfold treeShake treeShakeWith at h
  rw [hm] at h
  exact h

/-- **(T3) Exactness: `tree_shake` keeps exactly what is reachable.** For every program and entry on which
    the shake succeeds, a function / constant / tuple / type / builtin is kept **iff** it is reachable
    (`Reach`: the entry, NIL and OK, what kept functions' instructions name — with the first `Type::Tuple`
    entry of a constructed tuple —, what kept types / tuples / builtins refer to, and the index-only entries
    of 5a04882). Resource names: kept ⇒ reachable (the other direction is not tracked by `Closed`). -/
theorem treeShake_keeps_exactly_reachable {P : Prog} {e : Nat} {out : ShakeOut} (h : treeShake P e = some out) :
    (∀ f, f ∈ out.marks.fns ↔ Reach P e (.fn f)) ∧ (∀ c, c ∈ out.marks.consts ↔ Reach P e (.const c)) ∧
    (∀ u, u ∈ out.marks.tuples ↔ Reach P e (.tuple u)) ∧ (∀ t, t ∈ out.marks.types ↔ Reach P e (.ty t)) ∧
    (∀ b, b ∈ out.marks.builtins ↔ Reach P e (.builtin b)) ∧ (∀ n, n ∈ out.marks.resources → Reach P e (.res n)) := by
  have hj := treeShake_keeps_only_reachable h
  have hr := reach_marked (treeShake_marks h) (treeShake_sweep h)
  exact ⟨fun f => ⟨hj.fns f, hr (.fn f)⟩, fun c => ⟨hj.consts c, hr (.const c)⟩,
    fun u => ⟨hj.tuples u, hr (.tuple u)⟩, fun t => ⟨hj.types t, hr (.ty t)⟩,
    fun b => ⟨hj.builtins b, hr (.builtin b)⟩, hj.resources⟩

/-- **(T2, semantic half) The shaken program has no dead entry.** Every function, constant, tuple, type and builtin of
    `tree_shake(P, e)` is reachable from the new entry IN the shaken program — for every program and entry.
    (`reach_transfer`: reachability transfers along the sweep's renaming, including the "first `Type::Tuple` entry"
    rule — the sweep is order preserving, `shake_first_tuple` — and the index-only rule; `rank_onto`: every index of a
    shaken table is the rank of a kept id; `markAll_nodup`: the marks are duplicate-free.) -/
theorem treeShake_result_has_no_dead_entries {P : Prog} {e : Nat} {out : ShakeOut} (h : treeShake P e = some out) :
    (∀ f, f < out.prog.fns.size → Reach out.prog out.entry (.fn f)) ∧
    (∀ c, c < out.prog.consts.size → Reach out.prog out.entry (.const c)) ∧
    (∀ u, u < out.prog.tuples.size → Reach out.prog out.entry (.tuple u)) ∧
    (∀ t, t < out.prog.types.size → Reach out.prog out.entry (.ty t)) ∧
    (∀ b, b < out.prog.builtins.size → Reach out.prog out.entry (.builtin b)) :=
  shaken_all_reachable (treeShake_marks h) (treeShake_sweep h)

/-- **(T2) A second shake drops nothing**: if `tree_shake` is run again on its own output, every function, constant,
    tuple, type and builtin of that output is marked (kept) — for every program and entry. The syntactic rest of
    idempotence is `treeShake_idempotent` below. -/
theorem treeShake_second_shake_drops_nothing {P : Prog} {e : Nat} {out out2 : ShakeOut}
    (h : treeShake P e = some out) (h2 : treeShake out.prog out.entry = some out2) :
    (∀ f, f < out.prog.fns.size → f ∈ out2.marks.fns) ∧ (∀ c, c < out.prog.consts.size → c ∈ out2.marks.consts) ∧
    (∀ u, u < out.prog.tuples.size → u ∈ out2.marks.tuples) ∧ (∀ t, t < out.prog.types.size → t ∈ out2.marks.types) ∧
    (∀ b, b < out.prog.builtins.size → b ∈ out2.marks.builtins) := by
  obtain ⟨a, b, c, d, f⟩ := treeShake_result_has_no_dead_entries h
  obtain ⟨a2, b2, c2, d2, f2, _⟩ := treeShake_keeps_exactly_reachable h2
  exact ⟨fun x hx => (a2 x).mpr (a x hx), fun x hx => (b2 x).mpr (b x hx), fun x hx => (c2 x).mpr (c x hx),
    fun x hx => (d2 x).mpr (d x hx), fun x hx => (f2 x).mpr (f x hx)⟩

/-- **(T2) Idempotence of `tree_shake`**: shaking the shaken program again returns the same five tables, the same
    entry and identity remap tables — for every program and entry. (`treeShake_second_shake_drops_nothing`: all ids
    are marked again; the marks are duplicate-free and inside the tables, so each sorted mark list is `range n`
    (`sorted_eq_range`); a sweep under identity tables is the identity (`sweep_full_identity`).) The `resources` list
    is `treeShake_idempotent_bytecode`. -/
theorem treeShake_idempotent {P : Prog} {e : Nat} {out out2 : ShakeOut}
    (h : treeShake P e = some out) (h2 : treeShake out.prog out.entry = some out2) :
    out2.prog.fns = out.prog.fns ∧ out2.prog.consts = out.prog.consts ∧ out2.prog.tuples = out.prog.tuples ∧
    out2.prog.types = out.prog.types ∧ out2.prog.builtins = out.prog.builtins ∧ out2.entry = out.entry ∧
    (∀ f f', out2.ren.fn.get f = some f' → f' = f) ∧ (∀ c c', out2.ren.const.get c = some c' → c' = c) ∧
    (∀ u u', out2.ren.tuple.get u = some u' → u' = u) ∧ (∀ t t', out2.ren.type.get t = some t' → t' = t) ∧
    (∀ b b', out2.ren.builtin.get b = some b' → b' = b) := by
  obtain ⟨k1, k2, k3, k4, k5⟩ := treeShake_second_shake_drops_nothing h h2
  have hm2 := treeShake_marks h2
  have hsw := treeShake_sweep h2
  obtain ⟨n1, n2, n3⟩ := markAll_nodup hm2
  have hc2 := markAll_closed hm2
  obtain ⟨fs, fs', bs, hfs, _, _, hbs, _, _⟩ := sweep_fns_builtins hsw
  obtain ⟨ys, ts, hys, hts, _, _⟩ := sweep_tables hsw
  obtain ⟨cs, hcs, _, _, _⟩ := sweep_consts_entry hsw
  have full : ∀ (l : List Nat) (n : Nat), l.Nodup → (∀ i ∈ sortAsc l, i < n) → (∀ x, x < n → x ∈ l) →
      sortAsc l = List.range n := by
    intro l n hn hin hall
    refine sorted_eq_range (sortAsc_sorted l) (sortAsc_nodup hn) (fun x => ⟨fun hx => hin x hx, fun hx => ?_⟩)
    exact mem_sortAsc.mpr (hall x hx)
  exact sweep_full_identity hsw
    (full _ _ n1 (getAll_inRange hfs) k1) (full _ _ n2 (getAll_inRange hcs) k2)
    (full _ _ hc2.nodupTuples (getAll_inRange hts) k3) (full _ _ hc2.nodupTypes (getAll_inRange hys) k4)
    (full _ _ n3 (getAll_inRange hbs) k5)

/-- **`treeShake_fuel_suffices`: the fuel of the port never runs out.** The mark phase is total — for every
    program, entry (and variant) `markAll` returns marks: the two recursive collectors with `collectFuel` (potential
    argument: every nested call beyond a guard marks a new id, and the cost of an id pays for its child list,
    `collectType_total` / `Phi_le_fuel`), the BFS with `bfsFuel` (every queue entry was pushed by an instruction of a
    newly marked function, `markFns_total`). Hence `treeShake P e` is exactly the sweep on those marks, and `none` can
    only come from the sweep: an index outside its table, where the Rust panics (`bytecode.functions[old_id]`, `.unwrap()`
    on an unmarked operand). -/
theorem treeShake_fuel_suffices (P : Prog) (e : Nat) :
    ∃ m, markAll P e false = some m ∧ treeShake P e = sweep P e m := by
  obtain ⟨m, hm⟩ := markAll_total P e false
  refine ⟨m, hm, ?_⟩
  unfold treeShake treeShakeWith
  rw [hm]

/-- **(T2, complete) the second shake returns the same bytecode**: all six tables (the resource-name list included),
    i.e. `bytecodeDiff = none`. -/
theorem treeShake_idempotent_bytecode {P : Prog} {e : Nat} {out out2 : ShakeOut}
    (h : treeShake P e = some out) (h2 : treeShake out.prog out.entry = some out2) :
    bytecodeDiff out2.prog out.prog = none := by
  obtain ⟨a, b, c, d, f, _⟩ := treeShake_idempotent h h2
  have r := second_shake_resources (treeShake_marks h) (treeShake_sweep h) (treeShake_marks h2) (treeShake_sweep h2)
  simp [bytecodeDiff, a, b, c, d, f, r]

/-- **`TreeShakeStatement` holds**: (T2) idempotence and (T3 ⊇) for every program and entry. -/
theorem treeShake_statement : TreeShakeStatement := by
  intro P e out h
  refine ⟨fun out2 h2 => ?_, (treeShake_keeps_everything_reachable h).2⟩
  obtain ⟨_, _, _, _, _, he, hf, _⟩ := treeShake_idempotent h h2
  exact ⟨treeShake_idempotent_bytecode h h2, he, hf⟩

/-- A spawning program in miniature: the entry spawns function 1, whose callable type (entry 1) receives
    and returns `'int`; the process type of the pids it creates is entry 2 — named by no instruction
    (index-only). -/
def exF13 : Prog :=
  { consts := #[],
    fns := #[{ instrs := [.function 1, .spawn], captures := 0, typeId := 1 },
             { instrs := [], captures := 0, typeId := 1 }],
    builtins := #[],
    tuples := #[⟨none, []⟩, ⟨some "Ok", []⟩],
    types := #[.int, .callable 0 0 0, .process (some 0) (some 0)],
    resources := #[], compat := [], canon := #[] }

/-- **Witness for F13**: the sweep before 5a04882 drops the index-only `Type::Process` entry, so in the
    shaken program the pid's tag type has no entry (`tagPresent = false`: every type test / mailbox filter
    on such a pid fails), although it has one in the source; the current sweep keeps it. Both are
    structural renamings (`treeShakeLegacy_structRenaming`) — the break is in `TablesAgree`, which is why
    (T1) cannot be had without it. -/
theorem legacy_shake_loses_process_entry :
    exF13.tagPresent (.proc 1) = true ∧
    ((treeShakeWith true exF13 0).map (fun o => (o.prog.types.size, o.prog.tagPresent (.proc 1)))) = some (2, false) ∧
    ((treeShake exF13 0).map (fun o => (o.prog.types.size, o.prog.tagPresent (.proc 1)))) = some (3, true) := by
  decide

/-- What a source program must satisfy for `merge_bytecode` to be a renaming at all (all three hold for
    bytecode built through `Program::register_*` by the compiler; none is checked by the Rust):
    * `backward`: a function refers only to functions with a SMALLER index — `remap_function` is applied
      while the function table is still being merged and falls back to the source index
      (`.unwrap_or(idx)`) for a function that has not been merged yet;
    * `noProcessLiteral`: `Instruction::Process(pid, f)` is not remapped at all (its `f` is already an
      environment index: REPL-only);
    * `dedup`: the source tables are duplicate-free (otherwise two source ids are merged into one and the
      remap tables are not injective). -/
structure MergeableSource (src : Prog) : Prop where
  backward : ∀ (i : Nat) (F : Fn), src.fns[i]? = some F → ∀ g, Instr.function g ∈ F.instrs → g < i
  noProcessLiteral : ∀ (i : Nat) (F : Fn), src.fns[i]? = some F → ∀ pid g, Instr.process pid g ∉ F.instrs
  dedup : src.consts.toList.Nodup ∧ src.fns.toList.Nodup ∧ src.types.toList.Nodup ∧ src.tuples.toList.Nodup ∧
    (src.builtins.toList.map (·.name)).Nodup

/-- `merge_isRenaming`, as a statement: merging a mergeable `src` into any environment program `env`
    gives a program that is a structural renaming of `src` by the remap tables of the merge
    (deduplication and shifting never conflate two different source entries). NOT proved — the port
    `mergeBytecode` (Core/Packaging/Merge.lean) is tied to environment.rs by exact equality of the
    environment's program after every merge the harness performs, and every instance is validated with
    the port's own tables (`merge:model-equals-merge_bytecode`). Missing: (a) the memo-consistency
    invariant of the deep import (`import_type` / `import_tuple`: every memoised id's entry in the target is
    the image of the source entry under the FINAL maps — by induction over the import order, as
    `collectType_spec` does for the sweep); (b) injectivity from `dedup` (two distinct duplicate-free
    source entries stay distinct under an injective remap of their children, so `register_*` cannot map
    them to one target entry). Proved below: the seeded fast path breaks it
    (`merge_fast_path_breaks_renaming`). -/
/- proved with explicit side conditions as `merge_isRenaming` at the end of this file -/
def MergeIsRenamingStatement : Prop :=
  ∀ (env src : Prog) (e : Nat) (out : MergeOut), MergeableSource src → mergeBytecode env src e = some out →
    IsStructRenaming out.ren src out.prog e out.entry

/-- two independently compiled programs whose type 1 is *structurally* the same entry `Union[0]` —
    but type 0 is `'int` in the environment and `'bin` in the incoming program -/
def exEnv : Prog :=
  { consts := #[], fns := #[], builtins := #[], tuples := #[⟨none, []⟩, ⟨some "Ok", []⟩],
    types := #[.int, .union [0]], resources := #[], compat := [], canon := #[] }

def exSrc : Prog :=
  { consts := #[], fns := #[{ instrs := [.isType 1], captures := 0, typeId := 1 }], builtins := #[],
    tuples := #[⟨none, []⟩, ⟨some "Ok", []⟩],
    types := #[.bin, .union [0]], resources := #[], compat := [], canon := #[] }

/-- **Witness for seeded C08-3** (`import_type` fast path: "a structurally equal entry at the same index
    maps to itself"): with the fast path the incoming program's `Union['bin]` (type 1) is identified
    with the environment's `Union['int]` — the `types` clause of the renaming fails for it — while the
    real deep import registers a new entry `Union[2]` behind a new `'bin` at 2 and validates. -/
theorem merge_fast_path_breaks_renaming :
    ((mergeBytecodeWith true exEnv exSrc 0).map (fun o =>
        (o.ren.type.get 1, o.prog.types.toList, o.ren.type.all (typeOK o.ren exSrc o.prog)))) =
      some (some 1, [.int, .union [0], .bin], false) ∧
    ((mergeBytecode exEnv exSrc 0).map (fun o =>
        (o.ren.type.get 1, o.prog.types.toList, o.ren.type.all (typeOK o.ren exSrc o.prog)))) =
      some (some 3, [.int, .union [0], .bin, .union [2]], true) := by
  decide

/-- **`merge_isRenaming`, part (a): memo-consistency of the deep import under the final remap tables.** For
    every environment, every incoming program and every entry on which `merge_bytecode` succeeds: every source
    type id and tuple id is mapped, and its image in the merged program is the source entry renamed through
    the FINAL `type_remap` / `tuple_remap` — the `types` and `tuples` clauses of `IsStructRenaming`
    (`MergeIsRenamingStatement`). Hypothesis `hk`: no id is bound twice in the final memo tables (decided per
    instance by the driver, `keys-distinct`; a re-binding would mean that an id was imported a second time while
    its own children were being imported, i.e. a reference cycle not expressed by a `Cycle` leaf).
    `merge_fast_path_breaks_renaming` shows that the seeded fast path violates exactly this. -/
theorem merge_isRenaming_types_tuples {env src : Prog} {e : Nat} {out : MergeOut}
    (h : mergeBytecode env src e = some out)
    (hk : (out.ren.type.map (·.1)).Nodup ∧ (out.ren.tuple.map (·.1)).Nodup) :
    (∀ t t', out.ren.type.get t = some t' →
      ∃ τ τ', src.types[t]? = some τ ∧ out.prog.types[t']? = some τ' ∧ renameTy out.ren τ = some τ') ∧
    (∀ t t', out.ren.tuple.get t = some t' →
      ∃ T T', src.tuples[t]? = some T ∧ out.prog.tuples[t']? = some T' ∧ T'.name = T.name ∧
        T'.fields.map (·.1) = T.fields.map (·.1) ∧
        mapOpt (fun (p : Option String × Nat) => out.ren.type.get p.2) T.fields = some (T'.fields.map (·.2))) ∧
    (∀ t, t < src.types.size → ∃ t', out.ren.type.get t = some t') ∧
    (∀ u, u < src.tuples.size → ∃ u', out.ren.tuple.get u = some u') :=
  merge_types_tuples h hk

/-- **Merging never disturbs what is already loaded.** Every constant, function, tuple, type and builtin index
    of the environment's program denotes the same entry after `merge_bytecode` (all five tables only grow at the
    end) — for every environment, incoming program and entry, without hypothesis. Hence a process that is
    running code of an earlier program keeps running the same code after any later merge. -/
theorem merge_never_disturbs_loaded_programs {env src : Prog} {e : Nat} {out : MergeOut}
    (h : mergeBytecode env src e = some out) : ProgLe5 env out.prog :=
  merge_extends_env h

/-- **`merge_isRenaming_partial`: every IMAGE clause of `MergeIsRenamingStatement`**, for every environment and every
    well-formed incoming program (`SrcWf`: operands inside the program's own tables, functions refer to earlier
    functions only, no `Process` literal — what `remap_function`'s `.unwrap_or(idx)` silently relies on) on which
    `merge_bytecode` succeeds without re-binding a memo key (`hk`, decided per merge by the driver):
    * the entry is mapped to the reported entry; every source function id is mapped;
    * `fns`: the merged function is the source function renamed instruction by instruction through the FINAL tables,
      same captures, type id renamed;
    * `consts`, `types`, `tuples` (`merge_isRenaming_types_tuples`): the image entry is the renamed source entry;
    * `builtins`: the image has the same NAME (`register_builtin_info` lets a loaded builtin of that name win).
    NOT proved (validated per instance by `validateB` on every merge of the run): injectivity of the five maps
    (from duplicate-freeness of the source tables, by induction along the reference order), NIL / OK fixed, and the
    parameter / result types of a builtin that was already loaded. -/
theorem merge_isRenaming_partial {env src : Prog} {e : Nat} {out : MergeOut}
    (h : mergeBytecode env src e = some out) (hw : SrcWf src)
    (hk : (out.ren.type.map (·.1)).Nodup ∧ (out.ren.tuple.map (·.1)).Nodup) :
    out.ren.fn.get e = some out.entry ∧
    (∀ f f', out.ren.fn.get f = some f' → ∃ F F', src.fns[f]? = some F ∧ out.prog.fns[f']? = some F' ∧
      F'.captures = F.captures ∧ renameInstrs out.ren F.instrs = some F'.instrs ∧
      out.ren.type.get F.typeId = some F'.typeId) ∧
    (∀ c c', out.ren.const.get c = some c' → ∃ k, src.consts[c]? = some k ∧ out.prog.consts[c']? = some k) ∧
    (∀ b b', out.ren.builtin.get b = some b' → ∃ B B', src.builtins[b]? = some B ∧ out.prog.builtins[b']? = some B' ∧
      B'.name = B.name) ∧
    (∀ f, f < src.fns.size → ∃ f', out.ren.fn.get f = some f') :=
  merge_image_clauses h hw hk

/-- **`merge_isRenaming`: `merge_bytecode` is a structural renaming** of the incoming program into the environment's
    program after the merge — `MergeIsRenamingStatement` with every side condition explicit — for every environment,
    every incoming program and every entry on which the merge succeeds:
    * `SrcWf src` (operands in range, backward function references, no `Process` literal) and duplicate-free source
      tables (`hd`; builtins by name) — `MergeableSource` plus range conditions; decided per merge by the driver;
    * `hk`: no id bound twice in the final memo tables (decided per merge);
    * `Stratified src rT rU`: the source type graph has a rank that decreases along references (what makes the
      injectivity induction go through; true when referents are registered first);
    * `hfix`: NIL and OK are the field-less tuples 0 and 1 of both programs; `hout`: the merged tuple table is
      duplicate-free (what `register_tuple` maintains);
    * `hbt`: a builtin that was already loaded under that name has the renamed parameter / result types (names
      determine builtins).
    Proved: the image clauses (`merge_isRenaming_partial`, by memo-consistency of the deep import), injectivity of all
    five remap tables (`type_tuple_maps_inj` by induction along the stratification with `renameTy_inj`, `fn_map_inj`
    by induction over the function index with `renameInstr_inj`, constants / builtins from duplicate-freeness),
    NIL / OK fixed. With `IsStructRenaming.toIsRenaming` and the table clauses this gives `IsRenaming`, hence
    `run_commutes_with_renaming` for merged programs. -/
theorem merge_isRenaming {env src : Prog} {e : Nat} {out : MergeOut}
    (h : mergeBytecode env src e = some out) (hw : SrcWf src)
    (hk : (out.ren.type.map (·.1)).Nodup ∧ (out.ren.tuple.map (·.1)).Nodup)
    {rT rU : Nat → Nat} (hs : Stratified src rT rU)
    (hd : src.consts.toList.Nodup ∧ src.fns.toList.Nodup ∧ src.types.toList.Nodup ∧ src.tuples.toList.Nodup ∧
      (src.builtins.toList.map (·.name)).Nodup)
    (hfix : ∀ i, i < 2 → ∃ T : TupleInfo, T.fields = [] ∧ src.tuples[i]? = some T ∧ env.tuples[i]? = some T)
    (hout : out.prog.tuples.toList.Nodup)
    (hbt : ∀ b b' B B', out.ren.builtin.get b = some b' → src.builtins[b]? = some B → out.prog.builtins[b']? = some B' →
      out.ren.type.get B.paramType = some B'.paramType ∧ out.ren.type.get B.resultType = some B'.resultType) :
    IsStructRenaming out.ren src out.prog e out.entry :=
  merge_isStructRenaming h hw hk hs hd hfix hout hbt

/-- **(T1 for merge) Merging preserves behaviour for all inputs and execution lengths.** `P'` is the environment's program
    after the merge as the workers see it (the six tables `merge_bytecode` produced plus the recomputed lookup tables).
    Under the side conditions of `merge_isRenaming`, with computed canonical-tuple tables and compatibility tables that
    agree through the remap tables (`TablesAgree`, validated on every merge of the run; its core for every program is
    `C10.merge_keeps_every_tag_verdict`), every run of the incoming program from its entry is matched step for step by a
    related run of the merged program from the remapped entry. -/
theorem merge_preserves_behaviour {env src P' : Prog} {e : Nat} {out : MergeOut}
    (h : mergeBytecode env src e = some out) (hw : SrcWf src)
    (hk : (out.ren.type.map (·.1)).Nodup ∧ (out.ren.tuple.map (·.1)).Nodup)
    {rT rU : Nat → Nat} (hs : Stratified src rT rU)
    (hd : src.consts.toList.Nodup ∧ src.fns.toList.Nodup ∧ src.types.toList.Nodup ∧ src.tuples.toList.Nodup ∧
      (src.builtins.toList.map (·.name)).Nodup)
    (hfix : ∀ i, i < 2 → ∃ T : TupleInfo, T.fields = [] ∧ src.tuples[i]? = some T ∧ env.tuples[i]? = some T)
    (hout : out.prog.tuples.toList.Nodup)
    (hbt : ∀ b b' B B', out.ren.builtin.get b = some b' → src.builtins[b]? = some B → out.prog.builtins[b']? = some B' →
      out.ren.type.get B.paramType = some B'.paramType ∧ out.ren.type.get B.resultType = some B'.resultType)
    (hfns : P'.fns = out.prog.fns) (hconsts : P'.consts = out.prog.consts) (htuples : P'.tuples = out.prog.tuples)
    (hbuiltins : P'.builtins = out.prog.builtins) (htypes : P'.types = out.prog.types)
    (hc : src.CanonComputed) (hc' : P'.CanonComputed) (ht : TablesAgree out.ren src P')
    {B B' : BuiltinSem} (hB : BuiltinsCommute out.ren B B') {a a' : Val} (ha : RelVal out.ren a a') {t : St}
    (hrun : Steps src B (St.start e a) t) (hsafe : ∀ u, Steps src B (St.start e a) u → IsTypeSafe src u) :
    ∃ t', Steps P' B' (St.start out.entry a') t' ∧ RelSt out.ren t t' := by
  have hsr := merge_isRenaming h hw hk hs hd hfix hout hbt
  have hs' : IsStructRenaming out.ren src P' e out.entry :=
    { entry := hsr.entry, inj_const := hsr.inj_const, inj_fn := hsr.inj_fn, inj_tuple := hsr.inj_tuple,
      inj_type := hsr.inj_type, inj_builtin := hsr.inj_builtin, nil_fixed := hsr.nil_fixed, ok_fixed := hsr.ok_fixed,
      fns := by rw [hfns]; exact hsr.fns
      consts := by rw [hconsts]; exact hsr.consts
      tuples := by rw [htuples]; exact hsr.tuples
      builtins := by rw [hbuiltins]; exact hsr.builtins
      types := by rw [htypes]; exact hsr.types }
  have hρ := hs'.toIsRenaming ht.resources ht.compat ht.fparam ht.bparam
    (canon_of_name_label_preservation hc hc' hs'.tuples)
  exact run_commutes_with_renaming hρ hB hrun (start_related hρ ha) hsafe


end C10
