import QuiverModel.Core.Packaging.Renaming
import QuiverModel.Core.Packaging.Sem
import QuiverModel.Lemmas.Packaging.Basic
/-
C10 — packaging steps preserve behaviour (property theorems).

  * `C10.validateB_sound`, `C10.checkRenaming_sound` — the validator is sound: whatever map it
    returns makes `P'` a consistent renaming (`IsRenaming`) of the reachable part of `P`.
  * `C10.checkRenamingExplain_ok_iff` — the driver's entry point agrees with `checkRenaming`.

(`run_commutes_with_renaming`, `valueToInstrs_roundtrip` follow below.)
-/
namespace C10
open QM QM.Packaging

/-- The validator's Boolean verdict for a given ρ implies the declarative relation. -/
theorem validateB_sound {ρ : Ren} {P P' : Prog} {e e' : Nat}
    (h : validateB ρ P P' e e' = true) : IsRenaming ρ P P' e e' := by
  simp only [validateB, checks, List.all_cons, List.all_nil, Bool.and_true, Bool.and_eq_true] at h
  obtain ⟨hentry, hic, hif, hit, hiy, hib, hnil, hok, hfns, hconsts, htuples, hbuiltins, htypes, hres,
    hcompat, hfparam, hbparam, hcanon⟩ := h
  exact {
    entry := by simpa using hentry
    inj_const := AMap.inj_of_injB hic
    inj_fn := AMap.inj_of_injB hif
    inj_tuple := AMap.inj_of_injB hit
    inj_type := AMap.inj_of_injB hiy
    inj_builtin := AMap.inj_of_injB hib
    nil_fixed := by simpa using hnil
    ok_fixed := by simpa using hok
    fns := fun f f' hf => fnOK_spec (AMap.all_of_get hfns hf)
    consts := fun c c' hc => constOK_spec (AMap.all_of_get hconsts hc)
    tuples := fun t t' ht => tupleOK_spec (AMap.all_of_get htuples ht)
    builtins := fun b b' hb => builtinOK_spec (AMap.all_of_get hbuiltins hb)
    types := fun t t' ht => typeOK_spec (AMap.all_of_get htypes ht)
    resources := fun r r' hr => resourceOK_spec (AMap.all_of_get hres hr)
    compat := fun f f' F hf hF t ht t' ht' c c' hc hp =>
      compatFnOK_spec (AMap.all_of_get hcompat hf) hF ht ht' (mem_presentPairs hc hp)
    fparam := fun f f' hf c c' hc hp =>
      fparamOK_spec (AMap.all_of_get hfparam hf) (mem_presentPairs hc hp)
    bparam := fun b b' hb c c' hc hp =>
      bparamOK_spec (AMap.all_of_get hbparam hb) (mem_presentPairs hc hp)
    canon := fun a a' b b' ha hb => canonOK_spec hcanon ha hb }

/-- **Validator soundness.** If `checkRenaming` returns a map, `P'` is a consistent renaming of the
    reachable part of `P` under that map. (The recovery traversal is not trusted: only its output is
    validated.) -/
theorem checkRenaming_sound {P P' : Prog} {e e' : Nat} {ρ : Ren}
    (h : checkRenaming P P' e e' = some ρ) : IsRenaming ρ P P' e e' := by
  unfold checkRenaming at h
  split at h
  · rename_i ρ0 _
    split at h
    · rename_i hv
      cases h
      exact validateB_sound hv
    · cases h
  · cases h

/-- The driver answers `ok` exactly when `checkRenaming` returns a map (the same one). -/
theorem checkRenamingExplain_ok_iff {P P' : Prog} {e e' : Nat} {ρ : Ren} :
    checkRenamingExplain P P' e e' = .ok ρ ↔ checkRenaming P P' e e' = some ρ := by
  unfold checkRenamingExplain checkRenaming
  split
  · split <;> simp
  · simp

/-- Non-vacuity: a two-function program with a dead function and a dead constant, and its shaken
    form; the validator accepts and recovers the shift. -/
def exP : Prog :=
  { consts := #[.int 7, .int 9],
    fns := #[{ instrs := [.const 0], captures := 0, typeId := 0 },
             { instrs := [.const 1, .function 2, .call, .isType 1], captures := 0, typeId := 0 },
             { instrs := [.tuple 2], captures := 0, typeId := 0 }],
    builtins := #[],
    tuples := #[⟨none, []⟩, ⟨some "Ok", []⟩, ⟨some "A", [(none, 1)]⟩],
    types := #[.callable 1 1 1, .int],
    resources := #[],
    compat := [(1, [.int])],
    canon := #[0, 1, 2] }

def exP' : Prog :=
  { consts := #[.int 9],
    fns := #[{ instrs := [.const 0, .function 1, .call, .isType 1], captures := 0, typeId := 0 },
             { instrs := [.tuple 2], captures := 0, typeId := 0 }],
    builtins := #[],
    tuples := #[⟨none, []⟩, ⟨some "Ok", []⟩, ⟨some "A", [(none, 1)]⟩],
    types := #[.callable 1 1 1, .int],
    resources := #[],
    compat := [(1, [.int])],
    canon := #[0, 1, 2] }

example : (checkRenaming exP exP' 1 0).isSome = true := by decide
example : ∃ ρ, IsRenaming ρ exP exP' 1 0 := by
  have h : (checkRenaming exP exP' 1 0).isSome = true := by decide
  obtain ⟨ρ, hρ⟩ := Option.isSome_iff_exists.mp h
  exact ⟨ρ, checkRenaming_sound hρ⟩
/-- …and rejects when the shaken program's compatibility row lost a tag (the F13 shape). -/
example : checkRenaming exP { exP' with compat := [] } 1 0 = none := by decide

end C10
