import QuiverModel.Core.RefSem.Eval
/-
C02 — laws of the reference semantics (M-RefSem, `QuiverModel/Core/RefSem/Eval.lean`).

The reference evaluator is the formalisation of `docs/spec.md` that the compiled programs are
compared against (`harness/src/bin/c02`). These theorems show that it has the laws the spec states,
for every program, environment, flowing value and fuel: fuel only decides *whether* there is a
result, never *which* (`eval_fuel_mono`, `eval_result_unique`); a sequence short-circuits on nil and
runs no later step (`seq_nil_short_circuits`), a chain does not (`chain_is_infallible_pipe`); a match
yields `Ok`/nil and its bindings are visible afterwards, a bare binder always succeeds
(`match_verdict*`); a block leaves the outer environment unchanged (`block_scopes_bindings`); a
non-nil condition commits the branch even if the consequence is nil, a nil condition restarts the
next branch from the block parameter (`branch_commit*`); every tuple field receives the flowing value
(`tuple_fields_receive_flow`); a nilary callee ignores the flow (`nilary_ignores_flow`); evaluation only
ever adds bindings in front of the environment (`seq_only_adds_bindings`).
-/
open QM.RefSem

namespace C02

/-! ### Fuel -/

/-- `a ⊑ b`: `b` is `a` unless `a` ran out of fuel -/
def Le {α : Type} (a b : Res α) : Prop := a = .fuelOut ∨ a = b

theorem Le.refl {α} (a : Res α) : Le a a := Or.inr rfl

theorem Le.trans {α} {a b c : Res α} (h₁ : Le a b) (h₂ : Le b c) : Le a c := by
  rcases h₁ with h | h
  · exact Or.inl h
  · subst h; exact h₂

theorem Le.bind {α β} {a a' : Res α} {f f' : α → Res β}
    (h : Le a a') (hf : ∀ x, Le (f x) (f' x)) : Le (a.bind f) (a'.bind f') := by
  rcases h with h | h
  · subst h; exact Or.inl rfl
  · subst h
    cases a with
    | ok x => exact hf x
    | fuelOut => exact Or.inl rfl
    | err c => exact Or.inr rfl
    | unspec y => exact Or.inr rfl

/-- all judgement forms are monotone in the fuel, from `n` to `n + 1` -/
structure Mono (n : Nat) : Prop where
  apply : ∀ f a, Le (apply n f a) (apply (n + 1) f a)
  callFlow : ∀ f a, Le (callFlow n f a) (callFlow (n + 1) f a)
  evalExpr : ∀ env flow e, Le (evalExpr n env flow e) (evalExpr (n + 1) env flow e)
  evalSeq : ∀ env flow cs, Le (evalSeq n env flow cs) (evalSeq (n + 1) env flow cs)
  evalChain : ∀ env flow c, Le (evalChain n env flow c) (evalChain (n + 1) env flow c)
  evalTerms : ∀ env flow ts, Le (evalTerms n env flow ts) (evalTerms (n + 1) env flow ts)
  evalTerm : ∀ env flow t, Le (evalTerm n env flow t) (evalTerm (n + 1) env flow t)
  evalFields : ∀ env flow fs acc inh,
    Le (evalFields n env flow fs acc inh) (evalFields (n + 1) env flow fs acc inh)

theorem mono_zero : Mono 0 := by
  constructor <;> intros <;> left <;>
    simp [QM.RefSem.apply, QM.RefSem.callFlow, QM.RefSem.evalExpr, QM.RefSem.evalSeq,
      QM.RefSem.evalChain, QM.RefSem.evalTerms, QM.RefSem.evalTerm, QM.RefSem.evalFields]

theorem mono_succ (n : Nat) (ih : Mono n) : Mono (n + 1) := by
  constructor
  · intro f a
    cases f with
    | clo nilary body cenv =>
      cases body with
      | none => simp only [QM.RefSem.apply]; exact Le.refl _
      | some b => simp only [QM.RefSem.apply]; exact ih.evalExpr _ _ _
    | int z => simp only [QM.RefSem.apply]; exact Le.refl _
    | bin bs => simp only [QM.RefSem.apply]; exact Le.refl _
    | tup nm fs => simp only [QM.RefSem.apply]; exact Le.refl _
    | builtin nm => simp only [QM.RefSem.apply]; exact Le.refl _
  · intro f a
    unfold QM.RefSem.callFlow
    split <;> exact ih.apply _ _
  · -- evalExpr
    intro env flow e
    cases e with
    | mk bs =>
      cases bs with
      | nil => simp only [QM.RefSem.evalExpr]; exact Le.refl _
      | cons b rest =>
        cases b with
        | mk cond cons =>
          simp only [QM.RefSem.evalExpr]
          refine Le.bind (ih.evalSeq _ _ _) (fun x => ?_)
          split
          · exact ih.evalExpr _ _ _
          · split
            · exact Le.refl _
            · exact Le.bind (ih.evalSeq _ _ _) (fun _ => Le.refl _)
  · -- evalSeq
    intro env flow cs
    cases cs with
    | nil => simp only [QM.RefSem.evalSeq]; exact Le.refl _
    | cons c cs =>
      simp only [QM.RefSem.evalSeq]
      refine Le.bind (ih.evalChain _ _ _) (fun x => ?_)
      split
      · exact Le.refl _
      · split
        · exact Le.refl _
        · exact ih.evalSeq _ _ _
  · -- evalChain
    intro env flow c
    cases c with
    | mk pat terms =>
      simp only [QM.RefSem.evalChain]
      exact Le.bind (ih.evalTerms _ _ _) (fun _ => Le.refl _)
  · -- evalTerms
    intro env flow ts
    cases ts with
    | nil => simp only [QM.RefSem.evalTerms]; exact Le.refl _
    | cons t ts =>
      simp only [QM.RefSem.evalTerms]
      exact Le.bind (ih.evalTerm _ _ _) (fun _ => ih.evalTerms _ _ _)
  · -- evalTerm
    intro env flow t
    cases t with
    | lit l => simp only [QM.RefSem.evalTerm]; exact Le.refl _
    | tuple name fields =>
      simp only [QM.RefSem.evalTerm]
      exact Le.bind (ih.evalFields _ _ _ _ _) (fun _ => Le.refl _)
    | mtch p => simp only [QM.RefSem.evalTerm]; exact Le.refl _
    | block e =>
      simp only [QM.RefSem.evalTerm]
      exact Le.bind (ih.evalExpr _ _ _) (fun _ => Le.refl _)
    | fn nilary body => simp only [QM.RefSem.evalTerm]; exact Le.refl _
    | access s accs =>
      cases s with
      | ripple => simp only [QM.RefSem.evalTerm]; exact Le.refl _
      | builtin name =>
        simp only [QM.RefSem.evalTerm]
        exact Le.bind (ih.callFlow _ _) (fun _ => Le.refl _)
      | var x =>
        simp only [QM.RefSem.evalTerm]
        refine Le.bind (Le.refl _) (fun b => Le.bind (Le.refl _) (fun v => ?_))
        split
        · exact Le.bind (ih.callFlow _ _) (fun _ => Le.refl _)
        · exact Le.refl _
      | param =>
        simp only [QM.RefSem.evalTerm]
        refine Le.bind (Le.refl _) (fun b => Le.bind (Le.refl _) (fun v => ?_))
        split
        · exact Le.bind (ih.callFlow _ _) (fun _ => Le.refl _)
        · exact Le.refl _
    | ref s accs =>
      cases s <;> simp only [QM.RefSem.evalTerm] <;> exact Le.refl _
    | tail f =>
      cases f with
      | none =>
        simp only [QM.RefSem.evalTerm]
        exact Le.bind (Le.refl _) (fun f => Le.bind (ih.callFlow _ _) (fun _ => Le.refl _))
      | some xa =>
        cases xa with
        | mk x accs =>
          simp only [QM.RefSem.evalTerm]
          exact Le.bind (Le.refl _) (fun b => Le.bind (Le.refl _)
            (fun f => Le.bind (ih.callFlow _ _) (fun _ => Le.refl _)))
    | tailRipple =>
      simp only [QM.RefSem.evalTerm]
      split
      · exact Le.bind (ih.apply _ _) (fun _ => Le.refl _)
      · exact Le.refl _
  · -- evalFields
    intro env flow fs acc inh
    cases fs with
    | nil => simp only [QM.RefSem.evalFields]; exact Le.refl _
    | cons f rest =>
      cases f with
      | val label c =>
        simp only [QM.RefSem.evalFields]
        exact Le.bind (ih.evalChain _ _ _) (fun _ => ih.evalFields _ _ _ _ _)
      | spread src =>
        simp only [QM.RefSem.evalFields]
        refine Le.bind (Le.refl _) (fun sv => ?_)
        split
        · exact ih.evalFields _ _ _ _ _
        · exact Le.refl _


theorem mono_all (n : Nat) : Mono n := by
  induction n with
  | zero => exact mono_zero
  | succ n ih => exact mono_succ n ih

theorem evalSeq_mono_le {n m : Nat} (h : n ≤ m) (env : Env) (flow : Val) (cs : List Chain) :
    Le (evalSeq n env flow cs) (evalSeq m env flow cs) := by
  induction h with
  | refl => exact Le.refl _
  | step _ ih => exact Le.trans ih ((mono_all _).evalSeq _ _ _)

theorem evalExpr_mono_le {n m : Nat} (h : n ≤ m) (env : Env) (flow : Val) (e : Expr) :
    Le (evalExpr n env flow e) (evalExpr m env flow e) := by
  induction h with
  | refl => exact Le.refl _
  | step _ ih => exact Le.trans ih ((mono_all _).evalExpr _ _ _)

theorem apply_mono_le {n m : Nat} (h : n ≤ m) (f a : Val) :
    Le (apply n f a) (apply m f a) := by
  induction h with
  | refl => exact Le.refl _
  | step _ ih => exact Le.trans ih ((mono_all _).apply _ _)

/-- **More fuel never changes a result**: once a program has a result other than `fuelOut`, every
larger fuel gives the same result. -/
theorem eval_fuel_mono {n m : Nat} (h : n ≤ m) (steps : List Chain) (r : Res Val)
    (hr : evalProgram n steps = r) (hne : r ≠ .fuelOut) : evalProgram m steps = r := by
  subst hr
  unfold evalProgram at *
  have hle := Le.bind (f := fun (x : Val × Env) => Res.ok x.1) (f' := fun (x : Val × Env) => Res.ok x.1)
    (evalSeq_mono_le h [] Val.nil steps) (fun _ => Le.refl _)
  rcases hle with h0 | h1
  · exact absurd h0 hne
  · exact h1.symm

/-- the same for a function application (the form in which C01 uses the evaluator) -/
theorem apply_fuel_mono {n m : Nat} (h : n ≤ m) (f a : Val) (r : Res Val)
    (hr : apply n f a = r) (hne : r ≠ .fuelOut) : apply m f a = r := by
  subst hr
  rcases apply_mono_le h f a with h0 | h1
  · exact absurd h0 hne
  · exact h1.symm

/-- **Determinism**: the value of a program does not depend on the fuel it was given — any two
runs that both finish agree (in value, error class, or being unspecified). -/
theorem eval_result_unique (n m : Nat) (steps : List Chain) (r₁ r₂ : Res Val)
    (h₁ : evalProgram n steps = r₁) (h₂ : evalProgram m steps = r₂)
    (hne₁ : r₁ ≠ .fuelOut) (hne₂ : r₂ ≠ .fuelOut) : r₁ = r₂ := by
  rcases Nat.le_total n m with h | h
  · have := eval_fuel_mono h steps r₁ h₁ hne₁
    rw [h₂] at this; exact this.symm
  · have := eval_fuel_mono h steps r₂ h₂ hne₂
    rw [h₁] at this; exact this

/-! ### Sequences and chains -/

/-- **A sequence short-circuits on nil**: if a step evaluates to nil and more steps follow, the
sequence is nil — -/
theorem seq_nil_short_circuits (n : Nat) (env env' : Env) (flow v : Val) (c c' : Chain) (cs : List Chain)
    (h : evalChain n env flow c = .ok (v, env')) (hnil : v.isNil = true) :
    evalSeq (n + 1) env flow (c :: c' :: cs) = .ok (Val.nil, env') := by
  simp [QM.RefSem.evalSeq, h, Res.bind, hnil]

/-- — and no later step is evaluated: the result does not depend on what the later steps are. -/
theorem seq_nil_skips_rest (n : Nat) (env env' : Env) (flow v : Val) (c c₁ c₂ : Chain) (cs₁ cs₂ : List Chain)
    (h : evalChain n env flow c = .ok (v, env')) (hnil : v.isNil = true) :
    evalSeq (n + 1) env flow (c :: c₁ :: cs₁) = evalSeq (n + 1) env flow (c :: c₂ :: cs₂) := by
  rw [seq_nil_short_circuits n env env' flow v c c₁ cs₁ h hnil,
    seq_nil_short_circuits n env env' flow v c c₂ cs₂ h hnil]

/-- A non-nil step's value is what the next step starts from ("a sequence threads"), in the
environment the step left ("variable bindings persist across steps"). -/
theorem seq_threads (n : Nat) (env env' : Env) (flow v : Val) (c c' : Chain) (cs : List Chain)
    (h : evalChain n env flow c = .ok (v, env')) (hnn : v.isNil = false) :
    evalSeq (n + 1) env flow (c :: c' :: cs) = evalSeq n env' v (c' :: cs) := by
  simp [QM.RefSem.evalSeq, h, Res.bind, hnn]

/-- **A chain is an infallible pipe**: whatever a term evaluates to — nil included — flows into the
next term. -/
theorem chain_is_infallible_pipe (n : Nat) (env env' : Env) (flow v : Val) (t : Term) (ts : List Term)
    (h : evalTerm n env flow t = .ok (v, env')) :
    evalTerms (n + 1) env flow (t :: ts) = evalTerms n env' v ts := by
  simp [QM.RefSem.evalTerms, h, Res.bind]

/-- in particular a nil term result does not end the chain -/
theorem chain_nil_flows_on (n : Nat) (env env' : Env) (flow : Val) (t : Term) (ts : List Term)
    (h : evalTerm n env flow t = .ok (Val.nil, env')) :
    evalTerms (n + 1) env flow (t :: ts) = evalTerms n env' Val.nil ts :=
  chain_is_infallible_pipe n env env' flow Val.nil t ts h

/-! ### Matches -/

/-- **A bare binder always succeeds** — on every value, nil included — with verdict `Ok`, and the
binding is visible afterwards. -/
theorem match_verdict_binder (env : Env) (x : String) (v : Val) :
    doMatch env (.bind x) v = .ok (Val.okv, (x, some v) :: env) := by
  simp [doMatch, matchPat, bindVar, lookup]

theorem match_binder_visible (env : Env) (x : String) (v : Val) :
    readVar ((x, some v) :: env) x = .ok v := by
  simp [readVar, lookup]

/-- the placeholder too -/
theorem match_verdict_placeholder (env : Env) (v : Val) :
    doMatch env .wild v = .ok (Val.okv, env) := by
  simp [doMatch, matchPat]

/-- **A match evaluates to `Ok` or nil** (the matched value does not flow onward), and its
environment extends the previous one: with the pattern's bindings on success, with the pattern's
variables (in scope, without a value) on failure. -/
theorem match_verdict (env env' : Env) (p : Pat) (v w : Val)
    (h : doMatch env p v = .ok (w, env')) :
    (w = Val.okv ∧ ∃ bs, matchPat env p v [] = .matched bs ∧ env' = bs ++ env) ∨
    (w = Val.nil ∧ matchPat env p v [] = .failed ∧
      env' = (patVars p).map (fun x => (x, none)) ++ env) := by
  unfold doMatch at h
  split at h
  · rename_i bs hm
    injection h with h
    injection h with h1 h2
    exact Or.inl ⟨h1.symm, bs, hm, h2.symm⟩
  · rename_i hm
    injection h with h
    injection h with h1 h2
    exact Or.inr ⟨h1.symm, hm, h2.symm⟩
  · exact absurd h (by simp)

/-! ### Blocks and branches -/

/-- **A block leaves the outer environment unchanged** ("Variables assigned within a block shadow
outer variables but don't affect them"). -/
theorem block_scopes_bindings (n : Nat) (env env' : Env) (flow v : Val) (e : Expr)
    (h : evalTerm n env flow (.block e) = .ok (v, env')) : env' = env := by
  cases n with
  | zero => simp [QM.RefSem.evalTerm] at h
  | succ n =>
    simp only [QM.RefSem.evalTerm] at h
    cases hx : evalExpr n env flow e with
    | ok x => rw [hx] at h; simp [Res.bind] at h; exact h.2.symm
    | fuelOut => rw [hx] at h; simp [Res.bind] at h
    | err c => rw [hx] at h; simp [Res.bind] at h
    | unspec y => rw [hx] at h; simp [Res.bind] at h

/-- **Branch commit**: after a non-nil condition the consequence's value is the block's value — even
if it is nil, and whatever branches follow. The consequence starts from the block parameter `flow`
and sees the condition's bindings `env'`. -/
theorem branch_commit (n : Nat) (env env' : Env) (flow v : Val) (cond cons : List Chain)
    (rest : List Branch)
    (h : evalSeq n env flow cond = .ok (v, env')) (hnn : v.isNil = false) :
    evalExpr (n + 1) env flow (.mk (.mk cond (some cons) :: rest)) =
      (evalSeq n env' flow cons).bind (fun x => .ok x.1) := by
  simp [QM.RefSem.evalExpr, h, Res.bind, hnn]

/-- a branch without consequence has the value of its (non-nil) condition -/
theorem branch_value_without_consequence (n : Nat) (env env' : Env) (flow v : Val) (cond : List Chain)
    (rest : List Branch)
    (h : evalSeq n env flow cond = .ok (v, env')) (hnn : v.isNil = false) :
    evalExpr (n + 1) env flow (.mk (.mk cond none :: rest)) = .ok v := by
  simp [QM.RefSem.evalExpr, h, Res.bind, hnn]

/-- **after a nil condition the next branch starts again from the block parameter** (and from the
environment the block was entered with: the failed branch's bindings are gone). -/
theorem branch_fallthrough (n : Nat) (env env' : Env) (flow v : Val) (cond : List Chain)
    (cons : Option (List Chain)) (rest : List Branch)
    (h : evalSeq n env flow cond = .ok (v, env')) (hnil : v.isNil = true) :
    evalExpr (n + 1) env flow (.mk (.mk cond cons :: rest)) = evalExpr n env flow (.mk rest) := by
  simp [QM.RefSem.evalExpr, h, Res.bind, hnil]

/-- no branch left: the block is nil -/
theorem block_without_branch_is_nil (n : Nat) (env : Env) (flow : Val) :
    evalExpr (n + 1) env flow (.mk []) = .ok Val.nil := by
  simp [QM.RefSem.evalExpr]

/-! ### Tuples and calls -/

/-- **Every tuple field receives the flowing value**: the field's chain starts from `flow` — not from
the previous field's value — and the remaining fields again from `flow`, in the environment the
field left. -/
theorem tuple_fields_receive_flow (n : Nat) (env : Env) (flow : Val) (label : Option String) (c : Chain)
    (rest : List Field) (acc : Fields) (inh : Option (Option String)) :
    evalFields (n + 1) env flow (.val label c :: rest) acc inh =
      (evalChain n env flow c).bind (fun x => evalFields n x.2 flow rest (setOrAppend acc label x.1) inh) := by
  simp [QM.RefSem.evalFields]

/-- **A nilary callee ignores the flowing value** and is called with nil. -/
theorem nilary_ignores_flow (n : Nat) (body : Option Expr) (cenv : Env) (flow : Val) :
    callFlow (n + 1) (.clo true body cenv) flow = apply n (.clo true body cenv) Val.nil := by
  simp [QM.RefSem.callFlow]

/-- a non-nilary closure is called with the flowing value -/
theorem callable_receives_flow (n : Nat) (body : Option Expr) (cenv : Env) (flow : Val) :
    callFlow (n + 1) (.clo false body cenv) flow = apply n (.clo false body cenv) flow := by
  simp [QM.RefSem.callFlow]

/-- `$` is the argument and `^` the function itself inside a body -/
theorem apply_binds_parameter (n : Nat) (nilary : Bool) (body : Expr) (cenv : Env) (arg : Val) :
    apply (n + 1) (.clo nilary (some body) cenv) arg =
      evalExpr n (("$", some arg) :: ("^", some (.clo nilary (some body) cenv)) :: cenv) arg body := by
  simp [QM.RefSem.apply]

/-! ### Environments only grow -/

/-- `P` holds of an `ok` result (nothing is claimed about the other outcomes) -/
def OkSat {α : Type} (P : α → Prop) : Res α → Prop
  | .ok a => P a
  | _ => True

theorem OkSat.bind {α β} {P : α → Prop} {Q : β → Prop} {a : Res α} {f : α → Res β}
    (ha : OkSat P a) (hf : ∀ x, P x → OkSat Q (f x)) : OkSat Q (a.bind f) := by
  cases a with
  | ok x => exact hf x ha
  | fuelOut => trivial
  | err c => trivial
  | unspec y => trivial

/-- `env'` extends `env`: bindings are only ever added in front -/
def Extends (env env' : Env) : Prop := ∃ bs, env' = bs ++ env

theorem Extends.refl (env : Env) : Extends env env := ⟨[], rfl⟩
theorem Extends.trans {a b c : Env} (h₁ : Extends a b) (h₂ : Extends b c) : Extends a c := by
  obtain ⟨x, rfl⟩ := h₁
  obtain ⟨y, rfl⟩ := h₂
  exact ⟨y ++ x, by simp⟩

theorem doMatch_extends (env : Env) (p : Pat) (v : Val) :
    OkSat (fun r => Extends env r.2) (doMatch env p v) := by
  unfold doMatch
  split
  · exact ⟨_, rfl⟩
  · exact ⟨_, rfl⟩
  · trivial

theorem OkSat.mono {α} {P Q : α → Prop} {a : Res α} (h : OkSat P a) (hpq : ∀ x, P x → Q x) : OkSat Q a := by
  cases a with
  | ok x => exact hpq x h
  | fuelOut => trivial
  | err c => trivial
  | unspec y => trivial

structure EnvExt (n : Nat) : Prop where
  evalSeq : ∀ env flow cs, OkSat (fun r => Extends env r.2) (evalSeq n env flow cs)
  evalChain : ∀ env flow c, OkSat (fun r => Extends env r.2) (evalChain n env flow c)
  evalTerms : ∀ env flow ts, OkSat (fun r => Extends env r.2) (evalTerms n env flow ts)
  evalTerm : ∀ env flow t, OkSat (fun r => Extends env r.2) (evalTerm n env flow t)
  evalFields : ∀ env flow fs acc inh,
    OkSat (fun r => Extends env r.2.2) (evalFields n env flow fs acc inh)

theorem envExt_zero : EnvExt 0 := by
  constructor <;> intros <;>
    simp [QM.RefSem.evalSeq, QM.RefSem.evalChain, QM.RefSem.evalTerms, QM.RefSem.evalTerm,
      QM.RefSem.evalFields, OkSat]

theorem envExt_succ (n : Nat) (ih : EnvExt n) : EnvExt (n + 1) := by
  constructor
  · intro env flow cs
    cases cs with
    | nil => simp only [QM.RefSem.evalSeq]; exact Extends.refl _
    | cons c cs =>
      simp only [QM.RefSem.evalSeq]
      refine OkSat.bind (ih.evalChain env flow c) (fun x hx => ?_)
      split
      · exact hx
      · split
        · exact hx
        · exact OkSat.mono (ih.evalSeq _ _ _) (fun _ h => Extends.trans hx h)
  · -- evalChain
    intro env flow c
    cases c with
    | mk pat terms =>
      simp only [QM.RefSem.evalChain]
      refine OkSat.bind (ih.evalTerms env flow terms) (fun x hx => ?_)
      split
      · exact hx
      · exact OkSat.mono (doMatch_extends _ _ _) (fun _ h => Extends.trans hx h)
  · -- evalTerms
    intro env flow ts
    cases ts with
    | nil => simp only [QM.RefSem.evalTerms]; exact Extends.refl _
    | cons t ts =>
      simp only [QM.RefSem.evalTerms]
      refine OkSat.bind (ih.evalTerm env flow t) (fun x hx => ?_)
      exact OkSat.mono (ih.evalTerms _ _ _) (fun _ h => Extends.trans hx h)
  · -- evalTerm
    intro env flow t
    have hpure : ∀ {α} (r : Res α) (g : α → Val),
        OkSat (fun x : Val × Env => Extends env x.2) (r.bind fun a => .ok (g a, env)) := by
      intro α r g
      cases r <;> simp [Res.bind, OkSat, Extends.refl]
    cases t with
    | lit l => simp only [QM.RefSem.evalTerm]; exact Extends.refl _
    | tuple name fields =>
      simp only [QM.RefSem.evalTerm]
      exact OkSat.bind (ih.evalFields env flow fields [] none) (fun x hx => hx)
    | mtch p => simp only [QM.RefSem.evalTerm]; exact doMatch_extends _ _ _
    | block e => simp only [QM.RefSem.evalTerm]; exact hpure _ _
    | fn nilary body => simp only [QM.RefSem.evalTerm]; exact Extends.refl _
    | access s accs =>
      cases s with
      | ripple => simp only [QM.RefSem.evalTerm]; exact hpure _ _
      | builtin name => simp only [QM.RefSem.evalTerm]; exact hpure _ _
      | var x =>
        simp only [QM.RefSem.evalTerm]
        refine OkSat.bind (P := fun _ => True) (by cases readVar env x <;> trivial) (fun b _ => ?_)
        refine OkSat.bind (P := fun _ => True) (by cases project b accs <;> trivial) (fun v _ => ?_)
        split
        · exact hpure _ _
        · exact Extends.refl _
      | param =>
        simp only [QM.RefSem.evalTerm]
        refine OkSat.bind (P := fun _ => True) (by cases readVar env "$" <;> trivial) (fun b _ => ?_)
        refine OkSat.bind (P := fun _ => True) (by cases project b accs <;> trivial) (fun v _ => ?_)
        split
        · exact hpure _ _
        · exact Extends.refl _
    | ref s accs =>
      cases s with
      | ripple => simp only [QM.RefSem.evalTerm]; trivial
      | builtin name => simp only [QM.RefSem.evalTerm]; exact Extends.refl _
      | var x =>
        simp only [QM.RefSem.evalTerm]
        refine OkSat.bind (P := fun _ => True) (by cases readVar env x <;> trivial) (fun b _ => ?_)
        exact hpure _ _
      | param =>
        simp only [QM.RefSem.evalTerm]
        refine OkSat.bind (P := fun _ => True) (by cases readVar env "$" <;> trivial) (fun b _ => ?_)
        exact hpure _ _
    | tail f =>
      cases f with
      | none =>
        simp only [QM.RefSem.evalTerm]
        refine OkSat.bind (P := fun _ => True) (by cases readVar env "^" <;> trivial) (fun b _ => ?_)
        exact hpure _ _
      | some xa =>
        cases xa with
        | mk x accs =>
          simp only [QM.RefSem.evalTerm]
          refine OkSat.bind (P := fun _ => True) (by cases readVar env x <;> trivial) (fun b _ => ?_)
          refine OkSat.bind (P := fun _ => True) (by cases project b accs <;> trivial) (fun v _ => ?_)
          exact hpure _ _
    | tailRipple =>
      simp only [QM.RefSem.evalTerm]
      split
      · exact hpure _ _
      · trivial
  · -- evalFields
    intro env flow fs acc inh
    cases fs with
    | nil => simp only [QM.RefSem.evalFields]; exact Extends.refl _
    | cons f rest =>
      cases f with
      | val label c =>
        simp only [QM.RefSem.evalFields]
        refine OkSat.bind (ih.evalChain env flow c) (fun x hx => ?_)
        exact OkSat.mono (ih.evalFields _ _ _ _ _) (fun _ h => Extends.trans hx h)
      | spread src =>
        simp only [QM.RefSem.evalFields]
        refine OkSat.bind (P := fun _ => True) (by cases src <;> simp [OkSat] <;> cases readVar env _ <;> trivial) (fun sv _ => ?_)
        split
        · exact ih.evalFields _ _ _ _ _
        · trivial

theorem envExt_all (n : Nat) : EnvExt n := by
  induction n with
  | zero => exact envExt_zero
  | succ n ih => exact envExt_succ n ih

/-- **Bindings persist and are never altered**: whatever a sequence (chain, term, tuple) does, the
environment it leaves is the one it started from with bindings added in front — an earlier binding
is never removed or overwritten (rebinding shadows). -/
theorem seq_only_adds_bindings (n : Nat) (env env' : Env) (flow v : Val) (cs : List Chain)
    (h : evalSeq n env flow cs = .ok (v, env')) : ∃ bs, env' = bs ++ env := by
  have := (envExt_all n).evalSeq env flow cs
  rw [h] at this
  exact this


/-! ### Concrete programs (the hypotheses above are satisfiable; the evaluator computes) -/

namespace Ex
/-- `a = 5 { | =1 => 10 | =2 => 20 }, a` (defect F11: must be `[]`) -/
def f11a : List Chain :=
  [ .mk (some (.bind "a")) [.lit (.int 5), .block (.mk [
        .mk [.mk none [.mtch (.lit (.int 1))]] (some [.mk none [.lit (.int 10)]]),
        .mk [.mk none [.mtch (.lit (.int 2))]] (some [.mk none [.lit (.int 20)]])])],
    .mk none [.access (.var "a") []] ]

/-- `5 { | =1 => 10 | =2 => 20 } =a, b = 7, c = 8, [a, b, c]` (must be `[[], 7, 8]`) -/
def f11b : List Chain :=
  [ .mk none [.lit (.int 5), .block (.mk [
        .mk [.mk none [.mtch (.lit (.int 1))]] (some [.mk none [.lit (.int 10)]]),
        .mk [.mk none [.mtch (.lit (.int 2))]] (some [.mk none [.lit (.int 20)]])]),
      .mtch (.bind "a")],
    .mk (some (.bind "b")) [.lit (.int 7)],
    .mk (some (.bind "c")) [.lit (.int 8)],
    .mk none [.tuple .anon [
      .val none (.mk none [.access (.var "a") []]),
      .val none (.mk none [.access (.var "b") []]),
      .val none (.mk none [.access (.var "c") []])]] ]

example : evalProgram 12 f11a = .ok Val.nil := by rfl
example : evalProgram 30 f11b =
    .ok (.tup none [(none, Val.nil), (none, .int 7), (none, .int 8)]) := by rfl
/-- fuel decides only whether there is a result (`eval_fuel_mono` with n = 12, m = 40) -/
example : evalProgram 3 f11a = .fuelOut := by rfl
example : evalProgram 40 f11a = .ok Val.nil :=
  eval_fuel_mono (n := 12) (m := 40) (by decide) f11a _ (by rfl) (by simp)

/-- `[], 5` : the hypothesis of `seq_nil_short_circuits` holds for the step `[]` -/
example : evalChain 4 [] Val.nil (.mk none [.tuple .anon []]) = .ok (Val.nil, []) := by rfl
example : evalProgram 9 [.mk none [.tuple .anon []], .mk none [.lit (.int 5)]] = .ok Val.nil := by rfl
/-- `[] [~, 5]` : one chain, nil flows on (`chain_is_infallible_pipe`) -/
example : evalProgram 12 [.mk none [.tuple .anon [],
      .tuple .anon [.val none (.mk none [.access .ripple []]), .val none (.mk none [.lit (.int 5)])]]] =
    .ok (.tup none [(none, Val.nil), (none, .int 5)]) := by rfl
/-- `5 [~, ~]` : every field receives the flow (`tuple_fields_receive_flow`) -/
example : evalProgram 12 [.mk none [.lit (.int 5),
      .tuple .anon [.val none (.mk none [.access .ripple []]), .val none (.mk none [.access .ripple []])]]] =
    .ok (.tup none [(none, .int 5), (none, .int 5)]) := by rfl
/-- `{ 1 => [], 10 | 2 => 20 }` : the consequence fails after a succeeding condition, the block is
nil (`branch_commit`), the second branch is not tried -/
example : evalProgram 12 [.mk none [.block (.mk [
      .mk [.mk none [.lit (.int 1)]] (some [.mk none [.tuple .anon []], .mk none [.lit (.int 10)]]),
      .mk [.mk none [.lit (.int 2)]] (some [.mk none [.lit (.int 20)]])])]] = .ok Val.nil := by rfl
/-- `x = 1, { x = 2 }, x` : `block_scopes_bindings` -/
example : evalProgram 12 [.mk (some (.bind "x")) [.lit (.int 1)],
      .mk none [.block (.mk [.mk [.mk (some (.bind "x")) [.lit (.int 2)]] none])],
      .mk none [.access (.var "x") []]] = .ok (.int 1) := by rfl
/-- `x = 1, f = #{ x }, x = 2, [] f` : closures capture bindings (value 1) -/
example : evalProgram 30 [.mk (some (.bind "x")) [.lit (.int 1)],
      .mk (some (.bind "f")) [.fn true (some (.mk [.mk [.mk none [.access (.var "x") []]] none]))],
      .mk (some (.bind "x")) [.lit (.int 2)],
      .mk none [.tuple .anon [], .access (.var "f") []]] = .ok (.int 1) := by rfl
/-- `[5, 6] =[x, x]` fails, `[5, 5] =[x, x]` succeeds (repeated binder = equality) -/
example : doMatch [] (.tup none [(none, .bind "x"), (none, .bind "x")])
    (.tup none [(none, .int 5), (none, .int 6)]) = .ok (Val.nil, [("x", none), ("x", none)]) := by rfl
example : doMatch [] (.tup none [(none, .bind "x"), (none, .bind "x")])
    (.tup none [(none, .int 5), (none, .int 5)]) = .ok (Val.okv, [("x", some (.int 5))]) := by rfl
end Ex

end C02
