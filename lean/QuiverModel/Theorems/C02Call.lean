import QuiverModel.Theorems.C02Blk
import QuiverModel.Core.RefSem.Compile3
/-
C02, stretch goal, part 6 — **function literals with captures and calls are compiled correctly**, on C07's
M-VM: the fragment becomes a language with first-class, non-recursive functions.

* `ARunsC` — abstract runs of C02Loc (`astepL` steps) + two more kinds of step: `Function(fi)` (the VM pops
  the captured values into a closure) and `Call`, the latter justified by `cs fv arg = some res`, the
  MEANING of applying a function value — a parameter of the whole development;
* `compileT_arunsC … compileBrs_arunsC` — the structural proof of C02Blk replayed over Compile3's syntax
  (two new terms), parametric in `cs`;
* `InvC`, `call_step`, `return_step` — the process-level facts about `Call` (a frame for the callee whose
  first locals are the captures) and the return when the callee's frame is exhausted (`popFrame`: the
  caller's counter moves on, the locals are cut back to the callee's base);
* `liftC` — abstract runs lift to `transition` given `CallOK cs` (every application `cs` gives a meaning to
  is realised by the VM: from `Call` to the instruction after it, result in place of function and argument);
* `callOK_all` — the knot: `CallOK (callSem Φ n)` for every fuel `n`, by induction on `n` — a call runs the
  callee's code, which is the body compiled as a block over the captures (`fnCode`), whose correctness is
  the structural theorem with `cs := callSem Φ (n - 1)`;
* `compileSq3_correct` — the theorem for a sequence of the entry function.
-/
open QM.VM QM.RefSem.C3
open QM.RefSem.C1 (Sub Pat1 slot compilePat patBinds evalPat wfPat wfProg)
open QM.RefSem.C2 (resetIf)
open C02L (St astepL InvL sim_stepL liftL OracleIntEq e63 jumpTarget_eq Located.tail Located.bound bindVals_length)

set_option linter.unusedSimpArgs false

namespace C02F

/-! ### Instruction steps keep the select state -/

theorem bump_select (p : Proc) : p.bump.selectState = p.selectState := by
  unfold Proc.bump; split <;> rfl

theorem setCounter_select (p : Proc) (c : Nat) : (p.setCounter c).selectState = p.selectState := by
  unfold Proc.setCounter; split <;> rfl

theorem push_select (p : Proc) (v : Val) : (p.push v).selectState = p.selectState := rfl

/-- the instructions of the fragment -/
def fragInstr : Instr → Bool
  | .constant _ | .pop | .duplicate | .pick _ | .rotate _ | .reset _ | .load _ | .store | .tuple _
  | .get _ | .isType _ | .jump _ | .jumpIf _ | .equal _ | .not | .function _ => true
  | _ => false

theorem step_keeps_select (O : Oracle) (P : Prog) (p q : Proc) (i : Instr) (hf : fragInstr i = true)
    (h : stepInstr O P p i = .ok (q, none)) : q.selectState = p.selectState := by
  cases i <;> simp only [fragInstr, Bool.false_eq_true] at hf
  case constant k =>
    simp only [stepInstr, handleConstant] at h
    split at h <;> simp only [QM.VM.ok, Except.ok.injEq, Prod.mk.injEq, and_true, reduceCtorEq] at h
    all_goals (subst h; simp [bump_select, push_select])
  case pop =>
    simp only [stepInstr, handlePop] at h
    split at h <;> simp only [QM.VM.ok, Except.ok.injEq, Prod.mk.injEq, and_true, reduceCtorEq] at h
    subst h; simp [bump_select]
  case duplicate =>
    simp only [stepInstr, handleDuplicate] at h
    split at h <;> simp only [QM.VM.ok, Except.ok.injEq, Prod.mk.injEq, and_true, reduceCtorEq] at h
    subst h; simp [bump_select]
  case pick k =>
    simp only [stepInstr, handlePick] at h
    split at h <;> simp only [QM.VM.ok, Except.ok.injEq, Prod.mk.injEq, and_true, reduceCtorEq] at h
    subst h; simp [bump_select, push_select]
  case rotate k =>
    simp only [stepInstr, handleRotate] at h
    split at h
    · simp at h
    · split at h
      · simp at h
      · split at h <;> simp only [QM.VM.ok, Except.ok.injEq, Prod.mk.injEq, and_true, reduceCtorEq] at h
        subst h; simp [bump_select]
  case reset k =>
    simp only [stepInstr, handleReset] at h
    split at h
    · simp at h
    · split at h <;> simp only [QM.VM.ok, Except.ok.injEq, Prod.mk.injEq, and_true, reduceCtorEq] at h
      subst h; simp [bump_select]
  case load k =>
    simp only [stepInstr, handleLoad] at h
    split at h
    · simp at h
    · split at h <;> simp only [QM.VM.ok, Except.ok.injEq, Prod.mk.injEq, and_true, reduceCtorEq] at h
      subst h; simp [bump_select, push_select]
  case store =>
    simp only [stepInstr, handleStore] at h
    split at h <;> simp only [QM.VM.ok, Except.ok.injEq, Prod.mk.injEq, and_true, reduceCtorEq] at h
    subst h; simp [bump_select]
  case tuple k =>
    simp only [stepInstr, handleTuple] at h
    split at h
    · simp at h
    · split at h <;> simp only [QM.VM.ok, Except.ok.injEq, Prod.mk.injEq, and_true, reduceCtorEq] at h
      subst h; simp [bump_select]
  case get k =>
    simp only [stepInstr, handleGet] at h
    split at h
    · simp at h
    · split at h <;> simp only [QM.VM.ok, Except.ok.injEq, Prod.mk.injEq, and_true, reduceCtorEq] at h
      subst h; simp [bump_select]
    · simp at h
  case isType k =>
    simp only [stepInstr, handleIsType] at h
    split at h <;> simp only [QM.VM.ok, Except.ok.injEq, Prod.mk.injEq, and_true, reduceCtorEq] at h
    subst h; simp [bump_select]
  case jump k =>
    simp only [stepInstr, handleJump] at h
    split at h
    · simp at h
    · split at h <;> simp only [QM.VM.ok, Except.ok.injEq, Prod.mk.injEq, and_true, reduceCtorEq] at h
      all_goals (subst h; simp [setCounter_select])
  case jumpIf k =>
    simp only [stepInstr, handleJumpIf] at h
    split at h
    · simp at h
    · split at h
      · split at h
        · simp at h
        · split at h <;> simp only [QM.VM.ok, Except.ok.injEq, Prod.mk.injEq, and_true, reduceCtorEq] at h
          all_goals (subst h; simp [setCounter_select])
      · simp only [QM.VM.ok, Except.ok.injEq, Prod.mk.injEq, and_true] at h
        subst h; simp [bump_select]
  case equal k =>
    simp only [stepInstr, handleEqual] at h
    split at h
    · simp at h
    · split at h <;> simp only [QM.VM.ok, Except.ok.injEq, Prod.mk.injEq, and_true, reduceCtorEq] at h
      subst h; simp [bump_select]
  case not =>
    simp only [stepInstr, handleNot] at h
    split at h <;> simp only [QM.VM.ok, Except.ok.injEq, Prod.mk.injEq, and_true, reduceCtorEq] at h
    subst h; simp [bump_select]
  case function k =>
    simp only [stepInstr, handleFunction] at h
    split at h
    · simp at h
    · split at h <;> simp only [QM.VM.ok, Except.ok.injEq, Prod.mk.injEq, and_true, reduceCtorEq] at h
      subst h; simp [bump_select]

/-! ### Abstract runs with `Function` and `Call` steps -/

/-- abstract runs over one function's code: the steps of C02Loc's machine, `Function(fi)` (closure
creation) and `Call` — a call step is justified by the MEANING `cs` of the application -/
inductive ARunsC (O : Oracle) (P : Prog) (code : Array Instr) (cs : Val → Val → Option Val) : St → St → Prop where
  | refl (x : St) : ARunsC O P code cs x x
  | step {pc : Nat} {s L : List Val} {x y : St} (i : Instr) (hi : code[pc]? = some i)
      (h : astepL O P i pc s L = some x) (r : ARunsC O P code cs x y) : ARunsC O P code cs (pc, s, L) y
  | func {pc : Nat} {s L : List Val} {y : St} (fi : Nat) (fn : Function) (ws : List Val)
      (hi : code[pc]? = some (.function fi)) (hfn : P.functions[fi]? = some fn) (hc : fn.captures = ws.length)
      (r : ARunsC O P code cs (pc + 1, .fn fi (ValList.ofList ws) :: s, L) y) :
      ARunsC O P code cs (pc, ws.reverse ++ s, L) y
  | call {pc : Nat} {s L : List Val} {y : St} (fv arg res : Val) (hi : code[pc]? = some .call)
      (h : cs fv arg = some res) (r : ARunsC O P code cs (pc + 1, res :: s, L) y) :
      ARunsC O P code cs (pc, fv :: arg :: s, L) y

theorem ARunsC.trans {O : Oracle} {P : Prog} {code : Array Instr} {cs : Val → Val → Option Val} {x y z : St}
    (h₁ : ARunsC O P code cs x y) (h₂ : ARunsC O P code cs y z) : ARunsC O P code cs x z := by
  induction h₁ with
  | refl => exact h₂
  | step i hi h _ ih => exact .step i hi h (ih h₂)
  | func fi fn ws hi hfn hc _ ih => exact .func fi fn ws hi hfn hc (ih h₂)
  | call fv arg res hi h _ ih => exact .call fv arg res hi h (ih h₂)

theorem ARunsC.ofL {O : Oracle} {P : Prog} {code : Array Instr} {cs : Val → Val → Option Val} {x y : St}
    (h : C02L.ARunsL O P code x y) : ARunsC O P code cs x y := by
  induction h with
  | refl x => exact .refl x
  | step i hi h _ ih => exact .step i hi h ih

section Lifted
variable {O : Oracle} {P : Prog} {code : Array Instr} {cs : Val → Val → Option Val} {pc : Nat}

theorem l_pop {v : Val} {s L : List Val} (hi : code[pc]? = some .pop) :
    ARunsC O P code cs (pc, v :: s, L) (pc + 1, s, L) := .ofL (C02L.l_pop hi)
theorem l_const {i : Nat} {z : Int} {s L : List Val} (hi : code[pc]? = some (.constant i))
    (hc : P.constants[i]? = some (.int z)) : ARunsC O P code cs (pc, s, L) (pc + 1, .int z :: s, L) :=
  .ofL (C02L.l_const hi hc)
theorem l_pick {n : Nat} {v : Val} {s L : List Val} (hi : code[pc]? = some (.pick n))
    (hv : s[n]? = some v) : ARunsC O P code cs (pc, s, L) (pc + 1, v :: s, L) := .ofL (C02L.l_pick hi hv)
theorem l_rot2 {a b : Val} {s L : List Val} (hi : code[pc]? = some (.rotate 2)) :
    ARunsC O P code cs (pc, a :: b :: s, L) (pc + 1, b :: a :: s, L) := .ofL (C02L.l_rot2 hi)
theorem l_tuple {id : Nat} {vs rest L : List Val} (hi : code[pc]? = some (.tuple id))
    (hid : P.tuples[id]? = some vs.length) :
    ARunsC O P code cs (pc, vs.reverse ++ rest, L) (pc + 1, .tup id (ValList.ofList vs) :: rest, L) :=
  .ofL (C02L.l_tuple hi hid)
theorem l_dup {v : Val} {s L : List Val} (hi : code[pc]? = some .duplicate) :
    ARunsC O P code cs (pc, v :: s, L) (pc + 1, v :: v :: s, L) := .ofL (C02L.l_dup hi)
theorem l_not {v : Val} {s L : List Val} (hi : code[pc]? = some .not) :
    ARunsC O P code cs (pc, v :: s, L) (pc + 1, (if v.isNil then Val.ok else Val.nil) :: s, L) :=
  .ofL (C02L.l_not hi)
theorem l_jumpIf_fall {off : Int} {c : Val} {s L : List Val}
    (hi : code[pc]? = some (.jumpIf off)) (hc : c.isNil = true) :
    ARunsC O P code cs (pc, c :: s, L) (pc + 1, s, L) := .ofL (C02L.l_jumpIf_fall hi hc)
theorem l_jumpIf_to {off : Int} {t : Nat} {c : Val} {s L : List Val}
    (hi : code[pc]? = some (.jumpIf off)) (hc : c.isNil = false)
    (h : (pc : Int) + off + 1 = (t : Int)) (ht : t < 2 ^ 63) :
    ARunsC O P code cs (pc, c :: s, L) (t, s, L) := .ofL (C02L.l_jumpIf_to hi hc h ht)
theorem l_load {k : Nat} {v : Val} {s L : List Val} (hi : code[pc]? = some (.load k))
    (hv : L[k]? = some v) : ARunsC O P code cs (pc, s, L) (pc + 1, v :: s, L) := .ofL (C02L.l_load hi hv)
theorem l_store {v : Val} {s L : List Val} (hi : code[pc]? = some .store) :
    ARunsC O P code cs (pc, v :: s, L) (pc + 1, s, L ++ [v]) := .ofL (C02L.l_store hi)
theorem l_reset {n : Nat} {s L : List Val} (hi : code[pc]? = some (.reset n)) (hn : n ≤ L.length) :
    ARunsC O P code cs (pc, s, L) (pc + 1, s, L.take n) := .ofL (C02L.l_reset hi hn)
theorem l_jump {off : Int} {t : Nat} {s L : List Val} (hi : code[pc]? = some (.jump off))
    (h : (pc : Int) + off + 1 = (t : Int)) (ht : t < 2 ^ 63) :
    ARunsC O P code cs (pc, s, L) (t, s, L) := .ofL (C02L.l_jump hi h ht)

theorem compilePat_aruns (hO : OracleIntEq O) (hP : wfProg P) (hsz : code.size < 2 ^ 63 - 1)
    (p : Pat1) (pc : Nat) (flow : Val) (rest L : List Val) (v : Val) (bound : List Val)
    (hl : C02S.Located code pc (compilePat p)) (hw : wfPat P p) (hev : evalPat flow p = some (v, bound)) :
    ARunsC O P code cs (pc, flow :: rest, L) (pc + (compilePat p).length, v :: rest, L ++ bound) ∧
      bound.length = (patBinds p).length :=
  ⟨.ofL (C02L.compilePat_aruns hO hP hsz p pc flow rest L v bound hl hw hev).1,
   (C02L.compilePat_aruns (O := O) hO hP hsz p pc flow rest L v bound hl hw hev).2⟩

end Lifted

/-! ### Static and dynamic local counts -/

mutual
  /-- number of binders a term adds to the enclosing scope -/
  def nbT : T3 → Nat
    | .int _ _ => 0
    | .ripple => 0
    | .tup _ fs => nbFs fs
    | .var _ => 0
    | .mtch p => (patBinds p).length
    | .block _ => 0
    | .fnlit _ _ => 0
    | .call _ => 0
    | .callNil _ => 0
  def nbCh : Ch3 → Nat
    | .nil => 0
    | .cons t r => nbT t + nbCh r
  def nbFs : Fs3 → Nat
    | .nil => 0
    | .cons c r => nbCh c + nbFs r
  def nbSq : Sq3 → Nat
    | .last c => nbCh c
    | .cons c r => nbCh c + nbSq r
end

mutual
  theorem compileT_len : (t : T3) → (Γ : List String) → (compileT Γ t).2.length = Γ.length + nbT t
    | .int _ _, Γ => by simp [compileT, nbT]
    | .ripple, Γ => by simp [compileT, nbT]
    | .tup _ fs, Γ => by simp [compileT, nbT, compileFs_len fs Γ 0]
    | .var _, Γ => by simp [compileT, nbT]
    | .mtch p, Γ => by simp [compileT, nbT]
    | .block _, Γ => by simp [compileT, nbT]
    | .fnlit _ _, Γ => by simp [compileT, nbT]
    | .call _, Γ => by simp [compileT, nbT]
    | .callNil _, Γ => by simp [compileT, nbT]
  theorem compileCh_len : (c : Ch3) → (Γ : List String) → (compileCh Γ c).2.length = Γ.length + nbCh c
    | .nil, Γ => by simp [compileCh, nbCh]
    | .cons t r, Γ => by
      simp only [compileCh, nbCh]
      rw [compileCh_len r, compileT_len t]
      omega
  theorem compileFs_len : (fs : Fs3) → (Γ : List String) → (k : Nat) →
      (compileFs Γ fs k).2.length = Γ.length + nbFs fs
    | .nil, Γ, k => by simp [compileFs, nbFs]
    | .cons c r, Γ, k => by
      simp only [compileFs, nbFs]
      rw [compileFs_len r, compileCh_len c]
      omega
  theorem compileSq_len : (sq : Sq3) → (Γ : List String) → (compileSq Γ sq).2.length = Γ.length + nbSq sq
    | .last c, Γ => by simp [compileSq, nbSq, compileCh_len c Γ]
    | .cons c r, Γ => by
      simp only [compileSq, nbSq]
      rw [compileSq_len r, compileCh_len c]
      omega
end

mutual
  /-- a term extends the frame's locals by exactly its binders' values -/
  theorem evalT_ext (cs : Val → Val → Option Val) : (t : T3) → (Γ : List String) → (L : List Val) → (flow v : Val) → (L' : List Val) →
      evalT cs Γ L flow t = some (v, L') → ∃ ext, L' = L ++ ext ∧ ext.length = nbT t
    | .int _ _, Γ, L, flow, v, L', h => by
      simp only [evalT, Option.some.injEq, Prod.mk.injEq] at h
      exact ⟨[], by simp [h.2], rfl⟩
    | .ripple, Γ, L, flow, v, L', h => by
      simp only [evalT, Option.some.injEq, Prod.mk.injEq] at h
      exact ⟨[], by simp [h.2], rfl⟩
    | .tup _ fs, Γ, L, flow, v, L', h => by
      simp only [evalT, Option.map_eq_some_iff] at h
      obtain ⟨⟨vs, L''⟩, hfs, hv⟩ := h
      simp only [Prod.mk.injEq] at hv
      obtain ⟨_, rfl⟩ := hv
      simpa [nbT] using evalFs_ext cs fs Γ L flow vs L'' hfs
    | .var _, Γ, L, flow, v, L', h => by
      simp only [evalT, Option.bind_eq_some_iff, Option.map_eq_some_iff] at h
      obtain ⟨i, _, w, _, hv⟩ := h
      simp only [Prod.mk.injEq] at hv
      exact ⟨[], by simp [hv.2], rfl⟩
    | .mtch p, Γ, L, flow, v, L', h => by
      simp only [evalT, Option.map_eq_some_iff] at h
      obtain ⟨⟨w, bound⟩, hp, hv⟩ := h
      simp only [Prod.mk.injEq] at hv
      obtain ⟨_, rfl⟩ := hv
      exact ⟨bound, rfl, by simpa [nbT] using C02B.evalPat_length flow p w bound hp⟩
    | .block _, Γ, L, flow, v, L', h => by
      simp only [evalT, Option.map_eq_some_iff] at h
      obtain ⟨w, _, hv⟩ := h
      simp only [Prod.mk.injEq] at hv
      exact ⟨[], by simp [hv.2], rfl⟩
    | .fnlit _ _, Γ, L, flow, v, L', h => by
      simp only [evalT, Option.map_eq_some_iff] at h
      obtain ⟨w, _, hv⟩ := h
      simp only [Prod.mk.injEq] at hv
      exact ⟨[], by simp [hv.2], rfl⟩
    | .call _, Γ, L, flow, v, L', h => by
      simp only [evalT, Option.bind_eq_some_iff, Option.map_eq_some_iff] at h
      obtain ⟨i, _, fv, _, res, _, hv⟩ := h
      simp only [Prod.mk.injEq] at hv
      exact ⟨[], by simp [hv.2], rfl⟩
    | .callNil _, Γ, L, flow, v, L', h => by
      simp only [evalT, Option.bind_eq_some_iff, Option.map_eq_some_iff] at h
      obtain ⟨i, _, fv, _, res, _, hv⟩ := h
      simp only [Prod.mk.injEq] at hv
      exact ⟨[], by simp [hv.2], rfl⟩
  theorem evalCh_ext (cs : Val → Val → Option Val) : (c : Ch3) → (Γ : List String) → (L : List Val) → (flow v : Val) → (L' : List Val) →
      evalCh cs Γ L flow c = some (v, L') → ∃ ext, L' = L ++ ext ∧ ext.length = nbCh c
    | .nil, Γ, L, flow, v, L', h => by
      simp only [evalCh, Option.some.injEq, Prod.mk.injEq] at h
      exact ⟨[], by simp [h.2], rfl⟩
    | .cons t r, Γ, L, flow, v, L', h => by
      simp only [evalCh, Option.bind_eq_some_iff] at h
      obtain ⟨⟨v₁, L₁⟩, ht, hr⟩ := h
      obtain ⟨e₁, rfl, l₁⟩ := evalT_ext cs t Γ L flow v₁ L₁ ht
      obtain ⟨e₂, rfl, l₂⟩ := evalCh_ext cs r _ _ _ v L' hr
      exact ⟨e₁ ++ e₂, by simp, by simp [nbCh, l₁, l₂]⟩
  theorem evalFs_ext (cs : Val → Val → Option Val) : (fs : Fs3) → (Γ : List String) → (L : List Val) → (flow : Val) → (vs L' : List Val) →
      evalFs cs Γ L flow fs = some (vs, L') → ∃ ext, L' = L ++ ext ∧ ext.length = nbFs fs
    | .nil, Γ, L, flow, vs, L', h => by
      simp only [evalFs, Option.some.injEq, Prod.mk.injEq] at h
      exact ⟨[], by simp [h.2], rfl⟩
    | .cons c r, Γ, L, flow, vs, L', h => by
      simp only [evalFs, Option.bind_eq_some_iff, Option.map_eq_some_iff] at h
      obtain ⟨⟨v₁, L₁⟩, hc, ⟨vs₂, L₂⟩, hr, hv⟩ := h
      simp only [Prod.mk.injEq] at hv
      obtain ⟨_, rfl⟩ := hv
      obtain ⟨e₁, rfl, l₁⟩ := evalCh_ext cs c Γ L flow v₁ L₁ hc
      obtain ⟨e₂, rfl, l₂⟩ := evalFs_ext cs r _ _ _ vs₂ L₂ hr
      exact ⟨e₁ ++ e₂, by simp, by simp [nbFs, l₁, l₂]⟩
  /-- a sequence extends them by at most its binders' count — exactly that if it did not short-circuit -/
  theorem evalSq_ext (cs : Val → Val → Option Val) : (sq : Sq3) → (Γ : List String) → (L : List Val) → (flow v : Val) → (L' : List Val) →
      evalSq cs Γ L flow sq = some (v, L') →
      ∃ ext, L' = L ++ ext ∧ ext.length ≤ nbSq sq ∧ (v.isNil = false → ext.length = nbSq sq)
    | .last c, Γ, L, flow, v, L', h => by
      simp only [evalSq] at h
      obtain ⟨e, rfl, l⟩ := evalCh_ext cs c Γ L flow v L' h
      exact ⟨e, rfl, by simp [nbSq, l], fun _ => by simp [nbSq, l]⟩
    | .cons c r, Γ, L, flow, v, L', h => by
      simp only [evalSq, Option.bind_eq_some_iff] at h
      obtain ⟨⟨v₁, L₁⟩, hc, hr⟩ := h
      obtain ⟨e₁, rfl, l₁⟩ := evalCh_ext cs c Γ L flow v₁ L₁ hc
      by_cases hv : v₁.isNil = true
      · simp only [hv, if_true, Option.some.injEq, Prod.mk.injEq] at hr
        obtain ⟨rfl, rfl⟩ := hr
        exact ⟨e₁, rfl, by simp [nbSq, l₁], fun h => by rw [hv] at h; cases h⟩
      · have hv' : v₁.isNil = false := by simpa using hv
        simp only [hv', Bool.false_eq_true, if_false] at hr
        obtain ⟨e₂, rfl, l₂, l₃⟩ := evalSq_ext cs r _ _ _ v L' hr
        exact ⟨e₁ ++ e₂, by simp, by simp [nbSq, l₁]; omega, fun h => by simp [nbSq, l₁, l₃ h]⟩
end

/-! ### Small facts -/

theorem compileBrs_isNil (Γp : List String) (n k : Nat) (first : Bool) (bs : Brs3) (h : bs.isNil = true) :
    compileBrs Γp n bs k first = ([], []) := by
  cases bs with
  | nil => simp [compileBrs]
  | cons a b c => simp [Brs3.isNil] at h

section Machine
variable {O : Oracle} {P : Prog} {code : Array Instr} {cs : Val → Val → Option Val}

/-- `Reset(n+1)` where the branch has compile-time bindings; where it has none, nothing was stored -/
theorem resetIf_aruns (len n pc : Nat) (s Lp ext : List Val) (hl : C02S.Located code pc (resetIf len n))
    (hLp : Lp.length = n + 1) (hext : ¬ (len > n + 1) → ext = []) :
    ARunsC O P code cs (pc, s, Lp ++ ext) (pc + (resetIf len n).length, s, Lp) := by
  unfold resetIf at hl ⊢
  by_cases h : len > n + 1
  · simp only [h, if_true] at hl ⊢
    have := l_reset (O := O) (P := P) (cs := cs) (s := s) (L := Lp ++ ext) (n := n + 1) hl.head (by simp; omega)
    simpa [← hLp] using this
  · simp only [h, if_false] at hl ⊢
    rw [hext h]
    simpa using ARunsC.refl _

/-- a later branch starts by popping the failed condition's nil -/
theorem pre_aruns (first : Bool) (junk : Val) (rest L : List Val) (pos : Nat) (X : List Instr)
    (hl : C02S.Located code pos ((if first then [] else [Instr.pop]) ++ X)) :
    ∃ p1, ARunsC O P code cs (pos, (if first then rest else junk :: rest), L) (p1, rest, L) ∧
      C02S.Located code p1 X ∧ p1 = pos + (if first then [] else [Instr.pop]).length := by
  cases first with
  | true => exact ⟨pos, by simpa using ARunsC.refl _, by simpa using hl, by simp⟩
  | false =>
    simp only [Bool.false_eq_true, if_false] at hl ⊢
    have hl' : C02S.Located code pos (.pop :: X) := by simpa using hl
    exact ⟨pos + 1, l_pop hl'.head, Located.tail hl', by simp⟩

theorem loadsOf_length (Γ : List String) : (caps : List String) → (loadsOf Γ caps).length = caps.length
  | [] => rfl
  | c :: r => by simp [loadsOf, loadsOf_length Γ r]

theorem capVals_length (Γ : List String) (L : List Val) : (caps : List String) → (ws : List Val) →
    capVals Γ L caps = some ws → ws.length = caps.length
  | [], ws, h => by simp only [capVals, Option.some.injEq] at h; subst h; rfl
  | c :: r, ws, h => by
    simp only [capVals] at h
    split at h
    · rename_i v vs _ hvs
      simp only [Option.some.injEq] at h
      subst h
      simp [capVals_length Γ L r vs hvs]
    · simp at h

/-- the captured values are pushed in capture order -/
theorem loads_aruns (Γ : List String) (L : List Val) : (caps : List String) → (ws : List Val) → (q : Nat) →
    (s : List Val) → C02S.Located code q (loadsOf Γ caps) → capVals Γ L caps = some ws →
    ARunsC O P code cs (q, s, L) (q + caps.length, ws.reverse ++ s, L)
  | [], ws, q, s, _, h => by
    simp only [capVals, Option.some.injEq] at h
    subst h
    simpa using ARunsC.refl _
  | c :: r, ws, q, s, hl, h => by
    simp only [capVals] at h
    split at h
    · rename_i v vs hv hvs
      simp only [Option.some.injEq] at h
      subst h
      simp only [Option.bind_eq_some_iff] at hv
      obtain ⟨i, hi, hLi⟩ := hv
      have hl' : C02S.Located code q (.load i :: loadsOf Γ r) := by simpa [loadsOf, hi] using hl
      have a := l_load (O := O) (P := P) (cs := cs) (s := s) (L := L) hl'.head hLi
      have b := loads_aruns Γ L r vs (q + 1) (v :: s) (Located.tail hl') hvs
      have := a.trans b
      have e : q + (c :: r).length = q + 1 + r.length := by simp; omega
      rw [e]
      simpa using this
    · simp at h

theorem Located.le_size {pc : Nat} {is : List Instr} (h : C02S.Located code pc is) :
    is ≠ [] → pc + is.length ≤ code.size := by
  intro hne
  have hpos : 0 < is.length := List.length_pos_iff.mpr hne
  have := Located.bound h (is.length - 1) (by omega)
  omega

mutual
  theorem compileT_aruns (hO : OracleIntEq O) (hP : wfProg P) (hsz : code.size < 2 ^ 63 - 1) :
      (t : T3) → (Γ : List String) → (pc : Nat) → (flow : Val) → (rest L : List Val) → (v : Val) →
      (L' : List Val) → C02S.Located code pc (compileT Γ t).1 → wfT P t → L.length = Γ.length →
      evalT cs Γ L flow t = some (v, L') →
      ARunsC O P code cs (pc, flow :: rest, L) (pc + (compileT Γ t).1.length, v :: rest, L')
    | .int z i, Γ, pc, flow, rest, L, v, L', hl, hw, _, hev => by
      simp only [evalT, Option.some.injEq, Prod.mk.injEq] at hev
      obtain ⟨rfl, rfl⟩ := hev
      simp only [compileT] at hl ⊢
      exact (l_pop hl.head).trans (l_const (Located.tail hl).head hw)
    | .ripple, Γ, pc, flow, rest, L, v, L', _, _, _, hev => by
      simp only [evalT, Option.some.injEq, Prod.mk.injEq] at hev
      obtain ⟨rfl, rfl⟩ := hev
      simp only [compileT, List.length_nil, Nat.add_zero]
      exact .refl _
    | .tup id fs, Γ, pc, flow, rest, L, v, L', hl, hw, hal, hev => by
      simp only [evalT, Option.map_eq_some_iff] at hev
      obtain ⟨⟨vs, L''⟩, hfs, hv⟩ := hev
      simp only [Prod.mk.injEq] at hv
      obtain ⟨rfl, rfl⟩ := hv
      simp only [compileT] at hl ⊢
      obtain ⟨hrun, hlen⟩ := compileFs_aruns hO hP hsz fs Γ pc flow rest L [] vs L'' hl.left hw.2 hal hfs
      simp only [List.length_nil, List.reverse_nil, List.nil_append] at hrun
      refine hrun.trans ?_
      have hr := hl.right
      have h0 := hr.head
      have h1 := (Located.tail hr).head
      have h2 := (Located.tail (Located.tail hr)).head
      have hid : P.tuples[id]? = some vs.length := by rw [hlen]; exact hw.1
      have e : pc + ((compileFs Γ fs 0).1 ++ [Instr.tuple id, Instr.rotate 2, Instr.pop]).length =
          pc + (compileFs Γ fs 0).1.length + 1 + 1 + 1 := by simp; omega
      rw [e]
      exact ((l_tuple h0 hid).trans (l_rot2 h1)).trans (l_pop h2)
    | .var x, Γ, pc, flow, rest, L, v, L', hl, _, _, hev => by
      simp only [evalT, Option.bind_eq_some_iff, Option.map_eq_some_iff] at hev
      obtain ⟨i, hi, w, hw', hv⟩ := hev
      simp only [Prod.mk.injEq] at hv
      obtain ⟨rfl, rfl⟩ := hv
      simp only [compileT, hi, Option.getD_some] at hl ⊢
      exact (l_pop hl.head).trans (l_load (Located.tail hl).head hw')
    | .mtch p, Γ, pc, flow, rest, L, v, L', hl, hw, _, hev => by
      simp only [evalT, Option.map_eq_some_iff] at hev
      obtain ⟨⟨w, bound⟩, hp, hv⟩ := hev
      simp only [Prod.mk.injEq] at hv
      obtain ⟨rfl, rfl⟩ := hv
      simp only [compileT] at hl ⊢
      exact (compilePat_aruns hO hP hsz p pc flow rest L w bound hl hw hp).1
    | .block bs, Γ, pc, flow, rest, L, v, L', hl, hw, hal, hev => by
      simp only [evalT, Option.map_eq_some_iff] at hev
      obtain ⟨w, hbs, hv⟩ := hev
      simp only [Prod.mk.injEq] at hv
      obtain ⟨rfl, rfl⟩ := hv
      simp only [compileT] at hl ⊢
      -- the pieces of the block's code
      have hl1 : C02S.Located code pc (.store :: ((compileBrs (Γ ++ [""]) Γ.length bs 0 true).1 ++
          ([.reset Γ.length] ++ ((if (compileBrs (Γ ++ [""]) Γ.length bs 0 true).2 = [] then []
            else [.jump (((compileBrs (Γ ++ [""]) Γ.length bs 0 true).2.length : Nat) : Int)]) ++
            (compileBrs (Γ ++ [""]) Γ.length bs 0 true).2)))) := by simpa using hl
      have hst := hl1.head
      have hmain := (Located.tail hl1).left
      have hafter := (Located.tail hl1).right
      have hreset : code[pc + 1 + (compileBrs (Γ ++ [""]) Γ.length bs 0 true).1.length]? = some (.reset Γ.length) :=
        hafter.head
      have hrest := Located.tail hafter
      have hPC : pc + 1 + (compileBrs (Γ ++ [""]) Γ.length bs 0 true).1.length < code.size := by
        have := Located.bound hafter 0 (by simp)
        simpa using this
      have s1 := l_store (O := O) (P := P) (cs := cs) (v := flow) (s := rest) (L := L) hst
      -- the cleanup blocks sit two instructions after the parameter clear, if there are any
      have hcl : C02S.Located code (pc + 1 + (compileBrs (Γ ++ [""]) Γ.length bs 0 true).1.length + 2 + 2 * 0)
          (compileBrs (Γ ++ [""]) Γ.length bs 0 true).2 := by
        by_cases hc : (compileBrs (Γ ++ [""]) Γ.length bs 0 true).2 = []
        · rw [hc]; intro k hk; simp at hk
        · simp only [hc, if_false] at hrest
          have hrest' : C02S.Located code (pc + 1 + (compileBrs (Γ ++ [""]) Γ.length bs 0 true).1.length + 1)
              (.jump (((compileBrs (Γ ++ [""]) Γ.length bs 0 true).2.length : Nat) : Int) ::
                (compileBrs (Γ ++ [""]) Γ.length bs 0 true).2) := by simpa using hrest
          have := Located.tail hrest'
          simpa [Nat.add_assoc] using this
      have main := compileBrs_aruns hO hP hsz bs (Γ ++ [""]) Γ.length 0 true (pc + 1)
        (pc + 1 + (compileBrs (Γ ++ [""]) Γ.length bs 0 true).1.length) flow flow rest L w hmain rfl hcl hPC hw.2
        (by simp) hal (fun _ => hw.1) (fun h => by cases h) hbs
      simp only [if_true] at main
      have r1 := l_reset (O := O) (P := P) (cs := cs) (s := w :: rest) (L := L ++ [flow]) (n := Γ.length) hreset
        (by simp; omega)
      have htake : (L ++ [flow]).take Γ.length = L := by rw [← hal]; simp
      rw [htake] at r1
      refine (s1.trans main).trans (r1.trans ?_)
      by_cases hc : (compileBrs (Γ ++ [""]) Γ.length bs 0 true).2 = []
      · simp only [hc, if_true, List.append_nil]
        have e : pc + ([Instr.store] ++ ((compileBrs (Γ ++ [""]) Γ.length bs 0 true).1 ++ [Instr.reset Γ.length])).length =
            pc + 1 + (compileBrs (Γ ++ [""]) Γ.length bs 0 true).1.length + 1 := by simp; omega
        rw [e]
        exact .refl _
      · simp only [hc, if_false] at hrest ⊢
        have hj := hrest.head
        have hb := Located.le_size (code := code) hrest (by simp)
        have e : pc + ([Instr.store] ++ ((compileBrs (Γ ++ [""]) Γ.length bs 0 true).1 ++ ([Instr.reset Γ.length] ++
            ([Instr.jump (((compileBrs (Γ ++ [""]) Γ.length bs 0 true).2.length : Nat) : Int)] ++
              (compileBrs (Γ ++ [""]) Γ.length bs 0 true).2)))).length =
            pc + 1 + (compileBrs (Γ ++ [""]) Γ.length bs 0 true).1.length + 1 + 1 +
              (compileBrs (Γ ++ [""]) Γ.length bs 0 true).2.length := by simp; omega
        rw [e]
        simp at hb
        exact l_jump hj (by omega) (by rw [e63]; omega)
    | .fnlit fi caps, Γ, pc, flow, rest, L, v, L', hl, hw, _, hev => by
      simp only [evalT, Option.map_eq_some_iff] at hev
      obtain ⟨ws, hws, hv⟩ := hev
      simp only [Prod.mk.injEq] at hv
      obtain ⟨rfl, rfl⟩ := hv
      obtain ⟨fn, hfn, hcap⟩ := hw
      simp only [compileT] at hl ⊢
      have hl' : C02S.Located code pc (.pop :: (loadsOf Γ caps ++ [.function fi])) := by simpa using hl
      have a := l_pop (O := O) (P := P) (cs := cs) (v := flow) (s := rest) (L := L) hl'.head
      have hl2 := Located.tail hl'
      have b := loads_aruns (O := O) (P := P) (cs := cs) Γ L caps ws (pc + 1) rest hl2.left hws
      have hf : code[pc + 1 + caps.length]? = some (.function fi) := by
        have := hl2.right.head
        simpa [loadsOf_length] using this
      have hlen := capVals_length Γ L caps ws hws
      have c : ARunsC O P code cs (pc + 1 + caps.length, ws.reverse ++ rest, L)
          (pc + 1 + caps.length + 1, .fn fi (ValList.ofList ws) :: rest, L) :=
        .func fi fn ws hf hfn (by rw [hcap, hlen]) (.refl _)
      have e : pc + ([Instr.pop] ++ (loadsOf Γ caps ++ [Instr.function fi])).length = pc + 1 + caps.length + 1 := by
        simp [loadsOf_length]; omega
      rw [e]
      exact (a.trans b).trans c
    | .call x, Γ, pc, flow, rest, L, v, L', hl, _, _, hev => by
      simp only [evalT, Option.bind_eq_some_iff, Option.map_eq_some_iff] at hev
      obtain ⟨i, hi, fv, hfv, res, hres, hv⟩ := hev
      simp only [Prod.mk.injEq] at hv
      obtain ⟨rfl, rfl⟩ := hv
      simp only [compileT, hi, Option.getD_some] at hl ⊢
      have a := l_load (O := O) (P := P) (cs := cs) (s := flow :: rest) (L := L) hl.head hfv
      have b : ARunsC O P code cs (pc + 1, fv :: flow :: rest, L) (pc + 1 + 1, res :: rest, L) :=
        .call fv flow res (Located.tail hl).head hres (.refl _)
      exact a.trans b
    | .callNil x, Γ, pc, flow, rest, L, v, L', hl, _, _, hev => by
      simp only [evalT, Option.bind_eq_some_iff, Option.map_eq_some_iff] at hev
      obtain ⟨i, hi, fv, hfv, res, hres, hv⟩ := hev
      simp only [Prod.mk.injEq] at hv
      obtain ⟨rfl, rfl⟩ := hv
      simp only [compileT, hi, Option.getD_some] at hl ⊢
      have t1 := Located.tail hl
      have t2 := Located.tail t1
      have t3 := Located.tail t2
      have t4 := Located.tail t3
      have t5 := Located.tail t4
      have a := l_load (O := O) (P := P) (cs := cs) (s := flow :: rest) (L := L) hl.head hfv
      have b := l_rot2 (O := O) (P := P) (cs := cs) (a := fv) (b := flow) (s := rest) (L := L) t1.head
      have c := l_pop (O := O) (P := P) (cs := cs) (v := flow) (s := fv :: rest) (L := L) t2.head
      have d := l_tuple (O := O) (P := P) (cs := cs) (id := 0) (vs := []) (rest := fv :: rest) (L := L) t3.head
        (by simpa using hP.1)
      have e := l_rot2 (O := O) (P := P) (cs := cs) (a := Val.tup 0 (ValList.ofList [])) (b := fv) (s := rest) (L := L)
        (by simpa using t4.head)
      have f : ARunsC O P code cs (pc + 1 + 1 + 1 + 1 + 1, fv :: Val.nil :: rest, L)
          (pc + 1 + 1 + 1 + 1 + 1 + 1, res :: rest, L) :=
        .call fv Val.nil res t5.head hres (.refl _)
      have := ((((a.trans b).trans c).trans (by simpa using d)).trans (by simpa [ValList.ofList] using e)).trans
        (by simpa [Val.nil] using f)
      simpa using this
  theorem compileCh_aruns (hO : OracleIntEq O) (hP : wfProg P) (hsz : code.size < 2 ^ 63 - 1) :
      (c : Ch3) → (Γ : List String) → (pc : Nat) → (flow : Val) → (rest L : List Val) → (v : Val) →
      (L' : List Val) → C02S.Located code pc (compileCh Γ c).1 → wfCh P c → L.length = Γ.length →
      evalCh cs Γ L flow c = some (v, L') →
      ARunsC O P code cs (pc, flow :: rest, L) (pc + (compileCh Γ c).1.length, v :: rest, L')
    | .nil, Γ, pc, flow, rest, L, v, L', _, _, _, hev => by
      simp only [evalCh, Option.some.injEq, Prod.mk.injEq] at hev
      obtain ⟨rfl, rfl⟩ := hev
      simp only [compileCh, List.length_nil, Nat.add_zero]
      exact .refl _
    | .cons t r, Γ, pc, flow, rest, L, v, L', hl, hw, hal, hev => by
      simp only [evalCh, Option.bind_eq_some_iff] at hev
      obtain ⟨⟨v₁, L₁⟩, ht, hr⟩ := hev
      simp only [compileCh] at hl ⊢
      have run₁ := compileT_aruns hO hP hsz t Γ pc flow rest L v₁ L₁ hl.left hw.1 hal ht
      obtain ⟨e₁, rfl, l₁⟩ := evalT_ext cs t Γ L flow v₁ L₁ ht
      have al₁ : (L ++ e₁).length = (compileT Γ t).2.length := by rw [compileT_len]; simp [hal, l₁]
      have run₂ := compileCh_aruns hO hP hsz r (compileT Γ t).2 (pc + (compileT Γ t).1.length) v₁ rest
        (L ++ e₁) v L' hl.right hw.2 al₁ hr
      refine run₁.trans ?_
      simpa [Nat.add_assoc] using run₂
  theorem compileFs_aruns (hO : OracleIntEq O) (hP : wfProg P) (hsz : code.size < 2 ^ 63 - 1) :
      (fs : Fs3) → (Γ : List String) → (pc : Nat) → (flow : Val) → (rest L acc vs : List Val) →
      (L' : List Val) → C02S.Located code pc (compileFs Γ fs acc.length).1 → wfFs P fs →
      L.length = Γ.length → evalFs cs Γ L flow fs = some (vs, L') →
      ARunsC O P code cs (pc, acc.reverse ++ flow :: rest, L)
          (pc + (compileFs Γ fs acc.length).1.length, (acc ++ vs).reverse ++ flow :: rest, L') ∧
        vs.length = fs.length
    | .nil, Γ, pc, flow, rest, L, acc, vs, L', _, _, _, hev => by
      simp only [evalFs, Option.some.injEq, Prod.mk.injEq] at hev
      obtain ⟨rfl, rfl⟩ := hev
      simp only [compileFs, List.append_nil, List.length_nil, Nat.add_zero]
      exact ⟨.refl _, rfl⟩
    | .cons c r, Γ, pc, flow, rest, L, acc, vs, L', hl, hw, hal, hev => by
      simp only [evalFs, Option.bind_eq_some_iff, Option.map_eq_some_iff] at hev
      obtain ⟨⟨v₁, L₁⟩, hc, ⟨vs₂, L₂⟩, hr, hv⟩ := hev
      simp only [Prod.mk.injEq] at hv
      obtain ⟨rfl, rfl⟩ := hv
      simp only [compileFs] at hl ⊢
      rw [List.append_assoc] at hl
      have h0 : code[pc]? = some (.pick acc.length) := hl.head
      have hpick : (acc.reverse ++ flow :: rest)[acc.length]? = some flow :=
        C02S.getElem?_append_reverse' acc flow rest
      have hl2 : C02S.Located code (pc + 1) ((compileCh Γ c).1 ++ (compileFs (compileCh Γ c).2 r (acc.length + 1)).1) := by
        have := hl.right
        simpa using this
      have run₁ := compileCh_aruns hO hP hsz c Γ (pc + 1) flow (acc.reverse ++ flow :: rest) L v₁ L₁
        hl2.left hw.1 hal hc
      obtain ⟨e₁, rfl, l₁⟩ := evalCh_ext cs c Γ L flow v₁ L₁ hc
      have al₁ : (L ++ e₁).length = (compileCh Γ c).2.length := by rw [compileCh_len]; simp [hal, l₁]
      obtain ⟨run₂, len₂⟩ := compileFs_aruns hO hP hsz r (compileCh Γ c).2 (pc + 1 + (compileCh Γ c).1.length)
        flow rest (L ++ e₁) (acc ++ [v₁]) vs₂ L₂ (by simpa using hl2.right) hw.2 al₁ hr
      refine ⟨(l_pick h0 hpick).trans (run₁.trans ?_), by simp [Fs3.length, len₂]⟩
      have e : pc + ([Instr.pick acc.length] ++ (compileCh Γ c).1 ++ (compileFs (compileCh Γ c).2 r (acc.length + 1)).1).length =
          pc + 1 + (compileCh Γ c).1.length + (compileFs (compileCh Γ c).2 r (acc ++ [v₁]).length).1.length := by
        simp; omega
      rw [e]
      simpa using run₂
  theorem compileSq_aruns (hO : OracleIntEq O) (hP : wfProg P) (hsz : code.size < 2 ^ 63 - 1) :
      (sq : Sq3) → (Γ : List String) → (pc : Nat) → (flow : Val) → (rest L : List Val) → (v : Val) →
      (L' : List Val) → C02S.Located code pc (compileSq Γ sq).1 → wfSq P sq → L.length = Γ.length →
      evalSq cs Γ L flow sq = some (v, L') →
      ARunsC O P code cs (pc, flow :: rest, L) (pc + (compileSq Γ sq).1.length, v :: rest, L')
    | .last c, Γ, pc, flow, rest, L, v, L', hl, hw, hal, hev => by
      simp only [compileSq, evalSq] at hl hev ⊢
      exact compileCh_aruns hO hP hsz c Γ pc flow rest L v L' hl hw hal hev
    | .cons c r, Γ, pc, flow, rest, L, v, L', hl, hw, hal, hev => by
      simp only [evalSq, Option.bind_eq_some_iff] at hev
      obtain ⟨⟨v₁, L₁⟩, hc, hr⟩ := hev
      simp only [compileSq] at hl ⊢
      have run₁ := compileCh_aruns hO hP hsz c Γ pc flow rest L v₁ L₁ hl.left hw.1 hal hc
      obtain ⟨e₁, rfl, l₁⟩ := evalCh_ext cs c Γ L flow v₁ L₁ hc
      have al₁ : (L ++ e₁).length = (compileCh Γ c).2.length := by rw [compileCh_len]; simp [hal, l₁]
      refine run₁.trans ?_
      have hl2 := hl.right
      have hd := hl2.head
      have hn := (Located.tail hl2).head
      have hj := (Located.tail (Located.tail hl2)).head
      have hl3 : C02S.Located code (pc + (compileCh Γ c).1.length + 1 + 1 + 1) (compileSq (compileCh Γ c).2 r).1 :=
        Located.tail (Located.tail (Located.tail hl2))
      have hjb := Located.bound hl2 2 (by simp)
      have hend : pc + (compileCh Γ c).1.length + 1 + 1 + (compileSq (compileCh Γ c).2 r).1.length + 1 ≤ code.size := by
        by_cases h0 : (compileSq (compileCh Γ c).2 r).1.length = 0
        · omega
        · have := Located.bound hl3 ((compileSq (compileCh Γ c).2 r).1.length - 1) (by omega)
          omega
      have etot : pc + ((compileCh Γ c).1 ++ ([Instr.duplicate, Instr.not,
          Instr.jumpIf ((compileSq (compileCh Γ c).2 r).1.length : Int)] ++ (compileSq (compileCh Γ c).2 r).1)).length
          = pc + (compileCh Γ c).1.length + 1 + 1 + (compileSq (compileCh Γ c).2 r).1.length + 1 := by simp; omega
      rw [etot]
      refine ((l_dup hd).trans (l_not hn)).trans ?_
      by_cases hv : v₁.isNil = true
      · simp only [hv, if_true, Option.some.injEq, Prod.mk.injEq] at hr ⊢
        obtain ⟨rfl, rfl⟩ := hr
        exact l_jumpIf_to hj rfl (by omega) (by rw [e63]; omega)
      · have hv' : v₁.isNil = false := by simpa using hv
        simp only [hv', Bool.false_eq_true, if_false] at hr ⊢
        refine (l_jumpIf_fall hj rfl).trans ?_
        have := compileSq_aruns hO hP hsz r (compileCh Γ c).2 _ v₁ rest (L ++ e₁) v L' hl3 hw.2 al₁ hr
        have e2 : pc + (compileCh Γ c).1.length + 1 + 1 + 1 + (compileSq (compileCh Γ c).2 r).1.length =
            pc + (compileCh Γ c).1.length + 1 + 1 + (compileSq (compileCh Γ c).2 r).1.length + 1 := by omega
        rw [e2] at this
        exact this
  /-- the branches from one on: from the branch's start (with the previous condition's nil on the stack
  unless it is the first) to the parameter clear at `PC`, value on the stack, locals `L ++ [parameter]` -/
  theorem compileBrs_aruns (hO : OracleIntEq O) (hP : wfProg P) (hsz : code.size < 2 ^ 63 - 1) :
      (bs : Brs3) → (Γp : List String) → (n k : Nat) → (first : Bool) → (pos PC : Nat) →
      (flow junk : Val) → (rest L : List Val) → (v : Val) →
      C02S.Located code pos (compileBrs Γp n bs k first).1 →
      pos + (compileBrs Γp n bs k first).1.length = PC →
      C02S.Located code (PC + 2 + 2 * k) (compileBrs Γp n bs k first).2 →
      PC < code.size → wfBrs P bs → Γp.length = n + 1 → L.length = n →
      (first = true → bs.isNil = false) → (first = false → junk = Val.nil) →
      evalBrs cs Γp (L ++ [flow]) flow bs = some v →
      ARunsC O P code cs (pos, (if first then rest else junk :: rest), L ++ [flow]) (PC, v :: rest, L ++ [flow])
    | .nil, Γp, n, k, first, pos, PC, flow, junk, rest, L, v, _, hPC, _, _, _, _, _, hf, hj, hev => by
      cases first with
      | true => have := hf rfl; simp [Brs3.isNil] at this
      | false =>
        simp only [evalBrs, Option.some.injEq] at hev
        simp only [compileBrs, List.length_nil, Nat.add_zero] at hPC
        subst hev hPC
        rw [hj rfl]
        exact .refl _
    | .cons cond .none rs, Γp, n, k, first, pos, PC, flow, junk, rest, L, v, hl, hPC, hcl, hPCs, hw, hΓ, hL, _, _, hev => by
      simp only [evalBrs, Option.bind_eq_some_iff] at hev
      obtain ⟨⟨vc, Lc⟩, hc, hrest⟩ := hev
      simp only [compileBrs] at hl hPC hcl
      obtain ⟨p1, runPre, hl1, hp1⟩ := pre_aruns (O := O) (P := P) (cs := cs) first junk rest (L ++ [flow]) pos _ hl
      refine runPre.trans ?_
      have hl1' : C02S.Located code p1 (.load n :: ((compileSq Γp cond).1 ++ (resetIf (compileSq Γp cond).2.length n ++
          ((if rs.isNil then [] else [.duplicate, .jumpIf ((compileBrs Γp n rs k false).1.length : Int)]) ++
            (compileBrs Γp n rs k false).1)))) := by simpa using hl1
      have hload := hl1'.head
      have hl2 := (Located.tail hl1')
      have hLp : (L ++ [flow]).length = Γp.length := by simp [hL, hΓ]
      have hflow : (L ++ [flow])[n]? = some flow := by rw [← hL]; simp
      have runLoad := l_load (O := O) (P := P) (cs := cs) (s := rest) (L := L ++ [flow]) hload hflow
      have runCond := compileSq_aruns hO hP hsz cond Γp (p1 + 1) flow rest (L ++ [flow]) vc Lc hl2.left hw.1 hLp hc
      obtain ⟨ext, rfl, le, lx⟩ := evalSq_ext cs cond Γp (L ++ [flow]) flow vc Lc hc
      have hl3 := hl2.right
      have runReset := resetIf_aruns (O := O) (P := P) (cs := cs) (compileSq Γp cond).2.length n
        (p1 + 1 + (compileSq Γp cond).1.length) (vc :: rest) (L ++ [flow]) ext hl3.left (by simp [hL])
        (by intro h; rw [compileSq_len, hΓ] at h; apply List.eq_nil_of_length_eq_zero; omega)
      refine (runLoad.trans (runCond.trans runReset)).trans ?_
      have hl4 := hl3.right
      by_cases hlast : rs.isNil = true
      · -- last branch: the code ends at the parameter clear
        have hr0 := compileBrs_isNil Γp n k false rs hlast
        simp only [hlast, if_true, hr0, List.append_nil, List.length_append, List.length_cons,
          List.length_nil] at hPC hl4 ⊢
        have e : p1 + 1 + (compileSq Γp cond).1.length + (resetIf (compileSq Γp cond).2.length n).length = PC := by
          rw [hp1]; omega
        rw [e]
        by_cases hv : vc.isNil = true
        · simp only [hv, if_true] at hrest
          cases rs with
          | nil =>
            simp only [evalBrs, Option.some.injEq] at hrest
            subst hrest
            rw [C02B.isNil_eq vc hv]
            exact .refl _
          | cons a b c => simp [Brs3.isNil] at hlast
        · have hv' : vc.isNil = false := by simpa using hv
          simp only [hv', Bool.false_eq_true, if_false, Option.some.injEq] at hrest
          subst hrest
          exact .refl _
      · have hlast' : rs.isNil = false := by simpa using hlast
        simp only [hlast', Bool.false_eq_true, if_false] at hPC hl4 ⊢
        have hl5 : C02S.Located code (p1 + 1 + (compileSq Γp cond).1.length + (resetIf (compileSq Γp cond).2.length n).length)
            (.duplicate :: .jumpIf ((compileBrs Γp n rs k false).1.length : Int) :: (compileBrs Γp n rs k false).1) := by
          simpa using hl4
        have hd := hl5.head
        have hji := (Located.tail hl5).head
        have hl6 := Located.tail (Located.tail hl5)
        have ePC : p1 + 1 + (compileSq Γp cond).1.length + (resetIf (compileSq Γp cond).2.length n).length + 1 + 1 +
            (compileBrs Γp n rs k false).1.length = PC := by
          rw [hp1]
          simp only [List.length_append, List.length_cons, List.length_nil] at hPC
          omega
        have runDup := l_dup (O := O) (P := P) (cs := cs) (v := vc) (s := rest) (L := L ++ [flow]) hd
        refine runDup.trans ?_
        by_cases hv : vc.isNil = true
        · simp only [hv, if_true] at hrest
          have runFall := l_jumpIf_fall (O := O) (P := P) (cs := cs) (c := vc) (s := vc :: rest) (L := L ++ [flow]) hji hv
          refine runFall.trans ?_
          have ih := compileBrs_aruns hO hP hsz rs Γp n k false _ PC flow vc rest L v hl6 ePC hcl hPCs hw.2 hΓ hL
            (fun h => by cases h) (fun _ => C02B.isNil_eq vc hv) hrest
          simpa using ih
        · have hv' : vc.isNil = false := by simpa using hv
          simp only [hv', Bool.false_eq_true, if_false, Option.some.injEq] at hrest
          subst hrest
          exact l_jumpIf_to hji hv' (by omega) (by rw [e63]; omega)
    | .cons cond (.some cons) rs, Γp, n, k, first, pos, PC, flow, junk, rest, L, v, hl, hPC, hcl, hPCs, hw, hΓ, hL, _, _, hev => by
      simp only [evalBrs, Option.bind_eq_some_iff] at hev
      obtain ⟨⟨vc, Lc⟩, hc, hrest⟩ := hev
      simp only [compileBrs] at hl hPC hcl
      -- facts about the condition that mention `compileSq Γp cond` are derived before it is abstracted
      have hLp : (L ++ [flow]).length = Γp.length := by simp [hL, hΓ]
      obtain ⟨ext, rfl, le, lx⟩ := evalSq_ext cs cond Γp (L ++ [flow]) flow vc Lc hc
      have hclen := compileSq_len cond Γp
      have hcclen := compileSq_len cons (compileSq Γp cond).2
      have condRun : ∀ q, C02S.Located code q (compileSq Γp cond).1 →
          ARunsC O P code cs (q, flow :: rest, L ++ [flow]) (q + (compileSq Γp cond).1.length, vc :: rest, L ++ [flow] ++ ext) :=
        fun q hq => compileSq_aruns hO hP hsz cond Γp q flow rest (L ++ [flow]) vc _ hq hw.1 hLp hc
      have consRun : ∀ q w Lk, C02S.Located code q (compileSq (compileSq Γp cond).2 cons).1 →
          (L ++ [flow] ++ ext).length = (compileSq Γp cond).2.length →
          evalSq cs (compileSq Γp cond).2 (L ++ [flow] ++ ext) flow cons = some (w, Lk) →
          ARunsC O P code cs (q, flow :: rest, L ++ [flow] ++ ext)
            (q + (compileSq (compileSq Γp cond).2 cons).1.length, w :: rest, Lk) :=
        fun q w Lk hq hal he => compileSq_aruns hO hP hsz cons _ q flow rest _ w Lk hq hw.2.1 hal he
      have restRun : ∀ k' q, C02S.Located code q (compileBrs Γp n rs k' false).1 →
          q + (compileBrs Γp n rs k' false).1.length = PC →
          C02S.Located code (PC + 2 + 2 * k') (compileBrs Γp n rs k' false).2 → vc.isNil = true →
          evalBrs cs Γp (L ++ [flow]) flow rs = some v →
          ARunsC O P code cs (q, vc :: rest, L ++ [flow]) (PC, v :: rest, L ++ [flow]) :=
        fun k' q hq hqe hqc hv he => by
          have := compileBrs_aruns hO hP hsz rs Γp n k' false q PC flow vc rest L v hq hqe hqc hPCs hw.2.2 hΓ hL
            (fun h => by cases h) (fun _ => C02B.isNil_eq vc hv) he
          simpa using this
      have restNil : ∀ k', rs.isNil = true → compileBrs Γp n rs k' false = ([], []) :=
        fun k' h => compileBrs_isNil Γp n k' false rs h
      -- abstract the compiled pieces
      generalize compileSq Γp cond = c at *
      generalize compileSq c.2 cons = cc at *
      have hflowx : (L ++ [flow] ++ ext)[n]? = some flow := by
        rw [List.append_assoc, ← hL]; simp
      have hLpn : (L ++ [flow]).length = n + 1 := by simp [hL]
      -- the committed path: Pop, Load(n), the consequence, the per-branch Reset, to the parameter clear
      have succ : ∀ (q : Nat) (ejL rI : List Instr),
          C02S.Located code q (.pop :: .load n :: (cc.1 ++ (resetIf cc.2.length n ++ (ejL ++ rI)))) →
          ((ejL = [] ∧ rI = []) ∨ ejL = [.jump (rI.length : Int)]) →
          q + 2 + cc.1.length + (resetIf cc.2.length n).length + ejL.length + rI.length = PC →
          vc.isNil = false →
          ARunsC O P code cs (q, vc :: rest, L ++ [flow] ++ ext) (PC, v :: rest, L ++ [flow]) := by
        intro q ejL rI hq hej hqe hv
        simp only [hv, Bool.false_eq_true, if_false, Option.map_eq_some_iff] at hrest
        obtain ⟨⟨w, Lk⟩, hk, rfl⟩ := hrest
        have a := l_pop (O := O) (P := P) (cs := cs) (v := vc) (s := rest) (L := L ++ [flow] ++ ext) hq.head
        have b := l_load (O := O) (P := P) (cs := cs) (s := rest) (L := L ++ [flow] ++ ext) (Located.tail hq).head hflowx
        have hq2 := Located.tail (Located.tail hq)
        have hal : (L ++ [flow] ++ ext).length = c.2.length := by
          rw [hclen, ← hLp]; simp [lx hv]; omega
        have cr := consRun (q + 1 + 1) w Lk hq2.left hal hk
        obtain ⟨ext2, rfl, le2, _⟩ := evalSq_ext cs cons c.2 (L ++ [flow] ++ ext) flow w Lk hk
        have hq3 := hq2.right
        have rr := resetIf_aruns (O := O) (P := P) (cs := cs) cc.2.length n (q + 1 + 1 + cc.1.length) (w :: rest)
          (L ++ [flow]) (ext ++ ext2) hq3.left hLpn
          (by
            intro h
            rw [hcclen, hclen, hΓ] at h
            have h1 := lx hv
            apply List.eq_nil_of_length_eq_zero
            simp only [List.length_append]
            omega)
        rw [← List.append_assoc] at rr
        refine ((a.trans b).trans (cr.trans rr)).trans ?_
        have hq4 := hq3.right
        rcases hej with ⟨rfl, rfl⟩ | rfl
        · simp only [List.length_nil, Nat.add_zero] at hqe
          have e : q + 1 + 1 + cc.1.length + (resetIf cc.2.length n).length = PC := by omega
          rw [e]
          exact .refl _
        · have hjmp : code[q + 1 + 1 + cc.1.length + (resetIf cc.2.length n).length]? = some (.jump (rI.length : Int)) := by
            have : C02S.Located code (q + 1 + 1 + cc.1.length + (resetIf cc.2.length n).length)
                (.jump (rI.length : Int) :: rI) := by simpa using hq4
            exact this.head
          simp only [List.length_cons, List.length_nil] at hqe
          exact l_jump hjmp (by omega) (by rw [e63]; omega)
      have hflow : (L ++ [flow])[n]? = some flow := by rw [← hL]; simp
      have hejcases : ∀ r : List Instr × List Instr, (rs.isNil = true → r = ([], [])) →
          (((if rs.isNil = true then [] else [Instr.jump (r.1.length : Int)]) = [] ∧ r.1 = []) ∨
            (if rs.isNil = true then [] else [Instr.jump (r.1.length : Int)]) = [Instr.jump (r.1.length : Int)]) := by
        intro r hr
        by_cases h : rs.isNil = true
        · left; simp [h, hr h]
        · right; simp [h]
      by_cases hneeds : c.2.length > n + 1
      · -- the condition has bindings: a failed condition leaves through this branch's cleanup block
        simp only [hneeds, decide_true, if_true] at hl hPC hcl
        generalize hr : compileBrs Γp n rs (k + 1) false = r at *
        obtain ⟨p1, runPre, hl1, hp1⟩ := pre_aruns (O := O) (P := P) (cs := cs) first junk rest (L ++ [flow]) pos _ hl
        refine runPre.trans ?_
        have hl1' : C02S.Located code p1 (.load n :: (c.1 ++ (.duplicate :: .not ::
            .jumpIf (((2 + cc.1.length + (resetIf cc.2.length n).length +
                (if rs.isNil = true then [] else [Instr.jump (r.1.length : Int)]).length + r.1.length + 2 + 2 * k : Nat)) : Int) ::
            .pop :: .load n :: (cc.1 ++ (resetIf cc.2.length n ++
              ((if rs.isNil = true then [] else [Instr.jump (r.1.length : Int)]) ++ r.1)))))) := by
          simpa using hl1
        have ePC : p1 + 1 + c.1.length + 1 + 1 + 1 + 2 + cc.1.length + (resetIf cc.2.length n).length +
            (if rs.isNil = true then [] else [Instr.jump (r.1.length : Int)]).length + r.1.length = PC := by
          rw [hp1]
          simp only [List.length_append, List.length_cons, List.length_nil] at hPC
          omega
        have hload := hl1'.head
        have hl2 := Located.tail hl1'
        have runLoad := l_load (O := O) (P := P) (cs := cs) (s := rest) (L := L ++ [flow]) hload hflow
        have runCond := condRun (p1 + 1) hl2.left
        have hl3 := hl2.right
        have hd := hl3.head
        have hn := (Located.tail hl3).head
        have hj := (Located.tail (Located.tail hl3)).head
        have hl4 := Located.tail (Located.tail (Located.tail hl3))
        have runDup := l_dup (O := O) (P := P) (cs := cs) (v := vc) (s := rest) (L := L ++ [flow] ++ ext) hd
        have runNot := l_not (O := O) (P := P) (cs := cs) (v := vc) (s := vc :: rest) (L := L ++ [flow] ++ ext) hn
        refine (runLoad.trans (runCond.trans (runDup.trans runNot))).trans ?_
        have hcl' : C02S.Located code (PC + 2 + 2 * k)
            (.reset (n + 1) :: .jump (-((r.1.length + 2 * k + 4 : Nat) : Int)) :: r.2) := by simpa using hcl
        by_cases hv : vc.isNil = true
        · simp only [hv, if_true] at hrest ⊢
          have hTb := Located.bound hcl' 1 (by simp)
          have runJ := l_jumpIf_to (O := O) (P := P) (cs := cs) (c := Val.ok) (s := vc :: rest) (L := L ++ [flow] ++ ext)
            (t := PC + 2 + 2 * k) hj rfl (by omega) (by rw [e63]; omega)
          have runR := l_reset (O := O) (P := P) (cs := cs) (s := vc :: rest) (L := L ++ [flow] ++ ext) (n := n + 1) hcl'.head
            (by simp; omega)
          have htk : (L ++ [flow] ++ ext).take (n + 1) = L ++ [flow] := by
            rw [← hLpn]; exact List.take_left' rfl
          rw [htk] at runR
          have runB := l_jump (O := O) (P := P) (cs := cs) (s := vc :: rest) (L := L ++ [flow])
            (t := p1 + 1 + c.1.length + 1 + 1 + 1 + 2 + cc.1.length + (resetIf cc.2.length n).length +
              (if rs.isNil = true then [] else [Instr.jump (r.1.length : Int)]).length)
            (Located.tail hcl').head (by omega) (by rw [e63]; omega)
          refine ((runJ.trans runR).trans runB).trans ?_
          have hlr : C02S.Located code (p1 + 1 + c.1.length + 1 + 1 + 1 + 2 + cc.1.length + (resetIf cc.2.length n).length +
              (if rs.isNil = true then [] else [Instr.jump (r.1.length : Int)]).length) r.1 := by
            have := ((Located.tail (Located.tail hl4)).right).right.right
            simpa [Nat.add_assoc] using this
          have hclr : C02S.Located code (PC + 2 + 2 * (k + 1)) r.2 := by
            have := Located.tail (Located.tail hcl')
            simpa [Nat.mul_add, Nat.add_assoc] using this
          subst hr
          exact restRun (k + 1) _ hlr ePC hclr hv hrest
        · have hv' : vc.isNil = false := by simpa using hv
          simp only [hv', Bool.false_eq_true, if_false]
          have runF := l_jumpIf_fall (O := O) (P := P) (cs := cs) (c := Val.nil) (s := vc :: rest) (L := L ++ [flow] ++ ext) hj rfl
          refine runF.trans ?_
          exact succ _ _ r.1 hl4 (hejcases r (fun h => by rw [← hr]; exact restNil (k + 1) h)) (by omega) hv'
      · -- no bindings in the condition: nothing was stored, the failure path goes straight on
        have hneeds' : decide (c.2.length > n + 1) = false := by simpa using hneeds
        simp only [hneeds', Bool.false_eq_true, if_false, List.nil_append] at hl hPC hcl
        generalize hr : compileBrs Γp n rs k false = r at *
        obtain ⟨p1, runPre, hl1, hp1⟩ := pre_aruns (O := O) (P := P) (cs := cs) first junk rest (L ++ [flow]) pos _ hl
        refine runPre.trans ?_
        have hl1' : C02S.Located code p1 (.load n :: (c.1 ++ (.duplicate :: .not ::
            .jumpIf (((2 + cc.1.length + (resetIf cc.2.length n).length +
                (if rs.isNil = true then [] else [Instr.jump (r.1.length : Int)]).length : Nat)) : Int) ::
            .pop :: .load n :: (cc.1 ++ (resetIf cc.2.length n ++
              ((if rs.isNil = true then [] else [Instr.jump (r.1.length : Int)]) ++ r.1)))))) := by
          simpa using hl1
        have ePC : p1 + 1 + c.1.length + 1 + 1 + 1 + 2 + cc.1.length + (resetIf cc.2.length n).length +
            (if rs.isNil = true then [] else [Instr.jump (r.1.length : Int)]).length + r.1.length = PC := by
          rw [hp1]
          simp only [List.length_append, List.length_cons, List.length_nil] at hPC
          omega
        have hload := hl1'.head
        have hl2 := Located.tail hl1'
        have runLoad := l_load (O := O) (P := P) (cs := cs) (s := rest) (L := L ++ [flow]) hload hflow
        have runCond := condRun (p1 + 1) hl2.left
        have hl3 := hl2.right
        have hd := hl3.head
        have hn := (Located.tail hl3).head
        have hj := (Located.tail (Located.tail hl3)).head
        have hl4 := Located.tail (Located.tail (Located.tail hl3))
        have runDup := l_dup (O := O) (P := P) (cs := cs) (v := vc) (s := rest) (L := L ++ [flow] ++ ext) hd
        have runNot := l_not (O := O) (P := P) (cs := cs) (v := vc) (s := vc :: rest) (L := L ++ [flow] ++ ext) hn
        refine (runLoad.trans (runCond.trans (runDup.trans runNot))).trans ?_
        by_cases hv : vc.isNil = true
        · simp only [hv, if_true] at hrest ⊢
          have hext : ext = [] := by
            apply List.eq_nil_of_length_eq_zero
            rw [hclen, hΓ] at hneeds
            omega
          subst hext
          have runJ := l_jumpIf_to (O := O) (P := P) (cs := cs) (c := Val.ok) (s := vc :: rest) (L := L ++ [flow] ++ [])
            (t := p1 + 1 + c.1.length + 1 + 1 + 1 + 2 + cc.1.length + (resetIf cc.2.length n).length +
              (if rs.isNil = true then [] else [Instr.jump (r.1.length : Int)]).length)
            hj rfl (by omega) (by rw [e63]; omega)
          refine runJ.trans ?_
          have hlr : C02S.Located code (p1 + 1 + c.1.length + 1 + 1 + 1 + 2 + cc.1.length + (resetIf cc.2.length n).length +
              (if rs.isNil = true then [] else [Instr.jump (r.1.length : Int)]).length) r.1 := by
            have := ((Located.tail (Located.tail hl4)).right).right.right
            simpa [Nat.add_assoc] using this
          subst hr
          simpa using restRun k _ hlr ePC hcl hv hrest
        · have hv' : vc.isNil = false := by simpa using hv
          simp only [hv', Bool.false_eq_true, if_false]
          have runF := l_jumpIf_fall (O := O) (P := P) (cs := cs) (c := Val.nil) (s := vc :: rest) (L := L ++ [flow] ++ ext) hj rfl
          refine runF.trans ?_
          exact succ _ _ r.1 hl4 (hejcases r (fun h => by rw [← hr]; exact restNil k h)) (by omega) hv'
end

end Machine


/-! ### The process level: `Call`, the callee's frame, the return -/

/-- `InvL` of C02Loc, and no select is in progress (the return looks at the select state) -/
def InvC (p : Proc) (f : Frame) (r : List Frame) (pre : List Val) (pc : Nat) (s L : List Val) : Prop :=
  InvL p f r pre pc s L ∧ p.selectState = none

theorem TRuns.trans {O : Oracle} {P : Prog} {p q z : Proc} (h₁ : C02S.TRuns O P p q) (h₂ : C02S.TRuns O P q z) :
    C02S.TRuns O P p z := by
  induction h₁ with
  | refl => exact h₂
  | step h _ ih => exact .step h (ih h₂)

theorem astepL_frag (O : Oracle) (P : Prog) (i : Instr) (pc : Nat) (s L : List Val) (x : St)
    (h : astepL O P i pc s L = some x) : fragInstr i = true := by
  cases i <;> first | rfl | (simp [astepL, C02S.astep] at h)

/-- every application `cs` gives a meaning to is realised by the VM: from the `Call` to the instruction
after it, the result in place of function and argument, the caller's locals as before -/
def CallOK (O : Oracle) (P : Prog) (cs : Val → Val → Option Val) : Prop :=
  ∀ fv arg res, cs fv arg = some res →
    ∀ (fn : Function) (f : Frame) (r : List Frame) (pre : List Val) (pc : Nat) (rest L : List Val) (p : Proc),
      P.functions[f.functionIndex]? = some fn → fn.instructions[pc]? = some .call →
      InvC p f r pre pc (fv :: arg :: rest) L →
      ∃ q, C02S.TRuns O P p q ∧ InvC q f r pre (pc + 1) (res :: rest) L

/-- one unit of `Executor::step` on a running process executes the instruction at its counter -/
theorem transition_instr (O : Oracle) (P : Prog) (p : Proc) (f' : Frame) (r' : List Frame) (fn : Function)
    (i : Instr) (hpark : p.park = .none) (hres : p.result = none) (hf : p.frames = f' :: r')
    (hfn : P.functions[f'.functionIndex]? = some fn) (hi : fn.instructions[f'.counter]? = some i) :
    transition P p (.run O) = some (stepInstr O P p i) := by
  simp only [transition, hpark, hres]
  simp [hf, hfn, hi]

theorem liftC (O : Oracle) (P : Prog) (cs : Val → Val → Option Val) (hcs : CallOK O P cs) (fn : Function)
    (f : Frame) (r : List Frame) (pre : List Val) (hfn : P.functions[f.functionIndex]? = some fn) {x y : St}
    (h : ARunsC O P fn.instructions cs x y) :
    ∀ p : Proc, InvC p f r pre x.1 x.2.1 x.2.2 → ∃ q, C02S.TRuns O P p q ∧ InvC q f r pre y.1 y.2.1 y.2.2 := by
  induction h with
  | refl x => exact fun p hp => ⟨p, .refl p, hp⟩
  | @step pc s L x y i hi hstep _ ih =>
    intro p hp
    obtain ⟨hpL, hsel⟩ := hp
    obtain ⟨q, hq, hinv⟩ := sim_stepL O P i p f r pre pc s L x hpL hstep
    have hqs := step_keeps_select O P p q i (astepL_frag O P i pc s L x hstep) hq
    obtain ⟨hs, hf, hl, hb, hpark, hres⟩ := hpL
    have htr : transition P p (.run O) = some (.ok (q, none)) := by
      simp only [transition, hpark, hres, hf]
      simp [hfn, hi, hq]
    obtain ⟨z, hz, hzi⟩ := ih q ⟨hinv, by rw [hqs, hsel]⟩
    exact ⟨z, .step htr hz, hzi⟩
  | @func pc s L y fi fnF ws hi hfnF hc _ ih =>
    intro p hp
    obtain ⟨⟨hs, hf, hl, hb, hpark, hres⟩, hsel⟩ := hp
    simp only at hs hf hl
    have hlen : ¬ (p.stack.length < fnF.captures) := by rw [hs, hc]; simp
    have htake : (p.stack.take fnF.captures).reverse = ws := by
      rw [hs, hc]
      have : ws.length = ws.reverse.length := by simp
      rw [this, List.take_left']
      · simp
      · rfl
    have hdrop : p.stack.drop fnF.captures = s := by
      rw [hs, hc]
      have : ws.length = ws.reverse.length := by simp
      rw [this, List.drop_left']
      rfl
    have hq : stepInstr O P p (.function fi) =
        .ok (({ p with stack := .fn fi (ValList.ofList ws) :: s } : Proc).bump, none) := by
      simp only [stepInstr, handleFunction, hfnF, hlen, if_false, htake, hdrop, QM.VM.ok]
    have htr : transition P p (.run O) =
        some (.ok (({ p with stack := .fn fi (ValList.ofList ws) :: s } : Proc).bump, none)) := by
      rw [transition_instr O P p _ r fn (.function fi) hpark hres hf (by simpa using hfn) (by simpa using hi), hq]
    have hinv : InvC (({ p with stack := .fn fi (ValList.ofList ws) :: s } : Proc).bump) f r pre (pc + 1)
        (.fn fi (ValList.ofList ws) :: s) L := by
      refine ⟨⟨?_, ?_, ?_, hb, ?_, ?_⟩, ?_⟩
      · simp [Proc.bump, hf]
      · simp [Proc.bump, hf]
      · simp [Proc.bump, hf, hl]
      · simp [Proc.bump, hf, hpark]
      · simp [Proc.bump, hf, hres]
      · rw [bump_select]; exact hsel
    obtain ⟨z, hz, hzi⟩ := ih _ hinv
    exact ⟨z, .step htr hz, hzi⟩
  | @call pc s L y fv arg res hi hcall _ ih =>
    intro p hp
    obtain ⟨q, hq, hinv⟩ := hcs fv arg res hcall fn f r pre pc s L p hfn hi hp
    obtain ⟨z, hz, hzi⟩ := ih q hinv
    exact ⟨z, TRuns.trans hq hz, hzi⟩

/-- `Call`: a frame for the callee on top, its first locals are the captures, the argument stays -/
theorem call_step (O : Oracle) (P : Prog) (fn fnC : Function) (f : Frame) (r : List Frame) (pre : List Val)
    (pc fi : Nat) (cv : ValList) (arg : Val) (rest L : List Val) (p : Proc)
    (hfn : P.functions[f.functionIndex]? = some fn) (hi : fn.instructions[pc]? = some .call)
    (hfnC : P.functions[fi]? = some fnC) (hp : InvC p f r pre pc (.fn fi cv :: arg :: rest) L) :
    ∃ q, transition P p (.run O) = some (.ok (q, none)) ∧
      InvC q (Frame.new fi (pre ++ L).length cv.toList.length) ({ f with counter := pc } :: r) (pre ++ L) 0
        (arg :: rest) cv.toList := by
  obtain ⟨⟨hs, hf, hl, hb, hpark, hres⟩, hsel⟩ := hp
  refine ⟨{ p with stack := arg :: rest, locals := p.locals ++ cv.toList,
                   frames := Frame.new fi p.locals.length cv.toList.length :: p.frames }, ?_, ?_⟩
  · rw [transition_instr O P p _ r fn .call hpark hres hf (by simpa using hfn) (by simpa using hi)]
    simp only [stepInstr, handleCall]
    rw [hs]
    simp only [hfnC]
    rfl
  · refine ⟨⟨rfl, ?_, ?_, ?_, hpark, hres⟩, hsel⟩
    · simp [hf, hl, Frame.new]
    · simp [hl]
    · simp [Frame.new]

/-- the callee's frame is exhausted: it is popped, the caller goes on after its `Call`, the locals are
cut back to the callee's base (= the caller's locals) -/
theorem return_step (O : Oracle) (P : Prog) (fnC : Function) (f g : Frame) (r : List Frame) (pre L : List Val)
    (pc : Nat) (v : Val) (rest Lc : List Val) (q : Proc) (hfnC : P.functions[g.functionIndex]? = some fnC)
    (hpre : pre.length = f.localsBase)
    (hq : InvC q g ({ f with counter := pc } :: r) (pre ++ L) fnC.instructions.size (v :: rest) Lc) :
    ∃ q', transition P q (.run O) = some (.ok (q', none)) ∧ InvC q' f r pre (pc + 1) (v :: rest) L := by
  obtain ⟨⟨hs, hf, hl, hb, hpark, hres⟩, hsel⟩ := hq
  refine ⟨popFrame q, ?_, ?_⟩
  · simp only [transition, hpark, hres, hf]
    simp [hfnC, QM.VM.ok]
  · have htake : q.locals.take g.localsBase = pre ++ L := by
      rw [hl, ← hb]; exact List.take_left' rfl
    refine ⟨⟨?_, ?_, ?_, hpre, ?_, ?_⟩, ?_⟩
    · simp [popFrame, hf, hs]
    · simp [popFrame, hf, hsel]
    · simp [popFrame, hf, htake]
    · simp [popFrame, hf, hpark]
    · simp [popFrame, hf, hres]
    · simp [popFrame, hf, hsel]

theorem located_toArray (l : List Instr) : C02S.Located l.toArray 0 l := by
  intro k _
  simp

/-- **The knot.** Every application the fuelled meaning `callSem Φ n` is defined for is realised by the
VM: `Call` pushes a frame for the callee over its captures, the callee's code — its body compiled as a
block over the captures — runs to its end (the structural theorem with `cs := callSem Φ (n - 1)`, lifted
with the induction hypothesis for the calls inside), the frame is popped and the caller goes on with the
result in place of function and argument and its own locals untouched. -/
theorem callOK_all (O : Oracle) (P : Prog) (hO : OracleIntEq O) (hP : wfProg P) (Φ : FTab) (hΦ : FnOK P Φ) :
    (n : Nat) → CallOK O P (callSem Φ n)
  | 0 => by
    intro fv arg res h
    simp [callSem] at h
  | n + 1 => by
    intro fv arg res h fn f r pre pc rest L p hfn hcall hinv
    cases fv with
    | fn fi cv =>
      simp only [callSem] at h
      split at h
      · rename_i d hd
        split at h
        · rename_i hlen
          obtain ⟨fnC, hfnC, hcode, hcaps, hne, hwf, hszC⟩ := hΦ fi d hd
          obtain ⟨q1, ht1, hinv1⟩ := call_step O P fn fnC f r pre pc fi cv arg rest L p hfn hcall hfnC hinv
          have hev : evalT (callSem Φ n) d.caps cv.toList arg (.block d.body) = some (res, cv.toList) := by
            simp [evalT, h]
          have hloc : C02S.Located fnC.instructions 0 (compileT d.caps (.block d.body)).1 := by
            rw [hcode]; exact located_toArray _
          have run := compileT_aruns (O := O) (P := P) (code := fnC.instructions) (cs := callSem Φ n) hO hP hszC
            (.block d.body) d.caps 0 arg rest cv.toList res cv.toList hloc ⟨hne, hwf⟩ hlen hev
          obtain ⟨q2, ht2, hinv2⟩ := liftC O P (callSem Φ n) (callOK_all O P hO hP Φ hΦ n) fnC
            (Frame.new fi (pre ++ L).length cv.toList.length) ({ f with counter := pc } :: r) (pre ++ L)
            (by simpa [Frame.new] using hfnC) run q1 hinv1
          have hsize : 0 + (compileT d.caps (.block d.body)).1.length = fnC.instructions.size := by
            rw [hcode]; simp [fnCode]
          simp only [hsize] at hinv2
          obtain ⟨q3, ht3, hinv3⟩ := return_step O P fnC f (Frame.new fi (pre ++ L).length cv.toList.length) r pre L
            pc res rest cv.toList q2 (by simpa [Frame.new] using hfnC) hinv.1.2.2.2.1 hinv2
          exact ⟨q3, .step ht1 (TRuns.trans ht2 (.step ht3 (.refl _))), hinv3⟩
        · simp at h
      · simp at h
    | int z => simp [callSem] at h
    | bin b => simp [callSem] at h
    | ref r => simp [callSem] at h
    | tup a b => simp [callSem] at h
    | builtin i => simp [callSem] at h
    | proc a b => simp [callSem] at h
    | res a b => simp [callSem] at h

/-- **Function literals with captures and calls are compiled correctly** (with everything of C02Blk
around and inside them). For a program whose function table is `Φ` (`FnOK`: function `fi`'s code is its
body compiled as a block over its captures): a process of M-VM whose current function contains the code of
the sequence `sq` (compiled with the slot names `Γ`) at `pc`, whose frame's locals `L` are aligned with `Γ`,
with the flowing value on top of the stack and no select in progress, reaches the end of that code by
`Executor::step` units alone — through every `Call`, the callee's frame and the return —, with the value
`evalSq (callSem Φ n)` gives (for any fuel `n` that suffices) in place of the flowing value and the frame's
locals as it says; the frames below, their locals and the rest of the stack are untouched. -/
theorem compileSq3_correct (O : Oracle) (P : Prog) (hO : OracleIntEq O) (hP : wfProg P) (Φ : FTab)
    (hΦ : FnOK P Φ) (n : Nat) (fn : Function) (f : Frame) (r : List Frame) (pre : List Val)
    (hfn : P.functions[f.functionIndex]? = some fn) (hsz : fn.instructions.size < 2 ^ 63 - 1) (sq : Sq3)
    (Γ : List String) (pc : Nat) (flow : Val) (rest L : List Val) (v : Val) (L' : List Val)
    (hl : C02S.Located fn.instructions pc (compileSq Γ sq).1) (hw : wfSq P sq) (hal : L.length = Γ.length)
    (hev : evalSq (callSem Φ n) Γ L flow sq = some (v, L'))
    (p : Proc) (hp : InvC p f r pre pc (flow :: rest) L) :
    ∃ q, C02S.TRuns O P p q ∧ InvC q f r pre (pc + (compileSq Γ sq).1.length) (v :: rest) L' :=
  liftC O P (callSem Φ n) (callOK_all O P hO hP Φ hΦ n) fn f r pre hfn
    (compileSq_aruns hO hP hsz sq Γ pc flow rest L v L' hl hw hal hev) p hp

end C02F
