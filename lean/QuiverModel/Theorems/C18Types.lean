/-
C18 / C17 — theorems about the TYPE-EXPRESSION sub-language (model: `Core/Parse/Type.lean`, a port of
the "Type parsers" of `parser.rs` and of the type printer of `format.rs`; lemmas under
`Lemmas/Parse/`). For every input text / every type AST, no bound on sizes or depths.

  fuel_suffices, fuel_monotone, fuel_irrelevant     the fuel that ties the recursive knot
  partial_or_group_factored_eq, factored_eq_fuel, paren_alternatives_eq
  receive_factored_eq, receive_factored_eq_fuel, receive_alternative_eq   (1d93429: receive type read once)
                                                    the left-factored grammar (repair of C18-F1) is
                                                    the same function as the old alternative order
  parseType_total, parseBaseType_total, typeAlias_total     (T1) totality + progress + located errors
  parseType_wf, parseTypeF_wf, parseBaseType_wf, typeAlias_wf   parser outputs satisfy WFType
  roundtrip (= RoundTripStatement, FULL), roundtrip_factored, parse_print_parse, roundtrip_partial
                                                            (T2) parse (print t ++ rest) = (t, rest)
  d3_dea6b02_only_rule_breaks_roundtrip                     the dea6b02-only printing rule breaks T2 (D3)
  d1_old_print_rule_breaks_roundtrip                        the pre-dea6b02 printing rule breaks T2
  print_idempotent (= PrintIdempotentStatement, FULL), print_idempotent_partial   (T3)
  alias_statement_layouts, alias_statement_layout_decided,
  alias_statement_roundtrip (= AliasRoundTripStatement, FULL),
  alias_statement_program, alias_parse_format_parse, alias_format_idempotent
                                                            the alias STATEMENT through format_program
-/
import QuiverModel.Lemmas.Parse.Factored
import QuiverModel.Lemmas.Parse.Receive
import QuiverModel.Lemmas.Parse.AliasText
import QuiverModel.Lemmas.Parse.WF
import QuiverModel.Lemmas.Text.Basic
namespace C18Types
open QM.Parse QM.Text

/-! ## Fuel -/

/-- **fuel_suffices**: with fuel above the input length `type_definition` never runs out of fuel
    (every recursive call of the grammar sits behind a consumed character). -/
theorem fuel_suffices (i : Str) (n : Nat) (h : i.length < n) : typeDefinition n i ≠ .out :=
  (knot_tot n).1 i h

/-- **fuel_monotone**: an answer obtained with some fuel is the answer with any larger fuel. -/
theorem fuel_monotone (i : Str) (n m : Nat) (h : n ≤ m) (hne : typeDefinition n i ≠ .out) :
    typeDefinition m i = typeDefinition n i :=
  (knot_mono_le h).1 i hne

/-- **fuel_irrelevant**: every sufficient fuel gives the answer of `parseType` (fuel `length + 1`). -/
theorem fuel_irrelevant (i : Str) (n : Nat) (h : i.length < n) : typeDefinition n i = parseType i := by
  unfold parseType
  exact fuel_monotone i (i.length + 1) n (by omega) (fuel_suffices i _ (by omega))

example : parseType "'a".toList ≠ .out := fuel_suffices _ _ (Nat.lt_succ_self _)

/-! ## The left-factored grammar (repair of C18-F1) is the same function

`parseTypeF` is the model of the code since /repo 33df1c7: `base_type`, `function_input_type` and
`function_output_type` give every `(`-headed type to ONE function that parses the field list once
and decides afterwards. `parseType` is the grammar before the repair. -/

/-- **partial_or_group_factored_eq**: for EVERY input the left-factored parser and the parser with
    the old order of alternatives (unnamed partial type, then process form / grouping, each parsing
    the content again) return the same result — value, remainder, error position and code. -/
theorem partial_or_group_factored_eq (i : Str) : parseTypeF i = parseType i :=
  (knotF_eq (i.length + 1) i (Nat.lt_succ_self _)).1

/-- the same with any sufficient fuel, for `type_definition` and `base_type` -/
theorem factored_eq_fuel (n : Nat) (i : Str) (h : i.length < n) :
    (knotF n).td i = (knot n).td i ∧ (knotF n).bt i = (knot n).bt i := knotF_eq n i h

/-- one level, for ANY inner parsers that reject by the first character as a grammar does
    (`KHead`, true of every unfolded knot): the patched `base_type` / `function_input_type` ARE
    the old ones, on every input and whatever the fuel. -/
theorem paren_alternatives_eq (k : Knot) :
    baseTypeF k.step = baseTypeWith k.step ∧ functionIoTypeF k.step = functionIoType k.step :=
  ⟨baseTypeF_eq (KHead.step k), functionIoTypeF_eq (KHead.step k)⟩

theorem parseTypeF_eq : parseTypeF = parseType := funext partial_or_group_factored_eq

/-! ## The grammar since /repo 1d93429 (receive position read once) is the same function

`parseTypeG` is the model of the code since 1d93429: `paren_type` continues the parenthesised
process forms `(@-> t)` / `(@t -> t)` from the first field it has already read
(`paren_process_from_first`) instead of trying the separate alternative, which parsed the receive
type a second time (exponential in the nesting depth of the receive position). -/

/-- **receive_factored_eq**: for EVERY input the grammar of the code since 1d93429 and the original
    grammar return the same result — value, remainder, error position and code. -/
theorem receive_factored_eq (i : Str) : parseTypeG i = parseType i :=
  (knotG_eq (i.length + 1) i (Nat.lt_succ_self _)).1

/-- the same with any sufficient fuel, for `type_definition` and `base_type` -/
theorem receive_factored_eq_fuel (n : Nat) (i : Str) (h : i.length < n) :
    (knotG n).td i = (knot n).td i ∧ (knotG n).bt i = (knot n).bt i := knotG_eq n i h

/-- one level, every input, whatever the fuel: over any knot of the grammar, `paren_type` with the
    continuation from the first field IS `paren_type` with the separate alternative (the proof uses
    that `type_definition` on `@…` reads the receive type with the `base_type` ONE LEVEL BELOW the one
    the alternative uses, and that the two agree: monotonicity across knot levels, `knot_krecv`). -/
theorem receive_alternative_eq (n : Nat) (groupFirst : Bool) :
    parenTypeG groupFirst (knot (n + 1)) = parenType groupFirst (knot (n + 1)) :=
  parenTypeG_eq (knot_krecv n) groupFirst

theorem parseTypeG_eq : parseTypeG = parseType := funext receive_factored_eq

/-! ## (T1) totality, progress, located errors -/

/-- **parseType_total** (T1): for EVERY input text `type_definition` returns either a type and a
    remainder that is a proper suffix of the input (at least one character was consumed), or an error
    whose position is a suffix of the input — so its byte offset `utf8Len pre` lies inside the text,
    on a character boundary, and `offset + length(rest of input) = length(input)` as in
    `SourceSpan::from_span`. It never runs out of fuel. -/
theorem parseType_total (i : Str) :
    (∃ t rest pre, parseType i = .ok t rest ∧ i = pre ++ rest ∧ pre ≠ []) ∨
    (∃ pos code pre, parseType i = .err pos code ∧ i = pre ++ pos ∧
        utf8Len pre + utf8Len pos = utf8Len i) := by
  have hs := (knot_sound (i.length + 1)).1 i
  have hst := (knot_strict (i.length + 1)).1 i
  have hne := fuel_suffices i (i.length + 1) (Nat.lt_succ_self _)
  unfold parseType typeDefinition at *
  cases h : (knot (i.length + 1)).td i with
  | ok t rest =>
    rw [h] at hs hst
    obtain ⟨pre, hpre⟩ := hs
    refine Or.inl ⟨t, rest, pre, rfl, hpre.symm, ?_⟩
    intro hnil
    subst hnil
    have : rest.length < i.length := hst
    rw [← hpre] at this
    simp at this
  | err pos code =>
    rw [h] at hs
    obtain ⟨pre, hpre⟩ := hs
    exact Or.inr ⟨pos, code, pre, rfl, hpre.symm, by rw [← hpre, utf8Len_append]⟩
  | out => exact absurd h hne

/-- the same for `base_type` -/
theorem parseBaseType_total (i : Str) :
    (∃ t rest pre, parseBaseType i = .ok t rest ∧ i = pre ++ rest ∧ pre ≠ []) ∨
    (∃ pos code pre, parseBaseType i = .err pos code ∧ i = pre ++ pos ∧
        utf8Len pre + utf8Len pos = utf8Len i) := by
  have hs := (knot_sound (i.length + 1)).2 i
  have hst := (knot_strict (i.length + 1)).2 i
  have hne := (knot_tot (i.length + 1)).2 i (Nat.lt_succ_self _)
  unfold parseBaseType at *
  cases h : (knot (i.length + 1)).bt i with
  | ok t rest =>
    rw [h] at hs hst
    obtain ⟨pre, hpre⟩ := hs
    refine Or.inl ⟨t, rest, pre, rfl, hpre.symm, ?_⟩
    intro hnil
    subst hnil
    have : rest.length < i.length := hst
    rw [← hpre] at this
    simp at this
  | err pos code =>
    rw [h] at hs
    obtain ⟨pre, hpre⟩ := hs
    exact Or.inr ⟨pos, code, pre, rfl, hpre.symm, by rw [← hpre, utf8Len_append]⟩
  | out => exact absurd h hne

theorem Sound.parseType : Sound parseType := fun i => (knot_sound (i.length + 1)).1 i
theorem NoOut.parseType : NoOut parseType := fun i => fuel_suffices i _ (Nat.lt_succ_self _)

/-- **typeAlias_total** (T1 for a whole alias statement `'name<'a, 'b> = type`): an alias and a
    remainder that is a suffix of the input, or an error positioned inside the input; never out of
    fuel. -/
theorem typeAlias_total (i : Str) :
    (∃ a rest pre, typeAlias i = .ok a rest ∧ i = pre ++ rest) ∨
    (∃ pos code pre, typeAlias i = .err pos code ∧ i = pre ++ pos ∧
        utf8Len pre + utf8Len pos = utf8Len i) := by
  have hsound : Sound typeAlias := by
    unfold typeAlias
    rw [parseTypeG_eq]
    have := Sound.parseType; have := Sound.typeName; have := Sound.commaWs0
    sound_tac
  have hno : Tot (i.length + 1) typeAlias := by
    unfold typeAlias
    rw [parseTypeG_eq]
    have := NoOut.tot NoOut.parseType (i.length + 1)
    have := Sound.parseType
    tot_tac
  have hs := hsound i
  cases h : typeAlias i with
  | ok a rest =>
    rw [h] at hs
    obtain ⟨pre, hpre⟩ := hs
    exact Or.inl ⟨a, rest, pre, rfl, hpre.symm⟩
  | err pos code =>
    rw [h] at hs
    obtain ⟨pre, hpre⟩ := hs
    exact Or.inr ⟨pos, code, pre, rfl, hpre.symm, by rw [← hpre, utf8Len_append]⟩
  | out => exact absurd h (hno i (Nat.lt_succ_self _))

/-! ## Everything the parser returns is well-formed -/

/-- **parseType_wf**: every type AST returned by `type_definition` — on any input, with any
    remainder — satisfies the decidable well-formedness predicate `WFType` that the round-trip
    statement assumes (names are in the lexer's languages, unions/intersections have ≥ 2 members, an
    unnamed partial type is empty or has a named field, an `'alias[...]` tuple has a spread and no
    bare one, `^N` fits a `usize`, a module path is not empty). -/
theorem parseType_wf (i : Str) (t : Ty) (rest : Str) (h : parseType i = .ok t rest) : WFType t :=
  (knot_wf (i.length + 1)).1 i t rest h

/-- the same for the left-factored grammar (the code since 33df1c7) and for `base_type` -/
theorem parseTypeF_wf (i : Str) (t : Ty) (rest : Str) (h : parseTypeF i = .ok t rest) : WFType t :=
  parseType_wf i t rest (by rw [← partial_or_group_factored_eq]; exact h)

theorem parseBaseType_wf (i : Str) (t : Ty) (rest : Str) (h : parseBaseType i = .ok t rest) :
    WFType t := (knot_wf (i.length + 1)).2 i t rest h

/-- **typeAlias_wf**: an alias statement the parser returns is well-formed as a whole (name and
    parameters are identifiers, the type is `WFType`). -/
theorem typeAlias_wf (i : Str) (a : Alias) (rest : Str) (h : typeAlias i = .ok a rest) :
    a.wf = true := by
  have hpt : Post WFp parseTypeG := fun j t r e => parseType_wf j t r (by rw [← receive_factored_eq]; exact e)
  have : Post (fun a : Alias => a.wf = true) typeAlias := by
    unfold typeAlias
    refine Post.bind (Post.seq (Post.opt Post.identifier)) (fun name hname =>
      Post.bind (Post.opt (Post.delimited (Post.sepList1 Post.typeName))) (fun ps hps =>
        Post.seq (Post.pmap hpt ?_)))
    intro t ht
    show (Alias.mk name (ps.getD []) t).wf = true
    simp only [Alias.wf, Bool.and_eq_true]
    refine ⟨⟨?_, ?_⟩, ht⟩
    · cases name with
      | none => rfl
      | some n => exact hname n rfl
    · cases ps with
      | none => rfl
      | some l => exact all_of_mem (hps l rfl).2
  exact this i a rest h

example : (match parseType "Cons['t, ^] | Nil , x".toList with
    | .ok (.union [.tuple (some ['C', 'o', 'n', 's']) [_, .field none (.cycle none)] false, _]) _ => true
    | _ => false) = true := by decide +kernel
example (t : Ty) (rest : Str) (h : parseType "Cons['t, ^] | Nil , x".toList = .ok t rest) : WFType t :=
  parseType_wf _ t rest h

/-! ## (T2) round trip

`stopTd rest` is the explicit side condition on the text behind the printed type: it does not start
with a character that could continue a type (letters, digits, `_ ? ! < [ ( ' % / . @ ^ \ #`), it is
not whitespace followed by `(` (a bare tuple name is not accepted in front of that: defect D2), and
after whitespace and comments there is no `|` or `&`. `WFType` is `Ty.wf` (decidable). -/

/-- The full statement: every well-formed type AST is read back from its printed form.
    PROVED below: `roundtrip`. -/
def RoundTripStatement : Prop :=
  ∀ t : Ty, WFType t → ∀ rest : Str, stopTd rest = true →
    parseType (printTy t ++ rest) = .ok t rest

/-- **roundtrip_partial** (T2 on the fragment `Ty.frag`: primitives, alias references with or
    without type arguments (`'t`, `'t<a, b>`) — INCLUDING the argument-less ones named
    `int`/`bin`/`ref`, printed `<'int>` resp. `(<'int>)` by the
    repairs dea6b02 / b32cfa9 —, `^` and `^N`, resources, the module's own default type `'` / `'<a, b>`, module types `'%m/n.t<a>`, tuples and PARTIAL types — named or not, with named, positional and SPREAD
    fields (`...`, `...'a<t>`), and tuples named after an alias (`'a[...'a, x: t]`) —, function types, unions and intersections, nested WITHOUT BOUND):
    the parser's model reads the printed text back to exactly the same AST and stops exactly at
    `rest`. Since the fourth round `Ty.frag` holds of EVERY type (`Ty.frag_all`: process types were
    the last constructor), so this is the full statement: see `roundtrip`. -/
theorem roundtrip_partial (t : Ty) (hw : WFType t) (hf : t.frag = true) (rest : Str)
    (hr : stopTd rest = true) : parseType (printTy t ++ rest) = .ok t rest := by
  have h := (knot_good t.lvT).td t hf hw (Nat.le_refl _) rest hr
  have hne : typeDefinition (t.lvT + 1) (printTy t ++ rest) ≠ .out := by
    unfold typeDefinition; rw [h]; simp
  have h1 := fuel_monotone (printTy t ++ rest) (t.lvT + 1)
    (max (t.lvT + 1) ((printTy t ++ rest).length + 1)) (Nat.le_max_left _ _) hne
  have h2 := fuel_irrelevant (printTy t ++ rest)
    (max (t.lvT + 1) ((printTy t ++ rest).length + 1)) (by omega)
  rw [← h2, h1]
  exact h

/-- **roundtrip** (T2, FULL STRENGTH = `RoundTripStatement`): for EVERY type AST `t` that satisfies
    the decidable well-formedness predicate `WFType` (which every AST the parser returns satisfies:
    `parseType_wf`) and EVERY text `rest` that cannot continue a type (`stopTd rest`, explicit and
    decidable), parsing the printed type followed by `rest` returns exactly `t` and stops exactly at
    `rest`. All eleven constructors, nested without bound; the printer is the one of /repo HEAD
    (with the repairs dea6b02 and b32cfa9: `d1_…`, `d3_…` show that each is needed). -/
theorem roundtrip : RoundTripStatement :=
  fun t hw rest hr => roundtrip_partial t hw (Ty.frag_all t) rest hr

/-- the same for the left-factored grammar, i.e. for the code since /repo 33df1c7 -/
theorem roundtrip_factored (t : Ty) (hw : WFType t) (rest : Str) (hr : stopTd rest = true) :
    parseTypeF (printTy t ++ rest) = .ok t rest := by
  rw [partial_or_group_factored_eq]; exact roundtrip t hw rest hr

/-- … and for the grammar of the code since 1d93429 -/
theorem roundtrip_code (t : Ty) (hw : WFType t) (rest : Str) (hr : stopTd rest = true) :
    parseTypeG (printTy t ++ rest) = .ok t rest := by
  rw [receive_factored_eq]; exact roundtrip t hw rest hr

/-- parse ∘ print ∘ parse = parse: what the parser returns is a fixpoint of print-then-parse -/
theorem parse_print_parse (i : Str) (t : Ty) (r : Str) (h : parseType i = .ok t r) (rest : Str)
    (hr : stopTd rest = true) : parseType (printTy t ++ rest) = .ok t rest :=
  roundtrip t (parseType_wf i t r h) rest hr

/-- the hypotheses are satisfiable by a non-trivial type: a nested union of named tuples with a
    function-typed field and a type parameter reference:
    `(A[x: 'int, f: #'t -> (Nil | Cons['t, ^])] | B[[\Res, 'u]] | ^)` followed by `, …` -/
def exampleTy : Ty :=
  .union [
    .tuple (some "A".toList) [
      .field (some "x".toList) (.prim .int),
      .field (some "f".toList) (.func (.ident "t".toList [])
        (.union [.tuple (some "Nil".toList) [] false,
                 .tuple (some "Cons".toList) [.field none (.ident "t".toList []), .field none (.cycle none)] false]))] false,
    .tuple (some "B".toList) [.field none (.tuple none [.field none (.resource "Res".toList), .field none (.ident "u".toList [])] false)] false,
    .cycle none]

example : printTy exampleTy = "(A[x: 'int, f: #'t -> (Nil | Cons['t, ^])] | B[[\\Res, 'u]] | ^)".toList := by
  decide +kernel
example : WFType exampleTy ∧ exampleTy.frag = true ∧ stopTd ", 'bin]".toList = true := by
  decide +kernel
example : parseType (printTy exampleTy ++ ", 'bin]".toList) = .ok exampleTy ", 'bin]".toList :=
  roundtrip_partial exampleTy (by decide +kernel) (by decide +kernel) _ (by decide +kernel)

/-- a second witness with the constructors of the second round: intersections, `^N`, and
    references named like a primitive in member, field, atom and function position:
    `(A[x: <'int>] & ^2 | #(<'bin>) -> ('a & (<'ref>)) | <'int>)` -/
def exampleTy2 : Ty :=
  .union [
    .inter [.tuple (some "A".toList) [.field (some "x".toList) (.ident "int".toList [])] false, .cycle (some 2)],
    .func (.ident "bin".toList []) (.inter [.ident "a".toList [], .ident "ref".toList []]),
    .ident "int".toList []]

example : printTy exampleTy2 = "(A[x: <'int>] & ^2 | (#(<'bin>) -> ('a & (<'ref>))) | <'int>)".toList := by
  decide +kernel
example : parseType (printTy exampleTy2 ++ "]".toList) = .ok exampleTy2 "]".toList :=
  roundtrip_partial exampleTy2 (by decide +kernel) (by decide +kernel) _ (by decide +kernel)

/-- partial types, in base-type, member and function position:
    `#(x: 'a, [^]) -> (P(y: ()) | () | (z: <'int>))` -/
def exampleTy3 : Ty :=
  .func (.tuple none [.field (some "x".toList) (.ident "a".toList []), .field none (.tuple none [.field none (.cycle none)] false)] true)
    (.union [.tuple (some "P".toList) [.field (some "y".toList) (.tuple none [] true)] true,
             .tuple none [] true,
             .tuple none [.field (some "z".toList) (.ident "int".toList [])] true])

example : printTy exampleTy3 = "#(x: 'a, [^]) -> (P(y: ()) | () | (z: <'int>))".toList := by decide +kernel
example : parseType (printTy exampleTy3 ++ " // c".toList) = .ok exampleTy3 " // c".toList :=
  roundtrip_partial exampleTy3 (by decide +kernel) (by decide +kernel) _ (by decide +kernel)

/-- type arguments: `'tree<'k, (#'<'k> -> ') | ^1>` -/
def exampleTy4 : Ty :=
  .ident "tree".toList [.ident "k".toList [],
    .union [.func (.selfDefault [.ident "k".toList []]) (.selfDefault []), .cycle (some 1)]]

example : printTy exampleTy4 = "'tree<'k, ((#'<'k> -> ') | ^1)>".toList := by decide +kernel
example : parseType (printTy exampleTy4 ++ ", x".toList) = .ok exampleTy4 ", x".toList :=
  roundtrip_partial exampleTy4 (by decide +kernel) (by decide +kernel) _ (by decide +kernel)

/-- module types: `['%list<'int>, '%a/b?.c!, '%m.t<'%n>]` -/
def exampleTy5 : Ty :=
  .tuple none [.field none (.modty ["list".toList] none [.prim .int]),
    .field none (.modty ["a".toList, "b?".toList] (some "c!".toList) []),
    .field none (.modty ["m".toList] (some "t".toList) [.modty ["n".toList] none []])] false

example : printTy exampleTy5 = "['%list<'int>, '%a/b?.c!, '%m.t<'%n>]".toList := by decide +kernel
example : parseType (printTy exampleTy5) = .ok exampleTy5 [] := by
  have := roundtrip_partial exampleTy5 (by decide +kernel) (by decide +kernel) [] (by decide +kernel)
  simpa using this

/-- spread fields and a tuple named after an alias:
    `'ev[...'ev, at: 'int] | K[..., ...'p<^>] | (...'q, x: [])` -/
def exampleTy6 : Ty :=
  .union [
    .tuple (some "ev".toList) [.spread (some "ev".toList) [], .field (some "at".toList) (.prim .int)] false,
    .tuple (some "K".toList) [.spread none [], .spread (some "p".toList) [.cycle none]] false,
    .tuple none [.spread (some "q".toList) [], .field (some "x".toList) (.tuple none [] false)] true]

example : printTy exampleTy6 = "('ev[...'ev, at: 'int] | K[..., ...'p<^>] | (...'q, x: []))".toList := by
  decide +kernel
example : parseType (printTy exampleTy6) = .ok exampleTy6 [] := by
  have := roundtrip_partial exampleTy6 (by decide +kernel) (by decide +kernel) [] (by decide +kernel)
  simpa using this

/-- process types, all four forms, in receive, return, member, field and function position:
    `(@(@'a -> @) -> (@-> 'r)) | @ & 'x | #@'m -> (@ | [@, @'t])` -/
def exampleTy7 : Ty :=
  .union [
    .proc (some (.proc (some (.ident "a".toList [])) (some (.proc none none))))
      (some (.proc none (some (.ident "r".toList [])))),
    .inter [.proc none none, .ident "x".toList []],
    .func (.proc (some (.ident "m".toList [])) none)
      (.union [.proc none none, .tuple none [.field none (.proc none none),
        .field none (.proc (some (.ident "t".toList [])) none)] false])]

example : printTy exampleTy7 =
    "((@(@'a -> @) -> (@-> 'r)) | @ & 'x | (#@'m -> (@ | [@, @'t])))".toList := by decide +kernel
example : parseType (printTy exampleTy7 ++ "\n".toList) = .ok exampleTy7 "\n".toList :=
  roundtrip exampleTy7 (by decide +kernel) _ (by decide +kernel)

/-- the side condition is necessary: behind a bare tuple name, a line that starts with `(` makes the
    whole alias unreadable (defect D2, repaired in the formatter by 63d9fac) -/
theorem stop_condition_necessary :
    stopTd "\n(x) = y".toList = false ∧
    (match parseType ("Foo".toList ++ "\n(x) = y".toList) with | .err _ _ => true | _ => false) = true := by
  decide +kernel

/-- **d1_old_print_rule_breaks_roundtrip**: with the printing rule before dea6b02 (an argument-less
    reference named `int` printed `'int`) the round trip fails: the text reads back as the primitive
    (defect D1). With the repaired rule the reference prints `<'int>` and reads back exactly. -/
theorem d1_old_print_rule_breaks_roundtrip :
    (match parseType "'int".toList with | .ok (.prim .int) [] => true | _ => false) = true ∧
    Ty.prim .int ≠ Ty.ident "int".toList [] ∧
    printTy (.ident "int".toList []) = "<'int>".toList ∧
    (match parseType "<'int>".toList with
      | .ok (.ident ['i', 'n', 't'] []) [] => true | _ => false) = true := by
  refine ⟨by decide +kernel, by simp, by decide +kernel, by decide +kernel⟩

/-- **d3_dea6b02_only_rule_breaks_roundtrip** (defect D3, found with this model after dea6b02,
    repaired by b32cfa9): with the dea6b02 rule alone a reference named like a primitive is printed
    `<'int>` also directly behind `#` / `-> `, where `function_input_type` / `function_output_type`
    have no `type_parameter` alternative — the text `#<'int> -> 'int` does not parse although the AST
    is one the parser produces (from `#(<'int>) -> 'int`). With b32cfa9 (`render_type_atom` wraps
    that reference in parentheses) the printed text is `#(<'int>) -> 'int` and reads back exactly. -/
theorem d3_dea6b02_only_rule_breaks_roundtrip :
    (match parseType "#<'int> -> 'int".toList with | .err _ _ => true | _ => false) = true ∧
    printTy (.func (.ident "int".toList []) (.prim .int)) = "#(<'int>) -> 'int".toList ∧
    (match parseType (printTy (.func (.ident "int".toList []) (.prim .int))) with
      | .ok (.func (.ident ['i', 'n', 't'] []) (.prim .int)) [] => true | _ => false) = true := by
  refine ⟨by decide +kernel, by decide +kernel, by decide +kernel⟩

/-! ## (T3) print idempotence -/

/-- the full statement (PROVED below: `print_idempotent`) -/
def PrintIdempotentStatement : Prop :=
  ∀ t : Ty, WFType t → ∀ t' rest, parseType (printTy t) = .ok t' rest → printTy t' = printTy t

/-- **print_idempotent_partial** (T3 on the fragment): printing what was read from a printed type
    gives the same text. -/
theorem print_idempotent_partial (t : Ty) (hw : WFType t) (hf : t.frag = true) (t' : Ty) (rest : Str)
    (h : parseType (printTy t) = .ok t' rest) : printTy t' = printTy t := by
  have := roundtrip_partial t hw hf [] (by decide)
  rw [List.append_nil] at this
  rw [this] at h
  injection h with h1 _
  rw [← h1]

/-- **print_idempotent** (T3, full strength) -/
theorem print_idempotent : PrintIdempotentStatement :=
  fun t hw t' rest h => print_idempotent_partial t hw (Ty.frag_all t) t' rest h

example : ∀ t' rest, parseType (printTy exampleTy) = .ok t' rest → printTy t' = printTy exampleTy :=
  fun t' rest => print_idempotent_partial exampleTy (by decide +kernel) (by decide +kernel) t' rest

/-! ## The alias STATEMENT through `format_program`

`fmtAlias a` is `format_program` on the program that consists of the alias `a` (no trivia): the `Doc`
of `statement_doc` — for a union right-hand side `union_alias_doc`, a group of `line`, `| ` (the first
one only `if_break`) and the member — laid out by the engine of `pretty.rs` at width 100
(`QM.Text.print`, the model C17 is about), then `collapse_blanks` and `expand_literals`. -/

/-- the full statement (PROVED below: `alias_statement_roundtrip`) -/
def AliasRoundTripStatement : Prop :=
  ∀ a : Alias, a.wf = true → typeAlias (fmtAlias a) = .ok a ['\n']

/-- **alias_statement_layouts**: the formatted statement is one of two explicit texts — the flat line
    `'name<'a> = type`, or, only when the right-hand side is a union, the broken layout
    `'name<'a> =⏎  | m1⏎  | m2 …` — followed by one newline. Nothing else can come out of the engine
    and the two post-passes (they change nothing: no line of these texts ends in white space, is
    blank, or starts with the NUL of a literal placeholder — `goodS_printTy`). -/
theorem alias_statement_layouts (a : Alias) (hw : a.wf = true) :
    fmtAlias a = printAlias a ++ ['\n'] ∨
    ∃ ts, a.ty = .union ts ∧ fmtAlias a = brokenAlias a.name a.params ts ++ ['\n'] :=
  fmtAlias_text a hw

/-- **alias_statement_layout_decided**: which of the two — the engine's `fits` computed: the
    members of a union alias are put on their own lines exactly when the flat line is longer than 100
    characters (`chars().count()`); every other alias stays on one line however long it is. -/
theorem alias_statement_layout_decided (a : Alias) (hw : a.wf = true) :
    fmtAlias a =
      (match a.ty with
       | .union ts =>
         if (printAlias a).length ≤ 100 then printAlias a else brokenAlias a.name a.params ts
       | _ => printAlias a) ++ ['\n'] :=
  fmtAlias_decided a hw

/-- **alias_statement_roundtrip** (FULL = `AliasRoundTripStatement`): for EVERY well-formed alias
    (`Alias.wf`, decidable; every alias the parser returns satisfies it: `typeAlias_wf`), `type_alias`
    — over the grammar of the code, `parseTypeG` — reads the text `format_program` prints back to
    exactly the same alias and stops exactly at the final newline. Whatever layout the engine
    chose. -/
theorem alias_statement_roundtrip : AliasRoundTripStatement := by
  intro a hw
  rcases fmtAlias_text a hw with h | ⟨ts, hty, h⟩
  · rw [h]; exact typeAlias_flat a hw _ (by decide)
  · obtain ⟨name, ps, ty⟩ := a
    simp only at hty
    subst hty
    rw [h]
    exact typeAlias_broken name ps ts hw _ (by decide)

/-- … so `parse` of the formatted text is `Ok` with exactly this one statement (as far as the alias
    grammar decides `program`: the alias, the separator `\n`, end of input) -/
theorem alias_statement_program (a : Alias) (hw : a.wf = true) :
    programVerdict (fmtAlias a) = .aliasOnly a := by
  obtain ⟨s, hs⟩ := fmtAlias_quote a hw
  have h := alias_statement_roundtrip a hw
  have h0 : skipWsc false (fmtAlias a) = fmtAlias a := by
    rw [hs]; exact skipWsc_of_head (by simp [headAll, isMultispace])
  have hsep : seqSep ['\n'] = .ok () [] := by
    have h1 : QM.Parse.isHspace '\n' = false := by decide
    simp [seqSep, skipHspaceComments, h1, alt, pchar, lineEnding, skipSepTail]
  unfold programVerdict
  simp only [h0, h, hsep]
  rfl

/-- parse ∘ format ∘ parse = parse on alias statements -/
theorem alias_parse_format_parse (i : Str) (a : Alias) (r : Str) (h : typeAlias i = .ok a r) :
    typeAlias (fmtAlias a) = .ok a ['\n'] :=
  alias_statement_roundtrip a (typeAlias_wf i a r h)

/-- formatting what was read from a formatted alias gives the same text -/
theorem alias_format_idempotent (a : Alias) (hw : a.wf = true) (b : Alias) (r : Str)
    (h : typeAlias (fmtAlias a) = .ok b r) : fmtAlias b = fmtAlias a := by
  rw [alias_statement_roundtrip a hw] at h
  injection h with h1 _
  rw [← h1]

/-- the two layouts of `'t<'a> = A[x: 'a] | #'a -> 'int | ^` -/
def exampleAlias : Alias :=
  ⟨some "t".toList, ["a".toList],
    .union [.tuple (some "A".toList) [.field (some "x".toList) (.ident "a".toList [])] false,
            .func (.ident "a".toList []) (.prim .int), .cycle none]⟩

example : exampleAlias.wf = true := by decide +kernel
example : printAlias exampleAlias = "'t<'a> = A[x: 'a] | (#'a -> 'int) | ^".toList := by decide +kernel
example : brokenAlias exampleAlias.name exampleAlias.params
      [.tuple (some "A".toList) [.field (some "x".toList) (.ident "a".toList [])] false,
       .func (.ident "a".toList []) (.prim .int), .cycle none] =
    "'t<'a> =\n  | A[x: 'a]\n  | (#'a -> 'int)\n  | ^".toList := by decide +kernel
example : typeAlias (fmtAlias exampleAlias) = .ok exampleAlias ['\n'] :=
  alias_statement_roundtrip exampleAlias (by decide +kernel)

end C18Types
