/-
C18 / C17 — theorems about the TYPE-EXPRESSION sub-language (model: `Core/Parse/Type.lean`, a port of
the "Type parsers" of `parser.rs` and of the type printer of `format.rs`; lemmas under
`Lemmas/Parse/`). For every input text / every type AST, no bound on sizes or depths.

  fuel_suffices, fuel_monotone, fuel_irrelevant     the fuel that ties the recursive knot
  parseType_total, parseBaseType_total, typeAlias_total     (T1) totality + progress + located errors
-/
import QuiverModel.Lemmas.Parse.Grammar
import QuiverModel.Lemmas.Text.Basic
namespace C18Types
open QM.Parse QM.Text

/-! ## Fuel -/

/-- **fuel_suffices**: with fuel above the input length `type_definition` never runs out of fuel
    (every recursive call of the grammar sits behind a consumed character). -/
theorem fuel_suffices (i : Str) (n : Nat) (h : i.length < n) : typeDefinition n i ≠ .out :=
  (knot_tot n).1 i h

/-- **fuel_monotone**: an answer obtained with some fuel is the answer with any larger fuel. -/
theorem fuel_monotone (i : Str) (n m : Nat) (h : n ≤ m) (hne : typeDefinition n i ≠ .out) :
    typeDefinition m i = typeDefinition n i :=
  (knot_mono_le h).1 i hne

/-- **fuel_irrelevant**: every sufficient fuel gives the answer of `parseType` (fuel `length + 1`). -/
theorem fuel_irrelevant (i : Str) (n : Nat) (h : i.length < n) : typeDefinition n i = parseType i := by
  unfold parseType
  exact fuel_monotone i (i.length + 1) n (by omega) (fuel_suffices i _ (by omega))

example : parseType "'a".toList ≠ .out := fuel_suffices _ _ (Nat.lt_succ_self _)

/-! ## (T1) totality, progress, located errors -/

/-- **parseType_total** (T1): for EVERY input text `type_definition` returns either a type and a
    remainder that is a proper suffix of the input (at least one character was consumed), or an error
    whose position is a suffix of the input — so its byte offset `utf8Len pre` lies inside the text,
    on a character boundary, and `offset + length(rest of input) = length(input)` as in
    `SourceSpan::from_span`. It never runs out of fuel. -/
theorem parseType_total (i : Str) :
    (∃ t rest pre, parseType i = .ok t rest ∧ i = pre ++ rest ∧ pre ≠ []) ∨
    (∃ pos code pre, parseType i = .err pos code ∧ i = pre ++ pos ∧
        utf8Len pre + utf8Len pos = utf8Len i) := by
  have hs := (knot_sound (i.length + 1)).1 i
  have hst := (knot_strict (i.length + 1)).1 i
  have hne := fuel_suffices i (i.length + 1) (Nat.lt_succ_self _)
  unfold parseType typeDefinition at *
  cases h : (knot (i.length + 1)).td i with
  | ok t rest =>
    rw [h] at hs hst
    obtain ⟨pre, hpre⟩ := hs
    refine Or.inl ⟨t, rest, pre, rfl, hpre.symm, ?_⟩
    intro hnil
    subst hnil
    have : rest.length < i.length := hst
    rw [← hpre] at this
    simp at this
  | err pos code =>
    rw [h] at hs
    obtain ⟨pre, hpre⟩ := hs
    exact Or.inr ⟨pos, code, pre, rfl, hpre.symm, by rw [← hpre, utf8Len_append]⟩
  | out => exact absurd h hne

/-- the same for `base_type` -/
theorem parseBaseType_total (i : Str) :
    (∃ t rest pre, parseBaseType i = .ok t rest ∧ i = pre ++ rest ∧ pre ≠ []) ∨
    (∃ pos code pre, parseBaseType i = .err pos code ∧ i = pre ++ pos ∧
        utf8Len pre + utf8Len pos = utf8Len i) := by
  have hs := (knot_sound (i.length + 1)).2 i
  have hst := (knot_strict (i.length + 1)).2 i
  have hne := (knot_tot (i.length + 1)).2 i (Nat.lt_succ_self _)
  unfold parseBaseType at *
  cases h : (knot (i.length + 1)).bt i with
  | ok t rest =>
    rw [h] at hs hst
    obtain ⟨pre, hpre⟩ := hs
    refine Or.inl ⟨t, rest, pre, rfl, hpre.symm, ?_⟩
    intro hnil
    subst hnil
    have : rest.length < i.length := hst
    rw [← hpre] at this
    simp at this
  | err pos code =>
    rw [h] at hs
    obtain ⟨pre, hpre⟩ := hs
    exact Or.inr ⟨pos, code, pre, rfl, hpre.symm, by rw [← hpre, utf8Len_append]⟩
  | out => exact absurd h hne

theorem Sound.parseType : Sound parseType := fun i => (knot_sound (i.length + 1)).1 i
theorem NoOut.parseType : NoOut parseType := fun i => fuel_suffices i _ (Nat.lt_succ_self _)

/-- **typeAlias_total** (T1 for a whole alias statement `'name<'a, 'b> = type`): an alias and a
    remainder that is a suffix of the input, or an error positioned inside the input; never out of
    fuel. -/
theorem typeAlias_total (i : Str) :
    (∃ a rest pre, typeAlias i = .ok a rest ∧ i = pre ++ rest) ∨
    (∃ pos code pre, typeAlias i = .err pos code ∧ i = pre ++ pos ∧
        utf8Len pre + utf8Len pos = utf8Len i) := by
  have hsound : Sound typeAlias := by
    unfold typeAlias
    have := Sound.parseType; have := Sound.typeName; have := Sound.commaWs0
    sound_tac
  have hno : Tot (i.length + 1) typeAlias := by
    unfold typeAlias
    have := NoOut.tot NoOut.parseType (i.length + 1)
    have := Sound.parseType
    tot_tac
  have hs := hsound i
  cases h : typeAlias i with
  | ok a rest =>
    rw [h] at hs
    obtain ⟨pre, hpre⟩ := hs
    exact Or.inl ⟨a, rest, pre, rfl, hpre.symm⟩
  | err pos code =>
    rw [h] at hs
    obtain ⟨pre, hpre⟩ := hs
    exact Or.inr ⟨pos, code, pre, rfl, hpre.symm, by rw [← hpre, utf8Len_append]⟩
  | out => exact absurd h (hno i (Nat.lt_succ_self _))

end C18Types
