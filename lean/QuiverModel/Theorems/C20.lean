import QuiverModel.Lemmas.Num.Kernel
import QuiverModel.Lemmas.Num.Surd
import QuiverModel.Lemmas.Num.Round
/-
C20 — the num module computes exactly and propagates absence.
Property theorems about M-Num (`QuiverModel.Core.Num`, the hand translation of std/num.qv that the
driver `qm_c20` executes). Semantics `toQ` / `toQsqrt`, canonical form `Canon`: see
`QuiverModel.Lemmas.Num.Kernel`.
-/
open QM QM.Num QM.Builtins

namespace C20

/-- every op of the integer / rational fragment: result exists, is canonical, exact, and of the
kind the module header promises (int ∘ int = int; otherwise a rational, never lowered) -/
def ArithSpec (op : Option Num → Option Num → Res (Option Num)) (f : ℚ → ℚ → ℚ) : Prop :=
  ∀ x y : Num, Canon x → Canon y → ¬ isSurd x → ¬ isSurd y →
    ∃ z, op (some x) (some y) = .ok (some z) ∧ Canon z ∧ toQ z = f (toQ x) (toQ y) ∧
      (isInt x ∧ isInt y → isInt z) ∧ (¬ (isInt x ∧ isInt y) → isRat z)

theorem add_spec : ArithSpec add (· + ·) := by
  intro x y hx hy nx ny
  cases x with
  | surd a b n => exact absurd trivial nx
  | int a =>
    cases y with
    | surd a b n => exact absurd trivial ny
    | int b => exact ⟨.int (a + b), by simp [add], trivial, by simp [toQ], fun _ => trivial, fun h => absurd ⟨trivial, trivial⟩ h⟩
    | rat c d =>
      obtain ⟨z, h1, h2, h3⟩ := radd_spec (x := toRational (.int a)) (y := ⟨c, d⟩) (by simp [toRational]) (ne_of_gt hy.1)
      exact ⟨z.toNum, by simp [add, h1], h2, by rw [toNum_toQ, h3]; simp [toQ, toRational, QM.Num.Rt.toQ], fun h => absurd h.2 (by simp [isInt]), fun _ => trivial⟩
  | rat a b =>
    cases y with
    | surd a b n => exact absurd trivial ny
    | int c =>
      obtain ⟨z, h1, h2, h3⟩ := radd_spec (x := ⟨a, b⟩) (y := toRational (.int c)) (ne_of_gt hx.1) (by simp [toRational])
      exact ⟨z.toNum, by simp [add, h1], h2, by rw [toNum_toQ, h3]; simp [toQ, toRational, QM.Num.Rt.toQ], fun h => absurd h.1 (by simp [isInt]), fun _ => trivial⟩
    | rat c d =>
      obtain ⟨z, h1, h2, h3⟩ := radd_spec (x := ⟨a, b⟩) (y := ⟨c, d⟩) (ne_of_gt hx.1) (ne_of_gt hy.1)
      exact ⟨z.toNum, by simp [add, toRational, h1], h2, by rw [toNum_toQ, h3]; simp [toQ, QM.Num.Rt.toQ], fun h => absurd h.1 (by simp [isInt]), fun _ => trivial⟩

theorem sub_spec : ArithSpec sub (· - ·) := by
  intro x y hx hy nx ny
  cases x with
  | surd a b n => exact absurd trivial nx
  | int a =>
    cases y with
    | surd a b n => exact absurd trivial ny
    | int b => exact ⟨.int (a - b), by simp [sub], trivial, by simp [toQ], fun _ => trivial, fun h => absurd ⟨trivial, trivial⟩ h⟩
    | rat c d =>
      obtain ⟨z, h1, h2, h3⟩ := rsub_spec (x := toRational (.int a)) (y := ⟨c, d⟩) (by simp [toRational]) (ne_of_gt hy.1)
      exact ⟨z.toNum, by simp [sub, h1], h2, by rw [toNum_toQ, h3]; simp [toQ, toRational, QM.Num.Rt.toQ], fun h => absurd h.2 (by simp [isInt]), fun _ => trivial⟩
  | rat a b =>
    cases y with
    | surd a b n => exact absurd trivial ny
    | int c =>
      obtain ⟨z, h1, h2, h3⟩ := rsub_spec (x := ⟨a, b⟩) (y := toRational (.int c)) (ne_of_gt hx.1) (by simp [toRational])
      exact ⟨z.toNum, by simp [sub, h1], h2, by rw [toNum_toQ, h3]; simp [toQ, toRational, QM.Num.Rt.toQ], fun h => absurd h.1 (by simp [isInt]), fun _ => trivial⟩
    | rat c d =>
      obtain ⟨z, h1, h2, h3⟩ := rsub_spec (x := ⟨a, b⟩) (y := ⟨c, d⟩) (ne_of_gt hx.1) (ne_of_gt hy.1)
      exact ⟨z.toNum, by simp [sub, toRational, h1], h2, by rw [toNum_toQ, h3]; simp [toQ, QM.Num.Rt.toQ], fun h => absurd h.1 (by simp [isInt]), fun _ => trivial⟩

theorem mul_spec : ArithSpec mul (· * ·) := by
  intro x y hx hy nx ny
  cases x with
  | surd a b n => exact absurd trivial nx
  | int a =>
    cases y with
    | surd a b n => exact absurd trivial ny
    | int b => exact ⟨.int (a * b), by simp [mul], trivial, by simp [toQ], fun _ => trivial, fun h => absurd ⟨trivial, trivial⟩ h⟩
    | rat c d =>
      obtain ⟨z, h1, h2, h3⟩ := rmul_spec (x := toRational (.int a)) (y := ⟨c, d⟩) (by simp [toRational]) (ne_of_gt hy.1)
      exact ⟨z.toNum, by simp [mul, h1], h2, by rw [toNum_toQ, h3]; simp [toQ, toRational, QM.Num.Rt.toQ], fun h => absurd h.2 (by simp [isInt]), fun _ => trivial⟩
  | rat a b =>
    cases y with
    | surd a b n => exact absurd trivial ny
    | int c =>
      obtain ⟨z, h1, h2, h3⟩ := rmul_spec (x := ⟨a, b⟩) (y := toRational (.int c)) (ne_of_gt hx.1) (by simp [toRational])
      exact ⟨z.toNum, by simp [mul, h1], h2, by rw [toNum_toQ, h3]; simp [toQ, toRational, QM.Num.Rt.toQ], fun h => absurd h.1 (by simp [isInt]), fun _ => trivial⟩
    | rat c d =>
      obtain ⟨z, h1, h2, h3⟩ := rmul_spec (x := ⟨a, b⟩) (y := ⟨c, d⟩) (ne_of_gt hx.1) (ne_of_gt hy.1)
      exact ⟨z.toNum, by simp [mul, toRational, h1], h2, by rw [toNum_toQ, h3]; simp [toQ, QM.Num.Rt.toQ], fun h => absurd h.1 (by simp [isInt]), fun _ => trivial⟩


/-! ### division -/

/-- Division: by zero → nil; otherwise exact, canonical and always a rational. -/
theorem div_spec (x y : Num) (hx : Canon x) (hy : Canon y) (nx : ¬ isSurd x) (ny : ¬ isSurd y) :
    (toQ y = 0 → div (some x) (some y) = .ok none) ∧
    (toQ y ≠ 0 → ∃ z, div (some x) (some y) = .ok (some z) ∧ Canon z ∧ isRat z ∧
        toQ z = toQ x / toQ y) := by
  have hxd := coeffOf_d_pos x hx nx
  have hyd := coeffOf_d_pos y hy ny
  have hs := divCoeff_spec (coeffOf x) (coeffOf y) (ne_of_gt hxd) (ne_of_gt hyd)
  have hyq : ((toRational (coeffOf y)).d : ℚ) ≠ 0 := by exact_mod_cast (ne_of_gt hyd)
  have hzero : toQ y = 0 ↔ (toRational (coeffOf y)).n = 0 := by
    rw [← toQ_coeffOf y ny]; unfold QM.Num.Rt.toQ
    rw [div_eq_zero_iff]
    constructor
    · rintro (h | h)
      · exact_mod_cast h
      · exact absurd h hyq
    · intro h; left; exact_mod_cast h
  rw [div_eq_divCoeff x y nx ny]
  constructor
  · intro h; exact hs.1 (hzero.mp h)
  · intro h
    obtain ⟨z, h1, h2, h3⟩ := hs.2 (fun hc => h (hzero.mpr hc))
    exact ⟨z.toNum, h1, h2, trivial, by rw [toNum_toQ, h3, toQ_coeffOf x nx, toQ_coeffOf y ny]⟩

/-! ### comparison -/

theorem compare_spec (x y : Num) (hx : Canon x) (hy : Canon y) (nx : ¬ isSurd x) (ny : ¬ isSurd y) :
    Num.compare (some x) (some y) = .ok (some (sgnQ (toQ x - toQ y))) := by
  cases x with
  | surd a b n => exact absurd trivial nx
  | int a =>
    cases y with
    | surd a b n => exact absurd trivial ny
    | int b => simp [Num.compare, toQ, cmp_cast_sub]
    | rat c d =>
      have := rcompare_spec ⟨a, 1⟩ ⟨c, d⟩ (by simp) hy.1
      simp [Num.compare, this, toQ, toRational, QM.Num.Rt.toQ]
  | rat a b =>
    cases y with
    | surd a b n => exact absurd trivial ny
    | int c =>
      have := rcompare_spec ⟨a, b⟩ ⟨c, 1⟩ hx.1 (by simp)
      simp [Num.compare, this, toQ, toRational, QM.Num.Rt.toQ]
    | rat c d =>
      have := rcompare_spec ⟨a, b⟩ ⟨c, d⟩ hx.1 hy.1
      simp [Num.compare, this, toQ, toRational, QM.Num.Rt.toQ]

/-! ### absence propagates -/

theorem compare_nil (x y : Option Num) :
    Num.compare none y = .ok none ∧ Num.compare x none = .ok none :=
  binop_nil Num.compare (fun y => by cases y <;> rfl) (fun v => by cases v <;> rfl) x y

/-- Every operation of the exported record (and `compare`) with a nil operand evaluates to nil —
an `ok none`, never an error outcome. -/
theorem nil_propagates (x y : Option Num) :
    (Num.add none y = .ok none ∧ Num.add x none = .ok none) ∧
    (Num.sub none y = .ok none ∧ Num.sub x none = .ok none) ∧
    (Num.mul none y = .ok none ∧ Num.mul x none = .ok none) ∧
    (Num.div none y = .ok none ∧ Num.div x none = .ok none) ∧
    (Num.compare none y = .ok none ∧ Num.compare x none = .ok none) ∧
    (Num.min none y = .ok none ∧ Num.min x none = .ok none) ∧
    (Num.max none y = .ok none ∧ Num.max x none = .ok none) ∧
    (Num.clamp none x y = .ok none ∧ Num.clamp x none y = .ok none ∧ Num.clamp x y none = .ok none) ∧
    (Num.eqQ none y = .ok none ∧ Num.eqQ x none = .ok none) ∧
    (Num.ltQ none y = .ok none ∧ Num.ltQ x none = .ok none) ∧
    (Num.leQ none y = .ok none ∧ Num.leQ x none = .ok none) ∧
    (Num.gtQ none y = .ok none ∧ Num.gtQ x none = .ok none) ∧
    (Num.geQ none y = .ok none ∧ Num.geQ x none = .ok none) ∧
    Num.neg none = .ok none ∧ Num.abs none = .ok none ∧ Num.sqrt none = .ok none ∧
    Num.numer none = .ok none ∧ Num.denom none = .ok none ∧ Num.toInt none = .ok none ∧
    Num.floor none = .ok none ∧ Num.ceil none = .ok none ∧ Num.round none = .ok none ∧
    Num.sign none = .ok none := by
  have hc := compare_nil
  refine ⟨binop_nil _ (fun y => by cases y <;> rfl) (fun v => by cases v <;> rfl) x y,
    binop_nil _ (fun y => by cases y <;> rfl) (fun v => by cases v <;> rfl) x y,
    binop_nil _ (fun y => by cases y <;> rfl) (fun v => by cases v <;> rfl) x y,
    binop_nil _ (fun y => by cases y <;> rfl) (fun v => by cases v <;> rfl) x y,
    hc x y,
    binop_nil _ (fun y => by cases y <;> rfl) (fun v => by cases v <;> rfl) x y,
    binop_nil _ (fun y => by cases y <;> rfl) (fun v => by cases v <;> rfl) x y,
    ⟨?_, ?_, ?_⟩,
    ⟨by simp [Num.eqQ, (hc x y).1], by simp [Num.eqQ, (hc x y).2]⟩,
    ⟨by simp [Num.ltQ, (hc x y).1], by simp [Num.ltQ, (hc x y).2]⟩,
    ⟨by simp [Num.leQ, (hc x y).1], by simp [Num.leQ, (hc x y).2]⟩,
    ⟨by simp [Num.gtQ, (hc x y).1], by simp [Num.gtQ, (hc x y).2]⟩,
    ⟨by simp [Num.geQ, (hc x y).1], by simp [Num.geQ, (hc x y).2]⟩,
    rfl, rfl, rfl, rfl, rfl, rfl, rfl, rfl, rfl, ?_⟩
  · cases x <;> cases y <;> rfl
  · cases x <;> cases y <;> rfl
  · cases x <;> cases y <;> rfl
  · exact (hc none (some (.int 0))).1

/-! ### canonical forms are unique -/

/-- Two canonical numbers of the same kind denoting the same element are identical. -/
theorem canon_unique (x y : Num) (hx : Canon x) (hy : Canon y) (hk : kind x = kind y)
    (he : toQsqrt x = toQsqrt y) : x = y := by
  cases x with
  | int a =>
    cases y with
    | int b => simp [toQsqrt] at he; rw [he]
    | rat c d => simp [kind] at hk
    | surd a b n => simp [kind] at hk
  | rat a b =>
    cases y with
    | int c => simp [kind] at hk
    | rat c d =>
      simp only [toQsqrt, Prod.mk.injEq, and_true] at he
      have := rat_unique hx.1 hx.2 hy.1 hy.2 he
      rw [this.1, this.2]
    | surd a b n => simp [kind] at hk
  | surd a b n =>
    cases y with
    | int c => simp [kind] at hk
    | rat c d => simp [kind] at hk
    | surd a' b' n' =>
      simp only [toQsqrt, Prod.mk.injEq] at he
      obtain ⟨ha, hb, _, hn, _⟩ := hx
      obtain ⟨ha', hb', _, hn', _⟩ := hy
      have e1 := coeff_unique ha ha' he.1
      have e2 := coeff_unique hb hb' he.2.1
      have e3 : n = n' := by have := he.2.2; omega
      rw [e1, e2, e3]


/-! ### headline statements about `reduce` -/

/-- `reduce` returns the canonical form: positive denominator, lowest terms, same value. -/
theorem reduce_canon (n d : Int) (hd : d ≠ 0) :
    ∃ z, reduce ⟨n, d⟩ = .ok z ∧ 0 < z.d ∧ Int.gcd z.n z.d = 1 ∧ z.toQ = (n : ℚ) / (d : ℚ) := by
  obtain ⟨z, h1, h2, h3⟩ := reduce_spec (n := n) hd
  exact ⟨z, h1, h2.1, h2.2, h3⟩

/-- the loop in `reduce` (self tail call after sign normalisation) never runs out of fuel:
it terminates on every input, canonical or not -/
theorem reduce_never_fuelOut (r : Rt) : reduce r ≠ .fuelOut := by
  obtain ⟨n, d⟩ := r
  by_cases hd : d = 0
  · subst hd
    by_cases hn : n = 0
    · subst hn; decide
    · have hg : |n| ≠ 0 := by simpa using hn
      simp [reduce, reduceF, cmp_eq_neg_one, iDiv_eq hg]
  · rw [reduce_eq hd]; simp

/-- outside the domain the builtin error stays an error: `Rational[0, 0]` divides by a zero gcd -/
theorem reduce_zero_zero : reduce ⟨0, 0⟩ = .err .invalidArgument := by decide

example : reduce ⟨6, -4⟩ = .ok ⟨-3, 2⟩ := by decide
example : Num.add (some (.rat 1 2)) (some (.int 3)) = .ok (some (.rat 7 2)) := by decide
example : Num.div (some (.int 1)) (some (.int 0)) = .ok none := by decide
example : Canon (.rat 7 2) := by unfold Canon; decide
example : ¬ isSurd (.rat 7 2) := by simp [isSurd]

/-! ### square-free decomposition (`sqfree`) -/

/-- `[1, n, 2] sqfree` for `n > 0`: terminates (the fuel of the model is never exhausted) and returns
`[k, m]` with `k²·m = n`, `k > 0`, `m` positive and square-free. -/
theorem sqfree_spec (n : Int) (hn : 0 < n) :
    ∃ k m, sqfree 1 n 2 = .ok (k, m) ∧ k * k * m = n ∧ 0 < k ∧ 0 < m ∧ SqFree m := by
  obtain ⟨k, m, h1, h2, h3, h4, h5⟩ := sqfreeF_spec (n.toNat + 2) 1 n 2 (by omega) hn
    (fun e he hed => by omega) (by omega)
  exact ⟨k, m, h1, by rw [h2]; ring, h5 (by omega), h3, h4⟩

/-- the trial-division loop terminates on every input (called as `[1, n, 2] sqfree`) -/
theorem sqfree_terminates (n : Int) : ∃ k m, sqfree 1 n 2 = .ok (k, m) := by
  by_cases hn : 0 < n
  · obtain ⟨k, m, h, _⟩ := sqfree_spec n hn; exact ⟨k, m, h⟩
  · refine ⟨1, n, ?_⟩
    have : n < 4 := by omega
    simp [sqfree, sqfreeF, cmp_eq_one, this]

example : sqfree 1 72 2 = .ok (6, 2) := by decide

/-! ### truncation, floor, ceiling, rounding (integers and rationals) -/

theorem toInt_spec (x : Num) (hx : Canon x) (nx : ¬ isSurd x) :
    ∃ t, Num.toInt (some x) = .ok (some t) ∧ IsTrunc t (toQ x) := by
  cases x with
  | surd a b n => exact absurd trivial nx
  | int z =>
    refine ⟨z, by simp [Num.toInt, toRational, iDiv_eq (show (1 : Int) ≠ 0 by decide)], ?_⟩
    unfold IsTrunc toQ; constructor <;> intro _ <;> constructor <;> linarith
  | rat n d =>
    refine ⟨n.tdiv d, by simp [Num.toInt, toRational, iDiv_eq (ne_of_gt hx.1)], ?_⟩
    exact tdiv_isTrunc n d hx.1

/-- `floor`: the greatest integer ≤ x -/
theorem floor_spec (x : Num) (hx : Canon x) (nx : ¬ isSurd x) :
    ∃ f, Num.floor (some x) = .ok (some f) ∧ (f : ℚ) ≤ toQ x ∧ toQ x < f + 1 := by
  obtain ⟨t, ht, htr⟩ := toInt_spec x hx nx
  have hc := compare_spec x (.int t) hx (canon_int t) nx (not_surd_int t)
  by_cases hlt : toQ x < t
  · refine ⟨t - 1, ?_, ?_⟩
    · have : sgnQ (toQ x - toQ (.int t)) = -1 := by rw [sgnQ_lt_zero, toQ_int]; linarith
      simp [Num.floor, ht, hc, this]
    · have hneg : toQ x ≤ 0 := by
        by_contra h
        have := (htr.1 (le_of_lt (not_le.mp h))).1; linarith
      have := htr.2 hneg
      push_cast; constructor <;> linarith
  · refine ⟨t, ?_, ?_⟩
    · have : sgnQ (toQ x - toQ (.int t)) ≠ -1 := by rw [Ne, sgnQ_lt_zero, toQ_int]; linarith
      simp [Num.floor, ht, hc, this]
    · have hge : (t : ℚ) ≤ toQ x := not_lt.mp hlt
      refine ⟨hge, ?_⟩
      by_cases h0 : 0 ≤ toQ x
      · exact (htr.1 h0).2
      · have := (htr.2 (le_of_lt (not_le.mp h0))).2; linarith

/-- `ceil`: the least integer ≥ x -/
theorem ceil_spec (x : Num) (hx : Canon x) (nx : ¬ isSurd x) :
    ∃ c, Num.ceil (some x) = .ok (some c) ∧ (c : ℚ) - 1 < toQ x ∧ toQ x ≤ c := by
  obtain ⟨t, ht, htr⟩ := toInt_spec x hx nx
  have hc := compare_spec x (.int t) hx (canon_int t) nx (not_surd_int t)
  by_cases hgt : (t : ℚ) < toQ x
  · refine ⟨t + 1, ?_, ?_⟩
    · have : sgnQ (toQ x - toQ (.int t)) = 1 := by rw [sgnQ_pos, toQ_int]; linarith
      simp [Num.ceil, ht, hc, this]
    · have hpos : 0 ≤ toQ x := by
        by_contra h
        have := (htr.2 (le_of_lt (not_le.mp h))).2; linarith
      have := htr.1 hpos
      push_cast; constructor <;> linarith
  · refine ⟨t, ?_, ?_⟩
    · have : sgnQ (toQ x - toQ (.int t)) ≠ 1 := by rw [Ne, sgnQ_pos, toQ_int]; linarith
      simp [Num.ceil, ht, hc, this]
    · have hle : toQ x ≤ t := not_lt.mp hgt
      refine ⟨?_, hle⟩
      by_cases h0 : toQ x ≤ 0
      · exact (htr.2 h0).1
      · have := (htr.1 (le_of_lt (not_le.mp h0))).1; linarith

/-- `round`: nearest integer, halves away from zero -/
theorem round_spec (x : Num) (hx : Canon x) (nx : ¬ isSurd x) :
    ∃ r, Num.round (some x) = .ok (some r) ∧ (r : ℚ) - 1 / 2 ≤ toQ x ∧ toQ x ≤ r + 1 / 2 ∧
      (toQ x = r - 1 / 2 → 0 < toQ x) ∧ (toQ x = r + 1 / 2 → toQ x < 0) := by
  obtain ⟨f, hf, hf1, hf2⟩ := floor_spec x hx nx
  have hc := compare_spec x (.rat (f * 2 + 1) 2) hx (canon_half f) nx (fun h => h)
  have hmid : toQ (.rat (f * 2 + 1) 2) = (f : ℚ) + 1 / 2 := by
    unfold toQ; push_cast; ring
  rw [hmid] at hc
  have hsg := sgnQ_cases (toQ x - ((f : ℚ) + 1 / 2))
  generalize sgnQ (toQ x - ((f : ℚ) + 1 / 2)) = s at hc hsg
  rcases lt_trichotomy (toQ x) ((f : ℚ) + 1 / 2) with h | h | h
  · have e : s = -1 := hsg.1.mpr (by linarith)
    refine ⟨f, by simp [Num.round, hf, hc, e], by linarith, by linarith, fun h' => by linarith, fun h' => by linarith⟩
  · have e : s = 0 := hsg.2.1.mpr (by linarith)
    by_cases hneg : f < 0
    · have hfq : (f : ℚ) ≤ -1 := by exact_mod_cast (show f ≤ -1 by omega)
      refine ⟨f, by simp [Num.round, hf, hc, e, cmp_eq_neg_one, hneg], by linarith, by linarith,
        fun h' => by linarith, fun _ => by linarith⟩
    · have hfq : (0 : ℚ) ≤ f := by exact_mod_cast (show 0 ≤ f by omega)
      refine ⟨f + 1, by simp [Num.round, hf, hc, e, cmp_eq_neg_one, hneg], by push_cast; linarith,
        by push_cast; linarith, fun _ => by linarith, fun h' => by push_cast at h'; linarith⟩
  · have e : s = 1 := hsg.2.2.mpr (by linarith)
    refine ⟨f + 1, by simp [Num.round, hf, hc, e], by push_cast; linarith, by push_cast; linarith,
      fun h' => by push_cast at h'; linarith, fun h' => by push_cast at h'; linarith⟩

/-- negation preserves kind and is exact -/
theorem neg_spec (x : Num) (hx : Canon x) (nx : ¬ isSurd x) :
    ∃ z, Num.neg (some x) = .ok (some z) ∧ Canon z ∧ toQ z = - toQ x ∧ kind z = kind x := by
  cases x with
  | surd a b n => exact absurd trivial nx
  | int z => exact ⟨.int (-z), by simp [Num.neg], trivial, by simp [toQ], rfl⟩
  | rat n d =>
    obtain ⟨z, h1, h2, h3⟩ := reduce_spec (n := -n) (ne_of_gt hx.1)
    refine ⟨z.toNum, by simp [Num.neg, h1], h2, ?_, rfl⟩
    rw [toNum_toQ, h3]; unfold toQ; push_cast; ring

/-- absolute value preserves kind and is exact -/
theorem abs_spec (x : Num) (hx : Canon x) (nx : ¬ isSurd x) :
    ∃ z, Num.abs (some x) = .ok (some z) ∧ Canon z ∧ toQ z = |toQ x| ∧ kind z = kind x := by
  cases x with
  | surd a b n => exact absurd trivial nx
  | int z => exact ⟨.int |z|, by simp [Num.abs], trivial, by simp [toQ], rfl⟩
  | rat n d =>
    refine ⟨.rat |n| d, by simp [Num.abs], ⟨hx.1, ?_⟩, ?_, rfl⟩
    · have := hx.2; simp only [Int.gcd, Int.natAbs_abs] at this ⊢; exact this
    · have hd : (0 : ℚ) < d := by exact_mod_cast hx.1
      unfold toQ; rw [abs_div, abs_of_pos hd]; push_cast; rfl

/-! ### order-derived operations -/

theorem min_spec (x y : Num) (hx : Canon x) (hy : Canon y) (nx : ¬ isSurd x) (ny : ¬ isSurd y) :
    Num.min (some x) (some y) = .ok (some (if toQ y < toQ x then y else x)) := by
  simp only [Num.min, compare_spec x y hx hy nx ny, ok_bind, sgnQ_sub_one, pure_eq]
  split <;> rfl

theorem max_spec (x y : Num) (hx : Canon x) (hy : Canon y) (nx : ¬ isSurd x) (ny : ¬ isSurd y) :
    Num.max (some x) (some y) = .ok (some (if toQ x < toQ y then y else x)) := by
  simp only [Num.max, compare_spec x y hx hy nx ny, ok_bind, sgnQ_sub_neg_one, pure_eq]
  split <;> rfl

theorem clamp_spec (x lo hi : Num) (hx : Canon x) (hl : Canon lo) (hh : Canon hi)
    (nx : ¬ isSurd x) (nl : ¬ isSurd lo) (nh : ¬ isSurd hi) :
    Num.clamp (some x) (some lo) (some hi) =
      .ok (some (if toQ x < toQ lo then lo else if toQ hi < toQ x then hi else x)) := by
  simp only [Num.clamp, compare_spec x lo hx hl nx nl, compare_spec x hi hx hh nx nh, ok_bind,
    sgnQ_sub_one, sgnQ_sub_neg_one, pure_eq]
  split
  · rfl
  · split <;> rfl

theorem sign_spec (x : Num) (hx : Canon x) (nx : ¬ isSurd x) :
    Num.sign (some x) = .ok (some (sgnQ (toQ x))) := by
  have := compare_spec x (.int 0) hx trivial nx (fun h => h)
  simpa [Num.sign, toQ_int] using this

/-- the five predicates decide the order of ℚ (`some ()` is `Ok`, `none` is nil) -/
theorem predicates_spec (x y : Num) (hx : Canon x) (hy : Canon y) (nx : ¬ isSurd x) (ny : ¬ isSurd y) :
    Num.eqQ (some x) (some y) = .ok (if toQ x = toQ y then some () else none) ∧
    Num.ltQ (some x) (some y) = .ok (if toQ x < toQ y then some () else none) ∧
    Num.leQ (some x) (some y) = .ok (if toQ x ≤ toQ y then some () else none) ∧
    Num.gtQ (some x) (some y) = .ok (if toQ y < toQ x then some () else none) ∧
    Num.geQ (some x) (some y) = .ok (if toQ y ≤ toQ x then some () else none) := by
  have hc := compare_spec x y hx hy nx ny
  rcases lt_trichotomy (toQ x) (toQ y) with h | h | h
  · have e : sgnQ (toQ x - toQ y) = -1 := sgnQ_sub_neg_one.mpr h
    simp [Num.eqQ, Num.ltQ, Num.leQ, Num.gtQ, Num.geQ, hc, e, h, ne_of_lt h, le_of_lt h, not_lt.mpr (le_of_lt h), not_le.mpr h]
  · have e : sgnQ (toQ x - toQ y) = 0 := sgnQ_sub_zero.mpr h
    simp only [Num.eqQ, Num.ltQ, Num.leQ, Num.gtQ, Num.geQ, hc, e, ok_bind, pure_eq]
    simp [h]
  · have e : sgnQ (toQ x - toQ y) = 1 := sgnQ_sub_one.mpr h
    simp [Num.eqQ, Num.ltQ, Num.leQ, Num.gtQ, Num.geQ, hc, e, h, ne_of_gt h, le_of_lt h, not_lt.mpr (le_of_lt h), not_le.mpr h]

/-- `numer` / `denom` are numerator and denominator of the value in lowest terms -/
theorem numer_denom_spec (x : Num) (hx : Canon x) (nx : ¬ isSurd x) :
    Num.numer (some x) = .ok (some (toQ x).num) ∧ Num.denom (some x) = .ok (some ((toQ x).den : Int)) := by
  cases x with
  | surd a b n => exact absurd trivial nx
  | int z => simp [Num.numer, Num.denom, toQ]
  | rat n d =>
    have h1 := Rat.num_div_eq_of_coprime hx.1 hx.2
    have h2 := Rat.den_div_eq_of_coprime hx.1 hx.2
    simp only [Num.numer, Num.denom, toQ, h1, h2, pure_eq, and_self]

end C20
