import QuiverModel.Lemmas.Num.Kernel
/-
C20 — the num module computes exactly and propagates absence.
Property theorems about M-Num (`QuiverModel.Core.Num`, the hand translation of std/num.qv that the
driver `qm_c20` executes). Semantics `toQ` / `toQsqrt`, canonical form `Canon`: see
`QuiverModel.Lemmas.Num.Kernel`.
-/
open QM QM.Num QM.Builtins

namespace C20

/-- every op of the integer / rational fragment: result exists, is canonical, exact, and of the
kind the module header promises (int ∘ int = int; otherwise a rational, never lowered) -/
def ArithSpec (op : Option Num → Option Num → Res (Option Num)) (f : ℚ → ℚ → ℚ) : Prop :=
  ∀ x y : Num, Canon x → Canon y → ¬ isSurd x → ¬ isSurd y →
    ∃ z, op (some x) (some y) = .ok (some z) ∧ Canon z ∧ toQ z = f (toQ x) (toQ y) ∧
      (isInt x ∧ isInt y → isInt z) ∧ (¬ (isInt x ∧ isInt y) → isRat z)

theorem add_spec : ArithSpec add (· + ·) := by
  intro x y hx hy nx ny
  cases x with
  | surd a b n => exact absurd trivial nx
  | int a =>
    cases y with
    | surd a b n => exact absurd trivial ny
    | int b => exact ⟨.int (a + b), by simp [add], trivial, by simp [toQ], fun _ => trivial, fun h => absurd ⟨trivial, trivial⟩ h⟩
    | rat c d =>
      obtain ⟨z, h1, h2, h3⟩ := radd_spec (x := toRational (.int a)) (y := ⟨c, d⟩) (by simp [toRational]) (ne_of_gt hy.1)
      exact ⟨z.toNum, by simp [add, h1], h2, by rw [toNum_toQ, h3]; simp [toQ, toRational, QM.Num.Rt.toQ], fun h => absurd h.2 (by simp [isInt]), fun _ => trivial⟩
  | rat a b =>
    cases y with
    | surd a b n => exact absurd trivial ny
    | int c =>
      obtain ⟨z, h1, h2, h3⟩ := radd_spec (x := ⟨a, b⟩) (y := toRational (.int c)) (ne_of_gt hx.1) (by simp [toRational])
      exact ⟨z.toNum, by simp [add, h1], h2, by rw [toNum_toQ, h3]; simp [toQ, toRational, QM.Num.Rt.toQ], fun h => absurd h.1 (by simp [isInt]), fun _ => trivial⟩
    | rat c d =>
      obtain ⟨z, h1, h2, h3⟩ := radd_spec (x := ⟨a, b⟩) (y := ⟨c, d⟩) (ne_of_gt hx.1) (ne_of_gt hy.1)
      exact ⟨z.toNum, by simp [add, toRational, h1], h2, by rw [toNum_toQ, h3]; simp [toQ, QM.Num.Rt.toQ], fun h => absurd h.1 (by simp [isInt]), fun _ => trivial⟩

theorem sub_spec : ArithSpec sub (· - ·) := by
  intro x y hx hy nx ny
  cases x with
  | surd a b n => exact absurd trivial nx
  | int a =>
    cases y with
    | surd a b n => exact absurd trivial ny
    | int b => exact ⟨.int (a - b), by simp [sub], trivial, by simp [toQ], fun _ => trivial, fun h => absurd ⟨trivial, trivial⟩ h⟩
    | rat c d =>
      obtain ⟨z, h1, h2, h3⟩ := rsub_spec (x := toRational (.int a)) (y := ⟨c, d⟩) (by simp [toRational]) (ne_of_gt hy.1)
      exact ⟨z.toNum, by simp [sub, h1], h2, by rw [toNum_toQ, h3]; simp [toQ, toRational, QM.Num.Rt.toQ], fun h => absurd h.2 (by simp [isInt]), fun _ => trivial⟩
  | rat a b =>
    cases y with
    | surd a b n => exact absurd trivial ny
    | int c =>
      obtain ⟨z, h1, h2, h3⟩ := rsub_spec (x := ⟨a, b⟩) (y := toRational (.int c)) (ne_of_gt hx.1) (by simp [toRational])
      exact ⟨z.toNum, by simp [sub, h1], h2, by rw [toNum_toQ, h3]; simp [toQ, toRational, QM.Num.Rt.toQ], fun h => absurd h.1 (by simp [isInt]), fun _ => trivial⟩
    | rat c d =>
      obtain ⟨z, h1, h2, h3⟩ := rsub_spec (x := ⟨a, b⟩) (y := ⟨c, d⟩) (ne_of_gt hx.1) (ne_of_gt hy.1)
      exact ⟨z.toNum, by simp [sub, toRational, h1], h2, by rw [toNum_toQ, h3]; simp [toQ, QM.Num.Rt.toQ], fun h => absurd h.1 (by simp [isInt]), fun _ => trivial⟩

theorem mul_spec : ArithSpec mul (· * ·) := by
  intro x y hx hy nx ny
  cases x with
  | surd a b n => exact absurd trivial nx
  | int a =>
    cases y with
    | surd a b n => exact absurd trivial ny
    | int b => exact ⟨.int (a * b), by simp [mul], trivial, by simp [toQ], fun _ => trivial, fun h => absurd ⟨trivial, trivial⟩ h⟩
    | rat c d =>
      obtain ⟨z, h1, h2, h3⟩ := rmul_spec (x := toRational (.int a)) (y := ⟨c, d⟩) (by simp [toRational]) (ne_of_gt hy.1)
      exact ⟨z.toNum, by simp [mul, h1], h2, by rw [toNum_toQ, h3]; simp [toQ, toRational, QM.Num.Rt.toQ], fun h => absurd h.2 (by simp [isInt]), fun _ => trivial⟩
  | rat a b =>
    cases y with
    | surd a b n => exact absurd trivial ny
    | int c =>
      obtain ⟨z, h1, h2, h3⟩ := rmul_spec (x := ⟨a, b⟩) (y := toRational (.int c)) (ne_of_gt hx.1) (by simp [toRational])
      exact ⟨z.toNum, by simp [mul, h1], h2, by rw [toNum_toQ, h3]; simp [toQ, toRational, QM.Num.Rt.toQ], fun h => absurd h.1 (by simp [isInt]), fun _ => trivial⟩
    | rat c d =>
      obtain ⟨z, h1, h2, h3⟩ := rmul_spec (x := ⟨a, b⟩) (y := ⟨c, d⟩) (ne_of_gt hx.1) (ne_of_gt hy.1)
      exact ⟨z.toNum, by simp [mul, toRational, h1], h2, by rw [toNum_toQ, h3]; simp [toQ, QM.Num.Rt.toQ], fun h => absurd h.1 (by simp [isInt]), fun _ => trivial⟩


/-! ### division -/

/-- Division: by zero → nil; otherwise exact, canonical and always a rational. -/
theorem div_spec (x y : Num) (hx : Canon x) (hy : Canon y) (nx : ¬ isSurd x) (ny : ¬ isSurd y) :
    (toQ y = 0 → div (some x) (some y) = .ok none) ∧
    (toQ y ≠ 0 → ∃ z, div (some x) (some y) = .ok (some z) ∧ Canon z ∧ isRat z ∧
        toQ z = toQ x / toQ y) := by
  have hxd := coeffOf_d_pos x hx nx
  have hyd := coeffOf_d_pos y hy ny
  have hs := divCoeff_spec (coeffOf x) (coeffOf y) (ne_of_gt hxd) (ne_of_gt hyd)
  have hyq : ((toRational (coeffOf y)).d : ℚ) ≠ 0 := by exact_mod_cast (ne_of_gt hyd)
  have hzero : toQ y = 0 ↔ (toRational (coeffOf y)).n = 0 := by
    rw [← toQ_coeffOf y ny]; unfold QM.Num.Rt.toQ
    rw [div_eq_zero_iff]
    constructor
    · rintro (h | h)
      · exact_mod_cast h
      · exact absurd h hyq
    · intro h; left; exact_mod_cast h
  rw [div_eq_divCoeff x y nx ny]
  constructor
  · intro h; exact hs.1 (hzero.mp h)
  · intro h
    obtain ⟨z, h1, h2, h3⟩ := hs.2 (fun hc => h (hzero.mpr hc))
    exact ⟨z.toNum, h1, h2, trivial, by rw [toNum_toQ, h3, toQ_coeffOf x nx, toQ_coeffOf y ny]⟩

/-! ### comparison -/

theorem compare_spec (x y : Num) (hx : Canon x) (hy : Canon y) (nx : ¬ isSurd x) (ny : ¬ isSurd y) :
    Num.compare (some x) (some y) = .ok (some (sgnQ (toQ x - toQ y))) := by
  cases x with
  | surd a b n => exact absurd trivial nx
  | int a =>
    cases y with
    | surd a b n => exact absurd trivial ny
    | int b => simp [Num.compare, toQ, cmp_cast_sub]
    | rat c d =>
      have := rcompare_spec ⟨a, 1⟩ ⟨c, d⟩ (by simp) hy.1
      simp [Num.compare, this, toQ, toRational, QM.Num.Rt.toQ]
  | rat a b =>
    cases y with
    | surd a b n => exact absurd trivial ny
    | int c =>
      have := rcompare_spec ⟨a, b⟩ ⟨c, 1⟩ hx.1 (by simp)
      simp [Num.compare, this, toQ, toRational, QM.Num.Rt.toQ]
    | rat c d =>
      have := rcompare_spec ⟨a, b⟩ ⟨c, d⟩ hx.1 hy.1
      simp [Num.compare, this, toQ, toRational, QM.Num.Rt.toQ]

/-! ### absence propagates -/

theorem compare_nil (x y : Option Num) :
    Num.compare none y = .ok none ∧ Num.compare x none = .ok none :=
  binop_nil Num.compare (fun y => by cases y <;> rfl) (fun v => by cases v <;> rfl) x y

/-- Every operation of the exported record (and `compare`) with a nil operand evaluates to nil —
an `ok none`, never an error outcome. -/
theorem nil_propagates (x y : Option Num) :
    (Num.add none y = .ok none ∧ Num.add x none = .ok none) ∧
    (Num.sub none y = .ok none ∧ Num.sub x none = .ok none) ∧
    (Num.mul none y = .ok none ∧ Num.mul x none = .ok none) ∧
    (Num.div none y = .ok none ∧ Num.div x none = .ok none) ∧
    (Num.compare none y = .ok none ∧ Num.compare x none = .ok none) ∧
    (Num.min none y = .ok none ∧ Num.min x none = .ok none) ∧
    (Num.max none y = .ok none ∧ Num.max x none = .ok none) ∧
    (Num.clamp none x y = .ok none ∧ Num.clamp x none y = .ok none ∧ Num.clamp x y none = .ok none) ∧
    (Num.eqQ none y = .ok none ∧ Num.eqQ x none = .ok none) ∧
    (Num.ltQ none y = .ok none ∧ Num.ltQ x none = .ok none) ∧
    (Num.leQ none y = .ok none ∧ Num.leQ x none = .ok none) ∧
    (Num.gtQ none y = .ok none ∧ Num.gtQ x none = .ok none) ∧
    (Num.geQ none y = .ok none ∧ Num.geQ x none = .ok none) ∧
    Num.neg none = .ok none ∧ Num.abs none = .ok none ∧ Num.sqrt none = .ok none ∧
    Num.numer none = .ok none ∧ Num.denom none = .ok none ∧ Num.toInt none = .ok none ∧
    Num.floor none = .ok none ∧ Num.ceil none = .ok none ∧ Num.round none = .ok none ∧
    Num.sign none = .ok none := by
  have hc := compare_nil
  refine ⟨binop_nil _ (fun y => by cases y <;> rfl) (fun v => by cases v <;> rfl) x y,
    binop_nil _ (fun y => by cases y <;> rfl) (fun v => by cases v <;> rfl) x y,
    binop_nil _ (fun y => by cases y <;> rfl) (fun v => by cases v <;> rfl) x y,
    binop_nil _ (fun y => by cases y <;> rfl) (fun v => by cases v <;> rfl) x y,
    hc x y,
    binop_nil _ (fun y => by cases y <;> rfl) (fun v => by cases v <;> rfl) x y,
    binop_nil _ (fun y => by cases y <;> rfl) (fun v => by cases v <;> rfl) x y,
    ⟨?_, ?_, ?_⟩,
    ⟨by simp [Num.eqQ, (hc x y).1], by simp [Num.eqQ, (hc x y).2]⟩,
    ⟨by simp [Num.ltQ, (hc x y).1], by simp [Num.ltQ, (hc x y).2]⟩,
    ⟨by simp [Num.leQ, (hc x y).1], by simp [Num.leQ, (hc x y).2]⟩,
    ⟨by simp [Num.gtQ, (hc x y).1], by simp [Num.gtQ, (hc x y).2]⟩,
    ⟨by simp [Num.geQ, (hc x y).1], by simp [Num.geQ, (hc x y).2]⟩,
    rfl, rfl, rfl, rfl, rfl, rfl, rfl, rfl, rfl, ?_⟩
  · cases x <;> cases y <;> rfl
  · cases x <;> cases y <;> rfl
  · cases x <;> cases y <;> rfl
  · exact (hc none (some (.int 0))).1

/-! ### canonical forms are unique -/

/-- Two canonical numbers of the same kind denoting the same element are identical. -/
theorem canon_unique (x y : Num) (hx : Canon x) (hy : Canon y) (hk : kind x = kind y)
    (he : toQsqrt x = toQsqrt y) : x = y := by
  cases x with
  | int a =>
    cases y with
    | int b => simp [toQsqrt] at he; rw [he]
    | rat c d => simp [kind] at hk
    | surd a b n => simp [kind] at hk
  | rat a b =>
    cases y with
    | int c => simp [kind] at hk
    | rat c d =>
      simp only [toQsqrt, Prod.mk.injEq, and_true] at he
      have := rat_unique hx.1 hx.2 hy.1 hy.2 he
      rw [this.1, this.2]
    | surd a b n => simp [kind] at hk
  | surd a b n =>
    cases y with
    | int c => simp [kind] at hk
    | rat c d => simp [kind] at hk
    | surd a' b' n' =>
      simp only [toQsqrt, Prod.mk.injEq] at he
      obtain ⟨ha, hb, _, hn, _⟩ := hx
      obtain ⟨ha', hb', _, hn', _⟩ := hy
      have e1 := coeff_unique ha ha' he.1
      have e2 := coeff_unique hb hb' he.2.1
      have e3 : n = n' := by have := he.2.2; omega
      rw [e1, e2, e3]


/-! ### headline statements about `reduce` -/

/-- `reduce` returns the canonical form: positive denominator, lowest terms, same value. -/
theorem reduce_canon (n d : Int) (hd : d ≠ 0) :
    ∃ z, reduce ⟨n, d⟩ = .ok z ∧ 0 < z.d ∧ Int.gcd z.n z.d = 1 ∧ z.toQ = (n : ℚ) / (d : ℚ) := by
  obtain ⟨z, h1, h2, h3⟩ := reduce_spec (n := n) hd
  exact ⟨z, h1, h2.1, h2.2, h3⟩

/-- the loop in `reduce` (self tail call after sign normalisation) never runs out of fuel:
it terminates on every input, canonical or not -/
theorem reduce_never_fuelOut (r : Rt) : reduce r ≠ .fuelOut := by
  obtain ⟨n, d⟩ := r
  by_cases hd : d = 0
  · subst hd
    by_cases hn : n = 0
    · subst hn; decide
    · have hg : |n| ≠ 0 := by simpa using hn
      simp [reduce, reduceF, cmp_eq_neg_one, iDiv_eq hg]
  · rw [reduce_eq hd]; simp

/-- outside the domain the builtin error stays an error: `Rational[0, 0]` divides by a zero gcd -/
theorem reduce_zero_zero : reduce ⟨0, 0⟩ = .err .invalidArgument := by decide

example : reduce ⟨6, -4⟩ = .ok ⟨-3, 2⟩ := by decide
example : Num.add (some (.rat 1 2)) (some (.int 3)) = .ok (some (.rat 7 2)) := by decide
example : Num.div (some (.int 1)) (some (.int 0)) = .ok none := by decide
example : Canon (.rat 7 2) := by unfold Canon; decide
example : ¬ isSurd (.rat 7 2) := by simp [isSurd]

end C20
