import QuiverModel.Lemmas.Num.Kernel
import QuiverModel.Lemmas.Num.Surd
import QuiverModel.Lemmas.Num.Round
import Mathlib.Tactic.LinearCombination
import Mathlib.Data.Rat.Cast.Order
/-
C20 — the num module computes exactly and propagates absence.
Property theorems about M-Num (`QuiverModel.Core.Num`, the hand translation of std/num.qv that the
driver `qm_c20` executes). Semantics `toQ` / `toQsqrt`, canonical form `Canon`: see
`QuiverModel.Lemmas.Num.Kernel`.
-/
open QM QM.Num QM.Builtins

namespace C20

/-- every op of the integer / rational fragment: result exists, is canonical, exact, and of the
kind the module header promises (int ∘ int = int; otherwise a rational, never lowered) -/
def ArithSpec (op : Option Num → Option Num → Res (Option Num)) (f : ℚ → ℚ → ℚ) : Prop :=
  ∀ x y : Num, Canon x → Canon y → ¬ isSurd x → ¬ isSurd y →
    ∃ z, op (some x) (some y) = .ok (some z) ∧ Canon z ∧ toQ z = f (toQ x) (toQ y) ∧
      (isInt x ∧ isInt y → isInt z) ∧ (¬ (isInt x ∧ isInt y) → isRat z)

theorem add_spec : ArithSpec add (· + ·) := by
  intro x y hx hy nx ny
  cases x with
  | surd a b n => exact absurd trivial nx
  | int a =>
    cases y with
    | surd a b n => exact absurd trivial ny
    | int b => exact ⟨.int (a + b), by simp [add], trivial, by simp [toQ], fun _ => trivial, fun h => absurd ⟨trivial, trivial⟩ h⟩
    | rat c d =>
      obtain ⟨z, h1, h2, h3⟩ := radd_spec (x := toRational (.int a)) (y := ⟨c, d⟩) (by simp [toRational]) (ne_of_gt hy.1)
      exact ⟨z.toNum, by simp [add, h1], h2, by rw [toNum_toQ, h3]; simp [toQ, toRational, QM.Num.Rt.toQ], fun h => absurd h.2 (by simp [isInt]), fun _ => trivial⟩
  | rat a b =>
    cases y with
    | surd a b n => exact absurd trivial ny
    | int c =>
      obtain ⟨z, h1, h2, h3⟩ := radd_spec (x := ⟨a, b⟩) (y := toRational (.int c)) (ne_of_gt hx.1) (by simp [toRational])
      exact ⟨z.toNum, by simp [add, h1], h2, by rw [toNum_toQ, h3]; simp [toQ, toRational, QM.Num.Rt.toQ], fun h => absurd h.1 (by simp [isInt]), fun _ => trivial⟩
    | rat c d =>
      obtain ⟨z, h1, h2, h3⟩ := radd_spec (x := ⟨a, b⟩) (y := ⟨c, d⟩) (ne_of_gt hx.1) (ne_of_gt hy.1)
      exact ⟨z.toNum, by simp [add, toRational, h1], h2, by rw [toNum_toQ, h3]; simp [toQ, QM.Num.Rt.toQ], fun h => absurd h.1 (by simp [isInt]), fun _ => trivial⟩

theorem sub_spec : ArithSpec sub (· - ·) := by
  intro x y hx hy nx ny
  cases x with
  | surd a b n => exact absurd trivial nx
  | int a =>
    cases y with
    | surd a b n => exact absurd trivial ny
    | int b => exact ⟨.int (a - b), by simp [sub], trivial, by simp [toQ], fun _ => trivial, fun h => absurd ⟨trivial, trivial⟩ h⟩
    | rat c d =>
      obtain ⟨z, h1, h2, h3⟩ := rsub_spec (x := toRational (.int a)) (y := ⟨c, d⟩) (by simp [toRational]) (ne_of_gt hy.1)
      exact ⟨z.toNum, by simp [sub, h1], h2, by rw [toNum_toQ, h3]; simp [toQ, toRational, QM.Num.Rt.toQ], fun h => absurd h.2 (by simp [isInt]), fun _ => trivial⟩
  | rat a b =>
    cases y with
    | surd a b n => exact absurd trivial ny
    | int c =>
      obtain ⟨z, h1, h2, h3⟩ := rsub_spec (x := ⟨a, b⟩) (y := toRational (.int c)) (ne_of_gt hx.1) (by simp [toRational])
      exact ⟨z.toNum, by simp [sub, h1], h2, by rw [toNum_toQ, h3]; simp [toQ, toRational, QM.Num.Rt.toQ], fun h => absurd h.1 (by simp [isInt]), fun _ => trivial⟩
    | rat c d =>
      obtain ⟨z, h1, h2, h3⟩ := rsub_spec (x := ⟨a, b⟩) (y := ⟨c, d⟩) (ne_of_gt hx.1) (ne_of_gt hy.1)
      exact ⟨z.toNum, by simp [sub, toRational, h1], h2, by rw [toNum_toQ, h3]; simp [toQ, QM.Num.Rt.toQ], fun h => absurd h.1 (by simp [isInt]), fun _ => trivial⟩

theorem mul_spec : ArithSpec mul (· * ·) := by
  intro x y hx hy nx ny
  cases x with
  | surd a b n => exact absurd trivial nx
  | int a =>
    cases y with
    | surd a b n => exact absurd trivial ny
    | int b => exact ⟨.int (a * b), by simp [mul], trivial, by simp [toQ], fun _ => trivial, fun h => absurd ⟨trivial, trivial⟩ h⟩
    | rat c d =>
      obtain ⟨z, h1, h2, h3⟩ := rmul_spec (x := toRational (.int a)) (y := ⟨c, d⟩) (by simp [toRational]) (ne_of_gt hy.1)
      exact ⟨z.toNum, by simp [mul, h1], h2, by rw [toNum_toQ, h3]; simp [toQ, toRational, QM.Num.Rt.toQ], fun h => absurd h.2 (by simp [isInt]), fun _ => trivial⟩
  | rat a b =>
    cases y with
    | surd a b n => exact absurd trivial ny
    | int c =>
      obtain ⟨z, h1, h2, h3⟩ := rmul_spec (x := ⟨a, b⟩) (y := toRational (.int c)) (ne_of_gt hx.1) (by simp [toRational])
      exact ⟨z.toNum, by simp [mul, h1], h2, by rw [toNum_toQ, h3]; simp [toQ, toRational, QM.Num.Rt.toQ], fun h => absurd h.1 (by simp [isInt]), fun _ => trivial⟩
    | rat c d =>
      obtain ⟨z, h1, h2, h3⟩ := rmul_spec (x := ⟨a, b⟩) (y := ⟨c, d⟩) (ne_of_gt hx.1) (ne_of_gt hy.1)
      exact ⟨z.toNum, by simp [mul, toRational, h1], h2, by rw [toNum_toQ, h3]; simp [toQ, QM.Num.Rt.toQ], fun h => absurd h.1 (by simp [isInt]), fun _ => trivial⟩


/-! ### division -/

/-- Division: by zero → nil; otherwise exact, canonical and always a rational. -/
theorem div_spec (x y : Num) (hx : Canon x) (hy : Canon y) (nx : ¬ isSurd x) (ny : ¬ isSurd y) :
    (toQ y = 0 → div (some x) (some y) = .ok none) ∧
    (toQ y ≠ 0 → ∃ z, div (some x) (some y) = .ok (some z) ∧ Canon z ∧ isRat z ∧
        toQ z = toQ x / toQ y) := by
  have hxd := coeffOf_d_pos x hx nx
  have hyd := coeffOf_d_pos y hy ny
  have hs := divCoeff_spec (coeffOf x) (coeffOf y) (ne_of_gt hxd) (ne_of_gt hyd)
  have hyq : ((toRational (coeffOf y)).d : ℚ) ≠ 0 := by exact_mod_cast (ne_of_gt hyd)
  have hzero : toQ y = 0 ↔ (toRational (coeffOf y)).n = 0 := by
    rw [← toQ_coeffOf y ny]; unfold QM.Num.Rt.toQ
    rw [div_eq_zero_iff]
    constructor
    · rintro (h | h)
      · exact_mod_cast h
      · exact absurd h hyq
    · intro h; left; exact_mod_cast h
  rw [div_eq_divCoeff x y nx ny]
  constructor
  · intro h; exact hs.1 (hzero.mp h)
  · intro h
    obtain ⟨z, h1, h2, h3⟩ := hs.2 (fun hc => h (hzero.mpr hc))
    exact ⟨z.toNum, h1, h2, trivial, by rw [toNum_toQ, h3, toQ_coeffOf x nx, toQ_coeffOf y ny]⟩

/-! ### comparison -/

theorem compare_spec (x y : Num) (hx : Canon x) (hy : Canon y) (nx : ¬ isSurd x) (ny : ¬ isSurd y) :
    Num.compare (some x) (some y) = .ok (some (sgnQ (toQ x - toQ y))) := by
  cases x with
  | surd a b n => exact absurd trivial nx
  | int a =>
    cases y with
    | surd a b n => exact absurd trivial ny
    | int b => simp [Num.compare, toQ, cmp_cast_sub]
    | rat c d =>
      have := rcompare_spec ⟨a, 1⟩ ⟨c, d⟩ (by simp) hy.1
      simp [Num.compare, this, toQ, toRational, QM.Num.Rt.toQ]
  | rat a b =>
    cases y with
    | surd a b n => exact absurd trivial ny
    | int c =>
      have := rcompare_spec ⟨a, b⟩ ⟨c, 1⟩ hx.1 (by simp)
      simp [Num.compare, this, toQ, toRational, QM.Num.Rt.toQ]
    | rat c d =>
      have := rcompare_spec ⟨a, b⟩ ⟨c, d⟩ hx.1 hy.1
      simp [Num.compare, this, toQ, toRational, QM.Num.Rt.toQ]

/-! ### absence propagates -/

theorem compare_nil (x y : Option Num) :
    Num.compare none y = .ok none ∧ Num.compare x none = .ok none :=
  binop_nil Num.compare (fun y => by cases y <;> rfl) (fun v => by cases v <;> rfl) x y

/-- Every operation of the exported record (and `compare`) with a nil operand evaluates to nil —
an `ok none`, never an error outcome. -/
theorem nil_propagates (x y : Option Num) :
    (Num.add none y = .ok none ∧ Num.add x none = .ok none) ∧
    (Num.sub none y = .ok none ∧ Num.sub x none = .ok none) ∧
    (Num.mul none y = .ok none ∧ Num.mul x none = .ok none) ∧
    (Num.div none y = .ok none ∧ Num.div x none = .ok none) ∧
    (Num.compare none y = .ok none ∧ Num.compare x none = .ok none) ∧
    (Num.min none y = .ok none ∧ Num.min x none = .ok none) ∧
    (Num.max none y = .ok none ∧ Num.max x none = .ok none) ∧
    (Num.clamp none x y = .ok none ∧ Num.clamp x none y = .ok none ∧ Num.clamp x y none = .ok none) ∧
    (Num.eqQ none y = .ok none ∧ Num.eqQ x none = .ok none) ∧
    (Num.ltQ none y = .ok none ∧ Num.ltQ x none = .ok none) ∧
    (Num.leQ none y = .ok none ∧ Num.leQ x none = .ok none) ∧
    (Num.gtQ none y = .ok none ∧ Num.gtQ x none = .ok none) ∧
    (Num.geQ none y = .ok none ∧ Num.geQ x none = .ok none) ∧
    Num.neg none = .ok none ∧ Num.abs none = .ok none ∧ Num.sqrt none = .ok none ∧
    Num.numer none = .ok none ∧ Num.denom none = .ok none ∧ Num.toInt none = .ok none ∧
    Num.floor none = .ok none ∧ Num.ceil none = .ok none ∧ Num.round none = .ok none ∧
    Num.sign none = .ok none := by
  have hc := compare_nil
  refine ⟨binop_nil _ (fun y => by cases y <;> rfl) (fun v => by cases v <;> rfl) x y,
    binop_nil _ (fun y => by cases y <;> rfl) (fun v => by cases v <;> rfl) x y,
    binop_nil _ (fun y => by cases y <;> rfl) (fun v => by cases v <;> rfl) x y,
    binop_nil _ (fun y => by cases y <;> rfl) (fun v => by cases v <;> rfl) x y,
    hc x y,
    binop_nil _ (fun y => by cases y <;> rfl) (fun v => by cases v <;> rfl) x y,
    binop_nil _ (fun y => by cases y <;> rfl) (fun v => by cases v <;> rfl) x y,
    ⟨?_, ?_, ?_⟩,
    ⟨by simp [Num.eqQ, (hc x y).1], by simp [Num.eqQ, (hc x y).2]⟩,
    ⟨by simp [Num.ltQ, (hc x y).1], by simp [Num.ltQ, (hc x y).2]⟩,
    ⟨by simp [Num.leQ, (hc x y).1], by simp [Num.leQ, (hc x y).2]⟩,
    ⟨by simp [Num.gtQ, (hc x y).1], by simp [Num.gtQ, (hc x y).2]⟩,
    ⟨by simp [Num.geQ, (hc x y).1], by simp [Num.geQ, (hc x y).2]⟩,
    rfl, rfl, rfl, rfl, rfl, rfl, rfl, rfl, rfl, ?_⟩
  · cases x <;> cases y <;> rfl
  · cases x <;> cases y <;> rfl
  · cases x <;> cases y <;> rfl
  · exact (hc none (some (.int 0))).1

/-! ### canonical forms are unique -/

/-- Two canonical numbers of the same kind denoting the same element are identical. -/
theorem canon_unique (x y : Num) (hx : Canon x) (hy : Canon y) (hk : kind x = kind y)
    (he : toQsqrt x = toQsqrt y) : x = y := by
  cases x with
  | int a =>
    cases y with
    | int b => simp [toQsqrt] at he; rw [he]
    | rat c d => simp [kind] at hk
    | surd a b n => simp [kind] at hk
  | rat a b =>
    cases y with
    | int c => simp [kind] at hk
    | rat c d =>
      simp only [toQsqrt, Prod.mk.injEq, and_true] at he
      have := rat_unique hx.1 hx.2 hy.1 hy.2 he
      rw [this.1, this.2]
    | surd a b n => simp [kind] at hk
  | surd a b n =>
    cases y with
    | int c => simp [kind] at hk
    | rat c d => simp [kind] at hk
    | surd a' b' n' =>
      simp only [toQsqrt, Prod.mk.injEq] at he
      obtain ⟨ha, hb, _, hn, _⟩ := hx
      obtain ⟨ha', hb', _, hn', _⟩ := hy
      have e1 := coeff_unique ha ha' he.1
      have e2 := coeff_unique hb hb' he.2.1
      have e3 : n = n' := by have := he.2.2; omega
      rw [e1, e2, e3]


/-! ### headline statements about `reduce` -/

/-- `reduce` returns the canonical form: positive denominator, lowest terms, same value. -/
theorem reduce_canon (n d : Int) (hd : d ≠ 0) :
    ∃ z, reduce ⟨n, d⟩ = .ok z ∧ 0 < z.d ∧ Int.gcd z.n z.d = 1 ∧ z.toQ = (n : ℚ) / (d : ℚ) := by
  obtain ⟨z, h1, h2, h3⟩ := reduce_spec (n := n) hd
  exact ⟨z, h1, h2.1, h2.2, h3⟩

/-- the loop in `reduce` (self tail call after sign normalisation) never runs out of fuel:
it terminates on every input, canonical or not -/
theorem reduce_never_fuelOut (r : Rt) : reduce r ≠ .fuelOut := by
  obtain ⟨n, d⟩ := r
  by_cases hd : d = 0
  · subst hd
    by_cases hn : n = 0
    · subst hn; decide
    · have hg : |n| ≠ 0 := by simpa using hn
      simp [reduce, reduceF, cmp_eq_neg_one, iDiv_eq hg]
  · rw [reduce_eq hd]; simp

/-- outside the domain the builtin error stays an error: `Rational[0, 0]` divides by a zero gcd -/
theorem reduce_zero_zero : reduce ⟨0, 0⟩ = .err .invalidArgument := by decide

example : reduce ⟨6, -4⟩ = .ok ⟨-3, 2⟩ := by decide
example : Num.add (some (.rat 1 2)) (some (.int 3)) = .ok (some (.rat 7 2)) := by decide
example : Num.div (some (.int 1)) (some (.int 0)) = .ok none := by decide
example : Canon (.rat 7 2) := by unfold Canon; decide
example : ¬ isSurd (.rat 7 2) := by simp [isSurd]

/-! ### square-free decomposition (`sqfree`) -/

/-- `[1, n, 2] sqfree` for `n > 0`: terminates (the fuel of the model is never exhausted) and returns
`[k, m]` with `k²·m = n`, `k > 0`, `m` positive and square-free. -/
theorem sqfree_spec (n : Int) (hn : 0 < n) :
    ∃ k m, sqfree 1 n 2 = .ok (k, m) ∧ k * k * m = n ∧ 0 < k ∧ 0 < m ∧ SqFree m := by
  obtain ⟨k, m, h1, h2, h3, h4, h5⟩ := sqfreeF_spec (n.toNat + 2) 1 n 2 (by omega) hn
    (fun e he hed => by omega) (by omega)
  exact ⟨k, m, h1, by rw [h2]; ring, h5 (by omega), h3, h4⟩

/-- the trial-division loop terminates on every input (called as `[1, n, 2] sqfree`) -/
theorem sqfree_terminates (n : Int) : ∃ k m, sqfree 1 n 2 = .ok (k, m) := by
  by_cases hn : 0 < n
  · obtain ⟨k, m, h, _⟩ := sqfree_spec n hn; exact ⟨k, m, h⟩
  · refine ⟨1, n, ?_⟩
    have : n < 4 := by omega
    simp [sqfree, sqfreeF, cmp_eq_one, this]

example : sqfree 1 72 2 = .ok (6, 2) := by decide

/-! ### truncation, floor, ceiling, rounding (integers and rationals) -/

theorem toInt_spec (x : Num) (hx : Canon x) (nx : ¬ isSurd x) :
    ∃ t, Num.toInt (some x) = .ok (some t) ∧ IsTrunc t (toQ x) := by
  cases x with
  | surd a b n => exact absurd trivial nx
  | int z =>
    refine ⟨z, by simp [Num.toInt, toRational, iDiv_eq (show (1 : Int) ≠ 0 by decide)], ?_⟩
    unfold IsTrunc toQ; constructor <;> intro _ <;> constructor <;> linarith
  | rat n d =>
    refine ⟨n.tdiv d, by simp [Num.toInt, toRational, iDiv_eq (ne_of_gt hx.1)], ?_⟩
    exact tdiv_isTrunc n d hx.1

/-- `floor`: the greatest integer ≤ x -/
theorem floor_spec (x : Num) (hx : Canon x) (nx : ¬ isSurd x) :
    ∃ f, Num.floor (some x) = .ok (some f) ∧ (f : ℚ) ≤ toQ x ∧ toQ x < f + 1 := by
  obtain ⟨t, ht, htr⟩ := toInt_spec x hx nx
  have hc := compare_spec x (.int t) hx (canon_int t) nx (not_surd_int t)
  by_cases hlt : toQ x < t
  · refine ⟨t - 1, ?_, ?_⟩
    · have : sgnQ (toQ x - toQ (.int t)) = -1 := by rw [sgnQ_lt_zero, toQ_int]; linarith
      simp [Num.floor, ht, hc, this]
    · have hneg : toQ x ≤ 0 := by
        by_contra h
        have := (htr.1 (le_of_lt (not_le.mp h))).1; linarith
      have := htr.2 hneg
      push_cast; constructor <;> linarith
  · refine ⟨t, ?_, ?_⟩
    · have : sgnQ (toQ x - toQ (.int t)) ≠ -1 := by rw [Ne, sgnQ_lt_zero, toQ_int]; linarith
      simp [Num.floor, ht, hc, this]
    · have hge : (t : ℚ) ≤ toQ x := not_lt.mp hlt
      refine ⟨hge, ?_⟩
      by_cases h0 : 0 ≤ toQ x
      · exact (htr.1 h0).2
      · have := (htr.2 (le_of_lt (not_le.mp h0))).2; linarith

/-- `ceil`: the least integer ≥ x -/
theorem ceil_spec (x : Num) (hx : Canon x) (nx : ¬ isSurd x) :
    ∃ c, Num.ceil (some x) = .ok (some c) ∧ (c : ℚ) - 1 < toQ x ∧ toQ x ≤ c := by
  obtain ⟨t, ht, htr⟩ := toInt_spec x hx nx
  have hc := compare_spec x (.int t) hx (canon_int t) nx (not_surd_int t)
  by_cases hgt : (t : ℚ) < toQ x
  · refine ⟨t + 1, ?_, ?_⟩
    · have : sgnQ (toQ x - toQ (.int t)) = 1 := by rw [sgnQ_pos, toQ_int]; linarith
      simp [Num.ceil, ht, hc, this]
    · have hpos : 0 ≤ toQ x := by
        by_contra h
        have := (htr.2 (le_of_lt (not_le.mp h))).2; linarith
      have := htr.1 hpos
      push_cast; constructor <;> linarith
  · refine ⟨t, ?_, ?_⟩
    · have : sgnQ (toQ x - toQ (.int t)) ≠ 1 := by rw [Ne, sgnQ_pos, toQ_int]; linarith
      simp [Num.ceil, ht, hc, this]
    · have hle : toQ x ≤ t := not_lt.mp hgt
      refine ⟨?_, hle⟩
      by_cases h0 : toQ x ≤ 0
      · exact (htr.2 h0).1
      · have := (htr.1 (le_of_lt (not_le.mp h0))).1; linarith

/-- `round`: nearest integer, halves away from zero -/
theorem round_spec (x : Num) (hx : Canon x) (nx : ¬ isSurd x) :
    ∃ r, Num.round (some x) = .ok (some r) ∧ (r : ℚ) - 1 / 2 ≤ toQ x ∧ toQ x ≤ r + 1 / 2 ∧
      (toQ x = r - 1 / 2 → 0 < toQ x) ∧ (toQ x = r + 1 / 2 → toQ x < 0) := by
  obtain ⟨f, hf, hf1, hf2⟩ := floor_spec x hx nx
  have hc := compare_spec x (.rat (f * 2 + 1) 2) hx (canon_half f) nx (fun h => h)
  have hmid : toQ (.rat (f * 2 + 1) 2) = (f : ℚ) + 1 / 2 := by
    unfold toQ; push_cast; ring
  rw [hmid] at hc
  have hsg := sgnQ_cases (toQ x - ((f : ℚ) + 1 / 2))
  generalize sgnQ (toQ x - ((f : ℚ) + 1 / 2)) = s at hc hsg
  rcases lt_trichotomy (toQ x) ((f : ℚ) + 1 / 2) with h | h | h
  · have e : s = -1 := hsg.1.mpr (by linarith)
    refine ⟨f, by simp [Num.round, hf, hc, e], by linarith, by linarith, fun h' => by linarith, fun h' => by linarith⟩
  · have e : s = 0 := hsg.2.1.mpr (by linarith)
    by_cases hneg : f < 0
    · have hfq : (f : ℚ) ≤ -1 := by exact_mod_cast (show f ≤ -1 by omega)
      refine ⟨f, by simp [Num.round, hf, hc, e, cmp_eq_neg_one, hneg], by linarith, by linarith,
        fun h' => by linarith, fun _ => by linarith⟩
    · have hfq : (0 : ℚ) ≤ f := by exact_mod_cast (show 0 ≤ f by omega)
      refine ⟨f + 1, by simp [Num.round, hf, hc, e, cmp_eq_neg_one, hneg], by push_cast; linarith,
        by push_cast; linarith, fun _ => by linarith, fun h' => by push_cast at h'; linarith⟩
  · have e : s = 1 := hsg.2.2.mpr (by linarith)
    refine ⟨f + 1, by simp [Num.round, hf, hc, e], by push_cast; linarith, by push_cast; linarith,
      fun h' => by push_cast at h'; linarith, fun h' => by push_cast at h'; linarith⟩

/-- negation preserves kind and is exact -/
theorem neg_spec (x : Num) (hx : Canon x) (nx : ¬ isSurd x) :
    ∃ z, Num.neg (some x) = .ok (some z) ∧ Canon z ∧ toQ z = - toQ x ∧ kind z = kind x := by
  cases x with
  | surd a b n => exact absurd trivial nx
  | int z => exact ⟨.int (-z), by simp [Num.neg], trivial, by simp [toQ], rfl⟩
  | rat n d =>
    obtain ⟨z, h1, h2, h3⟩ := reduce_spec (n := -n) (ne_of_gt hx.1)
    refine ⟨z.toNum, by simp [Num.neg, h1], h2, ?_, rfl⟩
    rw [toNum_toQ, h3]; unfold toQ; push_cast; ring

/-- absolute value preserves kind and is exact -/
theorem abs_spec (x : Num) (hx : Canon x) (nx : ¬ isSurd x) :
    ∃ z, Num.abs (some x) = .ok (some z) ∧ Canon z ∧ toQ z = |toQ x| ∧ kind z = kind x := by
  cases x with
  | surd a b n => exact absurd trivial nx
  | int z => exact ⟨.int |z|, by simp [Num.abs], trivial, by simp [toQ], rfl⟩
  | rat n d =>
    refine ⟨.rat |n| d, by simp [Num.abs], ⟨hx.1, ?_⟩, ?_, rfl⟩
    · have := hx.2; simp only [Int.gcd, Int.natAbs_abs] at this ⊢; exact this
    · have hd : (0 : ℚ) < d := by exact_mod_cast hx.1
      unfold toQ; rw [abs_div, abs_of_pos hd]; push_cast; rfl

/-! ### order-derived operations -/

theorem min_spec (x y : Num) (hx : Canon x) (hy : Canon y) (nx : ¬ isSurd x) (ny : ¬ isSurd y) :
    Num.min (some x) (some y) = .ok (some (if toQ y < toQ x then y else x)) := by
  simp only [Num.min, compare_spec x y hx hy nx ny, ok_bind, sgnQ_sub_one, pure_eq]
  split <;> rfl

theorem max_spec (x y : Num) (hx : Canon x) (hy : Canon y) (nx : ¬ isSurd x) (ny : ¬ isSurd y) :
    Num.max (some x) (some y) = .ok (some (if toQ x < toQ y then y else x)) := by
  simp only [Num.max, compare_spec x y hx hy nx ny, ok_bind, sgnQ_sub_neg_one, pure_eq]
  split <;> rfl

theorem clamp_spec (x lo hi : Num) (hx : Canon x) (hl : Canon lo) (hh : Canon hi)
    (nx : ¬ isSurd x) (nl : ¬ isSurd lo) (nh : ¬ isSurd hi) :
    Num.clamp (some x) (some lo) (some hi) =
      .ok (some (if toQ x < toQ lo then lo else if toQ hi < toQ x then hi else x)) := by
  simp only [Num.clamp, compare_spec x lo hx hl nx nl, compare_spec x hi hx hh nx nh, ok_bind,
    sgnQ_sub_one, sgnQ_sub_neg_one, pure_eq]
  split
  · rfl
  · split <;> rfl

theorem sign_spec (x : Num) (hx : Canon x) (nx : ¬ isSurd x) :
    Num.sign (some x) = .ok (some (sgnQ (toQ x))) := by
  have := compare_spec x (.int 0) hx trivial nx (fun h => h)
  simpa [Num.sign, toQ_int] using this

/-- the five predicates decide the order of ℚ (`some ()` is `Ok`, `none` is nil) -/
theorem predicates_spec (x y : Num) (hx : Canon x) (hy : Canon y) (nx : ¬ isSurd x) (ny : ¬ isSurd y) :
    Num.eqQ (some x) (some y) = .ok (if toQ x = toQ y then some () else none) ∧
    Num.ltQ (some x) (some y) = .ok (if toQ x < toQ y then some () else none) ∧
    Num.leQ (some x) (some y) = .ok (if toQ x ≤ toQ y then some () else none) ∧
    Num.gtQ (some x) (some y) = .ok (if toQ y < toQ x then some () else none) ∧
    Num.geQ (some x) (some y) = .ok (if toQ y ≤ toQ x then some () else none) := by
  have hc := compare_spec x y hx hy nx ny
  rcases lt_trichotomy (toQ x) (toQ y) with h | h | h
  · have e : sgnQ (toQ x - toQ y) = -1 := sgnQ_sub_neg_one.mpr h
    simp [Num.eqQ, Num.ltQ, Num.leQ, Num.gtQ, Num.geQ, hc, e, h, ne_of_lt h, le_of_lt h, not_lt.mpr (le_of_lt h), not_le.mpr h]
  · have e : sgnQ (toQ x - toQ y) = 0 := sgnQ_sub_zero.mpr h
    simp only [Num.eqQ, Num.ltQ, Num.leQ, Num.gtQ, Num.geQ, hc, e, ok_bind, pure_eq]
    simp [h]
  · have e : sgnQ (toQ x - toQ y) = 1 := sgnQ_sub_one.mpr h
    simp [Num.eqQ, Num.ltQ, Num.leQ, Num.gtQ, Num.geQ, hc, e, h, ne_of_gt h, le_of_lt h, not_lt.mpr (le_of_lt h), not_le.mpr h]

/-- `numer` / `denom` are numerator and denominator of the value in lowest terms -/
theorem numer_denom_spec (x : Num) (hx : Canon x) (nx : ¬ isSurd x) :
    Num.numer (some x) = .ok (some (toQ x).num) ∧ Num.denom (some x) = .ok (some ((toQ x).den : Int)) := by
  cases x with
  | surd a b n => exact absurd trivial nx
  | int z => simp [Num.numer, Num.denom, toQ]
  | rat n d =>
    have h1 := Rat.num_div_eq_of_coprime hx.1 hx.2
    have h2 := Rat.den_div_eq_of_coprime hx.1 hx.2
    simp only [Num.numer, Num.denom, toQ, h1, h2, pure_eq, and_self]



/-! ### surds: exactness in ℚ(√n), incompatible radicals -/

theorem not_compatible_surds {x y : Num} (hx : Canon x) (hy : Canon y) (hc : ¬ Compatible x y) :
    isSurd x ∧ isSurd y := by
  unfold Compatible at hc
  have h1 := (not_or.mp hc).1
  have h2 := (not_or.mp (not_or.mp hc).2).1
  constructor
  · by_contra h; exact h1 ((explode_spec x hx).2.2.2.2.2 h)
  · by_contra h; exact h2 ((explode_spec y hy).2.2.2.2.2 h)

/-- `(a₁ + b₁√n) + (a₂ + b₂√n) = (a₁ + a₂) + (b₁ + b₂)√n`, in simplest canonical form -/
theorem surd_add_exact (x y : Num) (hx : Canon x) (hy : Canon y) (hs : isSurd x ∨ isSurd y)
    (hc : Compatible x y) :
    ∃ z, Num.add (some x) (some y) = .ok (some z) ∧ Canon z ∧
      Denotes z (qa x + qa y) (qb x + qb y) (sharedRadical x y) := by
  rw [add_surd_eq x y hs]; exact (surdAdd_spec x y hx hy hs).2 hc

theorem surd_sub_exact (x y : Num) (hx : Canon x) (hy : Canon y) (hs : isSurd x ∨ isSurd y)
    (hc : Compatible x y) :
    ∃ z, Num.sub (some x) (some y) = .ok (some z) ∧ Canon z ∧
      Denotes z (qa x - qa y) (qb x - qb y) (sharedRadical x y) := by
  rw [sub_surd_eq x y hs]; exact (surdSub_spec x y hx hy hs).2 hc

/-- `(a₁ + b₁√n)(a₂ + b₂√n) = (a₁a₂ + b₁b₂·n) + (a₁b₂ + a₂b₁)√n` -/
theorem surd_mul_exact (x y : Num) (hx : Canon x) (hy : Canon y) (hs : isSurd x ∨ isSurd y)
    (hc : Compatible x y) :
    ∃ z, Num.mul (some x) (some y) = .ok (some z) ∧ Canon z ∧
      Denotes z (qa x * qa y + qb x * qb y * (sharedRadical x y : ℚ)) (qa x * qb y + qa y * qb x)
        (sharedRadical x y) := by
  rw [mul_surd_eq x y hs]; exact (surdMul_spec x y hx hy hs).2 hc

/-- division: nil when the norm of the divisor vanishes, otherwise the exact quotient -/
theorem surd_div_exact (x y : Num) (hx : Canon x) (hy : Canon y) (hs : isSurd x ∨ isSurd y)
    (hc : Compatible x y) :
    (qa y * qa y - qb y * qb y * (sharedRadical x y : ℚ) = 0 → Num.div (some x) (some y) = .ok none) ∧
    (qa y * qa y - qb y * qb y * (sharedRadical x y : ℚ) ≠ 0 →
      ∃ z, Num.div (some x) (some y) = .ok (some z) ∧ Canon z ∧
        Denotes z
          ((qa x * qa y - qb x * qb y * (sharedRadical x y : ℚ)) /
            (qa y * qa y - qb y * qb y * (sharedRadical x y : ℚ)))
          ((qb x * qa y - qa x * qb y) / (qa y * qa y - qb y * qb y * (sharedRadical x y : ℚ)))
          (sharedRadical x y)) := by
  rw [div_surd_eq x y hs]; exact (surdDiv_spec x y hx hy hs).2 hc

/-- comparison involving a surd: the sign of the difference, decided by `surdSign` -/
theorem surd_compare_spec (x y : Num) (hx : Canon x) (hy : Canon y) (hs : isSurd x ∨ isSurd y)
    (hc : Compatible x y) :
    Num.compare (some x) (some y) =
      .ok (some (surdSign (qa x - qa y) (qb x - qb y) (sharedRadical x y))) := by
  rw [compare_surd_eq x y hs, surdCompare_spec x y hx hy]; simp [hc]

/-- Operands that carry different radicals: every binary operation is nil (an `ok none`,
not an error), and so are the order-derived operations. -/
theorem mixed_radicals_nil (x y : Num) (hx : Canon x) (hy : Canon y) (hc : ¬ Compatible x y) :
    Num.add (some x) (some y) = .ok none ∧ Num.sub (some x) (some y) = .ok none ∧
    Num.mul (some x) (some y) = .ok none ∧ Num.div (some x) (some y) = .ok none ∧
    Num.compare (some x) (some y) = .ok none ∧ Num.min (some x) (some y) = .ok none ∧
    Num.max (some x) (some y) = .ok none ∧ Num.eqQ (some x) (some y) = .ok none ∧
    Num.ltQ (some x) (some y) = .ok none ∧ Num.leQ (some x) (some y) = .ok none ∧
    Num.gtQ (some x) (some y) = .ok none ∧ Num.geQ (some x) (some y) = .ok none := by
  have hs : isSurd x ∨ isSurd y := Or.inl (not_compatible_surds hx hy hc).1
  have hcmp : Num.compare (some x) (some y) = .ok none := by
    rw [compare_surd_eq x y hs, surdCompare_spec x y hx hy]; simp [hc]
  refine ⟨?_, ?_, ?_, ?_, hcmp, ?_, ?_, ?_, ?_, ?_, ?_, ?_⟩
  · rw [add_surd_eq x y hs]; exact (surdAdd_spec x y hx hy hs).1 hc
  · rw [sub_surd_eq x y hs]; exact (surdSub_spec x y hx hy hs).1 hc
  · rw [mul_surd_eq x y hs]; exact (surdMul_spec x y hx hy hs).1 hc
  · rw [div_surd_eq x y hs]; exact (surdDiv_spec x y hx hy hs).1 hc
  all_goals simp [Num.min, Num.max, Num.eqQ, Num.ltQ, Num.leQ, Num.gtQ, Num.geQ, hcmp]

example : ¬ Compatible (.surd (.int 0) (.int 1) 2) (.surd (.int 0) (.int 1) 3) := by
  simp [Compatible, qb, rad, toQsqrt, coeffQ, toRational, QM.Num.Rt.toQ, explode]
example : Num.mul (some (.surd (.int 0) (.int 1) 2)) (some (.surd (.int 0) (.int 1) 3)) = .ok none := by decide
example : Num.mul (some (.surd (.int 0) (.int 1) 2)) (some (.surd (.int 0) (.int 1) 2)) = .ok (some (.int 2)) := by decide

/-! ### the ring ℚ(√n) behind the representation -/

/-- value of the pair `(a, b)` at a square root `r` of `n` in any field of characteristic 0 -/
def evalAt {K : Type} [Field K] (r : K) (a b : ℚ) : K := (a : K) + (b : K) * r

theorem qs_add_sound {K : Type} [Field K] [CharZero K] (r : K) (a1 b1 a2 b2 : ℚ) :
    evalAt r (a1 + a2) (b1 + b2) = evalAt r a1 b1 + evalAt r a2 b2 := by
  unfold evalAt; push_cast; ring

theorem qs_sub_sound {K : Type} [Field K] [CharZero K] (r : K) (a1 b1 a2 b2 : ℚ) :
    evalAt r (a1 - a2) (b1 - b2) = evalAt r a1 b1 - evalAt r a2 b2 := by
  unfold evalAt; push_cast; ring

/-- the multiplication formula of `surd_mul` is multiplication in `K` whenever `r² = n` -/
theorem qs_mul_sound {K : Type} [Field K] [CharZero K] (r : K) (n : Int) (hr : r * r = (n : K))
    (a1 b1 a2 b2 : ℚ) :
    evalAt r (a1 * a2 + b1 * b2 * (n : ℚ)) (a1 * b2 + a2 * b1) = evalAt r a1 b1 * evalAt r a2 b2 := by
  unfold evalAt; push_cast
  have : (b1 : K) * b2 * r * r = b1 * b2 * (n : K) := by rw [mul_assoc, hr]
  linear_combination -this

/-- the conjugate formula of `surd_div` is division in `K`: quotient times divisor = dividend -/
theorem qs_div_sound {K : Type} [Field K] [CharZero K] (r : K) (n : Int) (hr : r * r = (n : K))
    (a1 b1 a2 b2 : ℚ) (hnorm : a2 * a2 - b2 * b2 * (n : ℚ) ≠ 0) :
    evalAt r ((a1 * a2 - b1 * b2 * (n : ℚ)) / (a2 * a2 - b2 * b2 * (n : ℚ)))
        ((b1 * a2 - a1 * b2) / (a2 * a2 - b2 * b2 * (n : ℚ))) * evalAt r a2 b2 = evalAt r a1 b1 := by
  unfold evalAt
  have hK : ((a2 * a2 - b2 * b2 * (n : ℚ) : ℚ) : K) ≠ 0 := by exact_mod_cast hnorm
  push_cast at hK ⊢
  have hK' : (a2 : K) ^ 2 - (b2 : K) ^ 2 * (n : K) ≠ 0 := by simpa [sq] using hK
  have h2 : (r : K) ^ 2 = (n : K) := by rw [sq, hr]
  rw [← sq, ← sq] 
  field_simp
  linear_combination ((b1 : K) * a2 * b2 - a1 * b2 ^ 2) * h2



section
variable {K : Type} [Field K] [LinearOrder K] [IsStrictOrderedRing K]

theorem sgnQ_castK (q : ℚ) :
    (sgnQ q = 1 ↔ 0 < (q : K)) ∧ (sgnQ q = 0 ↔ (q : K) = 0) ∧ (sgnQ q = -1 ↔ (q : K) < 0) := by
  obtain ⟨h1, h2, h3⟩ := sgnQ_cases q
  refine ⟨h3.trans Rat.cast_pos.symm, h2.trans Rat.cast_eq_zero.symm, h1.trans Rat.cast_lt_zero.symm⟩

/-- sign of `v` from the sign of `v * p` with `p > 0` -/
theorem sign_of_mul_pos {v p w : K} (hp : 0 < p) (hw : w = v * p) :
    (0 < w ↔ 0 < v) ∧ (w = 0 ↔ v = 0) ∧ (w < 0 ↔ v < 0) := by
  subst hw
  refine ⟨⟨fun h => pos_of_mul_pos_left h (le_of_lt hp), fun h => mul_pos h hp⟩, ?_, ?_⟩
  · constructor
    · intro h; rcases mul_eq_zero.mp h with h | h
      · exact h
      · exact absurd h (ne_of_gt hp)
    · intro h; rw [h, zero_mul]
  · constructor
    · intro h; by_contra hc
      have := mul_nonneg (not_lt.mp hc) (le_of_lt hp); exact absurd h (not_lt.mpr this)
    · intro h; exact mul_neg_of_neg_of_pos h hp

/-- **ssign is the sign of `a + b·r`** for every positive square root `r` of `n` in an ordered
field (e.g. `r = √n` in ℝ): `surdSign` — the function `ssign` computes (`ssign_eq`) — answers 1, 0,
-1 exactly when the value is positive, zero, negative. No irrationality assumption is needed. -/
theorem surdSign_sound (A B : ℚ) (n : Int) (r : K) (hr0 : 0 < r) (hr : r * r = (n : K)) :
    (surdSign A B n = 1 ↔ 0 < (A : K) + (B : K) * r) ∧
    (surdSign A B n = 0 ↔ (A : K) + (B : K) * r = 0) ∧
    (surdSign A B n = -1 ↔ (A : K) + (B : K) * r < 0) := by
  unfold surdSign
  by_cases hB : B = 0
  · simp only [hB, if_true, Rat.cast_zero, zero_mul, add_zero]; exact sgnQ_castK A
  · simp only [hB, if_false]
    have hcast : ((A * A - B * B * (n : ℚ) : ℚ) : K) = ((A : K) + B * r) * ((A : K) - B * r) := by
      push_cast
      have : (B : K) * B * r * r = B * B * (n : K) := by rw [mul_assoc, hr]
      linear_combination this
    obtain ⟨s1, s0, sm⟩ := sgnQ_castK (K := K) (A * A - B * B * (n : ℚ))
    by_cases hBpos : 0 < B
    · have hBK : (0 : K) < B := Rat.cast_pos.mpr hBpos
      have hBr : 0 < (B : K) * r := mul_pos hBK hr0
      simp only [hBpos, if_true]
      by_cases hA : A < 0
      · have hAK : (A : K) < 0 := Rat.cast_lt_zero.mpr hA
        simp only [hA, if_true]
        -- value · (B r − A) = −(A² − B² n), and B r − A > 0
        have hp : 0 < (B : K) * r - A := by linarith
        have hw : -((A * A - B * B * (n : ℚ) : ℚ) : K) = ((A : K) + B * r) * ((B : K) * r - A) := by
          rw [hcast]; ring
        obtain ⟨p1, p0, pm⟩ := sign_of_mul_pos hp hw
        refine ⟨?_, ?_, ?_⟩
        · rw [← p1, neg_pos, ← sm]; constructor <;> intro h <;> omega
        · rw [← p0, neg_eq_zero, ← s0]; constructor <;> intro h <;> omega
        · rw [← pm, neg_lt_zero, ← s1]; constructor <;> intro h <;> omega
      · have hAK : (0 : K) ≤ A := Rat.cast_nonneg.mpr (not_lt.mp hA)
        simp only [hA, if_false]
        have : 0 < (A : K) + B * r := by linarith
        refine ⟨⟨fun _ => this, fun _ => trivial⟩, ⟨fun h => by omega, fun h => absurd h (ne_of_gt this)⟩,
          ⟨fun h => by omega, fun h => absurd h (not_lt.mpr (le_of_lt this))⟩⟩
    · have hBneg : B < 0 := lt_of_le_of_ne (not_lt.mp hBpos) hB
      have hBK : (B : K) < 0 := Rat.cast_lt_zero.mpr hBneg
      have hBr : (B : K) * r < 0 := mul_neg_of_neg_of_pos hBK hr0
      simp only [hBpos, if_false]
      by_cases hA : 0 < A
      · have hAK : (0 : K) < A := Rat.cast_pos.mpr hA
        simp only [hA, if_true]
        have hp : 0 < (A : K) - B * r := by linarith
        obtain ⟨p1, p0, pm⟩ := sign_of_mul_pos hp hcast
        exact ⟨s1.trans p1, s0.trans p0, sm.trans pm⟩
      · have hAK : (A : K) ≤ 0 := Rat.cast_nonpos.mpr (not_lt.mp hA)
        simp only [hA, if_false]
        have : (A : K) + B * r < 0 := by linarith
        refine ⟨⟨fun h => by omega, fun h => absurd h (not_lt.mpr (le_of_lt this))⟩,
          ⟨fun h => by omega, fun h => absurd h (ne_of_lt this)⟩, ⟨fun _ => this, fun _ => trivial⟩⟩
end



/-! ### literal desugaring (`parser.rs`) -/

theorem reduceRational_eq (n d : Int) (hd : 0 < d) :
    reduceRational n d = ((reduceP n d).n, (reduceP n d).d) := by
  have hg := gcd_ne_zero_of_right (n := n) (ne_of_gt hd)
  have hnl : ¬ d < 0 := by omega
  unfold reduceRational reduceP
  simp only [hnl, if_false]
  have : (Int.ofNat (Int.gcd n d)) = ((Int.gcd n d : ℕ) : ℤ) := rfl
  simp only [this, hg, if_false]

/-- `rational_term` on a positive denominator yields the canonical rational of the same value -/
theorem rationalTerm_spec (n d : Int) (hd : 0 < d) :
    ∃ n' d', rationalTerm (n, d) = .rat n' d' ∧ Canon (.rat n' d') ∧
      toQ (.rat n' d') = (n : ℚ) / (d : ℚ) := by
  obtain ⟨hc, hv⟩ := reduceP_spec (n := n) (ne_of_gt hd)
  refine ⟨(reduceP n d).n, (reduceP n d).d, ?_, hc, hv⟩
  simp [rationalTerm, reduceRational_eq n d hd]

theorem digitsVal_foldl (ds : List Nat) (acc : Nat) :
    ds.foldl (fun a d => a * 10 + d) acc = acc * 10 ^ ds.length + digitsVal ds := by
  induction ds generalizing acc with
  | nil => simp [digitsVal]
  | cons d ds ih =>
    simp only [List.foldl_cons, List.length_cons, digitsVal]
    rw [ih, ih (0 * 10 + d)]; ring

/-- the digits before and after the point combine positionally -/
theorem digitsVal_append (ip fp : List Nat) :
    digitsVal (ip ++ fp) = digitsVal ip * 10 ^ fp.length + digitsVal fp := by
  unfold digitsVal; rw [List.foldl_append, digitsVal_foldl]; rfl

/-- A decimal literal `[-]i.f` desugars to the canonical `Rational` whose value is
`±(i + f / 10^|f|)`. -/
theorem decimal_literal_value (neg : Bool) (ip fp : List Nat) :
    ∃ n d, decimalLit neg ip fp = .rat n d ∧ Canon (.rat n d) ∧
      toQ (.rat n d) = (if neg then -1 else 1) *
        ((digitsVal ip : ℚ) + (digitsVal fp : ℚ) / (10 : ℚ) ^ fp.length) := by
  have hpow : (0 : Int) < (10 : Int) ^ fp.length := by positivity
  obtain ⟨n, d, h1, h2, h3⟩ := rationalTerm_spec (decimalParts neg ip fp).1 ((10 : Int) ^ fp.length) hpow
  refine ⟨n, d, ?_, h2, ?_⟩
  · rw [← h1]; rfl
  · rw [h3]
    have hp : ((10 : ℚ) ^ fp.length) ≠ 0 := by positivity
    cases neg <;> simp [decimalParts, digitsVal_append] <;> field_simp

/-- A fraction literal `[-]p/q`: rejected when `q = 0`, otherwise the canonical `Rational` of
value `±p/q`. -/
theorem fraction_literal_value (neg : Bool) (np dp : List Nat) :
    (digitsVal dp = 0 → fractionLit neg np dp = none) ∧
    (digitsVal dp ≠ 0 → ∃ n d, fractionLit neg np dp = some (.rat n d) ∧ Canon (.rat n d) ∧
      toQ (.rat n d) = (if neg then -1 else 1) * ((digitsVal np : ℚ) / (digitsVal dp : ℚ))) := by
  constructor
  · intro h; simp [fractionLit, fractionParts, h]
  · intro h
    have hpos : (0 : Int) < Int.ofNat (digitsVal dp) := by
      have : 0 < digitsVal dp := Nat.pos_of_ne_zero h
      show (0 : Int) < ((digitsVal dp : ℕ) : ℤ)
      exact_mod_cast this
    have hne : (Int.ofNat (digitsVal dp)) ≠ 0 := ne_of_gt hpos
    obtain ⟨n, d, h1, h2, h3⟩ := rationalTerm_spec
      (if neg then -(Int.ofNat (digitsVal np)) else Int.ofNat (digitsVal np)) (Int.ofNat (digitsVal dp)) hpos
    refine ⟨n, d, ?_, h2, ?_⟩
    · simp only [fractionLit, fractionParts, hne, if_false, Option.map_some, h1]
    · rw [h3]; cases neg
      · simp
      · simp; ring

example : decimalLit true [1] [5, 0] = .rat (-3) 2 := by decide
example : fractionLit false [4] [2] = some (.rat 2 1) := by decide
example : fractionLit false [1] [0] = none := by decide



/-! ### field and order laws (corollaries of exactness + uniqueness of canonical forms) -/

theorem toQsqrt_of_not_surd {z : Num} (h : ¬ isSurd z) : toQsqrt z = (toQ z, 0, 1) := by
  cases z <;> first | rfl | exact absurd trivial h

theorem kind_of_isInt {z : Num} (h : isInt z) : kind z = 0 := by
  cases z <;> first | rfl | exact absurd h (fun h => h)
theorem kind_of_isRat {z : Num} (h : isRat z) : kind z = 1 := by
  cases z <;> first | rfl | exact absurd h (fun h => h)
theorem not_surd_of_isInt {z : Num} (h : isInt z) : ¬ isSurd z := by
  cases z <;> first | exact (fun h => h) | exact absurd h (fun h => h)
theorem not_surd_of_isRat {z : Num} (h : isRat z) : ¬ isSurd z := by
  cases z <;> first | exact (fun h => h) | exact absurd h (fun h => h)

/-- a spec'd result: its kind and that it is no surd -/
theorem result_kind {x y z : Num} (h1 : isInt x ∧ isInt y → isInt z) (h2 : ¬ (isInt x ∧ isInt y) → isRat z) :
    ¬ isSurd z ∧ kind z = (if isInt x ∧ isInt y then 0 else 1) ∧ (isInt z ↔ isInt x ∧ isInt y) := by
  by_cases h : isInt x ∧ isInt y
  · exact ⟨not_surd_of_isInt (h1 h), by simp [h, kind_of_isInt (h1 h)], fun _ => h, fun _ => h1 h⟩
  · refine ⟨not_surd_of_isRat (h2 h), by simp [h, kind_of_isRat (h2 h)], fun hz => ?_, fun hh => absurd hh h⟩
    have := kind_of_isRat (h2 h); rw [kind_of_isInt hz] at this; omega

/-- two canonical non-surd numbers with the same value and kind are the same number -/
theorem eq_of_value_kind {a b : Num} (ha : Canon a) (hb : Canon b) (na : ¬ isSurd a) (nb : ¬ isSurd b)
    (hv : toQ a = toQ b) (hk : kind a = kind b) : a = b :=
  canon_unique a b ha hb hk (by rw [toQsqrt_of_not_surd na, toQsqrt_of_not_surd nb, hv])

theorem add_comm_law (x y : Num) (hx : Canon x) (hy : Canon y) (nx : ¬ isSurd x) (ny : ¬ isSurd y) :
    Num.add (some x) (some y) = Num.add (some y) (some x) := by
  obtain ⟨z1, e1, c1, v1, i1, r1⟩ := add_spec x y hx hy nx ny
  obtain ⟨z2, e2, c2, v2, i2, r2⟩ := add_spec y x hy hx ny nx
  obtain ⟨n1, k1, _⟩ := result_kind i1 r1
  obtain ⟨n2, k2, _⟩ := result_kind i2 r2
  rw [e1, e2, eq_of_value_kind c1 c2 n1 n2 (by rw [v1, v2]; ring) (by rw [k1, k2]; simp [and_comm])]

theorem mul_comm_law (x y : Num) (hx : Canon x) (hy : Canon y) (nx : ¬ isSurd x) (ny : ¬ isSurd y) :
    Num.mul (some x) (some y) = Num.mul (some y) (some x) := by
  obtain ⟨z1, e1, c1, v1, i1, r1⟩ := mul_spec x y hx hy nx ny
  obtain ⟨z2, e2, c2, v2, i2, r2⟩ := mul_spec y x hy hx ny nx
  obtain ⟨n1, k1, _⟩ := result_kind i1 r1
  obtain ⟨n2, k2, _⟩ := result_kind i2 r2
  rw [e1, e2, eq_of_value_kind c1 c2 n1 n2 (by rw [v1, v2]; ring) (by rw [k1, k2]; simp [and_comm])]

/-- `(x + y) + z = x + (y + z)`, as identical canonical values -/
theorem add_assoc_law (x y z : Num) (hx : Canon x) (hy : Canon y) (hz : Canon z)
    (nx : ¬ isSurd x) (ny : ¬ isSurd y) (nz : ¬ isSurd z) :
    ∃ u v r, Num.add (some x) (some y) = .ok (some u) ∧ Num.add (some u) (some z) = .ok (some r) ∧
      Num.add (some y) (some z) = .ok (some v) ∧ Num.add (some x) (some v) = .ok (some r) := by
  obtain ⟨u, eu, cu, vu, iu, ru⟩ := add_spec x y hx hy nx ny
  obtain ⟨nu, ku, bu⟩ := result_kind iu ru
  obtain ⟨r1, e1, c1, v1, i1, q1⟩ := add_spec u z cu hz nu nz
  obtain ⟨n1, k1, b1⟩ := result_kind i1 q1
  obtain ⟨v, ev, cv, vv, iv, rv⟩ := add_spec y z hy hz ny nz
  obtain ⟨nv, kv, bv⟩ := result_kind iv rv
  obtain ⟨r2, e2, c2, v2, i2, q2⟩ := add_spec x v hx cv nx nv
  obtain ⟨n2, k2, b2⟩ := result_kind i2 q2
  refine ⟨u, v, r1, eu, e1, ev, ?_⟩
  rw [e2, eq_of_value_kind c2 c1 n2 n1 (by rw [v1, v2, vu, vv]; ring)
    (by rw [k1, k2]; simp only [bu, bv, and_assoc])]

theorem mul_assoc_law (x y z : Num) (hx : Canon x) (hy : Canon y) (hz : Canon z)
    (nx : ¬ isSurd x) (ny : ¬ isSurd y) (nz : ¬ isSurd z) :
    ∃ u v r, Num.mul (some x) (some y) = .ok (some u) ∧ Num.mul (some u) (some z) = .ok (some r) ∧
      Num.mul (some y) (some z) = .ok (some v) ∧ Num.mul (some x) (some v) = .ok (some r) := by
  obtain ⟨u, eu, cu, vu, iu, ru⟩ := mul_spec x y hx hy nx ny
  obtain ⟨nu, ku, bu⟩ := result_kind iu ru
  obtain ⟨r1, e1, c1, v1, i1, q1⟩ := mul_spec u z cu hz nu nz
  obtain ⟨n1, k1, b1⟩ := result_kind i1 q1
  obtain ⟨v, ev, cv, vv, iv, rv⟩ := mul_spec y z hy hz ny nz
  obtain ⟨nv, kv, bv⟩ := result_kind iv rv
  obtain ⟨r2, e2, c2, v2, i2, q2⟩ := mul_spec x v hx cv nx nv
  obtain ⟨n2, k2, b2⟩ := result_kind i2 q2
  refine ⟨u, v, r1, eu, e1, ev, ?_⟩
  rw [e2, eq_of_value_kind c2 c1 n2 n1 (by rw [v1, v2, vu, vv]; ring)
    (by rw [k1, k2]; simp only [bu, bv, and_assoc])]

/-- `x·(y + z) = x·y + x·z`, as identical canonical values -/
theorem distrib_law (x y z : Num) (hx : Canon x) (hy : Canon y) (hz : Canon z)
    (nx : ¬ isSurd x) (ny : ¬ isSurd y) (nz : ¬ isSurd z) :
    ∃ s p q r, Num.add (some y) (some z) = .ok (some s) ∧ Num.mul (some x) (some s) = .ok (some r) ∧
      Num.mul (some x) (some y) = .ok (some p) ∧ Num.mul (some x) (some z) = .ok (some q) ∧
      Num.add (some p) (some q) = .ok (some r) := by
  obtain ⟨s, es, cs, vs, is, rs⟩ := add_spec y z hy hz ny nz
  obtain ⟨ns, ks, bs⟩ := result_kind is rs
  obtain ⟨r1, e1, c1, v1, i1, q1⟩ := mul_spec x s hx cs nx ns
  obtain ⟨n1, k1, b1⟩ := result_kind i1 q1
  obtain ⟨p, ep, cp, vp, ip, rp⟩ := mul_spec x y hx hy nx ny
  obtain ⟨np, kp, bp⟩ := result_kind ip rp
  obtain ⟨q, eq, cq, vq, iq, rq⟩ := mul_spec x z hx hz nx nz
  obtain ⟨nq, kq, bq⟩ := result_kind iq rq
  obtain ⟨r2, e2, c2, v2, i2, q2⟩ := add_spec p q cp cq np nq
  obtain ⟨n2, k2, b2⟩ := result_kind i2 q2
  refine ⟨s, p, q, r1, es, e1, ep, eq, ?_⟩
  rw [e2, eq_of_value_kind c2 c1 n2 n1 (by rw [v1, v2, vs, vp, vq]; ring)
    (by rw [k1, k2]; simp only [bs, bp, bq]; by_cases h1 : isInt x <;> by_cases h2 : isInt y <;>
          by_cases h3 : isInt z <;> simp [h1, h2, h3])]

/-- subtraction undoes addition: `(x − y) + y` has the value of `x` -/
theorem sub_add_cancel_law (x y : Num) (hx : Canon x) (hy : Canon y) (nx : ¬ isSurd x) (ny : ¬ isSurd y) :
    ∃ d r, Num.sub (some x) (some y) = .ok (some d) ∧ Num.add (some d) (some y) = .ok (some r) ∧
      toQ r = toQ x := by
  obtain ⟨d, ed, cd, vd, id, rd⟩ := sub_spec x y hx hy nx ny
  obtain ⟨nd, _, _⟩ := result_kind id rd
  obtain ⟨r, er, cr, vr, _, _⟩ := add_spec d y cd hy nd ny
  exact ⟨d, r, ed, er, by rw [vr, vd]; ring⟩

/-- division undoes multiplication: `(x / y)·y` has the value of `x` when `y ≠ 0` -/
theorem div_mul_cancel_law (x y : Num) (hx : Canon x) (hy : Canon y) (nx : ¬ isSurd x) (ny : ¬ isSurd y)
    (h0 : toQ y ≠ 0) :
    ∃ q r, Num.div (some x) (some y) = .ok (some q) ∧ Num.mul (some q) (some y) = .ok (some r) ∧
      toQ r = toQ x := by
  obtain ⟨q, eq, cq, rq, vq⟩ := (div_spec x y hx hy nx ny).2 h0
  obtain ⟨r, er, cr, vr, _, _⟩ := mul_spec q y cq hy (not_surd_of_isRat rq) ny
  exact ⟨q, r, eq, er, by rw [vr, vq]; field_simp⟩

/-- order is translation invariant: comparing `x + z` with `y + z` is comparing `x` with `y` -/
theorem order_add_law (x y z : Num) (hx : Canon x) (hy : Canon y) (hz : Canon z)
    (nx : ¬ isSurd x) (ny : ¬ isSurd y) (nz : ¬ isSurd z) :
    ∃ a b, Num.add (some x) (some z) = .ok (some a) ∧ Num.add (some y) (some z) = .ok (some b) ∧
      Num.compare (some a) (some b) = Num.compare (some x) (some y) := by
  obtain ⟨a, ea, ca, va, ia, ra⟩ := add_spec x z hx hz nx nz
  obtain ⟨na, _, _⟩ := result_kind ia ra
  obtain ⟨b, eb, cb, vb, ib, rb⟩ := add_spec y z hy hz ny nz
  obtain ⟨nb, _, _⟩ := result_kind ib rb
  refine ⟨a, b, ea, eb, ?_⟩
  rw [compare_spec a b ca cb na nb, compare_spec x y hx hy nx ny, va, vb]
  congr 3; ring

/-- multiplication by a positive number preserves the order, by a negative one reverses it -/
theorem order_mul_law (x y z : Num) (hx : Canon x) (hy : Canon y) (hz : Canon z)
    (nx : ¬ isSurd x) (ny : ¬ isSurd y) (nz : ¬ isSurd z) :
    ∃ a b c, Num.mul (some x) (some z) = .ok (some a) ∧ Num.mul (some y) (some z) = .ok (some b) ∧
      Num.compare (some a) (some b) = .ok (some c) ∧
      (0 < toQ z → c = sgnQ (toQ x - toQ y)) ∧ (toQ z < 0 → c = sgnQ (toQ y - toQ x)) ∧
      (toQ z = 0 → c = 0) := by
  obtain ⟨a, ea, ca, va, ia, ra⟩ := mul_spec x z hx hz nx nz
  obtain ⟨na, _, _⟩ := result_kind ia ra
  obtain ⟨b, eb, cb, vb, ib, rb⟩ := mul_spec y z hy hz ny nz
  obtain ⟨nb, _, _⟩ := result_kind ib rb
  refine ⟨a, b, _, ea, eb, compare_spec a b ca cb na nb, ?_, ?_, ?_⟩
  · intro h; rw [va, vb, ← sub_mul, sgnQ_mul_pos h]
  · intro h
    have : toQ x * toQ z - toQ y * toQ z = (toQ y - toQ x) * (- toQ z) := by ring
    rw [va, vb, this, sgnQ_mul_pos (by linarith)]
  · intro h; rw [va, vb, h]; simp [sgnQ]



/-! ### exact square root -/

theorem build_one {a b : Rt} (ha : a.d ≠ 0) (hb : b.d ≠ 0) :
    ∃ r : Rt, r.Canon ∧ r.toQ = a.toQ + b.toQ ∧ build a b 1 = .ok (lower r.toCoeff).toNum := by
  obtain ⟨r, h1, h2, h3⟩ := radd_spec (x := a) (y := b) ha hb
  exact ⟨r, h2, h3, by simp [build, cmp_eq_zero, h1]⟩

theorem sqrt_eq_sqrtCoeff (x : Num) (nx : ¬ isSurd x) : Num.sqrt (some x) = sqrtCoeff (coeffOf x) := by
  cases x <;> first | rfl | exact absurd trivial nx

theorem sign_of_div_pos {p q : Int} (hq : 0 < q) :
    (((p : ℚ) / (q : ℚ) < 0) ↔ p < 0) ∧ (((p : ℚ) / (q : ℚ) = 0) ↔ p = 0) ∧ ((0 < (p : ℚ) / (q : ℚ)) ↔ 0 < p) := by
  have hqq : (0 : ℚ) < q := by exact_mod_cast hq
  refine ⟨?_, ?_, ?_⟩
  · rw [div_lt_iff₀ hqq, zero_mul]; exact_mod_cast Iff.rfl
  · rw [div_eq_zero_iff]; constructor
    · rintro (h | h)
      · exact_mod_cast h
      · exact absurd h (ne_of_gt hqq)
    · intro h; left; exact_mod_cast h
  · rw [lt_div_iff₀ hqq, zero_mul]; exact_mod_cast Iff.rfl

/-- `sqrt` of an integer or rational: nil for a negative operand, the integer 0 for zero, and for
a positive operand the non-negative exact root in simplest form — a rational when the operand is a
perfect square, otherwise a pure surd `b·√m` with `m` square-free — whose square is the operand.
The trial-division loop terminates (no `fuelOut`), no builtin leaves its domain. -/
theorem sqrt_spec (x : Num) (hx : Canon x) (nx : ¬ isSurd x) :
    (toQ x < 0 → Num.sqrt (some x) = .ok none) ∧
    (toQ x = 0 → Num.sqrt (some x) = .ok (some (.int 0))) ∧
    (0 < toQ x → ∃ z, Num.sqrt (some x) = .ok (some z) ∧ Canon z ∧
      (qa z = 0 ∨ qb z = 0) ∧ 0 ≤ qa z ∧ 0 ≤ qb z ∧
      qa z * qa z + qb z * qb z * (rad z : ℚ) = toQ x) := by
  have hq := coeffOf_d_pos x hx nx
  have hv := toQ_coeffOf x nx
  rw [sqrt_eq_sqrtCoeff x nx]
  rcases hc : toRational (coeffOf x) with ⟨p, q⟩
  rw [hc] at hq hv
  simp only at hq
  have hval : toQ x = (p : ℚ) / (q : ℚ) := by rw [← hv]; rfl
  obtain ⟨s1, s2, s3⟩ := sign_of_div_pos (p := p) hq
  rw [hval]
  refine ⟨fun h => ?_, fun h => ?_, fun h => ?_⟩
  · have := s1.mp h
    simp [sqrtCoeff, hc, cmp_eq_neg_one, this]
  · have := s2.mp h
    simp [sqrtCoeff, hc, cmp_eq_neg_one, cmp_eq_zero, this]
  · have hp := s3.mp h
    have hpq : 0 < p * q := Int.mul_pos hp hq
    obtain ⟨k, m, hsq, hkm, hk, hm, hfree⟩ := sqfree_spec (p * q) hpq
    obtain ⟨b, hb1, hb2, hb3⟩ := reduce_spec (n := k) (ne_of_gt hq)
    have hqq : (q : ℚ) ≠ 0 := by exact_mod_cast (ne_of_gt hq)
    have hkq : (0 : ℚ) < (k : ℚ) / q := div_pos (by exact_mod_cast hk) (by exact_mod_cast hq)
    have hkmq : (k : ℚ) * k * m = p * q := by exact_mod_cast hkm
    have hn1 : ¬ p < 0 := by omega
    have hn2 : ¬ p = 0 := by omega
    have c0 : Rt.Canon ⟨0, 1⟩ := ⟨by decide, by decide⟩
    by_cases hm1 : m = 1
    · subst hm1
      obtain ⟨r, hr1, hr2, hr3⟩ := build_one (a := ⟨0, 1⟩) (b := b) (by decide) (ne_of_gt hb2.1)
      have hrv : r.toQ = (k : ℚ) / q := by rw [hr2, hb3]; simp [QM.Num.Rt.toQ]
      refine ⟨(lower r.toCoeff).toNum, ?_, coeff_toNum_canon (lower_canon hr1), ?_⟩
      · simp [sqrtCoeff, hc, cmp_eq_neg_one, cmp_eq_zero, hn1, hn2, hsq, hb1, hr3]
      · have hts := coeff_toNum_toQsqrt (lower r.toCoeff)
        have hqa : qa (lower r.toCoeff).toNum = (k : ℚ) / q := by
          unfold qa; rw [hts, lower_coeffQ, hrv]
        have hqb : qb (lower r.toCoeff).toNum = 0 := by unfold qb; rw [hts]
        refine ⟨Or.inr hqb, by rw [hqa]; exact le_of_lt hkq, by rw [hqb], ?_⟩
        rw [hqa, hqb]; field_simp; push_cast at hkmq; linarith
    · have hm2 : 1 < m := by omega
      obtain ⟨z, hz1, hz2, hz3⟩ := build_spec c0 hb2 hm2 hfree
      refine ⟨z, ?_, hz2, ?_⟩
      · simp [sqrtCoeff, hc, cmp_eq_neg_one, cmp_eq_zero, hn1, hn2, hsq, hb1, hz1]
      · obtain ⟨d1, d2, d3, d4⟩ := hz3
        have hb0 : b.toQ ≠ 0 := by rw [hb3]; exact ne_of_gt hkq
        have hqa : qa z = 0 := by unfold qa; rw [d1]; simp [QM.Num.Rt.toQ]
        have hqb : qb z = (k : ℚ) / q := by unfold qb; rw [d2, hb3]
        have hsurd := (d3 hb0).2
        have hrad : rad z = m := by
          cases z with
          | int _ => exact absurd hsurd (fun h => h)
          | rat _ _ => exact absurd hsurd (fun h => h)
          | surd a' b' n' =>
            have := (d3 hb0).1
            simp only [toQsqrt] at this
            have hn' := hz2.2.2.2.1
            simp only [rad, explode]; omega
        refine ⟨Or.inl hqa, by rw [hqa], by rw [hqb]; exact le_of_lt hkq, ?_⟩
        rw [hqa, hqb, hrad]; field_simp; linarith

theorem sqrt_surd_nil (a b : Coeff) (n : Int) : Num.sqrt (some (.surd a b n)) = .ok none := rfl

example : Num.sqrt (some (.int 8)) = .ok (some (.surd (.int 0) (.int 2) 2)) := by decide
example : Num.sqrt (some (.rat 1 4)) = .ok (some (.rat 1 2)) := by decide



/-! ### no runtime error on canonical operands -/

/-- the outcome is a value (a number, an integer, `Ok`, or nil) — not `err`, `panic`, `fuelOut` -/
def IsOk {α} (r : Res α) : Prop := ∃ v, r = .ok v

theorem compare_total (x y : Num) (hx : Canon x) (hy : Canon y) :
    ∃ c, Num.compare (some x) (some y) = .ok c := by
  by_cases hs : isSurd x ∨ isSurd y
  · rw [compare_surd_eq x y hs, surdCompare_spec x y hx hy]; exact ⟨_, rfl⟩
  · have nx : ¬ isSurd x := fun h => hs (Or.inl h)
    have ny : ¬ isSurd y := fun h => hs (Or.inr h)
    exact ⟨_, compare_spec x y hx hy nx ny⟩

theorem neg_surd_ok (a b : Coeff) (n : Int) (hx : Canon (.surd a b n)) :
    ∃ z, Num.neg (some (.surd a b n)) = .ok (some z) := by
  obtain ⟨ha, hb, hb0, hn, hsq⟩ := hx
  obtain ⟨a', ha1, ha2, _⟩ := rneg_spec (x := toRational a) (ne_of_gt (canonCoeff_d_pos ha))
  obtain ⟨b', hb1, hb2, _⟩ := rneg_spec (x := toRational b) (ne_of_gt (canonCoeff_d_pos hb))
  obtain ⟨z, hz, _, _⟩ := build_spec ha2 hb2 hn hsq
  exact ⟨z, by simp [Num.neg, ha1, hb1, hz]⟩

theorem abs_surd_ok (a b : Coeff) (n : Int) (hx : Canon (.surd a b n)) :
    ∃ z, Num.abs (some (.surd a b n)) = .ok (some z) := by
  obtain ⟨z, hz⟩ := neg_surd_ok a b n hx
  obtain ⟨ha, hb, hb0, hn, hsq⟩ := hx
  have hs := ssign_eq (toRational a) (toRational b) n (canonCoeff_d_pos ha) (canonCoeff_d_pos hb)
  obtain ⟨a', ha1, ha2, _⟩ := rneg_spec (x := toRational a) (ne_of_gt (canonCoeff_d_pos ha))
  obtain ⟨b', hb1, hb2, _⟩ := rneg_spec (x := toRational b) (ne_of_gt (canonCoeff_d_pos hb))
  obtain ⟨z', hz', _, _⟩ := build_spec ha2 hb2 hn hsq
  by_cases h : surdSign (toRational a).toQ (toRational b).toQ n = -1
  · exact ⟨z', by simp [Num.abs, hs, h, ha1, hb1, hz']⟩
  · exact ⟨.surd a b n, by simp [Num.abs, hs, h]⟩

theorem toInt_surd_ok (a b : Coeff) (n : Int) (hx : Canon (.surd a b n)) :
    ∃ t, Num.toInt (some (.surd a b n)) = .ok (some t) := by
  obtain ⟨ha, hb, hb0, hn, hsq⟩ := hx
  have hda := canonCoeff_d_pos ha
  have hdb := canonCoeff_d_pos hb
  have hs := ssign_eq (toRational a) (toRational b) n hda hdb
  obtain ⟨a', ha1, ha2, _⟩ := rneg_spec (x := toRational a) (ne_of_gt hda)
  obtain ⟨b', hb1, hb2, _⟩ := rneg_spec (x := toRational b) (ne_of_gt hdb)
  -- the tail after the operand pair has been chosen: total whenever both denominators are positive
  have tail : ∀ (sgn : Int) (p q : Rt), 0 < p.d → 0 < q.d → ∃ t,
      (match (p, q) with
        | (⟨pa, qa⟩, ⟨pb, qb⟩) => do
          let p ← iMul pa qb
          let q ← iMul pb qa
          let d ← iMul qa qb
          let qq ← iMul q q
          let qqn ← iMul qq n
          let s ← iSqrt qqn
          let c1 ← iCompare q 0
          let nlo ← (if c1 = 1 then iAdd p s
            else do
              let s1 ← iAdd s 1
              iSub p s1)
          let t ← iDiv nlo d
          let r ← iMul sgn t
          pure (some r) : Res (Option Int)) = .ok (some t) := by
    intro sgn p q hp hq
    obtain ⟨pa, qa⟩ := p
    obtain ⟨pb, qb⟩ := q
    simp only at hp hq
    have hd : qa * qb ≠ 0 := ne_of_gt (Int.mul_pos hp hq)
    have hnn : 0 ≤ pb * qa * (pb * qa) * n := Int.mul_nonneg (mul_self_nonneg _) (by omega)
    by_cases hc : cmp (pb * qa) 0 = 1
    · simp [iSqrt_eq hnn, hc, iDiv_eq hd]
    · simp [iSqrt_eq hnn, hc, iDiv_eq hd]
  by_cases h : cmp (surdSign (toRational a).toQ (toRational b).toQ n) 0 = -1
  · obtain ⟨t, ht⟩ := tail (surdSign (toRational a).toQ (toRational b).toQ n) a' b' ha2.1 hb2.1
    exact ⟨t, by simp only [Num.toInt, hs, ok_bind, iCompare_eq, h, if_true, ha1, hb1, pure_eq]; exact ht⟩
  · obtain ⟨t, ht⟩ := tail (surdSign (toRational a).toQ (toRational b).toQ n) (toRational a) (toRational b) hda hdb
    exact ⟨t, by simp only [Num.toInt, hs, ok_bind, iCompare_eq, h, if_false, pure_eq]; exact ht⟩

theorem toInt_ok (x : Num) (hx : Canon x) : ∃ t, Num.toInt (some x) = .ok (some t) := by
  cases x with
  | surd a b n => exact toInt_surd_ok a b n hx
  | int z => obtain ⟨t, h, _⟩ := toInt_spec (.int z) hx (fun h => h); exact ⟨t, h⟩
  | rat n d => obtain ⟨t, h, _⟩ := toInt_spec (.rat n d) hx (fun h => h); exact ⟨t, h⟩

theorem floor_ok (x : Num) (hx : Canon x) : ∃ f, Num.floor (some x) = .ok (some f) := by
  obtain ⟨t, ht⟩ := toInt_ok x hx
  obtain ⟨c, hc⟩ := compare_total x (.int t) hx trivial
  by_cases h : c = some (-1)
  · exact ⟨t - 1, by simp [Num.floor, ht, hc, h]⟩
  · exact ⟨t, by simp [Num.floor, ht, hc, h]⟩

theorem ceil_ok (x : Num) (hx : Canon x) : ∃ f, Num.ceil (some x) = .ok (some f) := by
  obtain ⟨t, ht⟩ := toInt_ok x hx
  obtain ⟨c, hc⟩ := compare_total x (.int t) hx trivial
  by_cases h : c = some 1
  · exact ⟨t + 1, by simp [Num.ceil, ht, hc, h]⟩
  · exact ⟨t, by simp [Num.ceil, ht, hc, h]⟩

theorem round_ok (x : Num) (hx : Canon x) : ∃ r, Num.round (some x) = .ok (some r) := by
  obtain ⟨f, hf⟩ := floor_ok x hx
  obtain ⟨c, hc⟩ := compare_total x (.rat (f * 2 + 1) 2) hx (canon_half f)
  by_cases h1 : c = some 1
  · exact ⟨f + 1, by simp [Num.round, hf, hc, h1]⟩
  · by_cases h2 : c = some (-1)
    · exact ⟨f, by simp [Num.round, hf, hc, h2]⟩
    · by_cases h3 : cmp f 0 = -1
      · exact ⟨f, by simp [Num.round, hf, hc, h1, h3]⟩
      · exact ⟨f + 1, by simp [Num.round, hf, hc, h2, h3]⟩

/-- canonical or nil -/
def CanonOpt : Option Num → Prop
  | none => True
  | some v => Canon v

theorem unary_ok (x : Num) (hx : Canon x) :
    IsOk (Num.neg (some x)) ∧ IsOk (Num.abs (some x)) ∧ IsOk (Num.sqrt (some x)) ∧
    IsOk (Num.numer (some x)) ∧ IsOk (Num.denom (some x)) ∧ IsOk (Num.toInt (some x)) ∧
    IsOk (Num.floor (some x)) ∧ IsOk (Num.ceil (some x)) ∧ IsOk (Num.round (some x)) ∧
    IsOk (Num.sign (some x)) := by
  have h6 : IsOk (Num.toInt (some x)) := by obtain ⟨t, h⟩ := toInt_ok x hx; exact ⟨_, h⟩
  have h7 : IsOk (Num.floor (some x)) := by obtain ⟨t, h⟩ := floor_ok x hx; exact ⟨_, h⟩
  have h8 : IsOk (Num.ceil (some x)) := by obtain ⟨t, h⟩ := ceil_ok x hx; exact ⟨_, h⟩
  have h9 : IsOk (Num.round (some x)) := by obtain ⟨t, h⟩ := round_ok x hx; exact ⟨_, h⟩
  have h10 : IsOk (Num.sign (some x)) := compare_total x (.int 0) hx trivial
  by_cases sx : isSurd x
  · cases x with
    | int _ => exact absurd sx (fun h => h)
    | rat _ _ => exact absurd sx (fun h => h)
    | surd a b n =>
      obtain ⟨z1, e1⟩ := neg_surd_ok a b n hx
      obtain ⟨z2, e2⟩ := abs_surd_ok a b n hx
      exact ⟨⟨_, e1⟩, ⟨_, e2⟩, ⟨_, rfl⟩, ⟨_, rfl⟩, ⟨_, rfl⟩, h6, h7, h8, h9, h10⟩
  · obtain ⟨z1, e1, _⟩ := neg_spec x hx sx
    obtain ⟨z2, e2, _⟩ := abs_spec x hx sx
    obtain ⟨n1, n2⟩ := numer_denom_spec x hx sx
    have h3 : IsOk (Num.sqrt (some x)) := by
      obtain ⟨s1, s2, s3⟩ := sqrt_spec x hx sx
      rcases lt_trichotomy (toQ x) 0 with h | h | h
      · exact ⟨_, s1 h⟩
      · exact ⟨_, s2 h⟩
      · obtain ⟨z, hz, _⟩ := s3 h; exact ⟨_, hz⟩
    exact ⟨⟨_, e1⟩, ⟨_, e2⟩, h3, ⟨_, n1⟩, ⟨_, n2⟩, h6, h7, h8, h9, h10⟩

theorem arith_ok (x y : Num) (hx : Canon x) (hy : Canon y) :
    IsOk (Num.add (some x) (some y)) ∧ IsOk (Num.sub (some x) (some y)) ∧
    IsOk (Num.mul (some x) (some y)) ∧ IsOk (Num.div (some x) (some y)) := by
  by_cases hs : isSurd x ∨ isSurd y
  · by_cases hc : Compatible x y
    · obtain ⟨z1, e1, _⟩ := surd_add_exact x y hx hy hs hc
      obtain ⟨z2, e2, _⟩ := surd_sub_exact x y hx hy hs hc
      obtain ⟨z3, e3, _⟩ := surd_mul_exact x y hx hy hs hc
      obtain ⟨d1, d2⟩ := surd_div_exact x y hx hy hs hc
      refine ⟨⟨_, e1⟩, ⟨_, e2⟩, ⟨_, e3⟩, ?_⟩
      by_cases h0 : qa y * qa y - qb y * qb y * (sharedRadical x y : ℚ) = 0
      · exact ⟨_, d1 h0⟩
      · obtain ⟨z, hz, _⟩ := d2 h0; exact ⟨_, hz⟩
    · obtain ⟨e1, e2, e3, e4, _⟩ := mixed_radicals_nil x y hx hy hc
      exact ⟨⟨_, e1⟩, ⟨_, e2⟩, ⟨_, e3⟩, ⟨_, e4⟩⟩
  · have nx : ¬ isSurd x := fun h => hs (Or.inl h)
    have ny : ¬ isSurd y := fun h => hs (Or.inr h)
    obtain ⟨z1, e1, _⟩ := add_spec x y hx hy nx ny
    obtain ⟨z2, e2, _⟩ := sub_spec x y hx hy nx ny
    obtain ⟨z3, e3, _⟩ := mul_spec x y hx hy nx ny
    obtain ⟨d1, d2⟩ := div_spec x y hx hy nx ny
    refine ⟨⟨_, e1⟩, ⟨_, e2⟩, ⟨_, e3⟩, ?_⟩
    by_cases h0 : toQ y = 0
    · exact ⟨_, d1 h0⟩
    · obtain ⟨z, hz, _⟩ := d2 h0; exact ⟨_, hz⟩

theorem order_ok (x y : Num) (hx : Canon x) (hy : Canon y) :
    IsOk (Num.compare (some x) (some y)) ∧ IsOk (Num.min (some x) (some y)) ∧
    IsOk (Num.max (some x) (some y)) ∧ IsOk (Num.eqQ (some x) (some y)) ∧
    IsOk (Num.ltQ (some x) (some y)) ∧ IsOk (Num.leQ (some x) (some y)) ∧
    IsOk (Num.gtQ (some x) (some y)) ∧ IsOk (Num.geQ (some x) (some y)) := by
  obtain ⟨c, hc⟩ := compare_total x y hx hy
  refine ⟨⟨_, hc⟩, ?_, ?_, ?_, ?_, ?_, ?_, ?_⟩
  · cases c with
    | none => exact ⟨none, by simp [Num.min, hc]⟩
    | some c => by_cases h : c = 1
                · exact ⟨some y, by simp [Num.min, hc, h]⟩
                · exact ⟨some x, by simp [Num.min, hc, h]⟩
  · cases c with
    | none => exact ⟨none, by simp [Num.max, hc]⟩
    | some c => by_cases h : c = -1
                · exact ⟨some y, by simp [Num.max, hc, h]⟩
                · exact ⟨some x, by simp [Num.max, hc, h]⟩
  all_goals
    simp only [Num.eqQ, Num.ltQ, Num.leQ, Num.gtQ, Num.geQ, hc, ok_bind, pure_eq]
    unfold IsOk
    repeat' split
    all_goals exact ⟨_, rfl⟩

theorem clamp_ok (x lo hi : Num) (hx : Canon x) (hl : Canon lo) (hh : Canon hi) :
    IsOk (Num.clamp (some x) (some lo) (some hi)) := by
  obtain ⟨c, hc⟩ := compare_total x lo hx hl
  obtain ⟨c', hc'⟩ := compare_total x hi hx hh
  cases c with
  | none => exact ⟨none, by simp [Num.clamp, hc]⟩
  | some c =>
    by_cases h : c = -1
    · exact ⟨some lo, by simp [Num.clamp, hc, h]⟩
    · cases c' with
      | none => exact ⟨none, by simp [Num.clamp, hc, h, hc']⟩
      | some c' =>
        by_cases h' : c' = 1
        · exact ⟨some hi, by simp [Num.clamp, hc, h, hc', h']⟩
        · exact ⟨some x, by simp [Num.clamp, hc, h, hc', h']⟩

/-- **No runtime error.** On canonical (or nil) operands every operation of the module ends in a
value — a number, an integer, `Ok` or nil; never `err` (no modelled builtin is called outside its
domain: `reduce` never divides by a zero gcd, `rquot` never gets a zero divisor, the integer square
root never sees a negative), never `panic`, never `fuelOut` (both loops terminate). -/
theorem no_runtime_error (x y w : Option Num) (hx : CanonOpt x) (hy : CanonOpt y) (hw : CanonOpt w) :
    (IsOk (Num.add x y) ∧ IsOk (Num.sub x y) ∧ IsOk (Num.mul x y) ∧ IsOk (Num.div x y)) ∧
    (IsOk (Num.compare x y) ∧ IsOk (Num.min x y) ∧ IsOk (Num.max x y) ∧ IsOk (Num.eqQ x y) ∧
      IsOk (Num.ltQ x y) ∧ IsOk (Num.leQ x y) ∧ IsOk (Num.gtQ x y) ∧ IsOk (Num.geQ x y)) ∧
    IsOk (Num.clamp x y w) ∧
    (IsOk (Num.neg x) ∧ IsOk (Num.abs x) ∧ IsOk (Num.sqrt x) ∧ IsOk (Num.numer x) ∧
      IsOk (Num.denom x) ∧ IsOk (Num.toInt x) ∧ IsOk (Num.floor x) ∧ IsOk (Num.ceil x) ∧
      IsOk (Num.round x) ∧ IsOk (Num.sign x)) := by
  have hn := nil_propagates x y
  obtain ⟨n1, n2, n3, n4, n5, n6, n7, _, n9, n10, n11, n12, n13, u1, u2, u3, u4, u5, u6, u7, u8, u9, u10⟩ := hn
  have hcl := (nil_propagates y w).2.2.2.2.2.2.2.1
  have hcl2 := (nil_propagates x w).2.2.2.2.2.2.2.1
  have hcl3 := (nil_propagates x y).2.2.2.2.2.2.2.1
  cases x with
  | none =>
    exact ⟨⟨⟨_, n1.1⟩, ⟨_, n2.1⟩, ⟨_, n3.1⟩, ⟨_, n4.1⟩⟩,
      ⟨⟨_, n5.1⟩, ⟨_, n6.1⟩, ⟨_, n7.1⟩, ⟨_, n9.1⟩, ⟨_, n10.1⟩, ⟨_, n11.1⟩, ⟨_, n12.1⟩, ⟨_, n13.1⟩⟩,
      ⟨_, hcl.1⟩,
      ⟨⟨_, u1⟩, ⟨_, u2⟩, ⟨_, u3⟩, ⟨_, u4⟩, ⟨_, u5⟩, ⟨_, u6⟩, ⟨_, u7⟩, ⟨_, u8⟩, ⟨_, u9⟩, ⟨_, u10⟩⟩⟩
  | some xv =>
    have hu := unary_ok xv hx
    cases y with
    | none =>
      exact ⟨⟨⟨_, n1.2⟩, ⟨_, n2.2⟩, ⟨_, n3.2⟩, ⟨_, n4.2⟩⟩,
        ⟨⟨_, n5.2⟩, ⟨_, n6.2⟩, ⟨_, n7.2⟩, ⟨_, n9.2⟩, ⟨_, n10.2⟩, ⟨_, n11.2⟩, ⟨_, n12.2⟩, ⟨_, n13.2⟩⟩,
        ⟨_, hcl2.2.1⟩, hu⟩
    | some yv =>
      refine ⟨arith_ok xv yv hx hy, order_ok xv yv hx hy, ?_, hu⟩
      cases w with
      | none => exact ⟨_, hcl3.2.2⟩
      | some wv => exact clamp_ok xv yv wv hx hy hw

example : CanonOpt (some (.surd (.rat 1 2) (.rat 1 2) 5)) := by
  simp [CanonOpt, Canon, CanonCoeff, coeffQ, toRational, QM.Num.Rt.toQ, SqFree]
  intro e he hdiv
  have h1 : e * e ≤ 5 := Int.le_of_dvd (by decide) hdiv
  have : e = 2 := by nlinarith
  subst this; revert hdiv; decide


/-! ### `to_int` / `floor` / `ceil` / `round` of a surd -/


/-- a square-free `n > 1` times a non-zero square is never a square (√n is irrational) -/
theorem sqfree_mul_sq_ne_sq (n q s : Int) (hn : 1 < n) (hsq : SqFree n) (hq : q ≠ 0) :
    q * q * n ≠ s * s := by
  intro h
  have hg0 : Int.gcd s q ≠ 0 := fun hg => hq (Int.gcd_eq_zero_iff.mp hg).2
  have hgpos : 0 < Int.gcd s q := Nat.pos_of_ne_zero hg0
  have hcop0 := Int.gcd_div_gcd_div_gcd (i := s) (j := q) hgpos
  obtain ⟨s', hs'⟩ := Int.gcd_dvd_left s q
  obtain ⟨q', hq'⟩ := Int.gcd_dvd_right s q
  have hgz : (0 : ℤ) < (Int.gcd s q : ℤ) := by exact_mod_cast hgpos
  generalize (Int.gcd s q : ℤ) = g at hs' hq' hgz hcop0
  have hcop : Int.gcd s' q' = 1 := by
    rwa [Int.ediv_eq_of_eq_mul_right (ne_of_gt hgz) hs', Int.ediv_eq_of_eq_mul_right (ne_of_gt hgz) hq'] at hcop0
  subst hs' hq'
  have h2 : q' * q' * n = s' * s' := by
    have hgg : g * g ≠ 0 := mul_ne_zero (ne_of_gt hgz) (ne_of_gt hgz)
    apply Int.eq_of_mul_eq_mul_left hgg
    linarith [h]
  -- natAbs level: b² ∣ a², coprime ⇒ b² = 1
  have hc : Nat.Coprime s'.natAbs q'.natAbs := hcop
  have hc2 : Nat.Coprime (q'.natAbs * q'.natAbs) (s'.natAbs * s'.natAbs) :=
    Nat.Coprime.mul_left (Nat.Coprime.mul_right hc.symm hc.symm) (Nat.Coprime.mul_right hc.symm hc.symm)
  have hd : q'.natAbs * q'.natAbs ∣ s'.natAbs * s'.natAbs := by
    refine ⟨n.natAbs, ?_⟩
    have := congrArg Int.natAbs h2
    simp only [Int.natAbs_mul] at this
    exact this.symm
  have hb1 : q'.natAbs * q'.natAbs = 1 := Nat.Coprime.eq_one_of_dvd hc2 hd
  have hqq : q' * q' = 1 := by
    have : (q' * q').natAbs = 1 := by rw [Int.natAbs_mul]; exact hb1
    have hnn := mul_self_nonneg q'
    omega
  rw [hqq, one_mul] at h2
  have hs2 : 2 ≤ |s'| := by
    by_contra hc'
    have h1 : |s'| ≤ 1 := by omega
    have h3 : s' * s' ≤ 1 := by
      have := abs_mul_abs_self s'
      nlinarith [abs_nonneg s']
    omega
  exact hsq |s'| hs2 ⟨1, by rw [abs_mul_abs_self, mul_one, h2]⟩

section
variable {K : Type} [Field K] [LinearOrder K] [IsStrictOrderedRing K]

/-- the integer square root brackets any non-negative `w` with `w² = N` -/
theorem isqrt_bracket (N : Int) (hN : 0 ≤ N) (w : K) (hw0 : 0 ≤ w) (hw : w * w = (N : K)) :
    (((Nat.sqrt N.toNat : ℕ) : ℤ) : K) ≤ w ∧ w < (((Nat.sqrt N.toNat : ℕ) : ℤ) : K) + 1 := by
  have h1 := Nat.sqrt_le N.toNat
  have h2 := Nat.lt_succ_sqrt N.toNat
  generalize Nat.sqrt N.toNat = s at h1 h2
  have hNt : ((N.toNat : ℕ) : ℤ) = N := Int.toNat_of_nonneg hN
  have e1 : ((s : ℤ) : K) * ((s : ℤ) : K) ≤ w * w := by
    rw [hw]
    have : (s : ℤ) * (s : ℤ) ≤ N := by rw [← hNt]; exact_mod_cast h1
    exact_mod_cast this
  have e2 : w * w < (((s : ℤ) : K) + 1) * (((s : ℤ) : K) + 1) := by
    rw [hw]
    have : N < ((s : ℤ) + 1) * ((s : ℤ) + 1) := by rw [← hNt]; exact_mod_cast h2
    exact_mod_cast this
  have hs0 : (0 : K) ≤ ((s : ℤ) : K) := by exact_mod_cast Int.natCast_nonneg s
  constructor
  · by_contra hc
    have := mul_self_lt_mul_self hw0 (not_le.mp hc)
    exact absurd e1 (not_le.mpr this)
  · by_contra hc
    have := mul_self_le_mul_self (by linarith) (not_lt.mp hc)
    exact absurd e2 (not_lt.mpr this)

/-- floor of `y / d` from the floor of `y` (`d` a positive integer, `y ≥ 0`) -/
theorem tdiv_floor_compose (y : K) (m d : Int) (hd : 0 < d) (hm0 : 0 ≤ m) (h1 : (m : K) ≤ y)
    (h2 : y < (m : K) + 1) :
    ((m.tdiv d : ℤ) : K) ≤ y / (d : K) ∧ y / (d : K) < ((m.tdiv d : ℤ) : K) + 1 := by
  have hdK : (0 : K) < (d : K) := by exact_mod_cast hd
  rw [Int.tdiv_eq_ediv_of_nonneg hm0]
  have a1 : m / d * d ≤ m := Int.ediv_mul_le m (ne_of_gt hd)
  have a2 : m < (m / d + 1) * d := Int.lt_ediv_add_one_mul_self m hd
  have a2' : m + 1 ≤ (m / d + 1) * d := by omega
  constructor
  · rw [le_div_iff₀ hdK]
    have : ((m / d * d : ℤ) : K) ≤ (m : K) := by exact_mod_cast a1
    push_cast at this; linarith
  · rw [div_lt_iff₀ hdK]
    have : ((m + 1 : ℤ) : K) ≤ (((m / d + 1) * d : ℤ) : K) := by exact_mod_cast a2'
    push_cast at this; linarith

/-- what `to_int` computes for a non-negative `p + q·√n` (before the sign is reapplied) -/
def surdFloor (p q : Rt) (n : Int) : Int :=
  (if cmp (q.n * p.d) 0 = 1
    then p.n * q.d + ((Nat.sqrt (q.n * p.d * (q.n * p.d) * n).toNat : ℕ) : ℤ)
    else p.n * q.d - (((Nat.sqrt (q.n * p.d * (q.n * p.d) * n).toNat : ℕ) : ℤ) + 1)).tdiv (p.d * q.d)

theorem rt_castK (p : Rt) : ((p.toQ : ℚ) : K) = (p.n : K) / (p.d : K) := by
  unfold QM.Num.Rt.toQ; push_cast; rfl

theorem surdFloor_spec (p q : Rt) (hp : 0 < p.d) (hq : 0 < q.d) (hq0 : q.n ≠ 0) (n : Int) (hn : 1 < n)
    (hsq : SqFree n) (r : K) (hr0 : 0 < r) (hr : r * r = (n : K))
    (hv : 0 ≤ ((p.toQ : ℚ) : K) + ((q.toQ : ℚ) : K) * r) :
    ((surdFloor p q n : ℤ) : K) ≤ ((p.toQ : ℚ) : K) + ((q.toQ : ℚ) : K) * r ∧
    ((p.toQ : ℚ) : K) + ((q.toQ : ℚ) : K) * r < ((surdFloor p q n : ℤ) : K) + 1 := by
  have hpK : (0 : K) < (p.d : K) := by exact_mod_cast hp
  have hqK : (0 : K) < (q.d : K) := by exact_mod_cast hq
  have hD : 0 < p.d * q.d := Int.mul_pos hp hq
  have hDK : (0 : K) < ((p.d * q.d : ℤ) : K) := by exact_mod_cast hD
  -- the value as y / D
  have hval : ((p.toQ : ℚ) : K) + ((q.toQ : ℚ) : K) * r =
      (((p.n * q.d : ℤ) : K) + ((q.n * p.d : ℤ) : K) * r) / ((p.d * q.d : ℤ) : K) := by
    rw [rt_castK, rt_castK]; push_cast; field_simp
  rw [hval] at hv ⊢
  generalize hP : p.n * q.d = P at *
  generalize hQ : q.n * p.d = Q at *
  have hQ0 : Q ≠ 0 := by rw [← hQ]; exact mul_ne_zero hq0 (ne_of_gt hp)
  have hy0 : 0 ≤ (P : K) + (Q : K) * r := by
    by_contra hc
    have := div_neg_of_neg_of_pos (not_le.mp hc) hDK
    exact absurd hv (not_le.mpr this)
  have hN : 0 ≤ Q * Q * n := Int.mul_nonneg (mul_self_nonneg Q) (by omega)
  unfold surdFloor
  rw [hP, hQ]
  generalize hs : ((Nat.sqrt (Q * Q * n).toNat : ℕ) : ℤ) = s
  by_cases hpos : 0 < Q
  · have hQK : (0 : K) < (Q : K) := by exact_mod_cast hpos
    have hw : ((Q : K) * r) * ((Q : K) * r) = ((Q * Q * n : ℤ) : K) := by
      push_cast; rw [← hr]; ring
    obtain ⟨b1, b2⟩ := isqrt_bracket (K := K) (Q * Q * n) hN ((Q : K) * r) (le_of_lt (mul_pos hQK hr0)) hw
    rw [hs] at b1 b2
    have hc : cmp Q 0 = 1 := cmp_eq_one.mpr hpos
    simp only [hc, if_true]
    have hm0 : 0 ≤ P + s := by
      have : ((-1 : ℤ) : K) < ((P + s : ℤ) : K) := by push_cast; linarith
      have := Int.cast_lt.mp this; omega
    exact tdiv_floor_compose _ (P + s) _ hD hm0 (by push_cast; linarith) (by push_cast; linarith)
  · have hneg : Q < 0 := by omega
    have hQK : (Q : K) < 0 := by exact_mod_cast hneg
    have hw0 : 0 ≤ -(Q : K) * r := le_of_lt (mul_pos (by linarith) hr0)
    have hw : (-(Q : K) * r) * (-(Q : K) * r) = ((Q * Q * n : ℤ) : K) := by
      push_cast; rw [← hr]; ring
    obtain ⟨b1, b2⟩ := isqrt_bracket (K := K) (Q * Q * n) hN (-(Q : K) * r) hw0 hw
    rw [hs] at b1 b2
    -- strictness: √n is irrational
    have hstrict : (s : K) < -(Q : K) * r := by
      rcases lt_or_eq_of_le b1 with h | h
      · exact h
      · exfalso
        have : ((Q * Q * n : ℤ) : K) = ((s * s : ℤ) : K) := by rw [← hw, ← h]; push_cast; ring
        exact sqfree_mul_sq_ne_sq n Q s hn hsq hQ0 (Int.cast_injective this)
    have hc : ¬ cmp Q 0 = 1 := by rw [cmp_eq_one]; omega
    simp only [hc, if_false]
    have hm0 : 0 ≤ P - (s + 1) := by
      have : ((-1 : ℤ) : K) < ((P - (s + 1) : ℤ) : K) := by push_cast; linarith
      have := Int.cast_lt.mp this; omega
    exact tdiv_floor_compose _ (P - (s + 1)) _ hD hm0 (by push_cast; linarith) (by push_cast; linarith)

end

theorem rneg_eq (x : Rt) (hx : x.d ≠ 0) : rneg x = .ok (reduceP (-x.n) x.d) := by
  simp [rneg, reduce_eq hx]

/-- `to_int` of a surd, as a closed expression -/
theorem toInt_surd_eq (a b : Coeff) (n : Int) (hx : Canon (.surd a b n)) :
    Num.toInt (some (.surd a b n)) =
      .ok (some (surdSign (toRational a).toQ (toRational b).toQ n *
        (if cmp (surdSign (toRational a).toQ (toRational b).toQ n) 0 = -1
          then surdFloor (reduceP (-(toRational a).n) (toRational a).d)
                 (reduceP (-(toRational b).n) (toRational b).d) n
          else surdFloor (toRational a) (toRational b) n))) := by
  obtain ⟨ha, hb, hb0, hn, hsq⟩ := hx
  have hda := canonCoeff_d_pos ha
  have hdb := canonCoeff_d_pos hb
  have hs := ssign_eq (toRational a) (toRational b) n hda hdb
  have tail : ∀ (sgn : Int) (p q : Rt), 0 < p.d → 0 < q.d →
      (match (p, q) with
        | (⟨pa, qa⟩, ⟨pb, qb⟩) => do
          let p ← iMul pa qb
          let q ← iMul pb qa
          let d ← iMul qa qb
          let qq ← iMul q q
          let qqn ← iMul qq n
          let s ← iSqrt qqn
          let c1 ← iCompare q 0
          let nlo ← (if c1 = 1 then iAdd p s
            else do
              let s1 ← iAdd s 1
              iSub p s1)
          let t ← iDiv nlo d
          let r ← iMul sgn t
          pure (some r) : Res (Option Int)) = .ok (some (sgn * surdFloor p q n)) := by
    intro sgn p q hp hq
    obtain ⟨pa, qa⟩ := p
    obtain ⟨pb, qb⟩ := q
    simp only at hp hq
    have hd : qa * qb ≠ 0 := ne_of_gt (Int.mul_pos hp hq)
    have hnn : 0 ≤ pb * qa * (pb * qa) * n := Int.mul_nonneg (mul_self_nonneg _) (by omega)
    by_cases hc : cmp (pb * qa) 0 = 1
    · simp [iSqrt_eq hnn, hc, iDiv_eq hd, surdFloor]
    · simp [iSqrt_eq hnn, hc, iDiv_eq hd, surdFloor]
  by_cases h : cmp (surdSign (toRational a).toQ (toRational b).toQ n) 0 = -1
  · have c1 := (reduceP_spec (n := -(toRational a).n) (ne_of_gt hda)).1
    have c2 := (reduceP_spec (n := -(toRational b).n) (ne_of_gt hdb)).1
    simp only [Num.toInt, hs, ok_bind, iCompare_eq, h, if_true, rneg_eq _ (ne_of_gt hda),
      rneg_eq _ (ne_of_gt hdb), pure_eq]
    exact tail _ _ _ c1.1 c2.1
  · simp only [Num.toInt, hs, ok_bind, iCompare_eq, h, if_false, pure_eq]
    exact tail _ _ _ hda hdb

/-- **`to_int` of a surd truncates toward zero** (this is `toInt_surd_Statement`): for the value
`v = a + b·r` at any positive square root `r` of `n` in an ordered field (`r = √n` in ℝ),
`t ≤ v < t + 1` when `v ≥ 0` and `t − 1 < v ≤ t` when `v ≤ 0`. Uses the irrationality of `√n`
for square-free `n > 1` (`sqfree_mul_sq_ne_sq`) in the branch that subtracts `s + 1`. -/
theorem toInt_surd_spec {K : Type} [Field K] [LinearOrder K] [IsStrictOrderedRing K]
    (a b : Coeff) (n : Int) (r : K) (hx : Canon (.surd a b n)) (hr0 : 0 < r) (hr : r * r = (n : K)) :
    ∃ t : Int, Num.toInt (some (.surd a b n)) = .ok (some t) ∧
      ((0 ≤ (coeffQ a : K) + (coeffQ b : K) * r →
          (t : K) ≤ (coeffQ a : K) + (coeffQ b : K) * r ∧ (coeffQ a : K) + (coeffQ b : K) * r < t + 1) ∧
       ((coeffQ a : K) + (coeffQ b : K) * r ≤ 0 →
          (t : K) - 1 < (coeffQ a : K) + (coeffQ b : K) * r ∧ (coeffQ a : K) + (coeffQ b : K) * r ≤ t)) := by
  refine ⟨_, toInt_surd_eq a b n hx, ?_⟩
  obtain ⟨ha, hb, hb0, hn, hsq⟩ := hx
  have hda := canonCoeff_d_pos ha
  have hdb := canonCoeff_d_pos hb
  obtain ⟨s1, s0, sm⟩ := surdSign_sound (K := K) (toRational a).toQ (toRational b).toQ n r hr0 hr
  have hbn : (toRational b).n ≠ 0 := by
    intro h; apply hb0; simp [coeffQ, QM.Num.Rt.toQ, h]
  unfold coeffQ
  generalize hsg : surdSign (toRational a).toQ (toRational b).toQ n = sg at *
  generalize hv : ((toRational a).toQ : K) + ((toRational b).toQ : K) * r = v at *
  rcases lt_trichotomy v 0 with hneg | hzero | hpos
  · -- negative value: operands are negated first
    have e : sg = -1 := sm.mpr hneg
    subst e
    have hc : cmp (-1) 0 = -1 := by decide
    simp only [hc, if_true]
    obtain ⟨ca, va⟩ := reduceP_spec (n := -(toRational a).n) (ne_of_gt hda)
    obtain ⟨cb, vb⟩ := reduceP_spec (n := -(toRational b).n) (ne_of_gt hdb)
    have va' : (reduceP (-(toRational a).n) (toRational a).d).toQ = -(toRational a).toQ := by
      rw [va]; unfold QM.Num.Rt.toQ; push_cast; ring
    have vb' : (reduceP (-(toRational b).n) (toRational b).d).toQ = -(toRational b).toQ := by
      rw [vb]; unfold QM.Num.Rt.toQ; push_cast; ring
    have hbn' : (reduceP (-(toRational b).n) (toRational b).d).n ≠ 0 := by
      intro h
      have : (reduceP (-(toRational b).n) (toRational b).d).toQ = 0 := by simp [QM.Num.Rt.toQ, h]
      rw [vb'] at this
      apply hb0; simpa [coeffQ] using this
    have hval : (((reduceP (-(toRational a).n) (toRational a).d).toQ : ℚ) : K) +
        (((reduceP (-(toRational b).n) (toRational b).d).toQ : ℚ) : K) * r = -v := by
      rw [va', vb', ← hv]; push_cast; ring
    obtain ⟨f1, f2⟩ := surdFloor_spec (K := K) _ _ ca.1 cb.1 hbn' n hn hsq r hr0 hr (by rw [hval]; linarith)
    rw [hval] at f1 f2
    refine ⟨fun h => absurd h (not_le.mpr hneg), fun _ => ?_⟩
    push_cast; constructor <;> linarith
  · have e : sg = 0 := s0.mpr hzero
    subst e
    rw [hzero]
    simp
  · have e : sg = 1 := s1.mpr hpos
    subst e
    have hc : ¬ cmp 1 0 = -1 := by decide
    simp only [hc, if_false]
    obtain ⟨f1, f2⟩ := surdFloor_spec (K := K) _ _ hda hdb hbn n hn hsq r hr0 hr (by rw [hv]; exact le_of_lt hpos)
    rw [hv] at f1 f2
    refine ⟨fun _ => ?_, fun h => absurd h (not_le.mpr hpos)⟩
    push_cast; constructor <;> linarith

/-- comparison of a canonical surd with an integer is the sign of the difference of the values -/
theorem compare_surd_int {K : Type} [Field K] [LinearOrder K] [IsStrictOrderedRing K]
    (a b : Coeff) (n t : Int) (r : K) (hx : Canon (.surd a b n)) (hr0 : 0 < r) (hr : r * r = (n : K)) :
    ∃ c : Int, Num.compare (some (.surd a b n)) (some (.int t)) = .ok (some c) ∧
      (c = 1 ↔ (t : K) < (coeffQ a : K) + (coeffQ b : K) * r) ∧
      (c = 0 ↔ (coeffQ a : K) + (coeffQ b : K) * r = (t : K)) ∧
      (c = -1 ↔ (coeffQ a : K) + (coeffQ b : K) * r < (t : K)) := by
  have hc : Compatible (.surd a b n) (.int t) := Or.inr (Or.inl rfl)
  have hsr : sharedRadical (.surd a b n) (.int t) = n := by
    have : qb (.surd a b n) ≠ 0 := hx.2.2.1
    simp [sharedRadical, this, rad, explode]
  have h := surd_compare_spec (.surd a b n) (.int t) hx trivial (Or.inl trivial) hc
  rw [hsr] at h
  refine ⟨_, h, ?_⟩
  obtain ⟨s1, s0, sm⟩ := surdSign_sound (K := K) (qa (.surd a b n) - qa (.int t)) (qb (.surd a b n) - qb (.int t)) n r hr0 hr
  have e : (((qa (.surd a b n) - qa (.int t) : ℚ)) : K) + (((qb (.surd a b n) - qb (.int t) : ℚ)) : K) * r =
      ((coeffQ a : K) + (coeffQ b : K) * r) - (t : K) := by
    simp only [qa, qb, toQsqrt]; push_cast; ring
  rw [e] at s1 s0 sm
  exact ⟨s1.trans sub_pos, s0.trans sub_eq_zero, sm.trans sub_neg⟩

/-- `floor` of a surd: the greatest integer below the value -/
theorem floor_surd_spec {K : Type} [Field K] [LinearOrder K] [IsStrictOrderedRing K]
    (a b : Coeff) (n : Int) (r : K) (hx : Canon (.surd a b n)) (hr0 : 0 < r) (hr : r * r = (n : K)) :
    ∃ f : Int, Num.floor (some (.surd a b n)) = .ok (some f) ∧
      (f : K) ≤ (coeffQ a : K) + (coeffQ b : K) * r ∧ (coeffQ a : K) + (coeffQ b : K) * r < f + 1 := by
  obtain ⟨t, ht, htr⟩ := toInt_surd_spec a b n r hx hr0 hr
  obtain ⟨c, hc, c1, c0, cm⟩ := compare_surd_int a b n t r hx hr0 hr
  generalize (coeffQ a : K) + (coeffQ b : K) * r = v at *
  by_cases hlt : v < t
  · have e : c = -1 := cm.mpr hlt
    refine ⟨t - 1, by simp [Num.floor, ht, hc, e], ?_⟩
    have hneg : v ≤ 0 := by
      by_contra h
      have := (htr.1 (le_of_lt (not_le.mp h))).1; linarith
    have := htr.2 hneg
    push_cast; constructor <;> linarith
  · have e : c ≠ -1 := fun h => hlt (cm.mp h)
    refine ⟨t, by simp [Num.floor, ht, hc, e], not_lt.mp hlt, ?_⟩
    by_cases h0 : 0 ≤ v
    · exact (htr.1 h0).2
    · have := (htr.2 (le_of_lt (not_le.mp h0))).2; linarith

/-- `ceil` of a surd: the least integer above the value -/
theorem ceil_surd_spec {K : Type} [Field K] [LinearOrder K] [IsStrictOrderedRing K]
    (a b : Coeff) (n : Int) (r : K) (hx : Canon (.surd a b n)) (hr0 : 0 < r) (hr : r * r = (n : K)) :
    ∃ f : Int, Num.ceil (some (.surd a b n)) = .ok (some f) ∧
      (f : K) - 1 < (coeffQ a : K) + (coeffQ b : K) * r ∧ (coeffQ a : K) + (coeffQ b : K) * r ≤ f := by
  obtain ⟨t, ht, htr⟩ := toInt_surd_spec a b n r hx hr0 hr
  obtain ⟨c, hc, c1, c0, cm⟩ := compare_surd_int a b n t r hx hr0 hr
  generalize (coeffQ a : K) + (coeffQ b : K) * r = v at *
  by_cases hgt : (t : K) < v
  · have e : c = 1 := c1.mpr hgt
    refine ⟨t + 1, by simp [Num.ceil, ht, hc, e], ?_⟩
    have hpos : 0 ≤ v := by
      by_contra h
      have := (htr.2 (le_of_lt (not_le.mp h))).2; linarith
    have := htr.1 hpos
    push_cast; constructor <;> linarith
  · have e : c ≠ 1 := fun h => hgt (c1.mp h)
    refine ⟨t, by simp [Num.ceil, ht, hc, e], ?_, not_lt.mp hgt⟩
    by_cases h0 : v ≤ 0
    · exact (htr.2 h0).1
    · have := (htr.1 (le_of_lt (not_le.mp h0))).1; linarith

/-- the norm `a² − b²·n` of a canonical surd is never zero, so dividing by a canonical surd never
gives nil (only a zero integer / rational divisor does) -/
theorem surd_norm_ne_zero (a b : Coeff) (n : Int) (hx : Canon (.surd a b n)) :
    coeffQ a * coeffQ a - coeffQ b * coeffQ b * (n : ℚ) ≠ 0 := by
  obtain ⟨ha, hb, hb0, hn, hsq⟩ := hx
  have hda := canonCoeff_d_pos ha
  have hdb := canonCoeff_d_pos hb
  intro h
  have hbn : (toRational b).n ≠ 0 := by
    intro h'; apply hb0; simp [coeffQ, QM.Num.Rt.toQ, h']
  have hq : (toRational b).n * (toRational a).d ≠ 0 := mul_ne_zero hbn (ne_of_gt hda)
  apply sqfree_mul_sq_ne_sq n ((toRational b).n * (toRational a).d) ((toRational a).n * (toRational b).d) hn hsq hq
  have hdaq : ((toRational a).d : ℚ) ≠ 0 := by exact_mod_cast (ne_of_gt hda)
  have hdbq : ((toRational b).d : ℚ) ≠ 0 := by exact_mod_cast (ne_of_gt hdb)
  have : (((toRational b).n * (toRational a).d * ((toRational b).n * (toRational a).d) * n : ℤ) : ℚ) =
      (((toRational a).n * (toRational b).d * ((toRational a).n * (toRational b).d) : ℤ) : ℚ) := by
    unfold coeffQ QM.Num.Rt.toQ at h
    field_simp at h
    push_cast
    linarith
  exact_mod_cast this

/-- comparison of a canonical surd with a canonical integer / rational -/
theorem compare_surd_coeff {K : Type} [Field K] [LinearOrder K] [IsStrictOrderedRing K]
    (a b : Coeff) (n : Int) (y : Num) (r : K) (hx : Canon (.surd a b n)) (hy : Canon y) (ny : ¬ isSurd y)
    (hr0 : 0 < r) (hr : r * r = (n : K)) :
    ∃ c : Int, Num.compare (some (.surd a b n)) (some y) = .ok (some c) ∧
      (c = 1 ↔ ((toQ y : ℚ) : K) < (coeffQ a : K) + (coeffQ b : K) * r) ∧
      (c = 0 ↔ (coeffQ a : K) + (coeffQ b : K) * r = ((toQ y : ℚ) : K)) ∧
      (c = -1 ↔ (coeffQ a : K) + (coeffQ b : K) * r < ((toQ y : ℚ) : K)) := by
  have hqb : qb y = 0 := (explode_spec y hy).2.2.2.2.2 ny
  have hqa : qa y = toQ y := by unfold qa; rw [toQsqrt_of_not_surd ny]
  have hc : Compatible (.surd a b n) y := Or.inr (Or.inl hqb)
  have hsr : sharedRadical (.surd a b n) y = n := by
    have : qb (.surd a b n) ≠ 0 := hx.2.2.1
    simp [sharedRadical, this, rad, explode]
  have h := surd_compare_spec (.surd a b n) y hx hy (Or.inl trivial) hc
  rw [hsr] at h
  refine ⟨_, h, ?_⟩
  obtain ⟨s1, s0, sm⟩ := surdSign_sound (K := K) (qa (.surd a b n) - qa y) (qb (.surd a b n) - qb y) n r hr0 hr
  have e : (((qa (.surd a b n) - qa y : ℚ)) : K) + (((qb (.surd a b n) - qb y : ℚ)) : K) * r =
      ((coeffQ a : K) + (coeffQ b : K) * r) - ((toQ y : ℚ) : K) := by
    rw [hqa, hqb]; simp only [qa, qb, toQsqrt]; push_cast; ring
  rw [e] at s1 s0 sm
  exact ⟨s1.trans sub_pos, s0.trans sub_eq_zero, sm.trans sub_neg⟩

/-- `round` of a surd: the nearest integer -/
theorem round_surd_spec {K : Type} [Field K] [LinearOrder K] [IsStrictOrderedRing K]
    (a b : Coeff) (n : Int) (r : K) (hx : Canon (.surd a b n)) (hr0 : 0 < r) (hr : r * r = (n : K)) :
    ∃ z : Int, Num.round (some (.surd a b n)) = .ok (some z) ∧
      (z : K) - 1 / 2 ≤ (coeffQ a : K) + (coeffQ b : K) * r ∧
      (coeffQ a : K) + (coeffQ b : K) * r ≤ (z : K) + 1 / 2 := by
  obtain ⟨f, hf, hf1, hf2⟩ := floor_surd_spec a b n r hx hr0 hr
  obtain ⟨c, hc, c1, c0, cm⟩ := compare_surd_coeff a b n (.rat (f * 2 + 1) 2) r hx (canon_half f) (fun h => h) hr0 hr
  have hmid : ((toQ (.rat (f * 2 + 1) 2) : ℚ) : K) = (f : K) + 1 / 2 := by
    unfold toQ; push_cast; ring
  rw [hmid] at c1 c0 cm
  generalize (coeffQ a : K) + (coeffQ b : K) * r = v at *
  rcases lt_trichotomy v ((f : K) + 1 / 2) with h | h | h
  · have e : c = -1 := cm.mpr h
    exact ⟨f, by simp [Num.round, hf, hc, e], by linarith, by linarith⟩
  · have e : c = 0 := c0.mpr h
    by_cases hneg : f < 0
    · exact ⟨f, by simp [Num.round, hf, hc, e, cmp_eq_neg_one, hneg], by linarith, by linarith⟩
    · exact ⟨f + 1, by simp [Num.round, hf, hc, e, cmp_eq_neg_one, hneg], by push_cast; linarith,
        by push_cast; linarith⟩
  · have e : c = 1 := c1.mpr h
    exact ⟨f + 1, by simp [Num.round, hf, hc, e], by push_cast; linarith, by push_cast; linarith⟩


/-- the statement announced in the design, as one proposition over all ordered fields -/
def toInt_surd_Statement : Prop :=
  ∀ (K : Type) [Field K] [LinearOrder K] [IsStrictOrderedRing K] (a b : Coeff) (n : Int) (r : K),
    Canon (.surd a b n) → 0 < r → r * r = (n : K) →
    ∃ t : Int, Num.toInt (some (.surd a b n)) = .ok (some t) ∧
      ((0 ≤ (coeffQ a : K) + (coeffQ b : K) * r →
          (t : K) ≤ (coeffQ a : K) + (coeffQ b : K) * r ∧ (coeffQ a : K) + (coeffQ b : K) * r < t + 1) ∧
       ((coeffQ a : K) + (coeffQ b : K) * r ≤ 0 →
          (t : K) - 1 < (coeffQ a : K) + (coeffQ b : K) * r ∧ (coeffQ a : K) + (coeffQ b : K) * r ≤ t))

theorem toInt_surd_full : toInt_surd_Statement :=
  fun _ _ _ _ a b n r hx hr0 hr => toInt_surd_spec a b n r hx hr0 hr

example : Canon (.surd (.int (-3)) (.int 1) 2) := by
  refine ⟨trivial, trivial, by simp [coeffQ, toRational, QM.Num.Rt.toQ], by decide, ?_⟩
  intro e he hdiv
  have h1 : e * e ≤ 2 := Int.le_of_dvd (by decide) hdiv
  nlinarith

/-! ### negation and absolute value of surds -/


/-- negation of a surd negates both coordinates (and stays a canonical surd) -/
theorem neg_surd_spec (a b : Coeff) (n : Int) (hx : Canon (.surd a b n)) :
    ∃ z, Num.neg (some (.surd a b n)) = .ok (some z) ∧ Canon z ∧
      Denotes z (-coeffQ a) (-coeffQ b) n := by
  obtain ⟨ha, hb, hb0, hn, hsq⟩ := hx
  obtain ⟨a', ha1, ha2, ha3⟩ := rneg_spec (x := toRational a) (ne_of_gt (canonCoeff_d_pos ha))
  obtain ⟨b', hb1, hb2, hb3⟩ := rneg_spec (x := toRational b) (ne_of_gt (canonCoeff_d_pos hb))
  obtain ⟨z, hz, hc, hd⟩ := build_spec ha2 hb2 hn hsq
  refine ⟨z, by simp [Num.neg, ha1, hb1, hz], hc, ?_⟩
  rw [ha3, hb3] at hd; exact hd

/-- absolute value of a surd: the operand itself unless its sign (`surdSign`, i.e. the sign of
`a + b·√n` by `surdSign_sound`) is negative, then its negation -/
theorem abs_surd_spec (a b : Coeff) (n : Int) (hx : Canon (.surd a b n)) :
    ∃ z, Num.abs (some (.surd a b n)) = .ok (some z) ∧ Canon z ∧
      (surdSign (coeffQ a) (coeffQ b) n = -1 → Denotes z (-coeffQ a) (-coeffQ b) n) ∧
      (surdSign (coeffQ a) (coeffQ b) n ≠ -1 → z = .surd a b n) := by
  obtain ⟨z, hz, hc, hd⟩ := neg_surd_spec a b n hx
  have hx' := hx
  obtain ⟨ha, hb, hb0, hn, hsq⟩ := hx
  have hs := ssign_eq (toRational a) (toRational b) n (canonCoeff_d_pos ha) (canonCoeff_d_pos hb)
  obtain ⟨a', ha1, ha2, ha3⟩ := rneg_spec (x := toRational a) (ne_of_gt (canonCoeff_d_pos ha))
  obtain ⟨b', hb1, hb2, hb3⟩ := rneg_spec (x := toRational b) (ne_of_gt (canonCoeff_d_pos hb))
  by_cases h : surdSign (toRational a).toQ (toRational b).toQ n = -1
  · refine ⟨z, ?_, hc, fun _ => hd, fun h' => absurd h h'⟩
    have : Num.neg (some (.surd a b n)) = (do
        let a' ← rneg (toRational a); let b' ← rneg (toRational b); let z ← build a' b' n; pure (some z)) := rfl
    rw [this] at hz
    simp only [Num.abs, hs, ok_bind, h, if_true]
    exact hz
  · exact ⟨.surd a b n, by simp [Num.abs, hs, h], hx', fun h' => absurd h' h, fun _ => rfl⟩

end C20
