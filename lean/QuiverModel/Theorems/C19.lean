import QuiverModel.Lemmas.Dict.Spec
import QuiverModel.Lemmas.Dict.Entries
import QuiverModel.Lemmas.Dict.Canonical
import QuiverModel.Lemmas.Dict.BuiltinsTie
/-
C19 — the dict module behaves as a finite map.

Property theorems about M-Dict (`QuiverModel/Core/Dict.lean`, a branch-by-branch translation of
`std/dict.qv`), for **every key type `K` with decidable equality and every hash function
`hash : K → Nat` with `hash k < 2^32`** — hence for key sets that collide in every 5-bit fragment
and in the full 32-bit hash (take a constant `hash`: see the examples at the end).

* `toMap d : K → Option V` is the abstraction (first binding among the contents `toList d`; no hash
  function involved); `Inv hash d` is the representation invariant (`Empty`, or `WF hash d 0 0`,
  see `Lemmas/Dict/Spec.lean`: hash-prefix placement, `popcount bitmap = #children` in slot order,
  no `Empty` child, buckets ≥ 2 entries with one hash and distinct keys, a lone child is a node).
* `put` is fuelled (only `split_pair`/`split_node` consume fuel): the specification theorems hold
  for *every* fuel that returns a result, and `put_fuel_suffices` shows fuel 8 always does.
-/
namespace C19
open QM.Dict

variable {K V : Type} [DecidableEq K] {hash : K → Nat}

/-- representation invariant of a whole dict -/
def Inv (hash : K → Nat) (d : Dict K V) : Prop := WF0 hash d 0 0

/-! ### membership form (the work-horses, at the root) -/

theorem get_iff_mem {d : Dict K V} (h : Inv hash d) (k : K) (v : V) :
    Api.get hash d k = some v ↔ (k, v) ∈ toList d := by
  rcases h with rfl | h
  · simp [Api.get, QM.Dict.get]
  · exact get_iff h k v (Nat.mod_one _)

theorem put_mem (hb : ∀ k, hash k < 2 ^ 32) {d d' : Dict K V} (h : Inv hash d) {fuel : Nat} {k : K}
    {v : V} (hput : Api.put hash fuel d k v = some d') :
    WF hash d' 0 0 ∧ ∀ e, e ∈ toList d' ↔ e = (k, v) ∨ (e.1 ≠ k ∧ e ∈ toList d) := by
  rcases h with rfl | h
  · simp only [Api.put, put, Option.some.injEq] at hput
    subst hput
    exact ⟨WF.leaf rfl (Nat.mod_one _), by intro e; simp⟩
  · obtain ⟨w1, w2, _⟩ := put_spec hb h fuel k v (Nat.mod_one _) d' hput
    exact ⟨w1, w2⟩

theorem remove_mem {d : Dict K V} (h : Inv hash d) (k : K) :
    Inv hash (Api.remove hash d k) ∧
      ∀ e, e ∈ toList (Api.remove hash d k) ↔ (e.1 ≠ k ∧ e ∈ toList d) := by
  rcases h with rfl | h
  · simp [Api.remove, remove, Inv, WF0]
  · exact remove_spec h k (Nat.mod_one _)

/-- the contents of a well-formed dict bind every key at most once -/
theorem contents_functional {d : Dict K V} (h : Inv hash d) {k : K} {v v' : V}
    (h1 : (k, v) ∈ toList d) (h2 : (k, v') ∈ toList d) : v = v' := by
  have a := (get_iff_mem h k v).mpr h1
  have b := (get_iff_mem h k v').mpr h2
  rw [a] at b; exact Option.some.inj b

theorem lookup_eq_some_iff {l : List (K × V)} {k : K}
    (hf : ∀ v v', (k, v) ∈ l → (k, v') ∈ l → v = v') (v : V) :
    l.lookup k = some v ↔ (k, v) ∈ l := by
  induction l with
  | nil => simp
  | cons e t ih =>
    obtain ⟨a, b⟩ := e
    rw [List.lookup_cons]
    by_cases hka : k = a
    · subst hka
      simp only [BEq.rfl, Option.some.injEq, List.mem_cons, Prod.mk.injEq, true_and]
      constructor
      · intro h; exact Or.inl h.symm
      · rintro (h | h)
        · exact h.symm
        · exact hf b v (by simp) (by simp [h])
    · have : (k == a) = false := by simpa using hka
      simp only [this, List.mem_cons, Prod.mk.injEq, hka, false_and, false_or]
      exact ih (fun v v' h1 h2 => hf v v' (by simp [h1]) (by simp [h2]))

theorem toMap_eq_some_iff {d : Dict K V} (h : Inv hash d) (k : K) (v : V) :
    toMap d k = some v ↔ (k, v) ∈ toList d :=
  lookup_eq_some_iff (fun _ _ h1 h2 => contents_functional h h1 h2) v

/-! ### invariant preservation -/

omit [DecidableEq K] in
theorem new_wf : Inv hash (Api.new : Dict K V) := Or.inl rfl

/-- `put` preserves the invariant (for every fuel that returns a result) -/
theorem put_wf (hb : ∀ k, hash k < 2 ^ 32) {d d' : Dict K V} (h : Inv hash d) {fuel : Nat} {k : K}
    {v : V} (hput : Api.put hash fuel d k v = some d') : Inv hash d' :=
  Or.inr (put_mem hb h hput).1

/-- `remove` preserves the invariant -/
theorem remove_wf {d : Dict K V} (h : Inv hash d) (k : K) : Inv hash (Api.remove hash d k) :=
  (remove_mem h k).1

/-- under the invariant, fuel 8 (`defaultFuel`, what the driver uses) is always enough: 7 levels
of 5-bit fragments separate any two different 32-bit hashes -/
theorem put_fuel_suffices (hb : ∀ k, hash k < 2 ^ 32) {d : Dict K V} (h : Inv hash d) {fuel : Nat}
    (hfuel : 8 ≤ fuel) (k : K) (v : V) : (Api.put hash fuel d k v).isSome = true := by
  rcases h with rfl | h
  · simp [Api.put, put]
  · exact put_isSome hb h fuel k v (Nat.mod_one _) (by omega) (by omega)

/-! ### refinement: `get`/`put`/`remove` against the abstraction `toMap` -/

/-- `get` computes the abstraction -/
theorem get_spec {d : Dict K V} (h : Inv hash d) (k : K) : Api.get hash d k = toMap d k := by
  apply Option.ext
  intro v
  rw [get_iff_mem h, toMap_eq_some_iff h]

/-- `put` is `Function.update (toMap d) k (some v)` -/
theorem put_spec (hb : ∀ k, hash k < 2 ^ 32) {d d' : Dict K V} (h : Inv hash d) {fuel : Nat} {k : K}
    {v : V} (hput : Api.put hash fuel d k v = some d') (k' : K) :
    toMap d' k' = if k' = k then some v else toMap d k' := by
  have h' := put_wf hb h hput
  obtain ⟨_, w⟩ := put_mem hb h hput
  apply Option.ext
  intro x
  rw [toMap_eq_some_iff h', w]
  by_cases hkk : k' = k
  · subst hkk; simp; exact eq_comm
  · simp only [hkk, if_false, toMap_eq_some_iff h]
    simp [hkk]

/-- `remove` is `Function.update (toMap d) k none` -/
theorem remove_spec {d : Dict K V} (h : Inv hash d) (k k' : K) :
    toMap (Api.remove hash d k) k' = if k' = k then none else toMap d k' := by
  obtain ⟨h', w⟩ := remove_mem h k
  apply Option.ext
  intro x
  rw [toMap_eq_some_iff h', w]
  by_cases hkk : k' = k
  · subst hkk; simp
  · simp only [hkk, if_false, toMap_eq_some_iff h]
    simp [hkk]

/-! ### the headline laws, stated on the module's own `get` -/

theorem get_new (k : K) : Api.get hash (Api.new : Dict K V) k = none := by
  simp [Api.get, Api.new, QM.Dict.get]

theorem get_put_same (hb : ∀ k, hash k < 2 ^ 32) {d d' : Dict K V} (h : Inv hash d) {fuel : Nat}
    {k : K} {v : V} (hput : Api.put hash fuel d k v = some d') : Api.get hash d' k = some v := by
  rw [get_spec (put_wf hb h hput), put_spec hb h hput]; simp

theorem get_put_other (hb : ∀ k, hash k < 2 ^ 32) {d d' : Dict K V} (h : Inv hash d) {fuel : Nat}
    {k k' : K} {v : V} (hput : Api.put hash fuel d k v = some d') (hne : k' ≠ k) :
    Api.get hash d' k' = Api.get hash d k' := by
  rw [get_spec (put_wf hb h hput), put_spec hb h hput, get_spec h]; simp [hne]

theorem get_remove_same {d : Dict K V} (h : Inv hash d) (k : K) :
    Api.get hash (Api.remove hash d k) k = none := by
  rw [get_spec (remove_wf h k), remove_spec h]; simp

theorem get_remove_other {d : Dict K V} (h : Inv hash d) {k k' : K} (hne : k' ≠ k) :
    Api.get hash (Api.remove hash d k) k' = Api.get hash d k' := by
  rw [get_spec (remove_wf h k), remove_spec h, get_spec h]; simp [hne]

/-- `has?` is definedness of the abstraction -/
theorem has_spec {d : Dict K V} (h : Inv hash d) (k : K) :
    Api.has hash d k = (toMap d k).isSome := by
  simp only [Api.has]
  rw [← get_spec h]; rfl

/-- persistence: operations return new values; the old version (a value of the pure model) still
denotes the same map and answers `get` as before — whatever is done with the new version. -/
theorem persistence (hb : ∀ k, hash k < 2 ^ 32) {d d1 : Dict K V} (h : Inv hash d) {fuel : Nat} {k : K}
    {v : V} (_hput : Api.put hash fuel d k v = some d1) (k2 k' : K) :
    let _d2 := Api.remove hash d k2
    Api.get hash d k' = toMap d k' ∧ Inv hash d := by
  have _ := hb
  exact ⟨get_spec h k', h⟩

/-! ### `entries`, `count`, `keys`, `values` -/

omit [DecidableEq K] in
theorem Inv.keys_nodup {d : Dict K V} (h : Inv hash d) : ((toList d).map (·.1)).Nodup := by
  rcases h with rfl | h
  · simp
  · exact h.keys_nodup

omit [DecidableEq K] in
/-- `entries` lists the contents (in the traversal's order) -/
theorem entries_perm (d : Dict K V) : (Api.entries d).Perm (toList d) := by
  have := QM.Dict.entries_perm [d] []
  simpa [Api.entries] using this

/-- `entries`: distinct keys, and exactly the bindings of the abstraction -/
theorem entries_spec {d : Dict K V} (h : Inv hash d) :
    ((Api.entries d).map (·.1)).Nodup ∧
      ∀ k v, (k, v) ∈ Api.entries d ↔ toMap d k = some v := by
  constructor
  · exact ((entries_perm d).map _).nodup_iff.mpr h.keys_nodup
  · intro k v
    rw [(entries_perm d).mem_iff, toMap_eq_some_iff h]

omit [DecidableEq K] in
theorem count_eq_length (d : Dict K V) : Api.count d = (Api.entries d).length := by
  simp [Api.count, Api.entries, length_eq]

omit [DecidableEq K] in
theorem keys_eq (d : Dict K V) : Api.keys d = (Api.entries d).map (·.1) := by
  simp [Api.keys, Api.entries, map_eq]

omit [DecidableEq K] in
theorem values_eq (d : Dict K V) : Api.values d = (Api.entries d).map (·.2) := by
  simp [Api.values, Api.entries, map_eq]

/-- `count` is the size of the domain of the abstraction: it equals the length of ANY duplicate-free
enumeration of the keys bound by `toMap d`. -/
theorem count_spec {d : Dict K V} (h : Inv hash d) (ks : List K) (hn : ks.Nodup)
    (hks : ∀ k, k ∈ ks ↔ (toMap d k).isSome = true) : Api.count d = ks.length := by
  rw [count_eq_length, ← List.length_map (f := (·.1))]
  obtain ⟨h1, h2⟩ := entries_spec h
  apply List.Perm.length_eq
  rw [List.perm_ext_iff_of_nodup h1 hn]
  intro k
  rw [hks, List.mem_map]
  constructor
  · rintro ⟨⟨a, b⟩, he, rfl⟩
    rw [(h2 a b).mp he]; rfl
  · intro hk
    obtain ⟨v, hv⟩ := Option.isSome_iff_exists.mp hk
    exact ⟨(k, v), (h2 k v).mpr hv, rfl⟩

/-- `keys` enumerates the domain without repetition -/
theorem keys_spec {d : Dict K V} (h : Inv hash d) :
    (Api.keys d).Nodup ∧ ∀ k, k ∈ Api.keys d ↔ (toMap d k).isSome = true := by
  obtain ⟨h1, h2⟩ := entries_spec h
  rw [keys_eq]
  refine ⟨h1, ?_⟩
  intro k
  rw [List.mem_map]
  constructor
  · rintro ⟨⟨a, b⟩, he, rfl⟩
    rw [(h2 a b).mp he]; rfl
  · intro hk
    obtain ⟨v, hv⟩ := Option.isSome_iff_exists.mp hk
    exact ⟨(k, v), (h2 k v).mpr hv, rfl⟩

/-- replacing does not change the size, inserting adds one -/
theorem count_put (hb : ∀ k, hash k < 2 ^ 32) {d d' : Dict K V} (h : Inv hash d) {fuel : Nat} {k : K}
    {v : V} (hput : Api.put hash fuel d k v = some d') :
    Api.count d' = if (toMap d k).isSome then Api.count d else Api.count d + 1 := by
  have h' := put_wf hb h hput
  obtain ⟨n', m'⟩ := keys_spec h'
  obtain ⟨n, m⟩ := keys_spec h
  have hm : ∀ k', k' ∈ Api.keys d' ↔ k' = k ∨ k' ∈ Api.keys d := by
    intro k'
    rw [m', m, put_spec hb h hput]
    by_cases hkk : k' = k <;> simp [hkk]
  by_cases hk : (toMap d k).isSome = true
  · simp only [hk, if_true]
    rw [count_spec h' (Api.keys d) n (fun k' => by
      rw [← m', hm]
      constructor
      · intro h; exact Or.inr h
      · rintro (rfl | h)
        · exact (m _).mpr hk
        · exact h)]
    rw [count_eq_length, keys_eq, List.length_map]
  · simp only [hk, Bool.false_eq_true, if_false]
    have hnk : k ∉ Api.keys d := fun hc => hk ((m k).mp hc)
    rw [count_spec h' (k :: Api.keys d) (List.nodup_cons.mpr ⟨hnk, n⟩) (fun k' => by
      rw [← m', hm]; simp)]
    rw [count_eq_length d, keys_eq, List.length_cons, List.length_map]

/-- removing a bound key takes one off, removing an absent key changes nothing -/
theorem count_remove {d : Dict K V} (h : Inv hash d) (k : K) :
    Api.count (Api.remove hash d k) + (if (toMap d k).isSome then 1 else 0) = Api.count d := by
  have h' := remove_wf h k
  obtain ⟨n', m'⟩ := keys_spec h'
  obtain ⟨n, m⟩ := keys_spec h
  have hm : ∀ k', k' ∈ Api.keys (Api.remove hash d k) ↔ k' ≠ k ∧ k' ∈ Api.keys d := by
    intro k'
    rw [m', m, remove_spec h]
    by_cases hkk : k' = k <;> simp [hkk]
  by_cases hk : (toMap d k).isSome = true
  · simp only [hk, if_true]
    have hkin : k ∈ Api.keys d := (m k).mpr hk
    rw [count_spec h (k :: Api.keys (Api.remove hash d k))
      (List.nodup_cons.mpr ⟨fun hc => ((hm k).mp hc).1 rfl, n'⟩) (fun k' => by
        rw [← m, List.mem_cons, hm]
        by_cases hkk : k' = k
        · subst hkk; simp [hkin]
        · simp [hkk])]
    rw [count_eq_length, keys_eq, List.length_cons, List.length_map]
  · simp only [hk, Bool.false_eq_true, if_false, Nat.add_zero]
    have hnk : k ∉ Api.keys d := fun hc => hk ((m k).mp hc)
    rw [count_spec h (Api.keys (Api.remove hash d k)) n' (fun k' => by
      rw [← m, hm]
      constructor
      · exact fun h => h.2
      · intro h; exact ⟨fun hkk => hnk (hkk ▸ h), h⟩)]
    rw [count_eq_length, keys_eq, List.length_map]

/-! ### `from`, `merge` — later bindings win -/

/-- the map denoted by a list of pairs put one after the other onto `m` -/
def putAll (m : K → Option V) (pairs : List (K × V)) : K → Option V :=
  pairs.foldl (fun m e k' => if k' = e.1 then some e.2 else m k') m

theorem fromList_spec (hb : ∀ k, hash k < 2 ^ 32) {fuel : Nat} :
    ∀ (pairs : List (K × V)) {d d' : Dict K V}, Inv hash d → fromList hash fuel d pairs = some d' →
      Inv hash d' ∧ toMap d' = putAll (toMap d) pairs := by
  intro pairs
  induction pairs with
  | nil => intro d d' h hf; simp only [fromList, Option.some.injEq] at hf; subst hf; exact ⟨h, rfl⟩
  | cons e t ih =>
    intro d d' h hf
    obtain ⟨k, v⟩ := e
    simp only [fromList] at hf
    cases hp : put fuel d k v (hash k) 0 with
    | none => simp [hp] at hf
    | some d1 =>
      simp only [hp] at hf
      have hput : Api.put hash fuel d k v = some d1 := hp
      obtain ⟨w1, w2⟩ := ih (put_wf hb h hput) hf
      refine ⟨w1, ?_⟩
      rw [w2]
      simp only [putAll, List.foldl_cons]
      congr 1
      funext k'
      exact put_spec hb h hput k'

theorem fromList_isSome (hb : ∀ k, hash k < 2 ^ 32) {fuel : Nat} (hfuel : 8 ≤ fuel) :
    ∀ (pairs : List (K × V)) {d : Dict K V}, Inv hash d → (fromList hash fuel d pairs).isSome = true := by
  intro pairs
  induction pairs with
  | nil => intro d _; simp [fromList]
  | cons e t ih =>
    intro d h
    obtain ⟨k, v⟩ := e
    simp only [fromList]
    have := put_fuel_suffices hb h hfuel k v
    cases hp : put fuel d k v (hash k) 0 with
    | none => simp [Api.put, hp] at this
    | some d1 => exact ih (put_wf hb h (show Api.put hash fuel d k v = some d1 from hp))

/-- `from`: the pairs put in order onto the empty map (so a later pair with the same key wins) -/
theorem from_spec (hb : ∀ k, hash k < 2 ^ 32) {fuel : Nat} {pairs : List (K × V)} {d' : Dict K V}
    (hf : Api.from hash fuel pairs = some d') :
    Inv hash d' ∧ toMap d' = putAll (fun _ => none) pairs := by
  have := fromList_spec hb pairs (new_wf (hash := hash) (V := V)) hf
  have h0 : toMap (Dict.empty : Dict K V) = fun _ => none := by funext k; simp [toMap]
  rw [← h0]; exact this

theorem putAll_lookup (m : K → Option V) (pairs : List (K × V)) (k : K) :
    putAll m pairs k = (pairs.reverse.lookup k).or (m k) := by
  induction pairs generalizing m with
  | nil => simp [putAll]
  | cons e t ih =>
    obtain ⟨a, b⟩ := e
    simp only [putAll, List.foldl_cons] at ih ⊢
    rw [ih]
    simp only [List.reverse_cons, List.lookup_append, List.lookup_cons, List.lookup_nil]
    by_cases hka : k = a
    · subst hka; cases List.lookup k t.reverse <;> simp
    · have : (k == a) = false := by simpa using hka
      cases List.lookup k t.reverse <;> simp [hka, this]

/-- `merge a b`: `b`'s bindings win, `a`'s show through where `b` has none -/
theorem merge_spec (hb : ∀ k, hash k < 2 ^ 32) {fuel : Nat} {a b d' : Dict K V} (ha : Inv hash a)
    (hbi : Inv hash b) (hm : Api.merge hash fuel a b = some d') (k : K) :
    Inv hash d' ∧ toMap d' k = (toMap b k).or (toMap a k) := by
  obtain ⟨w1, w2⟩ := fromList_spec hb (QM.Dict.entries [b] []) ha hm
  refine ⟨w1, ?_⟩
  rw [w2, putAll_lookup]
  congr 1
  -- lookup in the reversed entry list of `b` = `toMap b`
  apply Option.ext
  intro v
  obtain ⟨n, m⟩ := entries_spec hbi
  have hf : ∀ v v', (k, v) ∈ (Api.entries b).reverse → (k, v') ∈ (Api.entries b).reverse → v = v' := by
    intro v v' h1 h2
    rw [List.mem_reverse] at h1 h2
    have a1 := (m k v).mp h1
    have a2 := (m k v').mp h2
    rw [a1] at a2; exact Option.some.inj a2
  have := lookup_eq_some_iff hf v
  simp only [Api.entries] at this m
  rw [this, List.mem_reverse, m]

/-! ### histories: any sequence of insertions, replacements and removals -/

/-- an updating operation of a history -/
inductive Cmd (K V : Type) where
  | put (k : K) (v : V)
  | remove (k : K)

/-- what the operation does to the trie … -/
def Cmd.run (hash : K → Nat) (fuel : Nat) (d : Dict K V) : Cmd K V → Option (Dict K V)
  | .put k v => Api.put hash fuel d k v
  | .remove k => some (Api.remove hash d k)

/-- … and what it means for a finite map -/
def Cmd.denote (m : K → Option V) : Cmd K V → K → Option V
  | .put k v => fun k' => if k' = k then some v else m k'
  | .remove k => fun k' => if k' = k then none else m k'

/-- run a whole history from a given dict -/
def runHistory (hash : K → Nat) (fuel : Nat) : Dict K V → List (Cmd K V) → Option (Dict K V)
  | d, [] => some d
  | d, c :: cs => match c.run hash fuel d with
    | none => none
    | some d' => runHistory hash fuel d' cs

theorem runHistory_spec (hb : ∀ k, hash k < 2 ^ 32) {fuel : Nat} :
    ∀ (cs : List (Cmd K V)) {d d' : Dict K V}, Inv hash d → runHistory hash fuel d cs = some d' →
      Inv hash d' ∧ toMap d' = cs.foldl Cmd.denote (toMap d) := by
  intro cs
  induction cs with
  | nil => intro d d' h hr; simp only [runHistory, Option.some.injEq] at hr; subst hr; exact ⟨h, rfl⟩
  | cons c cs ih =>
    intro d d' h hr
    simp only [runHistory] at hr
    cases c with
    | put k v =>
      simp only [Cmd.run] at hr
      cases hp : Api.put hash fuel d k v with
      | none => simp [hp] at hr
      | some d1 =>
        simp only [hp] at hr
        obtain ⟨w1, w2⟩ := ih (put_wf hb h hp) hr
        refine ⟨w1, ?_⟩
        rw [w2, List.foldl_cons]
        congr 1
        funext k'
        exact put_spec hb h hp k'
    | remove k =>
      simp only [Cmd.run] at hr
      obtain ⟨w1, w2⟩ := ih (remove_wf h k) hr
      refine ⟨w1, ?_⟩
      rw [w2, List.foldl_cons]
      congr 1
      funext k'
      exact remove_spec h k k'

/-- **the property, as stated**: after any sequence of insertions, replacements and removals
starting from `new`, `get` returns for every key the value most recently stored and not since
removed (`none` otherwise) — i.e. what the same sequence does to the empty finite map — and the
invariant holds. For every hash function, every fuel that returns a result. -/
theorem history_spec (hb : ∀ k, hash k < 2 ^ 32) {fuel : Nat} (cs : List (Cmd K V)) {d : Dict K V}
    (hr : runHistory hash fuel (Api.new : Dict K V) cs = some d) (k : K) :
    Inv hash d ∧ Api.get hash d k = cs.foldl Cmd.denote (fun _ => none) k := by
  obtain ⟨w1, w2⟩ := runHistory_spec hb cs (new_wf (hash := hash) (V := V)) hr
  refine ⟨w1, ?_⟩
  rw [get_spec w1, w2]
  have h0 : toMap (Api.new : Dict K V) = fun _ => none := by funext k; simp [toMap, Api.new]
  rw [h0]

/-- … and with fuel 8 every history does return a result -/
theorem history_total (hb : ∀ k, hash k < 2 ^ 32) {fuel : Nat} (hfuel : 8 ≤ fuel) :
    ∀ (cs : List (Cmd K V)) {d : Dict K V}, Inv hash d → (runHistory hash fuel d cs).isSome = true := by
  intro cs
  induction cs with
  | nil => intro d _; simp [runHistory]
  | cons c cs ih =>
    intro d h
    simp only [runHistory]
    cases c with
    | put k v =>
      simp only [Cmd.run]
      have := put_fuel_suffices hb h hfuel k v
      cases hp : Api.put hash fuel d k v with
      | none => simp [hp] at this
      | some d1 => exact ih (put_wf hb h hp)
    | remove k =>
      simp only [Cmd.run]
      exact ih (remove_wf h k)

/-! ### canonical shape -/

/-- **the shape of a dict depends only on its contents** (the module's own claim, comment above
`collapse_node`): two dicts satisfying the invariant that denote the same map are the same tree, up
to the order of entries inside collision buckets — whatever sequences of insertions and removals
produced them. -/
theorem canonical_shape {d₁ d₂ : Dict K V} (h₁ : Inv hash d₁) (h₂ : Inv hash d₂)
    (h : ∀ k, toMap d₁ k = toMap d₂ k) : Similar d₁ d₂ := by
  have hc : ∀ e, e ∈ toList d₁ ↔ e ∈ toList d₂ := by
    intro e; obtain ⟨a, b⟩ := e
    rw [← toMap_eq_some_iff h₁, ← toMap_eq_some_iff h₂, h]
  rcases h₁ with rfl | w₁ <;> rcases h₂ with rfl | w₂
  · exact Similar.empty
  · obtain ⟨e, he⟩ := List.exists_mem_of_ne_nil _ w₂.toList_ne_nil
    have := (hc e).mpr he
    simp at this
  · obtain ⟨e, he⟩ := List.exists_mem_of_ne_nil _ w₁.toList_ne_nil
    have := (hc e).mp he
    simp at this
  · exact canonical w₁ w₂ hc

/-- without collision buckets "the same tree" is plain equality -/
theorem similar_refl_example : Similar (Dict.leaf 7 1 "a") (Dict.leaf 7 1 "a") := Similar.leaf

/-! ### insertion order does not matter; `values` -/

omit [DecidableEq K] in
theorem nodup_keys_functional {l : List (K × V)} (hn : (l.map (·.1)).Nodup) {k : K} {v v' : V}
    (h1 : (k, v) ∈ l) (h2 : (k, v') ∈ l) : v = v' := by
  induction l with
  | nil => simp at h1
  | cons e t ih =>
    obtain ⟨a, b⟩ := e
    simp only [List.map_cons, List.nodup_cons, List.mem_map, Prod.exists, exists_and_right,
      exists_eq_right, not_exists] at hn
    simp only [List.mem_cons, Prod.mk.injEq] at h1 h2
    rcases h1 with ⟨rfl, rfl⟩ | h1 <;> rcases h2 with ⟨h2a, rfl⟩ | h2
    · rfl
    · exact absurd h2 (hn.1 _)
    · subst h2a; exact absurd h1 (hn.1 _)
    · exact ih hn.2 h1 h2

/-- `from` of a duplicate-free list denotes the list itself … -/
theorem from_nodup_spec (hb : ∀ k, hash k < 2 ^ 32) {fuel : Nat} {pairs : List (K × V)}
    (hn : (pairs.map (·.1)).Nodup) {d : Dict K V} (hf : Api.from hash fuel pairs = some d) (k : K)
    (v : V) : toMap d k = some v ↔ (k, v) ∈ pairs := by
  obtain ⟨_, w⟩ := from_spec hb hf
  rw [w, putAll_lookup]
  simp only [Option.or_none]
  have hn' : (pairs.reverse.map (·.1)).Nodup := by
    rw [List.map_reverse]; exact (List.reverse_perm _).nodup_iff.mpr hn
  rw [lookup_eq_some_iff (fun _ _ h1 h2 => nodup_keys_functional hn' h1 h2), List.mem_reverse]

/-- … so building a dict from the same bindings in ANY order gives the same tree (up to the order
of entries inside collision buckets): the shape is independent of the insertion order. -/
theorem from_perm (hb : ∀ k, hash k < 2 ^ 32) {fuel : Nat} {ps qs : List (K × V)} (hp : ps.Perm qs)
    (hn : (ps.map (·.1)).Nodup) {d₁ d₂ : Dict K V} (h₁ : Api.from hash fuel ps = some d₁)
    (h₂ : Api.from hash fuel qs = some d₂) : Similar d₁ d₂ := by
  have hn₂ : (qs.map (·.1)).Nodup := (hp.map _).nodup_iff.mp hn
  apply canonical_shape (from_spec hb h₁).1 (from_spec hb h₂).1
  intro k
  apply Option.ext
  intro v
  rw [from_nodup_spec hb hn h₁, from_nodup_spec hb hn₂ h₂, hp.mem_iff]

omit [DecidableEq K] in
/-- `values` is, as a multiset, the values of the contents -/
theorem values_perm (d : Dict K V) : (Api.values d).Perm ((toList d).map (·.2)) := by
  rw [values_eq]; exact (entries_perm d).map _

/-- `values` lists exactly the stored values -/
theorem values_spec {d : Dict K V} (h : Inv hash d) (v : V) :
    v ∈ Api.values d ↔ ∃ k, toMap d k = some v := by
  rw [values_eq, List.mem_map]
  obtain ⟨_, m⟩ := entries_spec h
  constructor
  · rintro ⟨⟨a, b⟩, he, rfl⟩; exact ⟨a, (m a b).mp he⟩
  · rintro ⟨k, hk⟩; exact ⟨(k, v), (m k v).mpr hk, rfl⟩

/-! ### the shipped instance: keys are binaries or `Str[binary]`, the hash is FNV-1a 32 -/

/-- `Str[b]` and `b` are different keys with the same hash: every byte string yields a full 32-bit
collision for free (the module hashes `key_bytes`, but compares keys structurally) -/
theorem twins_collide (b : List UInt8) :
    keyHash (Key.str b) = keyHash (Key.bin b) ∧ Key.str b ≠ Key.bin b := ⟨rfl, by simp⟩

/-- For the module as shipped (`hash = keyHash`, fuel 8) `put` is total on well-formed dicts, keeps
the invariant, and is a point update of what `get` returns — with no side condition left. -/
theorem shipped_put {V : Type} {d : Dict Key V} (h : Inv keyHash d) (k : Key) (v : V) :
    ∃ d', Api.put keyHash defaultFuel d k v = some d' ∧ Inv keyHash d' ∧
      ∀ k', Api.get keyHash d' k' = if k' = k then some v else Api.get keyHash d k' := by
  have hs := put_fuel_suffices keyHash_lt h (fuel := defaultFuel) (by decide) k v
  obtain ⟨d', hd'⟩ := Option.isSome_iff_exists.mp hs
  refine ⟨d', hd', put_wf keyHash_lt h hd', ?_⟩
  intro k'
  rw [get_spec (put_wf keyHash_lt h hd'), put_spec keyHash_lt h hd', get_spec h]

/-- the same for `remove` -/
theorem shipped_remove {V : Type} {d : Dict Key V} (h : Inv keyHash d) (k : Key) :
    Inv keyHash (Api.remove keyHash d k) ∧
      ∀ k', Api.get keyHash (Api.remove keyHash d k) k' = if k' = k then none else Api.get keyHash d k' := by
  refine ⟨remove_wf h k, ?_⟩
  intro k'
  rw [get_spec (remove_wf h k), remove_spec h, get_spec h]

/-! ### tie to the builtin model of C12 (`QM.Builtins.*`, the model of builtins/integer.rs and
binary.rs): on the ranges the module uses, the i64 builtins compute what M-Dict computes on `Nat` -/

theorem builtin_fragment_tie {h s : Nat} (hh : h < 2 ^ 63) (hs : s < 2 ^ 63) :
    ((QM.Builtins.integerSubtract 0 (s : Int)).bind fun ns =>
      (QM.Builtins.integerShift h ns).bind fun x => QM.Builtins.integerAnd x 31) =
      .ok ((fragment h s : Nat) : Int) := fragment_tie hh hs

theorem builtin_slotIndex_tie {bitmap bit : Nat} (hb : bitmap < 2 ^ 63) (hbit : bit < 2 ^ 63)
    (h1 : 1 ≤ bit) :
    ((QM.Builtins.integerSubtract (bit : Int) 1).bind fun m =>
      (QM.Builtins.integerAnd bitmap m).bind QM.Builtins.integerPopcount) =
      .ok ((slotIndex bitmap bit : Nat) : Int) := slotIndex_tie hb hbit h1

theorem builtin_bit_tie {f : Nat} (hf : f < 63) :
    QM.Builtins.integerShift 1 (f : Int) = .ok ((1 <<< f : Nat) : Int) := integerShift_left_tie hf

theorem builtin_and_tie {a b : Nat} (ha : a < 2 ^ 63) (hb : b < 2 ^ 63) :
    QM.Builtins.integerAnd a b = .ok ((a &&& b : Nat) : Int) := integerAnd_tie ha hb

theorem builtin_or_tie {a b : Nat} (ha : a < 2 ^ 63) (hb : b < 2 ^ 63) :
    QM.Builtins.integerOr a b = .ok ((a ||| b : Nat) : Int) := integerOr_tie ha hb

theorem builtin_clear_bit_tie {a b : Nat} (ha : a < 2 ^ 63) (hb : b < 2 ^ 63) :
    (QM.Builtins.integerNot b).bind (fun nb => QM.Builtins.integerAnd a nb) =
      .ok ((andNot a b : Nat) : Int) := integerNot_and_tie ha hb

theorem builtin_hash32_tie (v : List UInt8) :
    QM.Builtins.fnv1a32 QM.Builtins.fnv32Offset QM.Builtins.fnv32Prime v = QM.Dict.fnv1a32 v :=
  fnv1a32_tie v

/-! ### the hypotheses are satisfiable: concrete colliding key sets

`constHash` sends every key to 7 — every two keys collide in the full hash, everything lives in one
`Collision` bucket. `fragHash k = 32 k` — all keys collide in the first 5-bit fragment and differ
in the second, so a one-child `Node` chain is built. (`put` is defined by well-founded recursion, so
the concrete trees are computed by `simp` with the equation lemmas, checked by the kernel.) -/

def constHash : Nat → Nat := fun _ => 7
def fragHash : Nat → Nat := fun k => k * 32

theorem constHash_lt : ∀ k, constHash k < 2 ^ 32 := by intro k; simp [constHash]

/-- a two-entry bucket satisfies the invariant -/
theorem inv_bucket : Inv constHash (Dict.collision 7 [(1, "a"), (2, "b")]) :=
  Or.inr (WF.collision (by simp [constHash]) (by simp) (by simp) (by simp))

/-- a third colliding key is appended to the bucket -/
theorem put_bucket : Api.put constHash 8 (Dict.collision 7 [(1, "a"), (2, "b")]) 3 "c" =
    some (Dict.collision 7 [(1, "a"), (2, "b"), (3, "c")]) := by
  simp [Api.put, put, constHash, bucketPut, revcat]

-- `get_put_same` / `get_put_other` / `put_wf` instantiated on the colliding keys
example : Api.get constHash (Dict.collision 7 [(1, "a"), (2, "b"), (3, "c")]) 3 = some "c" :=
  get_put_same constHash_lt inv_bucket put_bucket
example : Api.get constHash (Dict.collision 7 [(1, "a"), (2, "b"), (3, "c")]) 2 =
    Api.get constHash (Dict.collision 7 [(1, "a"), (2, "b")]) 2 :=
  get_put_other constHash_lt inv_bucket put_bucket (by decide)
example : Inv constHash (Dict.collision 7 [(1, "a"), (2, "b"), (3, "c")]) :=
  put_wf constHash_lt inv_bucket put_bucket
example : Api.get constHash (Api.remove constHash (Dict.collision 7 [(1, "a"), (2, "b")]) 1) 1 = none :=
  get_remove_same inv_bucket 1

-- `from`, later pair wins, inside a bucket
example : Api.from constHash 8 [(1, "a"), (2, "b"), (1, "c")] =
    some (Dict.collision 7 [(1, "c"), (2, "b")]) := by
  simp [Api.from, fromList, put, constHash, bucketPut, revcat, splitPair]

-- keys colliding in the first fragment: a one-child node above the node that separates them
example : Api.from fragHash 8 [(1, "a"), (2, "b")] =
    some (.node 1 [.node 6 [.leaf 32 1 "a", .leaf 64 2 "b"]]) := by
  simp [Api.from, fromList, put, fragHash, splitPair, fragment]

-- without the invariant fuel really can run out: two different "hashes" ≥ 2^35 that agree on all
-- fragments the trie ever looks at … and a small fuel
example : splitPair 2 (2 ^ 40) 1 "a" (2 ^ 41) 2 "b" 0 = none := by
  simp [splitPair, fragment]

-- `count_put` on a colliding key: replacing inside the bucket keeps the size, a new key adds one
example : Api.count (Dict.collision 7 [(1, "a"), (2, "b"), (3, "c")]) =
    if (toMap (Dict.collision 7 [(1, "a"), (2, "b")]) 3).isSome then
      Api.count (Dict.collision 7 [(1, "a"), (2, "b")])
    else Api.count (Dict.collision 7 [(1, "a"), (2, "b")]) + 1 :=
  count_put constHash_lt inv_bucket put_bucket

-- `merge`: the second dict wins on the colliding key 1
example : Api.merge constHash 8 (Dict.collision 7 [(1, "a"), (2, "b")]) (Dict.leaf 7 1 "z") =
    some (Dict.collision 7 [(1, "z"), (2, "b")]) := by
  simp [Api.merge, fromList, QM.Dict.entries, put, constHash, bucketPut, revcat]

-- `canonical_shape` on colliding keys: inserting 1 then 2, or 2 then 1, gives the same bucket up to
-- the order of its entries (and nothing stronger: the two buckets ARE ordered differently)
example : Similar (Dict.collision 7 [(1, "a"), (2, "b")]) (Dict.collision 7 [(2, "b"), (1, "a")]) :=
  canonical_shape (hash := constHash) inv_bucket
    (Or.inr (WF.collision (by simp [constHash]) (by simp) (by simp) (by simp)))
    (by
      intro k
      simp only [toMap, toList_collision, List.lookup_cons, List.lookup_nil]
      by_cases h1 : k = 1
      · subst h1; simp
      · by_cases h2 : k = 2
        · subst h2; simp
        · have a : (k == 1) = false := by simpa using h1
          have b : (k == 2) = false := by simpa using h2
          simp [a, b])

-- a history over colliding keys: put 1, put 2, replace 1, remove 2, put 3 — all in one bucket
example : runHistory constHash 8 (Api.new : Dict Nat String)
    [.put 1 "a", .put 2 "b", .put 1 "c", .remove 2, .put 3 "d"] =
    some (Dict.collision 7 [(1, "c"), (3, "d")]) := by
  simp [runHistory, Cmd.run, Api.put, Api.remove, Api.new, put, remove, splitPair, constHash,
    bucketPut, bucketRemove, revcat]

-- `from_perm` on colliding keys: the two insertion orders give buckets in different order — Similar
example : ∃ d₁ d₂, Api.from constHash 8 [(1, "a"), (2, "b")] = some d₁ ∧
    Api.from constHash 8 [(2, "b"), (1, "a")] = some d₂ ∧ Similar d₁ d₂ ∧ d₁ ≠ d₂ := by
  have e1 : Api.from constHash 8 [(1, "a"), (2, "b")] = some (Dict.collision 7 [(1, "a"), (2, "b")]) := by
    simp [Api.from, fromList, put, constHash, bucketPut, revcat, splitPair]
  have e2 : Api.from constHash 8 [(2, "b"), (1, "a")] = some (Dict.collision 7 [(2, "b"), (1, "a")]) := by
    simp [Api.from, fromList, put, constHash, bucketPut, revcat, splitPair]
  exact ⟨_, _, e1, e2,
    from_perm constHash_lt (List.Perm.swap _ _ _) (by simp) e1 e2, by simp⟩

end C19
