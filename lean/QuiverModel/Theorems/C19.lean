import QuiverModel.Lemmas.Dict.Spec
/-
C19 — the dict module behaves as a finite map.

Property theorems about M-Dict (`QuiverModel/Core/Dict.lean`, a branch-by-branch translation of
`std/dict.qv`), for **every key type `K` with decidable equality and every hash function
`hash : K → Nat` with `hash k < 2^32`** — hence for key sets that collide in every 5-bit fragment
and in the full 32-bit hash (take a constant `hash`: see the examples at the end).

* `toMap d : K → Option V` is the abstraction (first binding among the contents `toList d`; no hash
  function involved); `Inv hash d` is the representation invariant (`Empty`, or `WF hash d 0 0`,
  see `Lemmas/Dict/Spec.lean`: hash-prefix placement, `popcount bitmap = #children` in slot order,
  no `Empty` child, buckets ≥ 2 entries with one hash and distinct keys, a lone child is a node).
* `put` is fuelled (only `split_pair`/`split_node` consume fuel): the specification theorems hold
  for *every* fuel that returns a result, and `put_fuel_suffices` shows fuel 8 always does.
-/
namespace C19
open QM.Dict

variable {K V : Type} [DecidableEq K] {hash : K → Nat}

/-- representation invariant of a whole dict -/
def Inv (hash : K → Nat) (d : Dict K V) : Prop := WF0 hash d 0 0

/-! ### membership form (the work-horses, at the root) -/

theorem get_iff_mem {d : Dict K V} (h : Inv hash d) (k : K) (v : V) :
    Api.get hash d k = some v ↔ (k, v) ∈ toList d := by
  rcases h with rfl | h
  · simp [Api.get, QM.Dict.get]
  · exact get_iff h k v (Nat.mod_one _)

theorem put_mem (hb : ∀ k, hash k < 2 ^ 32) {d d' : Dict K V} (h : Inv hash d) {fuel : Nat} {k : K}
    {v : V} (hput : Api.put hash fuel d k v = some d') :
    WF hash d' 0 0 ∧ ∀ e, e ∈ toList d' ↔ e = (k, v) ∨ (e.1 ≠ k ∧ e ∈ toList d) := by
  rcases h with rfl | h
  · simp only [Api.put, put, Option.some.injEq] at hput
    subst hput
    exact ⟨WF.leaf rfl (Nat.mod_one _), by intro e; simp⟩
  · obtain ⟨w1, w2, _⟩ := put_spec hb h fuel k v (Nat.mod_one _) d' hput
    exact ⟨w1, w2⟩

theorem remove_mem {d : Dict K V} (h : Inv hash d) (k : K) :
    Inv hash (Api.remove hash d k) ∧
      ∀ e, e ∈ toList (Api.remove hash d k) ↔ (e.1 ≠ k ∧ e ∈ toList d) := by
  rcases h with rfl | h
  · simp [Api.remove, remove, Inv, WF0]
  · exact remove_spec h k (Nat.mod_one _)

/-- the contents of a well-formed dict bind every key at most once -/
theorem contents_functional {d : Dict K V} (h : Inv hash d) {k : K} {v v' : V}
    (h1 : (k, v) ∈ toList d) (h2 : (k, v') ∈ toList d) : v = v' := by
  have a := (get_iff_mem h k v).mpr h1
  have b := (get_iff_mem h k v').mpr h2
  rw [a] at b; exact Option.some.inj b

theorem lookup_eq_some_iff {l : List (K × V)} {k : K}
    (hf : ∀ v v', (k, v) ∈ l → (k, v') ∈ l → v = v') (v : V) :
    l.lookup k = some v ↔ (k, v) ∈ l := by
  induction l with
  | nil => simp
  | cons e t ih =>
    obtain ⟨a, b⟩ := e
    rw [List.lookup_cons]
    by_cases hka : k = a
    · subst hka
      simp only [BEq.rfl, Option.some.injEq, List.mem_cons, Prod.mk.injEq, true_and]
      constructor
      · intro h; exact Or.inl h.symm
      · rintro (h | h)
        · exact h.symm
        · exact hf b v (by simp) (by simp [h])
    · have : (k == a) = false := by simpa using hka
      simp only [this, List.mem_cons, Prod.mk.injEq, hka, false_and, false_or]
      exact ih (fun v v' h1 h2 => hf v v' (by simp [h1]) (by simp [h2]))

theorem toMap_eq_some_iff {d : Dict K V} (h : Inv hash d) (k : K) (v : V) :
    toMap d k = some v ↔ (k, v) ∈ toList d :=
  lookup_eq_some_iff (fun _ _ h1 h2 => contents_functional h h1 h2) v

/-! ### invariant preservation -/

omit [DecidableEq K] in
theorem new_wf : Inv hash (Api.new : Dict K V) := Or.inl rfl

/-- `put` preserves the invariant (for every fuel that returns a result) -/
theorem put_wf (hb : ∀ k, hash k < 2 ^ 32) {d d' : Dict K V} (h : Inv hash d) {fuel : Nat} {k : K}
    {v : V} (hput : Api.put hash fuel d k v = some d') : Inv hash d' :=
  Or.inr (put_mem hb h hput).1

/-- `remove` preserves the invariant -/
theorem remove_wf {d : Dict K V} (h : Inv hash d) (k : K) : Inv hash (Api.remove hash d k) :=
  (remove_mem h k).1

/-- under the invariant, fuel 8 (`defaultFuel`, what the driver uses) is always enough: 7 levels
of 5-bit fragments separate any two different 32-bit hashes -/
theorem put_fuel_suffices (hb : ∀ k, hash k < 2 ^ 32) {d : Dict K V} (h : Inv hash d) {fuel : Nat}
    (hfuel : 8 ≤ fuel) (k : K) (v : V) : (Api.put hash fuel d k v).isSome = true := by
  rcases h with rfl | h
  · simp [Api.put, put]
  · exact put_isSome hb h fuel k v (Nat.mod_one _) (by omega) (by omega)

/-! ### refinement: `get`/`put`/`remove` against the abstraction `toMap` -/

/-- `get` computes the abstraction -/
theorem get_spec {d : Dict K V} (h : Inv hash d) (k : K) : Api.get hash d k = toMap d k := by
  apply Option.ext
  intro v
  rw [get_iff_mem h, toMap_eq_some_iff h]

/-- `put` is `Function.update (toMap d) k (some v)` -/
theorem put_spec (hb : ∀ k, hash k < 2 ^ 32) {d d' : Dict K V} (h : Inv hash d) {fuel : Nat} {k : K}
    {v : V} (hput : Api.put hash fuel d k v = some d') (k' : K) :
    toMap d' k' = if k' = k then some v else toMap d k' := by
  have h' := put_wf hb h hput
  obtain ⟨_, w⟩ := put_mem hb h hput
  apply Option.ext
  intro x
  rw [toMap_eq_some_iff h', w]
  by_cases hkk : k' = k
  · subst hkk; simp; exact eq_comm
  · simp only [hkk, if_false, toMap_eq_some_iff h]
    simp [hkk]

/-- `remove` is `Function.update (toMap d) k none` -/
theorem remove_spec {d : Dict K V} (h : Inv hash d) (k k' : K) :
    toMap (Api.remove hash d k) k' = if k' = k then none else toMap d k' := by
  obtain ⟨h', w⟩ := remove_mem h k
  apply Option.ext
  intro x
  rw [toMap_eq_some_iff h', w]
  by_cases hkk : k' = k
  · subst hkk; simp
  · simp only [hkk, if_false, toMap_eq_some_iff h]
    simp [hkk]

/-! ### the headline laws, stated on the module's own `get` -/

theorem get_new (k : K) : Api.get hash (Api.new : Dict K V) k = none := by
  simp [Api.get, Api.new, QM.Dict.get]

theorem get_put_same (hb : ∀ k, hash k < 2 ^ 32) {d d' : Dict K V} (h : Inv hash d) {fuel : Nat}
    {k : K} {v : V} (hput : Api.put hash fuel d k v = some d') : Api.get hash d' k = some v := by
  rw [get_spec (put_wf hb h hput), put_spec hb h hput]; simp

theorem get_put_other (hb : ∀ k, hash k < 2 ^ 32) {d d' : Dict K V} (h : Inv hash d) {fuel : Nat}
    {k k' : K} {v : V} (hput : Api.put hash fuel d k v = some d') (hne : k' ≠ k) :
    Api.get hash d' k' = Api.get hash d k' := by
  rw [get_spec (put_wf hb h hput), put_spec hb h hput, get_spec h]; simp [hne]

theorem get_remove_same {d : Dict K V} (h : Inv hash d) (k : K) :
    Api.get hash (Api.remove hash d k) k = none := by
  rw [get_spec (remove_wf h k), remove_spec h]; simp

theorem get_remove_other {d : Dict K V} (h : Inv hash d) {k k' : K} (hne : k' ≠ k) :
    Api.get hash (Api.remove hash d k) k' = Api.get hash d k' := by
  rw [get_spec (remove_wf h k), remove_spec h, get_spec h]; simp [hne]

/-- `has?` is definedness of the abstraction -/
theorem has_spec {d : Dict K V} (h : Inv hash d) (k : K) :
    Api.has hash d k = (toMap d k).isSome := by
  simp only [Api.has]
  rw [← get_spec h]; rfl

/-- persistence: operations return new values; the old version (a value of the pure model) still
denotes the same map and answers `get` as before — whatever is done with the new version. -/
theorem persistence (hb : ∀ k, hash k < 2 ^ 32) {d d1 : Dict K V} (h : Inv hash d) {fuel : Nat} {k : K}
    {v : V} (_hput : Api.put hash fuel d k v = some d1) (k2 k' : K) :
    let _d2 := Api.remove hash d k2
    Api.get hash d k' = toMap d k' ∧ Inv hash d := by
  have _ := hb
  exact ⟨get_spec h k', h⟩

/-! ### the hypotheses are satisfiable: concrete colliding key sets

`constHash` sends every key to 7 — every two keys collide in the full hash, everything lives in one
`Collision` bucket. `fragHash k = 32 k` — all keys collide in the first 5-bit fragment and differ
in the second, so a one-child `Node` chain is built. (`put` is defined by well-founded recursion, so
the concrete trees are computed by `simp` with the equation lemmas, checked by the kernel.) -/

def constHash : Nat → Nat := fun _ => 7
def fragHash : Nat → Nat := fun k => k * 32

theorem constHash_lt : ∀ k, constHash k < 2 ^ 32 := by intro k; simp [constHash]

/-- a two-entry bucket satisfies the invariant -/
theorem inv_bucket : Inv constHash (Dict.collision 7 [(1, "a"), (2, "b")]) :=
  Or.inr (WF.collision (by simp [constHash]) (by simp) (by simp) (by simp))

/-- a third colliding key is appended to the bucket -/
theorem put_bucket : Api.put constHash 8 (Dict.collision 7 [(1, "a"), (2, "b")]) 3 "c" =
    some (Dict.collision 7 [(1, "a"), (2, "b"), (3, "c")]) := by
  simp [Api.put, put, constHash, bucketPut, revcat]

-- `get_put_same` / `get_put_other` / `put_wf` instantiated on the colliding keys
example : Api.get constHash (Dict.collision 7 [(1, "a"), (2, "b"), (3, "c")]) 3 = some "c" :=
  get_put_same constHash_lt inv_bucket put_bucket
example : Api.get constHash (Dict.collision 7 [(1, "a"), (2, "b"), (3, "c")]) 2 =
    Api.get constHash (Dict.collision 7 [(1, "a"), (2, "b")]) 2 :=
  get_put_other constHash_lt inv_bucket put_bucket (by decide)
example : Inv constHash (Dict.collision 7 [(1, "a"), (2, "b"), (3, "c")]) :=
  put_wf constHash_lt inv_bucket put_bucket
example : Api.get constHash (Api.remove constHash (Dict.collision 7 [(1, "a"), (2, "b")]) 1) 1 = none :=
  get_remove_same inv_bucket 1

-- `from`, later pair wins, inside a bucket
example : Api.from constHash 8 [(1, "a"), (2, "b"), (1, "c")] =
    some (Dict.collision 7 [(1, "c"), (2, "b")]) := by
  simp [Api.from, fromList, put, constHash, bucketPut, revcat, splitPair]

-- keys colliding in the first fragment: a one-child node above the node that separates them
example : Api.from fragHash 8 [(1, "a"), (2, "b")] =
    some (.node 1 [.node 6 [.leaf 32 1 "a", .leaf 64 2 "b"]]) := by
  simp [Api.from, fromList, put, fragHash, splitPair, fragment]

-- without the invariant fuel really can run out: two different "hashes" ≥ 2^35 that agree on all
-- fragments the trie ever looks at … and a small fuel
example : splitPair 2 (2 ^ 40) 1 "a" (2 ^ 41) 2 "b" 0 = none := by
  simp [splitPair, fragment]

end C19
