import QuiverModel.Core.Soundness.Sequence
/-
C01 — the nil of a short-circuiting `,`-sequence is never lost (accumulated rule), and the rule
that looks at the preceding chain only loses it (witness).
-/
namespace C01
open QM.Soundness

theorem seqNilableFrom_acc (rest : List Bool) (p : Bool) : seqNilableFrom .accumulated rest p true = true := by
  induction rest generalizing p with
  | nil => rfl
  | cons o r ih => simp [seqNilableFrom, ih]

theorem seqNilableFrom_sound : ∀ (own run : List Bool) (p acc : Bool),
    own.length = run.length → (∀ k : Nat, run[k]? = some true → own[k]? = some true) →
    run.any id = true → seqNilableFrom .accumulated own p acc = true
  | [], [], _, _, _, _, h => by simp at h
  | [], _ :: _, _, _, hl, _, _ => by simp at hl
  | _ :: _, [], _, _, hl, _, _ => by simp at hl
  | o :: os, r :: rs, p, acc, hl, hc, h => by
    unfold seqNilableFrom
    simp only
    cases r with
    | true =>
      have : o = true := by simpa using hc 0 rfl
      subst this
      simpa using seqNilableFrom_acc os true
    | false =>
      simp only [List.any_cons, id, Bool.false_or] at h
      exact seqNilableFrom_sound os rs o (o || acc) (by simpa using hl)
        (fun k hk => by simpa using hc (k + 1) (by simpa using hk)) h

/-- **a sequence that can yield nil at run time is typed with nil**: for every assignment of
"this step evaluated to nil" that respects the steps' own types. -/
theorem seq_nil_sound (own run : List Bool) (hl : own.length = run.length)
    (hc : ∀ k : Nat, run[k]? = some true → own[k]? = some true) (h : seqYieldsNil run = true) :
    seqNilable .accumulated own = true := by
  cases own with
  | nil => cases run with
    | nil => simp [seqYieldsNil] at h
    | cons _ _ => simp at hl
  | cons o os =>
    cases run with
    | nil => simp at hl
    | cons r rs =>
      unfold seqNilable
      cases r with
      | true =>
        have : o = true := by simpa using hc 0 rfl
        subst this
        exact seqNilableFrom_acc os true
      | false =>
        simp only [seqYieldsNil, List.any_cons, id, Bool.false_or] at h
        exact seqNilableFrom_sound os rs o o (by simpa using hl)
          (fun k hk => by simpa using hc (k + 1) (by simpa using hk)) h

/-- `=A[a], y = 1, [a, y] __integer_add__` on the argument `B`: the first step is nil. -/
theorem threaded_only_loses_nil :
    seqNilable .threadedOnly [true, false, false] = false ∧
    seqNilable .accumulated [true, false, false] = true ∧ seqYieldsNil [true, false, false] = true := by decide

/-- for two steps the rules agree (why the existing tests do not notice). -/
theorem rules_agree_on_two (a b : Bool) : seqNilable .threadedOnly [a, b] = seqNilable .accumulated [a, b] := by
  cases a <;> cases b <;> rfl

end C01
