import QuiverModel.Core.Types.Compat
import QuiverModel.Lemmas.Types.Rename
import QuiverModel.Lemmas.Types.IndexLemmas
import QuiverModel.Theorems.C09
/-
C08 — Runtime type tests accept only members and never reject known members.

Model: `QM.Types.{TypeIndex.build, tagType, tagAccepts, compatSet, typeCompat, paramCompat,
canonicalTuples, isType, checkMessage}` (Core/Types/Compat.lean = compatibility.rs + the executor's
table lookups). The runtime never looks at the structure of a value: it maps it to a tag and looks
the tag up in a set precomputed per pattern type. The theorems say that this set is exactly the
assignability relation on the tags' types (`compatSet_spec`), hence — with C09's soundness theorem —
that an accepted, well-tagged value inhabits the pattern (`isType_sound`), and that a tag whose type
is assignable to the pattern is accepted (`isType_complete`); `mailbox_filter_spec` characterises
`check_message_compatible` including its permissive cases.
-/
namespace C08
open QM.Types

/-! ### the table is the relation -/

theorem filterTags_spec {f : CTag → Option Bool} :
    ∀ {l r : List CTag}, filterTags f l = some r → ∀ c, c ∈ r ↔ c ∈ l ∧ f c = some true := by
  intro l
  induction l with
  | nil => intro r h c; simp only [filterTags, Option.some.injEq] at h; subst h; simp
  | cons x xs ih =>
    intro r h c
    unfold filterTags at h
    cases hx : f x with
    | none => simp [hx] at h
    | some b =>
      cases hr : filterTags f xs with
      | none => cases b <;> simp [hx, hr] at h
      | some r' =>
        have ih' := ih hr c
        cases b with
        | true =>
          simp only [hx, hr, Option.some.injEq] at h
          subst h
          simp only [List.mem_cons, ih']
          constructor
          · rintro (rfl | ⟨h1, h2⟩)
            · exact ⟨Or.inl rfl, hx⟩
            · exact ⟨Or.inr h1, h2⟩
          · rintro ⟨rfl | h1, h2⟩
            · exact Or.inl rfl
            · exact Or.inr ⟨h1, h2⟩
        | false =>
          simp only [hx, hr, Option.some.injEq] at h
          subst h
          rw [ih']
          constructor
          · rintro ⟨h1, h2⟩; exact ⟨List.mem_cons_of_mem _ h1, h2⟩
          · rintro ⟨h1, h2⟩
            rcases List.mem_cons.mp h1 with rfl | h1
            · rw [hx] at h2; simp at h2
            · exact ⟨h1, h2⟩

/-- **The set computed for a pattern is exactly the relation**: a tag is in it iff the computation
iterates over the tag and decides to accept it. -/
theorem compatSet_spec (inp : CInput) (idx : TypeIndex) (fuel pattern : Nat) (set : List CTag)
    (h : compatSet inp idx fuel pattern = some set) (c : CTag) :
    c ∈ set ↔ c ∈ allTags inp ∧ tagAccepts inp idx fuel pattern c = some true :=
  filterTags_spec h c

/-- a tag with a type entry is accepted iff that type is assignable to the pattern -/
theorem tagAccepts_of_type (inp : CInput) (idx : TypeIndex) (fuel pattern id : Nat) (c : CTag)
    (h : tagType inp idx c = some id) :
    tagAccepts inp idx fuel pattern c = isCompatible inp.table fuel id pattern := by
  simp [tagAccepts, h]

/-- **absent type entry ⇒ never accepted** (tuple, function-as-process, builtin, resource tags): this
is why a type entry must be present for every tag that can occur at run time — the side condition
F13 violated -/
theorem tagAccepts_absent (inp : CInput) (idx : TypeIndex) (fuel pattern : Nat) (c : CTag)
    (h : tagType inp idx c = none) (hc : c ≠ .integer ∧ c ≠ .binary ∧ c ≠ .reference) :
    tagAccepts inp idx fuel pattern c = some false := by
  unfold tagAccepts
  rw [h]
  cases c <;> simp_all

/-! ### from the tables to the runtime test -/

theorem listMapO_length {α β : Type} {f : α → Option β} :
    ∀ {l : List α} {r : List β}, listMapO f l = some r → r.length = l.length := by
  intro l
  induction l with
  | nil => intro r h; simp only [listMapO, Option.some.injEq] at h; subst h; rfl
  | cons x xs ih =>
    intro r h
    unfold listMapO at h
    cases hx : f x with
    | none => simp [hx] at h
    | some y =>
      cases hr : listMapO f xs with
      | none => simp [hx, hr] at h
      | some ys =>
        simp only [hx, hr, Option.some.injEq] at h
        subst h
        simp [ih hr]

theorem listMapO_get {α β : Type} {f : α → Option β} :
    ∀ {l : List α} {r : List β}, listMapO f l = some r →
      ∀ (i : Nat) (x : α), l[i]? = some x → ∃ y, f x = some y ∧ r[i]? = some y := by
  intro l
  induction l with
  | nil => intro r _ i x hx; simp at hx
  | cons a as ih =>
    intro r h i x hx
    unfold listMapO at h
    cases ha : f a with
    | none => simp [ha] at h
    | some y =>
      cases hr : listMapO f as with
      | none => simp [ha, hr] at h
      | some ys =>
        simp only [ha, hr, Option.some.injEq] at h
        subst h
        cases i with
        | zero =>
          simp only [List.getElem?_cons_zero, Option.some.injEq] at hx
          subst hx
          exact ⟨y, ha, by simp⟩
        | succ i =>
          simp only [List.getElem?_cons_succ] at hx
          obtain ⟨y', h1, h2⟩ := ih hr i x hx
          exact ⟨y', h1, by simpa using h2⟩

/-- the entry of `compute_type_compatibility` for a pattern used by some `IsType` instruction is
the set `compatSet` computes -/
theorem typeCompat_entry (inp : CInput) (fuel : Nat) (tc : List (List CTag))
    (h : typeCompat inp fuel = some tc) (p : Nat) (hp : p < inp.table.types.length)
    (hused : p ∈ inp.functions.flatMap (·.isTypes)) :
    ∃ set, compatSet inp (TypeIndex.build inp.table) fuel p = some set ∧ tc[p]? = some set := by
  unfold typeCompat at h
  obtain ⟨y, h1, h2⟩ := listMapO_get h p p (by simp [hp])
  have hc : (inp.functions.flatMap (·.isTypes)).contains p = true := by simpa using hused
  simp only [hc, if_true] at h1
  exact ⟨y, h1, h2⟩

/-- a pattern no `IsType` instruction uses accepts nothing -/
theorem typeCompat_unused (inp : CInput) (fuel : Nat) (tc : List (List CTag))
    (h : typeCompat inp fuel = some tc) (p : Nat) (hp : p < inp.table.types.length)
    (hunused : p ∉ inp.functions.flatMap (·.isTypes)) (c : CTag) : isType tc p c = false := by
  unfold typeCompat at h
  obtain ⟨y, h1, h2⟩ := listMapO_get h p p (by simp [hp])
  have hc : (inp.functions.flatMap (·.isTypes)).contains p = false := by simpa using hunused
  simp only [hc, Bool.false_eq_true, if_false, Option.some.injEq] at h1
  subst h1
  simp [isType, h2]

/-- **Soundness of the runtime test** (first-order fragment, imports C09 `compat_sound_fo`): if the
test accepts a tag whose type entry is `id`, every value of type `id` — in particular a well-tagged
value carrying that tag (`WellTagged`, C01's invariant, is the hypothesis `inh … id v`) — inhabits
the pattern. -/
theorem isType_sound (inp : CInput) (fuel : Nat) (tc : List (List CTag))
    (h : typeCompat inp fuel = some tc) (p id : Nat) (c : CTag)
    (hacc : isType tc p c = true) (hty : tagType inp (TypeIndex.build inp.table) c = some id)
    (hid : FO inp.table id) (hp : FO inp.table p) :
    ∀ v, inh inp.table [] id v → inh inp.table [] p v := by
  -- the pattern is inside the table and used by an IsType instruction, else nothing is accepted
  have hplt : p < inp.table.types.length := by
    obtain ⟨ty, hty', _⟩ := hp.unfold
    exact (List.getElem?_eq_some_iff.mp hty').1
  by_cases hused : p ∈ inp.functions.flatMap (·.isTypes)
  · obtain ⟨set, hset, hget⟩ := typeCompat_entry inp fuel tc h p hplt hused
    have hmem : c ∈ set := by
      simp only [isType, hget] at hacc
      simpa using hacc
    have hacc' := ((compatSet_spec inp _ fuel p set hset c).mp hmem).2
    rw [tagAccepts_of_type inp _ fuel p id c hty] at hacc'
    exact C09.compat_sound_fo inp.table id p fuel hid hp hacc'
  · rw [typeCompat_unused inp fuel tc h p hplt hused c] at hacc
    simp at hacc

/-- **Completeness for the tag's own type**: if the type entry of a tag is assignable to a pattern
that some `IsType` instruction uses, the runtime test accepts the tag. (For a static union type `S`
whose variant is the tag's type this needs "`S ≤ t` implies `variant ≤ t`" as a fact about the
checker's verdicts: `isType_complete_for_variant` below proves it for first-order types; for all closed
types it is `IsTypeCompleteForVariantStatement`, checked by the harness on every generated input.) -/
theorem isType_complete (inp : CInput) (fuel : Nat) (tc : List (List CTag))
    (h : typeCompat inp fuel = some tc) (p id : Nat) (c : CTag)
    (hplt : p < inp.table.types.length) (hused : p ∈ inp.functions.flatMap (·.isTypes))
    (hc : c ∈ allTags inp) (hty : tagType inp (TypeIndex.build inp.table) c = some id)
    (hcompat : isCompatible inp.table fuel id p = some true) : isType tc p c = true := by
  obtain ⟨set, hset, hget⟩ := typeCompat_entry inp fuel tc h p hplt hused
  have : c ∈ set := (compatSet_spec inp _ fuel p set hset c).mpr
    ⟨hc, by rw [tagAccepts_of_type inp _ fuel p id c hty]; exact hcompat⟩
  simp only [isType, hget]
  simpa using this

theorem filterTags_total {f : CTag → Option Bool} :
    ∀ {l r : List CTag}, filterTags f l = some r → ∀ c ∈ l, ∃ b, f c = some b := by
  intro l
  induction l with
  | nil => intro r _ c hc; simp at hc
  | cons x xs ih =>
    intro r h c hc
    unfold filterTags at h
    cases hx : f x with
    | none => simp [hx] at h
    | some b =>
      cases hr : filterTags f xs with
      | none => cases b <;> simp [hx, hr] at h
      | some r' =>
        rcases List.mem_cons.mp hc with rfl | hc
        · exact ⟨b, hx⟩
        · exact ih hr c hc

/-- **Completeness for a variant of a static union type** (first-order types; partial types of the
table do not repeat a field name): if a union `s` is assignable to a pattern `p` that some `IsType`
instruction uses, the runtime test accepts every tag whose type entry is a variant of `s` — "never
reject a known member". The step "`s ≤ p` implies `variant ≤ p`" is a fact about the checker's verdicts
(`C09.compat_variant_fo`: on first-order types the verdict does not depend on the assumptions and
stacks a check starts from). -/
theorem isType_complete_for_variant (inp : CInput) (fuel : Nat) (tc : List (List CTag)) (p s id : Nat)
    (c : CTag) (vs : List Nat) (hd : PartsDistinct inp.table) (hs : FO inp.table s) (hp : FO inp.table p)
    (h : typeCompat inp fuel = some tc) (hused : p ∈ inp.functions.flatMap (·.isTypes))
    (hc : c ∈ allTags inp) (hty : tagType inp (TypeIndex.build inp.table) c = some id)
    (hsty : inp.table.types[s]? = some (.union vs)) (hid : id ∈ vs)
    (hcompat : isCompatible inp.table fuel s p = some true) : isType tc p c = true := by
  have hplt : p < inp.table.types.length := by
    obtain ⟨ty, hty', _⟩ := hp.unfold
    exact (List.getElem?_eq_some_iff.mp hty').1
  obtain ⟨set, hset, hget⟩ := typeCompat_entry inp fuel tc h p hplt hused
  -- the table computation answered for this tag, with the table's fuel …
  obtain ⟨b, hb⟩ := filterTags_total hset c hc
  rw [tagAccepts_of_type inp _ fuel p id c hty] at hb
  -- … and with enough fuel the answer is `true`
  have hbig := C09.compat_variant_fo inp.table hd s p id fuel
    (max fuel (rk inp.table id + rk inp.table p + 1)) vs hs hp hsty hid hcompat (by omega)
  have hb' : isCompatible inp.table (max fuel (rk inp.table id + rk inp.table p + 1)) id p = some b :=
    C09.compat_fuel_irrelevant inp.table (Nat.le_max_left fuel _) id p hb
  rw [hbig] at hb'
  cases hb'
  exact isType_complete inp fuel tc h p id c hplt hused hc hty hb

/-- the statement over all closed types (recursive, callable) stays a statement; the harness checks it on
every generated input -/
def IsTypeCompleteForVariantStatement : Prop :=
  ∀ (inp : CInput) (fuel : Nat) (tc : List (List CTag)) (p s id : Nat) (c : CTag) (vs : List Nat),
    Ordered inp.table → Closed inp.table s → Closed inp.table p →
    typeCompat inp fuel = some tc → p ∈ inp.functions.flatMap (·.isTypes) → c ∈ allTags inp →
    tagType inp (TypeIndex.build inp.table) c = some id →
    inp.table.types[s]? = some (.union vs) → id ∈ vs →
    isCompatible inp.table fuel s p = some true → isType tc p c = true

/-- `check_message_compatible`: a function / builtin source filters by its parameter table; when
the table has no entry for the source, and for every other kind of source, every message passes. -/
theorem mailbox_filter_spec (fp bp : List (List CTag)) (msg : CTag) (src : Source) :
    checkMessage fp bp msg src = true ↔
      match src with
      | .function f => (∀ set, fp[f]? = some set → msg ∈ set)
      | .builtin b => (∀ set, bp[b]? = some set → msg ∈ set)
      | .other => True := by
  cases src with
  | function f =>
    simp only [checkMessage]
    cases h : fp[f]? with
    | none => simp
    | some set => simp
  | builtin b =>
    simp only [checkMessage]
    cases h : bp[b]? with
    | none => simp
    | some set => simp
  | other => simp [checkMessage]

/-! ### renaming invariance, and the kernel-checked F13 witness

Tree shaking, merging behind other programs and module import rename type ids and tuple ids. If the
new table contains a renamed copy of the old one (`Embeds ρ τ T T'`: `ρ`, `τ` injective, the entry at
the image of an id is the renamed entry), the relation gives the same verdicts on the images
(`checkRelV_map`, proved arm by arm for every mode, fuel, assumption set, stack and historical
variant). Hence a tag is accepted by the image of a pattern exactly when it was accepted by the
pattern — *provided the tag still has a type entry and it is the image of the old one*. That side
condition is what F13 broke: the `Type::Process` entry that only the index uses was dropped. -/

theorem compat_rename {ρ τ : Nat → Nat} {T T' : Table} (E : Embeds ρ τ T T') (fuel a b : Nat) :
    isCompatible T' fuel (ρ a) (ρ b) = isCompatible T fuel a b := by
  have := checkRelV_map E Variant.current .all fuel [] {} a b
  simp only [mapAsm, List.map_nil, Stk.map] at this
  unfold isCompatible checkRel
  rw [this]
  cases checkRelV Variant.current T .all fuel [] {} a b <;> rfl

theorem overlap_rename {ρ τ : Nat → Nat} {T T' : Table} (E : Embeds ρ τ T T') (fuel a b : Nat) :
    typesOverlap T' fuel (ρ a) (ρ b) = typesOverlap T fuel a b := by
  have := checkRelV_map E Variant.current .any fuel [] {} a b
  simp only [mapAsm, List.map_nil, Stk.map] at this
  unfold typesOverlap checkRel
  rw [this]
  cases checkRelV Variant.current T .any fuel [] {} a b <;> rfl

/-- **Renaming invariance of the runtime test.** `c'` is the tag `c` in the new numbering (tuple,
function, builtin, resource ids renamed in any way); if its type entry is the image of the old one,
it is accepted by the image of a pattern exactly when `c` was accepted by the pattern. -/
theorem rename_invariant {ρ τ : Nat → Nat} (inp inp' : CInput) (E : Embeds ρ τ inp.table inp'.table)
    (fuel p id : Nat) (c c' : CTag)
    (h : tagType inp (TypeIndex.build inp.table) c = some id)
    (h' : tagType inp' (TypeIndex.build inp'.table) c' = some (ρ id)) :
    tagAccepts inp' (TypeIndex.build inp'.table) fuel (ρ p) c' =
      tagAccepts inp (TypeIndex.build inp.table) fuel p c := by
  rw [tagAccepts_of_type inp' _ fuel (ρ p) (ρ id) c' h', tagAccepts_of_type inp _ fuel p id c h]
  exact compat_rename E fuel id p

/-- the tag `c` in another numbering of tuples (`τ`), functions (`φ`), builtins (`β`), resources (`γ`) -/
def _root_.QM.Types.CTag.mapIds (τ φ β γ : Nat → Nat) : CTag → CTag
  | .integer => .integer
  | .binary => .binary
  | .reference => .reference
  | .tuple id => .tuple (τ id)
  | .function id => .function (φ id)
  | .builtin id => .builtin (β id)
  | .process fn => .process (φ fn)
  | .resource id => .resource (γ id)

theorem extractFn_typeId (T : Table) (f : FnInfo) : (extractFn T f).2.1 = f.typeId := by
  unfold extractFn
  split <;> rfl

theorem extractFn_embeds {ρ τ : Nat → Nat} {T T' : Table} (E : Embeds ρ τ T T') (f f' : FnInfo)
    (hf : f'.typeId = ρ f.typeId) :
    (extractFn T' f').2.2 = ((extractFn T f).2.2.1.map ρ, (extractFn T f).2.2.2.map ρ) := by
  unfold extractFn
  rw [hf, E.types]
  cases hty : T.types[f.typeId]? with
  | none => rfl
  | some ty => cases ty <;> rfl

/-- **`TypeIndex.build` commutes with an embedding into a duplicate-free table**: if the type table of
`inp` embeds into the type table of `inp'` (`Embeds`: tree shake read backwards, merge read forwards),
`inp'`'s type table has no two equal entries, and the functions / builtins / resources of `inp` sit in
`inp'` at the renamed indices with renamed types, then the index entry of every tag of `inp` is carried
to the index entry of the renamed tag — the side condition of `rename_invariant`. (`TypeIndex.build`
keeps FIRST occurrences; in a duplicate-free table the entry of a key is unique, so no order condition
is needed. Without duplicate-freeness the statement is false: an earlier equal entry outside the image
takes the slot.) -/
theorem tagType_embeds {ρ τ : Nat → Nat} (inp inp' : CInput) (E : Embeds ρ τ inp.table inp'.table)
    (hnd : inp'.table.types.Nodup) (φ β γ : Nat → Nat)
    (hfn : ∀ fid f, inp.functions[fid]? = some f →
      ∃ f', inp'.functions[φ fid]? = some f' ∧ f'.typeId = ρ f.typeId)
    (hbi : ∀ bid b, inp.builtins[bid]? = some b → inp'.builtins[β bid]? = some (ρ b.1, ρ b.2))
    (hres : ∀ rid n, inp.resources[rid]? = some n → inp'.resources[γ rid]? = some n)
    (c : CTag) (id : Nat) (h : tagType inp (TypeIndex.build inp.table) c = some id) :
    tagType inp' (TypeIndex.build inp'.table) (c.mapIds τ φ β γ) = some (ρ id) := by
  cases c with
  | integer => exact integer_index_embeds E hnd id h
  | binary => exact binary_index_embeds E hnd id h
  | reference => exact reference_index_embeds E hnd id h
  | tuple tid => exact tuple_index_embeds E hnd tid id h
  | function fid =>
    simp only [tagType, CTag.mapIds] at h ⊢
    cases hf : inp.functions[fid]? with
    | none => simp [hf] at h
    | some f =>
      obtain ⟨f', hf', hty⟩ := hfn fid f hf
      simp only [hf, Option.map_some, Option.some.injEq, extractFn_typeId] at h
      simp only [hf', Option.map_some, extractFn_typeId, hty, h]
  | builtin bid =>
    simp only [tagType, CTag.mapIds] at h ⊢
    cases hb : inp.builtins[bid]? with
    | none => simp [hb] at h
    | some b =>
      simp only [hb, Option.bind_some] at h
      simp only [hbi bid b hb, Option.bind_some]
      exact callable_index_embeds E hnd b.1 b.2 id h
  | process fid =>
    simp only [tagType, CTag.mapIds] at h ⊢
    cases hf : inp.functions[fid]? with
    | none => simp [hf] at h
    | some f =>
      obtain ⟨f', hf', hty⟩ := hfn fid f hf
      simp only [hf, Option.bind_some] at h
      simp only [hf', Option.bind_some]
      have e := extractFn_embeds E f f' hty
      rw [show (extractFn inp'.table f').2.2.1 = (extractFn inp.table f).2.2.1.map ρ from by rw [e],
        show (extractFn inp'.table f').2.2.2 = (extractFn inp.table f).2.2.2.map ρ from by rw [e]]
      exact process_index_embeds E hnd _ _ id h
  | resource rid =>
    simp only [tagType, CTag.mapIds] at h ⊢
    cases hr : inp.resources[rid]? with
    | none => simp [hr] at h
    | some n =>
      simp only [hr, Option.bind_some] at h
      simp only [hres rid n hr, Option.bind_some]
      exact resource_index_embeds E hnd n id h

/-- `rename_invariant` without its two index hypotheses -/
theorem rename_invariant_of_embeds {ρ τ : Nat → Nat} (inp inp' : CInput)
    (E : Embeds ρ τ inp.table inp'.table) (hnd : inp'.table.types.Nodup) (φ β γ : Nat → Nat)
    (hfn : ∀ fid f, inp.functions[fid]? = some f →
      ∃ f', inp'.functions[φ fid]? = some f' ∧ f'.typeId = ρ f.typeId)
    (hbi : ∀ bid b, inp.builtins[bid]? = some b → inp'.builtins[β bid]? = some (ρ b.1, ρ b.2))
    (hres : ∀ rid n, inp.resources[rid]? = some n → inp'.resources[γ rid]? = some n)
    (fuel p id : Nat) (c : CTag) (h : tagType inp (TypeIndex.build inp.table) c = some id) :
    tagAccepts inp' (TypeIndex.build inp'.table) fuel (ρ p) (c.mapIds τ φ β γ) =
      tagAccepts inp (TypeIndex.build inp.table) fuel p c :=
  rename_invariant inp inp' E fuel p id c _ h (tagType_embeds inp inp' E hnd φ β γ hfn hbi hres c id h)

/-- …and the converse side condition: a tag that lost its entry is accepted by nothing (F13) -/
theorem rename_loses_tag_without_entry (inp' : CInput) (fuel p' : Nat) (c' : CTag)
    (h' : tagType inp' (TypeIndex.build inp'.table) c' = none)
    (hc : c' ≠ .integer ∧ c' ≠ .binary ∧ c' ≠ .reference) :
    tagAccepts inp' (TypeIndex.build inp'.table) fuel p' c' = some false :=
  tagAccepts_absent inp' _ fuel p' c' h' hc

/-- the hypotheses of `rename_invariant` are satisfiable by a non-trivial embedding: F12's table
shifted by one type id (a `ref` entry in front) and with tuple ids 2,3,4 moved to 4,2,3 -/
example : ∃ (ρ τ : Nat → Nat) (T' : Table), Embeds ρ τ C09.tF12 T' ∧ ρ 3 = 4 ∧ τ 2 = 4 := by
  refine ⟨fun t => t + 1, fun i => if i = 2 then 4 else if i = 3 then 2 else if i = 4 then 3 else i,
    ⟨.reference :: C09.tF12.types.map (Ty.rename (fun t => t + 1)
        (fun i => if i = 2 then 4 else if i = 3 then 2 else if i = 4 then 3 else i)),
      [⟨none, []⟩, ⟨some 1, []⟩, ⟨some 2, [(none, 1), (none, 1)]⟩, ⟨some 2, [(none, 1), (none, 2)]⟩,
       ⟨some 2, [(none, 3), (none, 2)]⟩]⟩, ?_, rfl, rfl⟩
  refine ⟨fun a b h => by omega, fun a b h => ?_, fun t => ?_, fun i => ?_⟩
  · (repeat' split at h) <;> omega
  · simp only [List.getElem?_cons_succ, List.getElem?_map]
  · by_cases h2 : i = 2
    · subst h2; rfl
    · by_cases h3 : i = 3
      · subst h3; rfl
      · by_cases h4 : i = 4
        · subst h4; rfl
        · simp only [h2, h3, h4, if_false]
          match i, h2, h3, h4 with
          | 0, _, _, _ => rfl
          | 1, _, _, _ => rfl
          | n + 5, _, _, _ => rfl

/-- F13, direct: 0 int, 1 never, 2 `#(int -> int ! never)` (the spawned function's type),
3 `@(never / int)` = the `Type::Process` entry registered at the spawn site, 4 = 3's use as a
pattern; function 0 has type 2 and tests `IsType 3` -/
def f13Direct : CInput :=
  ⟨⟨[.integer, .union [], .callable 0 0 1, .process (some 1) (some 0)], [⟨none, []⟩, ⟨some 1, []⟩]⟩,
   [⟨2, [3]⟩], [], []⟩

/-- F13, tree-shaken by the old code: the `Type::Process` entry is gone (no instruction refers to
it) — the same input without it -/
def f13Shaken : CInput :=
  ⟨⟨[.integer, .union [], .callable 0 0 1], [⟨none, []⟩, ⟨some 1, []⟩]⟩, [⟨2, [2]⟩], [], []⟩

theorem F13_direct_has_entry : tagType f13Direct (TypeIndex.build f13Direct.table) (.process 0) = some 3 := by
  decide
theorem F13_direct_accepts :
    (typeCompat f13Direct 8).map (fun tc => isType tc 3 (.process 0)) = some true := by decide
theorem F13_shaken_has_no_entry :
    tagType f13Shaken (TypeIndex.build f13Shaken.table) (.process 0) = none := by decide
/-- without the entry the process tag is accepted by NO pattern, whatever the fuel -/
theorem F13_shaken_never_accepts (fuel pattern : Nat) :
    tagAccepts f13Shaken (TypeIndex.build f13Shaken.table) fuel pattern (.process 0) = some false :=
  tagAccepts_absent _ _ _ _ _ F13_shaken_has_no_entry (by decide)

/-- hypotheses of `isType_sound` are satisfiable: F12's table with a function testing `IsType 6` -/
example : ∃ inp : CInput,
    (typeCompat inp 12).map (fun tc => isType tc 6 (.tuple 4)) = some true ∧
    tagType inp (TypeIndex.build inp.table) (.tuple 4) = some 5 ∧ FO inp.table 5 ∧ FO inp.table 6 :=
  ⟨⟨C09.tF12, [⟨0, [6]⟩], [], []⟩, by decide, by decide, ⟨4, by decide⟩, ⟨4, by decide⟩⟩

end C08
