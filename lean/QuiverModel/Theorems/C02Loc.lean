import QuiverModel.Theorems.C02Seq
import QuiverModel.Core.RefSem.Compile1
/-
C02, stretch goal, part 3 — **locals, bindings and simple match patterns are compiled correctly**, on
C07's M-VM (`QM.VM.transition … (.run O)`).

* `astepL`, `sim_stepL` — the abstract machine of C02Seq extended to `(pc, stack, frame-relative locals)`
  and to `Load / Store / Reset / Jump / Get / IsType / Equal`; each abstract step is what `stepInstr` does
  to a process whose locals are `pre ++ L` with `pre.length = frame.localsBase`;
* `compilePat_aruns` — compile_match's template for binder / placeholder / literal / flat tuple patterns:
  success path (tests, then the bindings' Stores in the order of the binders' names, verdict `Ok`) and failure path (a failing
  literal test jumps BACK to the fail jump, which enters the nil fill: one nil Store per binding, verdict
  nil) — **both paths store exactly `#bindings` locals**;
* `compileT_aruns / compileCh_aruns / compileFs_aruns / compileSq_aruns` — by mutual induction, with
  the **alignment invariant** `L.length = Γ.length` (compile-time slot numbering = run-time Store order)
  as hypothesis and as conclusion on every path of a chain; `Load(slot Γ x)` therefore reads the value
  `x` was bound to (`evalT` on `.var`);
* `compileSq1_correct` — lifted to `transition`.
-/
open QM.VM QM.RefSem.C1

namespace C02L

abbrev St := Nat × List Val × List Val

def equalVerdict (O : Oracle) (s : List Val) (n : Nat) : Option Val :=
  match (s.take n).reverse with
  | [] => none
  | first :: rest => some (if (first :: rest).all (fun v => O.valuesEqual first v) then Val.ok else Val.nil)

/-- effect of one instruction at `pc` on `(pc, stack, locals of the frame)` -/
def astepL (O : Oracle) (P : Prog) (i : Instr) (pc : Nat) (s L : List Val) : Option St :=
  match i with
  | .load k => match L[k]? with | some v => some (pc + 1, v :: s, L) | none => none
  | .store => match s with | v :: r => some (pc + 1, r, L ++ [v]) | [] => none
  | .reset n => if n ≤ L.length then some (pc + 1, s, L.take n) else none
  | .jump off => if off = isizeMax then none else some (jumpTarget pc off, s, L)
  | .get k =>
    match s with
    | .tup _ els :: r => (match els.toList[k]? with | some e => some (pc + 1, e :: r, L) | none => none)
    | _ => none
  | .isType id =>
    match s with
    | v :: r => some (pc + 1, (if O.isType v id then Val.ok else Val.nil) :: r, L)
    | [] => none
  | .equal n =>
    if n > s.length then none
    else match equalVerdict O s n with
      | some v => some (pc + 1, v :: s.drop n, L)
      | none => none
  | i => (C02S.astep P i pc s).map (fun x => (x.1, x.2, L))

/-- the process runs frame `f` (above the frames `r`) at `pc` with stack `s`; its locals are those of
the frames below and the frame's captures / earlier locals (`pre`, up to the frame's base) followed by
`L`; it is not parked and has no result yet -/
def InvL (p : Proc) (f : Frame) (r : List Frame) (pre : List Val) (pc : Nat) (s L : List Val) : Prop :=
  p.stack = s ∧ p.frames = { f with counter := pc } :: r ∧ p.locals = pre ++ L ∧
    pre.length = f.localsBase ∧ p.park = .none ∧ p.result = none

theorem sim_old (O : Oracle) (P : Prog) (i : Instr) (p : Proc) (f : Frame) (r : List Frame)
    (pre : List Val) (pc : Nat) (s L : List Val) (x : Nat × List Val)
    (hinv : InvL p f r pre pc s L) (h : C02S.astep P i pc s = some x) :
    ∃ q, stepInstr O P p i = .ok (q, none) ∧ InvL q f r pre x.1 x.2 L := by
  obtain ⟨hs, hf, hl, hb, hp, hr⟩ := hinv
  obtain ⟨q, hq, hqs, hql, hqp, hqr, f', r', hf', hqf⟩ :=
    C02S.sim_step O P i p pc s x.1 x.2 ⟨hs, _, _, hf, rfl⟩ (by simpa using h)
  rw [hf] at hf'
  obtain ⟨rfl, rfl⟩ := List.cons.inj hf'
  exact ⟨q, hq, hqs, by simpa using hqf, by rw [hql, hl], hb, by rw [hqp, hp], by rw [hqr, hr]⟩

theorem sim_stepL (O : Oracle) (P : Prog) (i : Instr) (p : Proc) (f : Frame) (r : List Frame)
    (pre : List Val) (pc : Nat) (s L : List Val) (y : St)
    (hinv : InvL p f r pre pc s L) (h : astepL O P i pc s L = some y) :
    ∃ q, stepInstr O P p i = .ok (q, none) ∧ InvL q f r pre y.1 y.2.1 y.2.2 := by
  have old : ∀ (x : Option (Nat × List Val)),
      C02S.astep P i pc s = x → x.map (fun x => (x.1, x.2, L)) = some y →
      ∃ q, stepInstr O P p i = .ok (q, none) ∧ InvL q f r pre y.1 y.2.1 y.2.2 := by
    intro x hx hy
    cases x with
    | none => simp at hy
    | some x =>
      simp only [Option.map_some, Option.some.injEq] at hy
      subst hy
      exact sim_old O P i p f r pre pc s L x hinv hx
  obtain ⟨hs, hf, hl, hb, hp, hr⟩ := hinv
  have bumpF : ∀ (q : Proc), q.frames = p.frames → q.bump.frames = { f with counter := pc + 1 } :: r := by
    intro q hq; simp [Proc.bump, hq, hf]
  cases i with
  | load k =>
    simp only [astepL] at h
    split at h
    · rename_i v hv
      simp only [Option.some.injEq] at h
      subst h
      have hv' : p.locals[f.localsBase + k]? = some v := by
        rw [hl, ← hb, List.getElem?_append_right (by omega)]
        simpa using hv
      refine ⟨(p.push v).bump, by simp [stepInstr, handleLoad, hf, hv', QM.VM.ok], ?_, ?_, ?_, hb, ?_, ?_⟩
      · simp [Proc.push, Proc.bump, hf, hs]
      · simp [Proc.push, Proc.bump, hf]
      · simp [Proc.push, Proc.bump, hf, hl]
      · simp [Proc.push, Proc.bump, hf, hp]
      · simp [Proc.push, Proc.bump, hf, hr]
    · simp at h
  | store =>
    cases s with
    | nil => simp [astepL] at h
    | cons v rest =>
      simp only [astepL, Option.some.injEq] at h
      subst h
      refine ⟨({ p with stack := rest, locals := p.locals ++ [v] } : Proc).bump,
        by simp [stepInstr, handleStore, hs, QM.VM.ok], ?_, ?_, ?_, hb, ?_, ?_⟩
      · simp [Proc.bump, hf]
      · simp [Proc.bump, hf]
      · simp [Proc.bump, hf, hl]
      · simp [Proc.bump, hf, hp]
      · simp [Proc.bump, hf, hr]
  | reset n =>
    simp only [astepL] at h
    split at h
    · rename_i hn
      simp only [Option.some.injEq] at h
      subst h
      have hle : ¬ (f.localsBase + n > p.locals.length) := by rw [hl, ← hb]; simp; omega
      have htake : p.locals.take (f.localsBase + n) = pre ++ L.take n := by
        rw [hl, ← hb, List.take_append]
        simp [List.take_of_length_le]
      refine ⟨({ p with locals := p.locals.take (f.localsBase + n) } : Proc).bump,
        by simp [stepInstr, handleReset, hf, hle, QM.VM.ok], ?_, ?_, ?_, hb, ?_, ?_⟩
      · simp [Proc.bump, hf, hs]
      · simp [Proc.bump, hf]
      · simp [Proc.bump, hf, htake]
      · simp [Proc.bump, hf, hp]
      · simp [Proc.bump, hf, hr]
    · simp at h
  | jump off =>
    simp only [astepL] at h
    split at h
    · simp at h
    · rename_i hoff
      simp only [Option.some.injEq] at h
      subst h
      refine ⟨p.setCounter (jumpTarget pc off), by simp [stepInstr, handleJump, hoff, hf, QM.VM.ok], ?_, ?_, ?_, hb, ?_, ?_⟩
      · simp [Proc.setCounter, hf, hs]
      · simp [Proc.setCounter, hf]
      · simp [Proc.setCounter, hf, hl]
      · simp [Proc.setCounter, hf, hp]
      · simp [Proc.setCounter, hf, hr]
  | get k =>
    simp only [astepL] at h
    split at h
    · rename_i id els rest
      split at h
      · rename_i e he
        simp only [Option.some.injEq] at h
        subst h
        refine ⟨({ p with stack := e :: rest } : Proc).bump,
          by simp [stepInstr, handleGet, hs, he, QM.VM.ok], ?_, ?_, ?_, hb, ?_, ?_⟩
        · simp [Proc.bump, hf]
        · simp [Proc.bump, hf]
        · simp [Proc.bump, hf, hl]
        · simp [Proc.bump, hf, hp]
        · simp [Proc.bump, hf, hr]
      · simp at h
    · simp at h
  | isType id =>
    cases s with
    | nil => simp [astepL] at h
    | cons v rest =>
      simp only [astepL, Option.some.injEq] at h
      subst h
      refine ⟨({ p with stack := (if O.isType v id then Val.ok else Val.nil) :: rest } : Proc).bump,
        by simp [stepInstr, handleIsType, hs, QM.VM.ok], ?_, ?_, ?_, hb, ?_, ?_⟩
      · simp [Proc.bump, hf]
      · simp [Proc.bump, hf]
      · simp [Proc.bump, hf, hl]
      · simp [Proc.bump, hf, hp]
      · simp [Proc.bump, hf, hr]
  | equal n =>
    simp only [astepL] at h
    split at h
    · simp at h
    · rename_i hn
      split at h
      · rename_i v hv
        simp only [Option.some.injEq] at h
        subst h
        unfold equalVerdict at hv
        split at hv
        · simp at hv
        · rename_i first rest hfr
          simp only [Option.some.injEq] at hv
          have hn' : ¬ (n > p.stack.length) := by rw [hs]; exact hn
          refine ⟨({ p with stack := v :: p.stack.drop n } : Proc).bump, ?_, ?_, ?_, ?_, hb, ?_, ?_⟩
          · simp only [stepInstr, handleEqual, hn', if_false]
            rw [hs, hfr]
            simp only [QM.VM.ok]
            rw [← hv]
          · simp [Proc.bump, hf, hs]
          · simp [Proc.bump, hf]
          · simp [Proc.bump, hf, hl]
          · simp [Proc.bump, hf, hp]
          · simp [Proc.bump, hf, hr]
      · simp at h
  | pop => exact old _ rfl h
  | constant _ => exact old _ rfl h
  | pick _ => exact old _ rfl h
  | duplicate => exact old _ rfl h
  | not => exact old _ rfl h
  | rotate _ => exact old _ rfl h
  | tuple _ => exact old _ rfl h
  | jumpIf _ => exact old _ rfl h
  | call => exact old _ rfl h
  | tailCall _ => exact old _ rfl h
  | function _ => exact old _ rfl h
  | builtin _ => exact old _ rfl h
  | spawn => exact old _ rfl h
  | send => exact old _ rfl h
  | self_ => exact old _ rfl h
  | select => exact old _ rfl h
  | process _ _ => exact old _ rfl h

/-! ### Abstract runs, and their lifting to `transition` -/

inductive ARunsL (O : Oracle) (P : Prog) (code : Array Instr) : St → St → Prop where
  | refl (x : St) : ARunsL O P code x x
  | step {pc : Nat} {s L : List Val} {x y : St} (i : Instr) (hi : code[pc]? = some i)
      (h : astepL O P i pc s L = some x) (r : ARunsL O P code x y) : ARunsL O P code (pc, s, L) y

theorem ARunsL.trans {O : Oracle} {P : Prog} {code : Array Instr} {x y z : St}
    (h₁ : ARunsL O P code x y) (h₂ : ARunsL O P code y z) : ARunsL O P code x z := by
  induction h₁ with
  | refl => exact h₂
  | step i hi h _ ih => exact .step i hi h (ih h₂)

theorem ARunsL.one {O : Oracle} {P : Prog} {code : Array Instr} {pc : Nat} {s L : List Val} {x : St}
    (i : Instr) (hi : code[pc]? = some i) (h : astepL O P i pc s L = some x) :
    ARunsL O P code (pc, s, L) x :=
  .step i hi h (.refl _)

theorem liftL (O : Oracle) (P : Prog) (fn : Function) (f : Frame) (r : List Frame) (pre : List Val)
    (hfn : P.functions[f.functionIndex]? = some fn) {x y : St}
    (h : ARunsL O P fn.instructions x y) :
    ∀ p : Proc, InvL p f r pre x.1 x.2.1 x.2.2 →
      ∃ q, C02S.TRuns O P p q ∧ InvL q f r pre y.1 y.2.1 y.2.2 := by
  induction h with
  | refl x => exact fun p hp => ⟨p, .refl p, hp⟩
  | @step pc s L x y i hi hstep _ ih =>
    intro p hp
    obtain ⟨q, hq, hinv⟩ := sim_stepL O P i p f r pre pc s L x hp hstep
    obtain ⟨hs, hf, hl, hb, hpark, hres⟩ := hp
    have htr : transition P p (.run O) = some (.ok (q, none)) := by
      simp only [transition, hpark, hres, hf]
      simp [hfn, hi, hq]
    obtain ⟨z, hz, hzi⟩ := ih q hinv
    exact ⟨z, .step htr hz, hzi⟩

/-! ### Single instructions -/

theorem astepL_of_astep (O : Oracle) (P : Prog) (i : Instr) (pc : Nat) (s L : List Val)
    (x : Nat × List Val) (h : C02S.astep P i pc s = some x) :
    astepL O P i pc s L = some (x.1, x.2, L) := by
  cases i <;> first | (simp [C02S.astep] at h; done) | simp [astepL, h]

theorem ARunsL.ofARuns {O : Oracle} {P : Prog} {code : Array Instr} {x y : Nat × List Val} (L : List Val)
    (h : C02S.ARuns P code x y) : ARunsL O P code (x.1, x.2, L) (y.1, y.2, L) := by
  induction h with
  | refl x => exact .refl _
  | step i hi h _ ih => exact .step i hi (astepL_of_astep O P i _ _ L _ h) ih

theorem jumpTarget_eq (pc : Nat) (off : Int) (t : Nat) (h : (pc : Int) + off + 1 = (t : Int))
    (ht : t < 2 ^ 63) : jumpTarget pc off = t := by
  unfold jumpTarget
  rw [h]
  have e64 : (2 : Int) ^ 64 = 18446744073709551616 := by decide
  have e63 : (2 : Nat) ^ 63 = 9223372036854775808 := by decide
  rw [e63] at ht
  rw [e64]
  have : (t : Int) % 18446744073709551616 = (t : Int) := by
    apply Int.emod_eq_of_lt <;> omega
  rw [this]
  omega

theorem Located.bound {code : Array Instr} {pc : Nat} {is : List Instr} (h : C02S.Located code pc is)
    (k : Nat) (hk : k < is.length) : pc + k < code.size := by
  have := h k hk
  rcases Nat.lt_or_ge (pc + k) code.size with h' | h'
  · exact h'
  · rw [Array.getElem?_eq_none h', List.getElem?_eq_getElem hk] at this
    cases this

theorem Located.tail {code : Array Instr} {pc : Nat} {i : Instr} {r : List Instr}
    (h : C02S.Located code pc (i :: r)) : C02S.Located code (pc + 1) r := by
  have := C02S.Located.right (a := [i]) (b := r) (by simpa using h)
  simpa using this

section AInstrL
variable {O : Oracle} {P : Prog} {code : Array Instr} {pc : Nat}

theorem l_pop {v : Val} {s L : List Val} (hi : code[pc]? = some .pop) :
    ARunsL O P code (pc, v :: s, L) (pc + 1, s, L) := ARunsL.ofARuns L (C02S.a_pop hi)

theorem l_const {i : Nat} {z : Int} {s L : List Val} (hi : code[pc]? = some (.constant i))
    (hc : P.constants[i]? = some (.int z)) : ARunsL O P code (pc, s, L) (pc + 1, .int z :: s, L) :=
  ARunsL.ofARuns L (C02S.a_const hi hc)

theorem l_pick {n : Nat} {v : Val} {s L : List Val} (hi : code[pc]? = some (.pick n))
    (hv : s[n]? = some v) : ARunsL O P code (pc, s, L) (pc + 1, v :: s, L) :=
  ARunsL.ofARuns L (C02S.a_pick hi hv)

theorem l_rot2 {a b : Val} {s L : List Val} (hi : code[pc]? = some (.rotate 2)) :
    ARunsL O P code (pc, a :: b :: s, L) (pc + 1, b :: a :: s, L) := ARunsL.ofARuns L (C02S.a_rot2 hi)

theorem l_tuple {id : Nat} {vs rest L : List Val} (hi : code[pc]? = some (.tuple id))
    (hid : P.tuples[id]? = some vs.length) :
    ARunsL O P code (pc, vs.reverse ++ rest, L) (pc + 1, .tup id (ValList.ofList vs) :: rest, L) :=
  ARunsL.ofARuns L (C02S.a_tuple hi hid)

theorem l_tuple0 {id : Nat} {s L : List Val} (hi : code[pc]? = some (.tuple id))
    (hid : P.tuples[id]? = some 0) :
    ARunsL O P code (pc, s, L) (pc + 1, .tup id .nil :: s, L) := by
  have := l_tuple (O := O) (L := L) (vs := []) (rest := s) hi (by simpa using hid)
  simpa [ValList.ofList] using this

theorem l_dup {v : Val} {s L : List Val} (hi : code[pc]? = some .duplicate) :
    ARunsL O P code (pc, v :: s, L) (pc + 1, v :: v :: s, L) := ARunsL.ofARuns L (C02S.a_dup hi)

theorem l_not {v : Val} {s L : List Val} (hi : code[pc]? = some .not) :
    ARunsL O P code (pc, v :: s, L) (pc + 1, (if v.isNil then Val.ok else Val.nil) :: s, L) :=
  ARunsL.ofARuns L (C02S.a_not hi)

theorem l_jumpIf_taken {off : Int} {c : Val} {s L : List Val}
    (hi : code[pc]? = some (.jumpIf off)) (hc : c.isNil = false) (ho : off ≠ isizeMax) :
    ARunsL O P code (pc, c :: s, L) (jumpTarget pc off, s, L) :=
  ARunsL.ofARuns L (C02S.a_jumpIf_taken hi hc ho)

theorem l_jumpIf_fall {off : Int} {c : Val} {s L : List Val}
    (hi : code[pc]? = some (.jumpIf off)) (hc : c.isNil = true) :
    ARunsL O P code (pc, c :: s, L) (pc + 1, s, L) :=
  ARunsL.ofARuns L (C02S.a_jumpIf_fall hi hc)

theorem l_load {k : Nat} {v : Val} {s L : List Val} (hi : code[pc]? = some (.load k))
    (hv : L[k]? = some v) : ARunsL O P code (pc, s, L) (pc + 1, v :: s, L) :=
  .one (.load k) hi (by simp [astepL, hv])

theorem l_store {v : Val} {s L : List Val} (hi : code[pc]? = some .store) :
    ARunsL O P code (pc, v :: s, L) (pc + 1, s, L ++ [v]) :=
  .one .store hi (by simp [astepL])

theorem l_reset {n : Nat} {s L : List Val} (hi : code[pc]? = some (.reset n)) (hn : n ≤ L.length) :
    ARunsL O P code (pc, s, L) (pc + 1, s, L.take n) :=
  .one (.reset n) hi (by simp [astepL, hn])

theorem l_jump {off : Int} {t : Nat} {s L : List Val} (hi : code[pc]? = some (.jump off))
    (h : (pc : Int) + off + 1 = (t : Int)) (ht : t < 2 ^ 63) :
    ARunsL O P code (pc, s, L) (t, s, L) := by
  refine .one (.jump off) hi ?_
  have ho : off ≠ isizeMax := by
    unfold isizeMax
    have e : (2 : Int) ^ 63 = 9223372036854775808 := by decide
    have e63 : (2 : Nat) ^ 63 = 9223372036854775808 := by decide
    rw [e63] at ht
    rw [e]
    omega
  simp [astepL, ho, jumpTarget_eq pc off t h ht]

theorem l_get {k id : Nat} {els : ValList} {e : Val} {s L : List Val} (hi : code[pc]? = some (.get k))
    (he : els.toList[k]? = some e) :
    ARunsL O P code (pc, .tup id els :: s, L) (pc + 1, e :: s, L) :=
  .one (.get k) hi (by simp [astepL, he])

theorem l_getF {k : Nat} {flow e : Val} {s L : List Val} (hi : code[pc]? = some (.get k))
    (he : (fieldsOf flow)[k]? = some e) :
    ARunsL O P code (pc, flow :: s, L) (pc + 1, e :: s, L) := by
  cases flow with
  | tup id els => exact l_get hi (by simpa [fieldsOf] using he)
  | int z => simp [fieldsOf] at he
  | bin b => simp [fieldsOf] at he
  | ref r => simp [fieldsOf] at he
  | fn i c => simp [fieldsOf] at he
  | builtin i => simp [fieldsOf] at he
  | proc a b => simp [fieldsOf] at he
  | res a b => simp [fieldsOf] at he

theorem l_equal2 {a b : Val} {s L : List Val} (hi : code[pc]? = some (.equal 2)) :
    ARunsL O P code (pc, b :: a :: s, L)
      (pc + 1, (if (O.valuesEqual a a && O.valuesEqual a b) then Val.ok else Val.nil) :: s, L) :=
  .one (.equal 2) hi (by simp [astepL, equalVerdict])

theorem l_jumpIf_to {off : Int} {t : Nat} {c : Val} {s L : List Val}
    (hi : code[pc]? = some (.jumpIf off)) (hc : c.isNil = false)
    (h : (pc : Int) + off + 1 = (t : Int)) (ht : t < 2 ^ 63) :
    ARunsL O P code (pc, c :: s, L) (t, s, L) := by
  have ho : off ≠ isizeMax := by
    unfold isizeMax
    have e : (2 : Int) ^ 63 = 9223372036854775808 := by decide
    have e63 : (2 : Nat) ^ 63 = 9223372036854775808 := by decide
    rw [e63] at ht
    rw [e]
    omega
  have := l_jumpIf_taken (O := O) (P := P) (L := L) (s := s) hi hc ho
  rwa [jumpTarget_eq pc off t h ht] at this

end AInstrL

/-! ### compile_match's template -/

/-- the oracle's equality is reflexive and decides equality with an integer constant (C13: the real
`values_equal` is equality of the erased values) -/
def OracleIntEq (O : Oracle) : Prop :=
  ∀ (v : Val) (z : Int), (O.valuesEqual v v && O.valuesEqual v (.int z)) = decide (v = .int z)

theorem e63 : (2 : Nat) ^ 63 = 9223372036854775808 := by decide

theorem nilFill_length : (n : Nat) → (nilFill n).length = 2 * n
  | 0 => rfl
  | n + 1 => by simp [nilFill, nilFill_length n]; omega

section Pat
variable {O : Oracle} {P : Prog} {code : Array Instr}

theorem nilFill_aruns (hP : wfProg P) : (n : Nat) → (pc : Nat) → (s L : List Val) →
    C02S.Located code pc (nilFill n) →
    ARunsL O P code (pc, s, L) (pc + 2 * n, s, L ++ List.replicate n Val.nil)
  | 0, pc, s, L, _ => by simpa using ARunsL.refl _
  | n + 1, pc, s, L, hl => by
    have hl' : C02S.Located code pc (.tuple 0 :: .store :: nilFill n) := by simpa [nilFill] using hl
    have h0 := hl'.head
    have h1 := (Located.tail hl').head
    have h2 := Located.tail (Located.tail hl')
    have a := l_tuple0 (O := O) (P := P) (s := s) (L := L) h0 hP.1
    have b := l_store (O := O) (P := P) (v := Val.tup 0 .nil) (s := s) (L := L) h1
    have c := nilFill_aruns hP n (pc + 1 + 1) s (L ++ [Val.tup 0 .nil]) h2
    have e : pc + 2 * (n + 1) = pc + 1 + 1 + 2 * n := by omega
    rw [e]
    have e2 : L ++ List.replicate (n + 1) Val.nil = L ++ [Val.tup 0 .nil] ++ List.replicate n Val.nil := by
      simp [List.replicate_succ, Val.nil]
    rw [e2]
    exact (a.trans b).trans c

/-- the literal test of a top-level pattern: falls through when the value is the literal, jumps back
to the fail jump (template position 1) otherwise; stack and locals unchanged either way -/
theorem testTop_aruns (hO : OracleIntEq O) (hsz : code.size < 2 ^ 63 - 1) (pc q : Nat) (sb : Sub)
    (flow : Val) (rest L : List Val) (hl : C02S.Located code (pc + q) (testTop sb q)) (hw : wfSub P sb) :
    ARunsL O P code (pc + q, flow :: rest, L)
      (if subPasses flow sb then pc + q + (testTop sb q).length else pc + 1, flow :: rest, L) := by
  cases sb with
  | bind x => simpa [testTop, subPasses] using ARunsL.refl _
  | wild => simpa [testTop, subPasses] using ARunsL.refl _
  | lit z c =>
    simp only [testTop, subPasses] at hl ⊢
    have h0 := hl.head
    have h1 := (Located.tail hl).head
    have h2 := (Located.tail (Located.tail hl)).head
    have h3 := (Located.tail (Located.tail (Located.tail hl))).head
    have h4 := (Located.tail (Located.tail (Located.tail (Located.tail hl)))).head
    have hb := Located.bound hl 4 (by simp)
    have a := l_dup (O := O) (P := P) (v := flow) (s := rest) (L := L) h0
    have b := l_const (O := O) (P := P) (s := flow :: flow :: rest) (L := L) h1 hw
    have c := l_equal2 (O := O) (P := P) (a := flow) (b := .int z) (s := flow :: rest) (L := L) h2
    rw [hO flow z] at c
    have abc := (a.trans b).trans c
    by_cases hv : flow = .int z
    · simp only [hv, decide_true, if_true] at abc ⊢
      have d := l_not (O := O) (P := P) (v := Val.ok) (s := Val.int z :: rest) (L := L) h3
      have hok : Val.ok.isNil = false := rfl
      simp only [hok, Bool.false_eq_true, if_false] at d
      have e := l_jumpIf_fall (O := O) (P := P) (c := Val.nil) (s := Val.int z :: rest) (L := L) h4 rfl
      have := (abc.trans d).trans e
      simpa [Nat.add_assoc] using this
    · simp only [hv, decide_false, Bool.false_eq_true, if_false] at abc ⊢
      have d := l_not (O := O) (P := P) (v := Val.nil) (s := flow :: rest) (L := L) h3
      have hnil : Val.nil.isNil = true := rfl
      simp only [hnil, if_true] at d
      have e := l_jumpIf_to (O := O) (P := P) (c := Val.ok) (s := flow :: rest) (L := L) (t := pc + 1) h4 rfl
        (by omega) (by rw [e63]; omega)
      exact (abc.trans d).trans e

/-- the literal tests of a tuple pattern, field `k` onwards -/
theorem testsFields_aruns (hO : OracleIntEq O) (hsz : code.size < 2 ^ 63 - 1) (pc : Nat)
    (flow : Val) (rest L : List Val) :
    (subs : List Sub) → (k q : Nat) → (b : Bool) →
    C02S.Located code (pc + q) (testsFields subs k q) → wfSubs P subs →
    fieldsPass subs k (fieldsOf flow) = some b →
    ARunsL O P code (pc + q, flow :: rest, L)
      (if b then pc + q + (testsFields subs k q).length else pc + 1, flow :: rest, L)
  | [], k, q, b, _, _, hp => by
    simp only [fieldsPass, Option.some.injEq] at hp
    subst hp
    simpa [testsFields] using ARunsL.refl _
  | .bind x :: r, k, q, b, hl, hw, hp => by
    simp only [testsFields, fieldsPass] at hl hp ⊢
    exact testsFields_aruns hO hsz pc flow rest L r (k + 1) q b hl hw.2 hp
  | .wild :: r, k, q, b, hl, hw, hp => by
    simp only [testsFields, fieldsPass] at hl hp ⊢
    exact testsFields_aruns hO hsz pc flow rest L r (k + 1) q b hl hw.2 hp
  | .lit z ci :: r, k, q, b, hl, hw, hp => by
    simp only [fieldsPass] at hp
    split at hp
    · simp at hp
    · rename_i v hk
      simp only [testsFields] at hl ⊢
      have hl1 : C02S.Located code (pc + q)
          (.duplicate :: .get k :: .constant ci :: .equal 2 :: .not :: .jumpIf (-((q + 5 : Nat) : Int)) ::
            testsFields r (k + 1) (q + 6)) := by simpa using hl
      have h0 := hl1.head
      have t1 := Located.tail hl1
      have h1 := t1.head
      have t2 := Located.tail t1
      have h2 := t2.head
      have t3 := Located.tail t2
      have h3 := t3.head
      have t4 := Located.tail t3
      have h4 := t4.head
      have t5 := Located.tail t4
      have h5 := t5.head
      have t6 := Located.tail t5
      have hb := Located.bound hl1 5 (by simp)
      have a := l_dup (O := O) (P := P) (v := flow) (s := rest) (L := L) h0
      have g := l_getF (O := O) (P := P) (flow := flow) (e := v) (s := flow :: rest) (L := L) h1 hk
      have c0 := l_const (O := O) (P := P) (s := v :: flow :: rest) (L := L) h2 hw.1
      have c := l_equal2 (O := O) (P := P) (a := v) (b := .int z) (s := flow :: rest) (L := L) h3
      rw [hO v z] at c
      have abc := ((a.trans g).trans c0).trans c
      by_cases hv : v = .int z
      · simp only [hv, if_true] at hp
        simp only [hv, decide_true, if_true] at abc
        have d := l_not (O := O) (P := P) (v := Val.ok) (s := flow :: rest) (L := L) h4
        have hok : Val.ok.isNil = false := rfl
        simp only [hok, Bool.false_eq_true, if_false] at d
        have e := l_jumpIf_fall (O := O) (P := P) (c := Val.nil) (s := flow :: rest) (L := L) h5 rfl
        have hrest := testsFields_aruns hO hsz pc flow rest L r (k + 1) (q + 6) b
          (by simpa [Nat.add_assoc] using t6) hw.2 hp
        have := ((abc.trans d).trans e).trans (by simpa [Nat.add_assoc] using hrest)
        cases b with
        | true =>
          simp only [if_true] at this ⊢
          have e2 : pc + q + ([Instr.duplicate, Instr.get k, Instr.constant ci, Instr.equal 2, Instr.not,
              Instr.jumpIf (-((q + 5 : Nat) : Int))] ++ testsFields r (k + 1) (q + 6)).length =
              pc + (q + (6 + (testsFields r (k + 1) (q + 6)).length)) := by simp; omega
          rw [e2]
          exact this
        | false => simpa using this
      · simp only [hv, if_false, Option.some.injEq] at hp
        subst hp
        simp only [hv, decide_false, Bool.false_eq_true, if_false] at abc ⊢
        have d := l_not (O := O) (P := P) (v := Val.nil) (s := flow :: rest) (L := L) h4
        have hnil : Val.nil.isNil = true := rfl
        simp only [hnil, if_true] at d
        have e := l_jumpIf_to (O := O) (P := P) (c := Val.ok) (s := flow :: rest) (L := L)
          (t := pc + 1) h5 rfl (by omega) (by rw [e63]; omega)
        exact (abc.trans d).trans e

theorem bindVals_length : (bs : List (String × Nat)) → (vs out : List Val) →
    bindVals bs vs = some out → out.length = bs.length
  | [], _, out, h => by simp only [bindVals, Option.some.injEq] at h; subst h; rfl
  | (x, k) :: r, vs, out, h => by
    simp only [bindVals] at h
    split at h
    · rename_i v rest hv hr
      simp only [Option.some.injEq] at h
      subst h
      simp [bindVals_length r vs rest hr]
    · simp at h

/-- the bindings of a tuple pattern: one `Store` per binder, in the order of the sorted binder list -/
theorem bindsCode_aruns (flow : Val) (rest : List Val) :
    (bs : List (String × Nat)) → (pc : Nat) → (L out : List Val) →
    C02S.Located code pc (bindsCode bs) → bindVals bs (fieldsOf flow) = some out →
    ARunsL O P code (pc, flow :: rest, L) (pc + (bindsCode bs).length, flow :: rest, L ++ out)
  | [], pc, L, out, _, h => by
    simp only [bindVals, Option.some.injEq] at h
    subst h
    simpa [bindsCode] using ARunsL.refl _
  | (x, k) :: r, pc, L, out, hl, h => by
    simp only [bindVals] at h
    split at h
    · rename_i v vs hv hr
      simp only [Option.some.injEq] at h
      subst h
      have hl1 : C02S.Located code pc (.duplicate :: .get k :: .store :: bindsCode r) := by
        simpa [bindsCode] using hl
      have h0 := hl1.head
      have t1 := Located.tail hl1
      have h1 := t1.head
      have t2 := Located.tail t1
      have h2 := t2.head
      have t3 := Located.tail t2
      have a := l_dup (O := O) (P := P) (v := flow) (s := rest) (L := L) h0
      have g := l_getF (O := O) (P := P) (flow := flow) (e := v) (s := flow :: rest) (L := L) h1 hv
      have st := l_store (O := O) (P := P) (v := v) (s := flow :: rest) (L := L) h2
      have ih := bindsCode_aruns flow rest r (pc + 1 + 1 + 1) (L ++ [v]) vs t3 hr
      have := ((a.trans g).trans st).trans ih
      have e2 : pc + (bindsCode ((x, k) :: r)).length = pc + 1 + 1 + 1 + (bindsCode r).length := by
        simp [bindsCode]; omega
      rw [e2]
      simpa using this
    · simp at h

theorem matchCode_length (tests binds : List Instr) (nb : Nat) :
    (matchCode tests binds nb).length = 2 + tests.length + binds.length + 3 + 2 * nb + 2 := by
  simp [matchCode, nilFill_length]; omega

theorem matchCode_tests {pc : Nat} {tests binds : List Instr} {nb : Nat}
    (hl : C02S.Located code pc (matchCode tests binds nb)) : C02S.Located code (pc + 2) tests := by
  have := (C02S.Located.right hl).left
  simpa using this

theorem matchCode_binds {pc : Nat} {tests binds : List Instr} {nb : Nat}
    (hl : C02S.Located code pc (matchCode tests binds nb)) :
    C02S.Located code (pc + 2 + tests.length) binds := by
  have := ((C02S.Located.right hl).right).left
  simpa using this

/-- the template around tests and bindings: start jump, fail jump, verdict `Ok` and the jump over the
failure path; failure path = nil fill (one nil `Store` per binding) and verdict nil -/
theorem matchCode_aruns (hP : wfProg P) (hsz : code.size < 2 ^ 63 - 1) (tests binds : List Instr)
    (nb pc : Nat) (flow : Val) (rest L : List Val) (pass : Bool) (bound : List Val)
    (hl : C02S.Located code pc (matchCode tests binds nb))
    (htests : ARunsL O P code (pc + 2, flow :: rest, L)
      (if pass then pc + 2 + tests.length else pc + 1, flow :: rest, L))
    (hbinds : pass = true → ARunsL O P code (pc + 2 + tests.length, flow :: rest, L)
      (pc + 2 + tests.length + binds.length, flow :: rest, L ++ bound)) :
    ARunsL O P code (pc, flow :: rest, L)
      (pc + (matchCode tests binds nb).length, (if pass then Val.ok else Val.nil) :: rest,
        L ++ (if pass then bound else List.replicate nb Val.nil)) := by
  have hlen := matchCode_length tests binds nb
  have hbound : pc + (matchCode tests binds nb).length ≤ code.size := by
    have := Located.bound hl ((matchCode tests binds nb).length - 1) (by omega)
    omega
  have h0 : code[pc]? = some (.jump 1) := by
    have := hl.at 0 (.jump 1) (by simp [matchCode])
    simpa using this
  have h1 : code[pc + 1]? = some (.jump ((tests.length + binds.length + 3 : Nat) : Int)) :=
    hl.at 1 _ (by simp [matchCode])
  -- the part after tests and bindings
  have hl3 : C02S.Located code (pc + 2 + tests.length + binds.length)
      ([.pop, .tuple 1, .jump ((2 * nb + 2 : Nat) : Int)] ++ (nilFill nb ++ [.pop, .tuple 0])) := by
    have := ((C02S.Located.right hl).right).right
    simpa [Nat.add_assoc] using this
  have hl4 : C02S.Located code (pc + 2 + tests.length + binds.length + 3) (nilFill nb) := by
    have := (C02S.Located.right hl3).left
    simpa using this
  have hl5 : C02S.Located code (pc + 2 + tests.length + binds.length + 3 + 2 * nb) [.pop, .tuple 0] := by
    have := (C02S.Located.right hl3).right
    simpa [nilFill_length] using this
  have start := l_jump (O := O) (P := P) (s := flow :: rest) (L := L) (t := pc + 2) h0 (by omega)
    (by rw [e63]; omega)
  refine start.trans (htests.trans ?_)
  rw [hlen]
  cases pass with
  | true =>
    simp only [if_true]
    refine (hbinds rfl).trans ?_
    have p0 := hl3.head
    have p1 := (Located.tail hl3).head
    have p2 := (Located.tail (Located.tail hl3)).head
    have a := l_pop (O := O) (P := P) (v := flow) (s := rest) (L := L ++ bound) p0
    have b := l_tuple0 (O := O) (P := P) (s := rest) (L := L ++ bound) p1 hP.2
    have c := l_jump (O := O) (P := P) (s := Val.tup 1 .nil :: rest) (L := L ++ bound)
      (t := pc + (2 + tests.length + binds.length + 3 + 2 * nb + 2)) p2 (by omega) (by rw [e63]; omega)
    exact (a.trans b).trans c
  | false =>
    simp only [Bool.false_eq_true, if_false]
    have j := l_jump (O := O) (P := P) (s := flow :: rest) (L := L)
      (t := pc + 2 + tests.length + binds.length + 3) h1 (by omega) (by rw [e63]; omega)
    have f := nilFill_aruns (O := O) hP nb _ (flow :: rest) L hl4
    have p0 := hl5.head
    have p1 := (Located.tail hl5).head
    have a := l_pop (O := O) (P := P) (v := flow) (s := rest) (L := L ++ List.replicate nb Val.nil) p0
    have b := l_tuple0 (O := O) (P := P) (s := rest) (L := L ++ List.replicate nb Val.nil) p1 hP.1
    have := ((j.trans f).trans a).trans b
    have e : pc + 2 + tests.length + binds.length + 3 + 2 * nb + 1 + 1 =
        pc + (2 + tests.length + binds.length + 3 + 2 * nb + 2) := by omega
    rw [e] at this
    exact this

/-- **compile_match for the simple patterns**: verdict on the stack, exactly one local per binder
stored on BOTH paths (the matched values / the nil fill) -/
theorem compilePat_aruns (hO : OracleIntEq O) (hP : wfProg P) (hsz : code.size < 2 ^ 63 - 1)
    (p : Pat1) (pc : Nat) (flow : Val) (rest L : List Val) (v : Val) (bound : List Val)
    (hl : C02S.Located code pc (compilePat p)) (hw : wfPat P p) (hev : evalPat flow p = some (v, bound)) :
    ARunsL O P code (pc, flow :: rest, L) (pc + (compilePat p).length, v :: rest, L ++ bound) ∧
      bound.length = (patBinds p).length := by
  cases p with
  | top sb =>
    simp only [compilePat] at hl ⊢
    have ht := testTop_aruns (O := O) (P := P) hO hsz pc 2 sb flow rest L (matchCode_tests hl) hw
    have hb : subPasses flow sb = true → ARunsL O P code (pc + 2 + (testTop sb 2).length, flow :: rest, L)
        (pc + 2 + (testTop sb 2).length + (bindTop sb).length, flow :: rest, L ++ subBound flow sb) := by
      intro _
      have hlb := matchCode_binds hl
      cases sb with
      | bind x =>
        simp only [bindTop, subBound] at hlb ⊢
        have a := l_dup (O := O) (P := P) (v := flow) (s := rest) (L := L) hlb.head
        have b := l_store (O := O) (P := P) (v := flow) (s := flow :: rest) (L := L) (Located.tail hlb).head
        exact a.trans b
      | wild => simpa [bindTop, subBound] using ARunsL.refl _
      | lit z ci => simpa [bindTop, subBound] using ARunsL.refl _
    have main := matchCode_aruns (O := O) hP hsz (testTop sb 2) (bindTop sb) (subBinds sb).length pc flow rest L
      (subPasses flow sb) (subBound flow sb) hl ht hb
    simp only [evalPat] at hev
    by_cases hp : subPasses flow sb = true
    · simp only [hp, if_true, Option.some.injEq, Prod.mk.injEq] at hev main
      obtain ⟨rfl, rfl⟩ := hev
      refine ⟨main, ?_⟩
      cases sb <;> simp [subBound, patBinds, subBinds]
    · have hp' : subPasses flow sb = false := by simpa using hp
      simp only [hp', Bool.false_eq_true, if_false, Option.some.injEq, Prod.mk.injEq] at hev main
      obtain ⟨rfl, rfl⟩ := hev
      exact ⟨main, by simp [patBinds]⟩
  | tup subs =>
    simp only [compilePat] at hl ⊢
    simp only [evalPat] at hev
    cases hfp : fieldsPass subs 0 (fieldsOf flow) with
    | none => rw [hfp] at hev; simp at hev
    | some b =>
      rw [hfp] at hev
      have ht := testsFields_aruns (O := O) (P := P) hO hsz pc flow rest L subs 0 2 b (matchCode_tests hl) hw hfp
      cases b with
      | true =>
        simp only [Option.map_eq_some_iff, Prod.mk.injEq] at hev
        obtain ⟨vs, hvs, rfl, rfl⟩ := hev
        have hb : true = true → ARunsL O P code (pc + 2 + (testsFields subs 0 2).length, flow :: rest, L)
            (pc + 2 + (testsFields subs 0 2).length + (bindsCode (sortB (binders subs 0))).length,
              flow :: rest, L ++ vs) := by
          intro _
          exact bindsCode_aruns (O := O) (P := P) flow rest _ _ L vs (matchCode_binds hl) hvs
        have main := matchCode_aruns (O := O) hP hsz (testsFields subs 0 2) (bindsCode (sortB (binders subs 0)))
          (subsBinds subs).length pc flow rest L true vs hl ht hb
        exact ⟨by simpa using main, by simpa [patBinds, subsBinds] using bindVals_length _ _ _ hvs⟩
      | false =>
        simp only [Option.some.injEq, Prod.mk.injEq] at hev
        obtain ⟨rfl, rfl⟩ := hev
        have main := matchCode_aruns (O := O) hP hsz (testsFields subs 0 2) (bindsCode (sortB (binders subs 0)))
          (subsBinds subs).length pc flow rest L false [] hl ht (by intro h; cases h)
        exact ⟨by simpa using main, by simp [patBinds]⟩

end Pat

/-! ### Terms, chains, tuple fields, sequences -/

section Terms
variable {O : Oracle} {P : Prog} {code : Array Instr}

mutual
  /-- a term: the run, and the alignment `L'.length = Γ'.length` afterwards -/
  theorem compileT_aruns (hO : OracleIntEq O) (hP : wfProg P) (hsz : code.size < 2 ^ 63 - 1) :
      (t : T1) → (Γ : List String) → (pc : Nat) → (flow : Val) → (rest L : List Val) → (v : Val) →
      (L' : List Val) → C02S.Located code pc (compileT Γ t).1 → wfT P t → L.length = Γ.length →
      evalT Γ L flow t = some (v, L') →
      ARunsL O P code (pc, flow :: rest, L) (pc + (compileT Γ t).1.length, v :: rest, L') ∧
        L'.length = (compileT Γ t).2.length
    | .int z i, Γ, pc, flow, rest, L, v, L', hl, hw, hal, hev => by
      simp only [evalT, Option.some.injEq, Prod.mk.injEq] at hev
      obtain ⟨rfl, rfl⟩ := hev
      simp only [compileT] at hl ⊢
      exact ⟨(l_pop hl.head).trans (l_const (Located.tail hl).head hw), hal⟩
    | .ripple, Γ, pc, flow, rest, L, v, L', _, _, hal, hev => by
      simp only [evalT, Option.some.injEq, Prod.mk.injEq] at hev
      obtain ⟨rfl, rfl⟩ := hev
      simp only [compileT, List.length_nil, Nat.add_zero]
      exact ⟨.refl _, hal⟩
    | .tup id fs, Γ, pc, flow, rest, L, v, L', hl, hw, hal, hev => by
      simp only [evalT, Option.map_eq_some_iff] at hev
      obtain ⟨⟨vs, L''⟩, hfs, hv⟩ := hev
      simp only [Prod.mk.injEq] at hv
      obtain ⟨rfl, rfl⟩ := hv
      simp only [compileT] at hl ⊢
      obtain ⟨hrun, hal', hlen⟩ := compileFs_aruns hO hP hsz fs Γ pc flow rest L [] vs L'' hl.left hw.2 hal hfs
      simp only [List.length_nil, List.reverse_nil, List.nil_append] at hrun hal'
      refine ⟨hrun.trans ?_, hal'⟩
      have hr := hl.right
      have h0 := hr.head
      have h1 := (Located.tail hr).head
      have h2 := (Located.tail (Located.tail hr)).head
      have hid : P.tuples[id]? = some vs.length := by rw [hlen]; exact hw.1
      have e : pc + ((compileFs Γ fs 0).1 ++ [Instr.tuple id, Instr.rotate 2, Instr.pop]).length =
          pc + (compileFs Γ fs 0).1.length + 1 + 1 + 1 := by simp; omega
      rw [e]
      exact ((l_tuple h0 hid).trans (l_rot2 h1)).trans (l_pop h2)
    | .var x, Γ, pc, flow, rest, L, v, L', hl, _, hal, hev => by
      simp only [evalT, Option.bind_eq_some_iff, Option.map_eq_some_iff] at hev
      obtain ⟨i, hi, w, hw', hv⟩ := hev
      simp only [Prod.mk.injEq] at hv
      obtain ⟨rfl, rfl⟩ := hv
      simp only [compileT, hi, Option.getD_some] at hl ⊢
      exact ⟨(l_pop hl.head).trans (l_load (Located.tail hl).head hw'), hal⟩
    | .mtch p, Γ, pc, flow, rest, L, v, L', hl, hw, hal, hev => by
      simp only [evalT, Option.map_eq_some_iff] at hev
      obtain ⟨⟨w, bound⟩, hp, hv⟩ := hev
      simp only [Prod.mk.injEq] at hv
      obtain ⟨rfl, rfl⟩ := hv
      simp only [compileT] at hl ⊢
      obtain ⟨hrun, hb⟩ := compilePat_aruns hO hP hsz p pc flow rest L w bound hl hw hp
      exact ⟨hrun, by simp [hal, hb]⟩
  theorem compileCh_aruns (hO : OracleIntEq O) (hP : wfProg P) (hsz : code.size < 2 ^ 63 - 1) :
      (c : Ch1) → (Γ : List String) → (pc : Nat) → (flow : Val) → (rest L : List Val) → (v : Val) →
      (L' : List Val) → C02S.Located code pc (compileCh Γ c).1 → wfCh P c → L.length = Γ.length →
      evalCh Γ L flow c = some (v, L') →
      ARunsL O P code (pc, flow :: rest, L) (pc + (compileCh Γ c).1.length, v :: rest, L') ∧
        L'.length = (compileCh Γ c).2.length
    | .nil, Γ, pc, flow, rest, L, v, L', _, _, hal, hev => by
      simp only [evalCh, Option.some.injEq, Prod.mk.injEq] at hev
      obtain ⟨rfl, rfl⟩ := hev
      simp only [compileCh, List.length_nil, Nat.add_zero]
      exact ⟨.refl _, hal⟩
    | .cons t r, Γ, pc, flow, rest, L, v, L', hl, hw, hal, hev => by
      simp only [evalCh, Option.bind_eq_some_iff] at hev
      obtain ⟨⟨v₁, L₁⟩, ht, hr⟩ := hev
      simp only [compileCh] at hl ⊢
      obtain ⟨run₁, al₁⟩ := compileT_aruns hO hP hsz t Γ pc flow rest L v₁ L₁ hl.left hw.1 hal ht
      obtain ⟨run₂, al₂⟩ := compileCh_aruns hO hP hsz r (compileT Γ t).2 (pc + (compileT Γ t).1.length) v₁ rest
        L₁ v L' hl.right hw.2 al₁ hr
      refine ⟨run₁.trans ?_, al₂⟩
      simpa [Nat.add_assoc] using run₂
  theorem compileFs_aruns (hO : OracleIntEq O) (hP : wfProg P) (hsz : code.size < 2 ^ 63 - 1) :
      (fs : Fs1) → (Γ : List String) → (pc : Nat) → (flow : Val) → (rest L acc vs : List Val) →
      (L' : List Val) → C02S.Located code pc (compileFs Γ fs acc.length).1 → wfFs P fs →
      L.length = Γ.length → evalFs Γ L flow fs = some (vs, L') →
      ARunsL O P code (pc, acc.reverse ++ flow :: rest, L)
          (pc + (compileFs Γ fs acc.length).1.length, (acc ++ vs).reverse ++ flow :: rest, L') ∧
        L'.length = (compileFs Γ fs acc.length).2.length ∧ vs.length = fs.length
    | .nil, Γ, pc, flow, rest, L, acc, vs, L', _, _, hal, hev => by
      simp only [evalFs, Option.some.injEq, Prod.mk.injEq] at hev
      obtain ⟨rfl, rfl⟩ := hev
      simp only [compileFs, List.append_nil, List.length_nil, Nat.add_zero]
      exact ⟨.refl _, hal, rfl⟩
    | .cons c r, Γ, pc, flow, rest, L, acc, vs, L', hl, hw, hal, hev => by
      simp only [evalFs, Option.bind_eq_some_iff, Option.map_eq_some_iff] at hev
      obtain ⟨⟨v₁, L₁⟩, hc, ⟨vs₂, L₂⟩, hr, hv⟩ := hev
      simp only [Prod.mk.injEq] at hv
      obtain ⟨rfl, rfl⟩ := hv
      simp only [compileFs] at hl ⊢
      rw [List.append_assoc] at hl
      have h0 : code[pc]? = some (.pick acc.length) := hl.head
      have hpick : (acc.reverse ++ flow :: rest)[acc.length]? = some flow :=
        C02S.getElem?_append_reverse' acc flow rest
      have hl2 : C02S.Located code (pc + 1) ((compileCh Γ c).1 ++ (compileFs (compileCh Γ c).2 r (acc.length + 1)).1) := by
        have := hl.right
        simpa using this
      obtain ⟨run₁, al₁⟩ := compileCh_aruns hO hP hsz c Γ (pc + 1) flow (acc.reverse ++ flow :: rest) L v₁ L₁
        hl2.left hw.1 hal hc
      obtain ⟨run₂, al₂, len₂⟩ := compileFs_aruns hO hP hsz r (compileCh Γ c).2 (pc + 1 + (compileCh Γ c).1.length)
        flow rest L₁ (acc ++ [v₁]) vs₂ L₂ (by simpa using hl2.right) hw.2 al₁ hr
      refine ⟨(l_pick h0 hpick).trans (run₁.trans ?_), by simpa using al₂, by simp [Fs1.length, len₂]⟩
      have e : pc + ([Instr.pick acc.length] ++ (compileCh Γ c).1 ++ (compileFs (compileCh Γ c).2 r (acc.length + 1)).1).length =
          pc + 1 + (compileCh Γ c).1.length + (compileFs (compileCh Γ c).2 r (acc ++ [v₁]).length).1.length := by
        simp; omega
      rw [e]
      simpa using run₂
end

/-- sequences: the nil short-circuit jumps over the remaining steps' code (and their Stores) -/
theorem compileSq_aruns (hO : OracleIntEq O) (hP : wfProg P) (hsz : code.size < 2 ^ 63 - 1) :
    (sq : Sq1) → (Γ : List String) → (pc : Nat) → (flow : Val) → (rest L : List Val) → (v : Val) →
    (L' : List Val) → C02S.Located code pc (compileSq Γ sq).1 → wfSq P sq → L.length = Γ.length →
    evalSq Γ L flow sq = some (v, L') →
    ARunsL O P code (pc, flow :: rest, L) (pc + (compileSq Γ sq).1.length, v :: rest, L')
  | .last c, Γ, pc, flow, rest, L, v, L', hl, hw, hal, hev => by
    simp only [compileSq, evalSq] at hl hev ⊢
    exact (compileCh_aruns hO hP hsz c Γ pc flow rest L v L' hl hw hal hev).1
  | .cons c r, Γ, pc, flow, rest, L, v, L', hl, hw, hal, hev => by
    simp only [evalSq, Option.bind_eq_some_iff] at hev
    obtain ⟨⟨v₁, L₁⟩, hc, hr⟩ := hev
    simp only [compileSq] at hl ⊢
    rw [List.append_assoc] at hl
    obtain ⟨run₁, al₁⟩ := compileCh_aruns hO hP hsz c Γ pc flow rest L v₁ L₁ hl.left hw.1 hal hc
    refine run₁.trans ?_
    have hl2 := hl.right
    have hd := hl2.head
    have hn := (Located.tail hl2).head
    have hj := (Located.tail (Located.tail hl2)).head
    have hl3 : C02S.Located code (pc + (compileCh Γ c).1.length + 1 + 1 + 1) (compileSq (compileCh Γ c).2 r).1 :=
      Located.tail (Located.tail (Located.tail hl2))
    have hjb := Located.bound hl2 2 (by simp)
    have hend : pc + (compileCh Γ c).1.length + 1 + 1 + (compileSq (compileCh Γ c).2 r).1.length + 1 ≤ code.size := by
      by_cases h0 : (compileSq (compileCh Γ c).2 r).1.length = 0
      · omega
      · have := Located.bound hl3 ((compileSq (compileCh Γ c).2 r).1.length - 1) (by omega)
        omega
    have etot : pc + ((compileCh Γ c).1 ++ ([Instr.duplicate, Instr.not,
        Instr.jumpIf ((compileSq (compileCh Γ c).2 r).1.length : Int)] ++ (compileSq (compileCh Γ c).2 r).1)).length
        = pc + (compileCh Γ c).1.length + 1 + 1 + (compileSq (compileCh Γ c).2 r).1.length + 1 := by simp; omega
    rw [List.append_assoc, etot]
    refine ((l_dup hd).trans (l_not hn)).trans ?_
    by_cases hv : v₁.isNil = true
    · simp only [hv, if_true, Option.some.injEq, Prod.mk.injEq] at hr ⊢
      obtain ⟨rfl, rfl⟩ := hr
      exact l_jumpIf_to hj rfl (by omega) (by rw [e63]; omega)
    · have hv' : v₁.isNil = false := by simpa using hv
      simp only [hv', Bool.false_eq_true, if_false] at hr ⊢
      refine (l_jumpIf_fall hj rfl).trans ?_
      have := compileSq_aruns hO hP hsz r (compileCh Γ c).2 _ v₁ rest L₁ v L' hl3 hw.2 al₁ hr
      have e2 : pc + (compileCh Γ c).1.length + 1 + 1 + 1 + (compileSq (compileCh Γ c).2 r).1.length =
          pc + (compileCh Γ c).1.length + 1 + 1 + (compileSq (compileCh Γ c).2 r).1.length + 1 := by omega
      rw [e2] at this
      exact this

end Terms

/-- **Sequences with locals, bindings and simple matches are compiled correctly**: a process of M-VM
whose current function contains the code of `c₁, c₂, …` (compiled with the slot names `Γ`) at `pc`,
whose frame's locals `L` are aligned with `Γ`, with the flowing value on top of its stack, reaches the
end of that code by `Executor::step` units alone, with the sequence's value in place of the flowing
value and the frame's locals extended exactly as `evalSq` says (the locals of the frames below and the
rest of the stack untouched). -/
theorem compileSq1_correct (O : Oracle) (P : Prog) (hO : OracleIntEq O) (hP : wfProg P) (fn : Function)
    (f : Frame) (r : List Frame) (pre : List Val) (hfn : P.functions[f.functionIndex]? = some fn)
    (hsz : fn.instructions.size < 2 ^ 63 - 1) (sq : Sq1) (Γ : List String) (pc : Nat) (flow : Val)
    (rest L : List Val) (v : Val) (L' : List Val)
    (hl : C02S.Located fn.instructions pc (compileSq Γ sq).1) (hw : wfSq P sq)
    (hal : L.length = Γ.length) (hev : evalSq Γ L flow sq = some (v, L'))
    (p : Proc) (hp : InvL p f r pre pc (flow :: rest) L) :
    ∃ q, C02S.TRuns O P p q ∧ InvL q f r pre (pc + (compileSq Γ sq).1.length) (v :: rest) L' :=
  liftL O P fn f r pre hfn (compileSq_aruns hO hP hsz sq Γ pc flow rest L v L' hl hw hal hev) p hp

end C02L
