import QuiverModel.Lemmas.Packaging.Bridge
/-
C10 × C08 — what `tree_shake` does to the run-time compatibility verdicts, for every program.

`treeShake_preserves_behaviour` (Theorems/C10.lean) has one hypothesis about tables, `TablesAgree`.
This file discharges its core from C08 / C09's model of the type relation (imported read-only):

  * `shake_embeds` (Lemmas/Packaging/Bridge.lean): the shaken type and tuple tables embed into the
    original ones (`QM.Types.Embeds`), by the sweep's rank tables read backwards — every program, entry;
  * `shake_keeps_assignability` / `shake_keeps_overlap`: hence `is_compatible` / `types_overlap` give the
    same verdict on any two kept type ids before and after shaking (`C08.compat_rename`);
  * `shake_keeps_tag_verdict`: hence a kept pattern accepts a tag after shaking exactly when it did before
    — **provided the tag's index entry after shaking is the image of its index entry before**
    (`C08.rename_invariant`; the two `tagType` hypotheses).

That proviso is the precise form of the F13 exception: a tag whose type entry the sweep drops has
`tagType = none` afterwards (`C08.rename_loses_tag_without_entry`: accepted by nothing), which is what
`C10.legacy_shake_loses_process_entry` exhibits for the pre-5a04882 sweep and what `Prog.tagPresent`
exempts in `IsRenaming`. What is NOT proved here (nor in C08): that `TypeIndex.build` commutes with the
embedding, i.e. that for every kept tag the proviso holds (it needs: first occurrences are preserved by an
order-preserving sub-table of a duplicate-free type table) — see notes/C10.md and notes/C08.md.
-/
namespace C10
open QM QM.Packaging
open QM.Types (CInput CTag TypeIndex tagType tagAccepts isCompatible typesOverlap)

/-- a program as the input of C08's compatibility computation -/
def toCInput (ι : String → Nat) (P : Prog) : CInput :=
  { table := toTable ι P
    functions := P.fns.toList.map (fun F => ⟨F.typeId, isTypeOps F.instrs⟩)
    builtins := P.builtins.toList.map (fun B => (B.paramType, B.resultType))
    resources := P.resources.toList.map ι }

/-- **Assignability between kept types is unchanged by shaking** — every program, entry, fuel. -/
theorem shake_keeps_assignability (ι : String → Nat) {P : Prog} {e : Nat} {out : ShakeOut}
    (h : treeShake P e = some out) (fuel a' b' : Nat) :
    isCompatible (toTable ι P) fuel (backMap (sortAsc out.marks.types) P.types.size a')
        (backMap (sortAsc out.marks.types) P.types.size b') =
      isCompatible (toTable ι out.prog) fuel a' b' :=
  C08.compat_rename (shake_embeds ι h) fuel a' b'

theorem shake_keeps_overlap (ι : String → Nat) {P : Prog} {e : Nat} {out : ShakeOut}
    (h : treeShake P e = some out) (fuel a' b' : Nat) :
    typesOverlap (toTable ι P) fuel (backMap (sortAsc out.marks.types) P.types.size a')
        (backMap (sortAsc out.marks.types) P.types.size b') =
      typesOverlap (toTable ι out.prog) fuel a' b' :=
  C08.overlap_rename (shake_embeds ι h) fuel a' b'

/-- **A kept pattern accepts a kept tag after shaking iff it did before**, when the tag's index entry
    afterwards (`id'`) is the image of its entry before. -/
theorem shake_keeps_tag_verdict (ι : String → Nat) {P : Prog} {e : Nat} {out : ShakeOut}
    (h : treeShake P e = some out) (fuel p' id' : Nat) (c c' : CTag)
    (hc' : tagType (toCInput ι out.prog) (TypeIndex.build (toTable ι out.prog)) c' = some id')
    (hc : tagType (toCInput ι P) (TypeIndex.build (toTable ι P)) c =
      some (backMap (sortAsc out.marks.types) P.types.size id')) :
    tagAccepts (toCInput ι P) (TypeIndex.build (toTable ι P)) fuel
        (backMap (sortAsc out.marks.types) P.types.size p') c =
      tagAccepts (toCInput ι out.prog) (TypeIndex.build (toTable ι out.prog)) fuel p' c' :=
  C08.rename_invariant (toCInput ι out.prog) (toCInput ι P) (shake_embeds ι h) fuel p' id' c' c hc' hc

/-- …and a tag whose entry the sweep dropped is accepted by nothing afterwards (the F13 exception). -/
theorem shake_dropped_tag_never_accepted (ι : String → Nat) (P' : Prog) (fuel p' : Nat) (c' : CTag)
    (hc' : tagType (toCInput ι P') (TypeIndex.build (toTable ι P')) c' = none)
    (hp : c' ≠ .integer ∧ c' ≠ .binary ∧ c' ≠ .reference) :
    tagAccepts (toCInput ι P') (TypeIndex.build (toTable ι P')) fuel p' c' = some false :=
  C08.rename_loses_tag_without_entry (toCInput ι P') fuel p' c' hc' hp

end C10
