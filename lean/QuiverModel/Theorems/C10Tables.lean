import QuiverModel.Lemmas.Packaging.Bridge
/-
C10 × C08 — what `tree_shake` does to the run-time compatibility verdicts, for every program.

`treeShake_preserves_behaviour` (Theorems/C10.lean) has one hypothesis about tables, `TablesAgree`.
This file discharges its core from C08 / C09's model of the type relation (imported read-only):

  * `shake_embeds` (Lemmas/Packaging/Bridge.lean): the shaken type and tuple tables embed into the
    original ones (`QM.Types.Embeds`), by the sweep's rank tables read backwards — every program, entry;
  * `shake_keeps_assignability` / `shake_keeps_overlap`: hence `is_compatible` / `types_overlap` give the
    same verdict on any two kept type ids before and after shaking (`C08.compat_rename`);
  * `shake_keeps_tag_verdict`: hence a kept pattern accepts a tag after shaking exactly when it did before
    — **provided the tag's index entry after shaking is the image of its index entry before**
    (`C08.rename_invariant`; the two `tagType` hypotheses).

That proviso is the precise form of the F13 exception: a tag whose type entry the sweep drops has
`tagType = none` afterwards (`C08.rename_loses_tag_without_entry`: accepted by nothing), which is what
`C10.legacy_shake_loses_process_entry` exhibits for the pre-5a04882 sweep and what `Prog.tagPresent`
exempts in `IsRenaming`. What is NOT proved here (nor in C08): that `TypeIndex.build` commutes with the
embedding, i.e. that for every kept tag the proviso holds (it needs: first occurrences are preserved by an
order-preserving sub-table of a duplicate-free type table) — see notes/C10.md and notes/C08.md.
-/
namespace C10
open QM QM.Packaging
open QM.Types (CInput CTag TypeIndex tagType tagAccepts isCompatible typesOverlap CTag.mapIds)

/-- a program as the input of C08's compatibility computation -/
def toCInput (ι : String → Nat) (P : Prog) : CInput :=
  { table := toTable ι P
    functions := P.fns.toList.map (fun F => ⟨F.typeId, isTypeOps F.instrs⟩)
    builtins := P.builtins.toList.map (fun B => (B.paramType, B.resultType))
    resources := P.resources.toList.map ι }

/-- **Assignability between kept types is unchanged by shaking** — every program, entry, fuel. -/
theorem shake_keeps_assignability (ι : String → Nat) {P : Prog} {e : Nat} {out : ShakeOut}
    (h : treeShake P e = some out) (fuel a' b' : Nat) :
    isCompatible (toTable ι P) fuel (backMap (sortAsc out.marks.types) P.types.size a')
        (backMap (sortAsc out.marks.types) P.types.size b') =
      isCompatible (toTable ι out.prog) fuel a' b' :=
  C08.compat_rename (shake_embeds ι h) fuel a' b'

theorem shake_keeps_overlap (ι : String → Nat) {P : Prog} {e : Nat} {out : ShakeOut}
    (h : treeShake P e = some out) (fuel a' b' : Nat) :
    typesOverlap (toTable ι P) fuel (backMap (sortAsc out.marks.types) P.types.size a')
        (backMap (sortAsc out.marks.types) P.types.size b') =
      typesOverlap (toTable ι out.prog) fuel a' b' :=
  C08.overlap_rename (shake_embeds ι h) fuel a' b'

/-- **A kept pattern accepts a kept tag after shaking iff it did before**, when the tag's index entry
    afterwards (`id'`) is the image of its entry before. -/
theorem shake_keeps_tag_verdict (ι : String → Nat) {P : Prog} {e : Nat} {out : ShakeOut}
    (h : treeShake P e = some out) (fuel p' id' : Nat) (c c' : CTag)
    (hc' : tagType (toCInput ι out.prog) (TypeIndex.build (toTable ι out.prog)) c' = some id')
    (hc : tagType (toCInput ι P) (TypeIndex.build (toTable ι P)) c =
      some (backMap (sortAsc out.marks.types) P.types.size id')) :
    tagAccepts (toCInput ι P) (TypeIndex.build (toTable ι P)) fuel
        (backMap (sortAsc out.marks.types) P.types.size p') c =
      tagAccepts (toCInput ι out.prog) (TypeIndex.build (toTable ι out.prog)) fuel p' c' :=
  C08.rename_invariant (toCInput ι out.prog) (toCInput ι P) (shake_embeds ι h) fuel p' id' c' c hc' hc

/-- …and a tag whose entry the sweep dropped is accepted by nothing afterwards (the F13 exception). -/
theorem shake_dropped_tag_never_accepted (ι : String → Nat) (P' : Prog) (fuel p' : Nat) (c' : CTag)
    (hc' : tagType (toCInput ι P') (TypeIndex.build (toTable ι P')) c' = none)
    (hp : c' ≠ .integer ∧ c' ≠ .binary ∧ c' ≠ .reference) :
    tagAccepts (toCInput ι P') (TypeIndex.build (toTable ι P')) fuel p' c' = some false :=
  C08.rename_loses_tag_without_entry (toCInput ι P') fuel p' c' hc' hp

/-- new function id ↦ old function id, etc. (the rank tables read backwards) -/
def backFn (P : Prog) (out : ShakeOut) : Nat → Nat := backMap (sortAsc out.marks.fns) P.fns.size
def backBuiltin (P : Prog) (out : ShakeOut) : Nat → Nat := backMap (sortAsc out.marks.builtins) P.builtins.size
def backResource (P : Prog) (out : ShakeOut) : Nat → Nat := fun rid =>
  match out.prog.resources[rid]? with
  | some n => nameIdx n P.resources.toList
  | none => 0

/-- **`TablesAgree` in substance, for every program** (with b-c09's `C08.rename_invariant_of_embeds`):
    every tag `c'` that has an index entry in the SHAKEN program is accepted by a kept pattern `p'` after
    shaking exactly when the corresponding tag of the original program (tuple / function / builtin /
    resource ids read back through the rank tables) was accepted by the original pattern — no hypothesis
    about index lookups any more. Hypotheses: the original type table is duplicate-free (what
    `register_type` guarantees; needed because `TypeIndex::build` keeps first occurrences) and the shaken
    resource names occur among the original ones. The F13 exception is exactly the complement: a tag
    WITHOUT an index entry after shaking (`shake_dropped_tag_never_accepted`). -/
theorem shake_keeps_every_kept_tag_verdict (ι : String → Nat) {P : Prog} {e : Nat} {out : ShakeOut}
    (h : treeShake P e = some out) (hnd : (toTable ι P).types.Nodup)
    (hresP : ∀ n ∈ out.prog.resources.toList, n ∈ P.resources.toList)
    (fuel p' id' : Nat) (c' : CTag)
    (hc' : tagType (toCInput ι out.prog) (TypeIndex.build (toTable ι out.prog)) c' = some id') :
    tagAccepts (toCInput ι P) (TypeIndex.build (toTable ι P)) fuel
        (backMap (sortAsc out.marks.types) P.types.size p')
        (c'.mapIds (backMap (sortAsc out.marks.tuples) P.tuples.size) (backFn P out) (backBuiltin P out)
          (backResource P out)) =
      tagAccepts (toCInput ι out.prog) (TypeIndex.build (toTable ι out.prog)) fuel p' c' := by
  have E := shake_embeds ι h
  -- unpack the sweep
  have h0 := h
  unfold treeShake treeShakeWith at h0
  split at h0
  · cases h0
  · rename_i m hm
    have hc := markAll_closed hm
    obtain ⟨fs, fs', bs, hfs, hfs', hfnsEq, hbs, hbEq, hrEq⟩ := sweep_fns_builtins h0
    have hmarks : out.marks = m := by
      simp only [sweep] at h0
      split at h0
      · split at h0
        · cases h0
        · cases h0; rfl
      · cases h0
    refine C08.rename_invariant_of_embeds (toCInput ι out.prog) (toCInput ι P) E hnd (backFn P out)
      (backBuiltin P out) (backResource P out) ?_ ?_ ?_ fuel p' id' c' hc'
    · -- functions: the original function behind a kept one has the back-image of its type id
      intro fid f hf
      simp only [toCInput, List.getElem?_map, Option.map_eq_some_iff] at hf
      obtain ⟨F', hF', rfl⟩ := hf
      rw [hfnsEq] at hF'
      have hF'' : fs'[fid]? = some F' := by simpa using hF'
      rcases mapOpt_get? hfs' fid with ⟨_, hn⟩ | ⟨F, F2, hFa, hFb, hsh⟩
      · rw [hF''] at hn; cases hn
      · rw [hF''] at hFb; cases hFb
        obtain ⟨hlen, hget⟩ := getAll_spec hfs
        have hlt : fid < (sortAsc m.fns).length := by
          rw [← hlen]
          rcases Nat.lt_or_ge fid fs.length with h1 | h1
          · exact h1
          · rw [List.getElem?_eq_none h1] at hFa; cases hFa
        have hs : (sortAsc m.fns)[fid]? = some (sortAsc m.fns)[fid] := List.getElem?_eq_getElem hlt
        have hold : (sortAsc m.fns)[fid] ∈ m.fns := mem_sortAsc.mp (List.mem_of_getElem? hs)
        have h1 : fs[fid]? = P.fns[(sortAsc m.fns)[fid]]? := hget fid _ hs
        rw [hFa] at h1
        simp only [shakeFn, Option.map_eq_some_iff] at hsh
        obtain ⟨is, _, rfl⟩ := hsh
        refine ⟨⟨F.typeId, isTypeOps F.instrs⟩, ?_, ?_⟩
        · simp only [toCInput, List.getElem?_map, backFn, hmarks, backMap, hs]
          have : P.fns.toList[(sortAsc m.fns)[fid]]? = some F := by simpa using h1.symm
          rw [this]; rfl
        · simp only [hmarks]
          exact (back_of_marked (hc.fns _ hold F h1.symm)).symm
    · -- builtins
      intro bid b hb
      simp only [toCInput, List.getElem?_map, Option.map_eq_some_iff] at hb
      obtain ⟨B', hB', rfl⟩ := hb
      rw [hbEq] at hB'
      have hB'' : (bs.map (shakeBuiltin (shakeRen P m)))[bid]? = some B' := by simpa using hB'
      simp only [List.getElem?_map, Option.map_eq_some_iff] at hB''
      obtain ⟨B, hB, rfl⟩ := hB''
      obtain ⟨hlen, hget⟩ := getAll_spec hbs
      have hlt : bid < (sortAsc m.builtins).length := by
        rw [← hlen]
        rcases Nat.lt_or_ge bid bs.length with h1 | h1
        · exact h1
        · rw [List.getElem?_eq_none h1] at hB; cases hB
      have hs : (sortAsc m.builtins)[bid]? = some (sortAsc m.builtins)[bid] := List.getElem?_eq_getElem hlt
      have hold : (sortAsc m.builtins)[bid] ∈ m.builtins := mem_sortAsc.mp (List.mem_of_getElem? hs)
      have h1 : bs[bid]? = P.builtins[(sortAsc m.builtins)[bid]]? := hget bid _ hs
      rw [hB] at h1
      obtain ⟨hp, hr⟩ := hc.builtins _ hold B h1.symm
      simp only [toCInput, List.getElem?_map, backBuiltin, hmarks, backMap, hs]
      have : P.builtins.toList[(sortAsc m.builtins)[bid]]? = some B := by simpa using h1.symm
      rw [this]
      simp only [Option.map_some, shakeBuiltin, Option.some.injEq, Prod.mk.injEq]
      exact ⟨(back_of_marked hp).symm, (back_of_marked hr).symm⟩
    · -- resources: by name
      intro rid n hn
      simp only [toCInput, List.getElem?_map, Option.map_eq_some_iff] at hn
      obtain ⟨s, hs, rfl⟩ := hn
      have hs' : out.prog.resources[rid]? = some s := by simpa using hs
      have hmem : s ∈ P.resources.toList := hresP s (List.mem_of_getElem? hs)
      simp only [toCInput, List.getElem?_map, backResource, hs', nameIdx_get hmem, Option.map_some]

end C10
