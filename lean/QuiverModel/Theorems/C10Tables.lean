import QuiverModel.Lemmas.Packaging.Bridge
import QuiverModel.Theorems.C10
import QuiverModel.Lemmas.Packaging.MergeBridge
/-
C10 × C08 — what `tree_shake` does to the run-time compatibility verdicts, for every program.

`treeShake_preserves_behaviour` (Theorems/C10.lean) has one hypothesis about tables, `TablesAgree`.
This file discharges its core from C08 / C09's model of the type relation (imported read-only):

  * `shake_embeds` (Lemmas/Packaging/Bridge.lean): the shaken type and tuple tables embed into the
    original ones (`QM.Types.Embeds`), by the sweep's rank tables read backwards — every program, entry;
  * `shake_keeps_assignability` / `shake_keeps_overlap`: hence `is_compatible` / `types_overlap` give the
    same verdict on any two kept type ids before and after shaking (`C08.compat_rename`);
  * `shake_keeps_tag_verdict` (`C08.rename_invariant`, two `tagType` hypotheses) and, with b-c09's
    `C08.rename_invariant_of_embeds`, `shake_keeps_every_kept_tag_verdict`: a kept pattern accepts a tag that has
    an index entry after shaking exactly when the original pattern accepted the original tag;
  * `tagType_of_present`: `Prog.tagPresent` (my side) is "the index has an entry" (C08's side);
  * `TablesComputed` (the run-time tables ARE what C08's model of `compute_type_compatibility` /
    `compute_param_compatibility` yields), `PresenceKept` (a kept tag with an entry keeps one) ⇒
    **`treeShake_tablesAgree`** ⇒ **`treeShake_preserves_behaviour_computed`**: (T1) with no hypothesis that
    relates the tables of the two programs to each other. `shake_resources` discharges the resource clause.

`PresenceKept` is the precise form of the F13 exception: a tag whose type entry the sweep drops has
`tagType = none` afterwards (`C08.rename_loses_tag_without_entry`: accepted by nothing), which is what
`C10.legacy_shake_loses_process_entry` exhibits for the pre-5a04882 sweep and what `Prog.tagPresent`
exempts in `IsRenaming`. It is NOT true of every bytecode (a `Type::Integer` entry that nothing kept refers
to is dropped, after which an integer is tested by the fallback rule) — it is checked per instance by the
validator; see notes/C10.md.
-/
namespace C10
open QM QM.Packaging
open QM.Types (CInput CTag TypeIndex tagType tagAccepts isCompatible typesOverlap CTag.mapIds Embeds)

/-- a program as the input of C08's compatibility computation -/
def toCInput (ι : String → Nat) (P : Prog) : CInput :=
  { table := toTable ι P
    functions := P.fns.toList.map (fun F => ⟨F.typeId, isTypeOps F.instrs⟩)
    builtins := P.builtins.toList.map (fun B => (B.paramType, B.resultType))
    resources := P.resources.toList.map ι }

/-- **Assignability between kept types is unchanged by shaking** — every program, entry, fuel. -/
theorem shake_keeps_assignability (ι : String → Nat) {P : Prog} {e : Nat} {out : ShakeOut}
    (h : treeShake P e = some out) (fuel a' b' : Nat) :
    isCompatible (toTable ι P) fuel (backMap (sortAsc out.marks.types) P.types.size a')
        (backMap (sortAsc out.marks.types) P.types.size b') =
      isCompatible (toTable ι out.prog) fuel a' b' :=
  C08.compat_rename (shake_embeds ι h) fuel a' b'

theorem shake_keeps_overlap (ι : String → Nat) {P : Prog} {e : Nat} {out : ShakeOut}
    (h : treeShake P e = some out) (fuel a' b' : Nat) :
    typesOverlap (toTable ι P) fuel (backMap (sortAsc out.marks.types) P.types.size a')
        (backMap (sortAsc out.marks.types) P.types.size b') =
      typesOverlap (toTable ι out.prog) fuel a' b' :=
  C08.overlap_rename (shake_embeds ι h) fuel a' b'

/-- **A kept pattern accepts a kept tag after shaking iff it did before**, when the tag's index entry
    afterwards (`id'`) is the image of its entry before. -/
theorem shake_keeps_tag_verdict (ι : String → Nat) {P : Prog} {e : Nat} {out : ShakeOut}
    (h : treeShake P e = some out) (fuel p' id' : Nat) (c c' : CTag)
    (hc' : tagType (toCInput ι out.prog) (TypeIndex.build (toTable ι out.prog)) c' = some id')
    (hc : tagType (toCInput ι P) (TypeIndex.build (toTable ι P)) c =
      some (backMap (sortAsc out.marks.types) P.types.size id')) :
    tagAccepts (toCInput ι P) (TypeIndex.build (toTable ι P)) fuel
        (backMap (sortAsc out.marks.types) P.types.size p') c =
      tagAccepts (toCInput ι out.prog) (TypeIndex.build (toTable ι out.prog)) fuel p' c' :=
  C08.rename_invariant (toCInput ι out.prog) (toCInput ι P) (shake_embeds ι h) fuel p' id' c' c hc' hc

/-- …and a tag whose entry the sweep dropped is accepted by nothing afterwards (the F13 exception). -/
theorem shake_dropped_tag_never_accepted (ι : String → Nat) (P' : Prog) (fuel p' : Nat) (c' : CTag)
    (hc' : tagType (toCInput ι P') (TypeIndex.build (toTable ι P')) c' = none)
    (hp : c' ≠ .integer ∧ c' ≠ .binary ∧ c' ≠ .reference) :
    tagAccepts (toCInput ι P') (TypeIndex.build (toTable ι P')) fuel p' c' = some false :=
  C08.rename_loses_tag_without_entry (toCInput ι P') fuel p' c' hc' hp

/-- new function id ↦ old function id, etc. (the rank tables read backwards) -/
def backFn (P : Prog) (out : ShakeOut) : Nat → Nat := backMap (sortAsc out.marks.fns) P.fns.size
def backBuiltin (P : Prog) (out : ShakeOut) : Nat → Nat := backMap (sortAsc out.marks.builtins) P.builtins.size
def backResource (P : Prog) (out : ShakeOut) : Nat → Nat := fun rid =>
  match out.prog.resources[rid]? with
  | some n => nameIdx n P.resources.toList
  | none => 0

/-- **`TablesAgree` in substance, for every program** (with b-c09's `C08.rename_invariant_of_embeds`):
    every tag `c'` that has an index entry in the SHAKEN program is accepted by a kept pattern `p'` after
    shaking exactly when the corresponding tag of the original program (tuple / function / builtin /
    resource ids read back through the rank tables) was accepted by the original pattern — no hypothesis
    about index lookups any more. Hypotheses: the original type table is duplicate-free (what
    `register_type` guarantees; needed because `TypeIndex::build` keeps first occurrences) and the shaken
    resource names occur among the original ones. The F13 exception is exactly the complement: a tag
    WITHOUT an index entry after shaking (`shake_dropped_tag_never_accepted`). -/
theorem shake_keeps_every_kept_tag_verdict (ι : String → Nat) {P : Prog} {e : Nat} {out : ShakeOut}
    (h : treeShake P e = some out) (hnd : (toTable ι P).types.Nodup)
    (hresP : ∀ n ∈ out.prog.resources.toList, n ∈ P.resources.toList)
    (fuel p' id' : Nat) (c' : CTag)
    (hc' : tagType (toCInput ι out.prog) (TypeIndex.build (toTable ι out.prog)) c' = some id') :
    tagAccepts (toCInput ι P) (TypeIndex.build (toTable ι P)) fuel
        (backMap (sortAsc out.marks.types) P.types.size p')
        (c'.mapIds (backMap (sortAsc out.marks.tuples) P.tuples.size) (backFn P out) (backBuiltin P out)
          (backResource P out)) =
      tagAccepts (toCInput ι out.prog) (TypeIndex.build (toTable ι out.prog)) fuel p' c' := by
  have E := shake_embeds ι h
  -- unpack the sweep
  have h0 := h
  unfold treeShake treeShakeWith at h0
  split at h0
  · cases h0
  · rename_i m hm
    have hc := markAll_closed hm
    obtain ⟨fs, fs', bs, hfs, hfs', hfnsEq, hbs, hbEq, hrEq⟩ := sweep_fns_builtins h0
    have hmarks : out.marks = m := by
      simp only [sweep] at h0
      split at h0
      · split at h0
        · cases h0
        · cases h0; rfl
      · cases h0
    refine C08.rename_invariant_of_embeds (toCInput ι out.prog) (toCInput ι P) E hnd (backFn P out)
      (backBuiltin P out) (backResource P out) ?_ ?_ ?_ fuel p' id' c' hc'
    · -- functions: the original function behind a kept one has the back-image of its type id
      intro fid f hf
      simp only [toCInput, List.getElem?_map, Option.map_eq_some_iff] at hf
      obtain ⟨F', hF', rfl⟩ := hf
      rw [hfnsEq] at hF'
      have hF'' : fs'[fid]? = some F' := by simpa using hF'
      rcases mapOpt_get? hfs' fid with ⟨_, hn⟩ | ⟨F, F2, hFa, hFb, hsh⟩
      · rw [hF''] at hn; cases hn
      · rw [hF''] at hFb; cases hFb
        obtain ⟨hlen, hget⟩ := getAll_spec hfs
        have hlt : fid < (sortAsc m.fns).length := by
          rw [← hlen]
          rcases Nat.lt_or_ge fid fs.length with h1 | h1
          · exact h1
          · rw [List.getElem?_eq_none h1] at hFa; cases hFa
        have hs : (sortAsc m.fns)[fid]? = some (sortAsc m.fns)[fid] := List.getElem?_eq_getElem hlt
        have hold : (sortAsc m.fns)[fid] ∈ m.fns := mem_sortAsc.mp (List.mem_of_getElem? hs)
        have h1 : fs[fid]? = P.fns[(sortAsc m.fns)[fid]]? := hget fid _ hs
        rw [hFa] at h1
        simp only [shakeFn, Option.map_eq_some_iff] at hsh
        obtain ⟨is, _, rfl⟩ := hsh
        refine ⟨⟨F.typeId, isTypeOps F.instrs⟩, ?_, ?_⟩
        · simp only [toCInput, List.getElem?_map, backFn, hmarks, backMap, hs]
          have : P.fns.toList[(sortAsc m.fns)[fid]]? = some F := by simpa using h1.symm
          rw [this]; rfl
        · simp only [hmarks]
          exact (back_of_marked (hc.fns _ hold F h1.symm)).symm
    · -- builtins
      intro bid b hb
      simp only [toCInput, List.getElem?_map, Option.map_eq_some_iff] at hb
      obtain ⟨B', hB', rfl⟩ := hb
      rw [hbEq] at hB'
      have hB'' : (bs.map (shakeBuiltin (shakeRen P m)))[bid]? = some B' := by simpa using hB'
      simp only [List.getElem?_map, Option.map_eq_some_iff] at hB''
      obtain ⟨B, hB, rfl⟩ := hB''
      obtain ⟨hlen, hget⟩ := getAll_spec hbs
      have hlt : bid < (sortAsc m.builtins).length := by
        rw [← hlen]
        rcases Nat.lt_or_ge bid bs.length with h1 | h1
        · exact h1
        · rw [List.getElem?_eq_none h1] at hB; cases hB
      have hs : (sortAsc m.builtins)[bid]? = some (sortAsc m.builtins)[bid] := List.getElem?_eq_getElem hlt
      have hold : (sortAsc m.builtins)[bid] ∈ m.builtins := mem_sortAsc.mp (List.mem_of_getElem? hs)
      have h1 : bs[bid]? = P.builtins[(sortAsc m.builtins)[bid]]? := hget bid _ hs
      rw [hB] at h1
      obtain ⟨hp, hr⟩ := hc.builtins _ hold B h1.symm
      simp only [toCInput, List.getElem?_map, backBuiltin, hmarks, backMap, hs]
      have : P.builtins.toList[(sortAsc m.builtins)[bid]]? = some B := by simpa using h1.symm
      rw [this]
      simp only [Option.map_some, shakeBuiltin, Option.some.injEq, Prod.mk.injEq]
      exact ⟨(back_of_marked hp).symm, (back_of_marked hr).symm⟩
    · -- resources: by name
      intro rid n hn
      simp only [toCInput, List.getElem?_map, Option.map_eq_some_iff] at hn
      obtain ⟨s, hs, rfl⟩ := hn
      have hs' : out.prog.resources[rid]? = some s := by simpa using hs
      have hmem : s ∈ P.resources.toList := hresP s (List.mem_of_getElem? hs)
      simp only [toCInput, List.getElem?_map, backResource, hs', nameIdx_get hmem, Option.map_some]

/-- my run-time tag as C08's concrete tag -/
def tagTo : Tag → CTag
  | .int => .integer
  | .bin => .binary
  | .ref => .reference
  | .tuple t => .tuple t
  | .fn f => .function f
  | .builtin b => .builtin b
  | .proc f => .process f
  | .res r => .resource r

structure TablesComputed (ι : String → Nat) (fuel : Nat) (P : Prog) : Prop where
  compat : ∀ (f : Nat) (F : Fn), P.fns[f]? = some F → ∀ t, t ∈ isTypeOps F.instrs → ∀ c,
    tagAccepts (toCInput ι P) (TypeIndex.build (toTable ι P)) fuel t (tagTo c) = some (P.isCompat t c)
  fparam : ∀ (f : Nat) (F : Fn) (p r v : Nat), P.fns[f]? = some F → P.types[F.typeId]? = some (.callable p r v) → ∀ c,
    tagAccepts (toCInput ι P) (TypeIndex.build (toTable ι P)) fuel p (tagTo c) = some (P.msgCompatFn f c)
  bparam : ∀ (b : Nat) (B : BuiltinInfo), P.builtins[b]? = some B → ∀ c,
    tagAccepts (toCInput ι P) (TypeIndex.build (toTable ι P)) fuel B.paramType (tagTo c) =
      some (P.msgCompatBuiltin b c)

def EntriesKept (ι : String → Nat) (ρ : Ren) (P P' : Prog) : Prop :=
  ∀ c c', renameTag ρ c = some c' → P.tagPresent c = true →
    ∃ id', tagType (toCInput ι P') (TypeIndex.build (toTable ι P')) (tagTo c') = some id'


/-- the ids of a tag that C08's index insists on being inside the tables -/
def TagInRange (P : Prog) : Tag → Prop
  | .tuple t => t < P.tuples.size
  | .fn f => f < P.fns.size
  | _ => True

/-- **`Prog.tagPresent` is C08's "the index has an entry"**: a tag that is present (and whose ids are in
    range) has a tag type in `TypeIndex.build` of the converted tables. -/
theorem tagType_of_present (ι : String → Nat) (P : Prog) (c : Tag) (hp : P.tagPresent c = true)
    (hr : TagInRange P c) :
    ∃ id, tagType (toCInput ι P) (TypeIndex.build (toTable ι P)) (tagTo c) = some id := by
  cases c with
  | int =>
    obtain ⟨n, τ, hn, hτ⟩ := any_eq_get (p := (· == Ty.int)) hp
    have : τ = Ty.int := by simpa using hτ
    subst this
    simp only [tagTo, tagType, TypeIndex.build, QM.Types.buildFrom_integer]
    exact QM.Types.build_prim_complete QM.Types.isIntTy (toTable ι P) n _ (toTable_get ι hn) rfl
  | bin =>
    obtain ⟨n, τ, hn, hτ⟩ := any_eq_get (p := (· == Ty.bin)) hp
    have : τ = Ty.bin := by simpa using hτ
    subst this
    simp only [tagTo, tagType, TypeIndex.build, QM.Types.buildFrom_binary]
    exact QM.Types.build_prim_complete QM.Types.isBinTy (toTable ι P) n _ (toTable_get ι hn) rfl
  | ref =>
    obtain ⟨n, τ, hn, hτ⟩ := any_eq_get (p := (· == Ty.ref)) hp
    have : τ = Ty.ref := by simpa using hτ
    subst this
    simp only [tagTo, tagType, TypeIndex.build, QM.Types.buildFrom_reference]
    exact QM.Types.build_prim_complete QM.Types.isRefTy (toTable ι P) n _ (toTable_get ι hn) rfl
  | tuple t =>
    obtain ⟨n, τ, hn, hτ⟩ := any_eq_get (p := (· == Ty.tuple t)) hp
    have : τ = Ty.tuple t := by simpa using hτ
    subst this
    simp only [tagTo, tagType, TypeIndex.build, QM.Types.buildFrom_tuple]
    refine QM.Types.build_assoc_complete (QM.Types.tupleKey (toTable ι P)) (toTable ι P) t n _ (toTable_get ι hn) ?_
    have hlt : t < (toTable ι P).tuples.length := by simpa [toTable, TagInRange] using hr
    simp [tyTo, QM.Types.tupleKey, hlt]
  | fn f =>
    have hlt : f < P.fns.toList.length := by simpa [TagInRange] using hr
    simp only [tagTo, tagType, toCInput, List.getElem?_map, List.getElem?_eq_getElem hlt, Option.map_some]
    exact ⟨_, rfl⟩
  | builtin b =>
    simp only [Prog.tagPresent] at hp
    cases hB : P.builtins[b]? with
    | none => rw [hB] at hp; cases hp
    | some B =>
      rw [hB] at hp
      dsimp only at hp
      obtain ⟨n, τ, hn, hτ⟩ := any_eq_get hp
      cases τ with
      | callable p r v =>
        simp only [Bool.and_eq_true, beq_iff_eq] at hτ
        obtain ⟨⟨rfl, rfl⟩, hv⟩ := hτ
        have hBl : P.builtins.toList[b]? = some B := by simpa using hB
        simp only [tagTo, tagType, toCInput, List.getElem?_map, hBl, Option.map_some, Option.bind_some,
          TypeIndex.build, QM.Types.buildFrom_callable]
        refine QM.Types.build_assoc_complete (QM.Types.callKey (toTable ι P)) (toTable ι P) _ n _ (toTable_get ι hn) ?_
        simp only [Prog.isNeverTy] at hv
        split at hv
        · rename_i hu
          simp [tyTo, QM.Types.callKey, toTable_get ι hu, QM.Types.isNeverTy]
        · cases hv
      | _ => cases hτ
  | proc f =>
    simp only [Prog.tagPresent] at hp
    cases hF : P.fns[f]? with
    | none => rw [hF] at hp; cases hp
    | some F =>
      rw [hF] at hp
      dsimp only at hp
      have hFl : P.fns.toList[f]? = some F := by simpa using hF
      simp only [tagTo, tagType, toCInput, List.getElem?_map, hFl, Option.map_some, Option.bind_some,
        TypeIndex.build, QM.Types.buildFrom_process]
      cases hty : P.types[F.typeId]? with
      | none =>
        rw [hty] at hp
        obtain ⟨n, τ, hn, hτ⟩ := any_eq_get (p := (· == Ty.process none none)) hp
        have : τ = Ty.process none none := by simpa using hτ
        subst this
        have hx : (toTable ι P).types[F.typeId]? = none := by
          have : P.types.toList[F.typeId]? = none := by simpa using hty
          simp [toTable, List.getElem?_map, this]
        simp only [QM.Types.extractFn, hx]
        exact QM.Types.build_assoc_complete QM.Types.procKey (toTable ι P) _ n _ (toTable_get ι hn) rfl
      | some σ =>
        rw [hty] at hp
        have hx := toTable_get ι hty
        cases σ with
        | callable p r v =>
          obtain ⟨n, τ, hn, hτ⟩ := any_eq_get (p := (· == Ty.process (some v) (some r))) hp
          have : τ = Ty.process (some v) (some r) := by simpa using hτ
          subst this
          simp only [QM.Types.extractFn, hx, tyTo]
          exact QM.Types.build_assoc_complete QM.Types.procKey (toTable ι P) _ n _ (toTable_get ι hn) rfl
        | _ =>
          obtain ⟨n, τ, hn, hτ⟩ := any_eq_get (p := (· == Ty.process none none)) hp
          have : τ = Ty.process none none := by simpa using hτ
          subst this
          simp only [QM.Types.extractFn, hx, tyTo]
          exact QM.Types.build_assoc_complete QM.Types.procKey (toTable ι P) _ n _ (toTable_get ι hn) rfl
  | res r =>
    simp only [Prog.tagPresent] at hp
    cases hR : P.resources[r]? with
    | none => rw [hR] at hp; cases hp
    | some nm =>
      rw [hR] at hp
      dsimp only at hp
      obtain ⟨n, τ, hn, hτ⟩ := any_eq_get (p := (· == Ty.resource nm)) hp
      have : τ = Ty.resource nm := by simpa using hτ
      subst this
      have hRl : P.resources.toList[r]? = some nm := by simpa using hR
      simp only [tagTo, tagType, toCInput, List.getElem?_map, hRl, Option.map_some, Option.bind_some,
        TypeIndex.build, QM.Types.buildFrom_resource]
      exact QM.Types.build_assoc_complete QM.Types.resKey (toTable ι P) _ n _ (toTable_get ι hn) rfl


/-- the resource clause of `TablesAgree`, from the definition of the sweep's resource map -/
theorem shake_resources {P : Prog} {e : Nat} {out : ShakeOut} (h : treeShake P e = some out) :
    ∀ r r', out.ren.resource.get r = some r' →
      ∃ n, P.resources[r]? = some n ∧ out.prog.resources[r']? = some n := by
  intro r r' hr
  have hren := (treeShake_keeps_everything_reachable h).1
  have h0 := h
  unfold treeShake treeShakeWith at h0
  split at h0
  · cases h0
  · rename_i m hm
    obtain ⟨_, _, _, _, _, _, _, _, hrEq⟩ := sweep_fns_builtins h0
    have hmarks : out.marks = m := by
      simp only [sweep] at h0
      split at h0
      · split at h0
        · cases h0
        · cases h0; rfl
      · cases h0
    rw [hren, hmarks] at hr
    let g : Nat → Option Nat := fun i =>
      match P.resources[i]? with
      | some n => (sortStrAsc m.resources).findIdx? (· == n)
      | none => none
    have hfun : (shakeRen P m).resource =
        (List.range P.resources.size).filterMap (fun i => (g i).map (fun j => (i, j))) := by
      simp only [shakeRen]
      congr 1
      funext i
      simp only [g]
      cases P.resources[i]? <;> rfl
    have hg := lookup_filterMap_pair (g := g) _ (show List.lookup r _ = some r' by rw [← hfun]; exact hr)
    simp only [g] at hg
    cases hn : P.resources[r]? with
    | none => rw [hn] at hg; cases hg
    | some n =>
      rw [hn] at hg
      simp only at hg
      obtain ⟨hlt, hp, _⟩ := List.findIdx?_eq_some_iff_getElem.mp hg
      have : (sortStrAsc m.resources)[r'] = n := by simpa using hp
      refine ⟨n, rfl, ?_⟩
      rw [hrEq]
      simp [List.getElem?_eq_getElem hlt, this]


theorem tag_back {P : Prog} {out : ShakeOut} (hren : out.ren = shakeRen P out.marks)
    (hres : ∀ r r', out.ren.resource.get r = some r' →
      ∃ n, P.resources[r]? = some n ∧ out.prog.resources[r']? = some n)
    (hnodupR : P.resources.toList.Nodup) {c c' : Tag} (hc : renameTag out.ren c = some c') :
    (tagTo c').mapIds (backMap (sortAsc out.marks.tuples) P.tuples.size) (backFn P out) (backBuiltin P out)
      (backResource P out) = tagTo c := by
  have htu : out.ren.tuple = rankMap (sortAsc out.marks.tuples) := by rw [hren]; rfl
  have hfn : out.ren.fn = rankMap (sortAsc out.marks.fns) := by rw [hren]; rfl
  have hbi : out.ren.builtin = rankMap (sortAsc out.marks.builtins) := by rw [hren]; rfl
  cases c with
  | int => simp only [renameTag, Option.some.injEq] at hc; subst hc; rfl
  | bin => simp only [renameTag, Option.some.injEq] at hc; subst hc; rfl
  | ref => simp only [renameTag, Option.some.injEq] at hc; subst hc; rfl
  | tuple t =>
    simp only [renameTag, Option.map_eq_some_iff] at hc
    obtain ⟨t', ht', rfl⟩ := hc
    rw [htu] at ht'
    simp only [tagTo, CTag.mapIds, backMap_of_rank ht']
  | fn f =>
    simp only [renameTag, Option.map_eq_some_iff] at hc
    obtain ⟨f', hf', rfl⟩ := hc
    rw [hfn] at hf'
    simp only [tagTo, CTag.mapIds, backFn, backMap_of_rank hf']
  | builtin b =>
    simp only [renameTag, Option.map_eq_some_iff] at hc
    obtain ⟨b', hb', rfl⟩ := hc
    rw [hbi] at hb'
    simp only [tagTo, CTag.mapIds, backBuiltin, backMap_of_rank hb']
  | proc f =>
    simp only [renameTag, Option.map_eq_some_iff] at hc
    obtain ⟨f', hf', rfl⟩ := hc
    rw [hfn] at hf'
    simp only [tagTo, CTag.mapIds, backFn, backMap_of_rank hf']
  | res r =>
    simp only [renameTag, Option.map_eq_some_iff] at hc
    obtain ⟨r', hr', rfl⟩ := hc
    obtain ⟨n, h1, h2⟩ := hres r r' hr'
    have h1' : P.resources.toList[r]? = some n := by simpa using h1
    simp only [tagTo, CTag.mapIds, backResource, h2, nameIdx_of_get hnodupR h1']

/-- **`TablesAgree` from the definition of the tables.** If the run-time tables of the original and of the
    shaken program are the computed ones (`TablesComputed`: each row is what C08's model of
    `compute_type_compatibility` / `compute_param_compatibility` yields, with enough fuel) and every tag
    that has an index entry before shaking and whose ids are kept still has one afterwards
    (`EntriesKept` — the exact complement of the F13 situation), then the tables agree through the sweep's
    renaming. -/
theorem treeShake_tablesAgree (ι : String → Nat) (fuel : Nat) {P P' : Prog} {e : Nat} {out : ShakeOut}
    (h : treeShake P e = some out)
    (hfns : P'.fns = out.prog.fns) (htuples : P'.tuples = out.prog.tuples)
    (hbuiltins : P'.builtins = out.prog.builtins) (htypes : P'.types = out.prog.types)
    (hresources : P'.resources = out.prog.resources)
    (hnd : (toTable ι P).types.Nodup) (hnodupR : P.resources.toList.Nodup)
    (hresP : ∀ n ∈ out.prog.resources.toList, n ∈ P.resources.toList)
    (hcall : ∀ (f : Nat) (F : Fn), P.fns[f]? = some F → ∃ p r v, P.types[F.typeId]? = some (.callable p r v))
    (hT : TablesComputed ι fuel P) (hT' : TablesComputed ι fuel P') (hK : EntriesKept ι out.ren P P') :
    TablesAgree out.ren P P' := by
  have hs := treeShake_structRenaming h
  have hren := (treeShake_keeps_everything_reachable h).1
  have hty : out.ren.type = rankMap (sortAsc out.marks.types) := by rw [hren]; rfl
  have hcin : toCInput ι P' = toCInput ι out.prog := by
    simp only [toCInput, toTable, hfns, htuples, hbuiltins, htypes, hresources]
  have htab : toTable ι P' = toTable ι out.prog := by simp only [toTable, htuples, htypes]
  have hres' := shake_resources h
  have hres : ∀ r r', out.ren.resource.get r = some r' →
      ∃ n, P.resources[r]? = some n ∧ P'.resources[r']? = some n := by
    intro r r' hr; rw [hresources]; exact hres' r r' hr
  -- the verdict on a kept pattern and a kept, present tag is the same before and after
  have verdict : ∀ t t' c c', out.ren.type.get t = some t' → renameTag out.ren c = some c' →
      P.tagPresent c = true →
      tagAccepts (toCInput ι P) (TypeIndex.build (toTable ι P)) fuel t (tagTo c) =
        tagAccepts (toCInput ι P') (TypeIndex.build (toTable ι P')) fuel t' (tagTo c') := by
    intro t t' c c' ht hc hp
    obtain ⟨id', hid⟩ := hK c c' hc hp
    rw [hcin, htab] at hid ⊢
    have := shake_keeps_every_kept_tag_verdict ι h hnd hresP fuel t' id' (tagTo c') hid
    rw [hty] at ht
    rw [backMap_of_rank ht, tag_back hren hres' hnodupR hc] at this
    exact this
  refine ⟨?_, ?_, ?_, hres⟩
  · intro f f' F hf hF t ht t' ht' c c' hc hp
    obtain ⟨F0, F', hF0, hF', _, hins, _⟩ := hs.fns f f' hf
    rw [hF] at hF0; cases hF0
    rw [← hfns] at hF'
    have h1 := hT.compat f F hF t ht c
    have h2 := hT'.compat f' F' hF' t' (isTypeOps_rename hins ht ht') c'
    rw [verdict t t' c c' ht' hc hp, h2] at h1
    exact (Option.some.inj h1).symm
  · intro f f' hf c c' hc hp
    obtain ⟨F, F', hF, hF', _, _, htid⟩ := hs.fns f f' hf
    obtain ⟨p, r, v, hcal⟩ := hcall f F hF
    obtain ⟨τ, τ', hτ, hτ', hrt⟩ := hs.types F.typeId F'.typeId htid
    rw [hcal] at hτ; cases hτ
    rw [← hfns] at hF'
    rw [← htypes] at hτ'
    simp only [renameTy] at hrt
    split at hrt
    · rename_i p' r' v' hp' _ _
      cases hrt
      have h1 := hT.fparam f F p r v hF hcal c
      have h2 := hT'.fparam f' F' p' r' v' hF' hτ' c'
      rw [verdict p p' c c' hp' hc hp, h2] at h1
      exact (Option.some.inj h1).symm
    · cases hrt
  · intro b b' hb c c' hc hp
    obtain ⟨B, B', hB, hB', _, hpt, _⟩ := hs.builtins b b' hb
    rw [← hbuiltins] at hB'
    have h1 := hT.bparam b B hB c
    have h2 := hT'.bparam b' B' hB' c'
    rw [verdict B.paramType B'.paramType c c' hpt hc hp, h2] at h1
    exact (Option.some.inj h1).symm


/-- `EntriesKept` holds outright for function tags: a kept function is a function of the shaken program. -/
theorem entriesKept_fn (ι : String → Nat) {P P' : Prog} {e : Nat} {out : ShakeOut} (h : treeShake P e = some out)
    (hfns : P'.fns = out.prog.fns) {f : Nat} {c' : Tag} (hc : renameTag out.ren (.fn f) = some c') :
    ∃ id', tagType (toCInput ι P') (TypeIndex.build (toTable ι P')) (tagTo c') = some id' := by
  simp only [renameTag, Option.map_eq_some_iff] at hc
  obtain ⟨f', hf', rfl⟩ := hc
  obtain ⟨F, F', _, hF', _⟩ := (treeShake_structRenaming h).fns f f' hf'
  rw [← hfns] at hF'
  have : P'.fns.toList[f']? = some F' := by simpa using hF'
  simp only [tagTo, tagType, toCInput, List.getElem?_map, this, Option.map_some]
  exact ⟨_, rfl⟩



/-- **The F13 proviso in the model's own vocabulary**: every tag whose ids are kept and whose tag type has an
    entry in the source type table still has one after the step. (False for the pre-5a04882 sweep:
    `legacy_shake_loses_process_entry`.) -/
def PresenceKept (ρ : Ren) (P P' : Prog) : Prop :=
  ∀ c c', renameTag ρ c = some c' → P.tagPresent c = true → P'.tagPresent c' = true

theorem entriesKept_of_presenceKept (ι : String → Nat) {P P' : Prog} {e : Nat} {out : ShakeOut}
    (h : treeShake P e = some out) (hfns : P'.fns = out.prog.fns) (htuples : P'.tuples = out.prog.tuples)
    (hK : PresenceKept out.ren P P') : EntriesKept ι out.ren P P' := by
  intro c c' hc hp
  refine tagType_of_present ι P' c' (hK c c' hc hp) ?_
  have hs := treeShake_structRenaming h
  cases c with
  | tuple t =>
    simp only [renameTag, Option.map_eq_some_iff] at hc
    obtain ⟨t', ht', rfl⟩ := hc
    obtain ⟨_, T', _, hT', _⟩ := hs.tuples t t' ht'
    rw [← htuples] at hT'
    simp only [TagInRange]
    rcases Nat.lt_or_ge t' P'.tuples.size with h1 | h1
    · exact h1
    · rw [Array.getElem?_eq_none h1] at hT'; cases hT'
  | fn f =>
    simp only [renameTag, Option.map_eq_some_iff] at hc
    obtain ⟨f', hf', rfl⟩ := hc
    obtain ⟨_, F', _, hF', _⟩ := hs.fns f f' hf'
    rw [← hfns] at hF'
    simp only [TagInRange]
    rcases Nat.lt_or_ge f' P'.fns.size with h1 | h1
    · exact h1
    · rw [Array.getElem?_eq_none h1] at hF'; cases hF'
  | int => simp only [renameTag, Option.some.injEq] at hc; subst hc; trivial
  | bin => simp only [renameTag, Option.some.injEq] at hc; subst hc; trivial
  | ref => simp only [renameTag, Option.some.injEq] at hc; subst hc; trivial
  | builtin b =>
    simp only [renameTag, Option.map_eq_some_iff] at hc
    obtain ⟨b', _, rfl⟩ := hc; trivial
  | proc f =>
    simp only [renameTag, Option.map_eq_some_iff] at hc
    obtain ⟨f', _, rfl⟩ := hc; trivial
  | res r =>
    simp only [renameTag, Option.map_eq_some_iff] at hc
    obtain ⟨r', _, rfl⟩ := hc; trivial

/-- **(T1) without `TablesAgree`**: shaking preserves behaviour for all inputs and execution lengths, for every
    program whose tables are the computed ones (`TablesComputed`, `CanonComputed`) and whose kept tags keep
    their index entries (`PresenceKept`). The remaining hypotheses are well-formedness of the INPUT: its type
    table and resource list are duplicate-free, every function's type is a callable, the resource names of
    the shaken program occur in the original resource list. -/
theorem treeShake_preserves_behaviour_computed (ι : String → Nat) (fuel : Nat) {P P' : Prog} {e : Nat}
    {out : ShakeOut} (h : treeShake P e = some out)
    (hfns : P'.fns = out.prog.fns) (hconsts : P'.consts = out.prog.consts) (htuples : P'.tuples = out.prog.tuples)
    (hbuiltins : P'.builtins = out.prog.builtins) (htypes : P'.types = out.prog.types)
    (hresources : P'.resources = out.prog.resources)
    (hc : P.CanonComputed) (hc' : P'.CanonComputed)
    (hnd : (toTable ι P).types.Nodup) (hnodupR : P.resources.toList.Nodup)
    (hresP : ∀ n ∈ out.prog.resources.toList, n ∈ P.resources.toList)
    (hcall : ∀ (f : Nat) (F : Fn), P.fns[f]? = some F → ∃ p r v, P.types[F.typeId]? = some (.callable p r v))
    (hT : TablesComputed ι fuel P) (hT' : TablesComputed ι fuel P') (hK : PresenceKept out.ren P P')
    {B B' : BuiltinSem} (hB : BuiltinsCommute out.ren B B') {a a' : Val} (ha : RelVal out.ren a a') {t : St}
    (hrun : Steps P B (St.start e a) t) (hsafe : ∀ u, Steps P B (St.start e a) u → IsTypeSafe P u) :
    ∃ t', Steps P' B' (St.start out.entry a') t' ∧ RelSt out.ren t t' :=
  treeShake_preserves_behaviour h hfns hconsts htuples hbuiltins htypes hc hc'
    (treeShake_tablesAgree ι fuel h hfns htuples hbuiltins htypes hresources hnd hnodupR hresP hcall hT hT'
      (entriesKept_of_presenceKept ι h hfns htuples hK))
    hB ha hrun hsafe


/-- function, process and builtin tags: the tags whose type entry is referenced by nothing (index-only) -/
def isCodeTag : Tag → Bool
  | .fn _ => true
  | .proc _ => true
  | .builtin _ => true
  | _ => false

theorem any_of_get {P : Prog} {p : Ty → Bool} {n : Nat} {τ : Ty} (h : P.types[n]? = some τ) (hp : p τ = true) :
    P.types.toList.any p = true := by
  have : P.types.toList[n]? = some τ := by simpa using h
  exact List.any_eq_true.mpr ⟨τ, List.mem_of_getElem? this, hp⟩

/-- **The F13 repair as a theorem** (the general form of `legacy_shake_loses_process_entry`'s second half):
    the current sweep keeps the index entry of every kept function, of every process of a kept function
    and of every kept builtin — the tags whose type entry no instruction and no other type refers to. For
    every program whose function types are callable types, and every entry. -/
theorem shake_keeps_code_tag_presence {P : Prog} {e : Nat} {out : ShakeOut} (h : treeShake P e = some out)
    (hcall : ∀ (f : Nat) (F : Fn), P.fns[f]? = some F → ∃ p r v, P.types[F.typeId]? = some (.callable p r v))
    {c c' : Tag} (hcode : isCodeTag c = true)
    (hc : renameTag out.ren c = some c') (hp : P.tagPresent c = true) : out.prog.tagPresent c' = true := by
  have hs := treeShake_structRenaming h
  have hren := (treeShake_keeps_everything_reachable h).1
  have hIO := (markAll_extra (treeShake_marks h)).2 rfl
  have hty : out.ren.type = rankMap (sortAsc out.marks.types) := by rw [hren]; rfl
  have hfn : out.ren.fn = rankMap (sortAsc out.marks.fns) := by rw [hren]; rfl
  have hbi : out.ren.builtin = rankMap (sortAsc out.marks.builtins) := by rw [hren]; rfl
  have typeImg : ∀ t, t ∈ out.marks.types → ∃ t', out.ren.type.get t = some t' := by
    intro t ht; rw [hty]; exact rankMap_get_of_mem (mem_sortAsc.mpr ht)
  cases c with
  | fn f =>
    simp only [renameTag, Option.map_eq_some_iff] at hc
    obtain ⟨f', _, rfl⟩ := hc
    rfl
  | proc f =>
    simp only [renameTag, Option.map_eq_some_iff] at hc
    obtain ⟨f', hf', rfl⟩ := hc
    have hfm : f ∈ out.marks.fns := by rw [hfn] at hf'; exact rank_mem hf'
    obtain ⟨F, F', hF, hF', _, _, htid⟩ := hs.fns f f' hf'
    obtain ⟨p, r, v, hcal⟩ := hcall f F hF
    simp only [Prog.tagPresent, hF, hcal] at hp
    obtain ⟨n, τ, hn, hτ⟩ := any_eq_get (p := (· == Ty.process (some v) (some r))) hp
    have : τ = Ty.process (some v) (some r) := by simpa using hτ
    subst this
    -- the entry is index-only for the kept function `f`
    have hio : isIndexOnly P out.marks (Ty.process (some v) (some r)) = true := by
      simp only [isIndexOnly, List.any_eq_true]
      exact ⟨f, hfm, by simp [hF, hcal]⟩
    obtain ⟨n', hn'⟩ := typeImg n (hIO n _ hn hio)
    obtain ⟨τ0, τ', hτ0, hτ', hrt⟩ := hs.types n n' hn'
    rw [hn] at hτ0; cases hτ0
    obtain ⟨σ0, σ', hσ0, hσ', hrs⟩ := hs.types F.typeId F'.typeId htid
    rw [hcal] at hσ0; cases hσ0
    simp only [renameTy] at hrs
    split at hrs
    · rename_i p2 r2 v2 _ hr2 hv2
      cases hrs
      simp only [renameTy, renameOptTy, hr2, hv2, Option.map_some] at hrt
      cases hrt
      simp only [Prog.tagPresent, hF', hσ']
      exact any_of_get hτ' (by simp)
    · cases hrs
  | builtin b =>
    simp only [renameTag, Option.map_eq_some_iff] at hc
    obtain ⟨b', hb', rfl⟩ := hc
    have hbm : b ∈ out.marks.builtins := by rw [hbi] at hb'; exact rank_mem hb'
    obtain ⟨B, B', hB, hB', _, hpt, hrt⟩ := hs.builtins b b' hb'
    simp only [Prog.tagPresent, hB] at hp
    obtain ⟨n, τ, hn, hτ⟩ := any_eq_get hp
    cases τ with
    | callable p r v =>
      simp only [Bool.and_eq_true, beq_iff_eq] at hτ
      obtain ⟨⟨rfl, rfl⟩, hv⟩ := hτ
      have hio : isIndexOnly P out.marks (Ty.callable B.paramType B.resultType v) = true := by
        simp only [isIndexOnly, Bool.and_eq_true, List.any_eq_true]
        exact ⟨hv, b, hbm, by simp [hB]⟩
      obtain ⟨n', hn'⟩ := typeImg n (hIO n _ hn hio)
      obtain ⟨τ0, τ', hτ0, hτ', hrt'⟩ := hs.types n n' hn'
      rw [hn] at hτ0; cases hτ0
      simp only [renameTy] at hrt'
      split at hrt'
      · rename_i p2 r2 v2 hp2 hr2 hv2
        cases hrt'
        rw [hpt] at hp2; cases hp2
        rw [hrt] at hr2; cases hr2
        -- the receive type stays the empty union
        have hnev : out.prog.isNeverTy v2 = true := by
          simp only [Prog.isNeverTy] at hv
          split at hv
          · rename_i hu
            obtain ⟨υ0, υ', hυ0, hυ', hru⟩ := hs.types v v2 hv2
            rw [hu] at hυ0; cases hυ0
            simp only [renameTy, mapOpt, Option.map_some] at hru
            cases hru
            simp [Prog.isNeverTy, hυ']
          · cases hv
        simp only [Prog.tagPresent, hB']
        exact any_of_get hτ' (by simp [hnev])
      · cases hrt'
    | _ => cases hτ
  | int => cases hcode
  | bin => cases hcode
  | ref => cases hcode
  | tuple t => cases hcode
  | res r => cases hcode


theorem tagPresent_congr {P P' : Prog} (h1 : P'.fns = P.fns) (h2 : P'.types = P.types)
    (h3 : P'.builtins = P.builtins) (h4 : P'.resources = P.resources) (c : Tag) :
    P'.tagPresent c = P.tagPresent c := by
  cases c <;> simp only [Prog.tagPresent, Prog.isNeverTy, h1, h2, h3, h4]

/-- `PresenceKept` restricted to the DATA tags (int, bin, ref, tuples, resources): what remains to be known per
    program (the validator checks it per instance) once the code tags are covered by
    `shake_keeps_code_tag_presence`. -/
def DataPresenceKept (ρ : Ren) (P P' : Prog) : Prop :=
  ∀ c c', isCodeTag c = false →
    renameTag ρ c = some c' → P.tagPresent c = true → P'.tagPresent c' = true

theorem presenceKept_of_data {P P' : Prog} {e : Nat} {out : ShakeOut} (h : treeShake P e = some out)
    (hfns : P'.fns = out.prog.fns) (hbuiltins : P'.builtins = out.prog.builtins) (htypes : P'.types = out.prog.types)
    (hresources : P'.resources = out.prog.resources)
    (hcall : ∀ (f : Nat) (F : Fn), P.fns[f]? = some F → ∃ p r v, P.types[F.typeId]? = some (.callable p r v))
    (hd : DataPresenceKept out.ren P P') : PresenceKept out.ren P P' := by
  intro c c' hc hp
  have code : isCodeTag c = true → P'.tagPresent c' = true := by
    intro hcode
    rw [tagPresent_congr hfns htypes hbuiltins hresources]
    exact shake_keeps_code_tag_presence h hcall hcode hc hp
  cases c with
  | fn f => exact code rfl
  | proc f => exact code rfl
  | builtin b => exact code rfl
  | int => exact hd _ _ rfl hc hp
  | bin => exact hd _ _ rfl hc hp
  | ref => exact hd _ _ rfl hc hp
  | tuple t => exact hd _ _ rfl hc hp
  | res r => exact hd _ _ rfl hc hp

/-! ### The hypotheses of `treeShake_preserves_behaviour_computed`, decided per instance (driver) -/

def progNames (P : Prog) : List String :=
  (P.types.toList.flatMap (fun τ => match τ with
    | .part n fs => n.toList ++ fs.map (·.1)
    | .resource n => [n]
    | .var n => [n]
    | _ => [])) ++
  (P.tuples.toList.flatMap (fun T => T.name.toList ++ T.fields.filterMap (·.1))) ++ P.resources.toList

/-- an interning that is injective on the names of the program (position in its name list) -/
def internIn (names : List String) (s : String) : Nat := names.idxOf s

/-- every tag whose ids are inside the program's tables (the tags `compute_*_compatibility` iterates over) -/
def progTags (P : Prog) : List Tag :=
  [.int, .bin, .ref] ++ (List.range P.tuples.size).map .tuple ++ (List.range P.fns.size).map .fn ++
    (List.range P.builtins.size).map .builtin ++ (List.range P.fns.size).map .proc ++
    (List.range P.resources.size).map .res

/-- `TablesComputed` on every tag in range -/
def tablesComputedB (ι : String → Nat) (fuel : Nat) (P : Prog) : Bool :=
  let inp := toCInput ι P
  let idx := TypeIndex.build inp.table
  let tags := progTags P
  let ok (pat : Nat) (row : Tag → Bool) : Bool :=
    tags.all (fun c => tagAccepts inp idx fuel pat (tagTo c) == some (row c))
  let ops := (P.fns.toList.flatMap (fun F => isTypeOps F.instrs)).eraseDups
  ops.all (fun t => ok t (P.isCompat t)) &&
  (List.range P.fns.size).all (fun f =>
    match P.fns[f]? with
    | some F =>
      match P.types[F.typeId]? with
      | some (.callable p _ _) => ok p (P.msgCompatFn f)
      | _ => true
    | none => true) &&
  (List.range P.builtins.size).all (fun b =>
    match P.builtins[b]? with
    | some B => ok B.paramType (P.msgCompatBuiltin b)
    | none => true)

def presenceKeptB (ρ : Ren) (P P' : Prog) : Bool :=
  (progTags P).all (fun c =>
    match renameTag ρ c with
    | some c' => !P.tagPresent c || P'.tagPresent c'
    | none => true)

def fnTypesCallableB (P : Prog) : Bool :=
  P.fns.toList.all (fun F => match P.types[F.typeId]? with | some (.callable _ _ _) => true | _ => false)

/-- all hypotheses about the pair (original `P` with its tables, shaken `P'` as loaded with its tables) -/
def shakeHypotheses (fuel : Nat) (P P' : Prog) (e : Nat) : String :=
  match treeShake P e with
  | none => "none"
  | some out =>
    let ι := internIn (progNames P)
    let tcA := tablesComputedB ι fuel P
    let tcB := tablesComputedB ι fuel P'
    let nodupT := decide ((toTable ι P).types.Nodup)
    let nodupR := decide (P.resources.toList.Nodup)
    let callable := fnTypesCallableB P
    let resnames := out.prog.resources.toList.all (fun n => P.resources.toList.contains n)
    let presence := presenceKeptB out.ren P P'
    let all := tcA && tcB && nodupT && nodupR && callable && resnames && presence
    let lost := (progTags P).filter (fun c =>
      match renameTag out.ren c with
      | some c' => P.tagPresent c && !P'.tagPresent c'
      | none => false)
    let kind : Tag → String
      | .int => "int" | .bin => "bin" | .ref => "ref" | .tuple t => s!"tuple{t}" | .fn _ => "fn"
      | .builtin _ => "builtin" | .proc _ => "proc" | .res _ => "res"
    let lostS := if lost.isEmpty then "-" else ",".intercalate (lost.map kind).eraseDups
    s!"hyp all={all} lost-entries={lostS} tables-computed-A={tcA} tables-computed-B={tcB} types-nodup={nodupT} resources-nodup={nodupR} fn-types-callable={callable} resource-names={resnames} presence-kept={presence}"


/-! ### `merge_bytecode` through C08 / C09's model of the type relation -/

/-- **The merged tables contain a renamed copy of the incoming program's type and tuple tables** (C09's `Embeds`),
    by `type_remap` / `tuple_remap` made total (`fwdMap`) — for every environment and incoming program. -/
theorem merge_embeds (ι : String → Nat) {env src : Prog} {e : Nat} {out : MergeOut}
    (h : mergeBytecode env src e = some out)
    (hk : (out.ren.type.map (·.1)).Nodup ∧ (out.ren.tuple.map (·.1)).Nodup)
    {rT rU : Nat → Nat} (hs : Stratified src rT rU)
    (hnT : src.types.toList.Nodup) (hnU : src.tuples.toList.Nodup) :
    Embeds (fwdMap out.ren.type out.prog.types.size) (fwdMap out.ren.tuple out.prog.tuples.size)
      (toTable ι src) (toTable ι out.prog) := by
  obtain ⟨TC, UC, ttot, utot⟩ := merge_types_tuples h hk
  obtain ⟨iy, it⟩ := type_tuple_maps_inj hs hnT hnU TC UC
  exact embeds_of_clauses ι iy it TC UC ttot utot

/-- **Merging preserves assignability** between any two types of the incoming program — every environment, program,
    fuel, pair of type ids. -/
theorem merge_keeps_assignability (ι : String → Nat) {env src : Prog} {e : Nat} {out : MergeOut}
    (h : mergeBytecode env src e = some out)
    (hk : (out.ren.type.map (·.1)).Nodup ∧ (out.ren.tuple.map (·.1)).Nodup)
    {rT rU : Nat → Nat} (hs : Stratified src rT rU)
    (hnT : src.types.toList.Nodup) (hnU : src.tuples.toList.Nodup) (fuel a b : Nat) :
    isCompatible (toTable ι out.prog) fuel (fwdMap out.ren.type out.prog.types.size a)
        (fwdMap out.ren.type out.prog.types.size b) =
      isCompatible (toTable ι src) fuel a b :=
  C08.compat_rename (merge_embeds ι h hk hs hnT hnU) fuel a b

theorem merge_keeps_overlap (ι : String → Nat) {env src : Prog} {e : Nat} {out : MergeOut}
    (h : mergeBytecode env src e = some out)
    (hk : (out.ren.type.map (·.1)).Nodup ∧ (out.ren.tuple.map (·.1)).Nodup)
    {rT rU : Nat → Nat} (hs : Stratified src rT rU)
    (hnT : src.types.toList.Nodup) (hnU : src.tuples.toList.Nodup) (fuel a b : Nat) :
    typesOverlap (toTable ι out.prog) fuel (fwdMap out.ren.type out.prog.types.size a)
        (fwdMap out.ren.type out.prog.types.size b) =
      typesOverlap (toTable ι src) fuel a b :=
  C08.overlap_rename (merge_embeds ι h hk hs hnT hnU) fuel a b


theorem merge_builtin_total {env src : Prog} {e : Nat} {out : MergeOut}
    (h : mergeBytecodeWith false env src e = some out) :
    ∀ b, b < src.builtins.size → ∃ b', out.ren.builtin.get b = some b' := by
  unfold mergeBytecodeWith at h
  simp only at h
  split at h
  · cases h
  · rename_i st1 h1
    split at h
    · cases h
    · rename_i st2 h2
      split at h
      · cases h
      · simp only [Option.some.injEq] at h
        subst h
        obtain ⟨_, _, hb3⟩ := mergeBuiltins_spec src st2.tyMap src.builtins.toList 0 st2.prog []
          (fun j B hj => by simpa using hj) (fun _ h => by cases h) (fun _ _ hg => by simp [AMap.get] at hg)
        intro b hb
        exact hb3 b (Nat.zero_le _) (by simpa using hb)

/-- **Merging preserves every run-time type-test verdict of the incoming program**: a pattern of the incoming program
    accepts a tag (that has an index entry there) exactly when the merged pattern accepts the merged tag in the
    environment's program — with b-c09's `C08.rename_invariant_of_embeds`. Hypotheses: those of `merge_isRenaming`
    that concern types (`hk`, `Stratified`, duplicate-free source tables), `SrcWf`, the merged type table duplicate-free
    (`register_type`), `hbt` (an already loaded builtin of the same name has the renamed types) and the source's
    resource names occur among the merged ones. -/
theorem merge_keeps_every_tag_verdict (ι : String → Nat) {env src : Prog} {e : Nat} {out : MergeOut}
    (h : mergeBytecode env src e = some out) (hw : SrcWf src)
    (hk : (out.ren.type.map (·.1)).Nodup ∧ (out.ren.tuple.map (·.1)).Nodup)
    {rT rU : Nat → Nat} (hs : Stratified src rT rU)
    (hnT : src.types.toList.Nodup) (hnU : src.tuples.toList.Nodup)
    (hnd : (toTable ι out.prog).types.Nodup)
    (hbt : ∀ b b' B B', out.ren.builtin.get b = some b' → src.builtins[b]? = some B → out.prog.builtins[b']? = some B' →
      out.ren.type.get B.paramType = some B'.paramType ∧ out.ren.type.get B.resultType = some B'.resultType)
    (hresP : ∀ n ∈ src.resources.toList, n ∈ out.prog.resources.toList)
    (fuel p id : Nat) (c : CTag)
    (hc : tagType (toCInput ι src) (TypeIndex.build (toTable ι src)) c = some id) :
    tagAccepts (toCInput ι out.prog) (TypeIndex.build (toTable ι out.prog)) fuel
        (fwdMap out.ren.type out.prog.types.size p)
        (c.mapIds (fwdMap out.ren.tuple out.prog.tuples.size) (fwdMap out.ren.fn out.prog.fns.size)
          (fwdMap out.ren.builtin out.prog.builtins.size)
          (fun rid => match src.resources[rid]? with
            | some n => nameIdx n out.prog.resources.toList
            | none => 0)) =
      tagAccepts (toCInput ι src) (TypeIndex.build (toTable ι src)) fuel p c := by
  have E := merge_embeds ι h hk hs hnT hnU
  obtain ⟨_, FC, _, BC, ftot⟩ := merge_image_clauses h hw hk
  have btot := merge_builtin_total h
  refine C08.rename_invariant_of_embeds (toCInput ι src) (toCInput ι out.prog) E hnd _ _ _ ?_ ?_ ?_ fuel p id c hc
  · intro fid f hf
    simp only [toCInput, List.getElem?_map, Option.map_eq_some_iff] at hf
    obtain ⟨F, hF, rfl⟩ := hf
    have hF' : src.fns[fid]? = some F := by simpa using hF
    have hlt : fid < src.fns.size := by
      rcases Nat.lt_or_ge fid src.fns.size with h1 | h1
      · exact h1
      · rw [Array.getElem?_eq_none h1] at hF'; cases hF'
    obtain ⟨f', hf'⟩ := ftot fid hlt
    obtain ⟨F0, F1, a1, a2, _, _, a5⟩ := FC fid f' hf'
    rw [hF'] at a1; cases a1
    have a2' : out.prog.fns.toList[f']? = some F1 := by simpa using a2
    refine ⟨⟨F1.typeId, isTypeOps F1.instrs⟩, ?_, ?_⟩
    · simp only [toCInput, List.getElem?_map, fwdMap_of_get hf', a2', Option.map_some]
    · simp only [fwdMap_of_get a5]
  · intro bid b hb
    simp only [toCInput, List.getElem?_map, Option.map_eq_some_iff] at hb
    obtain ⟨B, hB, rfl⟩ := hb
    have hB' : src.builtins[bid]? = some B := by simpa using hB
    have hlt : bid < src.builtins.size := by
      rcases Nat.lt_or_ge bid src.builtins.size with h1 | h1
      · exact h1
      · rw [Array.getElem?_eq_none h1] at hB'; cases hB'
    obtain ⟨b', hb'⟩ := btot bid hlt
    obtain ⟨B0, B1, a1, a2, _⟩ := BC bid b' hb'
    rw [hB'] at a1; cases a1
    obtain ⟨hp, hr⟩ := hbt bid b' B B1 hb' hB' a2
    have a2' : out.prog.builtins.toList[b']? = some B1 := by simpa using a2
    simp only [toCInput, List.getElem?_map, fwdMap_of_get hb', a2', Option.map_some, fwdMap_of_get hp,
      fwdMap_of_get hr]
  · intro rid n hn
    simp only [toCInput, List.getElem?_map, Option.map_eq_some_iff] at hn
    obtain ⟨s, hs', rfl⟩ := hn
    have hs'' : src.resources[rid]? = some s := by simpa using hs'
    have hmem : s ∈ out.prog.resources.toList := hresP s (List.mem_of_getElem? hs')
    simp only [toCInput, List.getElem?_map, hs'', nameIdx_get hmem, Option.map_some]


/-- the hypothesis `hresP` of the table theorems, from a well-formedness condition of the input alone: if the
    program's resource list names all its resource types (what `collect_resource_names` computes), the shaken
    program's resource names occur among the original ones -/
theorem shake_resources_listed {P : Prog} {e : Nat} {out : ShakeOut} (h : treeShake P e = some out)
    (hl : ∀ (t : Nat) (n : String), P.types[t]? = some (.resource n) → n ∈ P.resources.toList) :
    ∀ n ∈ out.prog.resources.toList, n ∈ P.resources.toList := by
  intro n hn
  obtain ⟨_, _, _, _, _, _, _, _, hr⟩ := sweep_fns_builtins (treeShake_sweep h)
  rw [hr] at hn
  have hn' : n ∈ out.marks.resources := by
    have : n ∈ sortStrAsc out.marks.resources := by simpa using hn
    exact (sortStrAsc_perm _).mem_iff.mp this
  obtain ⟨t, _, ht⟩ := reach_res_inv ((treeShake_keeps_only_reachable h).resources n hn')
  exact hl t n ht


end C10
