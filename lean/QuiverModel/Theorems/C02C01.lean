import QuiverModel.Theorems.C02Ref1
import QuiverModel.Theorems.C01Infer
/-
C02 ∘ C01 — **a typed program's compiled code runs to a value of its type** (straight-line fragment).

The composition of
  * C02's compile correctness + bridge (`C02R.compileSq1_runs_to_reference_value`, Theorems/C02Ref1.lean):
    the code `compile1` emits for a straight-line sequence (integer literals, `~`, nested tuples, variable
    reads, `=x` / `x = e`, `=_`, `,` with the nil short-circuit) RUNS on M-VM's `transition` to a value `v`,
    and `v` — tuple ids resolved to names — is the value M-RefSem's `evalSeq` computes, and
  * C01's soundness of the typed fragment of the inference (`C01.infer_seq_sound`, Theorems/C01Infer.lean):
    for a sequence `inferSeq` accepts with type `τ`, whatever `evalSeq` answers inhabits `τ`.

`typed_compiled_run`: if `inferSeq` accepts the (name-resolved) sequence at type `τ` — and elaborates it to
itself, as it does for accessor-free programs — then the compiled code, started in an M-VM state whose
frame's locals are what the typing environment and the reference environment say (`EnvRel`, `EnvOK`), runs
by `Executor::step` units alone to the end of the code and leaves a value whose name-resolved form inhabits
`τ` (`VT c τ`). Nothing is presupposed about the run: definedness comes from `boundSq` (every variable read
resolves to a slot), progress and preservation from the two theorems.
-/
open QM.RefSem.C1 C02.Bridge

namespace C02C01

theorem typed_compiled_run
    -- the machine side (C02)
    (O : QM.VM.Oracle) (P : QM.VM.Prog) (hO : C02L.OracleIntEq O) (hP : wfProg P)
    (nm : Nat → Option String) (hnm : C02R.NmOk nm) (fn : QM.VM.Function) (f : QM.VM.Frame)
    (r : List QM.VM.Frame) (pre : List QM.VM.Val) (hfn : P.functions[f.functionIndex]? = some fn)
    (hsz : fn.instructions.size < 2 ^ 63 - 1) (sq : Sq1) (Γ : List String) (pc : Nat) (flow : QM.VM.Val)
    (rest L : List QM.VM.Val) (env : QM.RefSem.Env)
    (hl : C02S.Located fn.instructions pc (compileSq Γ sq).1) (hw : wfSq P sq) (hok : C02R.okSq nm sq)
    (hb : C02R.boundSq Γ sq) (hal : L.length = Γ.length) (hE : C02R.EnvRel nm Γ L env)
    (hflow : C02S.NilOk nm flow) (p : QM.VM.Proc) (hp : C02L.InvL p f r pre pc (flow :: rest) L)
    -- the typing side (C01)
    (c : QM.Soundness.Ctx) (hr : C01.CurrentRules c) (Γt : QM.Soundness.TEnv) (ft τ : Nat)
    (hinf : QM.Soundness.inferSeq c Γt ft (C02R.toRefSq nm sq) = some (τ, C02R.toRefSq nm sq))
    (hEt : C01.EnvOK c Γt env) (hft : QM.Soundness.VT c ft (erase nm flow)) :
    ∃ q v L', C02S.TRuns O P p q ∧
      C02L.InvL q f r pre (pc + (compileSq Γ sq).1.length) (v :: rest) L' ∧
      QM.Soundness.VT c τ (erase nm v) := by
  obtain ⟨q, v, L', env', N, hrun, hinv, href⟩ :=
    C02R.compileSq1_runs_to_reference_value O P hO hP nm hnm fn f r pre hfn hsz sq Γ pc flow rest L env
      hl hw hok hb hal hE hflow p hp
  have hgood := C01.infer_seq_sound c hr hinf hEt hft N
  rw [href N (Nat.le_refl N)] at hgood
  exact ⟨q, v, L', hrun, hinv, hgood⟩

end C02C01
