import QuiverModel.Lemmas.Soundness.WellTaggedStep
import QuiverModel.Theorems.C12Sigs
/-
C01, VM side — `wellTagged_preserved`: the runtime invariant "every tuple value is what its tag
claims" (`QM.Soundness.WT`: arity of the tuple id, every field inside the declared field type in the
sense of C09's `inh`) is preserved by every instruction of C07's M-VM, given the instruction's
*obligation*; the obligation is `True` for 21 of the 24 instructions.

This isolates, as explicit hypotheses, what has to be discharged from outside the VM:
  * `Tuple(id)` — THE COMPILER: the values packed are typed like the fields of the tuple id it chose
    (`FieldsTyped`); every tuple-literal / spread / ripple site of the compiler emits one;
  * `Call` of a builtin — THE BUILTINS: the result is well tagged (C12's
    `result_inhabits_declared_spec` for the pure families; effects by their registered signature);
  * `Select`, `spawned`, `effectDone`, `deliver` — THE REST OF THE SYSTEM: an awaited result, a
    message, a spawn answer is a well-tagged value of another process (the same invariant there).
`Call`, `TailCall`, `Send`, `Spawn` carry NO obligation for well-taggedness: they move values and
re-tag nothing. The compiler's guards at those points (`is_compatible` / `unify`, sections 3–5 of
Theorems/C01.lean; missing at `TailCall`, F5) are about a different thing — that the moved value
lies in the DECLARED type of the slot it arrives in. That per-slot typing is established by the
compiler's inference, which is not modelled; what this file contributes is that the *meaning* of
such a typing — `inh T [] t (erase v)` for a well-tagged `v` — is stable: the VM never changes a
value, it only builds new tuples at `Tuple(id)`.
-/
namespace C01
open QM.Types QM.VM QM.Soundness

/-- **wellTagged_preserved** (one instruction). -/
theorem wellTagged_preserved {T : Table} {D : Decls} (hT : TableInit T) (O : Oracle) (P : Prog)
    (p p' : Proc) (a : Option Action) (i : Instr)
    (h : stepInstr O P p i = .ok (p', a)) (hp : ProcWT T D p) (hob : Obligation T D O P p i) :
    ProcWT T D p' ∧ ActionWT T D a :=
  stepInstr_preserves_wt hT O P p p' a i h hp hob

/-- the obligation is trivial except at `Tuple(id)`, `Call` and `Select`. -/
theorem obligation_trivial {T : Table} {D : Decls} (O : Oracle) (P : Prog) (p : Proc) (i : Instr)
    (h1 : ∀ id, i ≠ .tuple id) (h2 : i ≠ .call) (h3 : i ≠ .select) : Obligation T D O P p i := by
  cases i <;> first | trivial | (exfalso; first | exact h1 _ rfl | exact h2 rfl | exact h3 rfl)

/-- in particular the four typed entry points other than builtin calls carry no obligation. -/
theorem entry_points_move_values {T : Table} {D : Decls} (O : Oracle) (P : Prog) (p : Proc) (r : Bool) :
    Obligation T D O P p (.tailCall r) ∧ Obligation T D O P p .send ∧ Obligation T D O P p .spawn :=
  ⟨trivial, trivial, trivial⟩

/-- at `Call` the obligation concerns builtins only: calling a closure needs nothing. -/
theorem call_of_closure_needs_nothing {T : Table} {D : Decls} (O : Oracle) (P : Prog) (p : Proc)
    (fi : Nat) (caps : ValList) (rest : List Val) (h : p.stack = .fn fi caps :: rest) :
    Obligation T D O P p .call := by
  intro id param rest' v hstk
  rw [h] at hstk
  cases hstk

/-- the frame auto-pop and the "finished" bookkeeping keep the invariant. -/
theorem popFrame_preserves {T : Table} {D : Decls} (p : Proc) (hp : ProcWT T D p) : ProcWT T D (popFrame p) := by
  unfold popFrame
  split
  · exact hp
  · refine hp.update (by simpa using hp.stack) ?_ rfl rfl rfl
    simp only
    split
    · exact hp.locals.take _
    · exact hp.locals

theorem finish_preserves {T : Table} {D : Decls} (p : Proc) (hp : ProcWT T D p) : ProcWT T D (finish p) := by
  unfold finish
  split
  · exact hp
  · split
    · exact ⟨hp.stack, hp.locals, hp.mailbox, hp.sources, hp.receiving, fun v hv => by simp at hv⟩
    · rename_i v s hs
      have hst : ListWT T D (v :: s) := hs ▸ hp.stack
      refine ⟨hst.tail, hp.locals, hp.mailbox, hp.sources, hp.receiving, ?_⟩
      intro w hw
      simp only [Option.some.injEq, Except.ok.injEq] at hw
      exact hw ▸ hst.head

/-- the events by which the rest of the system hands a value to a process keep the invariant when
that value is well tagged. -/
theorem deliver_preserves {T : Table} {D : Decls} (P : Prog) (p p' : Proc) (a : Option Action) (m : Val)
    (h : transition P p (.deliver m) = some (.ok (p', a))) (hp : ProcWT T D p) (hm : WT T D m) :
    ProcWT T D p' := by
  simp only [transition, Option.some.injEq] at h
  obtain ⟨rfl, _⟩ := ok_inj h
  exact ⟨hp.stack, hp.locals, hp.mailbox.append (ListWT.cons hm ListWT.nil), hp.sources, hp.receiving, hp.result⟩

/-! ### The hypotheses are satisfiable (and the obligation at `Tuple(id)` is not vacuous)

table: tuple 0 nil, 1 Ok, 2 `P['int, 'bin]`; types 0 'int, 1 'bin. Packing `[7, <bin>]` into `P`
is allowed; packing `[<bin>, 7]` violates the obligation. -/
def tWT : Table :=
  { types := [.integer, .binary],
    tuples := [⟨none, []⟩, ⟨some 1, []⟩, ⟨some 5, [(none, 0), (none, 1)]⟩] }

def dWT : Decls := ⟨fun _ => 0, fun _ => 0, fun _ => 0⟩

example : TableInit tWT := ⟨⟨none, rfl⟩, ⟨some 1, rfl⟩⟩

example : WT tWT dWT (.tup 2 (.cons (.int 7) (.cons (.bin (.const 0)) .nil))) := by
  refine ⟨_, rfl, ?_⟩
  simp only [FieldsWT, WT, true_and, and_true]
  exact ⟨⟨2, by decide⟩, ⟨2, by decide⟩⟩

example : FieldsTyped tWT dWT [(none, 0), (none, 1)] [.int 7, .bin (.const 0)] := by
  simp only [FieldsTyped, and_true]
  exact ⟨⟨2, by decide⟩, ⟨2, by decide⟩⟩

/-- a binary is not an integer, for any fuel: the swapped packing is NOT permitted. -/
example : ¬ FieldsTyped tWT dWT [(none, 0), (none, 1)] [.bin (.const 0), .int 7] := by
  simp only [FieldsTyped, and_true, not_and]
  rintro ⟨fuel, hf⟩
  cases fuel <;> simp [inhB, erase, tWT] at hf

/-! ### `builtin_result_typed` — the obligation at `Call` of a pure builtin

Tied to the signature table REGENERATED from the live registry (`Generated/BuiltinSigs.lean`, written
by `gen_builtins` before every build — `pregen` in props/C01.json): for every pure builtin of the
registry that the builtins model (C12) covers, for every argument, a successful result is an
integer, a binary or nil — hence a well-tagged VM value — and inhabits the result `TypeSpec` the
registry declares (C12's `result_inhabits_declared_spec`). If a signature changes in the code this
no longer checks. -/

/-- the VM value of a builtin result (binary handles are irrelevant to tagging). -/
def resultVal : QM.Builtins.BArg → Val
  | .int z => .int z
  | .bin _ => .bin (.heap 0)
  | .tup [] => Val.nil
  | .tup (_ :: _) => Val.nil

theorem builtin_result_typed {T : Table} {D : Decls} (hT : TableInit T)
    (e : String × QM.Builtins.TSpec × QM.Builtins.TSpec × Bool)
    (he : e ∈ QM.Generated.builtinSigs) (hp : e.2.2.2 = true)
    (hm : (QM.Builtins.modelSig e.1).isSome = true) (arg v : QM.Builtins.BArg)
    (h : QM.Builtins.callBuiltin e.1 arg = some (.ok v)) :
    WT T D (resultVal v) ∧ QM.Builtins.inh e.2.2.1 v = true ∧
      ((∃ z, v = .int z) ∨ (∃ r, v = .bin r) ∨ v = .tup []) := by
  refine ⟨?_, C12.result_inhabits_declared_spec e he hp hm arg v h, ?_⟩
  · cases v with
    | int z => simp [resultVal, WT]
    | bin r => simp [resultVal, WT]
    | tup fs => cases fs <;> exact wt_nil hT
  · cases hs : QM.Builtins.modelSig e.1 with
    | none => rw [hs] at hm; cases hm
    | some pk =>
      obtain ⟨pp, k⟩ := pk
      have hk := QM.Builtins.callBuiltin_result_kind e.1 arg v pp k hs h
      cases k <;> cases v with
      | int z => first | exact Or.inl ⟨z, rfl⟩ | exact hk.elim
      | bin r => first | exact Or.inr (Or.inl ⟨r, rfl⟩) | exact hk.elim
      | tup fs =>
        cases fs with
        | nil => first | exact Or.inr (Or.inr rfl) | exact hk.elim
        | cons _ _ => exact hk.elim

/-- hence the `Call` obligation holds for an oracle that answers pure builtins as the model does. -/
theorem call_obligation_of_model {T : Table} {D : Decls} (hT : TableInit T) (O : Oracle) (P : Prog) (p : Proc)
    (hO : ∀ id param v, O.builtin id param = .value v →
      ∃ e ∈ QM.Generated.builtinSigs, e.2.2.2 = true ∧ (QM.Builtins.modelSig e.1).isSome = true ∧
        ∃ arg r, QM.Builtins.callBuiltin e.1 arg = some (.ok r) ∧ v = resultVal r) :
    Obligation T D O P p .call := by
  intro id param rest v _ hv
  obtain ⟨e, he, hp, hm, arg, r, hc, rfl⟩ := hO id param v hv
  exact (builtin_result_typed hT e he hp hm arg r hc).1

end C01
