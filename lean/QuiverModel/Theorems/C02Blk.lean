import QuiverModel.Theorems.C02Loc
import QuiverModel.Core.RefSem.Compile2
/-
C02, stretch goal, part 4 — **blocks with branches and `=>` are compiled correctly**, on C07's M-VM.

The fragment of C02Loc (value flow, locals, bindings, simple match patterns — its machine `ARunsL`, its
instruction lemmas and `compilePat_aruns` are reused) extended with `{ | cond => cons | cond | … }`
(Core/RefSem/Compile2.lean, compile_scoped_expression).

* `nbT … nbSq`, `compileT_len …` — the compile-time local count after a term is the count before plus
  the number of its binders (a block adds none);
* `evalT_ext … evalSq_ext` — run-time counterpart: a term EXTENDS the frame's locals by exactly that
  many values (alignment), a sequence by AT MOST that many — exactly that many if its value is not nil
  (a short-circuit skips the later steps' Stores): the statement behind the Reset discipline;
* `compileBrs_aruns` — the branches: every path — a bodiless branch that commits, a consequence, a failed
  condition falling / jumping to the next branch directly or through its cleanup block
  (`Reset(n+1), Jump(back)`) — reaches the parameter clear with the block's value on the stack and the
  locals `L ++ [parameter]`: per-branch `Reset(n+1)` is there whenever something may have been stored,
  and where it is absent nothing was;
* `compileT_aruns` (block case) — `Store`, the branches, `Reset(n)`: the locals afterwards are the locals
  before; the jump over the cleanup blocks;
* `compileSq2_correct` — lifted to `transition`.
-/
open QM.VM QM.RefSem.C2
open QM.RefSem.C1 (Sub Pat1 slot compilePat patBinds evalPat wfPat wfProg)
open C02L

namespace C02B

/-! ### Static and dynamic local counts -/

mutual
  /-- number of binders a term adds to the enclosing scope -/
  def nbT : T2 → Nat
    | .int _ _ => 0
    | .ripple => 0
    | .tup _ fs => nbFs fs
    | .var _ => 0
    | .mtch p => (patBinds p).length
    | .block _ => 0
  def nbCh : Ch2 → Nat
    | .nil => 0
    | .cons t r => nbT t + nbCh r
  def nbFs : Fs2 → Nat
    | .nil => 0
    | .cons c r => nbCh c + nbFs r
  def nbSq : Sq2 → Nat
    | .last c => nbCh c
    | .cons c r => nbCh c + nbSq r
end

mutual
  theorem compileT_len : (t : T2) → (Γ : List String) → (compileT Γ t).2.length = Γ.length + nbT t
    | .int _ _, Γ => by simp [compileT, nbT]
    | .ripple, Γ => by simp [compileT, nbT]
    | .tup _ fs, Γ => by simp [compileT, nbT, compileFs_len fs Γ 0]
    | .var _, Γ => by simp [compileT, nbT]
    | .mtch p, Γ => by simp [compileT, nbT]
    | .block _, Γ => by simp [compileT, nbT]
  theorem compileCh_len : (c : Ch2) → (Γ : List String) → (compileCh Γ c).2.length = Γ.length + nbCh c
    | .nil, Γ => by simp [compileCh, nbCh]
    | .cons t r, Γ => by
      simp only [compileCh, nbCh]
      rw [compileCh_len r, compileT_len t]
      omega
  theorem compileFs_len : (fs : Fs2) → (Γ : List String) → (k : Nat) →
      (compileFs Γ fs k).2.length = Γ.length + nbFs fs
    | .nil, Γ, k => by simp [compileFs, nbFs]
    | .cons c r, Γ, k => by
      simp only [compileFs, nbFs]
      rw [compileFs_len r, compileCh_len c]
      omega
  theorem compileSq_len : (sq : Sq2) → (Γ : List String) → (compileSq Γ sq).2.length = Γ.length + nbSq sq
    | .last c, Γ => by simp [compileSq, nbSq, compileCh_len c Γ]
    | .cons c r, Γ => by
      simp only [compileSq, nbSq]
      rw [compileSq_len r, compileCh_len c]
      omega
end

theorem evalPat_length (flow : Val) (p : Pat1) (v : Val) (bound : List Val)
    (h : evalPat flow p = some (v, bound)) : bound.length = (patBinds p).length := by
  cases p with
  | top sb =>
    simp only [evalPat] at h
    split at h
    · simp only [Option.some.injEq, Prod.mk.injEq] at h
      obtain ⟨_, rfl⟩ := h
      cases sb <;> simp [QM.RefSem.C1.subBound, patBinds, QM.RefSem.C1.subBinds]
    · simp only [Option.some.injEq, Prod.mk.injEq] at h
      obtain ⟨_, rfl⟩ := h
      simp [patBinds]
  | tup subs =>
    simp only [evalPat] at h
    split at h
    · simp only [Option.map_eq_some_iff, Prod.mk.injEq] at h
      obtain ⟨vs, hvs, _, rfl⟩ := h
      simpa [patBinds, QM.RefSem.C1.subsBinds] using bindVals_length _ _ _ hvs
    · simp only [Option.some.injEq, Prod.mk.injEq] at h
      obtain ⟨_, rfl⟩ := h
      simp [patBinds]
    · simp at h

mutual
  /-- a term extends the frame's locals by exactly its binders' values -/
  theorem evalT_ext : (t : T2) → (Γ : List String) → (L : List Val) → (flow v : Val) → (L' : List Val) →
      evalT Γ L flow t = some (v, L') → ∃ ext, L' = L ++ ext ∧ ext.length = nbT t
    | .int _ _, Γ, L, flow, v, L', h => by
      simp only [evalT, Option.some.injEq, Prod.mk.injEq] at h
      exact ⟨[], by simp [h.2], rfl⟩
    | .ripple, Γ, L, flow, v, L', h => by
      simp only [evalT, Option.some.injEq, Prod.mk.injEq] at h
      exact ⟨[], by simp [h.2], rfl⟩
    | .tup _ fs, Γ, L, flow, v, L', h => by
      simp only [evalT, Option.map_eq_some_iff] at h
      obtain ⟨⟨vs, L''⟩, hfs, hv⟩ := h
      simp only [Prod.mk.injEq] at hv
      obtain ⟨_, rfl⟩ := hv
      simpa [nbT] using evalFs_ext fs Γ L flow vs L'' hfs
    | .var _, Γ, L, flow, v, L', h => by
      simp only [evalT, Option.bind_eq_some_iff, Option.map_eq_some_iff] at h
      obtain ⟨i, _, w, _, hv⟩ := h
      simp only [Prod.mk.injEq] at hv
      exact ⟨[], by simp [hv.2], rfl⟩
    | .mtch p, Γ, L, flow, v, L', h => by
      simp only [evalT, Option.map_eq_some_iff] at h
      obtain ⟨⟨w, bound⟩, hp, hv⟩ := h
      simp only [Prod.mk.injEq] at hv
      obtain ⟨_, rfl⟩ := hv
      exact ⟨bound, rfl, by simpa [nbT] using evalPat_length flow p w bound hp⟩
    | .block _, Γ, L, flow, v, L', h => by
      simp only [evalT, Option.map_eq_some_iff] at h
      obtain ⟨w, _, hv⟩ := h
      simp only [Prod.mk.injEq] at hv
      exact ⟨[], by simp [hv.2], rfl⟩
  theorem evalCh_ext : (c : Ch2) → (Γ : List String) → (L : List Val) → (flow v : Val) → (L' : List Val) →
      evalCh Γ L flow c = some (v, L') → ∃ ext, L' = L ++ ext ∧ ext.length = nbCh c
    | .nil, Γ, L, flow, v, L', h => by
      simp only [evalCh, Option.some.injEq, Prod.mk.injEq] at h
      exact ⟨[], by simp [h.2], rfl⟩
    | .cons t r, Γ, L, flow, v, L', h => by
      simp only [evalCh, Option.bind_eq_some_iff] at h
      obtain ⟨⟨v₁, L₁⟩, ht, hr⟩ := h
      obtain ⟨e₁, rfl, l₁⟩ := evalT_ext t Γ L flow v₁ L₁ ht
      obtain ⟨e₂, rfl, l₂⟩ := evalCh_ext r _ _ _ v L' hr
      exact ⟨e₁ ++ e₂, by simp, by simp [nbCh, l₁, l₂]⟩
  theorem evalFs_ext : (fs : Fs2) → (Γ : List String) → (L : List Val) → (flow : Val) → (vs L' : List Val) →
      evalFs Γ L flow fs = some (vs, L') → ∃ ext, L' = L ++ ext ∧ ext.length = nbFs fs
    | .nil, Γ, L, flow, vs, L', h => by
      simp only [evalFs, Option.some.injEq, Prod.mk.injEq] at h
      exact ⟨[], by simp [h.2], rfl⟩
    | .cons c r, Γ, L, flow, vs, L', h => by
      simp only [evalFs, Option.bind_eq_some_iff, Option.map_eq_some_iff] at h
      obtain ⟨⟨v₁, L₁⟩, hc, ⟨vs₂, L₂⟩, hr, hv⟩ := h
      simp only [Prod.mk.injEq] at hv
      obtain ⟨_, rfl⟩ := hv
      obtain ⟨e₁, rfl, l₁⟩ := evalCh_ext c Γ L flow v₁ L₁ hc
      obtain ⟨e₂, rfl, l₂⟩ := evalFs_ext r _ _ _ vs₂ L₂ hr
      exact ⟨e₁ ++ e₂, by simp, by simp [nbFs, l₁, l₂]⟩
  /-- a sequence extends them by at most its binders' count — exactly that if it did not short-circuit -/
  theorem evalSq_ext : (sq : Sq2) → (Γ : List String) → (L : List Val) → (flow v : Val) → (L' : List Val) →
      evalSq Γ L flow sq = some (v, L') →
      ∃ ext, L' = L ++ ext ∧ ext.length ≤ nbSq sq ∧ (v.isNil = false → ext.length = nbSq sq)
    | .last c, Γ, L, flow, v, L', h => by
      simp only [evalSq] at h
      obtain ⟨e, rfl, l⟩ := evalCh_ext c Γ L flow v L' h
      exact ⟨e, rfl, by simp [nbSq, l], fun _ => by simp [nbSq, l]⟩
    | .cons c r, Γ, L, flow, v, L', h => by
      simp only [evalSq, Option.bind_eq_some_iff] at h
      obtain ⟨⟨v₁, L₁⟩, hc, hr⟩ := h
      obtain ⟨e₁, rfl, l₁⟩ := evalCh_ext c Γ L flow v₁ L₁ hc
      by_cases hv : v₁.isNil = true
      · simp only [hv, if_true, Option.some.injEq, Prod.mk.injEq] at hr
        obtain ⟨rfl, rfl⟩ := hr
        exact ⟨e₁, rfl, by simp [nbSq, l₁], fun h => by rw [hv] at h; cases h⟩
      · have hv' : v₁.isNil = false := by simpa using hv
        simp only [hv', Bool.false_eq_true, if_false] at hr
        obtain ⟨e₂, rfl, l₂, l₃⟩ := evalSq_ext r _ _ _ v L' hr
        exact ⟨e₁ ++ e₂, by simp, by simp [nbSq, l₁]; omega, fun h => by simp [nbSq, l₁, l₃ h]⟩
end

/-! ### Small facts -/

theorem isNil_eq (v : Val) (h : v.isNil = true) : v = Val.nil := by
  cases v with
  | tup id els =>
    cases id with
    | zero => cases els with
      | nil => rfl
      | cons a b => simp [Val.isNil] at h
    | succ k => simp [Val.isNil] at h
  | int z => simp [Val.isNil] at h
  | bin b => simp [Val.isNil] at h
  | ref r => simp [Val.isNil] at h
  | fn i c => simp [Val.isNil] at h
  | builtin i => simp [Val.isNil] at h
  | proc a b => simp [Val.isNil] at h
  | res a b => simp [Val.isNil] at h

theorem compileBrs_isNil (Γp : List String) (n k : Nat) (first : Bool) (bs : Brs2) (h : bs.isNil = true) :
    compileBrs Γp n bs k first = ([], []) := by
  cases bs with
  | nil => simp [compileBrs]
  | cons a b c => simp [Brs2.isNil] at h

section Machine
variable {O : Oracle} {P : Prog} {code : Array Instr}

/-- `Reset(n+1)` where the branch has compile-time bindings; where it has none, nothing was stored -/
theorem resetIf_aruns (len n pc : Nat) (s Lp ext : List Val) (hl : C02S.Located code pc (resetIf len n))
    (hLp : Lp.length = n + 1) (hext : ¬ (len > n + 1) → ext = []) :
    ARunsL O P code (pc, s, Lp ++ ext) (pc + (resetIf len n).length, s, Lp) := by
  unfold resetIf at hl ⊢
  by_cases h : len > n + 1
  · simp only [h, if_true] at hl ⊢
    have := l_reset (O := O) (P := P) (s := s) (L := Lp ++ ext) (n := n + 1) hl.head (by simp; omega)
    simpa [← hLp] using this
  · simp only [h, if_false] at hl ⊢
    rw [hext h]
    simpa using ARunsL.refl _

/-- a later branch starts by popping the failed condition's nil -/
theorem pre_aruns (first : Bool) (junk : Val) (rest L : List Val) (pos : Nat) (X : List Instr)
    (hl : C02S.Located code pos ((if first then [] else [Instr.pop]) ++ X)) :
    ∃ p1, ARunsL O P code (pos, (if first then rest else junk :: rest), L) (p1, rest, L) ∧
      C02S.Located code p1 X ∧ p1 = pos + (if first then [] else [Instr.pop]).length := by
  cases first with
  | true => exact ⟨pos, by simpa using ARunsL.refl _, by simpa using hl, by simp⟩
  | false =>
    simp only [Bool.false_eq_true, if_false] at hl ⊢
    have hl' : C02S.Located code pos (.pop :: X) := by simpa using hl
    exact ⟨pos + 1, l_pop hl'.head, Located.tail hl', by simp⟩

theorem Located.le_size {pc : Nat} {is : List Instr} (h : C02S.Located code pc is) :
    is ≠ [] → pc + is.length ≤ code.size := by
  intro hne
  have hpos : 0 < is.length := List.length_pos_iff.mpr hne
  have := Located.bound h (is.length - 1) (by omega)
  omega

mutual
  theorem compileT_aruns (hO : OracleIntEq O) (hP : wfProg P) (hsz : code.size < 2 ^ 63 - 1) :
      (t : T2) → (Γ : List String) → (pc : Nat) → (flow : Val) → (rest L : List Val) → (v : Val) →
      (L' : List Val) → C02S.Located code pc (compileT Γ t).1 → wfT P t → L.length = Γ.length →
      evalT Γ L flow t = some (v, L') →
      ARunsL O P code (pc, flow :: rest, L) (pc + (compileT Γ t).1.length, v :: rest, L')
    | .int z i, Γ, pc, flow, rest, L, v, L', hl, hw, _, hev => by
      simp only [evalT, Option.some.injEq, Prod.mk.injEq] at hev
      obtain ⟨rfl, rfl⟩ := hev
      simp only [compileT] at hl ⊢
      exact (l_pop hl.head).trans (l_const (Located.tail hl).head hw)
    | .ripple, Γ, pc, flow, rest, L, v, L', _, _, _, hev => by
      simp only [evalT, Option.some.injEq, Prod.mk.injEq] at hev
      obtain ⟨rfl, rfl⟩ := hev
      simp only [compileT, List.length_nil, Nat.add_zero]
      exact .refl _
    | .tup id fs, Γ, pc, flow, rest, L, v, L', hl, hw, hal, hev => by
      simp only [evalT, Option.map_eq_some_iff] at hev
      obtain ⟨⟨vs, L''⟩, hfs, hv⟩ := hev
      simp only [Prod.mk.injEq] at hv
      obtain ⟨rfl, rfl⟩ := hv
      simp only [compileT] at hl ⊢
      obtain ⟨hrun, hlen⟩ := compileFs_aruns hO hP hsz fs Γ pc flow rest L [] vs L'' hl.left hw.2 hal hfs
      simp only [List.length_nil, List.reverse_nil, List.nil_append] at hrun
      refine hrun.trans ?_
      have hr := hl.right
      have h0 := hr.head
      have h1 := (Located.tail hr).head
      have h2 := (Located.tail (Located.tail hr)).head
      have hid : P.tuples[id]? = some vs.length := by rw [hlen]; exact hw.1
      have e : pc + ((compileFs Γ fs 0).1 ++ [Instr.tuple id, Instr.rotate 2, Instr.pop]).length =
          pc + (compileFs Γ fs 0).1.length + 1 + 1 + 1 := by simp; omega
      rw [e]
      exact ((l_tuple h0 hid).trans (l_rot2 h1)).trans (l_pop h2)
    | .var x, Γ, pc, flow, rest, L, v, L', hl, _, _, hev => by
      simp only [evalT, Option.bind_eq_some_iff, Option.map_eq_some_iff] at hev
      obtain ⟨i, hi, w, hw', hv⟩ := hev
      simp only [Prod.mk.injEq] at hv
      obtain ⟨rfl, rfl⟩ := hv
      simp only [compileT, hi, Option.getD_some] at hl ⊢
      exact (l_pop hl.head).trans (l_load (Located.tail hl).head hw')
    | .mtch p, Γ, pc, flow, rest, L, v, L', hl, hw, _, hev => by
      simp only [evalT, Option.map_eq_some_iff] at hev
      obtain ⟨⟨w, bound⟩, hp, hv⟩ := hev
      simp only [Prod.mk.injEq] at hv
      obtain ⟨rfl, rfl⟩ := hv
      simp only [compileT] at hl ⊢
      exact (compilePat_aruns hO hP hsz p pc flow rest L w bound hl hw hp).1
    | .block bs, Γ, pc, flow, rest, L, v, L', hl, hw, hal, hev => by
      simp only [evalT, Option.map_eq_some_iff] at hev
      obtain ⟨w, hbs, hv⟩ := hev
      simp only [Prod.mk.injEq] at hv
      obtain ⟨rfl, rfl⟩ := hv
      simp only [compileT] at hl ⊢
      -- the pieces of the block's code
      have hl1 : C02S.Located code pc (.store :: ((compileBrs (Γ ++ [""]) Γ.length bs 0 true).1 ++
          ([.reset Γ.length] ++ ((if (compileBrs (Γ ++ [""]) Γ.length bs 0 true).2 = [] then []
            else [.jump (((compileBrs (Γ ++ [""]) Γ.length bs 0 true).2.length : Nat) : Int)]) ++
            (compileBrs (Γ ++ [""]) Γ.length bs 0 true).2)))) := by simpa using hl
      have hst := hl1.head
      have hmain := (Located.tail hl1).left
      have hafter := (Located.tail hl1).right
      have hreset : code[pc + 1 + (compileBrs (Γ ++ [""]) Γ.length bs 0 true).1.length]? = some (.reset Γ.length) :=
        hafter.head
      have hrest := Located.tail hafter
      have hPC : pc + 1 + (compileBrs (Γ ++ [""]) Γ.length bs 0 true).1.length < code.size := by
        have := Located.bound hafter 0 (by simp)
        simpa using this
      have s1 := l_store (O := O) (P := P) (v := flow) (s := rest) (L := L) hst
      -- the cleanup blocks sit two instructions after the parameter clear, if there are any
      have hcl : C02S.Located code (pc + 1 + (compileBrs (Γ ++ [""]) Γ.length bs 0 true).1.length + 2 + 2 * 0)
          (compileBrs (Γ ++ [""]) Γ.length bs 0 true).2 := by
        by_cases hc : (compileBrs (Γ ++ [""]) Γ.length bs 0 true).2 = []
        · rw [hc]; intro k hk; simp at hk
        · simp only [hc, if_false] at hrest
          have hrest' : C02S.Located code (pc + 1 + (compileBrs (Γ ++ [""]) Γ.length bs 0 true).1.length + 1)
              (.jump (((compileBrs (Γ ++ [""]) Γ.length bs 0 true).2.length : Nat) : Int) ::
                (compileBrs (Γ ++ [""]) Γ.length bs 0 true).2) := by simpa using hrest
          have := Located.tail hrest'
          simpa [Nat.add_assoc] using this
      have main := compileBrs_aruns hO hP hsz bs (Γ ++ [""]) Γ.length 0 true (pc + 1)
        (pc + 1 + (compileBrs (Γ ++ [""]) Γ.length bs 0 true).1.length) flow flow rest L w hmain rfl hcl hPC hw.2
        (by simp) hal (fun _ => hw.1) (fun h => by cases h) hbs
      simp only [if_true] at main
      have r1 := l_reset (O := O) (P := P) (s := w :: rest) (L := L ++ [flow]) (n := Γ.length) hreset
        (by simp; omega)
      have htake : (L ++ [flow]).take Γ.length = L := by rw [← hal]; simp
      rw [htake] at r1
      refine (s1.trans main).trans (r1.trans ?_)
      by_cases hc : (compileBrs (Γ ++ [""]) Γ.length bs 0 true).2 = []
      · simp only [hc, if_true, List.append_nil]
        have e : pc + ([Instr.store] ++ ((compileBrs (Γ ++ [""]) Γ.length bs 0 true).1 ++ [Instr.reset Γ.length])).length =
            pc + 1 + (compileBrs (Γ ++ [""]) Γ.length bs 0 true).1.length + 1 := by simp; omega
        rw [e]
        exact .refl _
      · simp only [hc, if_false] at hrest ⊢
        have hj := hrest.head
        have hb := Located.le_size (code := code) hrest (by simp)
        have e : pc + ([Instr.store] ++ ((compileBrs (Γ ++ [""]) Γ.length bs 0 true).1 ++ ([Instr.reset Γ.length] ++
            ([Instr.jump (((compileBrs (Γ ++ [""]) Γ.length bs 0 true).2.length : Nat) : Int)] ++
              (compileBrs (Γ ++ [""]) Γ.length bs 0 true).2)))).length =
            pc + 1 + (compileBrs (Γ ++ [""]) Γ.length bs 0 true).1.length + 1 + 1 +
              (compileBrs (Γ ++ [""]) Γ.length bs 0 true).2.length := by simp; omega
        rw [e]
        simp at hb
        exact l_jump hj (by omega) (by rw [e63]; omega)
  theorem compileCh_aruns (hO : OracleIntEq O) (hP : wfProg P) (hsz : code.size < 2 ^ 63 - 1) :
      (c : Ch2) → (Γ : List String) → (pc : Nat) → (flow : Val) → (rest L : List Val) → (v : Val) →
      (L' : List Val) → C02S.Located code pc (compileCh Γ c).1 → wfCh P c → L.length = Γ.length →
      evalCh Γ L flow c = some (v, L') →
      ARunsL O P code (pc, flow :: rest, L) (pc + (compileCh Γ c).1.length, v :: rest, L')
    | .nil, Γ, pc, flow, rest, L, v, L', _, _, _, hev => by
      simp only [evalCh, Option.some.injEq, Prod.mk.injEq] at hev
      obtain ⟨rfl, rfl⟩ := hev
      simp only [compileCh, List.length_nil, Nat.add_zero]
      exact .refl _
    | .cons t r, Γ, pc, flow, rest, L, v, L', hl, hw, hal, hev => by
      simp only [evalCh, Option.bind_eq_some_iff] at hev
      obtain ⟨⟨v₁, L₁⟩, ht, hr⟩ := hev
      simp only [compileCh] at hl ⊢
      have run₁ := compileT_aruns hO hP hsz t Γ pc flow rest L v₁ L₁ hl.left hw.1 hal ht
      obtain ⟨e₁, rfl, l₁⟩ := evalT_ext t Γ L flow v₁ L₁ ht
      have al₁ : (L ++ e₁).length = (compileT Γ t).2.length := by rw [compileT_len]; simp [hal, l₁]
      have run₂ := compileCh_aruns hO hP hsz r (compileT Γ t).2 (pc + (compileT Γ t).1.length) v₁ rest
        (L ++ e₁) v L' hl.right hw.2 al₁ hr
      refine run₁.trans ?_
      simpa [Nat.add_assoc] using run₂
  theorem compileFs_aruns (hO : OracleIntEq O) (hP : wfProg P) (hsz : code.size < 2 ^ 63 - 1) :
      (fs : Fs2) → (Γ : List String) → (pc : Nat) → (flow : Val) → (rest L acc vs : List Val) →
      (L' : List Val) → C02S.Located code pc (compileFs Γ fs acc.length).1 → wfFs P fs →
      L.length = Γ.length → evalFs Γ L flow fs = some (vs, L') →
      ARunsL O P code (pc, acc.reverse ++ flow :: rest, L)
          (pc + (compileFs Γ fs acc.length).1.length, (acc ++ vs).reverse ++ flow :: rest, L') ∧
        vs.length = fs.length
    | .nil, Γ, pc, flow, rest, L, acc, vs, L', _, _, _, hev => by
      simp only [evalFs, Option.some.injEq, Prod.mk.injEq] at hev
      obtain ⟨rfl, rfl⟩ := hev
      simp only [compileFs, List.append_nil, List.length_nil, Nat.add_zero]
      exact ⟨.refl _, rfl⟩
    | .cons c r, Γ, pc, flow, rest, L, acc, vs, L', hl, hw, hal, hev => by
      simp only [evalFs, Option.bind_eq_some_iff, Option.map_eq_some_iff] at hev
      obtain ⟨⟨v₁, L₁⟩, hc, ⟨vs₂, L₂⟩, hr, hv⟩ := hev
      simp only [Prod.mk.injEq] at hv
      obtain ⟨rfl, rfl⟩ := hv
      simp only [compileFs] at hl ⊢
      rw [List.append_assoc] at hl
      have h0 : code[pc]? = some (.pick acc.length) := hl.head
      have hpick : (acc.reverse ++ flow :: rest)[acc.length]? = some flow :=
        C02S.getElem?_append_reverse' acc flow rest
      have hl2 : C02S.Located code (pc + 1) ((compileCh Γ c).1 ++ (compileFs (compileCh Γ c).2 r (acc.length + 1)).1) := by
        have := hl.right
        simpa using this
      have run₁ := compileCh_aruns hO hP hsz c Γ (pc + 1) flow (acc.reverse ++ flow :: rest) L v₁ L₁
        hl2.left hw.1 hal hc
      obtain ⟨e₁, rfl, l₁⟩ := evalCh_ext c Γ L flow v₁ L₁ hc
      have al₁ : (L ++ e₁).length = (compileCh Γ c).2.length := by rw [compileCh_len]; simp [hal, l₁]
      obtain ⟨run₂, len₂⟩ := compileFs_aruns hO hP hsz r (compileCh Γ c).2 (pc + 1 + (compileCh Γ c).1.length)
        flow rest (L ++ e₁) (acc ++ [v₁]) vs₂ L₂ (by simpa using hl2.right) hw.2 al₁ hr
      refine ⟨(l_pick h0 hpick).trans (run₁.trans ?_), by simp [Fs2.length, len₂]⟩
      have e : pc + ([Instr.pick acc.length] ++ (compileCh Γ c).1 ++ (compileFs (compileCh Γ c).2 r (acc.length + 1)).1).length =
          pc + 1 + (compileCh Γ c).1.length + (compileFs (compileCh Γ c).2 r (acc ++ [v₁]).length).1.length := by
        simp; omega
      rw [e]
      simpa using run₂
  theorem compileSq_aruns (hO : OracleIntEq O) (hP : wfProg P) (hsz : code.size < 2 ^ 63 - 1) :
      (sq : Sq2) → (Γ : List String) → (pc : Nat) → (flow : Val) → (rest L : List Val) → (v : Val) →
      (L' : List Val) → C02S.Located code pc (compileSq Γ sq).1 → wfSq P sq → L.length = Γ.length →
      evalSq Γ L flow sq = some (v, L') →
      ARunsL O P code (pc, flow :: rest, L) (pc + (compileSq Γ sq).1.length, v :: rest, L')
    | .last c, Γ, pc, flow, rest, L, v, L', hl, hw, hal, hev => by
      simp only [compileSq, evalSq] at hl hev ⊢
      exact compileCh_aruns hO hP hsz c Γ pc flow rest L v L' hl hw hal hev
    | .cons c r, Γ, pc, flow, rest, L, v, L', hl, hw, hal, hev => by
      simp only [evalSq, Option.bind_eq_some_iff] at hev
      obtain ⟨⟨v₁, L₁⟩, hc, hr⟩ := hev
      simp only [compileSq] at hl ⊢
      have run₁ := compileCh_aruns hO hP hsz c Γ pc flow rest L v₁ L₁ hl.left hw.1 hal hc
      obtain ⟨e₁, rfl, l₁⟩ := evalCh_ext c Γ L flow v₁ L₁ hc
      have al₁ : (L ++ e₁).length = (compileCh Γ c).2.length := by rw [compileCh_len]; simp [hal, l₁]
      refine run₁.trans ?_
      have hl2 := hl.right
      have hd := hl2.head
      have hn := (Located.tail hl2).head
      have hj := (Located.tail (Located.tail hl2)).head
      have hl3 : C02S.Located code (pc + (compileCh Γ c).1.length + 1 + 1 + 1) (compileSq (compileCh Γ c).2 r).1 :=
        Located.tail (Located.tail (Located.tail hl2))
      have hjb := Located.bound hl2 2 (by simp)
      have hend : pc + (compileCh Γ c).1.length + 1 + 1 + (compileSq (compileCh Γ c).2 r).1.length + 1 ≤ code.size := by
        by_cases h0 : (compileSq (compileCh Γ c).2 r).1.length = 0
        · omega
        · have := Located.bound hl3 ((compileSq (compileCh Γ c).2 r).1.length - 1) (by omega)
          omega
      have etot : pc + ((compileCh Γ c).1 ++ ([Instr.duplicate, Instr.not,
          Instr.jumpIf ((compileSq (compileCh Γ c).2 r).1.length : Int)] ++ (compileSq (compileCh Γ c).2 r).1)).length
          = pc + (compileCh Γ c).1.length + 1 + 1 + (compileSq (compileCh Γ c).2 r).1.length + 1 := by simp; omega
      rw [etot]
      refine ((l_dup hd).trans (l_not hn)).trans ?_
      by_cases hv : v₁.isNil = true
      · simp only [hv, if_true, Option.some.injEq, Prod.mk.injEq] at hr ⊢
        obtain ⟨rfl, rfl⟩ := hr
        exact l_jumpIf_to hj rfl (by omega) (by rw [e63]; omega)
      · have hv' : v₁.isNil = false := by simpa using hv
        simp only [hv', Bool.false_eq_true, if_false] at hr ⊢
        refine (l_jumpIf_fall hj rfl).trans ?_
        have := compileSq_aruns hO hP hsz r (compileCh Γ c).2 _ v₁ rest (L ++ e₁) v L' hl3 hw.2 al₁ hr
        have e2 : pc + (compileCh Γ c).1.length + 1 + 1 + 1 + (compileSq (compileCh Γ c).2 r).1.length =
            pc + (compileCh Γ c).1.length + 1 + 1 + (compileSq (compileCh Γ c).2 r).1.length + 1 := by omega
        rw [e2] at this
        exact this
  /-- the branches from one on: from the branch's start (with the previous condition's nil on the stack
  unless it is the first) to the parameter clear at `PC`, value on the stack, locals `L ++ [parameter]` -/
  theorem compileBrs_aruns (hO : OracleIntEq O) (hP : wfProg P) (hsz : code.size < 2 ^ 63 - 1) :
      (bs : Brs2) → (Γp : List String) → (n k : Nat) → (first : Bool) → (pos PC : Nat) →
      (flow junk : Val) → (rest L : List Val) → (v : Val) →
      C02S.Located code pos (compileBrs Γp n bs k first).1 →
      pos + (compileBrs Γp n bs k first).1.length = PC →
      C02S.Located code (PC + 2 + 2 * k) (compileBrs Γp n bs k first).2 →
      PC < code.size → wfBrs P bs → Γp.length = n + 1 → L.length = n →
      (first = true → bs.isNil = false) → (first = false → junk = Val.nil) →
      evalBrs Γp (L ++ [flow]) flow bs = some v →
      ARunsL O P code (pos, (if first then rest else junk :: rest), L ++ [flow]) (PC, v :: rest, L ++ [flow])
    | .nil, Γp, n, k, first, pos, PC, flow, junk, rest, L, v, _, hPC, _, _, _, _, _, hf, hj, hev => by
      cases first with
      | true => have := hf rfl; simp [Brs2.isNil] at this
      | false =>
        simp only [evalBrs, Option.some.injEq] at hev
        simp only [compileBrs, List.length_nil, Nat.add_zero] at hPC
        subst hev hPC
        rw [hj rfl]
        exact .refl _
    | .cons cond .none rs, Γp, n, k, first, pos, PC, flow, junk, rest, L, v, hl, hPC, hcl, hPCs, hw, hΓ, hL, _, _, hev => by
      simp only [evalBrs, Option.bind_eq_some_iff] at hev
      obtain ⟨⟨vc, Lc⟩, hc, hrest⟩ := hev
      simp only [compileBrs] at hl hPC hcl
      obtain ⟨p1, runPre, hl1, hp1⟩ := pre_aruns (O := O) (P := P) first junk rest (L ++ [flow]) pos _ hl
      refine runPre.trans ?_
      have hl1' : C02S.Located code p1 (.load n :: ((compileSq Γp cond).1 ++ (resetIf (compileSq Γp cond).2.length n ++
          ((if rs.isNil then [] else [.duplicate, .jumpIf ((compileBrs Γp n rs k false).1.length : Int)]) ++
            (compileBrs Γp n rs k false).1)))) := by simpa using hl1
      have hload := hl1'.head
      have hl2 := (Located.tail hl1')
      have hLp : (L ++ [flow]).length = Γp.length := by simp [hL, hΓ]
      have hflow : (L ++ [flow])[n]? = some flow := by rw [← hL]; simp
      have runLoad := l_load (O := O) (P := P) (s := rest) (L := L ++ [flow]) hload hflow
      have runCond := compileSq_aruns hO hP hsz cond Γp (p1 + 1) flow rest (L ++ [flow]) vc Lc hl2.left hw.1 hLp hc
      obtain ⟨ext, rfl, le, lx⟩ := evalSq_ext cond Γp (L ++ [flow]) flow vc Lc hc
      have hl3 := hl2.right
      have runReset := resetIf_aruns (O := O) (P := P) (compileSq Γp cond).2.length n
        (p1 + 1 + (compileSq Γp cond).1.length) (vc :: rest) (L ++ [flow]) ext hl3.left (by simp [hL])
        (by intro h; rw [compileSq_len, hΓ] at h; apply List.eq_nil_of_length_eq_zero; omega)
      refine (runLoad.trans (runCond.trans runReset)).trans ?_
      have hl4 := hl3.right
      by_cases hlast : rs.isNil = true
      · -- last branch: the code ends at the parameter clear
        have hr0 := compileBrs_isNil Γp n k false rs hlast
        simp only [hlast, if_true, hr0, List.append_nil, List.length_append, List.length_cons,
          List.length_nil] at hPC hl4 ⊢
        have e : p1 + 1 + (compileSq Γp cond).1.length + (resetIf (compileSq Γp cond).2.length n).length = PC := by
          rw [hp1]; omega
        rw [e]
        by_cases hv : vc.isNil = true
        · simp only [hv, if_true] at hrest
          cases rs with
          | nil =>
            simp only [evalBrs, Option.some.injEq] at hrest
            subst hrest
            rw [isNil_eq vc hv]
            exact .refl _
          | cons a b c => simp [Brs2.isNil] at hlast
        · have hv' : vc.isNil = false := by simpa using hv
          simp only [hv', Bool.false_eq_true, if_false, Option.some.injEq] at hrest
          subst hrest
          exact .refl _
      · have hlast' : rs.isNil = false := by simpa using hlast
        simp only [hlast', Bool.false_eq_true, if_false] at hPC hl4 ⊢
        have hl5 : C02S.Located code (p1 + 1 + (compileSq Γp cond).1.length + (resetIf (compileSq Γp cond).2.length n).length)
            (.duplicate :: .jumpIf ((compileBrs Γp n rs k false).1.length : Int) :: (compileBrs Γp n rs k false).1) := by
          simpa using hl4
        have hd := hl5.head
        have hji := (Located.tail hl5).head
        have hl6 := Located.tail (Located.tail hl5)
        have ePC : p1 + 1 + (compileSq Γp cond).1.length + (resetIf (compileSq Γp cond).2.length n).length + 1 + 1 +
            (compileBrs Γp n rs k false).1.length = PC := by
          rw [hp1]
          simp only [List.length_append, List.length_cons, List.length_nil] at hPC
          omega
        have runDup := l_dup (O := O) (P := P) (v := vc) (s := rest) (L := L ++ [flow]) hd
        refine runDup.trans ?_
        by_cases hv : vc.isNil = true
        · simp only [hv, if_true] at hrest
          have runFall := l_jumpIf_fall (O := O) (P := P) (c := vc) (s := vc :: rest) (L := L ++ [flow]) hji hv
          refine runFall.trans ?_
          have ih := compileBrs_aruns hO hP hsz rs Γp n k false _ PC flow vc rest L v hl6 ePC hcl hPCs hw.2 hΓ hL
            (fun h => by cases h) (fun _ => isNil_eq vc hv) hrest
          simpa using ih
        · have hv' : vc.isNil = false := by simpa using hv
          simp only [hv', Bool.false_eq_true, if_false, Option.some.injEq] at hrest
          subst hrest
          exact l_jumpIf_to hji hv' (by omega) (by rw [e63]; omega)
    | .cons cond (.some cons) rs, Γp, n, k, first, pos, PC, flow, junk, rest, L, v, hl, hPC, hcl, hPCs, hw, hΓ, hL, _, _, hev => by
      simp only [evalBrs, Option.bind_eq_some_iff] at hev
      obtain ⟨⟨vc, Lc⟩, hc, hrest⟩ := hev
      simp only [compileBrs] at hl hPC hcl
      -- facts about the condition that mention `compileSq Γp cond` are derived before it is abstracted
      have hLp : (L ++ [flow]).length = Γp.length := by simp [hL, hΓ]
      obtain ⟨ext, rfl, le, lx⟩ := evalSq_ext cond Γp (L ++ [flow]) flow vc Lc hc
      have hclen := compileSq_len cond Γp
      have hcclen := compileSq_len cons (compileSq Γp cond).2
      have condRun : ∀ q, C02S.Located code q (compileSq Γp cond).1 →
          ARunsL O P code (q, flow :: rest, L ++ [flow]) (q + (compileSq Γp cond).1.length, vc :: rest, L ++ [flow] ++ ext) :=
        fun q hq => compileSq_aruns hO hP hsz cond Γp q flow rest (L ++ [flow]) vc _ hq hw.1 hLp hc
      have consRun : ∀ q w Lk, C02S.Located code q (compileSq (compileSq Γp cond).2 cons).1 →
          (L ++ [flow] ++ ext).length = (compileSq Γp cond).2.length →
          evalSq (compileSq Γp cond).2 (L ++ [flow] ++ ext) flow cons = some (w, Lk) →
          ARunsL O P code (q, flow :: rest, L ++ [flow] ++ ext)
            (q + (compileSq (compileSq Γp cond).2 cons).1.length, w :: rest, Lk) :=
        fun q w Lk hq hal he => compileSq_aruns hO hP hsz cons _ q flow rest _ w Lk hq hw.2.1 hal he
      have restRun : ∀ k' q, C02S.Located code q (compileBrs Γp n rs k' false).1 →
          q + (compileBrs Γp n rs k' false).1.length = PC →
          C02S.Located code (PC + 2 + 2 * k') (compileBrs Γp n rs k' false).2 → vc.isNil = true →
          evalBrs Γp (L ++ [flow]) flow rs = some v →
          ARunsL O P code (q, vc :: rest, L ++ [flow]) (PC, v :: rest, L ++ [flow]) :=
        fun k' q hq hqe hqc hv he => by
          have := compileBrs_aruns hO hP hsz rs Γp n k' false q PC flow vc rest L v hq hqe hqc hPCs hw.2.2 hΓ hL
            (fun h => by cases h) (fun _ => isNil_eq vc hv) he
          simpa using this
      have restNil : ∀ k', rs.isNil = true → compileBrs Γp n rs k' false = ([], []) :=
        fun k' h => compileBrs_isNil Γp n k' false rs h
      -- abstract the compiled pieces
      generalize compileSq Γp cond = c at *
      generalize compileSq c.2 cons = cc at *
      have hflowx : (L ++ [flow] ++ ext)[n]? = some flow := by
        rw [List.append_assoc, ← hL]; simp
      have hLpn : (L ++ [flow]).length = n + 1 := by simp [hL]
      -- the committed path: Pop, Load(n), the consequence, the per-branch Reset, to the parameter clear
      have succ : ∀ (q : Nat) (ejL rI : List Instr),
          C02S.Located code q (.pop :: .load n :: (cc.1 ++ (resetIf cc.2.length n ++ (ejL ++ rI)))) →
          ((ejL = [] ∧ rI = []) ∨ ejL = [.jump (rI.length : Int)]) →
          q + 2 + cc.1.length + (resetIf cc.2.length n).length + ejL.length + rI.length = PC →
          vc.isNil = false →
          ARunsL O P code (q, vc :: rest, L ++ [flow] ++ ext) (PC, v :: rest, L ++ [flow]) := by
        intro q ejL rI hq hej hqe hv
        simp only [hv, Bool.false_eq_true, if_false, Option.map_eq_some_iff] at hrest
        obtain ⟨⟨w, Lk⟩, hk, rfl⟩ := hrest
        have a := l_pop (O := O) (P := P) (v := vc) (s := rest) (L := L ++ [flow] ++ ext) hq.head
        have b := l_load (O := O) (P := P) (s := rest) (L := L ++ [flow] ++ ext) (Located.tail hq).head hflowx
        have hq2 := Located.tail (Located.tail hq)
        have hal : (L ++ [flow] ++ ext).length = c.2.length := by
          rw [hclen, ← hLp]; simp [lx hv]; omega
        have cr := consRun (q + 1 + 1) w Lk hq2.left hal hk
        obtain ⟨ext2, rfl, le2, _⟩ := evalSq_ext cons c.2 (L ++ [flow] ++ ext) flow w Lk hk
        have hq3 := hq2.right
        have rr := resetIf_aruns (O := O) (P := P) cc.2.length n (q + 1 + 1 + cc.1.length) (w :: rest)
          (L ++ [flow]) (ext ++ ext2) hq3.left hLpn
          (by
            intro h
            rw [hcclen, hclen, hΓ] at h
            have h1 := lx hv
            apply List.eq_nil_of_length_eq_zero
            simp only [List.length_append]
            omega)
        rw [← List.append_assoc] at rr
        refine ((a.trans b).trans (cr.trans rr)).trans ?_
        have hq4 := hq3.right
        rcases hej with ⟨rfl, rfl⟩ | rfl
        · simp only [List.length_nil, Nat.add_zero] at hqe
          have e : q + 1 + 1 + cc.1.length + (resetIf cc.2.length n).length = PC := by omega
          rw [e]
          exact .refl _
        · have hjmp : code[q + 1 + 1 + cc.1.length + (resetIf cc.2.length n).length]? = some (.jump (rI.length : Int)) := by
            have : C02S.Located code (q + 1 + 1 + cc.1.length + (resetIf cc.2.length n).length)
                (.jump (rI.length : Int) :: rI) := by simpa using hq4
            exact this.head
          simp only [List.length_cons, List.length_nil] at hqe
          exact l_jump hjmp (by omega) (by rw [e63]; omega)
      have hflow : (L ++ [flow])[n]? = some flow := by rw [← hL]; simp
      have hejcases : ∀ r : List Instr × List Instr, (rs.isNil = true → r = ([], [])) →
          (((if rs.isNil = true then [] else [Instr.jump (r.1.length : Int)]) = [] ∧ r.1 = []) ∨
            (if rs.isNil = true then [] else [Instr.jump (r.1.length : Int)]) = [Instr.jump (r.1.length : Int)]) := by
        intro r hr
        by_cases h : rs.isNil = true
        · left; simp [h, hr h]
        · right; simp [h]
      by_cases hneeds : c.2.length > n + 1
      · -- the condition has bindings: a failed condition leaves through this branch's cleanup block
        simp only [hneeds, decide_true, if_true] at hl hPC hcl
        generalize hr : compileBrs Γp n rs (k + 1) false = r at *
        obtain ⟨p1, runPre, hl1, hp1⟩ := pre_aruns (O := O) (P := P) first junk rest (L ++ [flow]) pos _ hl
        refine runPre.trans ?_
        have hl1' : C02S.Located code p1 (.load n :: (c.1 ++ (.duplicate :: .not ::
            .jumpIf (((2 + cc.1.length + (resetIf cc.2.length n).length +
                (if rs.isNil = true then [] else [Instr.jump (r.1.length : Int)]).length + r.1.length + 2 + 2 * k : Nat)) : Int) ::
            .pop :: .load n :: (cc.1 ++ (resetIf cc.2.length n ++
              ((if rs.isNil = true then [] else [Instr.jump (r.1.length : Int)]) ++ r.1)))))) := by
          simpa using hl1
        have ePC : p1 + 1 + c.1.length + 1 + 1 + 1 + 2 + cc.1.length + (resetIf cc.2.length n).length +
            (if rs.isNil = true then [] else [Instr.jump (r.1.length : Int)]).length + r.1.length = PC := by
          rw [hp1]
          simp only [List.length_append, List.length_cons, List.length_nil] at hPC
          omega
        have hload := hl1'.head
        have hl2 := Located.tail hl1'
        have runLoad := l_load (O := O) (P := P) (s := rest) (L := L ++ [flow]) hload hflow
        have runCond := condRun (p1 + 1) hl2.left
        have hl3 := hl2.right
        have hd := hl3.head
        have hn := (Located.tail hl3).head
        have hj := (Located.tail (Located.tail hl3)).head
        have hl4 := Located.tail (Located.tail (Located.tail hl3))
        have runDup := l_dup (O := O) (P := P) (v := vc) (s := rest) (L := L ++ [flow] ++ ext) hd
        have runNot := l_not (O := O) (P := P) (v := vc) (s := vc :: rest) (L := L ++ [flow] ++ ext) hn
        refine (runLoad.trans (runCond.trans (runDup.trans runNot))).trans ?_
        have hcl' : C02S.Located code (PC + 2 + 2 * k)
            (.reset (n + 1) :: .jump (-((r.1.length + 2 * k + 4 : Nat) : Int)) :: r.2) := by simpa using hcl
        by_cases hv : vc.isNil = true
        · simp only [hv, if_true] at hrest ⊢
          have hTb := Located.bound hcl' 1 (by simp)
          have runJ := l_jumpIf_to (O := O) (P := P) (c := Val.ok) (s := vc :: rest) (L := L ++ [flow] ++ ext)
            (t := PC + 2 + 2 * k) hj rfl (by omega) (by rw [e63]; omega)
          have runR := l_reset (O := O) (P := P) (s := vc :: rest) (L := L ++ [flow] ++ ext) (n := n + 1) hcl'.head
            (by simp; omega)
          have htk : (L ++ [flow] ++ ext).take (n + 1) = L ++ [flow] := by
            rw [← hLpn]; exact List.take_left' rfl
          rw [htk] at runR
          have runB := l_jump (O := O) (P := P) (s := vc :: rest) (L := L ++ [flow])
            (t := p1 + 1 + c.1.length + 1 + 1 + 1 + 2 + cc.1.length + (resetIf cc.2.length n).length +
              (if rs.isNil = true then [] else [Instr.jump (r.1.length : Int)]).length)
            (Located.tail hcl').head (by omega) (by rw [e63]; omega)
          refine ((runJ.trans runR).trans runB).trans ?_
          have hlr : C02S.Located code (p1 + 1 + c.1.length + 1 + 1 + 1 + 2 + cc.1.length + (resetIf cc.2.length n).length +
              (if rs.isNil = true then [] else [Instr.jump (r.1.length : Int)]).length) r.1 := by
            have := ((Located.tail (Located.tail hl4)).right).right.right
            simpa [Nat.add_assoc] using this
          have hclr : C02S.Located code (PC + 2 + 2 * (k + 1)) r.2 := by
            have := Located.tail (Located.tail hcl')
            simpa [Nat.mul_add, Nat.add_assoc] using this
          subst hr
          exact restRun (k + 1) _ hlr ePC hclr hv hrest
        · have hv' : vc.isNil = false := by simpa using hv
          simp only [hv', Bool.false_eq_true, if_false]
          have runF := l_jumpIf_fall (O := O) (P := P) (c := Val.nil) (s := vc :: rest) (L := L ++ [flow] ++ ext) hj rfl
          refine runF.trans ?_
          exact succ _ _ r.1 hl4 (hejcases r (fun h => by rw [← hr]; exact restNil (k + 1) h)) (by omega) hv'
      · -- no bindings in the condition: nothing was stored, the failure path goes straight on
        have hneeds' : decide (c.2.length > n + 1) = false := by simpa using hneeds
        simp only [hneeds', Bool.false_eq_true, if_false, List.nil_append] at hl hPC hcl
        generalize hr : compileBrs Γp n rs k false = r at *
        obtain ⟨p1, runPre, hl1, hp1⟩ := pre_aruns (O := O) (P := P) first junk rest (L ++ [flow]) pos _ hl
        refine runPre.trans ?_
        have hl1' : C02S.Located code p1 (.load n :: (c.1 ++ (.duplicate :: .not ::
            .jumpIf (((2 + cc.1.length + (resetIf cc.2.length n).length +
                (if rs.isNil = true then [] else [Instr.jump (r.1.length : Int)]).length : Nat)) : Int) ::
            .pop :: .load n :: (cc.1 ++ (resetIf cc.2.length n ++
              ((if rs.isNil = true then [] else [Instr.jump (r.1.length : Int)]) ++ r.1)))))) := by
          simpa using hl1
        have ePC : p1 + 1 + c.1.length + 1 + 1 + 1 + 2 + cc.1.length + (resetIf cc.2.length n).length +
            (if rs.isNil = true then [] else [Instr.jump (r.1.length : Int)]).length + r.1.length = PC := by
          rw [hp1]
          simp only [List.length_append, List.length_cons, List.length_nil] at hPC
          omega
        have hload := hl1'.head
        have hl2 := Located.tail hl1'
        have runLoad := l_load (O := O) (P := P) (s := rest) (L := L ++ [flow]) hload hflow
        have runCond := condRun (p1 + 1) hl2.left
        have hl3 := hl2.right
        have hd := hl3.head
        have hn := (Located.tail hl3).head
        have hj := (Located.tail (Located.tail hl3)).head
        have hl4 := Located.tail (Located.tail (Located.tail hl3))
        have runDup := l_dup (O := O) (P := P) (v := vc) (s := rest) (L := L ++ [flow] ++ ext) hd
        have runNot := l_not (O := O) (P := P) (v := vc) (s := vc :: rest) (L := L ++ [flow] ++ ext) hn
        refine (runLoad.trans (runCond.trans (runDup.trans runNot))).trans ?_
        by_cases hv : vc.isNil = true
        · simp only [hv, if_true] at hrest ⊢
          have hext : ext = [] := by
            apply List.eq_nil_of_length_eq_zero
            rw [hclen, hΓ] at hneeds
            omega
          subst hext
          have runJ := l_jumpIf_to (O := O) (P := P) (c := Val.ok) (s := vc :: rest) (L := L ++ [flow] ++ [])
            (t := p1 + 1 + c.1.length + 1 + 1 + 1 + 2 + cc.1.length + (resetIf cc.2.length n).length +
              (if rs.isNil = true then [] else [Instr.jump (r.1.length : Int)]).length)
            hj rfl (by omega) (by rw [e63]; omega)
          refine runJ.trans ?_
          have hlr : C02S.Located code (p1 + 1 + c.1.length + 1 + 1 + 1 + 2 + cc.1.length + (resetIf cc.2.length n).length +
              (if rs.isNil = true then [] else [Instr.jump (r.1.length : Int)]).length) r.1 := by
            have := ((Located.tail (Located.tail hl4)).right).right.right
            simpa [Nat.add_assoc] using this
          subst hr
          simpa using restRun k _ hlr ePC hcl hv hrest
        · have hv' : vc.isNil = false := by simpa using hv
          simp only [hv', Bool.false_eq_true, if_false]
          have runF := l_jumpIf_fall (O := O) (P := P) (c := Val.nil) (s := vc :: rest) (L := L ++ [flow] ++ ext) hj rfl
          refine runF.trans ?_
          exact succ _ _ r.1 hl4 (hejcases r (fun h => by rw [← hr]; exact restNil k h)) (by omega) hv'
end

end Machine

/-- **Blocks are compiled correctly** (with everything of C02Loc inside them and around them): a process
of M-VM whose current function contains the code of the sequence `c₁, c₂, …` — terms: integer literals,
`~`, tuples, variable reads, simple matches, and BLOCKS `{ | cond => cons | cond | … }` nested to any
depth — compiled with the slot names `Γ`, at `pc`, whose frame's locals `L` are aligned with `Γ`, with the
flowing value on top of its stack, reaches the end of that code by `Executor::step` units alone, with
the sequence's value in place of the flowing value and the frame's locals as `evalSq` says — for a block:
exactly the locals before it (the Reset discipline: per-branch `Reset(n+1)`, cleanup blocks, parameter
clear `Reset(n)`). The locals of the frames below and the rest of the stack are untouched. -/
theorem compileSq2_correct (O : Oracle) (P : Prog) (hO : OracleIntEq O) (hP : wfProg P) (fn : Function)
    (f : Frame) (r : List Frame) (pre : List Val) (hfn : P.functions[f.functionIndex]? = some fn)
    (hsz : fn.instructions.size < 2 ^ 63 - 1) (sq : Sq2) (Γ : List String) (pc : Nat) (flow : Val)
    (rest L : List Val) (v : Val) (L' : List Val)
    (hl : C02S.Located fn.instructions pc (compileSq Γ sq).1) (hw : wfSq P sq)
    (hal : L.length = Γ.length) (hev : evalSq Γ L flow sq = some (v, L'))
    (p : Proc) (hp : InvL p f r pre pc (flow :: rest) L) :
    ∃ q, C02S.TRuns O P p q ∧ InvL q f r pre (pc + (compileSq Γ sq).1.length) (v :: rest) L' :=
  liftL O P fn f r pre hfn (compileSq_aruns hO hP hsz sq Γ pc flow rest L v L' hl hw hal hev) p hp

/-- the block itself: afterwards the frame's locals are exactly those before it -/
theorem block_restores_locals (Γ : List String) (L : List Val) (flow v : Val) (L' : List Val) (bs : Brs2)
    (h : evalT Γ L flow (.block bs) = some (v, L')) : L' = L := by
  simp only [evalT, Option.map_eq_some_iff, Prod.mk.injEq] at h
  obtain ⟨_, _, _, rfl⟩ := h
  rfl

end C02B
