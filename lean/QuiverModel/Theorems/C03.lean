import QuiverModel.Theorems.C04
import QuiverModel.Lemmas.Sys.Commute
/-
C03 — Results do not depend on scheduling, worker count or time-slice length.

Level `other`: the end-to-end confluence statement (`ConfluenceStatement`) is NOT proved; what is
proved on M-Sys (the model executed in lock-step with the real Environment/Workers) are its
building blocks: worker steps are local and commute, the time slice is additive in its budget, the
arrival order in a single-sender mailbox is the sender's send order in every schedule, no schedule
produces an internal error, no schedule loses a wake-up (from C04).  The rest is exploration
(harness/src/bin/c03.rs).
-/
namespace C03
open QM.Sys

/-- **Steps of two different workers commute**: for `i ≠ j`, performing `Worker::step` of worker
`i` (any visibility, slice length, iteration orders) and then of worker `j` yields the same
system state as the other order — workers, queues, environment, clock, fault flag; only the order of
entries in the ghost histories differs.  (Each worker step reads and writes only its own executor,
its own command queue and its own event queue: `Local.workerStep`.) -/
theorem worker_steps_commute (s : Sys) (i j : Wid) (hij : i ≠ j) (hi : i < s.n) (hj : j < s.n)
    (vi fi : Nat) (qi ei : List Pid) (vj fj : Nat) (qj ej : List Pid) :
    CoreEq (sysStep (sysStep s (.worker i vi fi qi ei)) (.worker j vj fj qj ej))
           (sysStep (sysStep s (.worker j vj fj qj ej)) (.worker i vi fi qi ei)) := by
  have hA := Local.workerStep Rules.current i vi fi qi ei
  have hB := Local.workerStep Rules.current j vj fj qj ej
  have hnA : (workerStepWith Rules.current s i vi fi qi ei).n = s.n := (hA.frame s).n
  have hnB : (workerStepWith Rules.current s j vj fj qj ej).n = s.n := (hB.frame s).n
  simp only [sysStep, sysStepWith, hi, hj, if_true, hnA, hnB]
  exact local_commute hA hB hij s

/-- A worker step commutes with the clock as far as other workers are concerned is trivial; the
interesting interaction is with the environment, which consumes events and produces commands in
FIFO order per worker — see `C04.delivery_conservation`. -/
theorem worker_step_local (R : Rules) (i : Wid) (vis fuel : Nat) (ordQ ordE : List Pid) :
    Local (fun s => workerStepWith R s i vis fuel ordQ ordE) i := Local.workerStep R i vis fuel ordQ ordE

/-- **Where a time slice is cut is irrelevant for what the process does**: running a process for
`f1` attempts and — if the slice ended only because the budget was used up — for `f2` more is the
same as running it for `f1 + f2` attempts at once.  (A slice boundary changes nothing but the
rotation of the run queue.) -/
theorem quantum_irrelevant_single (prog : Prog) (now : Nat) (self : Pid) (f1 f2 : Nat) (p : Proc) :
    slice prog now self (f1 + f2) p = contWith prog now self f2 (slice prog now self f1 p) :=
  slice_add prog now self f1 f2 p

/-- … in particular a slice that reaches a routed action, a park or the end of the process within
`f1` attempts is not changed by a larger budget. -/
theorem quantum_irrelevant_after_boundary (prog : Prog) (now : Nat) (self : Pid) (f1 f2 : Nat) (p : Proc)
    (h : (slice prog now self f1 p).2 ≠ .cont) :
    slice prog now self (f1 + f2) p = slice prog now self f1 p := by
  rw [slice_add]
  generalize slice prog now self f1 p = r at h
  obtain ⟨p', out⟩ := r
  cases out <;> first | rfl | exact absurd rfl h

/-- all messages ever sent to `b` come from `a` -/
def SingleSender (s : Sys) (a b : Pid) : Prop := ∀ rm ∈ s.sent, rm.1 = b → rm.2.src = a

/-- the arrival history of `b`'s mailbox (all senders) -/
def arrivals (s : Sys) (b : Pid) : List Msg := (s.appended.filter (fun rm => rm.1 = b)).map (·.2)

theorem sel_eq_arrivals_of_all {l : List (Pid × Msg)} {a b : Pid} (h : ∀ rm ∈ l, rm.1 = b → rm.2.src = a) :
    sel a b l = (l.filter (fun rm => rm.1 = b)).map (·.2) := by
  induction l with
  | nil => rfl
  | cons rm l ih =>
    have ih' := ih (fun x hx => h x (List.mem_cons_of_mem _ hx))
    simp only [sel, List.filterMap_cons, List.filter_cons] at ih' ⊢
    by_cases hb : rm.1 = b
    · have := h rm (by simp) hb
      simp only [hb, this, and_self, if_true, decide_true, List.map_cons]
      exact congrArg _ ih'
    · simp only [hb, false_and, if_false, decide_false]
      exact ih'

/-- **The content and order of a single-sender mailbox are determined by the sender alone**: in
every schedule, with any number of workers and any slicing, what has arrived in `b`'s mailbox is a
prefix of the sequence of messages `a` sent to `b`, in send order — and all of it once the queues
are empty.  (The inductive core of the Kahn-style confluence argument.) -/
theorem mailbox_sequence_determined (n : Nat) (prog : Prog) (req : Nat) (hn : 0 < n) (hwf : ProgWF prog)
    (cs : List Choice) (a b : Pid) (hs : SingleSender (C04.reach n prog req cs) a b) :
    arrivals (C04.reach n prog req cs) b <+: sel a b (C04.reach n prog req cs).sent ∧
    ((C04.reach n prog req cs).idle → arrivals (C04.reach n prog req cs) b = sel a b (C04.reach n prog req cs).sent) := by
  -- everything that arrived was sent: by conservation for the pair (src, b)
  have harr : ∀ rm ∈ (C04.reach n prog req cs).appended, rm.1 = b → rm.2.src = a := by
    intro rm hrm hb
    have hpre := C04.appended_prefix_of_sent n prog req hn hwf cs rm.2.src b
    have hin : rm.2 ∈ sel rm.2.src b (C04.reach n prog req cs).appended := by
      simp only [sel, List.mem_filterMap]
      exact ⟨rm, hrm, by simp [hb]⟩
    have hin2 := hpre.subset hin
    simp only [sel, List.mem_filterMap] at hin2
    obtain ⟨rm2, hrm2, heq⟩ := hin2
    split at heq
    · rename_i hc
      simp only [Option.some.injEq] at heq
      rw [← heq]
      exact hs rm2 hrm2 hc.1
    · cases heq
  have he : arrivals (C04.reach n prog req cs) b = sel a b (C04.reach n prog req cs).appended :=
    (sel_eq_arrivals_of_all harr).symm
  rw [he]
  exact ⟨C04.appended_prefix_of_sent n prog req hn hwf cs a b,
         fun hidle => C04.quiescent_all_delivered n prog req hn hwf cs a b hidle⟩

/-- **No internal error**: from any state satisfying the routing invariant (every pid in any queue,
register or awaiter table is routed, …) no scheduler choice makes `Environment::step` or
`Worker::step` return an `EnvironmentError`, and the invariant is kept. -/
theorem no_internal_error (s : Sys) (h : RInv s) (c : Choice) : (sysStep s c).fault = false ∧ RInv (sysStep s c) := by
  have := sysStep_invariant Rules.current RInv (fun s m hs => hs.micro Rules.current_tame m) s c h
  exact ⟨this.nofault, this⟩

/-- … and none is ever produced from start-up (`C04.no_fault`). -/
theorem no_internal_error_reachable (n : Nat) (prog : Prog) (req : Nat) (hn : 0 < n) (hwf : ProgWF prog) (cs : List Choice) :
    (C04.reach n prog req cs).fault = false := C04.no_fault n prog req hn hwf cs

/-- No schedule loses a wake-up (`C04.quiescent_no_blocked_ready`, `C04.quiescent_no_spawner_waiting`):
when the system is idle no parked process has a ready source and no spawner waits for its pid. -/
theorem no_deadlock_from_lost_wakeup (n : Nat) (prog : Prog) (req : Nat) (hn : 0 < n) (hwf : ProgWF prog) (cs : List Choice)
    (hidle : (C04.reach n prog req cs).idle) (w : Wid) (hw : w < (C04.reach n prog req cs).n) :
    ((C04.reach n prog req cs).wk w).spawning = [] ∧
    ∀ p x, p ∈ ((C04.reach n prog req cs).wk w).selecting → ((C04.reach n prog req cs).wk w).procs p = some x →
      ¬ LocalReady (C04.reach n prog req cs).prog x :=
  ⟨C04.quiescent_no_spawner_waiting n prog req hn hwf cs hidle w hw,
   fun p x hp hx => C04.quiescent_no_blocked_ready n prog req hn hwf cs hidle w p x hp hx⟩

/-! ### the full statement (not proved) -/

/-- a script table is in the confluent class: every select has exactly one source and it is not a
timeout, nothing fails (single-sender mailboxes are a property of runs: `SingleSender`) -/
def ConfluentProg (prog : Prog) : Prop :=
  ∀ sc ∈ prog, ∀ a ∈ sc, match a with
    | .select [.proc _] => True
    | .select [.recv _] => True
    | .select _ => False
    | .fail => False
    | _ => True

/-- final results per script: the result of the (unique) process that ran script `k` -/
def resultOfScript (s : Sys) (k : Nat) (r : Res) : Prop :=
  ∃ w p x, (s.wk w).procs p = some x ∧ x.fn = k ∧ x.result = some r

/-- **Confluence** (full statement, NOT proved): for a confluent script table whose mailboxes are
single-sender in every run, any two complete (idle) runs — with any two worker counts, any slicing,
any interleaving — give the same result for every script. -/
def ConfluenceStatement : Prop :=
  ∀ (prog : Prog), ProgWF prog → ConfluentProg prog →
    ∀ (n1 n2 : Nat) (req1 req2 : Nat) (cs1 cs2 : List Choice), 0 < n1 → 0 < n2 →
      (C04.reach n1 prog req1 cs1).idle → (C04.reach n2 prog req2 cs2).idle →
      (∀ a b, SingleSender (C04.reach n1 prog req1 cs1) a b ∨ ∀ rm ∈ (C04.reach n1 prog req1 cs1).sent, rm.1 ≠ b ∨ rm.2.src ≠ a) →
      ∀ k r, resultOfScript (C04.reach n1 prog req1 cs1) k r → resultOfScript (C04.reach n2 prog req2 cs2) k r

/-- what is proved towards it, collected: commutation of worker steps, slice additivity,
schedule-independent single-sender mailboxes, no internal error, no lost wake-up. -/
theorem confluence_partial :
    (∀ (s : Sys) (i j : Wid), i ≠ j → i < s.n → j < s.n → ∀ vi fi qi ei vj fj qj ej,
      CoreEq (sysStep (sysStep s (.worker i vi fi qi ei)) (.worker j vj fj qj ej))
             (sysStep (sysStep s (.worker j vj fj qj ej)) (.worker i vi fi qi ei))) ∧
    (∀ prog now self f1 f2 p, slice prog now self (f1 + f2) p = contWith prog now self f2 (slice prog now self f1 p)) ∧
    (∀ n prog req, 0 < n → ProgWF prog → ∀ cs, (C04.reach n prog req cs).fault = false) :=
  ⟨fun s i j hij hi hj vi fi qi ei vj fj qj ej => worker_steps_commute s i j hij hi hj vi fi qi ei vj fj qj ej,
   fun prog now self f1 f2 p => slice_add prog now self f1 f2 p,
   fun n prog req hn hwf cs => C04.no_fault n prog req hn hwf cs⟩

/-- the hypotheses are satisfiable: two workers with work to do -/
example : (C04.reach 2 C04.exProg 1 [.worker 0 100 5 [] [], .env [100, 100]]).cmdQ 1 ≠ [] ∧
    (C04.reach 2 C04.exProg 1 [.worker 0 100 5 [] [], .env [100, 100]]).cmdQ 0 ≠ [] := by decide

end C03
