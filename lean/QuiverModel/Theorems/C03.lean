import QuiverModel.Theorems.C04
import QuiverModel.Lemmas.Sys.Commute
import QuiverModel.Lemmas.Sys.Kahn
import QuiverModel.Lemmas.Sys.Stream
import QuiverModel.Lemmas.Sys.Uniq
/-
C03 — Results do not depend on scheduling, worker count or time-slice length.

Level `other`: the end-to-end confluence statement (`ConfluenceStatement`) is NOT proved in full.
Proved for the await/spawn fragment (script tables with a static register typing, `RegTyping`):
DETERMINACY — every process's history is the Kahn trace of its script (`kahn_invariant`,
`history_is_trace`), so two runs with any worker counts, quanta, schedules and ordering hints agree
on every history prefix and on every result both have (`confluence_histories_agree`,
`confluence_results_agree`); the statement's conclusion then follows from the progress half alone
(`confluence_await_spawn_partial`, missing hypothesis `ProgressStatement`).  Not proved: progress,
and receives (mailbox contents enter the history).  Also proved on M-Sys (the model executed in
lock-step with the real Environment/Workers), the building blocks: worker steps are local and commute, the time slice is additive in its budget, the
arrival order in a single-sender mailbox is the sender's send order in every schedule, no schedule
produces an internal error, no schedule loses a wake-up (from C04).  The rest is exploration
(harness/src/bin/c03.rs).
-/
namespace C03
open QM.Sys
set_option linter.unusedSectionVars false
section
variable [Cfg]

/-- **Steps of two different workers commute**: for `i ≠ j`, performing `Worker::step` of worker
`i` (any visibility, slice length, iteration orders) and then of worker `j` yields the same
system state as the other order — workers, queues, environment, clock, fault flag; only the order of
entries in the ghost histories differs.  (Each worker step reads and writes only its own executor,
its own command queue and its own event queue: `Local.workerStep`.) -/
theorem worker_steps_commute (s : Sys) (i j : Wid) (hij : i ≠ j) (hi : i < s.n) (hj : j < s.n)
    (vi fi : Nat) (qi ei : List Pid) (vj fj : Nat) (qj ej : List Pid) :
    CoreEq (sysStep (sysStep s (.worker i vi fi qi ei)) (.worker j vj fj qj ej))
           (sysStep (sysStep s (.worker j vj fj qj ej)) (.worker i vi fi qi ei)) := by
  have hA := Local.workerStep Rules.current i vi fi qi ei
  have hB := Local.workerStep Rules.current j vj fj qj ej
  have hnA : (workerStepWith Rules.current s i vi fi qi ei).n = s.n := (hA.frame s).n
  have hnB : (workerStepWith Rules.current s j vj fj qj ej).n = s.n := (hB.frame s).n
  simp only [sysStep, sysStepWith, hi, hj, if_true, hnA, hnB]
  exact local_commute hA hB hij s

/-- A worker step commutes with the clock as far as other workers are concerned is trivial; the
interesting interaction is with the environment, which consumes events and produces commands in
FIFO order per worker — see `C04.delivery_conservation`. -/
theorem worker_step_local (R : Rules) (i : Wid) (vis fuel : Nat) (ordQ ordE : List Pid) :
    Local (fun s => workerStepWith R s i vis fuel ordQ ordE) i := Local.workerStep R i vis fuel ordQ ordE

/-- **Where a time slice is cut is irrelevant for what the process does**: running a process for
`f1` attempts and — if the slice ended only because the budget was used up — for `f2` more is the
same as running it for `f1 + f2` attempts at once.  (A slice boundary changes nothing but the
rotation of the run queue.) -/
theorem quantum_irrelevant_single (prog : Prog) (now : Nat) (self : Pid) (f1 f2 : Nat) (p : Proc) :
    slice prog now self (f1 + f2) p = contWith prog now self f2 (slice prog now self f1 p) :=
  slice_add prog now self f1 f2 p

/-- … in particular a slice that reaches a routed action, a park or the end of the process within
`f1` attempts is not changed by a larger budget. -/
theorem quantum_irrelevant_after_boundary (prog : Prog) (now : Nat) (self : Pid) (f1 f2 : Nat) (p : Proc)
    (h : (slice prog now self f1 p).2 ≠ .cont) :
    slice prog now self (f1 + f2) p = slice prog now self f1 p := by
  rw [slice_add]
  generalize slice prog now self f1 p = r at h
  obtain ⟨p', out⟩ := r
  cases out <;> first | rfl | exact absurd rfl h

/-- all messages ever sent to `b` come from `a` -/
def SingleSender (s : Sys) (a b : Pid) : Prop := ∀ rm ∈ s.sent, rm.1 = b → rm.2.src = a

/-- the arrival history of `b`'s mailbox (all senders) -/
def arrivals (s : Sys) (b : Pid) : List Msg := (s.appended.filter (fun rm => rm.1 = b)).map (·.2)

theorem sel_eq_arrivals_of_all {l : List (Pid × Msg)} {a b : Pid} (h : ∀ rm ∈ l, rm.1 = b → rm.2.src = a) :
    sel a b l = (l.filter (fun rm => rm.1 = b)).map (·.2) := by
  induction l with
  | nil => rfl
  | cons rm l ih =>
    have ih' := ih (fun x hx => h x (List.mem_cons_of_mem _ hx))
    simp only [sel, List.filterMap_cons, List.filter_cons] at ih' ⊢
    by_cases hb : rm.1 = b
    · have := h rm (by simp) hb
      simp only [hb, this, and_self, if_true, decide_true, List.map_cons]
      exact congrArg _ ih'
    · simp only [hb, false_and, if_false, decide_false]
      exact ih'

/-- **The content and order of a single-sender mailbox are determined by the sender alone**: in
every schedule, with any number of workers and any slicing, what has arrived in `b`'s mailbox is a
prefix of the sequence of messages `a` sent to `b`, in send order — and all of it once the queues
are empty.  (The inductive core of the Kahn-style confluence argument.) -/
theorem mailbox_sequence_determined (n : Nat) (prog : Prog) (req : Nat) (hn : 0 < n) (hwf : ProgWF prog)
    (cs : List Choice) (a b : Pid) (hs : SingleSender (C04.reach n prog req cs) a b) :
    arrivals (C04.reach n prog req cs) b <+: sel a b (C04.reach n prog req cs).sent ∧
    ((C04.reach n prog req cs).idle → arrivals (C04.reach n prog req cs) b = sel a b (C04.reach n prog req cs).sent) := by
  -- everything that arrived was sent: by conservation for the pair (src, b)
  have harr : ∀ rm ∈ (C04.reach n prog req cs).appended, rm.1 = b → rm.2.src = a := by
    intro rm hrm hb
    have hpre := C04.appended_prefix_of_sent n prog req hn hwf cs rm.2.src b
    have hin : rm.2 ∈ sel rm.2.src b (C04.reach n prog req cs).appended := by
      simp only [sel, List.mem_filterMap]
      exact ⟨rm, hrm, by simp [hb]⟩
    have hin2 := hpre.subset hin
    simp only [sel, List.mem_filterMap] at hin2
    obtain ⟨rm2, hrm2, heq⟩ := hin2
    split at heq
    · rename_i hc
      simp only [Option.some.injEq] at heq
      rw [← heq]
      exact hs rm2 hrm2 hc.1
    · cases heq
  have he : arrivals (C04.reach n prog req cs) b = sel a b (C04.reach n prog req cs).appended :=
    (sel_eq_arrivals_of_all harr).symm
  rw [he]
  exact ⟨C04.appended_prefix_of_sent n prog req hn hwf cs a b,
         fun hidle => C04.quiescent_all_delivered n prog req hn hwf cs a b hidle⟩

/-- **No internal error**: from any state satisfying the routing invariant (every pid in any queue,
register or awaiter table is routed, …) no scheduler choice makes `Environment::step` or
`Worker::step` return an `EnvironmentError`, and the invariant is kept. -/
theorem no_internal_error (s : Sys) (h : RInv s) (c : Choice) : (sysStep s c).fault = false ∧ RInv (sysStep s c) := by
  have := sysStep_invariant Rules.current RInv (fun s m hs => hs.micro Rules.current_tame m) s c h
  exact ⟨this.nofault, this⟩

/-- … and none is ever produced from start-up (`C04.no_fault`). -/
theorem no_internal_error_reachable (n : Nat) (prog : Prog) (req : Nat) (hn : 0 < n) (hwf : ProgWF prog) (cs : List Choice) :
    (C04.reach n prog req cs).fault = false := C04.no_fault n prog req hn hwf cs

/-- No schedule loses a wake-up (`C04.quiescent_no_blocked_ready`, `C04.quiescent_no_spawner_waiting`):
when the system is idle no parked process has a ready source and no spawner waits for its pid. -/
theorem no_deadlock_from_lost_wakeup (n : Nat) (prog : Prog) (req : Nat) (hn : 0 < n) (hwf : ProgWF prog) (cs : List Choice)
    (hidle : (C04.reach n prog req cs).idle) (w : Wid) (hw : w < (C04.reach n prog req cs).n) :
    ((C04.reach n prog req cs).wk w).spawning = [] ∧
    ∀ p x, p ∈ ((C04.reach n prog req cs).wk w).selecting → ((C04.reach n prog req cs).wk w).procs p = some x →
      ¬ LocalReady (C04.reach n prog req cs).prog x :=
  ⟨C04.quiescent_no_spawner_waiting n prog req hn hwf cs hidle w hw,
   fun p x hp hx => C04.quiescent_no_blocked_ready n prog req hn hwf cs hidle w p x hp hx⟩

/-! ### the full statement (not proved) -/

/-- a script table is in the confluent class: every select has exactly one source and it is not a
timeout, nothing fails (single-sender mailboxes are a property of runs: `SingleSender`) -/
def ConfluentProg (prog : Prog) : Prop :=
  ∀ sc ∈ prog, ∀ a ∈ sc, match a with
    | .select [.proc _] => True
    | .select [.recv _] => True
    | .select _ => False
    | .fail => False
    | _ => True

/-- final results per script: the result of the (unique) process that ran script `k` -/
def resultOfScript (s : Sys) (k : Nat) (r : Res) : Prop :=
  ∃ w p x, (s.wk w).procs p = some x ∧ x.fn = k ∧ x.result = some r

/-- **Confluence** (full statement, NOT proved): for a confluent script table whose mailboxes are
single-sender in every run, any two complete (idle) runs — with any two worker counts, any slicing,
any interleaving — give the same result for every script. -/
def ConfluenceStatement : Prop :=
  ∀ (prog : Prog), ProgWF prog → ConfluentProg prog →
    ∀ (n1 n2 : Nat) (req1 req2 : Nat) (cs1 cs2 : List Choice), 0 < n1 → 0 < n2 →
      (C04.reach n1 prog req1 cs1).idle → (C04.reach n2 prog req2 cs2).idle →
      (∀ a b, SingleSender (C04.reach n1 prog req1 cs1) a b ∨ ∀ rm ∈ (C04.reach n1 prog req1 cs1).sent, rm.1 ≠ b ∨ rm.2.src ≠ a) →
      ∀ k r, resultOfScript (C04.reach n1 prog req1 cs1) k r → resultOfScript (C04.reach n2 prog req2 cs2) k r

/-- what is proved towards it, collected: commutation of worker steps, slice additivity,
schedule-independent single-sender mailboxes, no internal error, no lost wake-up. -/
theorem confluence_partial :
    (∀ (s : Sys) (i j : Wid), i ≠ j → i < s.n → j < s.n → ∀ vi fi qi ei vj fj qj ej,
      CoreEq (sysStep (sysStep s (.worker i vi fi qi ei)) (.worker j vj fj qj ej))
             (sysStep (sysStep s (.worker j vj fj qj ej)) (.worker i vi fi qi ei))) ∧
    (∀ prog now self f1 f2 p, slice prog now self (f1 + f2) p = contWith prog now self f2 (slice prog now self f1 p)) ∧
    (∀ n prog req, 0 < n → ProgWF prog → ∀ cs, (C04.reach n prog req cs).fault = false) :=
  ⟨fun s i j hij hi hj vi fi qi ei vj fj qj ej => worker_steps_commute s i j hij hi hj vi fi qi ei vj fj qj ej,
   fun prog now self f1 f2 p => slice_add prog now self f1 f2 p,
   fun n prog req hn hwf cs => C04.no_fault n prog req hn hwf cs⟩

end

/-- the hypotheses are satisfiable: two workers with work to do -/
example : (C04.reach 2 C04.exProg 1 [.worker 0 100 5 [] [], .env [100, 100]]).cmdQ 1 ≠ [] ∧
    (C04.reach 2 C04.exProg 1 [.worker 0 100 5 [] [], .env [100, 100]]).cmdQ 0 ≠ [] := by decide

section
variable [Cfg]


/-! ### confluence: determinacy proved (await/spawn/send/receive), progress stated -/

/-- an idle state is past the start-up phase -/
theorem not_preStart_of_idle {s : Sys} (hidle : s.idle) : ¬ PreStart s := by
  intro h
  obtain ⟨k, req, hq⟩ := h.cmd0
  have := (hidle 0 h.npos).1
  rw [hq] at this
  cases k <;> simp [List.replicate] at this

/-- no script of the table receives -/
def NoRecv (prog : Prog) : Prop := ∀ k, hasRecv prog k = false

theorem streamOK_of_noRecv {prog : Prog} (h : NoRecv prog) (σ : Nat → List (Nat × Nat)) (s : Sys) (hp : s.prog = prog) :
    StreamOK σ s := by
  intro w p x _ hr
  rw [hp, h x.fn] at hr; cases hr

theorem reach_prog (n : Nat) (prog : Prog) (req : Nat) (cs : List Choice) : (C04.reach n prog req cs).prog = prog :=
  run_prog Rules.current (Sys.init n prog req) cs

/-- **Kahn invariant**, reachable states: for a script table with a static register typing
(`RegTyping`: send/spawn/await/receive scripts, every select ONE process source or ONE receive —
plain, typed or filter) every process's history `acc` is THE trace of its script at its position,
and a finished process's result is the value of its complete trace — for every worker count,
slicing, interleaving and ordering hint, in every run whose arrival histories follow the streams
`σ` (`StreamOK`: what was appended to the mailbox of a receiving process is a prefix of `σ` of its
script; vacuous for tables without receives, `streamOK_of_noRecv`). -/
theorem kahn_invariant (ρ : Nat → Nat → Nat) (ar : Nat → Nat) (σ : Nat → List (Nat × Nat)) (n : Nat) (prog : Prog) (req : Nat)
    (hn : 0 < n) (hwf : ProgWF prog) (hty : RegTyping prog ρ ar) (cs : List Choice)
    (hsd : StreamOK σ (C04.reach n prog req cs)) :
    PreStart (C04.reach n prog req cs) ∨ KInv ρ ar σ (C04.reach n prog req cs) :=
  QM.Sys.kahn_invariant ρ ar σ n prog req hn hwf hty cs hsd

/-- every process's history is the Kahn trace of its script (started states) -/
theorem history_is_trace (ρ : Nat → Nat → Nat) (ar : Nat → Nat) (σ : Nat → List (Nat × Nat)) (n : Nat) (prog : Prog) (req : Nat)
    (hn : 0 < n) (hwf : ProgWF prog) (hty : RegTyping prog ρ ar) (cs : List Choice)
    (hsd : StreamOK σ (C04.reach n prog req cs)) (hs : ¬ PreStart (C04.reach n prog req cs))
    (w : Wid) (p : Pid) (x : Proc) (hx : ((C04.reach n prog req cs).wk w).procs p = some x) :
    (∃ rem, Trace prog ρ σ x.fn x.pc x.acc rem) ∧
    (∀ r, x.result = some r → r = .ok x.value ∧ x.pc = (prog.getD x.fn []).length) := by
  rcases kahn_invariant ρ ar σ n prog req hn hwf hty cs hsd with h | h
  · exact absurd h hs
  · have hp := h.procs w p x hx
    have hpr := reach_prog n prog req cs
    obtain ⟨rem, htr, _⟩ := hp.trace
    refine ⟨⟨rem, by rwa [hpr] at htr⟩, ?_⟩
    intro r hr
    cases r with
    | err => exact absurd hr hp.noerr
    | ok v =>
      obtain ⟨h1, h2, _⟩ := hp.fin v hr
      rw [hpr] at h2
      exact ⟨by rw [h1], h2⟩

/-- **Determinacy of histories** across runs: two processes that run the same script — in two runs
with any worker counts, quanta, schedules — have prefix-related histories. -/
theorem confluence_histories_agree (ρ : Nat → Nat → Nat) (ar : Nat → Nat) (σ : Nat → List (Nat × Nat)) (prog : Prog)
    (hwf : ProgWF prog) (hty : RegTyping prog ρ ar) (n1 n2 req1 req2 : Nat) (cs1 cs2 : List Choice) (hn1 : 0 < n1) (hn2 : 0 < n2)
    (hsd1 : StreamOK σ (C04.reach n1 prog req1 cs1)) (hsd2 : StreamOK σ (C04.reach n2 prog req2 cs2))
    (hs1 : ¬ PreStart (C04.reach n1 prog req1 cs1)) (hs2 : ¬ PreStart (C04.reach n2 prog req2 cs2))
    (w1 w2 : Wid) (p1 p2 : Pid) (x1 x2 : Proc)
    (hx1 : ((C04.reach n1 prog req1 cs1).wk w1).procs p1 = some x1)
    (hx2 : ((C04.reach n2 prog req2 cs2).wk w2).procs p2 = some x2)
    (hfn : x1.fn = x2.fn) (hle : x1.pc ≤ x2.pc) : x1.acc <+: x2.acc := by
  obtain ⟨r1, t1⟩ := (history_is_trace ρ ar σ n1 prog req1 hn1 hwf hty cs1 hsd1 hs1 w1 p1 x1 hx1).1
  obtain ⟨r2, t2⟩ := (history_is_trace ρ ar σ n2 prog req2 hn2 hwf hty cs2 hsd2 hs2 w2 p2 x2 hx2).1
  rw [hfn] at t1
  exact t2.prefix t1 hle

/-- **Determinacy of results** (the safety half of confluence): whenever two runs both have a
result for a script, it is the same result — any worker counts, any quanta, any interleavings, any
ordering hints; send/spawn/await/receive tables, arrival histories following `σ`. -/
theorem confluence_results_agree (ρ : Nat → Nat → Nat) (ar : Nat → Nat) (σ : Nat → List (Nat × Nat)) (prog : Prog)
    (hwf : ProgWF prog) (hty : RegTyping prog ρ ar) (n1 n2 req1 req2 : Nat) (cs1 cs2 : List Choice) (hn1 : 0 < n1) (hn2 : 0 < n2)
    (hsd1 : StreamOK σ (C04.reach n1 prog req1 cs1)) (hsd2 : StreamOK σ (C04.reach n2 prog req2 cs2))
    (hs1 : ¬ PreStart (C04.reach n1 prog req1 cs1)) (hs2 : ¬ PreStart (C04.reach n2 prog req2 cs2))
    (k : Nat) (r1 r2 : Res)
    (h1 : resultOfScript (C04.reach n1 prog req1 cs1) k r1) (h2 : resultOfScript (C04.reach n2 prog req2 cs2) k r2) :
    r1 = r2 := by
  obtain ⟨w1, p1, x1, hx1, hf1, hr1⟩ := h1
  obtain ⟨w2, p2, x2, hx2, hf2, hr2⟩ := h2
  obtain ⟨⟨m1, t1⟩, f1⟩ := history_is_trace ρ ar σ n1 prog req1 hn1 hwf hty cs1 hsd1 hs1 w1 p1 x1 hx1
  obtain ⟨⟨m2, t2⟩, f2⟩ := history_is_trace ρ ar σ n2 prog req2 hn2 hwf hty cs2 hsd2 hs2 w2 p2 x2 hx2
  obtain ⟨e1, l1⟩ := f1 r1 hr1
  obtain ⟨e2, l2⟩ := f2 r2 hr2
  rw [hf1, l1] at t1
  rw [hf2, l2] at t2
  rw [hf1] at t1; rw [hf2] at t2
  have := (t1.det t2).1
  rw [e1, e2]; simp [Proc.value, hf1, hf2, this]

/-- the await/spawn/send fragment (no receive): determinacy of results without any hypothesis on
the runs -/
theorem confluence_results_agree_noRecv (ρ : Nat → Nat → Nat) (ar : Nat → Nat) (prog : Prog)
    (hwf : ProgWF prog) (hty : RegTyping prog ρ ar) (hnr : NoRecv prog)
    (n1 n2 req1 req2 : Nat) (cs1 cs2 : List Choice) (hn1 : 0 < n1) (hn2 : 0 < n2)
    (hs1 : ¬ PreStart (C04.reach n1 prog req1 cs1)) (hs2 : ¬ PreStart (C04.reach n2 prog req2 cs2))
    (k : Nat) (r1 r2 : Res)
    (h1 : resultOfScript (C04.reach n1 prog req1 cs1) k r1) (h2 : resultOfScript (C04.reach n2 prog req2 cs2) k r2) :
    r1 = r2 :=
  confluence_results_agree ρ ar (fun _ => []) prog hwf hty n1 n2 req1 req2 cs1 cs2 hn1 hn2
    (streamOK_of_noRecv hnr _ _ (reach_prog _ _ _ _)) (streamOK_of_noRecv hnr _ _ (reach_prog _ _ _ _)) hs1 hs2 k r1 r2 h1 h2

/-- the progress half, as a statement about one script table: an idle run has a result for every
script any other run has a result for -/
def ProgressStatement (prog : Prog) : Prop :=
  ∀ (n1 n2 req1 req2 : Nat) (cs1 cs2 : List Choice), 0 < n1 → 0 < n2 →
    (C04.reach n2 prog req2 cs2).idle →
    ∀ k r, resultOfScript (C04.reach n1 prog req1 cs1) k r → ∃ r', resultOfScript (C04.reach n2 prog req2 cs2) k r'

/-- the arrival half, as a statement about one script table and its streams: in every run the
arrival history of every receiving process is a prefix of the stream of its script (for the
confluent class — one sender per mailbox — the stream is the sender's static send sequence;
`mailbox_sequence_determined` is the proved part) -/
def StreamStatement (prog : Prog) (σ : Nat → List (Nat × Nat)) : Prop :=
  ∀ (n req : Nat) (cs : List Choice), 0 < n → StreamOK σ (C04.reach n prog req cs)

/-- towards `StreamStatement` (proved): a pid has one script, and scripts persist along every
micro-step — so "no script is run by two pids" (`Uniq`) on the final state of a run holds in all its
earlier states (`Uniq.back`); what a time slice adds to the static send sequences is exactly its
final send (`slice_sends`).  See notes/C03.md for the remaining steps. -/
theorem pid_has_one_script (n : Nat) (prog : Prog) (req : Nat) (hn : 0 < n) (hwf : ProgWF prog) (cs : List Choice)
    (q : Pid) (f f' : Nat) (h : Sid (C04.reach n prog req cs) q f) (h' : Sid (C04.reach n prog req cs) q f') : f = f' := by
  rcases C04.sched_invariant n prog req hn hwf cs with hp | hs
  · -- start-up: only process 0 (script 0), no SpawnProcess command
    have hcmd : ∀ w regs g, Cmd.spawn q g regs ∉ (C04.reach n prog req cs).cmdQ w := by
      intro w regs g hm
      have := (hp.inert w) _ hm
      simp [cmdCreate] at this
    have hproc : ∀ g, Sid (C04.reach n prog req cs) q g → g = 0 := by
      rintro g (⟨w, y, hy, hg⟩ | ⟨w, regs, hm⟩)
      · rw [hp.wk] at hy
        by_cases e : w = 0
        · subst e
          simp only [upd_same, W0init, WorkerSt.setProc, WorkerSt.empty, upd_apply] at hy
          split at hy
          · simp only [Option.some.injEq] at hy; subst hy; exact hg.symm
          · cases hy
        · simp [e, WorkerSt.empty] at hy
      · exact absurd hm (hcmd w regs g)
    rw [hproc f h, hproc f' h']
  · exact h.functional hs h'

/-- **Confluence up to progress and arrival order**: the conclusion of `ConfluenceStatement` for
every send/spawn/await/receive script table with a register typing, from `ProgressStatement` (a
liveness property of the await protocol, cf. `C04.AwaitAnswerCompleteStatement`; it does not mention
results) and `StreamStatement` (arrival order; it does not mention results either). -/
theorem confluence_partial_kahn (ρ : Nat → Nat → Nat) (ar : Nat → Nat) (σ : Nat → List (Nat × Nat)) (prog : Prog)
    (hwf : ProgWF prog) (hty : RegTyping prog ρ ar) (hprogress : ProgressStatement prog) (hstream : StreamStatement prog σ)
    (n1 n2 req1 req2 : Nat) (cs1 cs2 : List Choice) (hn1 : 0 < n1) (hn2 : 0 < n2)
    (hi1 : (C04.reach n1 prog req1 cs1).idle) (hi2 : (C04.reach n2 prog req2 cs2).idle)
    (k : Nat) (r : Res) (h1 : resultOfScript (C04.reach n1 prog req1 cs1) k r) :
    resultOfScript (C04.reach n2 prog req2 cs2) k r := by
  obtain ⟨r', h2⟩ := hprogress n1 n2 req1 req2 cs1 cs2 hn1 hn2 hi2 k r h1
  have := confluence_results_agree ρ ar σ prog hwf hty n1 n2 req1 req2 cs1 cs2 hn1 hn2
    (hstream n1 req1 cs1 hn1) (hstream n2 req2 cs2 hn2)
    (not_preStart_of_idle hi1) (not_preStart_of_idle hi2) k r r' h1 h2
  rw [this]; exact h2

/-- **Determinacy for the confluent class, arrival order included** (no hypothesis about arrivals):
script table with a register typing in which every mailbox has ONE sender script
(`SingleSenderTable`), two runs — any worker counts, quanta, schedules, hints — in whose final
states no script is run by two pids (`Uniq`; it then holds throughout both runs): whenever both
runs have a result for a script it is the same result.  The arrival histories are PROVED to follow
the static streams `streamOf prog ρ snd` (`QM.Sys.kahn_invariant_unique`: the sender's sends are
its script's sends up to its position — `M1` —, arrivals are a prefix of them —
`C04.delivery_conservation` —, and selective receive over a stream is a function of it). -/
theorem confluence_results_agree_confluent (ρ : Nat → Nat → Nat) (ar : Nat → Nat) (snd : Nat → Nat) (prog : Prog)
    (hwf : ProgWF prog) (hty : RegTyping prog ρ ar) (htab : SingleSenderTable prog ρ ar snd)
    (n1 n2 req1 req2 : Nat) (cs1 cs2 : List Choice) (hn1 : 0 < n1) (hn2 : 0 < n2)
    (hu1 : Uniq (C04.reach n1 prog req1 cs1)) (hu2 : Uniq (C04.reach n2 prog req2 cs2))
    (hs1 : ¬ PreStart (C04.reach n1 prog req1 cs1)) (hs2 : ¬ PreStart (C04.reach n2 prog req2 cs2))
    (k : Nat) (r1 r2 : Res)
    (h1 : resultOfScript (C04.reach n1 prog req1 cs1) k r1) (h2 : resultOfScript (C04.reach n2 prog req2 cs2) k r2) :
    r1 = r2 := by
  have a1 : StreamOK (streamOf prog ρ snd) (C04.reach n1 prog req1 cs1) := by
    rcases kahn_invariant_unique ρ ar snd n1 prog req1 hn1 hwf hty htab cs1 hu1 with h | h
    · exact absurd h hs1
    · exact h.2
  have a2 : StreamOK (streamOf prog ρ snd) (C04.reach n2 prog req2 cs2) := by
    rcases kahn_invariant_unique ρ ar snd n2 prog req2 hn2 hwf hty htab cs2 hu2 with h | h
    · exact absurd h hs2
    · exact h.2
  exact confluence_results_agree ρ ar (streamOf prog ρ snd) prog hwf hty n1 n2 req1 req2 cs1 cs2 hn1 hn2 a1 a2 hs1 hs2 k r1 r2 h1 h2

/-- the conclusion of `ConfluenceStatement` for the confluent class from `ProgressStatement` alone
(plus: no script run twice in either run) -/
theorem confluence_confluent_partial (ρ : Nat → Nat → Nat) (ar : Nat → Nat) (snd : Nat → Nat) (prog : Prog)
    (hwf : ProgWF prog) (hty : RegTyping prog ρ ar) (htab : SingleSenderTable prog ρ ar snd) (hprogress : ProgressStatement prog)
    (n1 n2 req1 req2 : Nat) (cs1 cs2 : List Choice) (hn1 : 0 < n1) (hn2 : 0 < n2)
    (hi1 : (C04.reach n1 prog req1 cs1).idle) (hi2 : (C04.reach n2 prog req2 cs2).idle)
    (hu1 : Uniq (C04.reach n1 prog req1 cs1)) (hu2 : Uniq (C04.reach n2 prog req2 cs2))
    (k : Nat) (r : Res) (h1 : resultOfScript (C04.reach n1 prog req1 cs1) k r) :
    resultOfScript (C04.reach n2 prog req2 cs2) k r := by
  obtain ⟨r', h2⟩ := hprogress n1 n2 req1 req2 cs1 cs2 hn1 hn2 hi2 k r h1
  have := confluence_results_agree_confluent ρ ar snd prog hwf hty htab n1 n2 req1 req2 cs1 cs2 hn1 hn2 hu1 hu2
    (not_preStart_of_idle hi1) (not_preStart_of_idle hi2) k r r' h1 h2
  rw [this]; exact h2

/-- **Determinacy of the confluent class from STATIC hypotheses only**: script table with a
register typing (`RegTyping`: every select one process source or one receive — plain, typed or
filter), one sender script per mailbox (`SingleSenderTable`), every script spawned at one place
(`SpawnOnce`).  Any two runs — any worker counts, any quanta, any interleavings, any visibility, any
ordering hints — agree on the result of every script both have a result for.  Nothing is assumed
about the runs. -/
theorem confluence_results_agree_static (ρ : Nat → Nat → Nat) (ar : Nat → Nat) (snd : Nat → Nat) (prog : Prog)
    (hwf : ProgWF prog) (hty : RegTyping prog ρ ar) (htab : SingleSenderTable prog ρ ar snd) (hso : SpawnOnce prog)
    (n1 n2 req1 req2 : Nat) (cs1 cs2 : List Choice) (hn1 : 0 < n1) (hn2 : 0 < n2)
    (hs1 : ¬ PreStart (C04.reach n1 prog req1 cs1)) (hs2 : ¬ PreStart (C04.reach n2 prog req2 cs2))
    (k : Nat) (r1 r2 : Res)
    (h1 : resultOfScript (C04.reach n1 prog req1 cs1) k r1) (h2 : resultOfScript (C04.reach n2 prog req2 cs2) k r2) :
    r1 = r2 := by
  have a1 : StreamOK (streamOf prog ρ snd) (C04.reach n1 prog req1 cs1) := by
    rcases kahn_invariant_static ρ ar snd n1 prog req1 hn1 hwf hty htab hso cs1 with h | h
    · exact absurd h hs1
    · exact h.2.1
  have a2 : StreamOK (streamOf prog ρ snd) (C04.reach n2 prog req2 cs2) := by
    rcases kahn_invariant_static ρ ar snd n2 prog req2 hn2 hwf hty htab hso cs2 with h | h
    · exact absurd h hs2
    · exact h.2.1
  exact confluence_results_agree ρ ar (streamOf prog ρ snd) prog hwf hty n1 n2 req1 req2 cs1 cs2 hn1 hn2 a1 a2 hs1 hs2 k r1 r2 h1 h2

/-- … and their histories are prefix-related at all times -/
theorem confluence_histories_agree_static (ρ : Nat → Nat → Nat) (ar : Nat → Nat) (snd : Nat → Nat) (prog : Prog)
    (hwf : ProgWF prog) (hty : RegTyping prog ρ ar) (htab : SingleSenderTable prog ρ ar snd) (hso : SpawnOnce prog)
    (n1 n2 req1 req2 : Nat) (cs1 cs2 : List Choice) (hn1 : 0 < n1) (hn2 : 0 < n2)
    (hs1 : ¬ PreStart (C04.reach n1 prog req1 cs1)) (hs2 : ¬ PreStart (C04.reach n2 prog req2 cs2))
    (w1 w2 : Wid) (p1 p2 : Pid) (x1 x2 : Proc)
    (hx1 : ((C04.reach n1 prog req1 cs1).wk w1).procs p1 = some x1)
    (hx2 : ((C04.reach n2 prog req2 cs2).wk w2).procs p2 = some x2)
    (hfn : x1.fn = x2.fn) (hle : x1.pc ≤ x2.pc) : x1.acc <+: x2.acc := by
  have a1 : StreamOK (streamOf prog ρ snd) (C04.reach n1 prog req1 cs1) := by
    rcases kahn_invariant_static ρ ar snd n1 prog req1 hn1 hwf hty htab hso cs1 with h | h
    · exact absurd h hs1
    · exact h.2.1
  have a2 : StreamOK (streamOf prog ρ snd) (C04.reach n2 prog req2 cs2) := by
    rcases kahn_invariant_static ρ ar snd n2 prog req2 hn2 hwf hty htab hso cs2 with h | h
    · exact absurd h hs2
    · exact h.2.1
  exact confluence_histories_agree ρ ar (streamOf prog ρ snd) prog hwf hty n1 n2 req1 req2 cs1 cs2 hn1 hn2 a1 a2 hs1 hs2
    w1 w2 p1 p2 x1 x2 hx1 hx2 hfn hle

/-- no script is ever run by two processes (static `SpawnOnce`) -/
theorem one_process_per_script (ρ : Nat → Nat → Nat) (ar : Nat → Nat) (snd : Nat → Nat) (prog : Prog)
    (hwf : ProgWF prog) (hty : RegTyping prog ρ ar) (htab : SingleSenderTable prog ρ ar snd) (hso : SpawnOnce prog)
    (n req : Nat) (cs : List Choice) (hn : 0 < n) (hs : ¬ PreStart (C04.reach n prog req cs))
    (w w' : Wid) (p p' : Pid) (x x' : Proc)
    (hx : ((C04.reach n prog req cs).wk w).procs p = some x) (hx' : ((C04.reach n prog req cs).wk w').procs p' = some x')
    (hf : x.fn = x'.fn) : p = p' := by
  rcases kahn_invariant_static ρ ar snd n prog req hn hwf hty htab hso cs with h | h
  · exact absurd h hs
  · exact h.2.2 p p' x.fn (Or.inl ⟨w, x, hx, rfl⟩) (Or.inl ⟨w', x', hx', hf.symm⟩)

/-- **Confluence of the confluent class up to progress**: the conclusion of `ConfluenceStatement`
from static hypotheses on the script table and `ProgressStatement` alone. -/
theorem confluence_static_partial (ρ : Nat → Nat → Nat) (ar : Nat → Nat) (snd : Nat → Nat) (prog : Prog)
    (hwf : ProgWF prog) (hty : RegTyping prog ρ ar) (htab : SingleSenderTable prog ρ ar snd) (hso : SpawnOnce prog)
    (hprogress : ProgressStatement prog)
    (n1 n2 req1 req2 : Nat) (cs1 cs2 : List Choice) (hn1 : 0 < n1) (hn2 : 0 < n2)
    (hi1 : (C04.reach n1 prog req1 cs1).idle) (hi2 : (C04.reach n2 prog req2 cs2).idle)
    (k : Nat) (r : Res) (h1 : resultOfScript (C04.reach n1 prog req1 cs1) k r) :
    resultOfScript (C04.reach n2 prog req2 cs2) k r := by
  obtain ⟨r', h2⟩ := hprogress n1 n2 req1 req2 cs1 cs2 hn1 hn2 hi2 k r h1
  have := confluence_results_agree_static ρ ar snd prog hwf hty htab hso n1 n2 req1 req2 cs1 cs2 hn1 hn2
    (not_preStart_of_idle hi1) (not_preStart_of_idle hi2) k r r' h1 h2
  rw [this]; exact h2

/-- the await/spawn/send fragment: from `ProgressStatement` alone -/
theorem confluence_await_spawn_partial (ρ : Nat → Nat → Nat) (ar : Nat → Nat) (prog : Prog) (hwf : ProgWF prog)
    (hty : RegTyping prog ρ ar) (hnr : NoRecv prog) (hprogress : ProgressStatement prog)
    (n1 n2 req1 req2 : Nat) (cs1 cs2 : List Choice) (hn1 : 0 < n1) (hn2 : 0 < n2)
    (hi1 : (C04.reach n1 prog req1 cs1).idle) (hi2 : (C04.reach n2 prog req2 cs2).idle)
    (k : Nat) (r : Res) (h1 : resultOfScript (C04.reach n1 prog req1 cs1) k r) :
    resultOfScript (C04.reach n2 prog req2 cs2) k r :=
  confluence_partial_kahn ρ ar (fun _ => []) prog hwf hty hprogress
    (fun n req cs _ => streamOK_of_noRecv hnr _ _ (reach_prog _ _ _ _)) n1 n2 req1 req2 cs1 cs2 hn1 hn2 hi1 hi2 k r h1

/-! ### the hypotheses are satisfiable -/

/-- main spawns A, spawns B handing it A, awaits B then A; A finishes at once; B awaits A -/
def kProg : Prog :=
  [[.spawn 1 [], .spawn 2 [1], .select [.proc 2], .select [.proc 1]], [], [.select [.proc 1]]]

def kRho : Nat → Nat → Nat
  | 0, r => r
  | 1, _ => 1
  | 2, 0 => 2
  | _, _ => 1

def kAr : Nat → Nat := fun k => if k = 2 then 1 else 0

theorem kProg_wf : ProgWF kProg := by
  refine ⟨by decide, ?_⟩
  intro sc hsc fn pass hm
  simp [kProg] at hsc
  rcases hsc with rfl | rfl | rfl <;> simp at hm <;> (rcases hm with ⟨rfl, _⟩ | ⟨rfl, _⟩) <;> decide

theorem kProg_typed : RegTyping kProg kRho kAr := by
  refine ⟨rfl, rfl, ?_⟩
  intro k j a h
  match k, j, h with
  | 0, 0, h => simp [kProg] at h; subst h; simp [ActTyped, base, nspawn, kRho, kAr, kProg]
  | 0, 1, h => simp [kProg] at h; subst h; simp [ActTyped, base, nspawn, isSpawnAct, kRho, kAr, kProg]
  | 0, 2, h => simp [kProg] at h; subst h; simp [ActTyped, base, nspawn, kAr, kProg]; decide
  | 0, 3, h => simp [kProg] at h; subst h; simp [ActTyped, base, nspawn, kAr, kProg]; decide
  | 0, j + 4, h => simp [kProg] at h
  | 1, j, h => simp [kProg] at h
  | 2, 0, h => simp [kProg] at h; subst h; simp [ActTyped, base, nspawn, kAr, kProg]
  | 2, j + 1, h => simp [kProg] at h
  | k + 3, j, h => simp [kProg] at h

theorem kProg_noRecv : NoRecv kProg := by
  intro k
  match k with
  | 0 => rfl
  | 1 => rfl
  | 2 => rfl
  | k + 3 => simp [hasRecv, kProg]

/-- a table with receives: main spawns R, sends it `(1,0)` then `(2,0)`, awaits it; R first takes the
message with tag 2 (a filter passing over the older one), then whatever is left -/
def rProg : Prog :=
  [[.spawn 1 [], .send 1 1 0, .send 1 2 0, .select [.proc 1]], [.select [.recv (.tag 2)], .select [.recv .any]]]

def rRho : Nat → Nat → Nat
  | 0, r => r
  | _, _ => 1

theorem rProg_typed : RegTyping rProg rRho (fun _ => 0) := by
  refine ⟨rfl, rfl, ?_⟩
  intro k j a h
  match k, j, h with
  | 0, 0, h => simp [rProg] at h; subst h; simp [ActTyped, base, nspawn, rRho, rProg]
  | 0, 1, h => simp [rProg] at h; subst h; simp [ActTyped]
  | 0, 2, h => simp [rProg] at h; subst h; simp [ActTyped]
  | 0, 3, h => simp [rProg] at h; subst h; simp [ActTyped, base, nspawn, rProg]; decide
  | 0, j + 4, h => simp [rProg] at h
  | 1, 0, h => simp [rProg] at h; subst h; simp [ActTyped]
  | 1, 1, h => simp [rProg] at h; subst h; simp [ActTyped]
  | 1, j + 2, h => simp [rProg] at h
  | k + 2, j, h => simp [rProg] at h

theorem rProg_singleSender : SingleSenderTable rProg rRho (fun _ => 0) (fun _ => 0) := by
  refine ⟨?_⟩
  intro k j r tag seq h
  match k, j, h with
  | 0, 0, h => simp [rProg] at h
  | 0, 1, h => simp [rProg] at h; obtain ⟨rfl, _, _⟩ := h; simp [base, nspawn, rProg]; decide
  | 0, 2, h => simp [rProg] at h; obtain ⟨rfl, _, _⟩ := h; simp [base, nspawn, rProg]; decide
  | 0, 3, h => simp [rProg] at h
  | 0, j + 4, h => simp [rProg] at h
  | 1, 0, h => simp [rProg] at h
  | 1, 1, h => simp [rProg] at h
  | 1, j + 2, h => simp [rProg] at h
  | k + 2, j, h => simp [rProg] at h

theorem rProg_spawnOnce : SpawnOnce rProg := by
  refine ⟨?_, ?_⟩
  · intro k j pass h
    match k, j, h with
    | 0, 0, h => simp [rProg] at h
    | 0, 1, h => simp [rProg] at h
    | 0, 2, h => simp [rProg] at h
    | 0, 3, h => simp [rProg] at h
    | 0, j + 4, h => simp [rProg] at h
    | 1, 0, h => simp [rProg] at h
    | 1, 1, h => simp [rProg] at h
    | 1, j + 2, h => simp [rProg] at h
    | k + 2, j, h => simp [rProg] at h
  · intro k j pass k' j' pass' f h h'
    have key : ∀ k j pass, (rProg.getD k [])[j]? = some (Act.spawn f pass) → k = 0 ∧ j = 0 := by
      intro k j pass h
      match k, j, h with
      | 0, 0, _ => exact ⟨rfl, rfl⟩
      | 0, 1, h => simp [rProg] at h
      | 0, 2, h => simp [rProg] at h
      | 0, 3, h => simp [rProg] at h
      | 0, j + 4, h => simp [rProg] at h
      | 1, 0, h => simp [rProg] at h
      | 1, 1, h => simp [rProg] at h
      | 1, j + 2, h => simp [rProg] at h
      | k + 2, j, h => simp [rProg] at h
    obtain ⟨a1, a2⟩ := key k j pass h
    obtain ⟨b1, b2⟩ := key k' j' pass' h'
    exact ⟨a1.trans b1.symm, a2.trans b2.symm⟩

/-- its static stream -/
example : streamOf rProg rRho (fun _ => 0) 1 = [(1, 0), (2, 0)] := by decide

/-- the trace of the receiver over the stream `[(1,0),(2,0)]`: first `(2,0)`, then `(1,0)` -/
example : Trace rProg rRho (fun k => if k = 1 then [(1, 0), (2, 0)] else []) 1 2 [keyVal (2, 0), keyVal (1, 0)] [] :=
  Trace.recv 1 1 [keyVal (2, 0)] [(1, 0)] .any (1, 0) []
    (Trace.recv 1 0 [] [(1, 0), (2, 0)] (.tag 2) (2, 0) [(1, 0)] (Trace.zero 1) rfl rfl) rfl rfl

end

/-- the hypotheses are met by a concrete two-worker run: after main's first slice on worker 0, one
environment step and one step of worker 1, process 1 (script 1) has finished ON WORKER 1 while
main is parked on worker 0 -/
example : ((C04.reach 2 kProg 1 [.worker 0 100 5 [] [], .env [100, 100], .worker 1 100 5 [] []]).wk 1).resultOf 1 =
    some (.ok (Val.tuple [[1]])) := by decide +kernel


end C03
