import QuiverModel.Lemmas.Exec.Error
import QuiverModel.Lemmas.Exec.SysBridge
import QuiverModel.Lemmas.Exec.FailChain
import QuiverModel.Lemmas.Exec.QueueOrder
/-
C15 — Failures are contained and propagate only to awaiters; workers never crash. Property theorems
only (`C15.<name>`); model: Core/Exec/Error.lean on top of Core/Exec/Select.lean; helper lemmas:
Lemmas/Exec/Error.lean.
-/
namespace C15
open QM QM.Exec
variable {V : Type}

/-! ## An error terminates only the process it occurs in -/

/-- The error arm of `Executor::step` (`raises e`): the failing process gets `result = Err e`; every
    OTHER process record keeps its result, mailbox, select state and `awaiting` map — the only field
    that can change is `awaiting_failed` (of a process whose current select awaits the failed one). -/
theorem error_terminates_only_self (ex : Exec V) (pid : Nat) (p' : Proc V) (e : ErrClass) :
    (∃ pf, (ex.endSlice pid p' (.raises e)).getProc pid = some pf ∧ pf.result = some (.err e)) ∧
    ∀ q pq, q ≠ pid → ex.getProc q = some pq →
      ∃ pq', (ex.endSlice pid p' (.raises e)).getProc q = some pq' ∧
        pq'.result = pq.result ∧ pq'.mailbox = pq.mailbox ∧ pq'.sel = pq.sel ∧ pq'.awaiting = pq.awaiting := by
  constructor
  · refine ⟨_, announce_getProc _ pid (.err e) pid _ (getProc_setProc_self ex pid _), ?_⟩
    simp only [Proc.notifiedIfKey]
    split
    · exact (notified_frame _ pid (.err e)).1
    · rfl
  · intro q pq hq hp
    have h1 : (ex.setProc pid { p' with result := some (.err e) }).getProc q = some pq := by
      rw [getProc_setProc_ne _ _ _ _ hq]; exact hp
    refine ⟨_, announce_getProc _ pid (.err e) q pq h1, ?_⟩
    simp only [Proc.notifiedIfKey]
    split
    · obtain ⟨a, b, c⟩ := notified_frame pq pid (.err e)
      exact ⟨a, b, c, notified_err_awaiting pq pid e⟩
    · exact ⟨rfl, rfl, rfl, rfl⟩

/-- A process that does not await the failed one is untouched: same record, same place in the run
    queue / parked set. -/
theorem non_awaiters_unaffected (ex : Exec V) (pid : Nat) (p' : Proc V) (e : ErrClass) (q : Nat) (pq : Proc V)
    (hq : q ≠ pid) (hp : ex.getProc q = some pq) (hno : amLookup pid pq.awaiting = none) :
    (ex.endSlice pid p' (.raises e)).getProc q = some pq ∧
    (q ∈ (ex.endSlice pid p' (.raises e)).queue ↔ q ∈ ex.queue) ∧
    (q ∈ (ex.endSlice pid p' (.raises e)).selecting ↔ q ∈ ex.selecting) := by
  have h1 : (ex.setProc pid { p' with result := some (.err e) }).getProc q = some pq := by
    rw [getProc_setProc_ne _ _ _ _ hq]; exact hp
  have hnk : ¬ (amLookup pid pq.awaiting).isSome = true := by simp [hno]
  refine ⟨?_, ?_⟩
  · have := announce_getProc _ pid (.err e) q pq h1
    simp only [Proc.notifiedIfKey, hnk] at this
    exact this
  · have hnot : q ∉ (ex.setProc pid { p' with result := some (.err e) }).awaitersOf pid := by
      intro h; exact hnk ((mem_awaitersOf _ pid q pq h1).mp h)
    exact notifyAll_sets pid (.err e) _ _ q hnot

/-- The same holds for a process that DID await the failed one in an earlier select that has
    completed, and for one that has itself finished or failed: `still_awaiting` is false, the
    failure is ignored (fix bc74ad3; before, such a process was killed / its result overwritten). -/
theorem stale_awaiters_unaffected (ex : Exec V) (pid : Nat) (p' : Proc V) (e : ErrClass) (q : Nat) (pq : Proc V)
    (hq : q ≠ pid) (hp : ex.getProc q = some pq) (hstale : pq.stillAwaiting pid = false) :
    (ex.endSlice pid p' (.raises e)).getProc q = some pq := by
  have h1 : (ex.setProc pid { p' with result := some (.err e) }).getProc q = some pq := by
    rw [getProc_setProc_ne _ _ _ _ hq]; exact hp
  have := announce_getProc _ pid (.err e) q pq h1
  show ((ex.setProc pid { p' with result := some (.err e) }).announce pid (.err e)).getProc q = some pq
  rw [this]
  simp only [Proc.notifiedIfKey, Proc.notified, hstale]
  split <;> simp

/-! ## Every awaiter fails with the same error -/

/-- Awaiting BEFORE the failure (same worker): a process whose current select awaits the failing
    process gets the failure recorded as a ready source of that select — with the same error — and,
    if it was parked, is put back on the run queue. -/
theorem awaiters_fail_same_error_before (ex : Exec V) (pid : Nat) (p' : Proc V) (e : ErrClass) (q : Nat)
    (pq : Proc V) (hq : q ≠ pid) (hp : ex.getProc q = some pq) (haw : pq.stillAwaiting pid = true) :
    ∃ pq', (ex.endSlice pid p' (.raises e)).getProc q = some pq' ∧
      pq'.knownResults pid = some (.err e) ∧ pq'.result = pq.result ∧ pq'.sel = pq.sel ∧
      pq'.mailbox = pq.mailbox := by
  have h1 : (ex.setProc pid { p' with result := some (.err e) }).getProc q = some pq := by
    rw [getProc_setProc_ne _ _ _ _ hq]; exact hp
  have hk : (amLookup pid pq.awaiting).isSome = true := by
    simp only [Proc.stillAwaiting, Bool.and_eq_true] at haw; exact haw.2
  refine ⟨_, announce_getProc _ pid (.err e) q pq h1, ?_⟩
  simp only [Proc.notifiedIfKey, hk, if_true, Proc.notified, haw]
  exact ⟨by simp [Proc.knownResults, Proc.recordFailure, amLookup_insert_self], rfl, rfl, rfl⟩

/-- The error a select raises is the recorded error of one of its own awaited processes (or that of
    an invalid source): what travels along a chain of awaiters is the SAME error. -/
theorem select_error_is_awaited_error (mb : List V) (results : Nat → Option (Res V)) (start now : Nat) :
    ∀ (srcs : List (Source V)) (e : ErrClass), selectSpec mb results start now srcs = .fails e →
      (∃ t, Source.await t ∈ srcs ∧ results t = some (.err e)) ∨ Source.invalid e ∈ srcs := by
  intro srcs
  induction srcs with
  | nil => intro e h; simp [selectSpec] at h
  | cons s rest ih =>
    intro e h
    cases s with
    | await t =>
      simp only [selectSpec] at h
      cases hr : results t with
      | none =>
        rw [hr] at h
        rcases ih e h with ⟨t', h1, h2⟩ | h1
        · exact Or.inl ⟨t', List.mem_cons_of_mem _ h1, h2⟩
        · exact Or.inr (List.mem_cons_of_mem _ h1)
      | some r =>
        rw [hr] at h
        cases r with
        | ok v => simp at h
        | err e' =>
          simp only [SpecOutcome.fails.injEq] at h
          subst h
          exact Or.inl ⟨t, List.mem_cons_self, hr⟩
    | timeout ms =>
      simp only [selectSpec] at h
      split at h
      · simp at h
      · rcases ih e h with ⟨t', h1, h2⟩ | h1
        · exact Or.inl ⟨t', List.mem_cons_of_mem _ h1, h2⟩
        · exact Or.inr (List.mem_cons_of_mem _ h1)
    | invalid e' =>
      simp only [selectSpec, SpecOutcome.fails.injEq] at h
      subst h
      exact Or.inr List.mem_cons_self
    | receive ty f =>
      simp only [selectSpec] at h
      cases hf : firstIdx (accepts ty f) mb with
      | none =>
        rw [hf] at h
        rcases ih e h with ⟨t', h1, h2⟩ | h1
        · exact Or.inl ⟨t', List.mem_cons_of_mem _ h1, h2⟩
        · exact Or.inr (List.mem_cons_of_mem _ h1)
      | some j =>
        rw [hf] at h
        simp only [] at h
        cases hg : mb[j]? with
        | none => rw [hg] at h; simp at h
        | some m => rw [hg] at h; simp at h

/-- … and the awaiter's select does propagate it: a select that awaits only the failed process
    (`!p`, the common form) fails with exactly that error at its next execution. -/
theorem single_await_propagates (p : Proc V) (st : SelState V) (now : Nat) (srcs : List (Source V)) (top : Yield V)
    (t : Nat) (e : ErrClass) (hsel : p.sel = some st) (hsrc : st.sources = [.await t])
    (hrecv : st.receiving = none) (hf : amLookup t p.awaitingFailed = some e) :
    (stepSelect p now srcs top).2 = .failed e ∧ (stepSelect p now srcs top).1.result = some (.err e) := by
  simp [stepSelect, handleSelect, hsel, reenterSelect, hsrc, hrecv, scanSources, hf]

/-- Awaiting AFTER the failure: the target has already failed when the await query of a (single
    target) select reaches its worker. `query_and_await` answers "not completed" (a failed process is
    not `Completed`) and registers the awaiter; the `check_completed_processes` that ends the same
    worker step then reports the error — the same `e` — to that awaiter. -/
theorem awaiters_fail_same_error_after (w : Worker V) (a t : Nat) (pt : Proc V) (e : ErrClass)
    (hv : w.variant.selectWaitsForAnswer = false)
    (hp : w.ex.getProc t = some pt) (hr : pt.result = some (.err e)) :
    (w.queryAndAwait a [t]).2.results = [(t, none)] ∧
    ∃ ev ∈ (w.queryAndAwait a [t]).1.checkCompleted.2, ev.awaiter = a ∧ ev.results = [(t, some (.err e))] := by
  obtain ⟨h1, h2, h3, l, h4, h5⟩ := queryOne_failed w a t pt e hv hp hr
  have hq : w.queryAndAwait a [t] = ((w.queryOne a t).1, { awaiter := a, results := [(w.queryOne a t).2] }) := by
    simp [Worker.queryAndAwait, Worker.queryAll]
  rw [hq]
  refine ⟨by simp [h1], ?_⟩
  unfold Worker.checkCompleted
  exact checkAll_reports t a (.err e) _ _ l pt h3 (by rw [h2]; exact hp) hr h4 h5

/-- Variant `selectWaitsForAnswer` (notes/C05-fixes/01): the error of an already failed target is IN the
    first answer — no placeholder, no registration, no second message, hence no window in which the
    awaiter's select could complete through a later source (finding C05-F2, failed target). -/
theorem awaiters_fail_same_error_after_waits (w : Worker V) (a t : Nat) (pt : Proc V) (e : ErrClass)
    (hv : w.variant.selectWaitsForAnswer = true)
    (hp : w.ex.getProc t = some pt) (hr : pt.result = some (.err e)) (hst : w.ex.status t pt = .failed) :
    w.queryAndAwait a [t] = (w, { awaiter := a, results := [(t, some (.err e))] }) := by
  simp [Worker.queryAndAwait, Worker.queryAll, queryOne_failed_waits w a t pt e hv hp hr hst]

/-- … and when that report reaches the awaiter's worker (`update_await_results` → `notify_result`
    `Err` arm → `notify_failure`), the failure is recorded for the awaiter's select with the same
    error, provided it still awaits the target; nothing else about the awaiter changes. -/
theorem late_report_is_recorded (w : Worker V) (a t : Nat) (pa : Proc V) (e : ErrClass)
    (hp : w.ex.getProc a = some pa) (haw : pa.stillAwaiting t = true) :
    ∃ w' pa', w.updateAwaitResults a [(t, some (.err e))] = .ok w' ∧ w'.ex.getProc a = some pa' ∧
      pa'.knownResults t = some (.err e) ∧ pa'.result = pa.result ∧ pa'.mailbox = pa.mailbox ∧ pa'.sel = pa.sel := by
  refine ⟨{ w with ex := (w.ex.notifyFailure a t e).wake a }, pa.recordFailure t e, ?_, ?_, ?_, rfl, rfl, rfl⟩
  · simp [Worker.updateAwaitResults, Worker.notifyResults, Worker.notifyResult]
  · simp only [Exec.notifyFailure, hp, haw, if_true, getProc_wake, getProc_setProc_self]
  · simp [Proc.knownResults, Proc.recordFailure, amLookup_insert_self]

/-- Any await answer — with results, without, or with results the awaiter no longer cares about —
    leaves no parked select behind (fix 755cedc: before, an answer whose only entry was a stale
    failure was ignored AND did not wake: the select never started, its timeout never ran). -/
theorem await_answer_always_wakes (w w' : Worker V) (a : Nat) (results : AMap (Option (WireRes V)))
    (h : w.updateAwaitResults a results = .ok w') : a ∉ w'.ex.selecting := by
  unfold Worker.updateAwaitResults at h
  cases hn : w.notifyResults a results false with
  | error e => rw [hn] at h; cases h
  | ok x =>
    obtain ⟨w1, any⟩ := x
    rw [hn] at h
    simp only [Except.ok.injEq] at h
    subst h
    simp only []
    unfold Exec.wake
    split
    · simp [List.mem_filter]
    · assumption

/-! ## Effect failures -/

/-- A failed effect (`EffectCompletion { result: Err(..) }`: backend error, ownership violation)
    fails the requesting process only, and re-queues it so that its failure is announced. -/
theorem effect_error_fails_only_requester (ex ex' : Exec V) (pid : Nat)
    (h : ex.notifyEffectCompletion pid none = some ex') :
    (∃ p', ex'.getProc pid = some p' ∧ p'.result = some (.err .invalidArgument)) ∧
    (∀ q, q ≠ pid → ex'.getProc q = ex.getProc q) ∧
    (pid ∈ ex.effecting → pid ∈ ex'.queue) := by
  unfold Exec.notifyEffectCompletion at h
  simp only [] at h
  cases hp : ({ ex with effecting := ex.effecting.filter (· != pid) } : Exec V).getProc pid with
  | none => rw [hp] at h; cases h
  | some p =>
    rw [hp] at h
    simp only [Option.some.injEq] at h
    subst h
    refine ⟨?_, ?_, ?_⟩
    · split
      · exact ⟨_, getProc_setProc_self _ pid _, rfl⟩
      · exact ⟨_, getProc_setProc_self _ pid _, rfl⟩
    · intro q hq
      split <;> exact getProc_setProc_ne _ pid q _ hq
    · intro hin
      simp [hin, Exec.setProc]

/-! ## A worker step is total -/

/-- What the routing invariants of the environment guarantee about a command (and nothing more is
    needed): values on the wire are well formed, functions exist, effect completions and resumes
    address an existing (resp. sleeping) process of THIS worker. -/
def CmdOK (w : Worker V) : Cmd V → Prop
  | .spawn _ fnOk => fnOk = true
  | .deliver _ m => m.wf = true
  | .updateAwaitResults _ results => ∀ k wire, (k, some (WireRes.ok wire)) ∈ results → wire.wf = true
  | .queryAndAwait _ _ => True
  | .effectCompletion pid r => (w.ex.getProc pid).isSome = true ∧ ∀ wire, r = some wire → wire.wf = true
  | .notifySpawn _ => True
  -- since /repo 6b45f34 a FAILED process may be addressed as well (it is left alone)
  | .resume pid fnOk => fnOk = true ∧ ∃ p r, w.ex.getProc pid = some p ∧ p.result = some r

theorem notifyResults_total (awaiter : Nat) : ∀ (results : AMap (Option (WireRes V))) (w : Worker V) (any : Bool),
    (∀ k wire, (k, some (WireRes.ok wire)) ∈ results → wire.wf = true) →
    ∃ w' any', w.notifyResults awaiter results any = .ok (w', any') := by
  intro results
  induction results with
  | nil => intro w any _; exact ⟨w, any, rfl⟩
  | cons x rest ih =>
    intro w any h
    obtain ⟨k, r⟩ := x
    have hrest : ∀ k wire, (k, some (WireRes.ok wire)) ∈ rest → wire.wf = true :=
      fun k wire hm => h k wire (List.mem_cons_of_mem _ hm)
    cases r with
    | none => simp only [Worker.notifyResults]; exact ih w any hrest
    | some r =>
      cases r with
      | err e => simp only [Worker.notifyResults, Worker.notifyResult]; exact ih _ true hrest
      | ok wire =>
        have hwf : wire.wf = true := h k wire List.mem_cons_self
        simp only [Worker.notifyResults, Worker.notifyResult]
        cases hp : w.ex.getProc awaiter with
        | none => simp only []; exact ih _ true hrest
        | some p =>
          have hn : ¬ (p.stillAwaiting k = true ∧ wire.wf = false) := by simp [hwf]
          simp only []
          rw [if_neg hn]
          exact ih _ true hrest

/-- `handle_command` returns no internal error for a command that satisfies `CmdOK`. -/
theorem handle_command_total (w : Worker V) (c : Cmd V) (h : CmdOK w c) :
    ∃ w' evs, w.handleCommand c = .ok (w', evs) := by
  cases c with
  | spawn pid fnOk => simp only [CmdOK] at h; simp [Worker.handleCommand, h]
  | deliver t m =>
    simp only [CmdOK] at h
    simp only [Worker.handleCommand, h, if_true]
    generalize (w.variant.releaseDead &&
        !(match w.ex.getProc t with
          | some p => p.deliverable (decide (t ∈ w.persistent))
          | none => false)) = c
    cases c <;> simp
  | updateAwaitResults a results =>
    simp only [CmdOK] at h
    obtain ⟨w', any', hr⟩ := notifyResults_total a results w false h
    simp only [Worker.handleCommand, Worker.updateAwaitResults, hr]
    exact ⟨_, _, rfl⟩
  | queryAndAwait a ts => simp [Worker.handleCommand]
  | effectCompletion pid r =>
    simp only [CmdOK] at h
    obtain ⟨h1, h2⟩ := h
    have hex : ∀ x, ∃ ex', w.ex.notifyEffectCompletion pid x = some ex' := by
      intro x
      unfold Exec.notifyEffectCompletion
      simp only []
      have : ({ w.ex with effecting := w.ex.effecting.filter (· != pid) } : Exec V).getProc pid = w.ex.getProc pid := rfl
      rw [this]
      cases hp : w.ex.getProc pid with
      | none => rw [hp] at h1; simp at h1
      | some p => exact ⟨_, rfl⟩
    cases r with
    | none =>
      obtain ⟨ex', he⟩ := hex none
      simp [Worker.handleCommand, he]
    | some wire =>
      obtain ⟨ex', he⟩ := hex (some wire.val)
      simp [Worker.handleCommand, h2 wire rfl, he]
  | notifySpawn pid =>
    simp only [Worker.handleCommand]
    cases w.ex.getProc pid <;> simp
  | resume pid fnOk =>
    simp only [CmdOK] at h
    obtain ⟨h1, p, r, h2, h3⟩ := h
    cases r <;> simp [Worker.handleCommand, h1, h2, h3]

/-- /repo 6b45f34 (finding C15-F2): resuming a FAILED persistent process — what `Repl::evaluate` does for the
    line after a runtime error — is not an internal error of the worker: nothing changes, nothing is sent
    (the result request that follows reports the process's error). Before, `Err(ProcessFailed)` left
    `Worker::step` and the worker stopped. -/
theorem resume_of_failed_process_is_no_op (w : Worker V) (pid : Nat) (p : Proc V) (e : ErrClass)
    (hp : w.ex.getProc pid = some p) (hr : p.result = some (.err e)) :
    w.handleCommand (.resume pid true) = .ok (w, []) := by
  simp [Worker.handleCommand, hp, hr]

/-- Variant `releaseDead` (notes/C06-fixes/01): a message for a process that has FAILED (or is unknown here, or has
    finished and is not persistent) is dropped: no mailbox grows, no heap data is looked at (so not even a
    malformed wire value is an error), only the wake-up of `notify_message` stays. -/
theorem message_to_dead_process_is_dropped (w : Worker V) (t : Nat) (m : Wire V) (p : Proc V) (e : ErrClass)
    (hv : w.variant.releaseDead = true) (hp : w.ex.getProc t = some p) (hr : p.result = some (.err e)) :
    w.handleCommand (.deliver t m) = .ok ({ w with ex := w.ex.wake t }, []) := by
  simp [Worker.handleCommand, hv, hp, Proc.deliverable, hr]

/-- … and without the repair (the flag off) the dead process's mailbox still grows. -/
theorem message_to_dead_process_is_stored_without_repair (w : Worker V) (t : Nat) (m : Wire V)
    (hv : w.variant.releaseDead = false) (hwf : m.wf = true) :
    w.handleCommand (.deliver t m) = .ok ({ w with ex := w.ex.notifyMessage t m.val }, []) := by
  simp [Worker.handleCommand, hv, hwf]

/-- Variant `releaseDead`: the release runs with EVERY pass through the finished block — also the instruction-less
    pass of a process failed from outside (effect error) that is popped with no frames left (`ranFinished`): the
    non-persistent process at the front of the queue is released. -/
theorem release_after_finished_pass (w1 : Worker V) (now : Nat) (ex' : Exec V) (pid : Nat) (rest : List Nat)
    (hv : w1.variant.releaseDead = true) (hq : (w1.ex.checkExpiredTimeouts now).queue = pid :: rest)
    (hp : pid ∉ w1.persistent) :
    w1.releaseAfterStep now .ranFinished ex' = ex'.releaseDead pid := by
  simp [Worker.releaseAfterStep, hv, Slice.endsProcess, hq, hp]

/-- … a persistent process (the REPL process) keeps its mailbox and await state, and without the repair nothing is
    released at all. -/
theorem no_release_for_persistent_or_without_repair (w1 : Worker V) (now : Nat) (slice : Slice V) (ex' : Exec V) :
    (w1.variant.releaseDead = false → w1.releaseAfterStep now slice ex' = ex') ∧
    (∀ pid rest, (w1.ex.checkExpiredTimeouts now).queue = pid :: rest → pid ∈ w1.persistent →
      w1.releaseAfterStep now slice ex' = ex') := by
  refine ⟨fun hv => by simp [Worker.releaseAfterStep, hv], fun pid rest hq hp => ?_⟩
  unfold Worker.releaseAfterStep
  split
  · simp [hq, hp]
  · rfl

/-- commands are `CmdOK` in the state in which each of them is handled -/
def CmdsOK : Worker V → List (Cmd V) → Prop
  | _, [] => True
  | w, c :: rest => CmdOK w c ∧ ∀ w' evs, w.handleCommand c = .ok (w', evs) → CmdsOK w' rest

theorem handle_commands_total : ∀ (cmds : List (Cmd V)) (w : Worker V), CmdsOK w cmds →
    ∃ w' evs, w.handleCommands cmds = .ok (w', evs) := by
  intro cmds
  induction cmds with
  | nil => intro w _; exact ⟨w, [], rfl⟩
  | cons c rest ih =>
    intro w h
    obtain ⟨h1, h2⟩ := h
    obtain ⟨w1, evs, hc⟩ := handle_command_total w c h1
    obtain ⟨w2, evs', hr⟩ := ih w1 (h2 w1 evs hc)
    exact ⟨w2, evs ++ evs', by simp [Worker.handleCommands, hc, hr]⟩

/-- On the model, `Worker::step` never returns an internal error (which would end the worker loop and
    silently hang every process on it) as long as the commands it consumes respect `CmdOK` — whatever
    the processes do: every way a slice can end (`SliceEnd`, including a raised error and an empty
    stack) is handled without an error, and the select machine inside it has no `panic` outcome
    (`C05.select_outcomes`). -/
theorem worker_step_total (w : Worker V) (now : Nat) (cmds : List (Cmd V)) (slice : Slice V)
    (h : CmdsOK w cmds) : ∃ w' evs, w.step now cmds slice = .ok (w', evs) := by
  obtain ⟨w1, evs, hc⟩ := handle_commands_total cmds w h
  simp only [Worker.step, hc]
  exact ⟨_, _, rfl⟩

/-- Conversely, the internal errors of the model are exactly the violations of `CmdOK`: e.g. an
    effect completion for a process this worker does not have. -/
theorem effect_completion_for_unknown_process_is_an_internal_error (w : Worker V) (pid : Nat)
    (h : w.ex.getProc pid = none) : w.handleCommand (.effectCompletion pid none) = .error .executor := by
  have : w.ex.notifyEffectCompletion pid none = none := by
    unfold Exec.notifyEffectCompletion
    simp only []
    have : ({ w.ex with effecting := w.ex.effecting.filter (· != pid) } : Exec V).getProc pid = w.ex.getProc pid := rfl
    rw [this, h]
  simp [Worker.handleCommand, this]


/-! ## Examples: a concrete executor -/

/-- pid 0 = F (running), 1 = A parked in `!F`, 2 = B parked on a receive (a bystander), 3 = C parked
    in `! [F, 50]`-like select whose await entry is there as well (a second awaiter) -/
def exExec : Exec Nat :=
  { procs := [(0, {}),
              (1, { awaiting := [(0, none)],
                    sel := some { sources := [.await 0], cursors := [], startTime := some 0, receiving := none } }),
              (2, { sel := some { sources := [.receive (fun _ => true) none], cursors := [0], startTime := some 0,
                                  receiving := none } }),
              (3, { awaiting := [(0, none)],
                    sel := some { sources := [.timeout 50, .await 0], cursors := [], startTime := some 0,
                                  receiving := none } })],
    selecting := [1, 2, 3] }

/-- F raises: A and C have the failure recorded and are woken; B is untouched and stays parked. -/
example :
    let ex' := exExec.endSlice 0 {} (.raises .invalidArgument)
    (ex'.getProc 0).map (·.result) = some (some (.err .invalidArgument)) ∧
    (ex'.getProc 1).map (·.awaitingFailed) = some [(0, .invalidArgument)] ∧
    (ex'.getProc 3).map (·.awaitingFailed) = some [(0, .invalidArgument)] ∧
    (ex'.getProc 2).map (·.awaitingFailed) = some [] ∧ (ex'.getProc 2).map (·.result) = some none ∧
    ex'.queue = [1, 3] ∧ ex'.selecting = [2] := by decide

/-- A's next slice: its select raises the same error; C's select at t=10 raises it too (its timeout
    has not expired), at t=60 it yields the nil of the higher-priority timeout instead. -/
example :
    let ex' := exExec.endSlice 0 {} (.raises .invalidArgument)
    (stepSelectPure ((ex'.getProc 1).getD {}) 10 []).2 = .failed .invalidArgument ∧
    (stepSelectPure ((ex'.getProc 3).getD {}) 10 []).2 = .failed .invalidArgument ∧
    (stepSelectPure ((ex'.getProc 3).getD {}) 60 []).2 = .completed .nil := by decide

/-- the hypotheses of `awaiters_fail_same_error_after` / `late_report_is_recorded` on a worker whose
    process 0 has failed: awaiter 7 asks late and is told -/
example :
    let w : Worker Nat := { ex := { procs := [(0, { result := some (.err .invalidArgument) })] } }
    ((w.queryAndAwait 7 [0]).1.checkCompleted.2.map (fun ev => (ev.awaiter, ev.results))) =
      [(7, [(0, some (.err .invalidArgument))])] := by decide


/-! ## The environment side (M-Sys of C04, imported): failure propagation across workers

`QM.Sys` (Core/Sys/Basic.lean, owned by C04) models `Environment::step`, `handle_await_processes`,
`handle_process_results`, `process_router` and the workers' await registry at message level; `fault`
records an `EnvironmentError`. The theorems below are about `QM.Sys.run (Sys.init n prog req) cs` for
EVERY choice sequence `cs` (any interleaving, partial visibility, slice length, hash order, ticks), any
worker count and any well-formed program, or about a handler on EVERY state. -/

/-- the routing invariant after every choice sequence (C04's `RInv`, re-derived from its lemmas) -/
theorem routing_invariant (n : Nat) (prog : QM.Sys.Prog) (req : Nat) (hn : 0 < n) (hwf : QM.Sys.ProgWF prog)
    (cs : List QM.Sys.Choice) :
    QM.Sys.PreStart (QM.Sys.run (QM.Sys.Sys.init n prog req) cs) ∨ QM.Sys.RInv (QM.Sys.run (QM.Sys.Sys.init n prog req) cs) :=
  QM.Sys.invariant_from_init QM.Sys.Rules.current QM.Sys.RInv (fun _ h => QM.Sys.RInv.of_started h)
    (fun _ m h => h.micro QM.Sys.Rules.current_tame m) n prog req hn hwf cs

/-- (b) **`Environment::step` (and `Worker::step`) never returns an `EnvironmentError`** on any event
(command) batch the composed system can produce: no `?` site is reached, so no event of a batch is ever
dropped. -/
theorem environment_step_total (n : Nat) (prog : QM.Sys.Prog) (req : Nat) (hn : 0 < n) (hwf : QM.Sys.ProgWF prog)
    (cs : List QM.Sys.Choice) : (QM.Sys.run (QM.Sys.Sys.init n prog req) cs).fault = false := by
  rcases routing_invariant n prog req hn hwf cs with h | h
  · exact h.nofault
  · exact h.nofault

/-- … because **every pid named in a queued event has a router entry** (the `process_router` lookups of
`handle_spawn`, `handle_deliver`, `handle_await_processes`, `handle_process_results` cannot fail). -/
theorem event_pids_routed (n : Nat) (prog : QM.Sys.Prog) (req : Nat) (hn : 0 < n) (hwf : QM.Sys.ProgWF prog)
    (cs : List QM.Sys.Choice) (w : Nat) (e : QM.Sys.Evt)
    (he : e ∈ (QM.Sys.run (QM.Sys.Sys.init n prog req) cs).evtQ w) :
    match e with
    | .spawn c _ regs _ => (QM.Sys.run (QM.Sys.Sys.init n prog req) cs).env.router c = some w ∧
        ∀ q ∈ regs, ((QM.Sys.run (QM.Sys.Sys.init n prog req) cs).env.router q).isSome
    | .deliver t _ => ((QM.Sys.run (QM.Sys.Sys.init n prog req) cs).env.router t).isSome
    | .await a ts => (QM.Sys.run (QM.Sys.Sys.init n prog req) cs).env.router a = some w ∧
        ∀ t ∈ ts, ((QM.Sys.run (QM.Sys.Sys.init n prog req) cs).env.router t).isSome
    | .procResults a rs => ((QM.Sys.run (QM.Sys.Sys.init n prog req) cs).env.router a).isSome ∧
        ∀ tr ∈ rs, (QM.Sys.run (QM.Sys.Sys.init n prog req) cs).env.router tr.1 = some w
    | .resultResp _ _ => True
    | .exited _ => True := by
  rcases routing_invariant n prog req hn hwf cs with h | h
  · rw [h.evtQ w] at he; simp at he
  · have := h.evts w e he
    cases e with
    | spawn c fn regs co => exact ⟨this.1, this.2.2⟩
    | deliver t m => exact this.2
    | await a ts => exact this
    | procResults a rs => exact this
    | resultResp _ _ => trivial
    | exited _ => trivial

/-! ### (c) `worker_step_total` without the `CmdOK` hypothesis -/

def trRes : Option QM.Sys.Res → Option (WireRes Unit)
  | none => none
  | some (.ok _) => some (.ok { val := () })
  | some .err => some (.err .invalidArgument)

/-- the commands of M-Sys as commands of `QM.Exec.Worker` (`misc` / `getResult` have no counterpart
there — they do not touch processes; `start` / `resume` are never queued after start-up) -/
def trCmd (plen : Nat) : QM.Sys.Cmd → Option (Cmd Unit)
  | .spawn p fn _ => some (.spawn p (decide (fn < plen)))
  | .notifySpawn c _ => some (.notifySpawn c)
  | .deliver t _ => some (.deliver t { val := () })
  | .queryAwait a ts => some (.queryAndAwait a ts)
  | .updateAwait a rs => some (.updateAwaitResults a (rs.map (fun tr => (tr.1, trRes tr.2))))
  | _ => none

/-- **`CmdOK` is an invariant of the composed system**: whatever the environment has queued for a
worker, translated, satisfies `CmdOK` — in every state of that worker. -/
theorem environment_commands_are_ok (router : QM.Sys.Router) (plen : Nat) (known : Nat → Prop) (w : Nat)
    (c : QM.Sys.Cmd) (h : QM.Sys.CmdOK router plen known w c) (c' : Cmd Unit) (hc : trCmd plen c = some c')
    (wk : Worker Unit) : CmdOK wk c' := by
  cases c with
  | misc => cases hc
  | start p => cases hc
  | resume p fn => cases hc
  | getResult r p => cases hc
  | spawn p fn regs =>
    simp only [trCmd, Option.some.injEq] at hc; subst hc
    simp only [CmdOK]
    exact decide_eq_true h.2.1
  | notifySpawn c p => simp only [trCmd, Option.some.injEq] at hc; subst hc; trivial
  | deliver t m => simp only [trCmd, Option.some.injEq] at hc; subst hc; rfl
  | queryAwait a ts => simp only [trCmd, Option.some.injEq] at hc; subst hc; trivial
  | updateAwait a rs =>
    simp only [trCmd, Option.some.injEq] at hc; subst hc
    simp only [CmdOK]
    intro k wire hm
    obtain ⟨tr, _, htr⟩ := List.mem_map.mp hm
    simp only [Prod.mk.injEq] at htr
    obtain ⟨_, h2⟩ := htr
    cases hr : tr.2 with
    | none => rw [hr] at h2; simp [trRes] at h2
    | some r =>
      rw [hr] at h2
      cases r with
      | ok v => simp only [trRes, Option.some.injEq, WireRes.ok.injEq] at h2; rw [← h2]
      | err => simp [trRes] at h2

theorem cmdsOK_of_static : ∀ (cmds : List (Cmd Unit)), (∀ c ∈ cmds, ∀ wk : Worker Unit, CmdOK wk c) →
    ∀ wk : Worker Unit, CmdsOK wk cmds
  | [], _, _ => trivial
  | c :: rest, h, wk =>
    ⟨h c List.mem_cons_self wk, fun w' _ _ => cmdsOK_of_static rest (fun c' hc' => h c' (List.mem_cons_of_mem _ hc')) w'⟩

/-- (c) **`worker_step_total` for the commands the environment can actually send** — no `CmdOK`
hypothesis: after every choice sequence of the composed system, any visible prefix of any worker's
command queue (translated) is handled by `Worker::step` without an internal error, in ANY state of the
`QM.Exec` worker and however the time slice of the running process ends. -/
theorem worker_step_total_composed (n : Nat) (prog : QM.Sys.Prog) (req : Nat) (hn : 0 < n) (hwf : QM.Sys.ProgWF prog)
    (cs : List QM.Sys.Choice) (i vis : Nat) (wk : Worker Unit) (now : Nat) (slice : Slice Unit) :
    QM.Sys.PreStart (QM.Sys.run (QM.Sys.Sys.init n prog req) cs) ∨
    ∃ w' evs, wk.step now ((((QM.Sys.run (QM.Sys.Sys.init n prog req) cs).cmdQ i).take vis).filterMap
      (trCmd (QM.Sys.run (QM.Sys.Sys.init n prog req) cs).prog.length)) slice = .ok (w', evs) := by
  rcases routing_invariant n prog req hn hwf cs with h | h
  · exact Or.inl h
  · right
    apply worker_step_total
    apply cmdsOK_of_static
    intro c' hc' wk'
    obtain ⟨c, hc, htr⟩ := List.mem_filterMap.mp hc'
    exact environment_commands_are_ok _ _ _ i c (h.cmds i c (List.mem_of_mem_take hc)) c' htr wk'

/-! ### (a) the links of the failure chain, each on EVERY state of M-Sys

worker of the target → `ProcessResults` → environment (`pending_awaits` merge or direct forward) →
`UpdateAwaitResults` → awaiter's worker → `awaiting_failed` + wake-up. -/

/-- target's worker, await BEFORE the failure: one report per registration, registry cleared -/
theorem failure_reported_to_every_registered_awaiter (s : QM.Sys.Sys) (i : Nat) (t : Nat)
    (hr : (s.wk i).resultOf t = some .err) :
    (QM.Sys.reportTarget s i t).evtQ i =
      s.evtQ i ++ ((s.wk i).awaitersFor t).map (fun a => QM.Sys.Evt.procResults a [(t, some .err)]) ∧
    ((QM.Sys.reportTarget s i t).wk i).awaitersFor t = [] ∧ (QM.Sys.reportTarget s i t).fault = s.fault :=
  QM.Sys.registered_awaiters_each_reported s i t .err hr

/-- target's worker, await AFTER the failure, code at HEAD: placeholder + registration (then the report above) -/
theorem late_awaiter_of_failed_target_is_registered [QM.Sys.Cfg] (hv : QM.Sys.Cfg.selectWaits = false)
    (w : QM.Sys.WorkerSt) (a t : Nat) (x : QM.Sys.Proc)
    (hx : w.procs t = some x) (hr : x.result = some .err) :
    (QM.Sys.queryTargets w a [t]).2 = [(t, none)] ∧ a ∈ (QM.Sys.queryTargets w a [t]).1.awaitersFor t ∧
    t ∈ (QM.Sys.queryTargets w a [t]).1.awaited ∧ (QM.Sys.queryTargets w a [t]).1.resultOf t = some .err :=
  QM.Sys.query_of_failed_target_registers hv w a t x hx hr

/-- … and under the variant `selectWaits` (notes/C05-fixes/01): the error is in the first answer, nobody is
registered, no second message — the window of finding C05-F2 (failed target) does not exist -/
theorem late_awaiter_of_failed_target_is_answered_waits [QM.Sys.Cfg] (hv : QM.Sys.Cfg.selectWaits = true)
    (w : QM.Sys.WorkerSt) (a t : Nat) (x : QM.Sys.Proc)
    (hx : w.procs t = some x) (hr : x.result = some .err) (hq : t ∉ w.queue)
    (hp : ¬ (t ∈ w.spawning ∨ t ∈ w.selecting)) :
    QM.Sys.queryTargets w a [t] = (w, [(t, some .err)]) :=
  QM.Sys.query_of_failed_target_answers_waits hv w a t x hx hr hq hp

/-- environment, initial multi-worker query still pending: the failure overrides the placeholder that
was merged first (seeded/C15-3 kept the placeholder: `first_report_wins_loses_failure`) -/
theorem failure_overrides_placeholder (s : QM.Sys.Sys) (a : Nat) (new : QM.Sys.Results) (w0 : Nat) (t : Nat)
    (pa : QM.Sys.PendingAwait) (hp : s.env.pending a = some pa) (hrouted : (s.env.router a).isSome)
    (hsender : ∃ k v rest, new = (k, v) :: rest ∧ s.env.router k = some w0)
    (hnd : (new.map (·.1)).Nodup) (hnew : QM.Sys.alookup new t = some (some .err)) :
    QM.Sys.pendingHas (QM.Sys.handleProcResultsWith QM.Sys.mergeAnswer s a new) a w0 t .err ∨
    ∃ aw rs, QM.Sys.Cmd.updateAwait a rs ∈ (QM.Sys.handleProcResultsWith QM.Sys.mergeAnswer s a new).cmdQ aw ∧
      (t, some .err) ∈ rs :=
  QM.Sys.outcome_overrides_placeholder s a new w0 t .err pa hp hrouted hsender hnd hnew

/-- environment, no pending query (a later completion): forwarded verbatim, no `EnvironmentError` -/
theorem failure_report_forwarded (s : QM.Sys.Sys) (a : Nat) (rs : QM.Sys.Results) (aw : Nat)
    (hp : s.env.pending a = none) (hr : s.env.router a = some aw) :
    QM.Sys.Cmd.updateAwait a rs ∈ (QM.Sys.handleProcResultsWith QM.Sys.mergeAnswer s a rs).cmdQ aw ∧
    (QM.Sys.handleProcResultsWith QM.Sys.mergeAnswer s a rs).fault = s.fault :=
  QM.Sys.report_without_pending_is_forwarded s a rs aw hp hr

/-- awaiter's worker: the failure becomes a ready source of the awaiting select and the select is woken -/
theorem failure_recorded_and_select_woken (s : QM.Sys.Sys) (i : Nat) (a : Nat) (rs : QM.Sys.Results)
    (x : QM.Sys.Proc) (t : Nat) (hx : (s.wk i).procs a = some x) (hs : x.stillAwaiting t = true)
    (ht : (t, some QM.Sys.Res.err) ∈ rs) :
    ∃ x', ((QM.Sys.handleCmd s i (.updateAwait a rs)).wk i).procs a = some x' ∧ t ∈ x'.awaitFailed ∧
      x'.result = x.result ∧ a ∉ ((QM.Sys.handleCmd s i (.updateAwait a rs)).wk i).selecting := by
  obtain ⟨x', h1, h2, h3, _, h5⟩ := QM.Sys.update_records_failure s i a rs x t hx hs ht
  exact ⟨x', h1, h2, h3, h5⟩

/-- with merged answers the failure reaches the awaiter; with first-report-wins (seeded/C15-3) the
placeholder is kept and the awaiter is told "nothing finished": it would park for ever -/
theorem merged_answers_deliver_failure :
    (QM.Sys.c153Reports QM.Sys.mergeAnswer).cmdQ 1 = [.updateAwait 9 [(1, some .err), (2, none)]] := by decide

theorem first_report_wins_loses_failure :
    (QM.Sys.c153Reports QM.Sys.keepFirstAnswer).cmdQ 1 = [.updateAwait 9 [(1, none), (2, none)]] := by decide


/-- Full system-level statement of (a) — NOT proved (`_partial`: the five per-link theorems above hold on
every state, `routing_invariant` / `environment_step_total` and C04's `pending_await_completes`,
`no_lost_wakeup`, `reports_truthful`, `results_stable` hold after every choice sequence; what is missing
is the inductive invariant that chains them: it needs positional facts about the queues — in a worker's
event queue every placeholder `(t, None)` for an awaiter is followed by the report `(t, Some r)` or the
awaiter is still registered (a suffix-counting invariant per worker/awaiter/target), and an awaiter's
AwaitAction events are handled in order, so that a `pending_awaits` entry is only replaced by a newer
select's — the same obstacles as C04's `AwaitAnswerCompleteStatement`). The statement: when the system
is quiescent, no live process still awaits a failed process without having it recorded as a failed
(ready) source of its select. Observed by the harness on every run (`kind=hang role=awaiter`,
C05's `kind=await-result-lost`). -/
def FailureReachesAwaitersStatement [QM.Sys.Cfg] : Prop :=
  ∀ (n : Nat) (prog : QM.Sys.Prog) (req : Nat), 0 < n → QM.Sys.ProgWF prog → ∀ (cs : List QM.Sys.Choice),
    (QM.Sys.run (QM.Sys.Sys.init n prog req) cs).quiescent →
    ∀ (wa wt a t : Nat) (x y : QM.Sys.Proc),
      ((QM.Sys.run (QM.Sys.Sys.init n prog req) cs).wk wa).procs a = some x → x.stillAwaiting t = true →
      ((QM.Sys.run (QM.Sys.Sys.init n prog req) cs).wk wt).procs t = some y → y.result = some .err →
      t ∈ x.awaitFailed

/-! ## The failure chain as an invariant of the composed system (round 3) -/
section FailChain
open QM.Sys
variable [QM.Sys.Cfg]

/-- MISSING LEMMA 1 (positional queue facts + registry location): there is an invariant of the composed
system — true when evaluation starts, preserved by every micro-step in states satisfying C04's routing /
wake-up / faithful-answer invariants — that implies: AwaitAction events of an awaiter are handled in
emission order (`AwaitOrder`), a placeholder at the head of an event queue is backed by a registration or a
later report (`PlaceholderOrder`), result lists have unique keys, registrations sit at the target's worker
and a pending await still expects somebody (`FAux`). Candidates: "the LAST AwaitAction of `a` in its queue
names every target `a` still awaits" and "if the LAST mention of `(a, t)` in worker `w`'s event queue is a
placeholder then `a ∈ awaiters_for_target[t]` at `w`" (both are stable under popping the head). -/
def QueueOrderStatement : Prop :=
  ∃ J : Sys → Prop, (∀ s, Started s → J s) ∧
    (∀ s m, RInv s → WInv s → TInv s → J s → J (microStep Rules.current s m)) ∧
    (∀ s, J s → AwaitOrder s ∧ PlaceholderOrder s ∧ EvtKeysNodup s ∧ FAux s)

/-- MISSING LEMMA 2: after every complete choice (a worker step ends with `check_completed_processes`)
no worker keeps an awaiter registered for a process that has a result. -/
def CheckedStatement : Prop :=
  ∀ (n : Nat) (prog : Prog) (req : Nat), 0 < n → ProgWF prog → ∀ (cs : List Choice),
    PreStart (run (Sys.init n prog req) cs) ∨ Checked (run (Sys.init n prog req) cs)

/-- **The chain invariant over every choice sequence**, from missing lemma 1: every process whose current
select still awaits `t` knows `t`'s outcome, or an answer is in flight (AwaitAction, QueryAndAwait,
ProcessResults, the pending merge, UpdateAwaitResults), or it is registered at `t`'s worker. Proved by
showing that EVERY micro-step keeps it (`Chain.execStep`, `Chain.cmdStep1`, `Chain.checkStep`,
`Chain.envStep1`). -/
theorem chain_invariant_partial (hQ : QueueOrderStatement) (n : Nat) (prog : Prog) (req : Nat) (hn : 0 < n)
    (hwf : ProgWF prog) (cs : List Choice) :
    PreStart (run (Sys.init n prog req) cs) ∨
      (RInv (run (Sys.init n prog req) cs) ∧ WInv (run (Sys.init n prog req) cs) ∧ TInv (run (Sys.init n prog req) cs) ∧
       Chain (run (Sys.init n prog req) cs) ∧ FAux (run (Sys.init n prog req) cs)) := by
  obtain ⟨J, hJ0, hJs, hJc⟩ := hQ
  have := invariant_from_init Rules.current (fun s => RInv s ∧ WInv s ∧ TInv s ∧ J s ∧ Chain s)
    (fun s h => ⟨RInv.of_started h, WInv.of_started h, TInv.of_started h, hJ0 s h, (FInv.of_started h).chain⟩)
    (fun s m ⟨h1, h2, h3, h4, h5⟩ =>
      ⟨h1.micro Rules.current_tame m, h2.micro m, h3.micro m, hJs s m h1 h2 h3 h4,
       Chain.micro h1 h5 ⟨(hJc s h4).1, (hJc s h4).2.1, (hJc s h4).2.2.1⟩ m⟩)
    n prog req hn hwf cs
  rcases this with h | ⟨h1, h2, h3, h4, h5⟩
  · exact Or.inl h
  · exact Or.inr ⟨h1, h2, h3, h5, (hJc _ h4).2.2.2⟩

/-- **`FailureReachesAwaitersStatement`, from the two missing lemmas** (`_partial`): at quiescence no live
process still awaits a failed process without having the failure recorded as a ready source of its
select. Everything else is proved: the chain is kept by every micro-step of the executor, the workers'
command handling, `check_completed_processes` and the environment (merge, forward, replaced pending
entries), and at quiescence the chain collapses to "recorded". -/
theorem failure_reaches_awaiters_partial (hQ : QueueOrderStatement) (hC : CheckedStatement) :
    FailureReachesAwaitersStatement := by
  intro n prog req hn hwf cs hq wa wt a t x y hx hs hy hyr
  rcases chain_invariant_partial hQ n prog req hn hwf cs with h | ⟨h1, h2, h3, h4, h5⟩
  · rw [preStart_no_awaiting h wa a x t hx] at hs; cases hs
  · rcases hC n prog req hn hwf cs with h | hck
    · rw [preStart_no_awaiting h wa a x t hx] at hs; cases hs
    · exact quiescent_failed_target_is_recorded _ h1 h2 h3 ⟨h4, hck, h5⟩ hq wa wt a t x y hx hs hy hyr

/-- **The environment credits an answer to a pending await by its SENDER, not by its content** (finding
C05-F3, every state of M-Sys). The awaiter `a` has a pending await that still expects only worker `w`
(its current select awaits `u`, which lives on `w`; nothing collected yet). A LATE REPORT arrives from
`w` about another process `t` — a target of an EARLIER select of `a`, whose registration was left
behind when that select completed through a message. `handle_process_results` takes it for `w`'s
answer: the pending entry is closed and the "merged answer" — which does not mention `u` — is sent to
the awaiter. At HEAD this wakes the select, which then walks its sources with `u` still unknown
(`! [u, 0]` yields `[]` although `u` has finished: corpus/C05/select-before-answer-stale-answer.json,
124 of 601 schedules on the real code). The real answer of `w` about `u` is forwarded later. -/
theorem stale_report_closes_newer_pending_await (s : Sys) (a t u : Pid) (w wa : Wid) (r : Res)
    (hp : s.env.pending a = some { expected := [w], responses := [] })
    (hrt : s.env.router t = some w) (hra : s.env.router a = some wa) (htu : t ≠ u) :
    (handleProcResultsWith mergeAnswer s a [(t, some r)]).env.pending a = none ∧
    Cmd.updateAwait a [(t, some r)] ∈ (handleProcResultsWith mergeAnswer s a [(t, some r)]).cmdQ wa ∧
    alookup [(t, some r)] u = (none : Option (Option Res)) := by
  unfold handleProcResultsWith
  simp only [hp, hrt]
  have hf : (List.filter (fun x => decide (x ≠ w)) [w]).isEmpty = true := by simp
  simp only [hf, if_true, hra]
  refine ⟨?_, ?_, ?_⟩
  · simp [Sys.pushCmd, upd_same]
  · simp [Sys.pushCmd, upd_same, mergeAnswer, ainsert, alookup]
  · simp [alookup, htu]


/-- the inductive strengthening behind `QueueOrderStatement` -/
structure QInv (s : Sys) : Prop where
  r : RInv s
  ph : PlaceholderLast s
  nd : EvtKeysNodup s
  pk : PKInv s
  al : AwaitLast s
  rh : RegHome s
  pn : PendNe s

/-- **Missing lemma 1 is a theorem**: the positional facts about a worker's event queue and the registry facts hold
in every reachable state (every configuration of the runtime variants). -/
theorem queue_order : QueueOrderStatement := by
  refine ⟨QInv, ?_, ?_, ?_⟩
  · intro s hs
    have hev : ∀ w, s.evtQ w = [] := hs.evtQ
    refine ⟨RInv.of_started hs, ?_, ?_, PKInv.of_started hs, ?_, (FInv.of_started hs).aux.regHome, (FInv.of_started hs).aux.pendNe⟩
    · intro w a t hl; rw [hev w] at hl; cases hl
    · intro w a rs hm; rw [hev w] at hm; cases hm
    · intro w a ts hl; rw [hev w] at hl; cases hl
  · intro s m hr hw _ h
    exact ⟨hr.micro Rules.current_tame m, h.ph.micro m, h.nd.micro m, h.pk.micro hr hw m, h.al.micro hr h.pk m,
      h.rh.micro hr m, h.pn.micro hw m⟩
  · intro s h
    exact ⟨h.al.order h.r, h.ph.order, h.nd, ⟨h.rh, h.pn⟩⟩

/-- `FailureReachesAwaitersStatement` from the ONE remaining lemma (`CheckedStatement`). -/
theorem failure_reaches_awaiters_of_checked (hC : CheckedStatement) : FailureReachesAwaitersStatement :=
  failure_reaches_awaiters_partial queue_order hC

/-- **Missing lemma 2 is a theorem**: after every complete choice no worker keeps an awaiter registered for a process
that has a result (`Worker::step` ends with `check_completed_processes`, which reports every awaited target that has a
result and clears its registrations; a registration is always for an `awaited` target). -/
theorem checked : CheckedStatement :=
  fun n prog req _ _ cs => Or.inr (checked_run n prog req cs)

/-- **`FailureReachesAwaitersStatement` is a THEOREM** (every configuration of the runtime variants): whenever the
composed system — environment, workers, executors, under ANY schedule of choices — is quiescent, no live process still
awaits a failed process without having the failure recorded as a ready source of its select. Hence (C05: a recorded
failure is a ready source; C04: no lost wake-up) every awaiter of a failed process fails with it or completes through
an earlier source. -/
theorem failure_reaches_awaiters : FailureReachesAwaitersStatement :=
  failure_reaches_awaiters_partial queue_order checked

end FailChain

end C15
