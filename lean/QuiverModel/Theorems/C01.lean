import QuiverModel.Core.Types.Inh
import QuiverModel.Core.Types.Shape
import QuiverModel.Core.Soundness.Unify
import QuiverModel.Lemmas.Soundness.SubstSound
/-
C01 — Type soundness: accepted programs never get stuck on a type error.

What is modelled are the *guards* soundness rests on (the compiler's inference engine is not
modelled — see notes/C01.md): the generic-call guard `unify` + `substitute`
(`QM.Soundness`, mirroring typing.rs as of fixes 8f4b36d and e4496af) and the non-generic guard `is_compatible`
(`QM.Types.isCompatible`, C09's model); the meaning of a type is `QM.Types.inh` (C09's module
`Core/Types/Inh.lean`).

Contents
  1. the full-strength statement `GuardUnifySound rules` — kept as a `def`, because for the code
     as it is (`Rules.current`) it is FALSE: the kernel-checked counterexample
     `unify_cycle_arm_unsound` / `guard_unify_sound_refuted` (a `Cycle` position is never checked),
     with the alternative rule under which the same instance is rejected;
  2. before/after witnesses of the two repaired defects: F6 (8f4b36d, union argument for a non-union
     parameter: `Rules.beforeF6`) and the union/union merge (e4496af: `Rules.beforeMergeFix`) —
     under the old rule the guard accepts the instance and a value of the argument type is outside
     the substituted parameter type; under the current rule the instance is rejected resp. typed
     correctly — so soundness on these instances visibly depends on the fixes;
  3. the list of typed entry points and the guard the compiler applies at each
     (`guardAt`), with `tailcall_guard_missing` (F5);
  4. `call_guard_nongeneric_sound`: the non-generic branch of the call guard is sound given C09's
     `compat_sound` (stated as a hypothesis until C09 exports it);
  5. `guard_unify_sound_partial` (positive theorem, every fuel, every table): on the fragment
     "parameter built from 'int / 'bin / type variables / tuples, argument closed and built from
     'int / 'bin / tuples / unions" — which includes widening of a variable bound twice and the
     "non-union parameter, union argument" arm — unification followed by substitution is sound
     UNDER THE EVERY-VARIANT RULE (fix 8f4b36d); `partial_needs_every_variant_rule` shows that the
     hypothesis cannot be dropped (the F6 instance lies in the fragment).
-/
namespace C01
open QM.Types QM.Soundness

/-! ### 1. The full statement -/

/-- Soundness of the generic-call guard under a rule set: whenever unification of the parameter
type `p` with a closed argument type `a` succeeds with bindings `σ`, every value of the argument
type inhabits the parameter type instantiated by `σ`. -/
def GuardUnifySound (rules : Rules) : Prop :=
  ∀ (T T' T'' : Table) (cf f f' p a r : Nat) (σ : Bindings),
    Closed T a →
    unifyWith rules cf f T [] p a = some (T', some σ) →
    substitute σ f' T' p = some (T'', r) →
    ∀ v, inh T [] a v → inh T'' [] r v

/-- the statement about the code as it is. FALSE — see `guard_unify_sound_refuted`. -/
def GuardUnifySoundStatement : Prop := GuardUnifySound Rules.current

/-- Executable form of one instance of the statement: run the guard from empty bindings, substitute
into the parameter, and test the value against the argument type and against the instantiated
parameter type: `(result id, v ∈ a, v ∈ σ p)`. -/
def guardInstance (rules : Rules) (f : Nat) (T : Table) (p a : Nat) (v : V) : Option (Nat × Bool × Bool) :=
  match unifyWith rules f f T [] p a with
  | some (T', some σ) =>
    match substitute σ f T' p with
    | some (T'', r) => some (r, inhB T f [] a v, inhB T'' f [] r v)
    | none => none
  | _ => none

/-- does the guard reject the instance? -/
def guardRejects (rules : Rules) (f : Nat) (T : Table) (p a : Nat) : Bool :=
  match unifyWith rules f f T [] p a with
  | some (_, none) => true
  | _ => false

/-! ### 2. F6 — union argument for a non-union parameter (repaired by 8f4b36d)

tuples: 0 nil, 1 Ok, 2 `['int, 't]`, 3 `['int, 'int]`;
types:  0 'int, 1 't, 2 `['int, 't]` (parameter), 3 `['int, 'int]`, 4 'bin,
        5 `['int, 'int] | 'bin` (argument: the type of `x = 2 { =1 => [1, 2] | 0x00 }`). -/
def tF6 : Table :=
  { types := [.integer, .variable 7, .tuple 2, .tuple 3, .binary, .union [3, 4]],
    tuples := [⟨none, []⟩, ⟨some 1, []⟩, ⟨none, [(none, 0), (none, 1)]⟩, ⟨none, [(none, 0), (none, 0)]⟩] }

/-- the run-time value of `x`: `0x00`. -/
def vF6 : V := .bin [0]

/-- the old rule accepts (binding `'t := 'int` from the first variant); `0x00` is a value of the
argument type but not of the instantiated parameter type `['int, 'int]` (type 3). -/
theorem F6_old_rule_unsound : guardInstance Rules.beforeF6 16 tF6 2 5 vF6 = some (3, true, false) := by
  decide

/-- …for every fuel, not only the one used above: a binary never inhabits a tuple type. -/
theorem F6_value_outside (fuel : Nat) : inhB tF6 fuel [] 3 vF6 = false := by
  cases fuel <;> simp [inhB, tF6, vF6]

/-- the current rule rejects the instance. -/
theorem F6_repaired : guardRejects Rules.current 16 tF6 2 5 = true := by decide

/-- hence the full statement fails for the rule set before the fix. -/
theorem unify_anyVariant_unsound : ¬ GuardUnifySound Rules.beforeF6 := by
  intro h
  have hc : Closed tF6 5 := ⟨8, by decide⟩
  have hu : unifyWith Rules.beforeF6 16 16 tF6 [] 2 5 = some (tF6, some [(7, 0)]) := by decide
  have hs : substitute [(7, 0)] 16 tF6 2 = some (tF6, 3) := by decide
  have hv : inh tF6 [] 5 vF6 := ⟨8, by decide⟩
  obtain ⟨fuel, hf⟩ := h tF6 tF6 tF6 16 16 16 2 5 3 [(7, 0)] hc hu hs vF6 hv
  rw [F6_value_outside] at hf
  exact Bool.false_ne_true hf

/-! ### 1b. Finding (open): a `Cycle` position is never checked (heterogeneous recursive argument)

`'list<'t> = Nil | Cons['t, ^]`, parameter `'list<'t>`, argument the literal
`Cons[1, Cons[0x00, Nil]]` of type `Cons['int, Cons['bin, Nil]]`.
names: Nil = 10, Cons = 11, 't = 7.
tuples: 2 Nil, 3 `Cons['t, ^]`, 4 `Cons['bin, Nil]`, 5 `Cons['int, Cons['bin, Nil]]`;
types: 0 'int, 1 'bin, 2 't, 3 Nil, 4 `^`, 5 `Cons['t, ^]`, 6 `Nil | Cons['t, ^]` (parameter),
       7 `Cons['bin, Nil]`, 8 `Cons['int, Cons['bin, Nil]]` (argument). -/
def tCyc : Table :=
  { types := [.integer, .binary, .variable 7, .tuple 2, .cycle 1, .tuple 3, .union [3, 5], .tuple 4, .tuple 5],
    tuples := [⟨none, []⟩, ⟨some 1, []⟩, ⟨some 10, []⟩, ⟨some 11, [(none, 2), (none, 4)]⟩,
               ⟨some 11, [(none, 1), (none, 3)]⟩, ⟨some 11, [(none, 0), (none, 7)]⟩] }

/-- `Cons[0x00, Nil]` -/
def vInner : V := .tup (some 11) (.cons none (.bin [0]) (.cons none (.tup (some 10) .nil) .nil))

/-- `Cons[1, Cons[0x00, Nil]]` -/
def vCyc : V := .tup (some 11) (.cons none (.int 1) (.cons none vInner .nil))

/-- the guard accepts with `'t := 'int` (only the head is looked at: the tail meets the `Cycle`
arm), the instantiated parameter is `'list<'int>` (new type 10), and the argument value — a value
of the argument type — is not a list of integers. The real compiler accepts
`second = #<'t>'list<'t> { … }, Cons[1, Cons[0x00, Nil]] second [~, 1] __integer_add__` and the
program dies with `TypeMismatch` (corpus/C01, signature `unsound=unify-cycle-arm-unchecked`). -/
theorem unify_cycle_arm_unsound : guardInstance Rules.current 24 tCyc 6 8 vCyc = some (10, true, false) := by
  decide

/-- under the strict cycle rule the same instance is rejected. -/
theorem unify_cycle_arm_strict_rejects : guardRejects { cycle := .strict } 24 tCyc 6 8 = true := by decide

/-- the table after substitution: tuple 6 `Cons['int, ^]`, type 9, type 10 `Nil | Cons['int, ^]`. -/
def tCyc'' : Table :=
  { types := tCyc.types ++ [.tuple 6, .union [3, 9]], tuples := tCyc.tuples ++ [⟨some 11, [(none, 0), (none, 4)]⟩] }

theorem cyc_ty0 : tCyc''.types[0]? = some .integer := rfl
theorem cyc_ty3 : tCyc''.types[3]? = some (.tuple 2) := rfl
theorem cyc_ty4 : tCyc''.types[4]? = some (.cycle 1) := rfl
theorem cyc_ty9 : tCyc''.types[9]? = some (.tuple 6) := rfl
theorem cyc_ty10 : tCyc''.types[10]? = some (.union [3, 9]) := rfl
theorem cyc_tu2 : tCyc''.tuples[2]? = some ⟨some 10, []⟩ := rfl
theorem cyc_tu6 : tCyc''.tuples[6]? = some ⟨some 11, [(none, 0), (none, 4)]⟩ := rfl

theorem int_rejects_bin (f : Nat) (st : List Nat) : inhB tCyc'' f st 0 (.bin [0]) = false := by
  cases f <;> simp [inhB, cyc_ty0]

theorem nil_rejects_cons (f : Nat) (st : List Nat) (fs : VFields) :
    inhB tCyc'' f st 3 (.tup (some 11) fs) = false := by
  cases f <;> simp [inhB, cyc_ty3, cyc_tu2]

theorem cons_int_rejects_inner (f : Nat) (st : List Nat) : inhB tCyc'' f st 9 vInner = false := by
  cases f with
  | zero => simp [inhB]
  | succ f => simp [inhB, cyc_ty9, cyc_tu6, vInner, fieldsB, int_rejects_bin]

theorem list_int_rejects_inner (f : Nat) : inhB tCyc'' f [] 10 vInner = false := by
  cases f with
  | zero => simp [inhB]
  | succ f =>
    have h1 := nil_rejects_cons f [10] (.cons none (.bin [0]) (.cons none (.tup (some 10) .nil) .nil))
    have h2 := cons_int_rejects_inner f [10]
    simp only [vInner] at h2
    simp [inhB, cyc_ty10, vInner, h1, h2]

theorem cycle_rejects_inner (f : Nat) : inhB tCyc'' f [10] 4 vInner = false := by
  cases f with
  | zero => simp [inhB]
  | succ f => simp [inhB, cyc_ty4, resolveCycle, list_int_rejects_inner]

theorem cons_int_rejects_vCyc (f : Nat) : inhB tCyc'' f [10] 9 vCyc = false := by
  cases f with
  | zero => simp [inhB]
  | succ f => simp [inhB, cyc_ty9, cyc_tu6, vCyc, fieldsB, cycle_rejects_inner]

/-- …for every fuel: `Cons[1, Cons[0x00, Nil]]` is not a list of integers. -/
theorem cycle_value_outside (fuel : Nat) : inhB tCyc'' fuel [] 10 vCyc = false := by
  cases fuel with
  | zero => simp [inhB]
  | succ f =>
    have h1 := nil_rejects_cons f [10] (.cons none (.int 1) (.cons none vInner .nil))
    have h2 := cons_int_rejects_vCyc f
    simp only [vCyc] at h2
    simp [inhB, cyc_ty10, vCyc, h1, h2]

/-- The full statement is false for the code as it is. -/
theorem guard_unify_sound_refuted : ¬ GuardUnifySoundStatement := by
  intro h
  have hc : Closed tCyc 8 := ⟨8, by decide⟩
  have hu : unifyWith Rules.current 24 24 tCyc [] 6 8 = some (tCyc, some [(7, 0)]) := by decide
  have hs : substitute [(7, 0)] 24 tCyc 6 = some (tCyc'', 10) := by decide
  have hv : inh tCyc [] 8 vCyc := ⟨12, by decide⟩
  obtain ⟨fuel, hf⟩ := h tCyc tCyc tCyc'' 24 24 24 6 8 10 [(7, 0)] hc hu hs vCyc hv
  rw [cycle_value_outside] at hf
  exact Bool.false_ne_true hf

/-! ### The union/union merge (repaired by e4496af)

`'ab<'t> = A['t] | B['t]`, argument type `A['int] | B['bin]` (a maker function's result), value
`B[0x00]`. names: A = 20, B = 21.
types: 0 'int, 1 'bin, 2 't, 3 `A['t]`, 4 `B['t]`, 5 `A['t] | B['t]` (parameter), 6 `A['int]`,
       7 `B['bin]`, 8 `A['int] | B['bin]` (argument). The instance is cycle-free and first-order. -/
def tMrg : Table :=
  { types := [.integer, .binary, .variable 7, .tuple 2, .tuple 3, .union [3, 4], .tuple 4, .tuple 5, .union [6, 7]],
    tuples := [⟨none, []⟩, ⟨some 1, []⟩, ⟨some 20, [(none, 2)]⟩, ⟨some 21, [(none, 2)]⟩,
               ⟨some 20, [(none, 0)]⟩, ⟨some 21, [(none, 1)]⟩] }

/-- `B[0x00]` -/
def vMrg : V := .tup (some 21) (.cons none (.bin [0]) .nil)

/-- before e4496af: the second variant's attempt widens `'t` to `'int | 'bin`, but the merge loop
skips that binding because it is not assignable to the existing `'int`: the guard answers
`'t := 'int`, and `B[0x00]` is outside `A['int] | B['int]` (new type 11). -/
theorem merge_old_rule_unsound :
    guardInstance Rules.beforeMergeFix 24 tMrg 5 8 vMrg = some (11, true, false) := by decide

/-- the current rule adopts the attempt's bindings: the same instance is typed correctly. -/
theorem merge_repaired : guardInstance Rules.current 24 tMrg 5 8 vMrg = some (12, true, true) := by decide

/-- the table after unification (the failed widening attempt registered `'int | 'bin` as type 9). -/
def tMrg' : Table := { tMrg with types := tMrg.types ++ [.union [0, 1]] }

/-- the table after substitution: tuple 6 `B['int]`, type 10 `B['int]`, type 11 `A['int] | B['int]`. -/
def tMrg'' : Table :=
  { types := tMrg'.types ++ [.tuple 6, .union [6, 10]], tuples := tMrg.tuples ++ [⟨some 21, [(none, 0)]⟩] }

/-- …for every fuel: `B[0x00]` is outside `A['int] | B['int]`. -/
theorem merge_value_outside (fuel : Nat) : inhB tMrg'' fuel [] 11 vMrg = false := by
  rcases fuel with _ | _ | _ | fuel <;>
    simp [inhB, fieldsB, tMrg'', tMrg', tMrg, vMrg]

/-- hence the full statement fails for the rule set before e4496af, on a cycle-free first-order
instance. -/
theorem unify_merge_skip_unsound : ¬ GuardUnifySound Rules.beforeMergeFix := by
  intro h
  have hc : Closed tMrg 8 := ⟨8, by decide⟩
  have hu : unifyWith Rules.beforeMergeFix 24 24 tMrg [] 5 8 = some (tMrg', some [(7, 0)]) := by decide
  have hs : substitute [(7, 0)] 24 tMrg' 5 = some (tMrg'', 11) := by decide
  have hv : inh tMrg [] 8 vMrg := ⟨8, by decide⟩
  obtain ⟨fuel, hf⟩ := h tMrg tMrg' tMrg'' 24 24 24 5 8 11 [(7, 0)] hc hu hs vMrg hv
  rw [merge_value_outside] at hf
  exact Bool.false_ne_true hf

/-! ### 2c. The order of the parameter's variants in the union/union arm (repaired by e097c86)

types: 0 'int, 1 't, 2 `[]`, 3 `'t | []` (parameter, e.g. the result of a predicate `#'t -> ('t | [])`),
4 `'int | []` (argument). In declaration order the bare variable is offered the argument's `[]`
before the parameter's own `[]` and is widened to `'int | []`; with the structured variants first
it stays `'int`. (Both answers are sound; the old one typed the elements of `%iter.filter` with nil
and, through the recursive thunk type, lost `'int` altogether.) -/
def tOrd : Table :=
  { types := [.integer, .variable 7, .tuple 0, .union [1, 2], .union [0, 2]],
    tuples := [⟨none, []⟩] }

theorem order_declared_widens_with_nil :
    unifyWith Rules.beforeOrderFix 8 8 tOrd [] 3 4 = some (tOrd, some [(7, 4)]) := by decide

theorem order_structured_first_keeps_int :
    unifyWith Rules.current 8 8 tOrd [] 3 4 = some (tOrd, some [(7, 0)]) := by decide

/-! ### 2d. Caller's and callee's type variables (repair 10)

A generic function calls another one whose type parameters have the SAME names, arguments
crosswise: parameter `['a, 'b, 'b | 'bin]`, argument `[('b | 'bin), 'a, ('b | 'bin)]`.
types: 0 'a, 1 'b, 2 'bin, 3 `'b | 'bin`, 4 the parameter, 5 the argument. Under the shared-names
rule `'a := 'b | 'bin`, then `'b := ('a resolved) = 'b | 'bin`, and `'bin` against the argument's
`'b` resolves `'b` to a union that contains `'b` again — for ever (the compiler overflows its
stack); the model runs out of any fuel. With the caller's variables opaque the answer is
`'a := 'b | 'bin`, `'b := 'a | 'b` (both the CALLER's). -/
def tCross : Table :=
  { types := [.variable 7, .variable 8, .binary, .union [1, 2], .tuple 1, .tuple 2],
    tuples := [⟨none, []⟩, ⟨none, [(none, 0), (none, 1), (none, 3)]⟩, ⟨none, [(none, 3), (none, 0), (none, 3)]⟩] }

theorem shared_names_crosswise_never_ends :
    unifyWith Rules.sharedNames 8 20 tCross [] 4 5 = none ∧ unifyWith Rules.sharedNames 8 60 tCross [] 4 5 = none := by
  refine ⟨by decide, by decide⟩

theorem caller_opaque_crosswise_ends :
    unifyWith Rules.current 8 8 tCross [] 4 5 =
      some ({ tCross with types := tCross.types ++ [.union [0, 1]] }, some [(7, 3), (8, 6)]) := by decide

/-- `['a, 'a]` against `['a, 'int]` (the caller's `'a`): the shared-names rule skips the like-named
variable and binds `'a := 'int` only — `g = #<'a>['a, 'a] { $0 }, h = #<'a>'a { [$, 1] g }, 0xff h`
was typed `'int` and yields `0xff`; now `'a := 'a | 'int`.
types: 0 'a, 1 'int, 2 `['a, 'a]`, 3 `['a, 'int]`. -/
def tSkip : Table :=
  { types := [.variable 7, .integer, .tuple 1, .tuple 2],
    tuples := [⟨none, []⟩, ⟨none, [(none, 0), (none, 0)]⟩, ⟨none, [(none, 0), (none, 1)]⟩] }

theorem shared_names_skip_drops_callers_variable :
    unifyWith Rules.sharedNames 8 8 tSkip [] 2 3 = some (tSkip, some [(7, 1)]) ∧
    unifyWith Rules.current 8 8 tSkip [] 2 3 =
      some ({ tSkip with types := tSkip.types ++ [.union [0, 1]] }, some [(7, 4)]) := by
  refine ⟨by decide, by decide⟩

/-! ### 3. Typed entry points and their guards

`wellTagged` (every tuple value `Tuple(id, fs)` has `fs[i]` in field type `i` of `id`) is
established at the points where a value crosses into a context with a *declared* type. The
compiler's guard at each point (compiler.rs): -/

inductive EntryPoint where
  /-- `apply_value_to_type`, callable target -/
  | call
  /-- `apply_value_to_type`, process target -/
  | send
  /-- `emit_arg_spawn` -/
  | spawn
  /-- `compile_function`: body type against the declared return type -/
  | declaredReturn
  /-- `compile_tail_call` / `compile_ripple_tail_call` -/
  | tailCall
  deriving DecidableEq, Repr

inductive Guard where
  /-- `contains_variables` → `unify` + `substitute`, else `is_compatible` (`callGuard`) -/
  | callGuard
  /-- `is_compatible(value, declared)` -/
  | compat
  deriving DecidableEq, Repr

/-- which guard the compiler applies where (read off compiler.rs as of this commit). -/
def guardAt : EntryPoint → Option Guard
  | .call => some .callGuard
  | .send => some .compat
  | .spawn => some .compat
  | .declaredReturn => some .compat
  | .tailCall => none

/-- F5 (known finding): no guard exists at `TailCall` — `compile_tail_call` binds the argument type
to `_arg_type` and never compares it with the parameter type of the function being re-entered.
Reproducer: `f = #[a: 'int, b: 'int] { | [$a, 0] __integer_compare__ =0 => $b | 5 ^ }, [a: 1, b: 2] f`
(accepted; `TypeMismatch` at run time; corpus/C01 and the harness's K1 repair differential). This
`rfl` is documentation of the reading, not a proof about the Rust code. -/
theorem tailcall_guard_missing : guardAt .tailCall = none := rfl

/-! ### 4. The non-generic branch of the call guard -/

/-- C09's `compat_sound`, as the hypothesis the next lemma needs (to be replaced by the imported
theorem once `Theorems/C09.lean` exports it; C09 states it for ordered tables and closed types). -/
def GuardCompatSoundStatement : Prop :=
  ∀ (T : Table) (fuel a p : Nat), Ordered T → Closed T a → Closed T p →
    isCompatible T fuel a p = some true → ∀ v, inh T [] a v → inh T [] p v

/-- When neither the parameter nor the result type mentions a type variable, the call guard is
`is_compatible(arg, param)`: if it accepts, every value of the argument type inhabits the parameter
type (given C09). -/
theorem call_guard_nongeneric_sound (hC09 : GuardCompatSoundStatement)
    (rules : Rules) (fuel : Nat) (T T' : Table) (param result arg r : Nat)
    (hO : Ordered T) (ha : Closed T arg) (hp : Closed T param)
    (hvp : containsVariables T fuel param = some false)
    (hvr : containsVariables T fuel result = some false)
    (hacc : callGuard rules fuel T param result arg = .accept T' r) :
    T' = T ∧ r = result ∧ ∀ v, inh T [] arg v → inh T [] param v := by
  unfold callGuard at hacc
  rw [hvp, hvr] at hacc
  simp only [Bool.or_self, Bool.false_eq_true, if_false] at hacc
  cases hc : isCompatible T fuel arg param with
  | none => rw [hc] at hacc; cases hacc
  | some b =>
    cases b with
    | false => rw [hc] at hacc; cases hacc
    | true =>
      rw [hc] at hacc
      injection hacc with h1 h2
      exact ⟨h1.symm, h2.symm, hC09 T fuel arg param hO ha hp hc⟩

/-- the hypotheses are satisfiable: `['int, 'int]` passed for `['int, 'int]` on the F6 table. -/
example : callGuard Rules.current 16 tF6 3 0 3 = .accept tF6 0 := by decide

/-! ### 5. The positive theorem on the fragment

Fragment (decidable predicates `QM.Soundness.patT` / `argT`, depth-indexed): the parameter type is
built from `'int`, `'bin`, type variables and tuples (any names / labels / nesting); the argument
type is closed and built from `'int`, `'bin`, tuples and unions — the type of a literal argument
such as `[1, [0x00, 2]]`, or of a maker function's result such as `[1, 2] | 'bin`. On this
fragment `unify` exercises the variable arm (fresh binding, and **widening** of an existing binding
through `union_type_ids`), the base arms, the tuple/tuple arm and the "non-union parameter, union
argument" arm (the arm fix 8f4b36d changed); `substitute` rebuilds and registers the instantiated
tuple types. What is missing for the full statement (`GuardUnifySound`): union / cycle / partial /
callable / process types in the PARAMETER and cycle / partial / callable / process types in the
argument — for cycles the statement is false (section 1b); a union parameter meets the union/union
arm, sound since e4496af on the instances tried but not covered by a proof yet. -/

/-- **Soundness of the generic-call guard on the fragment**: if unification of the parameter type
`p` with the argument type `a` (from empty bindings) succeeds with bindings `σ`, and `σ` is
substituted into `p`, every value of the argument type inhabits the instantiated parameter type —
for every table and every fuel, under the every-variant rule. -/
theorem guard_unify_sound_partial (rules : Rules) (hr : rules.unionArg = .everyVariant)
    (cf f f' : Nat) (T T' T'' : Table) (p a r n m : Nat) (σ : Bindings)
    (hp : patT T n p = true) (ha : argT T m a = true)
    (hu : unifyWith rules cf f T [] p a = some (T', some σ))
    (hs : substitute σ f' T' p = some (T'', r)) :
    ∀ v, inh T [] a v → inh T'' [] r v := by
  have hb0 : BOk T [] := fun x t h => by simp [Bindings.get, List.lookup] at h
  obtain ⟨hE, hbσ, _, hsound⟩ := unify_sound_aux rules hr cf f T [] p a T' σ n m hu hp ha hb0
  obtain ⟨_, _, hsub⟩ :=
    substitute_sound σ f' T' p T'' r n hs (patT_transfer hE n p n hp (Nat.le_refl _)) hbσ
  exact fun v hv => hsub v (hsound v hv)

/-- the bindings produced on the fragment only mention first-order types, and the tables only grow. -/
theorem guard_unify_partial_tables (rules : Rules) (hr : rules.unionArg = .everyVariant)
    (cf f f' : Nat) (T T' T'' : Table) (p a r n m : Nat) (σ : Bindings)
    (hp : patT T n p = true) (ha : argT T m a = true)
    (hu : unifyWith rules cf f T [] p a = some (T', some σ))
    (hs : substitute σ f' T' p = some (T'', r)) :
    Ext T T' ∧ Ext T' T'' ∧ BOk T' σ := by
  have hb0 : BOk T [] := fun x t h => by simp [Bindings.get, List.lookup] at h
  obtain ⟨hE, hbσ, _, _⟩ := unify_sound_aux rules hr cf f T [] p a T' σ n m hu hp ha hb0
  obtain ⟨hE', _, _⟩ :=
    substitute_sound σ f' T' p T'' r n hs (patT_transfer hE n p n hp (Nat.le_refl _)) hbσ
  exact ⟨hE, hE', hbσ⟩

/-- The hypotheses are satisfiable by a non-trivial instance with widening: parameter `['t, 't]`,
argument `['int, 'bin]` (the literal `[1, 0x00]`): the guard answers `'t := 'int | 'bin`, the
instantiated parameter is `[('int | 'bin), ('int | 'bin)]`.
tuples: 2 `['t, 't]`, 3 `['int, 'bin]`; types: 0 'int, 1 'bin, 2 't, 3 `['t, 't]`, 4 `['int, 'bin]`. -/
def tWiden : Table :=
  { types := [.integer, .binary, .variable 7, .tuple 2, .tuple 3],
    tuples := [⟨none, []⟩, ⟨some 1, []⟩, ⟨none, [(none, 2), (none, 2)]⟩, ⟨none, [(none, 0), (none, 1)]⟩] }

example : patT tWiden 2 3 = true ∧ argT tWiden 2 4 = true := by decide

example : unifyWith Rules.current 8 8 tWiden [] 3 4 =
    some ({ tWiden with types := tWiden.types ++ [.union [0, 1]] }, some [(7, 5)]) := by decide

/-- the instance, run: `[1, 0x00]` inhabits the instantiated parameter (new type 6). -/
example : guardInstance Rules.current 8 tWiden 3 4
    (.tup none (.cons none (.int 1) (.cons none (.bin [0]) .nil))) = some (6, true, true) := by decide

/-- The code as it is satisfies the rule hypothesis… -/
theorem current_rules_every_variant : Rules.current.unionArg = .everyVariant := rfl

/-- …so the guard of the current code is sound on the fragment. -/
theorem guard_unify_sound_partial_current (cf f f' : Nat) (T T' T'' : Table) (p a r n m : Nat)
    (σ : Bindings) (hp : patT T n p = true) (ha : argT T m a = true)
    (hu : unify cf f T [] p a = some (T', some σ)) (hs : substitute σ f' T' p = some (T'', r)) :
    ∀ v, inh T [] a v → inh T'' [] r v :=
  guard_unify_sound_partial Rules.current rfl cf f f' T T' T'' p a r n m σ hp ha hu hs

/-- The rule hypothesis cannot be dropped: the F6 instance lies inside the fragment, and under the
rule before 8f4b36d the conclusion fails on it. -/
theorem partial_needs_every_variant_rule :
    patT tF6 2 2 = true ∧ argT tF6 3 5 = true ∧
    unifyWith Rules.beforeF6 16 16 tF6 [] 2 5 = some (tF6, some [(7, 0)]) ∧
    substitute [(7, 0)] 16 tF6 2 = some (tF6, 3) ∧
    inh tF6 [] 5 vF6 ∧ ¬ inh tF6 [] 3 vF6 := by
  refine ⟨by decide, by decide, by decide, by decide, ⟨8, by decide⟩, ?_⟩
  rintro ⟨fuel, hf⟩
  rw [F6_value_outside] at hf
  exact Bool.false_ne_true hf

/-- a union argument handled by the every-variant arm: parameter `['int, 't]`, argument
`['int, 'int] | ['int, 'bin]`; the guard answers `'t := 'int | 'bin`.
tuples: 2 `['int, 't]`, 3 `['int, 'int]`, 4 `['int, 'bin]`;
types: 0 'int, 1 't, 2 `['int, 't]`, 3 `['int, 'int]`, 4 'bin, 5 `['int, 'bin]`, 6 the union. -/
def tUnionArg : Table :=
  { types := [.integer, .variable 7, .tuple 2, .tuple 3, .binary, .tuple 4, .union [3, 5]],
    tuples := [⟨none, []⟩, ⟨some 1, []⟩, ⟨none, [(none, 0), (none, 1)]⟩, ⟨none, [(none, 0), (none, 0)]⟩,
               ⟨none, [(none, 0), (none, 4)]⟩] }

example : patT tUnionArg 2 2 = true ∧ argT tUnionArg 3 6 = true := by decide

example : guardInstance Rules.current 12 tUnionArg 2 6
    (.tup none (.cons none (.int 1) (.cons none (.bin [0]) .nil))) = some (8, true, true) := by decide

end C01
