import QuiverModel.Core.Text.Scan
import QuiverModel.Lemmas.Text.Basic
/-
C18 — The front end is total: any text yields a program or a located error.
Property theorems about M-Text: the string-literal scanners and decoders of `parser.rs` and the
source-span arithmetic. Every theorem is `C18.<name>`.

What these theorems do NOT cover: the grammar (2.6k lines of nom combinators) and the compiler. For
them the check is a robustness search on the implementation (`harness/src/bin/c18`) — see
`notes/C18.md`.
-/
namespace C18
open QM.Text

/-! ## Helper facts about UTF-8 lengths and byte slicing -/

theorem utf8Len_append (a b : List Char) : utf8Len (a ++ b) = utf8Len a + utf8Len b := by
  induction a with
  | nil => simp [utf8Len]
  | cons c cs ih => simp [utf8Len, ih]; omega

theorem utf8Size_pos (c : Char) : 0 < c.utf8Size := Char.utf8Size_pos c

/-- Slicing at the UTF-8 length of a prefix is a slice on a character boundary. -/
theorem takeBytes_prefix (pre post : List Char) :
    takeBytes (utf8Len pre) (pre ++ post) = some pre := by
  induction pre with
  | nil => cases post <;> simp [utf8Len, takeBytes]
  | cons c cs ih =>
    have hc := utf8Size_pos c
    obtain ⟨k, hk⟩ : ∃ k, utf8Len (c :: cs) = k + 1 := ⟨c.utf8Size + utf8Len cs - 1, by simp [utf8Len]; omega⟩
    simp only [List.cons_append]
    rw [hk, takeBytes]
    have : c.utf8Size ≤ k + 1 := by simp [utf8Len] at hk; omega
    simp only [this, ↓reduceIte]
    have : k + 1 - c.utf8Size = utf8Len cs := by simp [utf8Len] at hk; omega
    rw [this, ih]; rfl

theorem dropBytes_prefix (pre post : List Char) :
    dropBytes (utf8Len pre) (pre ++ post) = some post := by
  induction pre with
  | nil => cases post <;> simp [utf8Len, dropBytes]
  | cons c cs ih =>
    have hc := utf8Size_pos c
    obtain ⟨k, hk⟩ : ∃ k, utf8Len (c :: cs) = k + 1 := ⟨c.utf8Size + utf8Len cs - 1, by simp [utf8Len]; omega⟩
    simp only [List.cons_append]
    rw [hk, dropBytes]
    have : c.utf8Size ≤ k + 1 := by simp [utf8Len] at hk; omega
    simp only [this, ↓reduceIte]
    have : k + 1 - c.utf8Size = utf8Len cs := by simp [utf8Len] at hk; omega
    rw [this, ih]

/-! ## The closing-delimiter scanners: result inside the input, on a character boundary, at a quote -/

theorem scanCloseSingleAux_spec (idx : Nat) (frag : List Char) (r : Nat)
    (h : scanCloseSingleAux idx frag = some r) :
    ∃ pre post, frag = pre ++ '"' :: post ∧ r = idx + utf8Len pre := by
  fun_induction scanCloseSingleAux idx frag
  · simp at h
  · simp at h
  · rename_i idx e rest' ih
    obtain ⟨pre, post, hf, hr⟩ := ih h
    exact ⟨'\\' :: e :: pre, post, by simp [hf], by simp [utf8Len, hr]; omega⟩
  · rename_i idx rest hc
    simp at h
    exact ⟨[], rest, by simp, by simp [utf8Len, h]⟩
  · rename_i idx c rest hc hq ih
    obtain ⟨pre, post, hf, hr⟩ := ih h
    exact ⟨c :: pre, post, by simp [hf], by simp [utf8Len, hr]; omega⟩

theorem startsTripleQuote_spec (cs : List Char) (h : startsTripleQuote cs = true) :
    ∃ post, cs = '"' :: '"' :: '"' :: post := by
  unfold startsTripleQuote at h
  split at h
  · exact ⟨_, rfl⟩
  · simp at h

theorem scanCloseMultiAux_spec (idx : Nat) (frag : List Char) (r : Nat)
    (h : scanCloseMultiAux idx frag = some r) :
    ∃ pre post, frag = pre ++ '"' :: '"' :: '"' :: post ∧ r = idx + utf8Len pre := by
  fun_induction scanCloseMultiAux idx frag
  · simp at h
  · simp at h
  · rename_i idx e rest' ih
    obtain ⟨pre, post, hf, hr⟩ := ih h
    exact ⟨'\\' :: e :: pre, post, by simp [hf], by simp [utf8Len, hr]; omega⟩
  · rename_i idx c rest hc hq
    simp at h
    simp only [Bool.and_eq_true, decide_eq_true_eq] at hq
    obtain ⟨post, hp⟩ := startsTripleQuote_spec _ hq.2
    exact ⟨[], post, by simp [hp], by simp [utf8Len, h]⟩
  · rename_i idx c rest hc hq ih
    obtain ⟨pre, post, hf, hr⟩ := ih h
    exact ⟨c :: pre, post, by simp [hf], by simp [utf8Len, hr]; omega⟩

/-- **scan_close_in_bounds** (single-line): the index the escape-aware scan returns is the byte
    length of a prefix of the input (so: inside the input and on a character boundary) and the
    character at it is the closing quote. -/
theorem scan_close_in_bounds (frag : List Char) (idx : Nat) (h : scanCloseSingle frag = some idx) :
    ∃ pre post, frag = pre ++ '"' :: post ∧ idx = utf8Len pre ∧ idx + 1 ≤ utf8Len frag := by
  obtain ⟨pre, post, hf, hr⟩ := scanCloseSingleAux_spec 0 frag idx h
  refine ⟨pre, post, hf, by omega, ?_⟩
  rw [hf, utf8Len_append]; simp [utf8Len]
  have := utf8Size_pos '"'; omega

/-- **scan_close_in_bounds** (multi-line): same for the `"""` delimiter. -/
theorem scan_close_multi_in_bounds (frag : List Char) (idx : Nat) (h : scanCloseMulti frag = some idx) :
    ∃ pre post, frag = pre ++ '"' :: '"' :: '"' :: post ∧ idx = utf8Len pre ∧
      idx + 3 ≤ utf8Len frag := by
  obtain ⟨pre, post, hf, hr⟩ := scanCloseMultiAux_spec 0 frag idx h
  refine ⟨pre, post, hf, by omega, ?_⟩
  rw [hf, utf8Len_append]; simp [utf8Len]
  have : ('"' : Char).utf8Size = 1 := by decide
  omega


/-- The slices `single_line_string` takes with the scanned index never fall inside a character:
    the `panic` outcome of the model (Rust: "byte index is not a char boundary") is unreachable. -/
theorem singleLinePattern_no_panic (body : List Char) : singleLinePattern body ≠ .panic := by
  unfold singleLinePattern
  split
  · simp
  · rename_i idx h
    obtain ⟨pre, post, hf, hi, _⟩ := scan_close_in_bounds body idx h
    have h1 : takeBytes idx body = some pre := by rw [hf, hi]; exact takeBytes_prefix pre _
    have h2 : dropBytes (idx + 1) body = some post := by
      have : idx + 1 = utf8Len (pre ++ ['"']) := by rw [utf8Len_append]; simp [utf8Len, hi]; decide
      rw [this, hf]
      have := dropBytes_prefix (pre ++ ['"']) post
      simpa using this
    rw [h1, h2]
    simp only
    split <;> simp

theorem multilinePattern_no_panic (body : List Char) : multilinePattern body ≠ .panic := by
  unfold multilinePattern
  split
  · simp
  · rename_i idx h
    obtain ⟨pre, post, hf, hi, _⟩ := scan_close_multi_in_bounds body idx h
    have h1 : takeBytes idx body = some pre := by rw [hf, hi]; exact takeBytes_prefix pre _
    have h2 : dropBytes (idx + 3) body = some post := by
      have : idx + 3 = utf8Len (pre ++ ['"', '"', '"']) := by
        rw [utf8Len_append]; simp [utf8Len, hi]; decide
      rw [this, hf]
      have := dropBytes_prefix (pre ++ ['"', '"', '"']) post
      simpa using this
    rw [h1, h2]
    simp only
    split <;> simp

example : scanCloseSingle ['a', '\\', '"', 'é', '"', 'r'] = some 5 := by
  simp [scanCloseSingle, scanCloseSingleAux, Char.utf8Size]
example : scanCloseMulti ['x', '"', '"', '\\', '"', '"', '"', '"', 'y'] = some 5 := by
  simp [scanCloseMulti, scanCloseMultiAux, startsTripleQuote, Char.utf8Size]

/-! ## Decoders are total, and what they report lies inside the literal

`decodeSingleAux`, `stringSegments`, `multilineDedent`, `processEscapes`, `processSegments` are
defined by structural / well-founded recursion on the input (no fuel): Lean's termination checker is
the proof that they terminate on every input; being total functions into `Except`/`Option`/result
types they cannot "panic". The theorems add the quantitative part. -/

theorem backslash_size : ('\\' : Char).utf8Size = 1 := by decide

theorem decodeSingleAux_error_in_bounds (offset : Nat) (cs : List Char) (e : EscapeError)
    (h : decodeSingleAux offset cs = .error e) :
    offset ≤ e.escapeOffset ∧ e.escapeOffset + e.length ≤ offset + utf8Len cs := by
  fun_induction decodeSingleAux offset cs generalizing e
  · simp at h
  · simp at h; subst h; simp [utf8Len, backslash_size]
  · rename_i offset e' rest' d hd ih
    cases hr : decodeSingleAux (offset + 2) rest' with
    | ok v => simp [hr, Except.map] at h
    | error err =>
      simp [hr, Except.map] at h; subst h
      have := ih err hr
      have h1 := Char.utf8Size_pos e'
      simp [utf8Len, backslash_size]; omega
  · rename_i offset e' rest' hd
    simp at h; subst h
    have h1 := Char.utf8Size_pos e'
    simp [utf8Len, backslash_size]; omega
  · rename_i offset c rest hc ih
    cases hr : decodeSingleAux (offset + c.utf8Size) rest with
    | ok v => simp [hr, Except.map] at h
    | error err =>
      simp [hr, Except.map] at h; subst h
      have := ih err hr
      simp [utf8Len]; omega

theorem decodeSingleAux_ok_length (offset : Nat) (cs v : List Char)
    (h : decodeSingleAux offset cs = .ok v) : v.length ≤ cs.length := by
  fun_induction decodeSingleAux offset cs generalizing v
  · simp at h; subst h; simp
  · simp at h
  · rename_i offset e' rest' d hd ih
    cases hr : decodeSingleAux (offset + 2) rest' with
    | error err => simp [hr, Except.map] at h
    | ok w =>
      simp [hr, Except.map] at h; subst h
      have := ih w hr
      simp; omega
  · simp at h
  · rename_i offset c rest hc ih
    cases hr : decodeSingleAux (offset + c.utf8Size) rest with
    | error err => simp [hr, Except.map] at h
    | ok w =>
      simp [hr, Except.map] at h; subst h
      have := ih w hr
      simp; omega

/-- **decodeSingle_total**: on every input `parse_string_content` yields either a value no longer
    than the input, or an error whose span (`escapeOffset`, `length`) lies inside the literal. -/
theorem decodeSingle_total (cs : List Char) :
    (∃ v, decodeSingle cs = .ok v ∧ v.length ≤ cs.length) ∨
    (∃ e, decodeSingle cs = .error e ∧ e.escapeOffset + e.length ≤ utf8Len cs) := by
  cases h : decodeSingle cs with
  | ok v => exact .inl ⟨v, rfl, decodeSingleAux_ok_length 0 cs v h⟩
  | error e =>
    have := decodeSingleAux_error_in_bounds 0 cs e h
    exact .inr ⟨e, rfl, by omega⟩

example : decodeSingle ['a', '\\', 'n'] = .ok ['a', '\n'] := by
  simp [decodeSingle, decodeSingleAux, singleEscape, Except.map]
example : decodeSingle ['é', '\\', 'x'] = .error ⟨2, 2, ['\\', 'x']⟩ := by
  simp [decodeSingle, decodeSingleAux, singleEscape, Except.map, Char.utf8Size]

/-- **dedent_total** / **decodeMulti_total**: `multiline_dedent`, `process_multiline_string` and
    `process_multiline_segments` are total functions of the raw text (every branch of the Rust code —
    missing first newline, non-blank margin, under-indented line, invalid or dangling escape — is a
    `none`/`malformed` value, not a failure to return). -/
theorem dedent_total (raw : List Char) : ∃ r : Option (List Char), multilineDedent raw = r := ⟨_, rfl⟩

theorem decodeMulti_total (raw : List Char) :
    (∃ r : Option (List Char), processMultilineString raw = r) ∧
    (∃ r : MlSegResult, processMultilineSegments raw = r) := ⟨⟨_, rfl⟩, ⟨_, rfl⟩⟩

/-- An input that is not even opened correctly (no newline after the opening delimiter) is
    `none`, not a crash. -/
example : multilineDedent ['x'] = none := by
  simp [multilineDedent, normalizeNewlines, splitOnceNl]

theorem SegResult.push_closed {d : Char} {r : SegResult} {t rest : List Char}
    (h : r.push d = .closed t rest) : ∃ t', r = .closed t' rest := by
  cases r <;> simp [SegResult.push] at h
  exact ⟨_, by rw [h.2]⟩

theorem SegResult.push_hole {d : Char} {r : SegResult} {t rest : List Char}
    (h : r.push d = .hole t rest) : ∃ t', r = .hole t' rest := by
  cases r <;> simp [SegResult.push] at h
  exact ⟨_, by rw [h.2]⟩

/-- What `string_segments` hands on (`input.slice(pos + 1..)` after the closing quote, or the input
    from the `{` of a hole) is a suffix of its input: the slice is in bounds and on a boundary. -/
theorem stringSegments_suffix_aux : ∀ (n : Nat) (cs : List Char), cs.length ≤ n →
    (∀ t rest, stringSegments cs = .closed t rest → ∃ pre, cs = pre ++ '"' :: rest) ∧
    (∀ t rest, stringSegments cs = .hole t rest → ∃ pre rest', cs = pre ++ rest ∧ rest = '{' :: rest')
  | 0, cs, h => by
    have : cs = [] := by cases cs <;> simp_all
    subst this; simp [stringSegments]
  | n + 1, [], _ => by simp [stringSegments]
  | n + 1, c :: rest, hlen => by
    have hl : rest.length ≤ n := by simp at hlen; omega
    rw [stringSegments_cons]
    by_cases hq : c = '"'
    · subst hq
      exact ⟨fun t r h => by simp at h; exact ⟨[], by simp [h.2]⟩, fun t r h => by simp at h⟩
    by_cases hb : c = '{'
    · subst hb
      exact ⟨fun t r h => by simp at h, fun t r h => by simp at h; exact ⟨[], rest, by simp [← h.2], by simp [← h.2]⟩⟩
    by_cases hs : c = '\\'
    · subst hs
      simp only [hq, hb, ↓reduceIte]
      cases rest with
      | nil => simp
      | cons e rest' =>
        have hl' : rest'.length ≤ n := by simp at hl; omega
        have ih := stringSegments_suffix_aux n rest' hl'
        simp only
        cases hd : singleEscape e with
        | none => simp
        | some d =>
          simp only
          constructor
          · intro t r h
            obtain ⟨t', ht'⟩ := SegResult.push_closed h
            obtain ⟨pre, hp⟩ := ih.1 t' r ht'
            exact ⟨'\\' :: e :: pre, by simp [hp]⟩
          · intro t r h
            obtain ⟨t', ht'⟩ := SegResult.push_hole h
            obtain ⟨pre, r', hp, hr⟩ := ih.2 t' r ht'
            exact ⟨'\\' :: e :: pre, r', by simp [hp], hr⟩
    · simp only [hq, hb, hs, ↓reduceIte]
      have ih := stringSegments_suffix_aux n rest hl
      constructor
      · intro t r h
        obtain ⟨t', ht'⟩ := SegResult.push_closed h
        obtain ⟨pre, hp⟩ := ih.1 t' r ht'
        exact ⟨c :: pre, by simp [hp]⟩
      · intro t r h
        obtain ⟨t', ht'⟩ := SegResult.push_hole h
        obtain ⟨pre, r', hp, hr⟩ := ih.2 t' r ht'
        exact ⟨c :: pre, r', by simp [hp], hr⟩

/-- **segments_rest_in_bounds**: for every input, the remainder `string_segments` continues with
    (after the closing quote, or at the `{` of a hole) is a suffix of the input. -/
theorem segments_rest_in_bounds (cs : List Char) :
    (∀ t rest, stringSegments cs = .closed t rest → ∃ pre, cs = pre ++ '"' :: rest) ∧
    (∀ t rest, stringSegments cs = .hole t rest → ∃ pre rest', cs = pre ++ rest ∧ rest = '{' :: rest') :=
  stringSegments_suffix_aux cs.length cs (Nat.le_refl _)

/-! ## Source spans -/

/-- **span_in_bounds**: the span the parser attaches to a nom error is built from the remaining
    input at the error position (`SourceSpan::from_span(e.input)`): for every input and every offset
    inside it, `offset + length` is exactly the input length. -/
theorem span_in_bounds (input : List Char) (offset : Nat) (h : offset ≤ utf8Len input) :
    (spanOfSuffix input offset).offset + (spanOfSuffix input offset).length = utf8Len input := by
  simp [spanOfSuffix]; omega

theorem lineColAux_ge (line col n : Nat) (cs : List Char) (hc : 1 ≤ col) :
    line ≤ (lineColAux line col n cs).1 ∧ 1 ≤ (lineColAux line col n cs).2 ∧
    (lineColAux line col n cs).1 ≤ line + countChar '\n' cs := by
  fun_induction lineColAux line col n cs
  · simp [hc]
  · simp [hc]
  · rename_i ih
    have := ih (by omega)
    simp_all [countChar]
    omega
  · rename_i ih
    have := ih (by omega)
    simp_all [countChar]

/-- Lines and columns are 1-based and the line never exceeds 1 + the number of newlines. -/
theorem span_line_column (input : List Char) (offset : Nat) :
    1 ≤ (spanOfSuffix input offset).line ∧ 1 ≤ (spanOfSuffix input offset).column ∧
    (spanOfSuffix input offset).line ≤ 1 + countChar '\n' input := by
  have := lineColAux_ge 1 1 offset input (by omega)
  simpa [spanOfSuffix, lineOf, columnOf] using this

example : spanOfSuffix ['a', '\n', 'é', 'b'] 4 = ⟨4, 2, 3, 1⟩ := by
  simp [spanOfSuffix, lineOf, columnOf, lineColAux, utf8Len, Char.utf8Size]

/-- **detectErrorKind_total** -/
theorem detectErrorKind_total (source : List Char) : ∃ k : DetectedKind, detectErrorKind source = k :=
  ⟨_, rfl⟩

end C18
