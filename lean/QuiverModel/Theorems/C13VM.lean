import QuiverModel.Core.VM.Step
import QuiverModel.Lemmas.Equal.Values
import QuiverModel.Theorems.C13
/-
C13 ↔ M-VM bridge: the `Equal(n)` step of the VM model (`Core/VM/Step.lean::handleEqual`, owner C07),
which takes `values_equal` as an oracle, is — once the oracle is instantiated with M-Equal's
`valuesEqual` — exactly `equalN`; hence `equalN_spec` describes the VM step.
-/
namespace C13
open QM QM.VM QM.Equal

/-- The VM step for `Equal(n)` with the M-Equal oracle is `equalN` on the process's stack. -/
theorem handleEqual_eq_equalN (O : Oracle) (X : Ctx) (hO : O.valuesEqual = valuesEqual X)
    (p : Proc) (n : Nat) :
    handleEqual O p n =
      match equalN X n p.stack with
      | .ok st => .ok (({ p with stack := st } : Proc).bump, none)
      | .err _ => .error .stackUnderflow
      | .panic => .error .panic := by
  unfold handleEqual equalN
  rw [hO]
  split
  · rfl
  · generalize (List.take n p.stack).reverse = l
    cases l <;> rfl

/-- The VM's `Equal(2); Not` on a well-formed pair leaves NIL (= "requirement holds", the following
`JumpIf fail` is not taken) exactly when the two values have the same erasure. -/
theorem vm_equal_not_verdict (O : Oracle) (X : Ctx) (hO : O.valuesEqual = valuesEqual X)
    (hX : X.Coherent) (pf : Nat → Nat) (a b : Val) (ha : WF X pf a) (hb : WF X pf b)
    (p : Proc) (rest : List Val) (hs : p.stack = b :: a :: rest) :
    ∃ p', handleEqual O p 2 = .ok (p', none) ∧
      p'.stack = (if erase X a = erase X b then Val.ok else Val.nil) :: rest := by
  have hspec := equalN_spec X hX pf 2 p.stack (by
    intro v hv; rw [hs] at hv; simp at hv; rcases hv with rfl | rfl <;> assumption)
  rw [handleEqual_eq_equalN O X hO, hspec, hs]
  simp only [List.length_cons, List.take_succ_cons, List.take_zero, List.reverse_cons,
    List.reverse_nil, List.nil_append, List.cons_append, List.drop_succ_cons, List.drop_zero]
  have h2 : ¬ (2 > rest.length + 1 + 1) := by omega
  simp only [h2, if_false]
  refine ⟨_, rfl, ?_⟩
  have : (∀ v ∈ [a, b], erase X a = erase X v) ↔ erase X a = erase X b := by simp
  by_cases h : erase X a = erase X b
  · simp [Proc.bump, h]
    split <;> simp
  · simp [Proc.bump, h]
    split <;> simp

end C13
