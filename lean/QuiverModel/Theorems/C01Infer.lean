import QuiverModel.Lemmas.Soundness.InferBasic
import QuiverModel.Theorems.C01
import QuiverModel.Theorems.C01Field
import QuiverModel.Theorems.C01Seq
/-
C01 — **type soundness of a fragment of the inference, end to end**: `infer_sound_fragment`.

`QM.Soundness.inferProgram` (Core/Soundness/Infer.lean) types straight-line first-order programs of
the documented core syntax (C02's `QM.RefSem`) against the compiled program's own type table and
resolves `.label` accessors to positions. For every program it accepts, every environment that
respects the typing context and every fuel, the reference evaluator on the elaborated program
  * never answers `unspec` (the class of stuck states / ill-typed operations — PROGRESS), and
  * if it answers a value, the value inhabits the inferred type (`inh` of C09 — PRESERVATION).
The proof is by induction on the evaluator's fuel, for all programs at once — no size bound.

It composes the three rules proved separately before — by-name field access
(`field_by_name_sound_*`), the nil bookkeeping of sequences (`seq_nil_sound`) and the generic-call
guard (`guard_unify_sound_partial`) — with tuple construction, literals, variable binding / lookup
and the builtin calls typed through the regenerated signature table.

`TypeSoundnessStatement` is the full statement (every accepted program of the whole language); what
is outside the fragment is listed there. `threaded_only_breaks_infer_sound` and
`skip_seen_types_breaks_infer_sound` show that the two seeded rules (C01-3, C01-4) break the theorem.
-/
namespace C01
open QM.Types QM.RefSem QM.Soundness

/-! ### Accessors -/

theorem project1_index_of_toV {c : Ctx} {v : QM.RefSem.Val} {name : Option Name} {fs : VFields} {idx : Nat}
    {l : Option Name} {u : V} (hv : toV c.nm v = some (.tup name fs)) (hk : fs.toList[idx]? = some (l, u)) :
    ∃ u', project1 v (.index idx) = .ok u' ∧ toV c.nm u' = some u := by
  obtain ⟨n', fs', hv', _, hfs⟩ := toV_tup_inv hv
  obtain ⟨u', h1, h2⟩ := toVFields_index fs' fs idx l u hfs hk
  exact ⟨u', by subst hv'; simp [project1, h1], h2⟩

theorem inferAcc_sound (c : Ctx) (hidx : c.cfg.idx = .always) {t t' : Nat} {a a' : Acc}
    (h : inferAcc c t a = some (t', a')) {v : QM.RefSem.Val} (hv : VT c t v) :
    ∃ u, project1 v a' = .ok u ∧ VT c t' u := by
  obtain ⟨w, hw, hin⟩ := hv
  cases a with
  | label l =>
    simp only [inferAcc] at h
    split at h
    case isFalse => simp at h
    rename_i hok
    split at h
    case h_2 => simp at h
    rename_i idx tys hg
    split at h
    case h_2 => simp at h
    rename_i u hu
    simp only [Option.some.injEq, Prod.mk.injEq] at h
    obtain ⟨h1, h2⟩ := h
    subst h1 h2
    rw [hidx] at hg
    unfold labelOk at hok
    cases hty : c.T.types[t]? with
    | none => rw [hty] at hok; simp at hok
    | some ty =>
      rw [hty] at hok
      cases ty with
      | tuple id =>
        obtain ⟨name, fs, u0, ty0, hwv, hk, hmem, hu0⟩ :=
          field_by_name_sound_tuple c.T (c.cfg.fuel + 1) t id idx (c.nm l) tys hty hg w hin
        subst hwv
        obtain ⟨u', hp, hu'⟩ := project1_index_of_toV hw hk
        exact ⟨u', hp, u0, hu', unionOfTypes_inh hu u0 ty0 hmem hu0⟩
      | union ids =>
        simp only at hok
        have hflat : ∀ i ∈ ids, ∃ id, c.T.types[i]? = some (.tuple id) := by
          intro i hi
          have := List.all_eq_true.mp hok i hi
          unfold isTupleTy at this
          split at this
          · rename_i id hid; exact ⟨id, hid⟩
          · simp at this
        obtain ⟨name, fs, u0, ty0, hwv, hk, hmem, hu0⟩ :=
          field_by_name_sound_union c.T c.cfg.fuel t idx (c.nm l) ids tys hty hflat hg w hin
        subst hwv
        obtain ⟨u', hp, hu'⟩ := project1_index_of_toV hw hk
        have hu0' : inh c.T [] ty0 u0 := inh_ext (Ext.refl c.T) (unionOfTypes_fo hu ty0 hmem) hu0
        exact ⟨u', hp, u0, hu', unionOfTypes_inh hu u0 ty0 hmem hu0'⟩
      | _ => simp at hok
  | index i =>
    simp only [inferAcc] at h
    split at h
    case h_2 => simp at h
    rename_i id hty
    split at h
    case h_2 => simp at h
    rename_i info htu
    split at h
    case h_2 => simp at h
    rename_i lbl ft hfi
    simp only [Option.some.injEq, Prod.mk.injEq] at h
    obtain ⟨h1, h2⟩ := h
    subst h1 h2
    obtain ⟨name, fs, f, hwv, _, hf⟩ := inh_tuple hty htu hin
    subst hwv
    obtain ⟨u0, hk, hg⟩ := fieldsB_at info.fields fs i lbl ft hf hfi
    obtain ⟨u', hp, hu'⟩ := project1_index_of_toV hw hk
    exact ⟨u', hp, u0, hu', f, hg⟩

theorem inferAccs_sound (c : Ctx) (hidx : c.cfg.idx = .always) : ∀ (accs accs' : List Acc) (t t' : Nat)
    (v : QM.RefSem.Val), inferAccs c t accs = some (t', accs') → VT c t v →
    ∃ u, project v accs' = .ok u ∧ VT c t' u
  | [], accs', t, t', v, h, hv => by
    simp only [inferAccs, Option.some.injEq, Prod.mk.injEq] at h
    obtain ⟨h1, h2⟩ := h
    subst h1 h2
    exact ⟨v, rfl, hv⟩
  | a :: rest, accs', t, t', v, h, hv => by
    simp only [inferAccs] at h
    split at h
    case h_2 => simp at h
    rename_i t1 a' ha
    split at h
    case h_2 => simp at h
    rename_i t2 rest' hr
    simp only [Option.some.injEq, Prod.mk.injEq] at h
    obtain ⟨h1, h2⟩ := h
    subst h1 h2
    obtain ⟨u1, hp1, hu1⟩ := inferAcc_sound c hidx ha hv
    obtain ⟨u, hp, hu⟩ := inferAccs_sound c hidx rest rest' t1 t2 u1 hr hu1
    exact ⟨u, by simp [project, hp1, hp], hu⟩

/-! ### Builtins -/

/-- the outcomes the theorem allows: a value with the property, fuel exhaustion, or a value-domain
error of a builtin (`InvalidArgument`: division by zero) — never `unspec`. -/
def Good {α : Type} (r : Res α) (P : α → Prop) : Prop :=
  match r with
  | .ok a => P a
  | .fuelOut => True
  | .err _ => True
  | .unspec _ => False

theorem Good.bind {α β : Type} {r : Res α} {f : α → Res β} {P : α → Prop} {Q : β → Prop}
    (h : Good r P) (hf : ∀ a, P a → Good (f a) Q) : Good (r.bind f) Q := by
  cases r with
  | ok a => exact hf a h
  | fuelOut => trivial
  | err _ => trivial
  | unspec _ => exact h

theorem shape_sigs :
    builtinShape "integer_add" = some (.ii, .i) ∧ builtinShape "integer_subtract" = some (.ii, .i) ∧
    builtinShape "integer_multiply" = some (.ii, .i) ∧ builtinShape "integer_divide" = some (.ii, .i) ∧
    builtinShape "integer_modulo" = some (.ii, .i) ∧ builtinShape "integer_compare" = some (.ii, .i) ∧
    builtinShape "integer_abs" = some (.i, .i) ∧ builtinShape "binary_length" = some (.b, .i) ∧
    builtinShape "binary_concat" = some (.bb, .b) := by decide

theorem pair_inv {c : Ctx} {t id i : Nat} (hty : c.T.types[t]? = some (.tuple id))
    (htu : c.T.tuples[id]? = some ⟨none, [(none, i), (none, i)]⟩) {v : QM.RefSem.Val} (hv : VT c t v) :
    ∃ n l1 l2 x y, v = .tup n [(l1, x), (l2, y)] ∧ VT c i x ∧ VT c i y := by
  obtain ⟨w, hw, hin⟩ := hv
  obtain ⟨name, fs, f, hwv, _, hf⟩ := inh_tuple hty htu hin
  subst hwv
  cases fs with
  | nil => simp [fieldsB] at hf
  | cons l1 w1 r1 =>
    cases r1 with
    | nil => simp [fieldsB] at hf
    | cons l2 w2 r2 =>
      cases r2 with
      | cons _ _ _ => simp [fieldsB] at hf
      | nil =>
        simp only [fieldsB, Bool.and_eq_true, decide_eq_true_eq, and_true] at hf
        obtain ⟨⟨_, h1⟩, _, h2⟩ := hf
        obtain ⟨n', fs', hv', _, hfs⟩ := toV_tup_inv hw
        obtain ⟨l1', x, rest, hfs1, _, hx, hrest⟩ := toVFields_cons_inv hfs
        obtain ⟨l2', y, rest2, hfs2, _, hy, hrest2⟩ := toVFields_cons_inv hrest
        have := toVFields_nil_inv hrest2
        subst this hfs2 hfs1 hv'
        exact ⟨n', l1', l2', x, y, rfl, ⟨w1, hx, f, h1⟩, ⟨w2, hy, f, h2⟩⟩

theorem vt_int_inv {c : Ctx} {t : Nat} (hty : c.T.types[t]? = some .integer) {v : QM.RefSem.Val}
    (hv : VT c t v) : ∃ z, v = .int z := by
  obtain ⟨w, hw, hin⟩ := hv
  obtain ⟨z, hz⟩ := inh_integer hty hin
  subst hz
  exact ⟨z, toV_int_inv hw⟩

theorem vt_bin_inv {c : Ctx} {t : Nat} (hty : c.T.types[t]? = some .binary) {v : QM.RefSem.Val}
    (hv : VT c t v) : ∃ bs, v = .bin bs := by
  obtain ⟨w, hw, hin⟩ := hv
  obtain ⟨bs, hz⟩ := inh_binary hty hin
  subst hz
  exact ⟨bs, toV_bin_inv hw⟩

theorem vt_int_intro {c : Ctx} {t : Nat} (hty : c.T.types[t]? = some .integer) (z : Int) :
    VT c t (.int z) := ⟨.int z, by simp [toV], inh_int_intro hty z⟩

theorem vt_bin_intro {c : Ctx} {t : Nat} (hty : c.T.types[t]? = some .binary) (bs : List UInt8) :
    VT c t (.bin bs) := ⟨.bin bs, by simp [toV], inh_bin_intro hty bs⟩

/-- what a value of the type of a signature shape looks like. -/
def ShapeVal : Shape → QM.RefSem.Val → Prop
  | .i, v => ∃ z, v = .int z
  | .b, v => ∃ bs, v = .bin bs
  | .ii, v => ∃ n l1 l2 a b, v = .tup n [(l1, .int a), (l2, .int b)]
  | .bb, v => ∃ n l1 l2 a b, v = .tup n [(l1, .bin a), (l2, .bin b)]

theorem shape_inv {c : Ctx} {s : Shape} {t : Nat} (h : shapeTy c.T s = some t) {v : QM.RefSem.Val}
    (hv : VT c t v) : ShapeVal s v := by
  cases s with
  | i => exact vt_int_inv (findType_spec h) hv
  | b => exact vt_bin_inv (findType_spec h) hv
  | ii =>
    simp only [shapeTy] at h
    split at h
    case h_2 => simp at h
    rename_i i hi
    obtain ⟨id, hty, htu⟩ := tupleType_spec h
    obtain ⟨n, l1, l2, x, y, hv', hx, hy⟩ := pair_inv hty htu hv
    obtain ⟨a, ha⟩ := vt_int_inv (findType_spec hi) hx
    obtain ⟨b, hb⟩ := vt_int_inv (findType_spec hi) hy
    subst ha hb
    exact ⟨n, l1, l2, a, b, hv'⟩
  | bb =>
    simp only [shapeTy] at h
    split at h
    case h_2 => simp at h
    rename_i i hi
    obtain ⟨id, hty, htu⟩ := tupleType_spec h
    obtain ⟨n, l1, l2, x, y, hv', hx, hy⟩ := pair_inv hty htu hv
    obtain ⟨a, ha⟩ := vt_bin_inv (findType_spec hi) hx
    obtain ⟨b, hb⟩ := vt_bin_inv (findType_spec hi) hy
    subst ha hb
    exact ⟨n, l1, l2, a, b, hv'⟩

/-- **the builtins of the fragment respect the regenerated signature table**: on an argument of
the declared parameter type the reference implementation answers a value of the declared result
type or a value-domain error, never "ill-typed". -/
theorem builtin_sound (c : Ctx) {name : String} {sp sr : Shape} {pt rt : Nat}
    (hn : refBuiltins.contains name = true) (hs : builtinShape name = some (sp, sr))
    (hp : shapeTy c.T sp = some pt) (hr : shapeTy c.T sr = some rt) {v : QM.RefSem.Val}
    (hv : VT c pt v) : Good (evalBuiltin name v) (fun out => VT c rt out) := by
  obtain ⟨s1, s2, s3, s4, s5, s6, s7, s8, s9⟩ := shape_sigs
  simp only [refBuiltins, List.contains_cons, List.contains_nil, Bool.or_false, Bool.or_eq_true,
    beq_iff_eq] at hn
  have hint : ∀ z : Int, sr = .i → VT c rt (.int z) := fun z h => by
    subst h; exact vt_int_intro (findType_spec hr) z
  rcases hn with h | h | h | h | h | h | h | h | h <;> subst h
  · rw [s1] at hs; simp only [Option.some.injEq, Prod.mk.injEq] at hs
    obtain ⟨h1, h2⟩ := hs; subst h1
    obtain ⟨n, l1, l2, a, b, hv'⟩ := shape_inv hp hv
    subst hv'; simp only [evalBuiltin, int2, Good]; exact hint _ h2.symm
  · rw [s2] at hs; simp only [Option.some.injEq, Prod.mk.injEq] at hs
    obtain ⟨h1, h2⟩ := hs; subst h1
    obtain ⟨n, l1, l2, a, b, hv'⟩ := shape_inv hp hv
    subst hv'; simp only [evalBuiltin, int2, Good]; exact hint _ h2.symm
  · rw [s3] at hs; simp only [Option.some.injEq, Prod.mk.injEq] at hs
    obtain ⟨h1, h2⟩ := hs; subst h1
    obtain ⟨n, l1, l2, a, b, hv'⟩ := shape_inv hp hv
    subst hv'; simp only [evalBuiltin, int2, Good]; exact hint _ h2.symm
  · rw [s4] at hs; simp only [Option.some.injEq, Prod.mk.injEq] at hs
    obtain ⟨h1, h2⟩ := hs; subst h1
    obtain ⟨n, l1, l2, a, b, hv'⟩ := shape_inv hp hv
    subst hv'; simp only [evalBuiltin, int2]
    split
    · trivial
    · exact hint _ h2.symm
  · rw [s5] at hs; simp only [Option.some.injEq, Prod.mk.injEq] at hs
    obtain ⟨h1, h2⟩ := hs; subst h1
    obtain ⟨n, l1, l2, a, b, hv'⟩ := shape_inv hp hv
    subst hv'; simp only [evalBuiltin, int2]
    split
    · trivial
    · exact hint _ h2.symm
  · rw [s6] at hs; simp only [Option.some.injEq, Prod.mk.injEq] at hs
    obtain ⟨h1, h2⟩ := hs; subst h1
    obtain ⟨n, l1, l2, a, b, hv'⟩ := shape_inv hp hv
    subst hv'; simp only [evalBuiltin, int2, Good]; exact hint _ h2.symm
  · rw [s7] at hs; simp only [Option.some.injEq, Prod.mk.injEq] at hs
    obtain ⟨h1, h2⟩ := hs; subst h1
    obtain ⟨z, hv'⟩ := shape_inv hp hv
    subst hv'; simp only [evalBuiltin, Good]; exact hint _ h2.symm
  · rw [s8] at hs; simp only [Option.some.injEq, Prod.mk.injEq] at hs
    obtain ⟨h1, h2⟩ := hs; subst h1
    obtain ⟨z, hv'⟩ := shape_inv hp hv
    subst hv'; simp only [evalBuiltin, Good]; exact hint _ h2.symm
  · rw [s9] at hs; simp only [Option.some.injEq, Prod.mk.injEq] at hs
    obtain ⟨h1, h2⟩ := hs; subst h1
    obtain ⟨n, l1, l2, a, b, hv'⟩ := shape_inv hp hv
    subst hv'; simp only [evalBuiltin, Good]
    subst h2
    exact vt_bin_intro (findType_spec hr) _

/-! ### Environments -/

/-- what the typing context assumes of an environment FUNCTION of type `p -> r`: for every
instantiation of the type variables, applied (as a chain term, `callFlow`) to a value of the
instantiated parameter type it answers a value of the instantiated result type, runs out of fuel or
fails in the value domain. (Function literals are not typed by the fragment; this is the semantic
typing of the closures the environment provides.) -/
def FunOK (c : Ctx) (f : QM.RefSem.Val) (p r : Nat) : Prop :=
  ∀ (σ : Bindings) (k1 k2 p' r' : Nat), substitute σ k1 c.T p = some (c.T, p') →
    substitute σ k2 c.T r = some (c.T, r') →
    ∀ arg, VT c p' arg → ∀ fuel, Good (callFlow fuel f arg) (fun out => VT c r' out)

/-- `ρ ⊨ Γ` (and `ρ ⊨ Φ` for the function names `Γ` does not shadow). -/
structure EnvOK (c : Ctx) (Γ : TEnv) (ρ : Env) : Prop where
  vars : ∀ x t, tlookup Γ x = some t → ∃ v, lookup ρ x = some (some v) ∧ VT c t v
  funs : ∀ x p r, tlookup Γ x = none → flookup c.Φ x = some (p, r) →
    ∃ f, lookup ρ x = some (some f) ∧ f.isCallable = true ∧ FunOK c f p r

theorem EnvOK.push {c : Ctx} {Γ : TEnv} {ρ : Env} (h : EnvOK c Γ ρ) {x : String} {t : Nat}
    {v : QM.RefSem.Val} (hv : VT c t v) : EnvOK c ((x, t) :: Γ) ((x, some v) :: ρ) := by
  constructor
  · intro y t' hy
    simp only [tlookup] at hy
    by_cases hyx : y = x
    · simp only [hyx, if_true, Option.some.injEq] at hy
      subst hy
      exact ⟨v, by simp [lookup, hyx], hv⟩
    · simp only [hyx, if_false] at hy
      obtain ⟨v', h1, h2⟩ := h.vars y t' hy
      exact ⟨v', by simp [lookup, hyx, h1], h2⟩
  · intro y p r hy hf
    simp only [tlookup] at hy
    by_cases hyx : y = x
    · simp [hyx] at hy
    · simp only [hyx, if_false] at hy
      obtain ⟨f, h1, h2⟩ := h.funs y p r hy hf
      exact ⟨f, by simp [lookup, hyx, h1], h2⟩

theorem doMatch_bind (ρ : Env) (x : String) (v : QM.RefSem.Val) :
    doMatch ρ (.bind x) v = .ok (Val.okv, (x, some v) :: ρ) := by
  simp [doMatch, matchPat, bindVar, lookup]

theorem vt_ok {c : Ctx} {t : Nat} (h : okTy c = some t) : VT c t Val.okv := by
  obtain ⟨id, hty, htu⟩ := tupleType_spec h
  exact ⟨.tup (some (c.nm "Ok")) .nil, by simp [Val.okv, toV, toVFields],
    inh_tuple_intro (F := 0) hty htu (by simp [fieldsB])⟩

theorem vt_nil {c : Ctx} {t : Nat} (h : nilTy c = some t) : VT c t Val.nil := by
  obtain ⟨id, hty, htu⟩ := tupleType_spec h
  exact ⟨.tup none .nil, by simp [Val.nil, toV, toVFields], inh_nil_intro hty htu⟩

/-! ### Tuple fields -/

/-- the fields built so far, position by position: same label, value of the field's type. -/
def FieldsRel (c : Ctx) : List (Option String × Nat) → Fields → Prop
  | [], [] => True
  | (l, t) :: ts, (m, v) :: fs => l = m ∧ VT c t v ∧ FieldsRel c ts fs
  | _, _ => False

theorem FieldsRel.labels {c : Ctx} : ∀ (ts : List (Option String × Nat)) (fs : Fields),
    FieldsRel c ts fs → fs.map (·.1) = ts.map (·.1)
  | [], [], _ => rfl
  | [], _ :: _, h => by simp [FieldsRel] at h
  | _ :: _, [], h => by simp [FieldsRel] at h
  | (l, t) :: ts, (m, v) :: fs, h => by
    simp only [FieldsRel] at h
    simp [h.1, FieldsRel.labels ts fs h.2.2]

theorem FieldsRel.snoc {c : Ctx} : ∀ (ts : List (Option String × Nat)) (fs : Fields) (l : Option String)
    (t : Nat) (v : QM.RefSem.Val), FieldsRel c ts fs → VT c t v → FieldsRel c (ts ++ [(l, t)]) (fs ++ [(l, v)])
  | [], [], l, t, v, _, hv => by simp [FieldsRel, hv]
  | [], _ :: _, _, _, _, h, _ => by simp [FieldsRel] at h
  | _ :: _, [], _, _, _, h, _ => by simp [FieldsRel] at h
  | (l', t') :: ts, (m, w) :: fs, l, t, v, h, hv => by
    simp only [FieldsRel] at h
    simp only [List.cons_append, FieldsRel]
    exact ⟨h.1, h.2.1, FieldsRel.snoc ts fs l t v h.2.2 hv⟩

/-- typed fields translate to fields of the type model that inhabit the field types. -/
theorem FieldsRel.inh {c : Ctx} : ∀ (ts : List (Option String × Nat)) (fs : Fields), FieldsRel c ts fs →
    ∃ ws F, toVFields c.nm fs = some ws ∧
      fieldsB (inhB c.T F []) (ts.map fun f => (f.1.map c.nm, f.2)) ws = true
  | [], [], _ => ⟨.nil, 0, by simp [toVFields], by simp [fieldsB]⟩
  | [], _ :: _, h => by simp [FieldsRel] at h
  | _ :: _, [], h => by simp [FieldsRel] at h
  | (l, t) :: ts, (m, v) :: fs, h => by
    simp only [FieldsRel] at h
    obtain ⟨hl, ⟨w, hw, F1, hF1⟩, hrest⟩ := h
    obtain ⟨ws, F2, hws, hF2⟩ := FieldsRel.inh ts fs hrest
    refine ⟨.cons (m.map c.nm) w ws, max F1 F2, by simp [toVFields, hw, hws], ?_⟩
    simp only [List.map_cons, fieldsB, Bool.and_eq_true, decide_eq_true_eq]
    refine ⟨⟨by rw [hl], inhB_mono c.T (Nat.le_max_left ..) [] t w hF1⟩, ?_⟩
    exact fieldsB_mono _ ws (fun p _ u hu => inhB_mono c.T (Nat.le_max_right ..) [] p.2 u hu) hF2

theorem setOrAppend_fresh {c : Ctx} {accT : List (Option String × Nat)} {acc : Fields} {seen : List String}
    (hrel : FieldsRel c accT acc) (hseen : ∀ l, some l ∈ accT.map (·.1) → l ∈ seen)
    (label : Option String) (hfresh : labelSeen label seen = false)
    (v : QM.RefSem.Val) : setOrAppend acc label v = acc ++ [(label, v)] := by
  cases label with
  | none => rfl
  | some l =>
    simp only [setOrAppend]
    have hno : acc.any (fun f => decide (f.1 = some l)) = false := by
      rw [Bool.eq_false_iff]
      intro hany
      obtain ⟨f, hf, hfl⟩ := List.any_eq_true.mp hany
      simp only [decide_eq_true_eq] at hfl
      have : some l ∈ acc.map (·.1) := List.mem_map.mpr ⟨f, hf, hfl⟩
      rw [FieldsRel.labels accT acc hrel] at this
      have := hseen l this
      simp only [labelSeen] at hfresh
      rw [List.contains_iff_mem.mpr this] at hfresh
      exact Bool.noConfusion hfresh
    simp [hno]

/-! ### Patterns -/

/-- the bindings a pattern made, position by position: same name, a value of the binder's type. -/
def BindsOK (c : Ctx) : TEnv → Env → Prop
  | [], [] => True
  | (x, t) :: bs, (y, ov) :: es => x = y ∧ (∃ v, ov = some v ∧ VT c t v) ∧ BindsOK c bs es
  | _, _ => False

theorem BindsOK.append {c : Ctx} : ∀ (b1 : TEnv) (e1 : Env) (b2 : TEnv) (e2 : Env),
    BindsOK c b1 e1 → BindsOK c b2 e2 → BindsOK c (b1 ++ b2) (e1 ++ e2)
  | [], [], _, _, _, h2 => h2
  | [], _ :: _, _, _, h1, _ => by simp [BindsOK] at h1
  | _ :: _, [], _, _, h1, _ => by simp [BindsOK] at h1
  | (x, t) :: bs, (y, ov) :: es, b2, e2, h1, h2 => by
    simp only [BindsOK] at h1
    simp only [List.cons_append, BindsOK]
    exact ⟨h1.1, h1.2.1, BindsOK.append bs es b2 e2 h1.2.2 h2⟩

theorem EnvOK.pushBinds {c : Ctx} {Γ : TEnv} {ρ : Env} (h : EnvOK c Γ ρ) : ∀ (bs : TEnv) (es : Env),
    BindsOK c bs es → EnvOK c (bs ++ Γ) (es ++ ρ)
  | [], [], _ => h
  | [], _ :: _, hb => by simp [BindsOK] at hb
  | _ :: _, [], hb => by simp [BindsOK] at hb
  | (x, t) :: bs, (y, ov) :: es, hb => by
    simp only [BindsOK] at hb
    obtain ⟨hxy, ⟨v, hov, hv⟩, hrest⟩ := hb
    subst hxy hov
    exact (EnvOK.pushBinds h bs es hrest).push hv

/-- a successful match tells that the scrutinee has the narrowed type, whatever the rule. -/
theorem narrowTo_sound {c : Ctx} {t m m' : Nat} {irref : Bool} (h : narrowTo c t m irref = some m')
    {v : QM.RefSem.Val} (ht : VT c t v) (hm : VT c m v) : VT c m' v := by
  unfold narrowTo at h
  split at h
  · simp only [Option.some.injEq] at h; subst h; exact ht
  · simp only [Option.some.injEq] at h; subst h; exact hm
  · split at h
    · split at h
      · obtain ⟨w, hw, hin⟩ := hm
        exact ⟨w, hw, unionPair_inh h w (Or.inl hin)⟩
      · simp at h
    · simp only [Option.some.injEq] at h; subst h; exact hm

/-- the names bound so far by the pattern are among `seen`. -/
def AccNames (acc : Env) (seen : List String) : Prop := ∀ y, lookup acc y ≠ none → y ∈ seen

theorem lookup_append_names : ∀ (bs acc : Env) (y : String), lookup (bs ++ acc) y ≠ none →
    y ∈ bs.map (·.1) ∨ lookup acc y ≠ none
  | [], _, _, h => Or.inr h
  | (x, ov) :: bs, acc, y, h => by
    simp only [List.cons_append, lookup] at h
    by_cases hyx : y = x
    · left; simp [hyx]
    · simp only [hyx, if_false] at h
      rcases lookup_append_names bs acc y h with h' | h'
      · left; simp [h']
      · right; exact h'

theorem AccNames.extend {acc : Env} {seen : List String} (h : AccNames acc seen) {bs : Env}
    {names : List String} (hn : bs.map (·.1) = names) : AccNames (bs ++ acc) (names ++ seen) := by
  intro y hy
  rcases lookup_append_names bs acc y hy with h' | h'
  · exact List.mem_append_left _ (hn ▸ h')
  · exact List.mem_append_right _ (h y h')

def FieldsVT (c : Ctx) : List Nat → Fields → Prop
  | [], [] => True
  | t :: ts, (_, v) :: fs => VT c t v ∧ FieldsVT c ts fs
  | _, _ => False

theorem eqv_int_ne_none (z : Int) (v : QM.RefSem.Val) : Val.eqv (.int z) v ≠ none := by
  cases v <;> simp [Val.eqv]

theorem eqv_bin_ne_none (bs : List UInt8) (v : QM.RefSem.Val) : Val.eqv (.bin bs) v ≠ none := by
  cases v <;> simp [Val.eqv]

theorem eqv_int_true {z : Int} {v : QM.RefSem.Val} (h : Val.eqv (.int z) v = some true) : v = .int z := by
  cases v <;> simp [Val.eqv] at h
  rw [h]

theorem eqv_bin_true {bs : List UInt8} {v : QM.RefSem.Val} (h : Val.eqv (.bin bs) v = some true) :
    v = .bin bs := by
  cases v <;> simp [Val.eqv] at h
  rw [h]

/-- the leaf patterns: literals and `='int` / `='bin`. `ok v` = "the run-time test succeeds". -/
theorem leafRes_sound {c : Ctx} {t : Nat} {ty : QM.Types.Ty} {isTest : Bool} {r : PatRes}
    (h : leafRes c t ty isTest = some r) (hty : ty = .integer ∨ ty = .binary) :
    r.binds = [] ∧
    (∀ v, VT c t v → (∀ i, c.T.types[i]? = some ty → VT c i v) → VT c r.matched v) ∧
    (r.irref = true → isTest = true ∧ c.T.types[t]? = some ty) ∧
    c.T.types[r.covered]? = some ty ∧ r.faithful = isTest := by
  unfold leafRes at h
  split at h
  case h_2 => simp at h
  rename_i i hi
  split at h
  case isFalse => simp at h
  dsimp only at h
  split at h
  case h_2 => simp at h
  rename_i m hm
  simp only [Option.some.injEq] at h
  subst h
  refine ⟨rfl, fun v hv hiv => narrowTo_sound hm hv (hiv i (findType_spec hi)), ?_, findType_spec hi, rfl⟩
  intro hir
  simp only [Bool.and_eq_true, decide_eq_true_eq] at hir
  exact ⟨hir.1, hir.2 ▸ findType_spec hi⟩

/-- labels of a value's fields, seen from both sides. -/
theorem fieldsB_labels {g : Nat → V → Bool} : ∀ (fields : List (Option Name × Nat)) (ws : VFields),
    fieldsB g fields ws = true → fields.map (·.1) = ws.toList.map (·.1)
  | [], .nil, _ => rfl
  | [], .cons _ _ _, h => by simp [fieldsB] at h
  | _ :: _, .nil, h => by simp [fieldsB] at h
  | p :: rest, .cons l w ws, h => by
    simp only [fieldsB, Bool.and_eq_true, decide_eq_true_eq] at h
    simp [VFields.toList, h.1.1, fieldsB_labels rest ws h.2]

theorem toVFields_labels {nm : String → Name} : ∀ (fs : Fields) (ws : VFields), toVFields nm fs = some ws →
    ws.toList.map (·.1) = fs.map (fun f => f.1.map nm)
  | [], ws, h => by
    simp only [toVFields, Option.some.injEq] at h
    subst h; rfl
  | (l, v) :: rest, ws, h => by
    simp only [toVFields] at h
    split at h
    · rename_i w ws' hw hws
      simp only [Option.some.injEq] at h
      subst h
      simp [VFields.toList, toVFields_labels rest ws' hws]
    · simp at h

theorem fieldsB_FieldsVT {c : Ctx} {f : Nat} : ∀ (fields : List (Option Name × Nat)) (ws : VFields) (fs : Fields),
    fieldsB (inhB c.T f []) fields ws = true → toVFields c.nm fs = some ws → FieldsVT c (fields.map (·.2)) fs
  | [], .nil, fs, _, hfs => by
    have := toVFields_nil_inv hfs
    subst this; simp [FieldsVT]
  | [], .cons _ _ _, _, h, _ => by simp [fieldsB] at h
  | _ :: _, .nil, _, h, _ => by simp [fieldsB] at h
  | p :: rest, .cons l w ws, fs, h, hfs => by
    simp only [fieldsB, Bool.and_eq_true, decide_eq_true_eq] at h
    obtain ⟨l', v, rest', hfs', _, hv, hrest⟩ := toVFields_cons_inv hfs
    subst hfs'
    simp only [List.map_cons, FieldsVT]
    exact ⟨⟨w, hv, f, h.1.2⟩, fieldsB_FieldsVT rest ws rest' h.2 hrest⟩

theorem optmap_inj {nm : String → Name} (hinj : Function.Injective nm) {a b : Option String}
    (h : a.map nm = b.map nm) : a = b := by
  cases a <;> cases b <;> simp at h ⊢
  exact hinj h

theorem labels_inj {nm : String → Name} (hinj : Function.Injective nm) : ∀ (a b : List (Option String)),
    a.map (fun l => l.map nm) = b.map (fun l => l.map nm) → a = b
  | [], [], _ => rfl
  | [], _ :: _, h => by simp at h
  | _ :: _, [], h => by simp at h
  | x :: xs, y :: ys, h => by
    simp only [List.map_cons, List.cons.injEq] at h
    rw [optmap_inj hinj h.1, labels_inj hinj xs ys h.2]

def PatPost (c : Ctx) (t : Nat) (r : PatRes) (v : QM.RefSem.Val) (acc : Env) : MRes → Prop
  | .unspec _ => False
  | .failed => (VT c t v → r.irref = false) ∧ (r.faithful = true → ¬ VT c r.covered v)
  | .matched acc' => ∃ bs, acc' = bs ++ acc ∧ bs.map (·.1) = r.binds.map (·.1) ∧
      (VT c t v → BindsOK c r.binds bs ∧ VT c r.matched v)

def FieldsPost (c : Ctx) (fts : List Nat) (binds : TEnv) (irr : Bool) (pfs : List (Option String × Pat))
    (fs : Fields) (acc : Env) : MRes → Prop
  | .unspec _ => False
  | .failed => fs.map (·.1) = pfs.map (·.1) → FieldsVT c fts fs → irr = false
  | .matched acc' => fs.map (·.1) = pfs.map (·.1) ∧ ∃ bs, acc' = bs ++ acc ∧
      bs.map (·.1) = binds.map (·.1) ∧ (FieldsVT c fts fs → BindsOK c binds bs)

theorem hasType_int (v : QM.RefSem.Val) : hasType .int v = true ↔ ∃ z, v = .int z := by
  cases v <;> simp [hasType]

theorem hasType_bin (v : QM.RefSem.Val) : hasType .bin v = true ↔ ∃ bs, v = .bin bs := by
  cases v <;> simp [hasType]

/-- a value of the scrutinee type that has the pattern's name and labels lies in THE variant of
that shape. -/
theorem tuple_variant_of_shape {c : Ctx} {t k : Nat} {n : Option String} {labels : List (Option String)}
    (hok : tupScrutOk c t = true)
    (hk : (flat1 c.T t).filter (fun j => (tupleShape c n labels j).isSome) = [k])
    {fs : Fields} (hlab : fs.map (·.1) = labels) (hv : VT c t (.tup n fs)) : VT c k (.tup n fs) := by
  obtain ⟨w, hw, hin⟩ := hv
  unfold tupScrutOk at hok
  simp only [Bool.and_eq_true] at hok
  obtain ⟨j, hj, hjw⟩ := flat1_inh ⟨_, hok.1⟩ hin
  have hs := List.all_eq_true.mp hok.2 j hj
  have ⟨ws0, hfs', hw'⟩ : ∃ ws, toVFields c.nm fs = some ws ∧ w = .tup (n.map c.nm) ws := by
    simp only [toV] at hw
    split at hw
    · rename_i ws hws
      simp only [Option.some.injEq] at hw
      exact ⟨ws, hws, hw.symm⟩
    · simp at hw
  unfold simpleTy at hs
  cases hty : c.T.types[j]? with
  | none => rw [hty] at hs; simp at hs
  | some ty =>
    rw [hty] at hs
    cases ty with
    | integer => obtain ⟨z, hz⟩ := inh_integer hty hjw; rw [hw'] at hz; simp at hz
    | binary => obtain ⟨z, hz⟩ := inh_binary hty hjw; rw [hw'] at hz; simp at hz
    | tuple id =>
      cases htu : c.T.tuples[id]? with
      | none =>
        obtain ⟨f, hf⟩ := hjw
        cases f with
        | zero => simp [inhB] at hf
        | succ f => unfold inhB at hf; rw [hty] at hf; simp only at hf; rw [htu] at hf; simp at hf
      | some info =>
        obtain ⟨name, ws, f, hwv, hname, hf⟩ := inh_tuple hty htu hjw
        rw [hw'] at hwv
        simp only [V.tup.injEq] at hwv
        obtain ⟨hn2, hws2⟩ := hwv
        have hshape : tupleShape c n labels j = some info := by
          unfold tupleShape
          rw [hty]; simp only; rw [htu]; simp only
          have h1 : info.name = n.map c.nm := by rw [← hname, ← hn2]
          have h2 : info.fields.map (·.1) = labels.map (fun l => l.map c.nm) := by
            rw [fieldsB_labels _ _ hf, ← hws2, toVFields_labels fs _ hfs', ← hlab]
            simp
          simp [h1, h2]
        have hmem : j ∈ (flat1 c.T t).filter (fun j => (tupleShape c n labels j).isSome) := by
          simp [List.mem_filter, hj, hshape]
        rw [hk] at hmem
        simp only [List.mem_singleton] at hmem
        subst hmem
        exact ⟨w, hw, hjw⟩
    | _ => simp at hs

theorem acc_fresh {acc : Env} {seen : List String} (ha : AccNames acc seen) {x : String}
    (hx : seen.contains x = false) : lookup acc x = none := by
  cases hl : lookup acc x with
  | none => rfl
  | some _ =>
    have := ha x (by rw [hl]; simp)
    rw [List.contains_iff_mem.mpr this] at hx
    exact Bool.noConfusion hx

mutual
  /-- **patterns of the fragment**: the run-time match never gets stuck; if it succeeds on a value
  of the scrutinee type, the bindings have their inferred types and the value has the narrowed type;
  if it fails on such a value, the pattern was not claimed irrefutable. -/
  theorem pat_sound (c : Ctx) (hinj : Function.Injective c.nm) (env : Env) : ∀ (p : Pat) (seen : List String)
      (t : Nat) (r : PatRes) (v : QM.RefSem.Val) (acc : Env), inferPat c seen t p = some r →
      AccNames acc seen → PatPost c t r v acc (matchPat env p v acc)
    | .bind x, seen, t, r, v, acc, h, ha => by
      simp only [inferPat] at h
      split at h
      case isTrue => simp at h
      rename_i hx
      simp only [Option.some.injEq] at h
      subst h
      have hl := acc_fresh ha (by simpa using hx)
      simp only [matchPat, bindVar, hl, PatPost]
      exact ⟨[(x, some v)], rfl, rfl, fun hv => ⟨by simp [BindsOK, hv], hv⟩⟩
    | .wild, seen, t, r, v, acc, h, _ => by
      simp only [inferPat, Option.some.injEq] at h
      subst h
      simp only [matchPat, PatPost]
      exact ⟨[], rfl, rfl, fun hv => ⟨by simp [BindsOK], hv⟩⟩
    | .lit (.int z), seen, t, r, v, acc, h, _ => by
      simp only [inferPat] at h
      obtain ⟨hb, hm, hir, _, hfa⟩ := leafRes_sound h (Or.inl rfl)
      simp only [matchPat, eqTest, litVal]
      cases hq : Val.eqv (.int z) v with
      | none => exact absurd hq (eqv_int_ne_none z v)
      | some b =>
        cases b with
        | true =>
          simp only [PatPost]
          refine ⟨[], rfl, by simp [hb], fun hv => ⟨by simp [hb, BindsOK], ?_⟩⟩
          exact hm v hv (fun i hi => by rw [eqv_int_true hq]; exact vt_int_intro hi z)
        | false =>
          simp only [PatPost]
          refine ⟨fun _ => ?_, fun hf => by rw [hfa] at hf; exact Bool.noConfusion hf⟩
          cases hr : r.irref with
          | false => rfl
          | true => have := (hir hr).1; simp at this
    | .lit (.bin bs), seen, t, r, v, acc, h, _ => by
      simp only [inferPat] at h
      obtain ⟨hb, hm, hir, _, hfa⟩ := leafRes_sound h (Or.inr rfl)
      simp only [matchPat, eqTest, litVal]
      cases hq : Val.eqv (.bin bs) v with
      | none => exact absurd hq (eqv_bin_ne_none bs v)
      | some b =>
        cases b with
        | true =>
          simp only [PatPost]
          refine ⟨[], rfl, by simp [hb], fun hv => ⟨by simp [hb, BindsOK], ?_⟩⟩
          exact hm v hv (fun i hi => by rw [eqv_bin_true hq]; exact vt_bin_intro hi bs)
        | false =>
          simp only [PatPost]
          refine ⟨fun _ => ?_, fun hf => by rw [hfa] at hf; exact Bool.noConfusion hf⟩
          cases hr : r.irref with
          | false => rfl
          | true => have := (hir hr).1; simp at this
    | .type .int, seen, t, r, v, acc, h, _ => by
      simp only [inferPat] at h
      obtain ⟨hb, hm, hir, hcov, _⟩ := leafRes_sound h (Or.inl rfl)
      simp only [matchPat]
      cases hq : hasType .int v with
      | true =>
        obtain ⟨z, hz⟩ := (hasType_int v).mp hq
        simp only [if_true, PatPost]
        refine ⟨[], rfl, by simp [hb], fun hv => ⟨by simp [hb, BindsOK], ?_⟩⟩
        exact hm v hv (fun i hi => by rw [hz]; exact vt_int_intro hi z)
      | false =>
        simp only [Bool.false_eq_true, if_false, PatPost]
        refine ⟨fun hv => ?_, fun _ hv => ?_⟩
        · cases hr : r.irref with
          | false => rfl
          | true =>
            obtain ⟨z, hz⟩ := vt_int_inv (hir hr).2 hv
            rw [hz] at hq; simp [hasType] at hq
        · obtain ⟨z, hz⟩ := vt_int_inv hcov hv
          rw [hz] at hq; simp [hasType] at hq
    | .type .bin, seen, t, r, v, acc, h, _ => by
      simp only [inferPat] at h
      obtain ⟨hb, hm, hir, hcov, _⟩ := leafRes_sound h (Or.inr rfl)
      simp only [matchPat]
      cases hq : hasType .bin v with
      | true =>
        obtain ⟨z, hz⟩ := (hasType_bin v).mp hq
        simp only [if_true, PatPost]
        refine ⟨[], rfl, by simp [hb], fun hv => ⟨by simp [hb, BindsOK], ?_⟩⟩
        exact hm v hv (fun i hi => by rw [hz]; exact vt_bin_intro hi z)
      | false =>
        simp only [Bool.false_eq_true, if_false, PatPost]
        refine ⟨fun hv => ?_, fun _ hv => ?_⟩
        · cases hr : r.irref with
          | false => rfl
          | true =>
            obtain ⟨z, hz⟩ := vt_bin_inv (hir hr).2 hv
            rw [hz] at hq; simp [hasType] at hq
        · obtain ⟨z, hz⟩ := vt_bin_inv hcov hv
          rw [hz] at hq; simp [hasType] at hq
    | .tup n pfs, seen, t, r, v, acc, h, ha => by
      simp only [inferPat] at h
      split at h
      case isTrue => simp at h
      rename_i hok
      simp only [Bool.not_eq_true, Bool.not_eq_false'] at hok
      split at h
      case h_2 => simp at h
      rename_i k hk
      split at h
      case h_2 => simp at h
      rename_i info hinfo
      split at h
      case h_2 => simp at h
      rename_i binds ms irr hfields
      split at h
      case isFalse => simp at h
      split at h
      case h_2 => simp at h
      rename_i m hm
      simp only [Option.some.injEq] at h
      subst h
      -- the variant's own data
      have hkinfo : ∃ id, c.T.types[k]? = some (.tuple id) ∧ c.T.tuples[id]? = some info ∧
          info.name = n.map c.nm ∧ info.fields.map (·.1) = (pfs.map (·.1)).map (fun l => l.map c.nm) := by
        unfold tupleShape at hinfo
        split at hinfo
        · rename_i id hty
          split at hinfo
          · rename_i info' htu
            split at hinfo
            · rename_i hcond
              simp only [Option.some.injEq] at hinfo
              subst hinfo
              exact ⟨id, hty, htu, hcond.1, hcond.2⟩
            · simp at hinfo
          · simp at hinfo
        · simp at hinfo
      obtain ⟨id, hkty, hktu, hkname, hklabels⟩ := hkinfo
      -- both claims about a failed match follow from: no value of the variant `k` fails
      have wrap : ∀ res : MRes, (match res with | .matched _ => True | .unspec _ => True | .failed => (VT c k v → irr = true → False)) →
          (res = .failed → PatPost c t ⟨binds, m, irr && decide (t = k), k, irr⟩ v acc .failed) := by
        intro res hres hfail
        subst hfail
        simp only at hres
        simp only [PatPost]
        refine ⟨fun hv => ?_, fun hf hv => hres hv hf⟩
        cases hr : (irr && decide (t = k)) with
        | false => rfl
        | true =>
          simp only [Bool.and_eq_true, decide_eq_true_eq] at hr
          obtain ⟨hirr, htk⟩ := hr
          subst htk
          exact (hres hv hirr).elim
      cases v with
      | tup m fs =>
        simp only [matchPat]
        by_cases hnm : n = m
        · subst hnm
          simp only [if_true]
          have hF := patFields_sound c hinj env pfs seen (info.fields.map (·.2)) binds ms irr fs acc hfields ha
          cases hq : matchFields env pfs fs acc with
          | unspec why => rw [hq] at hF; exact hF
          | matched acc' =>
            rw [hq] at hF
            simp only [FieldsPost] at hF
            obtain ⟨hlab, bs, hacc, hnames, htyped⟩ := hF
            simp only [PatPost]
            refine ⟨bs, hacc, hnames, fun hv => ?_⟩
            have hvk := tuple_variant_of_shape hok hk hlab hv
            obtain ⟨w, hw, hin⟩ := hvk
            obtain ⟨name, ws, f, hwv, _, hf⟩ := inh_tuple hkty hktu hin
            subst hwv
            obtain ⟨n', fs', hv', _, hfs'⟩ := toV_tup_inv hw
            simp only [QM.RefSem.Val.tup.injEq] at hv'
            obtain ⟨_, hf1⟩ := hv'
            subst hf1
            exact ⟨htyped (fieldsB_FieldsVT _ _ _ hf hfs'), narrowTo_sound hm hv ⟨_, hw, hin⟩⟩
          | failed =>
            rw [hq] at hF
            simp only [FieldsPost] at hF
            refine wrap .failed ?_ rfl
            simp only
            intro hv hirr
            obtain ⟨w, hw, hin⟩ := hv
            obtain ⟨name, ws, f, hwv, hname, hf⟩ := inh_tuple hkty hktu hin
            subst hwv
            obtain ⟨n', fs', hv', hn', hfs'⟩ := toV_tup_inv hw
            simp only [QM.RefSem.Val.tup.injEq] at hv'
            obtain ⟨hn1, hf1⟩ := hv'
            subst hn1 hf1
            have hlab : fs.map (·.1) = pfs.map (·.1) := by
              apply labels_inj hinj
              rw [← hklabels, fieldsB_labels _ _ hf, toVFields_labels fs _ hfs']
              simp
            have := hF hlab (fieldsB_FieldsVT _ _ _ hf hfs')
            rw [hirr] at this
            exact Bool.noConfusion this
        · simp only [hnm, if_false]
          refine wrap .failed ?_ rfl
          simp only
          intro hv _
          obtain ⟨w, hw, hin⟩ := hv
          obtain ⟨name, ws, f, hwv, hname, hf⟩ := inh_tuple hkty hktu hin
          subst hwv
          obtain ⟨n', fs', hv', hn', _⟩ := toV_tup_inv hw
          simp only [QM.RefSem.Val.tup.injEq] at hv'
          obtain ⟨hn1, _⟩ := hv'
          subst hn1
          exact absurd (optmap_inj hinj (by rw [← hkname, ← hname, hn'])) hnm
      | int z =>
        simp only [matchPat]
        refine wrap .failed ?_ rfl
        simp only
        intro hv _
        obtain ⟨w, hw, hin⟩ := hv
        obtain ⟨name, ws, f, hwv, _, _⟩ := inh_tuple hkty hktu hin
        subst hwv
        simp [toV] at hw
      | bin bs =>
        simp only [matchPat]
        refine wrap .failed ?_ rfl
        simp only
        intro hv _
        obtain ⟨w, hw, hin⟩ := hv
        obtain ⟨name, ws, f, hwv, _, _⟩ := inh_tuple hkty hktu hin
        subst hwv
        simp [toV] at hw
      | clo _ _ _ =>
        simp only [matchPat]
        refine wrap .failed ?_ rfl
        simp only
        intro hv _
        obtain ⟨w, hw, _⟩ := hv
        simp [toV] at hw
      | builtin _ =>
        simp only [matchPat]
        refine wrap .failed ?_ rfl
        simp only
        intro hv _
        obtain ⟨w, hw, _⟩ := hv
        simp [toV] at hw
    | .pin _, _, _, _, _, _, h, _ => by simp [inferPat] at h
    | .part _ _, _, _, _, _, _, h, _ => by simp [inferPat] at h
    | .star _, _, _, _, _, _, h, _ => by simp [inferPat] at h
    | .alt _, _, _, _, _, _, h, _ => by simp [inferPat] at h
    | .as _ _, _, _, _, _, _, h, _ => by simp [inferPat] at h
    | .type (.tup _ _), _, _, _, _, _, h, _ => by simp [inferPat] at h
    | .type (.part _ _), _, _, _, _, _, h, _ => by simp [inferPat] at h
    | .type (.union _), _, _, _, _, _, h, _ => by simp [inferPat] at h

  theorem patFields_sound (c : Ctx) (hinj : Function.Injective c.nm) (env : Env) :
      ∀ (pfs : List (Option String × Pat)) (seen : List String) (fts : List Nat) (binds : TEnv)
      (ms : List Nat) (irr : Bool) (fs : Fields) (acc : Env),
      inferPatFields c seen fts pfs = some (binds, ms, irr) → AccNames acc seen →
      FieldsPost c fts binds irr pfs fs acc (matchFields env pfs fs acc)
    | [], seen, fts, binds, ms, irr, fs, acc, h, _ => by
      cases fts with
      | cons _ _ => simp [inferPatFields] at h
      | nil =>
        simp only [inferPatFields, Option.some.injEq, Prod.mk.injEq] at h
        obtain ⟨h1, _, h3⟩ := h
        subst h1 h3
        cases fs with
        | nil =>
          simp only [matchFields, FieldsPost]
          exact ⟨rfl, [], rfl, rfl, fun _ => by simp [BindsOK]⟩
        | cons _ _ =>
          simp only [matchFields, FieldsPost]
          intro hl; simp at hl
    | (l, p) :: ps, seen, fts, binds, ms, irr, fs, acc, h, ha => by
      cases fts with
      | nil => simp [inferPatFields] at h
      | cons ft fts =>
        simp only [inferPatFields] at h
        split at h
        case h_2 => simp at h
        rename_i r hr
        split at h
        case h_2 => simp at h
        rename_i bs0 ms0 irr0 hrest
        simp only [Option.some.injEq, Prod.mk.injEq] at h
        obtain ⟨h1, _, h3⟩ := h
        subst h1 h3
        cases fs with
        | nil =>
          simp only [matchFields, FieldsPost]
          intro hl; simp at hl
        | cons f fs =>
          obtain ⟨m, v⟩ := f
          simp only [matchFields]
          by_cases hlm : l = m
          · subst hlm
            simp only [if_true]
            have hP := pat_sound c hinj env p seen ft r v acc hr ha
            cases hq : matchPat env p v acc with
            | unspec why => rw [hq] at hP; exact hP
            | failed =>
              rw [hq] at hP
              simp only [PatPost] at hP
              simp only [FieldsPost]
              intro _ hvt
              simp only [FieldsVT] at hvt
              simp [hP.1 hvt.1]
            | matched acc1 =>
              rw [hq] at hP
              simp only [PatPost] at hP
              obtain ⟨bs1, hacc1, hn1, ht1⟩ := hP
              have ha1 : AccNames acc1 (r.binds.map (·.1) ++ seen) := hacc1 ▸ ha.extend hn1
              have hF := patFields_sound c hinj env ps _ fts bs0 ms0 irr0 fs acc1 hrest ha1
              simp only
              cases hq2 : matchFields env ps fs acc1 with
              | unspec why => rw [hq2] at hF; exact hF
              | failed =>
                rw [hq2] at hF
                simp only [FieldsPost] at hF ⊢
                intro hl hvt
                simp only [List.map_cons, List.cons.injEq] at hl
                simp only [FieldsVT] at hvt
                simp [hF hl.2 hvt.2]
              | matched acc2 =>
                rw [hq2] at hF
                simp only [FieldsPost] at hF ⊢
                obtain ⟨hl2, bs2, hacc2, hn2, ht2⟩ := hF
                refine ⟨by simp [hl2], bs2 ++ bs1, by rw [hacc2, hacc1, List.append_assoc], by simp [hn1, hn2], ?_⟩
                intro hvt
                simp only [FieldsVT] at hvt
                exact BindsOK.append _ _ _ _ (ht2 hvt.2) (ht1 hvt.1).1
          · simp only [hlm, if_false, FieldsPost]
            intro hl
            simp only [List.map_cons, List.cons.injEq] at hl
            exact absurd hl.1.symm hlm
end

/-! ### The induction -/

/-- the rules the theorem is about: the code as it is (the forward-narrowing rule may be any of the
three: all are sound in this fragment). `nmInj`: distinct names are interned differently. -/
structure CurrentRules (c : Ctx) : Prop where
  seq : c.cfg.seq = .accumulated
  idx : c.cfg.idx = .always
  unionArg : c.cfg.unify.unionArg = .everyVariant
  compl : c.cfg.compl ≠ .alsoValuePatterns
  nmInj : Function.Injective c.nm

theorem vt_verdict {c : Ctx} {irref : Bool} {vt : Nat} (h : verdictTy c irref = some vt) :
    VT c vt Val.okv ∧ (irref = false → VT c vt Val.nil) := by
  unfold verdictTy at h
  split at h
  case h_2 => simp at h
  rename_i ok hok
  split at h
  · rename_i hir
    simp only [Option.some.injEq] at h
    subst h
    exact ⟨vt_ok hok, fun hf => by rw [hir] at hf; exact Bool.noConfusion hf⟩
  · split at h
    case h_2 => simp at h
    rename_i n hn
    obtain ⟨w, hw, hin⟩ := vt_ok hok
    obtain ⟨w2, hw2, hin2⟩ := vt_nil hn
    exact ⟨⟨w, hw, unionPair_inh h w (Or.inl hin)⟩, fun _ => ⟨w2, hw2, unionPair_inh h w2 (Or.inr hin2)⟩⟩

/-- a pattern applied to a typed value: the verdict is typed; on success the context is respected
and the value has the narrowed type; an irrefutable pattern succeeds. -/
theorem doMatch_sound (c : Ctx) (hr : CurrentRules c) {Γ Γ' : TEnv} {ρ : Env} {t vt : Nat} {p : Pat}
    {r : PatRes} (h : applyPat c Γ t p = some (vt, Γ', r)) (hE : EnvOK c Γ ρ) {v : QM.RefSem.Val}
    (hv : VT c t v) :
    Good (doMatch ρ p v) (fun res => VT c vt res.1 ∧
      (res.1.isNil = false → EnvOK c Γ' res.2 ∧ VT c r.matched v) ∧ (r.irref = true → res.1.isNil = false)) := by
  unfold applyPat at h
  split at h
  case h_2 => simp at h
  rename_i r0 hp
  split at h
  case h_2 => simp at h
  rename_i vt0 hvt
  simp only [Option.some.injEq, Prod.mk.injEq] at h
  obtain ⟨h1, h2, h3⟩ := h
  subst h1 h2 h3
  have hP := pat_sound c hr.nmInj ρ p [] t r0 v [] hp (fun y hy => by simp [lookup] at hy)
  unfold doMatch
  cases hq : matchPat ρ p v [] with
  | unspec why => rw [hq] at hP; exact hP
  | matched bs' =>
    rw [hq] at hP
    simp only [PatPost, List.append_nil] at hP
    obtain ⟨bs, hbs, _, htyped⟩ := hP
    subst hbs
    obtain ⟨hb, hm⟩ := htyped hv
    simp only [Good]
    exact ⟨(vt_verdict hvt).1, fun _ => ⟨hE.pushBinds _ _ hb, hm⟩, fun _ => rfl⟩
  | failed =>
    rw [hq] at hP
    simp only [PatPost] at hP
    have hir := hP.1 hv
    simp only [Good]
    refine ⟨(vt_verdict hvt).2 hir, fun hn => ?_, fun ht => ?_⟩
    · simp [Val.nil, Val.isNil] at hn
    · rw [hir] at ht; exact Bool.noConfusion ht

def TermOK (c : Ctx) (n : Nat) : Prop :=
  ∀ (Γ : TEnv) (ρ : Env) (ft : Nat) (flow : QM.RefSem.Val) (t : Term) (τ : Nat) (Γ' : TEnv) (t' : Term),
    inferTerm c Γ ft t = some (τ, Γ', t') → EnvOK c Γ ρ → VT c ft flow →
    Good (evalTerm n ρ flow t') (fun r => VT c τ r.1 ∧ EnvOK c Γ' r.2)

/-- chains: with `ro` the chain may end in a pattern that failed (value nil) — the context after it
is only claimed for a non-nil value. -/
def TermsOK (c : Ctx) (n : Nat) : Prop :=
  ∀ (ro : Bool) (Γ : TEnv) (ρ : Env) (ft : Nat) (flow : QM.RefSem.Val) (ts : List Term) (τ : Nat) (Γ' : TEnv)
    (ts' : List Term), inferTerms c ro Γ ft ts = some (τ, Γ', ts') → EnvOK c Γ ρ → VT c ft flow →
    Good (evalTerms n ρ flow ts') (fun r => VT c τ r.1 ∧ ((ro = false ∨ r.1.isNil = false) → EnvOK c Γ' r.2))

def ChainOK (c : Ctx) (n : Nat) : Prop :=
  ∀ (ro : Bool) (Γ : TEnv) (ρ : Env) (ft : Nat) (flow : QM.RefSem.Val) (ch : Chain) (τ : Nat) (Γ' : TEnv)
    (ch' : Chain), inferChain c ro Γ ft ch = some (τ, Γ', ch') → EnvOK c Γ ρ → VT c ft flow →
    Good (evalChain n ρ flow ch') (fun r => VT c τ r.1 ∧ ((ro = false ∨ r.1.isNil = false) → EnvOK c Γ' r.2))

def FieldsOK (c : Ctx) (n : Nat) : Prop :=
  ∀ (Γ : TEnv) (ρ : Env) (ft : Nat) (flow : QM.RefSem.Val) (seen : List String) (fields : List Field)
    (ftys : List (Option String × Nat)) (Γ' : TEnv) (fields' : List Field)
    (accT : List (Option String × Nat)) (acc : Fields) (inhn : Option (Option String)),
    inferFields c Γ ft seen fields = some (ftys, Γ', fields') → EnvOK c Γ ρ → VT c ft flow →
    FieldsRel c accT acc → (∀ l, some l ∈ accT.map (·.1) → l ∈ seen) →
    Good (evalFields n ρ flow fields' acc inhn)
      (fun r => FieldsRel c (accT ++ ftys) r.1 ∧ r.2.1 = inhn ∧ EnvOK c Γ' r.2.2)

/-- a sequence either yields its last chain's value (and, if that is not nil, every chain ran: the
context after all of them is respected), or nil because a chain whose own type is flagged nil-able
evaluated to nil. -/
def SeqOK (c : Ctx) (n : Nat) : Prop :=
  ∀ (Γ : TEnv) (ρ : Env) (ft : Nat) (flow : QM.RefSem.Val) (cs : List Chain) (ts : List Nat) (Γ' : TEnv)
    (cs' : List Chain), cs ≠ [] → inferSeqChains c Γ ft cs = some (ts, Γ', cs') → EnvOK c Γ ρ → VT c ft flow →
    Good (evalSeq n ρ flow cs') (fun r =>
      (∃ tl, ts.getLast? = some tl ∧ VT c tl r.1 ∧ (r.1.isNil = false → EnvOK c Γ' r.2)) ∨
      (r.1 = Val.nil ∧ ∃ t ∈ ts, nilIn c.T (c.cfg.fuel + 2) t = true))

/-- a block yields a value of one of its branches' types, or nil when it is not exhaustive. -/
def ExprOK (c : Ctx) (n : Nat) : Prop :=
  ∀ (Γ : TEnv) (ρ : Env) (ft : Nat) (flow : QM.RefSem.Val) (brs : List Branch) (tys : List Nat) (ex : Bool)
    (brs' : List Branch), inferBranches c Γ ft brs = some (tys, ex, brs') → EnvOK c Γ ρ → VT c ft flow →
    Good (evalExpr n ρ flow (.mk brs')) (fun v => (∃ t ∈ tys, VT c t v) ∨ (v = Val.nil ∧ ex = false))

theorem callFlow_builtin (c : Ctx) {name : String} {sp sr : Shape} {pt rt : Nat}
    (hn : refBuiltins.contains name = true) (hs : builtinShape name = some (sp, sr))
    (hp : shapeTy c.T sp = some pt) (hr : shapeTy c.T sr = some rt) {v : QM.RefSem.Val}
    (hv : VT c pt v) (n : Nat) : Good (callFlow n (.builtin name) v) (fun out => VT c rt out) := by
  cases n with
  | zero => simp [callFlow, Good]
  | succ n =>
    simp only [callFlow]
    cases n with
    | zero => simp [apply, Good]
    | succ n => simp only [apply]; exact builtin_sound c hn hs hp hr hv

theorem inferCall_sound (c : Ctx) (hr : CurrentRules c) {p r a r' : Nat} (h : inferCall c p r a = some r')
    {f : QM.RefSem.Val} (hf : FunOK c f p r) {v : QM.RefSem.Val} (hv : VT c a v) (n : Nat) :
    Good (callFlow n f v) (fun out => VT c r' out) := by
  simp only [inferCall] at h
  split at h
  case isFalse => simp at h
  rename_i hpa
  simp only [Bool.and_eq_true] at hpa
  split at h
  case h_2 => simp at h
  rename_i T1 σ hu
  split at h
  case isFalse => simp at h
  rename_i hT1
  subst hT1
  split at h
  case h_2 => simp at h
  rename_i T2 p' T3 r'' hs1 hs2
  split at h
  case isFalse => simp at h
  rename_i hT
  obtain ⟨hT2, hT3⟩ := hT
  simp only [Option.some.injEq] at h
  subst h
  rw [hT2] at hs1
  rw [hT3] at hs2
  obtain ⟨w, hw, hin⟩ := hv
  have := guard_unify_sound_partial c.cfg.unify hr.unionArg _ _ _ c.T c.T c.T p a p' _ _ σ hpa.1 hpa.2 hu hs1 w hin
  exact hf σ _ _ p' r'' hs1 hs2 v ⟨w, hw, this⟩ n

theorem Good.mono {α : Type} {r : Res α} {P Q : α → Prop} (h : Good r P) (hpq : ∀ a, P a → Q a) :
    Good r Q := by
  cases r with
  | ok a => exact hpq a h
  | fuelOut => trivial
  | err _ => trivial
  | unspec _ => exact h

theorem isNil_eq {v : QM.RefSem.Val} (h : v.isNil = true) : v = Val.nil := by
  cases v with
  | tup n fs =>
    cases n with
    | none =>
      cases fs with
      | nil => rfl
      | cons _ _ => simp [Val.isNil] at h
    | some _ => simp [Val.isNil] at h
  | _ => simp [Val.isNil] at h

theorem toV_nil_inv {nm : String → Name} {v : QM.RefSem.Val} (h : toV nm v = some (.tup none .nil)) :
    v.isNil = true := by
  obtain ⟨n', fs', hv, hn, hfs⟩ := toV_tup_inv h
  have := toVFields_nil_inv hfs
  subst this hv
  cases n' with
  | none => rfl
  | some _ => simp at hn


theorem isNil_false_ne {nm : String → Name} {v : QM.RefSem.Val} {w : V} (hw : toV nm v = some w)
    (hn : v.isNil = false) : w ≠ .tup none .nil := by
  intro hw'
  subst hw'
  rw [toV_nil_inv hw] at hn
  exact Bool.noConfusion hn

theorem vt_nil_nilIn {c : Ctx} {t : Nat} (h : VT c t Val.nil) (n : Nat) : nilIn c.T n t = true := by
  obtain ⟨w, hw, f, hf⟩ := h
  simp only [Val.nil, toV, toVFields, Option.some.injEq] at hw
  subst hw
  exact nilIn_complete n t [] f hf

/-- the type given to a sequence contains what the sequence can yield. -/
theorem seqType_sound {c : Ctx} (hr : CurrentRules c) {ts : List Nat} {tc : Nat} (h : seqType c ts = some tc)
    {v : QM.RefSem.Val}
    (hv : (∃ tl, ts.getLast? = some tl ∧ VT c tl v) ∨
      (v = Val.nil ∧ ∃ t ∈ ts, nilIn c.T (c.cfg.fuel + 2) t = true)) : VT c tc v := by
  unfold seqType at h
  split at h
  case h_1 => simp at h
  rename_i tl htl
  split at h
  · split at h
    case h_2 => simp at h
    rename_i nt hnt
    rcases hv with ⟨tl', htl', hv⟩ | ⟨hn, _⟩
    · rw [htl] at htl'
      simp only [Option.some.injEq] at htl'
      subst htl'
      obtain ⟨w, hw, hin⟩ := hv
      exact ⟨w, hw, unionPair_inh h w (Or.inl hin)⟩
    · subst hn
      obtain ⟨w, hw, hin⟩ := vt_nil hnt
      exact ⟨w, hw, unionPair_inh h w (Or.inr hin)⟩
  · rename_i hnot
    simp only [Option.some.injEq] at h
    subst h
    rcases hv with ⟨tl', htl', hv⟩ | ⟨_, t, ht, hnl⟩
    · rw [htl] at htl'
      simp only [Option.some.injEq] at htl'
      subst htl'
      exact hv
    · exfalso
      apply hnot
      rw [hr.seq]
      refine seq_nil_sound _ _ rfl (fun _ hk => hk) ?_
      simp only [seqYieldsNil]
      exact List.any_eq_true.mpr ⟨true, List.mem_map.mpr ⟨t, ht, hnl⟩, rfl⟩

/-! ### What a chain `=P` / `x =P` computes (for the narrowing of the scrutinee) -/

theorem evalChain_paramMatch {ρ : Env} {flow : QM.RefSem.Val} {p : Pat} : ∀ (n : Nat) (res : QM.RefSem.Val × Env),
    evalChain n ρ flow (.mk none [.mtch p]) = .ok res → doMatch ρ p flow = .ok res := by
  intro n res h
  rcases n with _ | _ | _ | n
  · simp [evalChain] at h
  · simp [evalChain, evalTerms, Res.bind] at h
  · simp [evalChain, evalTerms, evalTerm, Res.bind] at h
  · simp only [evalChain, evalTerms, evalTerm] at h
    cases hq : doMatch ρ p flow with
    | ok r =>
      rw [hq] at h
      obtain ⟨v, e⟩ := r
      cases n <;> simp [Res.bind, evalTerms] at h ⊢ <;> exact h
    | fuelOut => rw [hq] at h; simp [Res.bind] at h
    | err _ => rw [hq] at h; simp [Res.bind] at h
    | unspec _ => rw [hq] at h; simp [Res.bind] at h

theorem evalChain_varMatch {ρ : Env} {flow sv : QM.RefSem.Val} {x : String} {p : Pat}
    (hl : lookup ρ x = some (some sv)) (hnc : sv.isCallable = false) : ∀ (n : Nat) (res : QM.RefSem.Val × Env),
    evalChain n ρ flow (.mk none [.access (.var x) [], .mtch p]) = .ok res → doMatch ρ p sv = .ok res := by
  intro n res h
  rcases n with _ | _ | _ | _ | n
  · simp [evalChain] at h
  · simp [evalChain, evalTerms, Res.bind] at h
  · simp [evalChain, evalTerms, evalTerm, Res.bind] at h
  · simp [evalChain, evalTerms, evalTerm, readVar, hl, project, hnc, Res.bind] at h
  · simp only [evalChain, evalTerms, evalTerm, readVar, hl, project, Res.bind, hnc] at h
    simp only [Bool.false_eq_true, if_false] at h
    cases hq : doMatch ρ p sv with
    | ok r =>
      rw [hq] at h
      obtain ⟨v, e⟩ := r
      cases n <;> simp [Res.bind, evalTerms] at h ⊢ <;> exact h
    | fuelOut => rw [hq] at h; simp [Res.bind] at h
    | err _ => rw [hq] at h; simp [Res.bind] at h
    | unspec _ => rw [hq] at h; simp [Res.bind] at h

/-- `doMatch` answers a non-nil value only when the pattern matched. -/
theorem doMatch_nonnil {ρ : Env} {p : Pat} {v : QM.RefSem.Val} {res : QM.RefSem.Val × Env}
    (h : doMatch ρ p v = .ok res) (hn : res.1.isNil = false) :
    ∃ bs, matchPat ρ p v [] = .matched bs ∧ res.2 = bs ++ ρ := by
  unfold doMatch at h
  cases hq : matchPat ρ p v [] with
  | matched bs =>
    rw [hq] at h
    simp only [Res.ok.injEq] at h
    exact ⟨bs, rfl, by rw [← h]⟩
  | failed =>
    rw [hq] at h
    simp only [Res.ok.injEq] at h
    rw [← h] at hn
    simp [Val.nil, Val.isNil] at hn
  | unspec _ => rw [hq] at h; simp at h

/-- a successful match of a typed value: the value has the matched type, the new bindings keep
their names. -/
theorem matched_narrow (c : Ctx) (hr : CurrentRules c) {ρ : Env} {p : Pat} {t : Nat} {r : PatRes}
    (hp : inferPat c [] t p = some r) {v : QM.RefSem.Val} (hv : VT c t v) {bs : Env}
    (hm : matchPat ρ p v [] = .matched bs) : VT c r.matched v ∧ bs.map (·.1) = r.binds.map (·.1) := by
  have hP := pat_sound c hr.nmInj ρ p [] t r v [] hp (fun y hy => by simp [lookup] at hy)
  rw [hm] at hP
  simp only [PatPost, List.append_nil] at hP
  obtain ⟨bs', hbs, hn, ht⟩ := hP
  subst hbs
  exact ⟨(ht hv).2, hn⟩

theorem EnvOK.narrow {c : Ctx} {Γ : TEnv} {ρ : Env} (h : EnvOK c Γ ρ) {x : String} {sv : QM.RefSem.Val}
    {m : Nat} (hl : lookup ρ x = some (some sv)) (hv : VT c m sv) : EnvOK c ((x, m) :: Γ) ρ := by
  constructor
  · intro y t' hy
    simp only [tlookup] at hy
    by_cases hyx : y = x
    · simp only [hyx, if_true, Option.some.injEq] at hy
      subst hy hyx
      exact ⟨sv, hl, hv⟩
    · simp only [hyx, if_false] at hy
      exact h.vars y t' hy
  · intro y p r hy hf
    simp only [tlookup] at hy
    by_cases hyx : y = x
    · simp [hyx] at hy
    · simp only [hyx, if_false] at hy
      exact h.funs y p r hy hf

theorem lookup_append_fresh : ∀ (bs ρ : Env) (x : String), x ∉ bs.map (·.1) → lookup (bs ++ ρ) x = lookup ρ x
  | [], _, _, _ => rfl
  | (y, ov) :: bs, ρ, x, h => by
    simp only [List.map_cons, List.mem_cons, not_or] at h
    simp only [List.cons_append, lookup, h.1, if_false]
    exact lookup_append_fresh bs ρ x h.2

theorem inferTerms_single {c : Ctx} {ro : Bool} {Γ Γ' : TEnv} {t τ : Nat} {p : Pat} {ts : List Term}
    (h : inferTerms c ro Γ t [.mtch p] = some (τ, Γ', ts)) : ts = [.mtch p] := by
  simp only [inferTerms] at h
  split at h
  case h_2 => simp at h
  split at h
  case isFalse => simp at h
  simp only [Option.some.injEq, Prod.mk.injEq] at h
  exact h.2.2.symm

theorem scrutVar_eq {ch : Chain} {x : String} {p : Pat} (h : scrutVar ch = some (x, p)) :
    ch = .mk none [.access (.var x) [], .mtch p] := by
  unfold scrutVar at h
  split at h
  · simp only [Option.some.injEq, Prod.mk.injEq] at h
    rw [h.1, h.2]
  · simp at h

/-- `x =P` succeeded: recording `x` with the narrowed type keeps the context respected. -/
theorem narrowVar_sound (c : Ctx) (hr : CurrentRules c) {Γ Γ1 : TEnv} {ρ ρ1 : Env} {ft t : Nat}
    {flow v : QM.RefSem.Val} {ch ch' : Chain} {n : Nat}
    (hch : inferChain c true Γ ft ch = some (t, Γ1, ch')) (hE : EnvOK c Γ ρ)
    (hev : evalChain n ρ flow ch' = .ok (v, ρ1)) (hn : v.isNil = false) (hE1 : EnvOK c Γ1 ρ1) :
    EnvOK c (narrowVar c Γ Γ1 ch) ρ1 := by
  unfold narrowVar
  split
  case h_2 => exact hE1
  rename_i x p hsv
  split
  case h_2 => exact hE1
  rename_i t0 hx
  split
  case h_2 => exact hE1
  rename_i r hp
  split
  · exact hE1
  · rename_i hfresh
    have hch0 := scrutVar_eq hsv
    subst hch0
    obtain ⟨sv, hl, hsvt⟩ := hE.vars x t0 hx
    have hnc : sv.isCallable = false := toV_notCallable hsvt.choose_spec.1
    have hch' : ch' = .mk none [.access (.var x) [], .mtch p] := by
      simp only [inferChain, inferTerms, inferTerm, hx, inferAccs] at hch
      split at hch
      case h_2 => simp at hch
      rename_i t2 Γ2 ts2 hts
      split at hts
      case h_2 => simp at hts
      rename_i t3 Γ3 ts3 hts3
      have := inferTerms_single hts3
      subst this
      simp only [Option.some.injEq, Prod.mk.injEq] at hts hch
      rw [← hch.2.2, ← hts.2.2]
    subst hch'
    have hdm := evalChain_varMatch hl hnc n (v, ρ1) hev
    obtain ⟨bs, hm, hρ1⟩ := doMatch_nonnil hdm hn
    simp only at hρ1
    obtain ⟨hvm, hnames⟩ := matched_narrow c hr hp hsvt hm
    refine hE1.narrow (sv := sv) ?_ hvm
    rw [hρ1, lookup_append_fresh bs ρ x (by rw [hnames]; simpa using hfresh)]
    exact hl

/-- a condition that starts with `=P` and did not fail: the block parameter has the narrowed type. -/
theorem narrowParam_sound (c : Ctx) (hr : CurrentRules c) {Γ Γ1 : TEnv} {ρ ρ1 : Env} {ft : Nat}
    {flow v : QM.RefSem.Val} {cond cond' : List Chain} {ts : List Nat} {n : Nat}
    (hinf : inferSeqChains c Γ ft cond = some (ts, Γ1, cond')) (hflow : VT c ft flow)
    (hev : evalSeq n ρ flow cond' = .ok (v, ρ1)) (hn : v.isNil = false) :
    VT c (narrowParam c ft cond) flow := by
  unfold narrowParam
  split
  case h_2 => exact hflow
  rename_i p rest
  split
  case h_2 => exact hflow
  rename_i r hp
  -- the elaborated condition starts with the same chain
  simp only [inferSeqChains, inferChain] at hinf
  split at hinf
  case h_2 => simp at hinf
  rename_i t1 Γ2 ch' hch
  split at hch
  case h_2 => simp at hch
  rename_i t2 Γ3 ts3 hts
  have := inferTerms_single hts
  subst this
  simp only [Option.some.injEq, Prod.mk.injEq] at hch
  have hch' : ch' = .mk none [.mtch p] := hch.2.2.symm
  subst hch'
  have key : ∀ (k : Nat) (v1 : QM.RefSem.Val) (e1 : Env), evalChain k ρ flow (.mk none [.mtch p]) = .ok (v1, e1) →
      v1.isNil = false → VT c r.matched flow := by
    intro k v1 e1 hk hv1
    have hdm := evalChain_paramMatch k (v1, e1) hk
    obtain ⟨bs, hm, _⟩ := doMatch_nonnil hdm hv1
    exact (matched_narrow c hr hp hflow hm).1
  cases n with
  | zero =>
    cases rest <;> simp only at hinf
    · simp only [Option.some.injEq, Prod.mk.injEq] at hinf
      rw [← hinf.2.2] at hev; simp [evalSeq] at hev
    · split at hinf
      case h_2 => simp at hinf
      split at hinf
      case h_2 => simp at hinf
      simp only [Option.some.injEq, Prod.mk.injEq] at hinf
      rw [← hinf.2.2] at hev; simp [evalSeq] at hev
  | succ n =>
    cases rest with
    | nil =>
      simp only [Option.some.injEq, Prod.mk.injEq] at hinf
      rw [← hinf.2.2] at hev
      simp only [evalSeq] at hev
      cases hq : evalChain n ρ flow (.mk none [.mtch p]) with
      | ok res =>
        obtain ⟨v1, e1⟩ := res
        rw [hq] at hev
        simp only [Res.bind, Res.ok.injEq, Prod.mk.injEq] at hev
        exact key n v1 e1 hq (hev.1 ▸ hn)
      | fuelOut => rw [hq] at hev; simp [Res.bind] at hev
      | err _ => rw [hq] at hev; simp [Res.bind] at hev
      | unspec _ => rw [hq] at hev; simp [Res.bind] at hev
    | cons c2 rest2 =>
      simp only at hinf
      split at hinf
      case h_2 => simp at hinf
      split at hinf
      case h_2 => simp at hinf
      rename_i ts0 Γ4 rest' hrec
      simp only [Option.some.injEq, Prod.mk.injEq] at hinf
      rw [← hinf.2.2] at hev
      have hne : ∃ y ys, rest' = y :: ys := by
        simp only [inferSeqChains] at hrec
        split at hrec
        case h_2 => simp at hrec
        cases rest2 with
        | nil =>
          simp only [Option.some.injEq, Prod.mk.injEq] at hrec
          exact ⟨_, _, hrec.2.2.symm⟩
        | cons _ _ =>
          simp only at hrec
          split at hrec
          case h_2 => simp at hrec
          split at hrec
          case h_2 => simp at hrec
          simp only [Option.some.injEq, Prod.mk.injEq] at hrec
          exact ⟨_, _, hrec.2.2.symm⟩
      obtain ⟨y, ys, hys⟩ := hne
      subst hys
      simp only [evalSeq] at hev
      cases hq : evalChain n ρ flow (.mk none [.mtch p]) with
      | ok res =>
        obtain ⟨v1, e1⟩ := res
        rw [hq] at hev
        simp only [Res.bind] at hev
        cases hv1 : v1.isNil with
        | true =>
          rw [hv1] at hev
          simp only [if_true, Res.ok.injEq, Prod.mk.injEq] at hev
          rw [← hev.1] at hn
          simp [Val.nil, Val.isNil] at hn
        | false => exact key n v1 e1 hq hv1
      | fuelOut => rw [hq] at hev; simp [Res.bind] at hev
      | err _ => rw [hq] at hev; simp [Res.bind] at hev
      | unspec _ => rw [hq] at hev; simp [Res.bind] at hev

theorem inferSeqChains_nonempty (c : Ctx) {Γ Γ' : TEnv} {ft : Nat} {ch : Chain} {rest : List Chain}
    {ts : List Nat} {cs' : List Chain} (h : inferSeqChains c Γ ft (ch :: rest) = some (ts, Γ', cs')) :
    (∃ t ts0, ts = t :: ts0) ∧ ∃ x xs, cs' = x :: xs := by
  simp only [inferSeqChains] at h
  split at h
  case h_2 => simp at h
  cases rest with
  | nil =>
    simp only [Option.some.injEq, Prod.mk.injEq] at h
    exact ⟨⟨_, _, h.1.symm⟩, ⟨_, _, h.2.2.symm⟩⟩
  | cons _ _ =>
    simp only at h
    split at h
    case h_2 => simp at h
    split at h
    case h_2 => simp at h
    simp only [Option.some.injEq, Prod.mk.injEq] at h
    exact ⟨⟨_, _, h.1.symm⟩, ⟨_, _, h.2.2.symm⟩⟩

theorem inh_of_flat1_mem {T : Table} {r j : Nat} {w : V} (hj : j ∈ flat1 T r) (hfo : QM.Soundness.FO T j)
    (h : inh T [] j w) : inh T [] r w := by
  unfold flat1 at hj
  split at hj
  · rename_i vs hty
    obtain ⟨f, hf⟩ := inh_ext (Ext.refl T) hfo h (st' := [r])
    refine ⟨f + 1, ?_⟩
    unfold inhB; rw [hty]; simp only
    exact List.any_eq_true.mpr ⟨j, hj, hf⟩
  · simp only [List.mem_singleton] at hj
    subst hj; exact h

/-- what is left of the parameter type after a faithful pattern failed. -/
theorem complementIn_sound {c : Ctx} {a k : Nat} {res : Option Nat} (h : complementIn c a k = some res)
    {v : QM.RefSem.Val} (ha : VT c a v) (hk : ¬ VT c k v) :
    match res with
    | none => False
    | some r => VT c r v := by
  unfold complementIn at h
  split at h
  case isFalse => simp at h
  rename_i hok
  have hok' := hok
  unfold tupScrutOk at hok'
  simp only [Bool.and_eq_true] at hok'
  obtain ⟨w, hw, hin⟩ := ha
  obtain ⟨j, hj, hjw⟩ := flat1_inh ⟨_, hok'.1⟩ hin
  have hjk : j ≠ k := fun e => hk ⟨w, hw, e ▸ hjw⟩
  have hmem : j ∈ (flat1 c.T a).filter (fun j => j != k) := by
    simp [List.mem_filter, hj, hjk]
  split at h
  case h_2 => simp at h
  rename_i T' r hcomp
  split at h
  case isFalse => simp at h
  dsimp only at h
  split at h
  · rename_i hemp
    rw [List.isEmpty_iff] at hemp
    rw [hemp] at hmem
    cases hmem
  · split at h
    · rename_i hall
      simp only [Option.some.injEq] at h
      subst h
      have hjr := List.all_eq_true.mp hall j hmem
      simp only [List.contains_iff_mem] at hjr
      exact ⟨w, hw, inh_of_flat1_mem hjr (flat1_fo ⟨_, hok'.1⟩ j hj) hjw⟩
    · simp at h

theorem dispatchPat_eq {cond : List Chain} {p : Pat} (h : dispatchPat cond = some p) :
    cond = [.mk none [.mtch p]] := by
  unfold dispatchPat at h
  split at h
  · simp only [Option.some.injEq] at h; rw [h]
  · simp at h

/-- a branch failed: the block parameter has the type the later branches are typed with, and the
block was not declared exhaustive because of this branch. -/
theorem nextParam_sound (c : Ctx) (hr : CurrentRules c) (hcompl : c.cfg.compl ≠ .alsoValuePatterns)
    {Γ Γ1 : TEnv} {ρ ρ1 : Env} {ft ft' : Nat} {nev : Bool}
    {flow : QM.RefSem.Val} {cond cond' : List Chain} {ts : List Nat} {n : Nat}
    (hnp : nextParam c ft cond = some (ft', nev))
    (hinf : inferSeqChains c Γ ft cond = some (ts, Γ1, cond')) (hflow : VT c ft flow)
    (hev : evalSeq n ρ flow cond' = .ok (Val.nil, ρ1)) : VT c ft' flow ∧ nev = false := by
  unfold nextParam at hnp
  split at hnp
  case h_2 => simp only [Option.some.injEq, Prod.mk.injEq] at hnp; exact ⟨hnp.1 ▸ hflow, hnp.2.symm⟩
  rename_i p hdp
  split at hnp
  case h_2 => simp only [Option.some.injEq, Prod.mk.injEq] at hnp; exact ⟨hnp.1 ▸ hflow, hnp.2.symm⟩
  rename_i r hp
  split at hnp
  · simp only [Option.some.injEq, Prod.mk.injEq] at hnp; exact ⟨hnp.1 ▸ hflow, hnp.2.symm⟩
  split at hnp
  case isFalse => simp only [Option.some.injEq, Prod.mk.injEq] at hnp; exact ⟨hnp.1 ▸ hflow, hnp.2.symm⟩
  rename_i hfa
  have hfaith : r.faithful = true := by
    rcases Bool.or_eq_true _ _ |>.mp hfa with h1 | h1
    · exact h1
    · simp only [decide_eq_true_eq] at h1; exact absurd h1 hcompl
  -- the condition is the single chain `=p`, and it evaluated to nil: the match failed
  have hc := dispatchPat_eq hdp
  subst hc
  simp only [inferSeqChains, inferChain] at hinf
  split at hinf
  case h_2 => simp at hinf
  rename_i t1 Γ2 ch' hch
  split at hch
  case h_2 => simp at hch
  rename_i t2 Γ3 ts3 hts
  have := inferTerms_single hts
  subst this
  simp only [Option.some.injEq, Prod.mk.injEq] at hch hinf
  have hch' : ch' = .mk none [.mtch p] := hch.2.2.symm
  subst hch'
  rw [← hinf.2.2] at hev
  have hfailed : matchPat ρ p flow [] = .failed := by
    cases n with
    | zero => simp [evalSeq] at hev
    | succ n =>
      simp only [evalSeq] at hev
      cases hq : evalChain n ρ flow (.mk none [.mtch p]) with
      | ok res =>
        rw [hq] at hev
        simp only [Res.bind, Res.ok.injEq] at hev
        have hdm := evalChain_paramMatch n res hq
        unfold doMatch at hdm
        cases hm : matchPat ρ p flow [] with
        | failed => rfl
        | matched bs =>
          rw [hm] at hdm
          simp only [Res.ok.injEq] at hdm
          rw [← hdm] at hev
          simp [Val.okv, Val.nil] at hev
        | unspec _ => rw [hm] at hdm; simp at hdm
      | fuelOut => rw [hq] at hev; simp [Res.bind] at hev
      | err _ => rw [hq] at hev; simp [Res.bind] at hev
      | unspec _ => rw [hq] at hev; simp [Res.bind] at hev
  have hP := pat_sound c hr.nmInj ρ p [] ft r flow [] hp (fun y hy => by simp [lookup] at hy)
  rw [hfailed] at hP
  simp only [PatPost] at hP
  have hnot := hP.2 hfaith
  split at hnp
  · rename_i hci
    exact (complementIn_sound hci hflow hnot).elim
  · rename_i r' hci
    simp only [Option.some.injEq, Prod.mk.injEq] at hnp
    have := complementIn_sound hci hflow hnot
    simp only at this
    exact ⟨hnp.1 ▸ this, hnp.2.symm⟩
  · simp at hnp

theorem infer_step (c : Ctx) (hr : CurrentRules c) (n : Nat)
    (ih : TermOK c n ∧ TermsOK c n ∧ ChainOK c n ∧ FieldsOK c n ∧ SeqOK c n ∧ ExprOK c n) :
    TermOK c (n + 1) ∧ TermsOK c (n + 1) ∧ ChainOK c (n + 1) ∧ FieldsOK c (n + 1) ∧ SeqOK c (n + 1) ∧
      ExprOK c (n + 1) := by
  obtain ⟨ihT, ihTs, ihC, ihF, ihS, ihE⟩ := ih
  refine ⟨?_, ?_, ?_, ?_, ?_, ?_⟩
  · -- terms
    intro Γ ρ ft flow t τ Γ' t' h hE hflow
    cases t with
    | lit l =>
      cases l with
      | int z =>
        simp only [inferTerm] at h
        split at h
        case h_2 => simp at h
        rename_i t0 ht0
        simp only [Option.some.injEq, Prod.mk.injEq] at h
        obtain ⟨h1, h2, h3⟩ := h
        subst h1 h2 h3
        simp only [evalTerm, Good, litVal]
        exact ⟨vt_int_intro (findType_spec ht0) z, hE⟩
      | bin bs =>
        simp only [inferTerm] at h
        split at h
        case h_2 => simp at h
        rename_i t0 ht0
        simp only [Option.some.injEq, Prod.mk.injEq] at h
        obtain ⟨h1, h2, h3⟩ := h
        subst h1 h2 h3
        simp only [evalTerm, Good, litVal]
        exact ⟨vt_bin_intro (findType_spec ht0) bs, hE⟩
    | tuple name fields =>
      simp only [inferTerm] at h
      split at h
      case h_1 => simp at h
      rename_i tn htn
      split at h
      case h_2 => simp at h
      rename_i ftys Γ1 fields' hfs
      split at h
      case h_2 => simp at h
      rename_i t0 ht0
      simp only [Option.some.injEq, Prod.mk.injEq] at h
      obtain ⟨h1, h2, h3⟩ := h
      subst h1 h2 h3
      simp only [evalTerm]
      refine Good.bind (ihF Γ ρ ft flow [] fields ftys Γ1 fields' [] [] none hfs hE hflow (by simp [FieldsRel])
        (by simp)) ?_
      rintro ⟨fs, inh', ρ'⟩ ⟨hrel, hinh, hE'⟩
      simp only at hrel hinh hE'
      simp only [List.nil_append] at hrel
      subst hinh
      simp only [Good]
      refine ⟨?_, hE'⟩
      obtain ⟨ws, F, hws, hF⟩ := FieldsRel.inh ftys fs hrel
      obtain ⟨id, hty, htu⟩ := tupleType_spec ht0
      have hname : tupleName name none = tn := by
        cases name with
        | anon => simp only [Option.some.injEq] at htn; simp [tupleName, htn]
        | named s => simp only [Option.some.injEq] at htn; simp [tupleName, htn]
        | inherit => simp at htn
      refine ⟨.tup (tn.map c.nm) ws, by simp [toV, hws, hname], ?_⟩
      exact inh_tuple_intro (info := ⟨tn.map c.nm, _⟩) hty htu hF
    | mtch p =>
      cases p with
      | bind x =>
        simp only [inferTerm] at h
        split at h
        case h_2 => simp at h
        rename_i ok hok
        simp only [Option.some.injEq, Prod.mk.injEq] at h
        obtain ⟨h1, h2, h3⟩ := h
        subst h1 h2 h3
        simp only [evalTerm, doMatch_bind, Good]
        exact ⟨vt_ok hok, hE.push hflow⟩
      | _ => simp [inferTerm] at h
    | access src accs =>
      cases src with
      | ripple =>
        simp only [inferTerm] at h
        split at h
        case h_2 => simp at h
        rename_i t0 accs' ha
        simp only [Option.some.injEq, Prod.mk.injEq] at h
        obtain ⟨h1, h2, h3⟩ := h
        subst h1 h2 h3
        obtain ⟨u, hp, hu⟩ := inferAccs_sound c hr.idx accs accs' ft t0 flow ha hflow
        simp only [evalTerm, hp, Res.bind, Good]
        exact ⟨hu, hE⟩
      | var x =>
        simp only [inferTerm] at h
        split at h
        · rename_i t0 hx
          split at h
          case h_2 => simp at h
          rename_i t1 accs' ha
          simp only [Option.some.injEq, Prod.mk.injEq] at h
          obtain ⟨h1, h2, h3⟩ := h
          subst h1 h2 h3
          obtain ⟨v0, hl, hv0⟩ := hE.vars x t0 hx
          obtain ⟨u, hp, hu⟩ := inferAccs_sound c hr.idx accs accs' t0 t1 v0 ha hv0
          obtain ⟨wu, hwu, _⟩ := hu
          have hnc : u.isCallable = false := toV_notCallable hwu
          simp only [evalTerm, readVar, hl, Res.bind, hp, hnc, Good]
          exact ⟨⟨wu, hwu, by assumption⟩, hE⟩
        · rename_i hx
          split at h
          case h_2 => simp at h
          rename_i p r hfx
          split at h
          case h_2 => simp at h
          rename_i r' hcall
          simp only [Option.some.injEq, Prod.mk.injEq] at h
          obtain ⟨h1, h2, h3⟩ := h
          subst h1 h2 h3
          obtain ⟨f, hl, hcal, hfun⟩ := hE.funs x p r hx hfx
          simp only [evalTerm, readVar, hl, Res.bind, project, hcal, if_true]
          have := inferCall_sound c hr hcall hfun hflow n
          cases hq : callFlow n f flow with
          | ok w => rw [hq] at this; simp only [Good] at this ⊢; exact ⟨this, hE⟩
          | fuelOut => trivial
          | err _ => trivial
          | unspec _ => rw [hq] at this; exact this
      | builtin name =>
        cases accs with
        | cons _ _ => simp [inferTerm] at h
        | nil =>
          simp only [inferTerm] at h
          split at h
          case isFalse => simp at h
          rename_i hn
          split at h
          case h_2 => simp at h
          rename_i sp sr hs
          split at h
          case h_2 => simp at h
          rename_i pt rt hpt hrt
          split at h
          case isFalse => simp at h
          rename_i hpf
          simp only [Option.some.injEq, Prod.mk.injEq] at h
          obtain ⟨h1, h2, h3⟩ := h
          subst h1 h2 h3 hpf
          simp only [evalTerm]
          have := callFlow_builtin c hn hs hpt hrt hflow n
          cases hq : callFlow n (.builtin name) flow with
          | ok w => rw [hq] at this; simp only [Res.bind, Good] at this ⊢; exact ⟨this, hE⟩
          | fuelOut => trivial
          | err _ => trivial
          | unspec _ => rw [hq] at this; exact this
      | param => simp [inferTerm] at h
    | block e =>
      obtain ⟨brs⟩ := e
      simp only [inferTerm] at h
      split at h
      case h_2 => simp at h
      rename_i tys ex brs' hbr
      split at h
      case h_2 => simp at h
      rename_i n0 hn0
      split at h
      case h_2 => simp at h
      rename_i t0 hu
      simp only [Option.some.injEq, Prod.mk.injEq] at h
      obtain ⟨h1, h2, h3⟩ := h
      subst h1 h2 h3
      simp only [evalTerm]
      refine Good.bind (ihE Γ ρ ft flow brs tys ex brs' hbr hE hflow) ?_
      intro v hv
      simp only [Good]
      refine ⟨?_, hE⟩
      rcases hv with ⟨t1, ht1, hv1⟩ | ⟨hvn, hex⟩
      · obtain ⟨w, hw, hin⟩ := hv1
        refine ⟨w, hw, unionMany_inh hu w t1 ?_ hin⟩
        split
        · exact ht1
        · exact List.mem_append_left _ ht1
      · subst hvn hex
        obtain ⟨w, hw, hin⟩ := vt_nil hn0
        exact ⟨w, hw, unionMany_inh hu w n0 (by simp) hin⟩
    | _ => simp [inferTerm] at h
  · -- term lists
    intro ro Γ ρ ft flow ts τ Γ' ts' h hE hflow
    cases ts with
    | nil =>
      simp only [inferTerms, Option.some.injEq, Prod.mk.injEq] at h
      obtain ⟨h1, h2, h3⟩ := h
      subst h1 h2 h3
      simp only [evalTerms, Good]
      exact ⟨hflow, fun _ => hE⟩
    | cons t ts =>
      -- a chain that ends in a pattern
      have hgen : ∀ (t1 : Nat) (Γ1 : TEnv) (t' : Term) (t2 : Nat) (Γ2 : TEnv) (ts'' : List Term),
          inferTerm c Γ ft t = some (t1, Γ1, t') → inferTerms c ro Γ1 t1 ts = some (t2, Γ2, ts'') →
          Good (evalTerms (n + 1) ρ flow (t' :: ts''))
            (fun r => VT c t2 r.1 ∧ ((ro = false ∨ r.1.isNil = false) → EnvOK c Γ2 r.2)) := by
        intro t1 Γ1 t' t2 Γ2 ts'' ht hts
        simp only [evalTerms]
        refine Good.bind (ihT Γ ρ ft flow t t1 Γ1 t' ht hE hflow) ?_
        rintro ⟨v, ρ'⟩ ⟨hv, hE'⟩
        exact ihTs ro Γ1 ρ' t1 v ts t2 Γ2 ts'' hts hE' hv
      cases ts with
      | cons t2 ts2 =>
        simp only [inferTerms] at h
        split at h
        case h_2 => simp at h
        rename_i t1 Γ1 t' ht
        split at h
        case h_2 => simp at h
        rename_i t3 Γ3 ts'' hts
        simp only [Option.some.injEq, Prod.mk.injEq] at h
        obtain ⟨h1, h2, h3⟩ := h
        subst h1 h2 h3
        exact hgen t1 Γ1 t' t3 Γ3 ts'' ht hts
      | nil =>
        cases t with
        | mtch p =>
          simp only [inferTerms] at h
          split at h
          case h_2 => simp at h
          rename_i vt Γ1 r hap
          split at h
          case isFalse => simp at h
          rename_i hro
          simp only [Option.some.injEq, Prod.mk.injEq] at h
          obtain ⟨h1, h2, h3⟩ := h
          subst h1 h2 h3
          have hD := doMatch_sound c hr hap hE hflow
          cases n with
          | zero => simp [evalTerms, evalTerm, Res.bind, Good]
          | succ n =>
            simp only [evalTerms, evalTerm]
            refine Good.bind hD ?_
            rintro ⟨v, ρ'⟩ ⟨hv, hnn, hir⟩
            simp only [Good]
            refine ⟨hv, fun hor => (hnn ?_).1⟩
            rcases hor with hro' | hnil
            · subst hro'
              simp only [Bool.false_or] at hro
              exact hir hro
            · exact hnil
        | lit l =>
          simp only [inferTerms] at h
          split at h
          case h_2 => simp at h
          rename_i t1 Γ1 t' ht
          simp only [Option.some.injEq, Prod.mk.injEq] at h
          obtain ⟨h1, h2, h3⟩ := h
          subst h1 h2 h3
          exact hgen t1 Γ1 t' t1 Γ1 [] ht (by simp [inferTerms])
        | tuple nm fs =>
          simp only [inferTerms] at h
          split at h
          case h_2 => simp at h
          rename_i t1 Γ1 t' ht
          simp only [Option.some.injEq, Prod.mk.injEq] at h
          obtain ⟨h1, h2, h3⟩ := h
          subst h1 h2 h3
          exact hgen t1 Γ1 t' t1 Γ1 [] ht (by simp [inferTerms])
        | access src accs =>
          simp only [inferTerms] at h
          split at h
          case h_2 => simp at h
          rename_i t1 Γ1 t' ht
          simp only [Option.some.injEq, Prod.mk.injEq] at h
          obtain ⟨h1, h2, h3⟩ := h
          subst h1 h2 h3
          exact hgen t1 Γ1 t' t1 Γ1 [] ht (by simp [inferTerms])
        | block e =>
          simp only [inferTerms] at h
          split at h
          case h_2 => simp at h
          rename_i t1 Γ1 t' ht
          simp only [Option.some.injEq, Prod.mk.injEq] at h
          obtain ⟨h1, h2, h3⟩ := h
          subst h1 h2 h3
          exact hgen t1 Γ1 t' t1 Γ1 [] ht (by simp [inferTerms])
        | fn _ _ => simp [inferTerms, inferTerm] at h
        | ref _ _ => simp [inferTerms, inferTerm] at h
        | tail _ => simp [inferTerms, inferTerm] at h
        | tailRipple => simp [inferTerms, inferTerm] at h
  · -- chains
    intro ro Γ ρ ft flow ch τ Γ' ch' h hE hflow
    cases ch with
    | mk pat terms =>
      cases pat with
      | none =>
        simp only [inferChain] at h
        split at h
        case h_2 => simp at h
        rename_i t0 Γ0 terms' hts
        simp only [Option.some.injEq, Prod.mk.injEq] at h
        obtain ⟨h1, h2, h3⟩ := h
        subst h1 h2 h3
        simp only [evalChain]
        refine Good.bind (ihTs ro Γ ρ ft flow terms t0 Γ0 terms' hts hE hflow) ?_
        rintro ⟨v, ρ'⟩ hres
        exact hres
      | some p =>
        simp only [inferChain] at h
        split at h
        case h_2 => simp at h
        rename_i t0 Γ0 terms' hts
        split at h
        case h_2 => simp at h
        rename_i vt Γ1 r hap
        split at h
        case isFalse => simp at h
        rename_i hro
        simp only [Option.some.injEq, Prod.mk.injEq] at h
        obtain ⟨h1, h2, h3⟩ := h
        subst h1 h2 h3
        simp only [evalChain]
        refine Good.bind (ihTs false Γ ρ ft flow terms t0 Γ0 terms' hts hE hflow) ?_
        rintro ⟨v, ρ'⟩ ⟨hv, hE''⟩
        have hE' := hE'' (Or.inl rfl)
        simp only
        refine Good.mono (doMatch_sound c hr hap hE' hv) ?_
        rintro ⟨v2, ρ2⟩ ⟨hv2, hnn, hir⟩
        refine ⟨hv2, fun hor => (hnn ?_).1⟩
        rcases hor with hro' | hnil
        · subst hro'
          simp only [Bool.false_or] at hro
          exact hir hro
        · exact hnil
  · -- tuple fields
    intro Γ ρ ft flow seen fields ftys Γ' fields' accT acc inhn h hE hflow hrel hseen
    cases fields with
    | nil =>
      simp only [inferFields, Option.some.injEq, Prod.mk.injEq] at h
      obtain ⟨h1, h2, h3⟩ := h
      subst h1 h2 h3
      simp only [evalFields, Good, List.append_nil]
      exact ⟨hrel, trivial, hE⟩
    | cons fd rest =>
      cases fd with
      | spread _ => simp [inferFields] at h
      | val label ch =>
        simp only [inferFields] at h
        split at h
        case isTrue => simp at h
        rename_i hfresh
        split at h
        case h_2 => simp at h
        rename_i t0 Γ1 ch' hch
        split at h
        case h_2 => simp at h
        rename_i ftys0 Γ2 rest' hrest
        simp only [Option.some.injEq, Prod.mk.injEq] at h
        obtain ⟨h1, h2, h3⟩ := h
        subst h1 h2 h3
        simp only [evalFields]
        refine Good.bind (ihC false Γ ρ ft flow ch t0 Γ1 ch' hch hE hflow) ?_
        rintro ⟨v, ρ'⟩ ⟨hv, hE''⟩
        have hE' := hE'' (Or.inl rfl)
        simp only
        have hfr : setOrAppend acc label v = acc ++ [(label, v)] :=
          setOrAppend_fresh hrel hseen label (by simpa using hfresh) v
        rw [hfr]
        have hrel' := FieldsRel.snoc accT acc label t0 v hrel hv
        have hseen' : ∀ l, some l ∈ (accT ++ [(label, t0)]).map (·.1) →
            l ∈ pushLabel label seen := by
          intro l hl
          simp only [List.map_append, List.map_cons, List.map_nil, List.mem_append, List.mem_singleton] at hl
          rcases hl with hl | hl
          · have := hseen l hl
            cases label with
            | none => exact this
            | some l0 => exact List.mem_cons_of_mem _ this
          · subst hl; exact List.mem_cons_self (a := l) (l := seen)
        have := ihF Γ1 ρ' ft flow _ rest ftys0 Γ2 rest' (accT ++ [(label, t0)]) (acc ++ [(label, v)]) inhn
          hrest hE' hflow hrel' hseen'
        simpa [List.append_assoc] using this

  · -- sequences
    intro Γ ρ ft flow cs ts Γ' cs' hne h hE hflow
    cases cs with
    | nil => exact absurd rfl hne
    | cons ch rest =>
      simp only [inferSeqChains] at h
      split at h
      case h_2 => simp at h
      rename_i t Γ1 ch' hch
      cases rest with
      | nil =>
        simp only [Option.some.injEq, Prod.mk.injEq] at h
        obtain ⟨h1, h2, h3⟩ := h
        subst h1 h2 h3
        simp only [evalSeq]
        have hC := ihC true Γ ρ ft flow ch t Γ1 ch' hch hE hflow
        cases hq : evalChain n ρ flow ch' with
        | ok res =>
          obtain ⟨v, ρ'⟩ := res
          rw [hq] at hC
          simp only [Good] at hC
          simp only [Res.bind, Good]
          left
          refine ⟨t, rfl, hC.1, fun hn => ?_⟩
          exact narrowVar_sound c hr hch hE hq hn (hC.2 (Or.inr hn))
        | fuelOut => simp [Res.bind, Good]
        | err _ => simp [Res.bind, Good]
        | unspec _ => rw [hq] at hC; exact hC
      | cons c2 rest2 =>
        simp only at h
        split at h
        case h_2 => simp at h
        rename_i t' hwn
        split at h
        case h_2 => simp at h
        rename_i ts0 Γ3 rest' hrec
        simp only [Option.some.injEq, Prod.mk.injEq] at h
        obtain ⟨h1, h2, h3⟩ := h
        subst h1 h2 h3
        obtain ⟨⟨t1, ts1, hts1⟩, x, xs, hx⟩ := inferSeqChains_nonempty c hrec
        subst hx
        simp only [evalSeq]
        have hC := ihC true Γ ρ ft flow ch t Γ1 ch' hch hE hflow
        cases hq : evalChain n ρ flow ch' with
        | ok res =>
          obtain ⟨v, ρ'⟩ := res
          rw [hq] at hC
          simp only [Good] at hC
          simp only [Res.bind]
          cases hnil : v.isNil with
          | true =>
            simp only [if_true, Good]
            right
            have hvn := isNil_eq hnil
            subst hvn
            exact ⟨trivial, t, List.mem_cons_self .., vt_nil_nilIn hC.1 _⟩
          | false =>
            simp only [Bool.false_eq_true, if_false]
            have hE2 := narrowVar_sound c hr hch hE hq hnil (hC.2 (Or.inr hnil))
            obtain ⟨w, hw, hin⟩ := hC.1
            have hv' : VT c t' v := ⟨w, hw, withoutNil_inh hwn w hin (isNil_false_ne hw hnil)⟩
            refine Good.mono (ihS _ ρ' t' v (c2 :: rest2) ts0 _ (x :: xs) (by simp) hrec hE2 hv') ?_
            rintro ⟨v2, ρ2⟩ hres
            rcases hres with ⟨tl, htl, hvl, hel⟩ | ⟨hn2, t0, ht0, hnl⟩
            · left
              subst hts1
              exact ⟨tl, by simpa [List.getLast?_cons_cons] using htl, hvl, hel⟩
            · right
              exact ⟨hn2, t0, List.mem_cons_of_mem _ ht0, hnl⟩
        | fuelOut => simp [Res.bind, Good]
        | err _ => simp [Res.bind, Good]
        | unspec _ => rw [hq] at hC; exact hC
  · -- blocks
    intro Γ ρ ft flow brs tys ex brs' h hE hflow
    cases brs with
    | nil =>
      simp only [inferBranches, Option.some.injEq, Prod.mk.injEq] at h
      obtain ⟨h1, h2, h3⟩ := h
      subst h1 h2 h3
      simp only [evalExpr, Good]
      exact Or.inr ⟨trivial, trivial⟩
    | cons br rest =>
      obtain ⟨cond, cons⟩ := br
      simp only [inferBranches] at h
      split at h
      case h_2 => simp at h
      rename_i ts Γ1 cond' hcond
      split at h
      case h_2 => simp at h
      rename_i tc htc
      split at h
      case h_2 => simp at h
      rename_i tb cons' hcons
      split at h
      case h_2 => simp at h
      rename_i ft' nev hnp
      split at h
      case h_2 => simp at h
      rename_i tys0 ex0 rest' hrest
      simp only [Option.some.injEq, Prod.mk.injEq] at h
      obtain ⟨h1, h2, h3⟩ := h
      subst h1 h2 h3
      have hcne : cond ≠ [] := by
        intro hc
        subst hc
        simp only [inferSeqChains, Option.some.injEq, Prod.mk.injEq] at hcond
        rw [← hcond.1] at htc
        simp [seqType] at htc
      simp only [evalExpr]
      have hS := ihS Γ ρ ft flow cond ts Γ1 cond' hcne hcond hE hflow
      cases hq : evalSeq n ρ flow cond' with
      | ok res =>
        obtain ⟨v, ρ'⟩ := res
        rw [hq] at hS
        simp only [Good] at hS
        have hvtc : VT c tc v := seqType_sound hr htc (by
          rcases hS with ⟨tl, htl, hvl, _⟩ | hS'
          · exact Or.inl ⟨tl, htl, hvl⟩
          · exact Or.inr hS')
        simp only [Res.bind]
        cases hnil : v.isNil with
        | true =>
          simp only [if_true]
          have hvn := isNil_eq hnil
          subst hvn
          obtain ⟨hflow2, hnev⟩ := nextParam_sound c hr hr.compl hnp hcond hflow hq
          subst hnev
          refine Good.mono (ihE Γ ρ ft' flow rest tys0 ex0 rest' hrest hE hflow2) ?_
          intro v2 hv2
          rcases hv2 with ⟨t0, ht0, hv0⟩ | ⟨hn2, hex⟩
          · exact Or.inl ⟨t0, List.mem_cons_of_mem _ ht0, hv0⟩
          · right
            refine ⟨hn2, ?_⟩
            simp only [Bool.false_or]
            unfold exhaustiveFlag
            split
            · simp [vt_nil_nilIn hvtc]
            · exact hex
        | false =>
          simp only [Bool.false_eq_true, if_false]
          have hE1 : EnvOK c Γ1 ρ' := by
            rcases hS with ⟨tl, htl, hvl, hel⟩ | ⟨hvn, _⟩
            · exact hel hnil
            · subst hvn; simp [Val.nil, Val.isNil] at hnil
          cases cons with
          | none =>
            simp only [inferCons] at hcons
            split at hcons
            · simp only [Option.some.injEq, Prod.mk.injEq] at hcons
              obtain ⟨h1, h2⟩ := hcons
              subst h1 h2
              simp only [Good]
              exact Or.inl ⟨tc, List.mem_cons_self .., hvtc⟩
            · split at hcons
              case h_2 => simp at hcons
              rename_i tb' hwn
              simp only [Option.some.injEq, Prod.mk.injEq] at hcons
              obtain ⟨h1, h2⟩ := hcons
              subst h1 h2
              simp only [Good]
              obtain ⟨w, hw, hin⟩ := hvtc
              exact Or.inl ⟨tb', List.mem_cons_self .., w, hw,
                withoutNil_inh hwn w hin (isNil_false_ne hw hnil)⟩
          | some cs =>
            simp only [inferCons] at hcons
            split at hcons
            case h_2 => simp at hcons
            rename_i ts2 Γ2 cs' hcs
            split at hcons
            case h_2 => simp at hcons
            rename_i tb' hst
            simp only [Option.some.injEq, Prod.mk.injEq] at hcons
            obtain ⟨h1, h2⟩ := hcons
            subst h1 h2
            have hcsne : cs ≠ [] := by
              intro hc
              subst hc
              simp only [inferSeqChains, Option.some.injEq, Prod.mk.injEq] at hcs
              rw [← hcs.1] at hst
              simp [seqType] at hst
            have hflow' : VT c (narrowParam c ft cond) flow := narrowParam_sound c hr hcond hflow hq hnil
            simp only
            refine Good.bind (ihS Γ1 ρ' _ flow cs ts2 Γ2 cs' hcsne hcs hE1 hflow') ?_
            rintro ⟨w, ρ2⟩ hres
            simp only [Good]
            left
            refine ⟨tb', List.mem_cons_self .., seqType_sound hr hst ?_⟩
            rcases hres with ⟨tl, htl, hvl, _⟩ | hres'
            · exact Or.inl ⟨tl, htl, hvl⟩
            · exact Or.inr hres'
      | fuelOut => simp [Res.bind, Good]
      | err _ => simp [Res.bind, Good]
      | unspec _ => rw [hq] at hS; exact hS

/-- **every term, chain, field list, sequence and block the fragment accepts is evaluated without
getting stuck, to a value of the inferred type** — for every fuel. -/
theorem infer_terms_sound (c : Ctx) (hr : CurrentRules c) :
    ∀ n, TermOK c n ∧ TermsOK c n ∧ ChainOK c n ∧ FieldsOK c n ∧ SeqOK c n ∧ ExprOK c n
  | 0 => by
    refine ⟨?_, ?_, ?_, ?_, ?_, ?_⟩
    · intro _ _ _ _ _ _ _ _ _ _ _; simp [evalTerm, Good]
    · intro _ _ _ _ _ _ _ _ _ _ _ _; simp [evalTerms, Good]
    · intro _ _ _ _ _ _ _ _ _ _ _ _; simp [evalChain, Good]
    · intro _ _ _ _ _ _ _ _ _ _ _ _ _ _ _ _ _; simp [evalFields, Good]
    · intro _ _ _ _ _ _ _ _ _ _ _ _; simp [evalSeq, Good]
    · intro _ _ _ _ _ _ _ _ _ _ _; simp [evalExpr, Good]
  | n + 1 => infer_step c hr n (infer_terms_sound c hr n)

theorem infer_seq_sound (c : Ctx) (hr : CurrentRules c) {Γ : TEnv} {ρ : Env} {ft : Nat}
    {flow : QM.RefSem.Val} {cs cs' : List Chain} {τ : Nat} (h : inferSeq c Γ ft cs = some (τ, cs'))
    (hE : EnvOK c Γ ρ) (hflow : VT c ft flow) (n : Nat) :
    Good (evalSeq n ρ flow cs') (fun r => VT c τ r.1) := by
  simp only [inferSeq] at h
  split at h
  case h_2 => simp at h
  rename_i ts Γ1 cs'' hch
  split at h
  case h_2 => simp at h
  rename_i t hst
  simp only [Option.some.injEq, Prod.mk.injEq] at h
  obtain ⟨h1, h2⟩ := h
  subst h1 h2
  have hne : cs ≠ [] := by
    intro hcs
    subst hcs
    simp only [inferSeqChains, Option.some.injEq, Prod.mk.injEq] at hch
    rw [← hch.1] at hst
    simp [seqType] at hst
  refine Good.mono ((infer_terms_sound c hr n).2.2.2.2.1 Γ ρ ft flow cs ts Γ1 cs'' hne hch hE hflow) ?_
  rintro ⟨v, ρ'⟩ hres
  refine seqType_sound hr hst ?_
  rcases hres with ⟨tl, htl, hvl, _⟩ | hres'
  · exact Or.inl ⟨tl, htl, hvl⟩
  · exact Or.inr hres'

/-! ### The theorem -/

/-- **Type soundness, full statement**, for an acceptance judgement `Accepts cs T nm τ cs'`
("the compiler accepts the program `cs`, registers its types in `T` under the interning `nm`, infers
the result type `τ` and runs `cs'`"): every accepted program, for every fuel, evaluates without
getting stuck (never the `unspec` class), and a value it yields inhabits `τ`. For the real compiler
this is the claim C01 is about; it is NOT proved — the compiler's judgement is not modelled beyond
the fragment below, and the oracle of `harness/src/bin/c01` found it false for the code as it is
(findings F5, F25, N1, N4, N6, N11/N13 of notes/C01.md). -/
def TypeSoundnessStatement
    (Accepts : List Chain → Table → (String → Name) → Nat → List Chain → Prop) : Prop :=
  ∀ cs T nm τ cs', Function.Injective nm → Accepts cs T nm τ cs' →
    ∀ n, Good (evalProgram n cs') (fun v => ∃ w, toV nm v = some w ∧ inh T [] τ w)

/-- the acceptance judgement of the modelled fragment, under the rules of the code as it is. -/
def FragmentAccepts (fuel : Nat) : List Chain → Table → (String → Name) → Nat → List Chain → Prop :=
  fun cs T nm τ cs' => inferProgram ⟨{ fuel := fuel }, T, nm, []⟩ [] cs = some (τ, cs')

/-- **`infer_sound_fragment`** — the statement holds for the fragment: straight-line first-order
programs (literals, tuple construction, variable binding and lookup, `.label` / `.index` access
through `get_field_by_name`, `,`-sequences with the nil short-circuit, builtin calls through the
regenerated signature table). OUTSIDE the fragment: blocks and branches (with the narrowing,
complement and dispatch machinery), patterns other than a binder, function literals and recursion
(`#…`, `^`), spreads, partial types, processes. Environment functions applied through the
unify/substitute guard are covered by `infer_seq_sound` (they need an environment, so they do not
occur in a closed program). -/
theorem infer_sound_fragment (fuel : Nat) : TypeSoundnessStatement (FragmentAccepts fuel) := by
  intro cs T nm τ cs' hinj h n
  let c : Ctx := ⟨{ fuel := fuel }, T, nm, []⟩
  have hr : CurrentRules c := ⟨rfl, rfl, rfl, (by intro h; exact ComplRule.noConfusion h), hinj⟩
  have hE : EnvOK c [] [] := ⟨fun x t hx => by simp [tlookup] at hx, fun x p r _ hf => by simp [c, flookup] at hf⟩
  simp only [FragmentAccepts, inferProgram] at h
  split at h
  case h_2 => simp at h
  rename_i nt hnt
  have := infer_seq_sound c hr h hE (vt_nil hnt) n
  simp only [evalProgram]
  cases hq : evalSeq n [] Val.nil cs' with
  | ok r => rw [hq] at this; exact this
  | fuelOut => trivial
  | err _ => trivial
  | unspec _ => rw [hq] at this; exact this

/-- the same with a typing context: variables of first-order types and environment functions
(applied through the generic-call guard) — for every environment that respects the context. -/
theorem infer_sound_fragment_env (c : Ctx) (hr : CurrentRules c) {Γ : TEnv} {ρ : Env} {ft : Nat}
    {flow : QM.RefSem.Val} {cs cs' : List Chain} {τ : Nat} (h : inferSeq c Γ ft cs = some (τ, cs'))
    (hE : EnvOK c Γ ρ) (hflow : VT c ft flow) :
    ∀ n, Good (evalSeq n ρ flow cs') (fun r => VT c τ r.1) :=
  infer_seq_sound c hr h hE hflow

def nmPerm (s : String) : Name :=
  if s = "x" then 1 else if s = "y" then 2 else if s = "A" then 10 else if s = "B" then 11 else
  if s = "Ok" then 9 else 0

/-! ### The fragment is not empty

`p = A[x: 1, y: 0xff], [p.x, 2] __integer_add__` — names: x = 1, y = 2, A = 10, Ok = 9.
tuples: 0 `[]`, 1 `Ok`, 2 `A[x: 'int, y: 'bin]`, 3 `['int, 'int]`;
types: 0 'int, 1 'bin, 2 `[]`, 3 `Ok`, 4 `A[…]`, 5 `['int, 'int]`. -/
def tDemo : Table :=
  { types := [.integer, .binary, .tuple 0, .tuple 1, .tuple 2, .tuple 3],
    tuples := [⟨none, []⟩, ⟨some 9, []⟩, ⟨some 10, [(some 1, 0), (some 2, 1)]⟩, ⟨none, [(none, 0), (none, 0)]⟩] }

def pDemo : List Chain :=
  [.mk (some (.bind "p")) [.tuple (.named "A")
      [.val (some "x") (.mk none [.lit (.int 1)]), .val (some "y") (.mk none [.lit (.bin [255])])]],
   .mk none [.tuple .anon [.val none (.mk none [.access (.var "p") [.label "x"]]),
                           .val none (.mk none [.lit (.int 2)])],
             .access (.builtin "integer_add") []]]

/-- accepted at type `'int`, `p.x` compiled to position 0, and the elaborated program yields 3. -/
example :
    (match inferProgram ⟨{}, tDemo, nmPerm, []⟩ [] pDemo with
     | some (0, [_, .mk none [.tuple .anon [.val none (.mk none [.access (.var "p") [.index 0]]), _], _]]) => true
     | _ => false) = true ∧
    (match inferProgram ⟨{}, tDemo, nmPerm, []⟩ [] pDemo with
     | some (_, cs') => (match evalProgram 12 cs' with | .ok (.int 3) => true | _ => false)
     | none => false) = true := by
  refine ⟨by decide, by decide⟩

/-! ### The two seeded rules break the theorem

C01-3 (`compile_sequence` looks at the preceding chain only) and C01-4 (`get_field_by_name` skips
the same-index check for a field type already seen), as rules of `infer`: each accepts a program
whose evaluation yields a value OUTSIDE the inferred type. -/

/-- types: 0 'int, 1 `[]`, 2 `'int | []`. -/
def tSeqW : Table := { types := [.integer, .tuple 0, .union [0, 1]], tuples := [⟨none, []⟩] }

def cSeqW (rule : SeqRule) : Ctx := ⟨{ seq := rule }, tSeqW, fun _ => 0, []⟩

/-- `x, 1, 2` with `x : 'int | []`. -/
def pSeqW : List Chain :=
  [.mk none [.access (.var "x") []], .mk none [.lit (.int 1)], .mk none [.lit (.int 2)]]

/-- the threaded-only rule types `x, 1, 2` as `'int`; with `x = []` the program yields `[]`. -/
theorem threaded_only_breaks_infer_sound :
    (inferSeq (cSeqW .threadedOnly) [("x", 2)] 1 pSeqW).map (·.1) = some 0 ∧
    (match evalSeq 8 [("x", some Val.nil)] Val.nil pSeqW with
     | .ok (v, _) => v.isNil
     | _ => false) = true ∧
    (∀ f, inhB tSeqW f [] 0 (.tup none .nil) = false) ∧
    (inferSeq (cSeqW .accumulated) [("x", 2)] 1 pSeqW).map (·.1) = some 2 := by
  refine ⟨by decide, by decide, ?_, by decide⟩
  intro f
  cases f <;> simp [inhB, tSeqW]

def cPermW (rule : IndexRule) : Ctx := ⟨{ idx := rule }, tPerm, nmPerm, []⟩

/-- `v.x` with `v : A[x: 'int, y: 'bin] | B[y: 'bin, x: 'int]`. -/
def pPermW : List Chain := [.mk none [.access (.var "v") [.label "x"]]]

/-- `B[y: 0xff, x: 2]` -/
def vPermW : QM.RefSem.Val := .tup (some "B") [(some "y", .bin [255]), (some "x", .int 2)]

/-- the skip-seen-types rule accepts `v.x`, compiles it to position 0 and types it `'int`; on
`B[y: 0xff, x: 2]` the compiled access reads `0xff`. The code as it is rejects the access. -/
theorem skip_seen_types_breaks_infer_sound :
    (match inferSeq (cPermW .skipSeenTypes) [("v", 4)] 0 pPermW with
     | some (0, [.mk none [.access (.var "v") [.index 0]]]) => true
     | _ => false) = true ∧
    toV nmPerm vPermW = some vPerm ∧ inhB tPerm 8 [] 4 vPerm = true ∧
    (match evalSeq 8 [("v", some vPermW)] Val.nil [.mk none [.access (.var "v") [.index 0]]] with
     | .ok (.bin [255], _) => true
     | _ => false) = true ∧
    (∀ f, inhB tPerm f [] 0 (.bin [255]) = false) ∧
    (inferSeq (cPermW .always) [("v", 4)] 0 pPermW).isNone = true := by
  refine ⟨by decide, by decide, by decide, by decide, ?_, by decide⟩
  intro f
  cases f <;> simp [inhB, tPerm]

/-! ### Blocks: examples and a rule that breaks the theorem

names: A = 10, Ok = 9. tuples: 0 `[]`, 1 `Ok`, 2 `A`;
types: 0 'int, 1 `[]`, 2 `Ok`, 3 `Ok | []`, 4 `A`, 5 never, 6 `A | []`, 7 `'int | []`. -/
def tBlk : Table :=
  { types := [.integer, .tuple 0, .tuple 1, .union [2, 1], .tuple 2, .union [], .union [4, 1], .union [0, 1]],
    tuples := [⟨none, []⟩, ⟨some 9, []⟩, ⟨some 10, []⟩] }

def cBlk (compl : ComplRule) (narrow : NarrowRule) : Ctx :=
  ⟨{ compl := compl, narrow := narrow }, tBlk, nmPerm, []⟩

/-- `x { | ='int => 1 | =[] => 2 }` with `x : 'int | []` -/
def pDispatch : List Chain :=
  [.mk none [.access (.var "x") [],
     .block (.mk [.mk [.mk none [.mtch (.type .int)]] (some [.mk none [.lit (.int 1)]]),
                  .mk [.mk none [.mtch (.tup none [])]] (some [.mk none [.lit (.int 2)]])])]]

/-- with the complement the second branch sees `[]`, its pattern is irrefutable, the block is
exhaustive: type `'int`; without it the block is typed `'int | []`; both runs yield an integer. -/
example :
    (inferSeq (cBlk .faithful .matched) [("x", 7)] 1 pDispatch).map (·.1) = some 0 ∧
    (inferSeq (cBlk .off .matched) [("x", 7)] 1 pDispatch).map (·.1) = some 7 ∧
    (match evalSeq 12 [("x", some (.int 5))] Val.nil pDispatch with | .ok (.int 1, _) => true | _ => false) = true ∧
    (match evalSeq 12 [("x", some Val.nil)] Val.nil pDispatch with | .ok (.int 2, _) => true | _ => false) = true := by
  refine ⟨by decide, by decide, by decide, by decide⟩

/-- `x { | =0 => A }` with `x : 'int` -/
def pLitCover : List Chain :=
  [.mk none [.access (.var "x") [],
     .block (.mk [.mk [.mk none [.mtch (.lit (.int 0))]] (some [.mk none [.tuple (.named "A") []]])])]]

/-- **a literal pattern must not count as covering its type** (`prevents_complement_narrowing`): if
it does, `'int ∖ 'int` is never, the block `x { | =0 => A }` is exhaustive and typed `A`, and with
`x = 1` it yields `[]`. The code as it is types it `A | []`. -/
theorem value_pattern_complement_breaks_infer_sound :
    (inferSeq (cBlk .alsoValuePatterns .matched) [("x", 0)] 1 pLitCover).map (·.1) = some 4 ∧
    (match evalSeq 12 [("x", some (.int 1))] Val.nil pLitCover with | .ok (v, _) => v.isNil | _ => false) = true ∧
    (∀ f, inhB tBlk f [] 4 (.tup none .nil) = false) ∧
    (inferSeq (cBlk .faithful .matched) [("x", 0)] 1 pLitCover).map (·.1) = some 6 := by
  refine ⟨by decide, by decide, ?_, by decide⟩
  intro f
  cases f <;> simp [inhB, tBlk, fieldsB]

/-- the forward-narrowing rule before 47b34c5 (narrow to `result_type`, nil marker included) keeps
the scrutinee's nil after `='int`: WIDER than the matched type, so it cannot break the theorem in
this fragment (`narrowTo_sound` covers all three rules) — it was unsound only through the
case-table guards of the call-site dispatch, which are outside. -/
example :
    (inferPat (cBlk .faithful .matched) [] 7 (.type .int)).map (·.matched) = some 0 ∧
    (inferPat (cBlk .faithful .withNilMarker) [] 7 (.type .int)).map (·.matched) = some 7 ∧
    (inferPat (cBlk .faithful .none) [] 7 (.type .int)).map (·.matched) = some 7 := by
  refine ⟨by decide, by decide, by decide⟩

end C01
