import QuiverModel.Lemmas.Soundness.InferBasic
import QuiverModel.Theorems.C01
import QuiverModel.Theorems.C01Field
import QuiverModel.Theorems.C01Seq
/-
C01 — **type soundness of a fragment of the inference, end to end**: `infer_sound_fragment`.

`QM.Soundness.inferProgram` (Core/Soundness/Infer.lean) types straight-line first-order programs of
the documented core syntax (C02's `QM.RefSem`) against the compiled program's own type table and
resolves `.label` accessors to positions. For every program it accepts, every environment that
respects the typing context and every fuel, the reference evaluator on the elaborated program
  * never answers `unspec` (the class of stuck states / ill-typed operations — PROGRESS), and
  * if it answers a value, the value inhabits the inferred type (`inh` of C09 — PRESERVATION).
The proof is by induction on the evaluator's fuel, for all programs at once — no size bound.

It composes the three rules proved separately before — by-name field access
(`field_by_name_sound_*`), the nil bookkeeping of sequences (`seq_nil_sound`) and the generic-call
guard (`guard_unify_sound_partial`) — with tuple construction, literals, variable binding / lookup
and the builtin calls typed through the regenerated signature table.

`TypeSoundnessStatement` is the full statement (every accepted program of the whole language); what
is outside the fragment is listed there. `threaded_only_breaks_infer_sound` and
`skip_seen_types_breaks_infer_sound` show that the two seeded rules (C01-3, C01-4) break the theorem.
-/
namespace C01
open QM.Types QM.RefSem QM.Soundness

/-! ### Accessors -/

theorem project1_index_of_toV {c : Ctx} {v : QM.RefSem.Val} {name : Option Name} {fs : VFields} {idx : Nat}
    {l : Option Name} {u : V} (hv : toV c.nm v = some (.tup name fs)) (hk : fs.toList[idx]? = some (l, u)) :
    ∃ u', project1 v (.index idx) = .ok u' ∧ toV c.nm u' = some u := by
  obtain ⟨n', fs', hv', _, hfs⟩ := toV_tup_inv hv
  obtain ⟨u', h1, h2⟩ := toVFields_index fs' fs idx l u hfs hk
  exact ⟨u', by subst hv'; simp [project1, h1], h2⟩

theorem inferAcc_sound (c : Ctx) (hidx : c.cfg.idx = .always) {t t' : Nat} {a a' : Acc}
    (h : inferAcc c t a = some (t', a')) {v : QM.RefSem.Val} (hv : VT c t v) :
    ∃ u, project1 v a' = .ok u ∧ VT c t' u := by
  obtain ⟨w, hw, hin⟩ := hv
  cases a with
  | label l =>
    simp only [inferAcc] at h
    split at h
    case isFalse => simp at h
    rename_i hok
    split at h
    case h_2 => simp at h
    rename_i idx tys hg
    split at h
    case h_2 => simp at h
    rename_i u hu
    simp only [Option.some.injEq, Prod.mk.injEq] at h
    obtain ⟨h1, h2⟩ := h
    subst h1 h2
    rw [hidx] at hg
    unfold labelOk at hok
    cases hty : c.T.types[t]? with
    | none => rw [hty] at hok; simp at hok
    | some ty =>
      rw [hty] at hok
      cases ty with
      | tuple id =>
        obtain ⟨name, fs, u0, ty0, hwv, hk, hmem, hu0⟩ :=
          field_by_name_sound_tuple c.T (c.cfg.fuel + 1) t id idx (c.nm l) tys hty hg w hin
        subst hwv
        obtain ⟨u', hp, hu'⟩ := project1_index_of_toV hw hk
        exact ⟨u', hp, u0, hu', unionOfTypes_inh hu u0 ty0 hmem hu0⟩
      | union ids =>
        simp only at hok
        have hflat : ∀ i ∈ ids, ∃ id, c.T.types[i]? = some (.tuple id) := by
          intro i hi
          have := List.all_eq_true.mp hok i hi
          unfold isTupleTy at this
          split at this
          · rename_i id hid; exact ⟨id, hid⟩
          · simp at this
        obtain ⟨name, fs, u0, ty0, hwv, hk, hmem, hu0⟩ :=
          field_by_name_sound_union c.T c.cfg.fuel t idx (c.nm l) ids tys hty hflat hg w hin
        subst hwv
        obtain ⟨u', hp, hu'⟩ := project1_index_of_toV hw hk
        have hu0' : inh c.T [] ty0 u0 := inh_ext (Ext.refl c.T) (unionOfTypes_fo hu ty0 hmem) hu0
        exact ⟨u', hp, u0, hu', unionOfTypes_inh hu u0 ty0 hmem hu0'⟩
      | _ => simp at hok
  | index i =>
    simp only [inferAcc] at h
    split at h
    case h_2 => simp at h
    rename_i id hty
    split at h
    case h_2 => simp at h
    rename_i info htu
    split at h
    case h_2 => simp at h
    rename_i lbl ft hfi
    simp only [Option.some.injEq, Prod.mk.injEq] at h
    obtain ⟨h1, h2⟩ := h
    subst h1 h2
    obtain ⟨name, fs, f, hwv, _, hf⟩ := inh_tuple hty htu hin
    subst hwv
    obtain ⟨u0, hk, hg⟩ := fieldsB_at info.fields fs i lbl ft hf hfi
    obtain ⟨u', hp, hu'⟩ := project1_index_of_toV hw hk
    exact ⟨u', hp, u0, hu', f, hg⟩

theorem inferAccs_sound (c : Ctx) (hidx : c.cfg.idx = .always) : ∀ (accs accs' : List Acc) (t t' : Nat)
    (v : QM.RefSem.Val), inferAccs c t accs = some (t', accs') → VT c t v →
    ∃ u, project v accs' = .ok u ∧ VT c t' u
  | [], accs', t, t', v, h, hv => by
    simp only [inferAccs, Option.some.injEq, Prod.mk.injEq] at h
    obtain ⟨h1, h2⟩ := h
    subst h1 h2
    exact ⟨v, rfl, hv⟩
  | a :: rest, accs', t, t', v, h, hv => by
    simp only [inferAccs] at h
    split at h
    case h_2 => simp at h
    rename_i t1 a' ha
    split at h
    case h_2 => simp at h
    rename_i t2 rest' hr
    simp only [Option.some.injEq, Prod.mk.injEq] at h
    obtain ⟨h1, h2⟩ := h
    subst h1 h2
    obtain ⟨u1, hp1, hu1⟩ := inferAcc_sound c hidx ha hv
    obtain ⟨u, hp, hu⟩ := inferAccs_sound c hidx rest rest' t1 t2 u1 hr hu1
    exact ⟨u, by simp [project, hp1, hp], hu⟩

/-! ### Builtins -/

/-- the outcomes the theorem allows: a value with the property, fuel exhaustion, or a value-domain
error of a builtin (`InvalidArgument`: division by zero) — never `unspec`. -/
def Good {α : Type} (r : Res α) (P : α → Prop) : Prop :=
  match r with
  | .ok a => P a
  | .fuelOut => True
  | .err _ => True
  | .unspec _ => False

theorem Good.bind {α β : Type} {r : Res α} {f : α → Res β} {P : α → Prop} {Q : β → Prop}
    (h : Good r P) (hf : ∀ a, P a → Good (f a) Q) : Good (r.bind f) Q := by
  cases r with
  | ok a => exact hf a h
  | fuelOut => trivial
  | err _ => trivial
  | unspec _ => exact h

theorem shape_sigs :
    builtinShape "integer_add" = some (.ii, .i) ∧ builtinShape "integer_subtract" = some (.ii, .i) ∧
    builtinShape "integer_multiply" = some (.ii, .i) ∧ builtinShape "integer_divide" = some (.ii, .i) ∧
    builtinShape "integer_modulo" = some (.ii, .i) ∧ builtinShape "integer_compare" = some (.ii, .i) ∧
    builtinShape "integer_abs" = some (.i, .i) ∧ builtinShape "binary_length" = some (.b, .i) ∧
    builtinShape "binary_concat" = some (.bb, .b) := by decide

theorem pair_inv {c : Ctx} {t id i : Nat} (hty : c.T.types[t]? = some (.tuple id))
    (htu : c.T.tuples[id]? = some ⟨none, [(none, i), (none, i)]⟩) {v : QM.RefSem.Val} (hv : VT c t v) :
    ∃ n l1 l2 x y, v = .tup n [(l1, x), (l2, y)] ∧ VT c i x ∧ VT c i y := by
  obtain ⟨w, hw, hin⟩ := hv
  obtain ⟨name, fs, f, hwv, _, hf⟩ := inh_tuple hty htu hin
  subst hwv
  cases fs with
  | nil => simp [fieldsB] at hf
  | cons l1 w1 r1 =>
    cases r1 with
    | nil => simp [fieldsB] at hf
    | cons l2 w2 r2 =>
      cases r2 with
      | cons _ _ _ => simp [fieldsB] at hf
      | nil =>
        simp only [fieldsB, Bool.and_eq_true, decide_eq_true_eq, and_true] at hf
        obtain ⟨⟨_, h1⟩, _, h2⟩ := hf
        obtain ⟨n', fs', hv', _, hfs⟩ := toV_tup_inv hw
        obtain ⟨l1', x, rest, hfs1, _, hx, hrest⟩ := toVFields_cons_inv hfs
        obtain ⟨l2', y, rest2, hfs2, _, hy, hrest2⟩ := toVFields_cons_inv hrest
        have := toVFields_nil_inv hrest2
        subst this hfs2 hfs1 hv'
        exact ⟨n', l1', l2', x, y, rfl, ⟨w1, hx, f, h1⟩, ⟨w2, hy, f, h2⟩⟩

theorem vt_int_inv {c : Ctx} {t : Nat} (hty : c.T.types[t]? = some .integer) {v : QM.RefSem.Val}
    (hv : VT c t v) : ∃ z, v = .int z := by
  obtain ⟨w, hw, hin⟩ := hv
  obtain ⟨z, hz⟩ := inh_integer hty hin
  subst hz
  exact ⟨z, toV_int_inv hw⟩

theorem vt_bin_inv {c : Ctx} {t : Nat} (hty : c.T.types[t]? = some .binary) {v : QM.RefSem.Val}
    (hv : VT c t v) : ∃ bs, v = .bin bs := by
  obtain ⟨w, hw, hin⟩ := hv
  obtain ⟨bs, hz⟩ := inh_binary hty hin
  subst hz
  exact ⟨bs, toV_bin_inv hw⟩

theorem vt_int_intro {c : Ctx} {t : Nat} (hty : c.T.types[t]? = some .integer) (z : Int) :
    VT c t (.int z) := ⟨.int z, by simp [toV], inh_int_intro hty z⟩

theorem vt_bin_intro {c : Ctx} {t : Nat} (hty : c.T.types[t]? = some .binary) (bs : List UInt8) :
    VT c t (.bin bs) := ⟨.bin bs, by simp [toV], inh_bin_intro hty bs⟩

/-- what a value of the type of a signature shape looks like. -/
def ShapeVal : Shape → QM.RefSem.Val → Prop
  | .i, v => ∃ z, v = .int z
  | .b, v => ∃ bs, v = .bin bs
  | .ii, v => ∃ n l1 l2 a b, v = .tup n [(l1, .int a), (l2, .int b)]
  | .bb, v => ∃ n l1 l2 a b, v = .tup n [(l1, .bin a), (l2, .bin b)]

theorem shape_inv {c : Ctx} {s : Shape} {t : Nat} (h : shapeTy c.T s = some t) {v : QM.RefSem.Val}
    (hv : VT c t v) : ShapeVal s v := by
  cases s with
  | i => exact vt_int_inv (findType_spec h) hv
  | b => exact vt_bin_inv (findType_spec h) hv
  | ii =>
    simp only [shapeTy] at h
    split at h
    case h_2 => simp at h
    rename_i i hi
    obtain ⟨id, hty, htu⟩ := tupleType_spec h
    obtain ⟨n, l1, l2, x, y, hv', hx, hy⟩ := pair_inv hty htu hv
    obtain ⟨a, ha⟩ := vt_int_inv (findType_spec hi) hx
    obtain ⟨b, hb⟩ := vt_int_inv (findType_spec hi) hy
    subst ha hb
    exact ⟨n, l1, l2, a, b, hv'⟩
  | bb =>
    simp only [shapeTy] at h
    split at h
    case h_2 => simp at h
    rename_i i hi
    obtain ⟨id, hty, htu⟩ := tupleType_spec h
    obtain ⟨n, l1, l2, x, y, hv', hx, hy⟩ := pair_inv hty htu hv
    obtain ⟨a, ha⟩ := vt_bin_inv (findType_spec hi) hx
    obtain ⟨b, hb⟩ := vt_bin_inv (findType_spec hi) hy
    subst ha hb
    exact ⟨n, l1, l2, a, b, hv'⟩

/-- **the builtins of the fragment respect the regenerated signature table**: on an argument of
the declared parameter type the reference implementation answers a value of the declared result
type or a value-domain error, never "ill-typed". -/
theorem builtin_sound (c : Ctx) {name : String} {sp sr : Shape} {pt rt : Nat}
    (hn : refBuiltins.contains name = true) (hs : builtinShape name = some (sp, sr))
    (hp : shapeTy c.T sp = some pt) (hr : shapeTy c.T sr = some rt) {v : QM.RefSem.Val}
    (hv : VT c pt v) : Good (evalBuiltin name v) (fun out => VT c rt out) := by
  obtain ⟨s1, s2, s3, s4, s5, s6, s7, s8, s9⟩ := shape_sigs
  simp only [refBuiltins, List.contains_cons, List.contains_nil, Bool.or_false, Bool.or_eq_true,
    beq_iff_eq] at hn
  have hint : ∀ z : Int, sr = .i → VT c rt (.int z) := fun z h => by
    subst h; exact vt_int_intro (findType_spec hr) z
  rcases hn with h | h | h | h | h | h | h | h | h <;> subst h
  · rw [s1] at hs; simp only [Option.some.injEq, Prod.mk.injEq] at hs
    obtain ⟨h1, h2⟩ := hs; subst h1
    obtain ⟨n, l1, l2, a, b, hv'⟩ := shape_inv hp hv
    subst hv'; simp only [evalBuiltin, int2, Good]; exact hint _ h2.symm
  · rw [s2] at hs; simp only [Option.some.injEq, Prod.mk.injEq] at hs
    obtain ⟨h1, h2⟩ := hs; subst h1
    obtain ⟨n, l1, l2, a, b, hv'⟩ := shape_inv hp hv
    subst hv'; simp only [evalBuiltin, int2, Good]; exact hint _ h2.symm
  · rw [s3] at hs; simp only [Option.some.injEq, Prod.mk.injEq] at hs
    obtain ⟨h1, h2⟩ := hs; subst h1
    obtain ⟨n, l1, l2, a, b, hv'⟩ := shape_inv hp hv
    subst hv'; simp only [evalBuiltin, int2, Good]; exact hint _ h2.symm
  · rw [s4] at hs; simp only [Option.some.injEq, Prod.mk.injEq] at hs
    obtain ⟨h1, h2⟩ := hs; subst h1
    obtain ⟨n, l1, l2, a, b, hv'⟩ := shape_inv hp hv
    subst hv'; simp only [evalBuiltin, int2]
    split
    · trivial
    · exact hint _ h2.symm
  · rw [s5] at hs; simp only [Option.some.injEq, Prod.mk.injEq] at hs
    obtain ⟨h1, h2⟩ := hs; subst h1
    obtain ⟨n, l1, l2, a, b, hv'⟩ := shape_inv hp hv
    subst hv'; simp only [evalBuiltin, int2]
    split
    · trivial
    · exact hint _ h2.symm
  · rw [s6] at hs; simp only [Option.some.injEq, Prod.mk.injEq] at hs
    obtain ⟨h1, h2⟩ := hs; subst h1
    obtain ⟨n, l1, l2, a, b, hv'⟩ := shape_inv hp hv
    subst hv'; simp only [evalBuiltin, int2, Good]; exact hint _ h2.symm
  · rw [s7] at hs; simp only [Option.some.injEq, Prod.mk.injEq] at hs
    obtain ⟨h1, h2⟩ := hs; subst h1
    obtain ⟨z, hv'⟩ := shape_inv hp hv
    subst hv'; simp only [evalBuiltin, Good]; exact hint _ h2.symm
  · rw [s8] at hs; simp only [Option.some.injEq, Prod.mk.injEq] at hs
    obtain ⟨h1, h2⟩ := hs; subst h1
    obtain ⟨z, hv'⟩ := shape_inv hp hv
    subst hv'; simp only [evalBuiltin, Good]; exact hint _ h2.symm
  · rw [s9] at hs; simp only [Option.some.injEq, Prod.mk.injEq] at hs
    obtain ⟨h1, h2⟩ := hs; subst h1
    obtain ⟨n, l1, l2, a, b, hv'⟩ := shape_inv hp hv
    subst hv'; simp only [evalBuiltin, Good]
    subst h2
    exact vt_bin_intro (findType_spec hr) _

/-! ### Environments -/

/-- what the typing context assumes of an environment FUNCTION of type `p -> r`: for every
instantiation of the type variables, applied (as a chain term, `callFlow`) to a value of the
instantiated parameter type it answers a value of the instantiated result type, runs out of fuel or
fails in the value domain. (Function literals are not typed by the fragment; this is the semantic
typing of the closures the environment provides.) -/
def FunOK (c : Ctx) (f : QM.RefSem.Val) (p r : Nat) : Prop :=
  ∀ (σ : Bindings) (k1 k2 p' r' : Nat), substitute σ k1 c.T p = some (c.T, p') →
    substitute σ k2 c.T r = some (c.T, r') →
    ∀ arg, VT c p' arg → ∀ fuel, Good (callFlow fuel f arg) (fun out => VT c r' out)

/-- `ρ ⊨ Γ` (and `ρ ⊨ Φ` for the function names `Γ` does not shadow). -/
structure EnvOK (c : Ctx) (Γ : TEnv) (ρ : Env) : Prop where
  vars : ∀ x t, tlookup Γ x = some t → ∃ v, lookup ρ x = some (some v) ∧ VT c t v
  funs : ∀ x p r, tlookup Γ x = none → flookup c.Φ x = some (p, r) →
    ∃ f, lookup ρ x = some (some f) ∧ f.isCallable = true ∧ FunOK c f p r

theorem EnvOK.push {c : Ctx} {Γ : TEnv} {ρ : Env} (h : EnvOK c Γ ρ) {x : String} {t : Nat}
    {v : QM.RefSem.Val} (hv : VT c t v) : EnvOK c ((x, t) :: Γ) ((x, some v) :: ρ) := by
  constructor
  · intro y t' hy
    simp only [tlookup] at hy
    by_cases hyx : y = x
    · simp only [hyx, if_true, Option.some.injEq] at hy
      subst hy
      exact ⟨v, by simp [lookup, hyx], hv⟩
    · simp only [hyx, if_false] at hy
      obtain ⟨v', h1, h2⟩ := h.vars y t' hy
      exact ⟨v', by simp [lookup, hyx, h1], h2⟩
  · intro y p r hy hf
    simp only [tlookup] at hy
    by_cases hyx : y = x
    · simp [hyx] at hy
    · simp only [hyx, if_false] at hy
      obtain ⟨f, h1, h2⟩ := h.funs y p r hy hf
      exact ⟨f, by simp [lookup, hyx, h1], h2⟩

theorem doMatch_bind (ρ : Env) (x : String) (v : QM.RefSem.Val) :
    doMatch ρ (.bind x) v = .ok (Val.okv, (x, some v) :: ρ) := by
  simp [doMatch, matchPat, bindVar, lookup]

theorem vt_ok {c : Ctx} {t : Nat} (h : okTy c = some t) : VT c t Val.okv := by
  obtain ⟨id, hty, htu⟩ := tupleType_spec h
  exact ⟨.tup (some (c.nm "Ok")) .nil, by simp [Val.okv, toV, toVFields],
    inh_tuple_intro (F := 0) hty htu (by simp [fieldsB])⟩

theorem vt_nil {c : Ctx} {t : Nat} (h : nilTy c = some t) : VT c t Val.nil := by
  obtain ⟨id, hty, htu⟩ := tupleType_spec h
  exact ⟨.tup none .nil, by simp [Val.nil, toV, toVFields], inh_nil_intro hty htu⟩

/-! ### Tuple fields -/

/-- the fields built so far, position by position: same label, value of the field's type. -/
def FieldsRel (c : Ctx) : List (Option String × Nat) → Fields → Prop
  | [], [] => True
  | (l, t) :: ts, (m, v) :: fs => l = m ∧ VT c t v ∧ FieldsRel c ts fs
  | _, _ => False

theorem FieldsRel.labels {c : Ctx} : ∀ (ts : List (Option String × Nat)) (fs : Fields),
    FieldsRel c ts fs → fs.map (·.1) = ts.map (·.1)
  | [], [], _ => rfl
  | [], _ :: _, h => by simp [FieldsRel] at h
  | _ :: _, [], h => by simp [FieldsRel] at h
  | (l, t) :: ts, (m, v) :: fs, h => by
    simp only [FieldsRel] at h
    simp [h.1, FieldsRel.labels ts fs h.2.2]

theorem FieldsRel.snoc {c : Ctx} : ∀ (ts : List (Option String × Nat)) (fs : Fields) (l : Option String)
    (t : Nat) (v : QM.RefSem.Val), FieldsRel c ts fs → VT c t v → FieldsRel c (ts ++ [(l, t)]) (fs ++ [(l, v)])
  | [], [], l, t, v, _, hv => by simp [FieldsRel, hv]
  | [], _ :: _, _, _, _, h, _ => by simp [FieldsRel] at h
  | _ :: _, [], _, _, _, h, _ => by simp [FieldsRel] at h
  | (l', t') :: ts, (m, w) :: fs, l, t, v, h, hv => by
    simp only [FieldsRel] at h
    simp only [List.cons_append, FieldsRel]
    exact ⟨h.1, h.2.1, FieldsRel.snoc ts fs l t v h.2.2 hv⟩

/-- typed fields translate to fields of the type model that inhabit the field types. -/
theorem FieldsRel.inh {c : Ctx} : ∀ (ts : List (Option String × Nat)) (fs : Fields), FieldsRel c ts fs →
    ∃ ws F, toVFields c.nm fs = some ws ∧
      fieldsB (inhB c.T F []) (ts.map fun f => (f.1.map c.nm, f.2)) ws = true
  | [], [], _ => ⟨.nil, 0, by simp [toVFields], by simp [fieldsB]⟩
  | [], _ :: _, h => by simp [FieldsRel] at h
  | _ :: _, [], h => by simp [FieldsRel] at h
  | (l, t) :: ts, (m, v) :: fs, h => by
    simp only [FieldsRel] at h
    obtain ⟨hl, ⟨w, hw, F1, hF1⟩, hrest⟩ := h
    obtain ⟨ws, F2, hws, hF2⟩ := FieldsRel.inh ts fs hrest
    refine ⟨.cons (m.map c.nm) w ws, max F1 F2, by simp [toVFields, hw, hws], ?_⟩
    simp only [List.map_cons, fieldsB, Bool.and_eq_true, decide_eq_true_eq]
    refine ⟨⟨by rw [hl], inhB_mono c.T (Nat.le_max_left ..) [] t w hF1⟩, ?_⟩
    exact fieldsB_mono _ ws (fun p _ u hu => inhB_mono c.T (Nat.le_max_right ..) [] p.2 u hu) hF2

theorem setOrAppend_fresh {c : Ctx} {accT : List (Option String × Nat)} {acc : Fields} {seen : List String}
    (hrel : FieldsRel c accT acc) (hseen : ∀ l, some l ∈ accT.map (·.1) → l ∈ seen)
    (label : Option String) (hfresh : labelSeen label seen = false)
    (v : QM.RefSem.Val) : setOrAppend acc label v = acc ++ [(label, v)] := by
  cases label with
  | none => rfl
  | some l =>
    simp only [setOrAppend]
    have hno : acc.any (fun f => decide (f.1 = some l)) = false := by
      rw [Bool.eq_false_iff]
      intro hany
      obtain ⟨f, hf, hfl⟩ := List.any_eq_true.mp hany
      simp only [decide_eq_true_eq] at hfl
      have : some l ∈ acc.map (·.1) := List.mem_map.mpr ⟨f, hf, hfl⟩
      rw [FieldsRel.labels accT acc hrel] at this
      have := hseen l this
      simp only [labelSeen] at hfresh
      rw [List.contains_iff_mem.mpr this] at hfresh
      exact Bool.noConfusion hfresh
    simp [hno]

/-! ### The induction -/

/-- the rules the theorem is about: the code as it is. -/
structure CurrentRules (c : Ctx) : Prop where
  seq : c.cfg.seq = .accumulated
  idx : c.cfg.idx = .always
  unionArg : c.cfg.unify.unionArg = .everyVariant

def TermOK (c : Ctx) (n : Nat) : Prop :=
  ∀ (Γ : TEnv) (ρ : Env) (ft : Nat) (flow : QM.RefSem.Val) (t : Term) (τ : Nat) (Γ' : TEnv) (t' : Term),
    inferTerm c Γ ft t = some (τ, Γ', t') → EnvOK c Γ ρ → VT c ft flow →
    Good (evalTerm n ρ flow t') (fun r => VT c τ r.1 ∧ EnvOK c Γ' r.2)

def TermsOK (c : Ctx) (n : Nat) : Prop :=
  ∀ (Γ : TEnv) (ρ : Env) (ft : Nat) (flow : QM.RefSem.Val) (ts : List Term) (τ : Nat) (Γ' : TEnv)
    (ts' : List Term), inferTerms c Γ ft ts = some (τ, Γ', ts') → EnvOK c Γ ρ → VT c ft flow →
    Good (evalTerms n ρ flow ts') (fun r => VT c τ r.1 ∧ EnvOK c Γ' r.2)

def ChainOK (c : Ctx) (n : Nat) : Prop :=
  ∀ (Γ : TEnv) (ρ : Env) (ft : Nat) (flow : QM.RefSem.Val) (ch : Chain) (τ : Nat) (Γ' : TEnv) (ch' : Chain),
    inferChain c Γ ft ch = some (τ, Γ', ch') → EnvOK c Γ ρ → VT c ft flow →
    Good (evalChain n ρ flow ch') (fun r => VT c τ r.1 ∧ EnvOK c Γ' r.2)

def FieldsOK (c : Ctx) (n : Nat) : Prop :=
  ∀ (Γ : TEnv) (ρ : Env) (ft : Nat) (flow : QM.RefSem.Val) (seen : List String) (fields : List Field)
    (ftys : List (Option String × Nat)) (Γ' : TEnv) (fields' : List Field)
    (accT : List (Option String × Nat)) (acc : Fields) (inhn : Option (Option String)),
    inferFields c Γ ft seen fields = some (ftys, Γ', fields') → EnvOK c Γ ρ → VT c ft flow →
    FieldsRel c accT acc → (∀ l, some l ∈ accT.map (·.1) → l ∈ seen) →
    Good (evalFields n ρ flow fields' acc inhn)
      (fun r => FieldsRel c (accT ++ ftys) r.1 ∧ r.2.1 = inhn ∧ EnvOK c Γ' r.2.2)

theorem callFlow_builtin (c : Ctx) {name : String} {sp sr : Shape} {pt rt : Nat}
    (hn : refBuiltins.contains name = true) (hs : builtinShape name = some (sp, sr))
    (hp : shapeTy c.T sp = some pt) (hr : shapeTy c.T sr = some rt) {v : QM.RefSem.Val}
    (hv : VT c pt v) (n : Nat) : Good (callFlow n (.builtin name) v) (fun out => VT c rt out) := by
  cases n with
  | zero => simp [callFlow, Good]
  | succ n =>
    simp only [callFlow]
    cases n with
    | zero => simp [apply, Good]
    | succ n => simp only [apply]; exact builtin_sound c hn hs hp hr hv

theorem inferCall_sound (c : Ctx) (hr : CurrentRules c) {p r a r' : Nat} (h : inferCall c p r a = some r')
    {f : QM.RefSem.Val} (hf : FunOK c f p r) {v : QM.RefSem.Val} (hv : VT c a v) (n : Nat) :
    Good (callFlow n f v) (fun out => VT c r' out) := by
  simp only [inferCall] at h
  split at h
  case isFalse => simp at h
  rename_i hpa
  simp only [Bool.and_eq_true] at hpa
  split at h
  case h_2 => simp at h
  rename_i T1 σ hu
  split at h
  case isFalse => simp at h
  rename_i hT1
  subst hT1
  split at h
  case h_2 => simp at h
  rename_i T2 p' T3 r'' hs1 hs2
  split at h
  case isFalse => simp at h
  rename_i hT
  obtain ⟨hT2, hT3⟩ := hT
  simp only [Option.some.injEq] at h
  subst h
  rw [hT2] at hs1
  rw [hT3] at hs2
  obtain ⟨w, hw, hin⟩ := hv
  have := guard_unify_sound_partial c.cfg.unify hr.unionArg _ _ _ c.T c.T c.T p a p' _ _ σ hpa.1 hpa.2 hu hs1 w hin
  exact hf σ _ _ p' r'' hs1 hs2 v ⟨w, hw, this⟩ n

theorem infer_step (c : Ctx) (hr : CurrentRules c) (n : Nat)
    (ih : TermOK c n ∧ TermsOK c n ∧ ChainOK c n ∧ FieldsOK c n) :
    TermOK c (n + 1) ∧ TermsOK c (n + 1) ∧ ChainOK c (n + 1) ∧ FieldsOK c (n + 1) := by
  obtain ⟨ihT, ihTs, ihC, ihF⟩ := ih
  refine ⟨?_, ?_, ?_, ?_⟩
  · -- terms
    intro Γ ρ ft flow t τ Γ' t' h hE hflow
    cases t with
    | lit l =>
      cases l with
      | int z =>
        simp only [inferTerm] at h
        split at h
        case h_2 => simp at h
        rename_i t0 ht0
        simp only [Option.some.injEq, Prod.mk.injEq] at h
        obtain ⟨h1, h2, h3⟩ := h
        subst h1 h2 h3
        simp only [evalTerm, Good, litVal]
        exact ⟨vt_int_intro (findType_spec ht0) z, hE⟩
      | bin bs =>
        simp only [inferTerm] at h
        split at h
        case h_2 => simp at h
        rename_i t0 ht0
        simp only [Option.some.injEq, Prod.mk.injEq] at h
        obtain ⟨h1, h2, h3⟩ := h
        subst h1 h2 h3
        simp only [evalTerm, Good, litVal]
        exact ⟨vt_bin_intro (findType_spec ht0) bs, hE⟩
    | tuple name fields =>
      simp only [inferTerm] at h
      split at h
      case h_1 => simp at h
      rename_i tn htn
      split at h
      case h_2 => simp at h
      rename_i ftys Γ1 fields' hfs
      split at h
      case h_2 => simp at h
      rename_i t0 ht0
      simp only [Option.some.injEq, Prod.mk.injEq] at h
      obtain ⟨h1, h2, h3⟩ := h
      subst h1 h2 h3
      simp only [evalTerm]
      refine Good.bind (ihF Γ ρ ft flow [] fields ftys Γ1 fields' [] [] none hfs hE hflow (by simp [FieldsRel])
        (by simp)) ?_
      rintro ⟨fs, inh', ρ'⟩ ⟨hrel, hinh, hE'⟩
      simp only at hrel hinh hE'
      simp only [List.nil_append] at hrel
      subst hinh
      simp only [Good]
      refine ⟨?_, hE'⟩
      obtain ⟨ws, F, hws, hF⟩ := FieldsRel.inh ftys fs hrel
      obtain ⟨id, hty, htu⟩ := tupleType_spec ht0
      have hname : tupleName name none = tn := by
        cases name with
        | anon => simp only [Option.some.injEq] at htn; simp [tupleName, htn]
        | named s => simp only [Option.some.injEq] at htn; simp [tupleName, htn]
        | inherit => simp at htn
      refine ⟨.tup (tn.map c.nm) ws, by simp [toV, hws, hname], ?_⟩
      exact inh_tuple_intro (info := ⟨tn.map c.nm, _⟩) hty htu hF
    | mtch p =>
      cases p with
      | bind x =>
        simp only [inferTerm] at h
        split at h
        case h_2 => simp at h
        rename_i ok hok
        simp only [Option.some.injEq, Prod.mk.injEq] at h
        obtain ⟨h1, h2, h3⟩ := h
        subst h1 h2 h3
        simp only [evalTerm, doMatch_bind, Good]
        exact ⟨vt_ok hok, hE.push hflow⟩
      | _ => simp [inferTerm] at h
    | access src accs =>
      cases src with
      | ripple =>
        simp only [inferTerm] at h
        split at h
        case h_2 => simp at h
        rename_i t0 accs' ha
        simp only [Option.some.injEq, Prod.mk.injEq] at h
        obtain ⟨h1, h2, h3⟩ := h
        subst h1 h2 h3
        obtain ⟨u, hp, hu⟩ := inferAccs_sound c hr.idx accs accs' ft t0 flow ha hflow
        simp only [evalTerm, hp, Res.bind, Good]
        exact ⟨hu, hE⟩
      | var x =>
        simp only [inferTerm] at h
        split at h
        · rename_i t0 hx
          split at h
          case h_2 => simp at h
          rename_i t1 accs' ha
          simp only [Option.some.injEq, Prod.mk.injEq] at h
          obtain ⟨h1, h2, h3⟩ := h
          subst h1 h2 h3
          obtain ⟨v0, hl, hv0⟩ := hE.vars x t0 hx
          obtain ⟨u, hp, hu⟩ := inferAccs_sound c hr.idx accs accs' t0 t1 v0 ha hv0
          obtain ⟨wu, hwu, _⟩ := hu
          have hnc : u.isCallable = false := toV_notCallable hwu
          simp only [evalTerm, readVar, hl, Res.bind, hp, hnc, Good]
          exact ⟨⟨wu, hwu, by assumption⟩, hE⟩
        · rename_i hx
          split at h
          case h_2 => simp at h
          rename_i p r hfx
          split at h
          case h_2 => simp at h
          rename_i r' hcall
          simp only [Option.some.injEq, Prod.mk.injEq] at h
          obtain ⟨h1, h2, h3⟩ := h
          subst h1 h2 h3
          obtain ⟨f, hl, hcal, hfun⟩ := hE.funs x p r hx hfx
          simp only [evalTerm, readVar, hl, Res.bind, project, hcal, if_true]
          have := inferCall_sound c hr hcall hfun hflow n
          cases hq : callFlow n f flow with
          | ok w => rw [hq] at this; simp only [Good] at this ⊢; exact ⟨this, hE⟩
          | fuelOut => trivial
          | err _ => trivial
          | unspec _ => rw [hq] at this; exact this
      | builtin name =>
        cases accs with
        | cons _ _ => simp [inferTerm] at h
        | nil =>
          simp only [inferTerm] at h
          split at h
          case isFalse => simp at h
          rename_i hn
          split at h
          case h_2 => simp at h
          rename_i sp sr hs
          split at h
          case h_2 => simp at h
          rename_i pt rt hpt hrt
          split at h
          case isFalse => simp at h
          rename_i hpf
          simp only [Option.some.injEq, Prod.mk.injEq] at h
          obtain ⟨h1, h2, h3⟩ := h
          subst h1 h2 h3 hpf
          simp only [evalTerm]
          have := callFlow_builtin c hn hs hpt hrt hflow n
          cases hq : callFlow n (.builtin name) flow with
          | ok w => rw [hq] at this; simp only [Res.bind, Good] at this ⊢; exact ⟨this, hE⟩
          | fuelOut => trivial
          | err _ => trivial
          | unspec _ => rw [hq] at this; exact this
      | param => simp [inferTerm] at h
    | _ => simp [inferTerm] at h
  · -- term lists
    intro Γ ρ ft flow ts τ Γ' ts' h hE hflow
    cases ts with
    | nil =>
      simp only [inferTerms, Option.some.injEq, Prod.mk.injEq] at h
      obtain ⟨h1, h2, h3⟩ := h
      subst h1 h2 h3
      simp only [evalTerms, Good]
      exact ⟨hflow, hE⟩
    | cons t ts =>
      simp only [inferTerms] at h
      split at h
      case h_2 => simp at h
      rename_i t1 Γ1 t' ht
      split at h
      case h_2 => simp at h
      rename_i t2 Γ2 ts'' hts
      simp only [Option.some.injEq, Prod.mk.injEq] at h
      obtain ⟨h1, h2, h3⟩ := h
      subst h1 h2 h3
      simp only [evalTerms]
      refine Good.bind (ihT Γ ρ ft flow t t1 Γ1 t' ht hE hflow) ?_
      rintro ⟨v, ρ'⟩ ⟨hv, hE'⟩
      exact ihTs Γ1 ρ' t1 v ts t2 Γ2 ts'' hts hE' hv
  · -- chains
    intro Γ ρ ft flow ch τ Γ' ch' h hE hflow
    cases ch with
    | mk pat terms =>
      simp only [inferChain] at h
      split at h
      case h_2 => simp at h
      rename_i t0 Γ0 terms' hts
      cases pat with
      | none =>
        simp only [Option.some.injEq, Prod.mk.injEq] at h
        obtain ⟨h1, h2, h3⟩ := h
        subst h1 h2 h3
        simp only [evalChain]
        refine Good.bind (ihTs Γ ρ ft flow terms t0 Γ0 terms' hts hE hflow) ?_
        rintro ⟨v, ρ'⟩ ⟨hv, hE'⟩
        exact ⟨hv, hE'⟩
      | some p =>
        cases p with
        | bind x =>
          simp only at h
          split at h
          case h_2 => simp at h
          rename_i ok hok
          simp only [Option.some.injEq, Prod.mk.injEq] at h
          obtain ⟨h1, h2, h3⟩ := h
          subst h1 h2 h3
          simp only [evalChain]
          refine Good.bind (ihTs Γ ρ ft flow terms t0 Γ0 terms' hts hE hflow) ?_
          rintro ⟨v, ρ'⟩ ⟨hv, hE'⟩
          simp only [doMatch_bind, Good]
          exact ⟨vt_ok hok, hE'.push hv⟩
        | _ => simp at h
  · -- tuple fields
    intro Γ ρ ft flow seen fields ftys Γ' fields' accT acc inhn h hE hflow hrel hseen
    cases fields with
    | nil =>
      simp only [inferFields, Option.some.injEq, Prod.mk.injEq] at h
      obtain ⟨h1, h2, h3⟩ := h
      subst h1 h2 h3
      simp only [evalFields, Good, List.append_nil]
      exact ⟨hrel, trivial, hE⟩
    | cons fd rest =>
      cases fd with
      | spread _ => simp [inferFields] at h
      | val label ch =>
        simp only [inferFields] at h
        split at h
        case isTrue => simp at h
        rename_i hfresh
        split at h
        case h_2 => simp at h
        rename_i t0 Γ1 ch' hch
        split at h
        case h_2 => simp at h
        rename_i ftys0 Γ2 rest' hrest
        simp only [Option.some.injEq, Prod.mk.injEq] at h
        obtain ⟨h1, h2, h3⟩ := h
        subst h1 h2 h3
        simp only [evalFields]
        refine Good.bind (ihC Γ ρ ft flow ch t0 Γ1 ch' hch hE hflow) ?_
        rintro ⟨v, ρ'⟩ ⟨hv, hE'⟩
        simp only
        have hfr : setOrAppend acc label v = acc ++ [(label, v)] :=
          setOrAppend_fresh hrel hseen label (by simpa using hfresh) v
        rw [hfr]
        have hrel' := FieldsRel.snoc accT acc label t0 v hrel hv
        have hseen' : ∀ l, some l ∈ (accT ++ [(label, t0)]).map (·.1) →
            l ∈ pushLabel label seen := by
          intro l hl
          simp only [List.map_append, List.map_cons, List.map_nil, List.mem_append, List.mem_singleton] at hl
          rcases hl with hl | hl
          · have := hseen l hl
            cases label with
            | none => exact this
            | some l0 => exact List.mem_cons_of_mem _ this
          · subst hl; exact List.mem_cons_self (a := l) (l := seen)
        have := ihF Γ1 ρ' ft flow _ rest ftys0 Γ2 rest' (accT ++ [(label, t0)]) (acc ++ [(label, v)]) inhn
          hrest hE' hflow hrel' hseen'
        simpa [List.append_assoc] using this

/-- **every term, term list, chain and field list the fragment accepts is evaluated without getting
stuck, to a value of the inferred type, in an environment that respects the new context** — for
every fuel. -/
theorem infer_terms_sound (c : Ctx) (hr : CurrentRules c) :
    ∀ n, TermOK c n ∧ TermsOK c n ∧ ChainOK c n ∧ FieldsOK c n
  | 0 => by
    refine ⟨?_, ?_, ?_, ?_⟩
    · intro _ _ _ _ _ _ _ _ _ _ _; simp [evalTerm, Good]
    · intro _ _ _ _ _ _ _ _ _ _ _; simp [evalTerms, Good]
    · intro _ _ _ _ _ _ _ _ _ _ _; simp [evalChain, Good]
    · intro _ _ _ _ _ _ _ _ _ _ _ _ _ _ _ _ _; simp [evalFields, Good]
  | n + 1 => infer_step c hr n (infer_terms_sound c hr n)

/-! ### Sequences -/

theorem Good.mono {α : Type} {r : Res α} {P Q : α → Prop} (h : Good r P) (hpq : ∀ a, P a → Q a) :
    Good r Q := by
  cases r with
  | ok a => exact hpq a h
  | fuelOut => trivial
  | err _ => trivial
  | unspec _ => exact h

theorem isNil_eq {v : QM.RefSem.Val} (h : v.isNil = true) : v = Val.nil := by
  cases v with
  | tup n fs =>
    cases n with
    | none =>
      cases fs with
      | nil => rfl
      | cons _ _ => simp [Val.isNil] at h
    | some _ => simp [Val.isNil] at h
  | _ => simp [Val.isNil] at h

theorem toV_nil_inv {nm : String → Name} {v : QM.RefSem.Val} (h : toV nm v = some (.tup none .nil)) :
    v.isNil = true := by
  obtain ⟨n', fs', hv, hn, hfs⟩ := toV_tup_inv h
  have := toVFields_nil_inv hfs
  subst this hv
  cases n' with
  | none => rfl
  | some _ => simp at hn

theorem inferSeqChains_nonempty (c : Ctx) {Γ : TEnv} {ft : Nat} {ch : Chain} {rest : List Chain}
    {ts : List Nat} {cs' : List Chain} (h : inferSeqChains c Γ ft (ch :: rest) = some (ts, cs')) :
    (∃ t ts0, ts = t :: ts0) ∧ ∃ x xs, cs' = x :: xs := by
  simp only [inferSeqChains] at h
  split at h
  case h_2 => simp at h
  cases rest with
  | nil =>
    simp only [Option.some.injEq, Prod.mk.injEq] at h
    exact ⟨⟨_, _, h.1.symm⟩, ⟨_, _, h.2.symm⟩⟩
  | cons _ _ =>
    simp only at h
    split at h
    case h_2 => simp at h
    split at h
    case h_2 => simp at h
    simp only [Option.some.injEq, Prod.mk.injEq] at h
    exact ⟨⟨_, _, h.1.symm⟩, ⟨_, _, h.2.symm⟩⟩

/-- a sequence either yields its last chain's value, or nil because a chain whose own type is
flagged nil-able evaluated to nil. -/
theorem infer_seq_chains_sound (c : Ctx) (hr : CurrentRules c) : ∀ (cs : List Chain) (n : Nat) (Γ : TEnv)
    (ρ : Env) (ft : Nat) (flow : QM.RefSem.Val) (ts : List Nat) (cs' : List Chain), cs ≠ [] →
    inferSeqChains c Γ ft cs = some (ts, cs') → EnvOK c Γ ρ → VT c ft flow →
    Good (evalSeq n ρ flow cs') (fun r => (∃ tl, ts.getLast? = some tl ∧ VT c tl r.1) ∨
      (r.1 = Val.nil ∧ ∃ t ∈ ts, nilIn c.T (c.cfg.fuel + 2) t = true))
  | [], _, _, _, _, _, _, _, hne, _, _, _ => absurd rfl hne
  | ch :: rest, n, Γ, ρ, ft, flow, ts, cs', _, h, hE, hflow => by
    have hC := fun n => (infer_terms_sound c hr n).2.2.1
    cases n with
    | zero =>
      obtain ⟨_, x, xs, hx⟩ := inferSeqChains_nonempty c h
      subst hx
      simp [evalSeq, Good]
    | succ n =>
      have hcopy := h
      simp only [inferSeqChains] at h
      split at h
      case h_2 => simp at h
      rename_i t Γ1 ch' hch
      cases rest with
      | nil =>
        simp only [Option.some.injEq, Prod.mk.injEq] at h
        obtain ⟨h1, h2⟩ := h
        subst h1 h2
        simp only [evalSeq]
        refine Good.bind (hC n Γ ρ ft flow ch t Γ1 ch' hch hE hflow) ?_
        rintro ⟨v, ρ'⟩ ⟨hv, _⟩
        exact Or.inl ⟨t, rfl, hv⟩
      | cons c2 rest2 =>
        simp only at h
        split at h
        case h_2 => simp at h
        rename_i t' hwn
        split at h
        case h_2 => simp at h
        rename_i ts0 rest' hrec
        simp only [Option.some.injEq, Prod.mk.injEq] at h
        obtain ⟨h1, h2⟩ := h
        subst h1 h2
        obtain ⟨⟨t1, ts1, hts1⟩, x, xs, hx⟩ := inferSeqChains_nonempty c hrec
        subst hx
        simp only [evalSeq]
        refine Good.bind (hC n Γ ρ ft flow ch t Γ1 ch' hch hE hflow) ?_
        rintro ⟨v, ρ'⟩ ⟨hv, hE'⟩
        simp only
        cases hnil : v.isNil with
        | true =>
          simp only [if_true, Good]
          right
          refine ⟨trivial, t, List.mem_cons_self .., ?_⟩
          have hvn := isNil_eq hnil
          subst hvn
          obtain ⟨w, hw, f, hf⟩ := hv
          simp only [Val.nil, toV, toVFields, Option.some.injEq] at hw
          subst hw
          exact nilIn_complete _ t [] f hf
        | false =>
          simp only [Bool.false_eq_true, if_false]
          obtain ⟨w, hw, hin⟩ := hv
          have hwn' : w ≠ .tup none .nil := by
            intro hw'
            subst hw'
            rw [toV_nil_inv hw] at hnil
            exact Bool.noConfusion hnil
          have hv' : VT c t' v := ⟨w, hw, withoutNil_inh hwn w hin hwn'⟩
          refine Good.mono (infer_seq_chains_sound c hr (c2 :: rest2) n Γ1 ρ' t' v ts0 (x :: xs)
            (by simp) hrec hE' hv') ?_
          rintro ⟨v2, ρ2⟩ hres
          rcases hres with ⟨tl, htl, hvl⟩ | ⟨hn2, t0, ht0, hnl⟩
          · left
            subst hts1
            exact ⟨tl, by simpa [List.getLast?_cons_cons] using htl, hvl⟩
          · right
            exact ⟨hn2, t0, List.mem_cons_of_mem _ ht0, hnl⟩

theorem infer_seq_sound (c : Ctx) (hr : CurrentRules c) {Γ : TEnv} {ρ : Env} {ft : Nat}
    {flow : QM.RefSem.Val} {cs cs' : List Chain} {τ : Nat} (h : inferSeq c Γ ft cs = some (τ, cs'))
    (hE : EnvOK c Γ ρ) (hflow : VT c ft flow) (n : Nat) :
    Good (evalSeq n ρ flow cs') (fun r => VT c τ r.1) := by
  simp only [inferSeq] at h
  split at h
  case h_2 => simp at h
  rename_i ts cs'' hch
  split at h
  case h_1 => simp at h
  rename_i tl htl
  have hne : cs ≠ [] := by
    intro hcs
    subst hcs
    simp only [inferSeqChains, Option.some.injEq, Prod.mk.injEq] at hch
    rw [← hch.1] at htl
    simp at htl
  have hmain := infer_seq_chains_sound c hr cs n Γ ρ ft flow ts cs'' hne hch hE hflow
  split at h
  · rename_i hnilable
    split at h
    case h_2 => simp at h
    rename_i nt hnt
    split at h
    case h_2 => simp at h
    rename_i u hu
    simp only [Option.some.injEq, Prod.mk.injEq] at h
    obtain ⟨h1, h2⟩ := h
    subst h1 h2
    refine Good.mono hmain ?_
    rintro ⟨v, ρ'⟩ hres
    rcases hres with ⟨tl', htl', hv⟩ | ⟨hn, _⟩
    · rw [htl] at htl'
      simp only [Option.some.injEq] at htl'
      subst htl'
      obtain ⟨w, hw, hin⟩ := hv
      exact ⟨w, hw, unionPair_inh hu w (Or.inl hin)⟩
    · simp only at hn
      subst hn
      obtain ⟨w, hw, hin⟩ := vt_nil hnt
      exact ⟨w, hw, unionPair_inh hu w (Or.inr hin)⟩
  · rename_i hnot
    simp only [Option.some.injEq, Prod.mk.injEq] at h
    obtain ⟨h1, h2⟩ := h
    subst h1 h2
    refine Good.mono hmain ?_
    rintro ⟨v, ρ'⟩ hres
    rcases hres with ⟨tl', htl', hv⟩ | ⟨_, t, ht, hnl⟩
    · rw [htl] at htl'
      simp only [Option.some.injEq] at htl'
      subst htl'
      exact hv
    · exfalso
      apply hnot
      rw [hr.seq]
      refine seq_nil_sound _ _ rfl (fun _ hk => hk) ?_
      simp only [seqYieldsNil]
      exact List.any_eq_true.mpr ⟨true, List.mem_map.mpr ⟨t, ht, hnl⟩, rfl⟩

/-! ### The theorem -/

/-- **Type soundness, full statement**, for an acceptance judgement `Accepts cs T nm τ cs'`
("the compiler accepts the program `cs`, registers its types in `T` under the interning `nm`, infers
the result type `τ` and runs `cs'`"): every accepted program, for every fuel, evaluates without
getting stuck (never the `unspec` class), and a value it yields inhabits `τ`. For the real compiler
this is the claim C01 is about; it is NOT proved — the compiler's judgement is not modelled beyond
the fragment below, and the oracle of `harness/src/bin/c01` found it false for the code as it is
(findings F5, F25, N1, N4, N6, N11/N13 of notes/C01.md). -/
def TypeSoundnessStatement
    (Accepts : List Chain → Table → (String → Name) → Nat → List Chain → Prop) : Prop :=
  ∀ cs T nm τ cs', Accepts cs T nm τ cs' →
    ∀ n, Good (evalProgram n cs') (fun v => ∃ w, toV nm v = some w ∧ inh T [] τ w)

/-- the acceptance judgement of the modelled fragment, under the rules of the code as it is. -/
def FragmentAccepts (fuel : Nat) : List Chain → Table → (String → Name) → Nat → List Chain → Prop :=
  fun cs T nm τ cs' => inferProgram ⟨{ fuel := fuel }, T, nm, []⟩ [] cs = some (τ, cs')

/-- **`infer_sound_fragment`** — the statement holds for the fragment: straight-line first-order
programs (literals, tuple construction, variable binding and lookup, `.label` / `.index` access
through `get_field_by_name`, `,`-sequences with the nil short-circuit, builtin calls through the
regenerated signature table). OUTSIDE the fragment: blocks and branches (with the narrowing,
complement and dispatch machinery), patterns other than a binder, function literals and recursion
(`#…`, `^`), spreads, partial types, processes. Environment functions applied through the
unify/substitute guard are covered by `infer_seq_sound` (they need an environment, so they do not
occur in a closed program). -/
theorem infer_sound_fragment (fuel : Nat) : TypeSoundnessStatement (FragmentAccepts fuel) := by
  intro cs T nm τ cs' h n
  let c : Ctx := ⟨{ fuel := fuel }, T, nm, []⟩
  have hr : CurrentRules c := ⟨rfl, rfl, rfl⟩
  have hE : EnvOK c [] [] := ⟨fun x t hx => by simp [tlookup] at hx, fun x p r _ hf => by simp [c, flookup] at hf⟩
  simp only [FragmentAccepts, inferProgram] at h
  split at h
  case h_2 => simp at h
  rename_i nt hnt
  have := infer_seq_sound c hr h hE (vt_nil hnt) n
  simp only [evalProgram]
  cases hq : evalSeq n [] Val.nil cs' with
  | ok r => rw [hq] at this; exact this
  | fuelOut => trivial
  | err _ => trivial
  | unspec _ => rw [hq] at this; exact this

/-- the same with a typing context: variables of first-order types and environment functions
(applied through the generic-call guard) — for every environment that respects the context. -/
theorem infer_sound_fragment_env (c : Ctx) (hr : CurrentRules c) {Γ : TEnv} {ρ : Env} {ft : Nat}
    {flow : QM.RefSem.Val} {cs cs' : List Chain} {τ : Nat} (h : inferSeq c Γ ft cs = some (τ, cs'))
    (hE : EnvOK c Γ ρ) (hflow : VT c ft flow) :
    ∀ n, Good (evalSeq n ρ flow cs') (fun r => VT c τ r.1) :=
  infer_seq_sound c hr h hE hflow

def nmPerm (s : String) : Name :=
  if s = "x" then 1 else if s = "y" then 2 else if s = "A" then 10 else if s = "B" then 11 else
  if s = "Ok" then 9 else 0

/-! ### The fragment is not empty

`p = A[x: 1, y: 0xff], [p.x, 2] __integer_add__` — names: x = 1, y = 2, A = 10, Ok = 9.
tuples: 0 `[]`, 1 `Ok`, 2 `A[x: 'int, y: 'bin]`, 3 `['int, 'int]`;
types: 0 'int, 1 'bin, 2 `[]`, 3 `Ok`, 4 `A[…]`, 5 `['int, 'int]`. -/
def tDemo : Table :=
  { types := [.integer, .binary, .tuple 0, .tuple 1, .tuple 2, .tuple 3],
    tuples := [⟨none, []⟩, ⟨some 9, []⟩, ⟨some 10, [(some 1, 0), (some 2, 1)]⟩, ⟨none, [(none, 0), (none, 0)]⟩] }

def pDemo : List Chain :=
  [.mk (some (.bind "p")) [.tuple (.named "A")
      [.val (some "x") (.mk none [.lit (.int 1)]), .val (some "y") (.mk none [.lit (.bin [255])])]],
   .mk none [.tuple .anon [.val none (.mk none [.access (.var "p") [.label "x"]]),
                           .val none (.mk none [.lit (.int 2)])],
             .access (.builtin "integer_add") []]]

/-- accepted at type `'int`, `p.x` compiled to position 0, and the elaborated program yields 3. -/
example :
    (match inferProgram ⟨{}, tDemo, nmPerm, []⟩ [] pDemo with
     | some (0, [_, .mk none [.tuple .anon [.val none (.mk none [.access (.var "p") [.index 0]]), _], _]]) => true
     | _ => false) = true ∧
    (match inferProgram ⟨{}, tDemo, nmPerm, []⟩ [] pDemo with
     | some (_, cs') => (match evalProgram 12 cs' with | .ok (.int 3) => true | _ => false)
     | none => false) = true := by
  refine ⟨by decide, by decide⟩

/-! ### The two seeded rules break the theorem

C01-3 (`compile_sequence` looks at the preceding chain only) and C01-4 (`get_field_by_name` skips
the same-index check for a field type already seen), as rules of `infer`: each accepts a program
whose evaluation yields a value OUTSIDE the inferred type. -/

/-- types: 0 'int, 1 `[]`, 2 `'int | []`. -/
def tSeqW : Table := { types := [.integer, .tuple 0, .union [0, 1]], tuples := [⟨none, []⟩] }

def cSeqW (rule : SeqRule) : Ctx := ⟨{ seq := rule }, tSeqW, fun _ => 0, []⟩

/-- `x, 1, 2` with `x : 'int | []`. -/
def pSeqW : List Chain :=
  [.mk none [.access (.var "x") []], .mk none [.lit (.int 1)], .mk none [.lit (.int 2)]]

/-- the threaded-only rule types `x, 1, 2` as `'int`; with `x = []` the program yields `[]`. -/
theorem threaded_only_breaks_infer_sound :
    (inferSeq (cSeqW .threadedOnly) [("x", 2)] 1 pSeqW).map (·.1) = some 0 ∧
    (match evalSeq 8 [("x", some Val.nil)] Val.nil pSeqW with
     | .ok (v, _) => v.isNil
     | _ => false) = true ∧
    (∀ f, inhB tSeqW f [] 0 (.tup none .nil) = false) ∧
    (inferSeq (cSeqW .accumulated) [("x", 2)] 1 pSeqW).map (·.1) = some 2 := by
  refine ⟨by decide, by decide, ?_, by decide⟩
  intro f
  cases f <;> simp [inhB, tSeqW]

def cPermW (rule : IndexRule) : Ctx := ⟨{ idx := rule }, tPerm, nmPerm, []⟩

/-- `v.x` with `v : A[x: 'int, y: 'bin] | B[y: 'bin, x: 'int]`. -/
def pPermW : List Chain := [.mk none [.access (.var "v") [.label "x"]]]

/-- `B[y: 0xff, x: 2]` -/
def vPermW : QM.RefSem.Val := .tup (some "B") [(some "y", .bin [255]), (some "x", .int 2)]

/-- the skip-seen-types rule accepts `v.x`, compiles it to position 0 and types it `'int`; on
`B[y: 0xff, x: 2]` the compiled access reads `0xff`. The code as it is rejects the access. -/
theorem skip_seen_types_breaks_infer_sound :
    (match inferSeq (cPermW .skipSeenTypes) [("v", 4)] 0 pPermW with
     | some (0, [.mk none [.access (.var "v") [.index 0]]]) => true
     | _ => false) = true ∧
    toV nmPerm vPermW = some vPerm ∧ inhB tPerm 8 [] 4 vPerm = true ∧
    (match evalSeq 8 [("v", some vPermW)] Val.nil [.mk none [.access (.var "v") [.index 0]]] with
     | .ok (.bin [255], _) => true
     | _ => false) = true ∧
    (∀ f, inhB tPerm f [] 0 (.bin [255]) = false) ∧
    (inferSeq (cPermW .always) [("v", 4)] 0 pPermW).isNone = true := by
  refine ⟨by decide, by decide, by decide, by decide, ?_, by decide⟩
  intro f
  cases f <;> simp [inhB, tPerm]

end C01
