import QuiverModel.Theorems.C02Loc
/-
C02, stretch goal, part 5 — **compiled execution = reference semantics, with LOCALS and BINDINGS**: the
bridge of the straight-line part of `compile1` (integer literals, `~`, nested tuples, variable reads,
the binder match `=x` / `x = e` and the placeholder `=_`, sequences with the nil short-circuit) to
M-RefSem's evaluator.

* `EnvRel` — what the compile-time slot names, the frame's locals and the reference evaluator's
  environment have to do with each other: the value in the slot a name resolves to (`slot Γ x`, the
  LAST binding) is the value the environment gives the name (`lookup env x`, the NEWEST binding);
* `ref1_evalT/Ch/Fs`, `ref1_evalSq` — the meaning functions of Compile1 (`evalT … evalSq`: value and
  locals afterwards) compute, name-resolved, what `QM.RefSem.evalTerm … evalSeq` compute (value and
  environment afterwards), and keep `EnvRel` and the alignment invariant;
* `compileSq1_agrees_with_reference` — with `compileSq1_correct`: the VM run of the compiled code leaves
  the value the reference evaluator computes.

Refutable patterns are not in this bridge: the reference evaluator leaves the variables of a FAILED
match without a value (reading one is `unspecified`), the compiled code nil-fills them; and a tuple
pattern is checked against name and width dynamically there, by static type here. Both sides are tied
to the real VM by the differentials instead.
-/
open QM.RefSem.C1 C02.Bridge

namespace C02R

/-- tuple ids 0 / 1 are the unnamed nil and `Ok` -/
def NmOk (nm : Nat → Option String) : Prop := nm 0 = none ∧ nm 1 = some "Ok"

mutual
  /-- the straight-line part: only binder / placeholder matches; tuple ids canonical w.r.t. nil -/
  def okT (nm : Nat → Option String) : T1 → Prop
    | .int _ _ => True
    | .ripple => True
    | .tup id fs => (fs = .nil → (nm id = none ↔ id = 0)) ∧ (id = 0 → fs = .nil) ∧ okFs nm fs
    | .var _ => True
    | .mtch (.top (.bind _)) => True
    | .mtch (.top .wild) => True
    | .mtch _ => False
  def okCh (nm : Nat → Option String) : Ch1 → Prop
    | .nil => True
    | .cons t r => okT nm t ∧ okCh nm r
  def okFs (nm : Nat → Option String) : Fs1 → Prop
    | .nil => True
    | .cons c r => okCh nm c ∧ okFs nm r
end

def okSq (nm : Nat → Option String) : Sq1 → Prop
  | .last c => okCh nm c
  | .cons c r => okCh nm c ∧ okSq nm r

mutual
  def toRefT (nm : Nat → Option String) : T1 → QM.RefSem.Term
    | .int z _ => .lit (.int z)
    | .ripple => .access .ripple []
    | .tup id fs => .tuple (nameOf (nm id)) (toRefFs nm fs)
    | .var x => .access (.var x) []
    | .mtch (.top (.bind x)) => .mtch (.bind x)
    | .mtch _ => .mtch .wild
  def toRefCh (nm : Nat → Option String) : Ch1 → List QM.RefSem.Term
    | .nil => []
    | .cons t r => toRefT nm t :: toRefCh nm r
  def toRefFs (nm : Nat → Option String) : Fs1 → List QM.RefSem.Field
    | .nil => []
    | .cons c r => .val none (.mk none (toRefCh nm c)) :: toRefFs nm r
end

def toRefSq (nm : Nat → Option String) : Sq1 → List QM.RefSem.Chain
  | .last c => [.mk none (toRefCh nm c)]
  | .cons c r => .mk none (toRefCh nm c) :: toRefSq nm r

/-! ### Slots and environments -/

theorem slot_append_self : (Γ : List String) → (x : String) → slot (Γ ++ [x]) x = some Γ.length
  | [], x => by simp [slot]
  | y :: r, x => by simp [slot, slot_append_self r x]

theorem slot_append_ne : (Γ : List String) → (x y : String) → y ≠ x → slot (Γ ++ [x]) y = slot Γ y
  | [], x, y, h => by simp [slot, h]
  | z :: r, x, y, h => by simp [slot, slot_append_ne r x y h]

theorem slot_lt : (Γ : List String) → (x : String) → (i : Nat) → slot Γ x = some i → i < Γ.length
  | [], x, i, h => by simp [slot] at h
  | y :: r, x, i, h => by
    simp only [slot] at h
    split at h
    · rename_i j hj
      simp only [Option.some.injEq] at h
      have := slot_lt r x j hj
      simp; omega
    · split at h
      · simp only [Option.some.injEq] at h; simp; omega
      · simp at h

/-- the slot a name resolves to holds the value the reference environment gives the name -/
def EnvRel (nm : Nat → Option String) (Γ : List String) (L : List QM.VM.Val) (env : QM.RefSem.Env) : Prop :=
  ∀ x i, slot Γ x = some i →
    ∃ w, L[i]? = some w ∧ QM.RefSem.lookup env x = some (some (erase nm w)) ∧ C02S.NilOk nm w

theorem EnvRel.push {nm : Nat → Option String} {Γ : List String} {L : List QM.VM.Val} {env : QM.RefSem.Env}
    (h : EnvRel nm Γ L env) (hal : L.length = Γ.length) (x : String) (v : QM.VM.Val) (hv : C02S.NilOk nm v) :
    EnvRel nm (Γ ++ [x]) (L ++ [v]) ((x, some (erase nm v)) :: env) := by
  intro y i hy
  by_cases hyx : y = x
  · subst hyx
    rw [slot_append_self] at hy
    simp only [Option.some.injEq] at hy
    subst hy
    exact ⟨v, by rw [← hal]; simp, by simp [QM.RefSem.lookup], hv⟩
  · rw [slot_append_ne Γ x y hyx] at hy
    obtain ⟨w, hw, hl, hn⟩ := h y i hy
    have hi := slot_lt Γ y i hy
    exact ⟨w, by rw [List.getElem?_append_left (by omega)]; exact hw, by simp [QM.RefSem.lookup, hyx, hl], hn⟩

theorem erase_not_callable (nm : Nat → Option String) (v : QM.VM.Val) : (erase nm v).isCallable = false := by
  cases v <;> simp [erase, QM.RefSem.Val.isCallable]

theorem doMatch_bind (env : QM.RefSem.Env) (x : String) (v : QM.RefSem.Val) :
    QM.RefSem.doMatch env (.bind x) v = .ok (QM.RefSem.Val.okv, (x, some v) :: env) := by
  simp [QM.RefSem.doMatch, QM.RefSem.matchPat, QM.RefSem.bindVar, QM.RefSem.lookup]

theorem doMatch_wild (env : QM.RefSem.Env) (v : QM.RefSem.Val) :
    QM.RefSem.doMatch env .wild v = .ok (QM.RefSem.Val.okv, env) := by
  simp [QM.RefSem.doMatch, QM.RefSem.matchPat]

theorem erase_ok {nm : Nat → Option String} (h : NmOk nm) : erase nm QM.VM.Val.ok = QM.RefSem.Val.okv := by
  simp [QM.VM.Val.ok, erase, eraseL, h.2, QM.RefSem.Val.okv]

theorem nilOk_ok {nm : Nat → Option String} (h : NmOk nm) : C02S.NilOk nm QM.VM.Val.ok := by
  unfold C02S.NilOk
  rw [erase_ok h]
  rfl

theorem nilOk_int (nm : Nat → Option String) (z : Int) : C02S.NilOk nm (.int z) := by
  simp [C02S.NilOk, erase, QM.RefSem.Val.isNil, QM.VM.Val.isNil]

/-- a tuple literal whose id is canonical w.r.t. nil -/
theorem nilOk_tup (nm : Nat → Option String) (id : Nat) (vs : List QM.VM.Val) (n : Nat)
    (hlen : vs.length = n) (h1 : n = 0 → (nm id = none ↔ id = 0)) (h2 : id = 0 → n = 0) :
    C02S.NilOk nm (.tup id (QM.VM.ValList.ofList vs)) := by
  unfold C02S.NilOk
  cases vs with
  | nil =>
    have hn : n = 0 := by simpa using hlen.symm
    have := h1 hn
    simp only [erase, QM.VM.ValList.ofList, eraseL]
    by_cases hid : id = 0
    · subst hid
      have : nm 0 = none := this.mpr rfl
      simp [QM.RefSem.Val.isNil, QM.VM.Val.isNil, this]
    · have hne : nm id ≠ none := fun hn' => hid (this.mp hn')
      cases hnid : nm id with
      | none => exact absurd hnid hne
      | some s =>
        cases id with
        | zero => exact absurd rfl hid
        | succ k => simp [QM.RefSem.Val.isNil, QM.VM.Val.isNil]
  | cons a b =>
    have hid : id ≠ 0 := fun h0 => by have := h2 h0; rw [← hlen] at this; simp at this
    simp only [erase, QM.VM.ValList.ofList, eraseL]
    cases id with
    | zero => exact absurd rfl hid
    | succ k => cases hn : nm (k + 1) <;> simp [QM.RefSem.Val.isNil, QM.VM.Val.isNil]

theorem Fs1_length_zero (fs : Fs1) (h : fs.length = 0) : fs = .nil := by
  cases fs with
  | nil => rfl
  | cons c r => simp [Fs1.length] at h

/-! ### The meaning functions of Compile1 compute what the reference evaluator computes -/

mutual
  theorem ref1_evalT (nm : Nat → Option String) (hnm : NmOk nm) :
      (t : T1) → (Γ : List String) → (L : List QM.VM.Val) → (flow v : QM.VM.Val) → (L' : List QM.VM.Val) →
      (env : QM.RefSem.Env) → okT nm t → L.length = Γ.length → EnvRel nm Γ L env → C02S.NilOk nm flow →
      evalT Γ L flow t = some (v, L') →
      ∃ env', EnvRel nm (compileT Γ t).2 L' env' ∧ C02S.NilOk nm v ∧ L'.length = (compileT Γ t).2.length ∧
        ∃ N, ∀ fuel, N ≤ fuel →
          QM.RefSem.evalTerm fuel env (erase nm flow) (C02R.toRefT nm t) = .ok (erase nm v, env')
    | .int z i, Γ, L, flow, v, L', env, _, hal, hE, _, hev => by
      simp only [evalT, Option.some.injEq, Prod.mk.injEq] at hev
      obtain ⟨rfl, rfl⟩ := hev
      refine ⟨env, by simpa [compileT] using hE, nilOk_int nm z, by simpa [compileT] using hal, 1, fun fuel h => ?_⟩
      obtain ⟨k, rfl⟩ : ∃ k, fuel = k + 1 := ⟨fuel - 1, by omega⟩
      simp [C02R.toRefT, QM.RefSem.evalTerm, QM.RefSem.litVal, erase]
    | .ripple, Γ, L, flow, v, L', env, _, hal, hE, hf, hev => by
      simp only [evalT, Option.some.injEq, Prod.mk.injEq] at hev
      obtain ⟨rfl, rfl⟩ := hev
      refine ⟨env, by simpa [compileT] using hE, hf, by simpa [compileT] using hal, 1, fun fuel h => ?_⟩
      obtain ⟨k, rfl⟩ : ∃ k, fuel = k + 1 := ⟨fuel - 1, by omega⟩
      simp [C02R.toRefT, QM.RefSem.evalTerm, QM.RefSem.project, QM.RefSem.Res.bind]
    | .tup id fs, Γ, L, flow, v, L', env, hok, hal, hE, hf, hev => by
      simp only [evalT, Option.map_eq_some_iff] at hev
      obtain ⟨⟨vs, L''⟩, hfs, hv⟩ := hev
      simp only [Prod.mk.injEq] at hv
      obtain ⟨rfl, rfl⟩ := hv
      obtain ⟨env', hE', hal', hlen, N, hN⟩ := ref1_evalFs nm hnm fs Γ L flow vs L'' env 0 [] hok.2.2 hal hE hf hfs
      refine ⟨env', by simpa [compileT] using hE', ?_, by simpa [compileT] using hal', N + 1, fun fuel h => ?_⟩
      · refine nilOk_tup nm id vs fs.length hlen (fun h0 => hok.1 (Fs1_length_zero fs h0)) (fun h0 => ?_)
        rw [hok.2.1 h0]; rfl
      · obtain ⟨k, rfl⟩ : ∃ k, fuel = k + 1 := ⟨fuel - 1, by omega⟩
        simp only [C02R.toRefT, QM.RefSem.evalTerm]
        rw [hN k (by omega)]
        simp [QM.RefSem.Res.bind, erase, eraseL_ofList, tupleName_nameOf]
    | .var x, Γ, L, flow, v, L', env, _, hal, hE, _, hev => by
      simp only [evalT, Option.bind_eq_some_iff, Option.map_eq_some_iff] at hev
      obtain ⟨i, hi, w, hw, hv⟩ := hev
      simp only [Prod.mk.injEq] at hv
      obtain ⟨rfl, rfl⟩ := hv
      obtain ⟨w', hw', hl, hn⟩ := hE x i hi
      rw [hw] at hw'
      simp only [Option.some.injEq] at hw'
      subst hw'
      refine ⟨env, by simpa [compileT] using hE, hn, by simpa [compileT] using hal, 1, fun fuel h => ?_⟩
      obtain ⟨k, rfl⟩ : ∃ k, fuel = k + 1 := ⟨fuel - 1, by omega⟩
      simp [C02R.toRefT, QM.RefSem.evalTerm, QM.RefSem.readVar, hl, QM.RefSem.project, QM.RefSem.Res.bind,
        erase_not_callable]
    | .mtch (.top (.bind x)), Γ, L, flow, v, L', env, _, hal, hE, hf, hev => by
      simp only [evalT, evalPat, subPasses, subBound, if_true, Option.map_some, Option.some.injEq,
        Prod.mk.injEq] at hev
      obtain ⟨rfl, rfl⟩ := hev
      refine ⟨(x, some (erase nm flow)) :: env, ?_, nilOk_ok hnm, ?_, 1, fun fuel h => ?_⟩
      · simpa [compileT, patBinds, subBinds] using hE.push hal x flow hf
      · simp [compileT, patBinds, subBinds, hal]
      · obtain ⟨k, rfl⟩ : ∃ k, fuel = k + 1 := ⟨fuel - 1, by omega⟩
        simp [C02R.toRefT, QM.RefSem.evalTerm, doMatch_bind, erase_ok hnm]
    | .mtch (.top .wild), Γ, L, flow, v, L', env, _, hal, hE, _, hev => by
      simp only [evalT, evalPat, subPasses, subBound, if_true, Option.map_some, Option.some.injEq,
        Prod.mk.injEq, List.append_nil] at hev
      obtain ⟨rfl, rfl⟩ := hev
      refine ⟨env, by simpa [compileT, patBinds, subBinds] using hE, nilOk_ok hnm,
        by simp [compileT, patBinds, subBinds, hal], 1, fun fuel h => ?_⟩
      obtain ⟨k, rfl⟩ : ∃ k, fuel = k + 1 := ⟨fuel - 1, by omega⟩
      simp [C02R.toRefT, QM.RefSem.evalTerm, doMatch_wild, erase_ok hnm]
    | .mtch (.top (.lit _ _)), _, _, _, _, _, _, hok, _, _, _, _ => by simp [okT] at hok
    | .mtch (.tup _), _, _, _, _, _, _, hok, _, _, _, _ => by simp [okT] at hok
  theorem ref1_evalCh (nm : Nat → Option String) (hnm : NmOk nm) :
      (c : Ch1) → (Γ : List String) → (L : List QM.VM.Val) → (flow v : QM.VM.Val) → (L' : List QM.VM.Val) →
      (env : QM.RefSem.Env) → okCh nm c → L.length = Γ.length → EnvRel nm Γ L env → C02S.NilOk nm flow →
      evalCh Γ L flow c = some (v, L') →
      ∃ env', EnvRel nm (compileCh Γ c).2 L' env' ∧ C02S.NilOk nm v ∧ L'.length = (compileCh Γ c).2.length ∧
        ∃ N, ∀ fuel, N ≤ fuel →
          QM.RefSem.evalTerms fuel env (erase nm flow) (C02R.toRefCh nm c) = .ok (erase nm v, env')
    | .nil, Γ, L, flow, v, L', env, _, hal, hE, hf, hev => by
      simp only [evalCh, Option.some.injEq, Prod.mk.injEq] at hev
      obtain ⟨rfl, rfl⟩ := hev
      refine ⟨env, by simpa [compileCh] using hE, hf, by simpa [compileCh] using hal, 1, fun fuel h => ?_⟩
      obtain ⟨k, rfl⟩ : ∃ k, fuel = k + 1 := ⟨fuel - 1, by omega⟩
      simp [C02R.toRefCh, QM.RefSem.evalTerms]
    | .cons t r, Γ, L, flow, v, L', env, hok, hal, hE, hf, hev => by
      simp only [evalCh, Option.bind_eq_some_iff] at hev
      obtain ⟨⟨v₁, L₁⟩, ht, hr⟩ := hev
      obtain ⟨env₁, hE₁, hn₁, hal₁, N₁, h₁⟩ := ref1_evalT nm hnm t Γ L flow v₁ L₁ env hok.1 hal hE hf ht
      obtain ⟨env₂, hE₂, hn₂, hal₂, N₂, h₂⟩ := ref1_evalCh nm hnm r _ L₁ v₁ v L' env₁ hok.2 hal₁ hE₁ hn₁ hr
      refine ⟨env₂, by simpa [compileCh] using hE₂, hn₂, by simpa [compileCh] using hal₂, max N₁ N₂ + 1, fun fuel h => ?_⟩
      obtain ⟨k, rfl⟩ : ∃ k, fuel = k + 1 := ⟨fuel - 1, by omega⟩
      simp only [C02R.toRefCh, QM.RefSem.evalTerms]
      rw [h₁ k (by omega)]
      simp only [QM.RefSem.Res.bind]
      exact h₂ k (by omega)
  theorem ref1_evalFs (nm : Nat → Option String) (hnm : NmOk nm) :
      (fs : Fs1) → (Γ : List String) → (L : List QM.VM.Val) → (flow : QM.VM.Val) → (vs L' : List QM.VM.Val) →
      (env : QM.RefSem.Env) → (k : Nat) → (acc : QM.RefSem.Fields) → okFs nm fs → L.length = Γ.length →
      EnvRel nm Γ L env → C02S.NilOk nm flow → evalFs Γ L flow fs = some (vs, L') →
      ∃ env', EnvRel nm (compileFs Γ fs k).2 L' env' ∧ L'.length = (compileFs Γ fs k).2.length ∧
        vs.length = fs.length ∧
        ∃ N, ∀ fuel, N ≤ fuel →
          QM.RefSem.evalFields fuel env (erase nm flow) (C02R.toRefFs nm fs) acc none =
            .ok (acc ++ vs.map (fun v => (none, erase nm v)), none, env')
    | .nil, Γ, L, flow, vs, L', env, k, acc, _, hal, hE, _, hev => by
      simp only [evalFs, Option.some.injEq, Prod.mk.injEq] at hev
      obtain ⟨rfl, rfl⟩ := hev
      refine ⟨env, by simpa [compileFs] using hE, by simpa [compileFs] using hal, rfl, 1, fun fuel h => ?_⟩
      obtain ⟨j, rfl⟩ : ∃ j, fuel = j + 1 := ⟨fuel - 1, by omega⟩
      simp [C02R.toRefFs, QM.RefSem.evalFields]
    | .cons c r, Γ, L, flow, vs, L', env, k, acc, hok, hal, hE, hf, hev => by
      simp only [evalFs, Option.bind_eq_some_iff, Option.map_eq_some_iff] at hev
      obtain ⟨⟨v₁, L₁⟩, hc, ⟨vs₂, L₂⟩, hr, hv⟩ := hev
      simp only [Prod.mk.injEq] at hv
      obtain ⟨rfl, rfl⟩ := hv
      obtain ⟨env₁, hE₁, _, hal₁, N₁, h₁⟩ := ref1_evalCh nm hnm c Γ L flow v₁ L₁ env hok.1 hal hE hf hc
      obtain ⟨env₂, hE₂, hal₂, hlen₂, N₂, h₂⟩ := ref1_evalFs nm hnm r _ L₁ flow vs₂ L₂ env₁ (k + 1)
        (acc ++ [(none, erase nm v₁)]) hok.2 hal₁ hE₁ hf hr
      refine ⟨env₂, by simpa [compileFs] using hE₂, by simpa [compileFs] using hal₂, by simp [Fs1.length, hlen₂],
        max N₁ N₂ + 2, fun fuel h => ?_⟩
      obtain ⟨j, rfl⟩ : ∃ j, fuel = j + 2 := ⟨fuel - 2, by omega⟩
      simp only [C02R.toRefFs, QM.RefSem.evalFields, QM.RefSem.evalChain]
      rw [h₁ j (by omega)]
      simp only [QM.RefSem.Res.bind, QM.RefSem.setOrAppend]
      rw [h₂ (j + 1) (by omega)]
      simp
end

theorem ref_isNil_eq (w : QM.RefSem.Val) (h : w.isNil = true) : w = QM.RefSem.Val.nil := by
  cases w with
  | tup n fs =>
    cases n with
    | none => cases fs with
      | nil => rfl
      | cons a b => simp [QM.RefSem.Val.isNil] at h
    | some s => simp [QM.RefSem.Val.isNil] at h
  | int z => simp [QM.RefSem.Val.isNil] at h
  | bin b => simp [QM.RefSem.Val.isNil] at h
  | clo a b c => simp [QM.RefSem.Val.isNil] at h
  | builtin n => simp [QM.RefSem.Val.isNil] at h

theorem toRefSq_ne (nm : Nat → Option String) (sq : Sq1) : C02R.toRefSq nm sq ≠ [] := by
  cases sq <;> simp [C02R.toRefSq]

/-- sequences: the reference evaluator short-circuits exactly where the compiled code jumps -/
theorem ref1_evalSq (nm : Nat → Option String) (hnm : NmOk nm) :
    (sq : Sq1) → (Γ : List String) → (L : List QM.VM.Val) → (flow v : QM.VM.Val) → (L' : List QM.VM.Val) →
    (env : QM.RefSem.Env) → okSq nm sq → L.length = Γ.length → EnvRel nm Γ L env → C02S.NilOk nm flow →
    evalSq Γ L flow sq = some (v, L') →
    ∃ env', C02S.NilOk nm v ∧ ∃ N, ∀ fuel, N ≤ fuel →
      QM.RefSem.evalSeq fuel env (erase nm flow) (C02R.toRefSq nm sq) = .ok (erase nm v, env')
  | .last c, Γ, L, flow, v, L', env, hok, hal, hE, hf, hev => by
    simp only [evalSq] at hev
    obtain ⟨env', _, hn, _, N, hN⟩ := ref1_evalCh nm hnm c Γ L flow v L' env hok hal hE hf hev
    refine ⟨env', hn, N + 2, fun fuel h => ?_⟩
    obtain ⟨k, rfl⟩ : ∃ k, fuel = k + 2 := ⟨fuel - 2, by omega⟩
    simp only [C02R.toRefSq, QM.RefSem.evalSeq, QM.RefSem.evalChain]
    rw [hN k (by omega)]
    simp [QM.RefSem.Res.bind]
  | .cons c r, Γ, L, flow, v, L', env, hok, hal, hE, hf, hev => by
    simp only [evalSq, Option.bind_eq_some_iff] at hev
    obtain ⟨⟨v₁, L₁⟩, hc, hr⟩ := hev
    obtain ⟨env₁, hE₁, hn₁, hal₁, N₁, h₁⟩ := ref1_evalCh nm hnm c Γ L flow v₁ L₁ env hok.1 hal hE hf hc
    by_cases hv : v₁.isNil = true
    · simp only [hv, if_true, Option.some.injEq, Prod.mk.injEq] at hr
      obtain ⟨rfl, rfl⟩ := hr
      refine ⟨env₁, hn₁, N₁ + 2, fun fuel h => ?_⟩
      obtain ⟨k, rfl⟩ : ∃ k, fuel = k + 2 := ⟨fuel - 2, by omega⟩
      simp only [C02R.toRefSq, QM.RefSem.evalSeq, QM.RefSem.evalChain]
      rw [h₁ k (by omega)]
      simp only [QM.RefSem.Res.bind]
      cases hrs : C02R.toRefSq nm r with
      | nil => exact absurd hrs (toRefSq_ne nm r)
      | cons c' cs' =>
        have he : (erase nm v₁).isNil = true := by rw [hn₁]; exact hv
        simp only [he, if_true]
        rw [ref_isNil_eq _ he]
    · have hv' : v₁.isNil = false := by simpa using hv
      simp only [hv', Bool.false_eq_true, if_false] at hr
      obtain ⟨env₂, hn₂, N₂, h₂⟩ := ref1_evalSq nm hnm r _ L₁ v₁ v L' env₁ hok.2 hal₁ hE₁ hn₁ hr
      refine ⟨env₂, hn₂, max N₁ N₂ + 2, fun fuel h => ?_⟩
      obtain ⟨k, rfl⟩ : ∃ k, fuel = k + 2 := ⟨fuel - 2, by omega⟩
      simp only [C02R.toRefSq, QM.RefSem.evalSeq, QM.RefSem.evalChain]
      rw [h₁ k (by omega)]
      simp only [QM.RefSem.Res.bind]
      cases hrs : C02R.toRefSq nm r with
      | nil => exact absurd hrs (toRefSq_ne nm r)
      | cons c' cs' =>
        have he : (erase nm v₁).isNil = false := by rw [hn₁]; exact hv'
        simp only [he, Bool.false_eq_true, if_false]
        rw [← hrs]
        exact h₂ (k + 1) (by omega)

/-- **Compiled execution = reference semantics, with locals and bindings.** A process of M-VM whose
current function contains the code `compile1` emits for the straight-line sequence `sq` (compiled with
the slot names `Γ`) at `pc`, whose frame's locals `L` are aligned with `Γ` and hold what the reference
environment `env` gives the names (`EnvRel`), with the flowing value on top of the stack, reaches the
end of that code by `Executor::step` units alone, and the value it leaves is — name-resolved — the value
M-RefSem's `evalSeq` computes for the sequence from `env` and the name-resolved flowing value. -/
theorem compileSq1_agrees_with_reference (O : QM.VM.Oracle) (P : QM.VM.Prog) (hO : C02L.OracleIntEq O)
    (hP : wfProg P) (nm : Nat → Option String) (hnm : NmOk nm) (fn : QM.VM.Function) (f : QM.VM.Frame)
    (r : List QM.VM.Frame) (pre : List QM.VM.Val) (hfn : P.functions[f.functionIndex]? = some fn)
    (hsz : fn.instructions.size < 2 ^ 63 - 1) (sq : Sq1) (Γ : List String) (pc : Nat) (flow : QM.VM.Val)
    (rest L : List QM.VM.Val) (v : QM.VM.Val) (L' : List QM.VM.Val) (env : QM.RefSem.Env)
    (hl : C02S.Located fn.instructions pc (compileSq Γ sq).1) (hw : wfSq P sq) (hok : okSq nm sq)
    (hal : L.length = Γ.length) (hE : EnvRel nm Γ L env) (hflow : C02S.NilOk nm flow)
    (hev : evalSq Γ L flow sq = some (v, L'))
    (p : QM.VM.Proc) (hp : C02L.InvL p f r pre pc (flow :: rest) L) :
    ∃ q env' N, C02S.TRuns O P p q ∧
      C02L.InvL q f r pre (pc + (compileSq Γ sq).1.length) (v :: rest) L' ∧
      ∀ fuel, N ≤ fuel →
        QM.RefSem.evalSeq fuel env (erase nm flow) (C02R.toRefSq nm sq) = .ok (erase nm v, env') := by
  obtain ⟨q, hq, hinv⟩ := C02L.compileSq1_correct O P hO hP fn f r pre hfn hsz sq Γ pc flow rest L v L' hl hw hal hev p hp
  obtain ⟨env', _, N, hN⟩ := ref1_evalSq nm hnm sq Γ L flow v L' env hok hal hE hflow hev
  exact ⟨q, env', N, hq, hinv, hN⟩

/-! ### Definedness: a straight-line sequence whose variable reads resolve has a meaning -/

mutual
  /-- every variable read resolves to a slot (following the compile-time slot names) -/
  def boundT : List String → T1 → Prop
    | Γ, .var x => (slot Γ x).isSome
    | Γ, .tup _ fs => boundFs Γ fs
    | _, _ => True
  def boundCh : List String → Ch1 → Prop
    | _, .nil => True
    | Γ, .cons t r => boundT Γ t ∧ boundCh (compileT Γ t).2 r
  def boundFs : List String → Fs1 → Prop
    | _, .nil => True
    | Γ, .cons c r => boundCh Γ c ∧ boundFs (compileCh Γ c).2 r
end

def boundSq : List String → Sq1 → Prop
  | Γ, .last c => boundCh Γ c
  | Γ, .cons c r => boundCh Γ c ∧ boundSq (compileCh Γ c).2 r

theorem compileFs_snd_indep : (fs : Fs1) → (Γ : List String) → (k k' : Nat) →
    (compileFs Γ fs k).2 = (compileFs Γ fs k').2
  | .nil, Γ, k, k' => rfl
  | .cons c r, Γ, k, k' => by simp only [compileFs]; exact compileFs_snd_indep r _ _ _

mutual
  theorem evalT_defined (nm : Nat → Option String) :
      (t : T1) → (Γ : List String) → (L : List QM.VM.Val) → (flow : QM.VM.Val) → okT nm t → boundT Γ t →
      L.length = Γ.length → ∃ v L', evalT Γ L flow t = some (v, L') ∧ L'.length = (compileT Γ t).2.length
    | .int z i, Γ, L, flow, _, _, hal => ⟨.int z, L, rfl, by simpa [compileT] using hal⟩
    | .ripple, Γ, L, flow, _, _, hal => ⟨flow, L, rfl, by simpa [compileT] using hal⟩
    | .tup id fs, Γ, L, flow, hok, hb, hal => by
      obtain ⟨vs, L', h, hl⟩ := evalFs_defined nm fs Γ L flow 0 hok.2.2 hb hal
      exact ⟨.tup id (QM.VM.ValList.ofList vs), L', by simp [evalT, h], by simpa [compileT] using hl⟩
    | .var x, Γ, L, flow, _, hb, hal => by
      simp only [boundT] at hb
      obtain ⟨i, hi⟩ := Option.isSome_iff_exists.mp hb
      have hlt := slot_lt Γ x i hi
      have : i < L.length := by omega
      exact ⟨L[i], L, by simp [evalT, hi, List.getElem?_eq_getElem this], by simpa [compileT] using hal⟩
    | .mtch (.top (.bind x)), Γ, L, flow, _, _, hal =>
      ⟨QM.VM.Val.ok, L ++ [flow], by simp [evalT, evalPat, subPasses, subBound],
        by simp [compileT, patBinds, subBinds, hal]⟩
    | .mtch (.top .wild), Γ, L, flow, _, _, hal =>
      ⟨QM.VM.Val.ok, L, by simp [evalT, evalPat, subPasses, subBound],
        by simp [compileT, patBinds, subBinds, hal]⟩
    | .mtch (.top (.lit _ _)), _, _, _, hok, _, _ => by simp [okT] at hok
    | .mtch (.tup _), _, _, _, hok, _, _ => by simp [okT] at hok
  theorem evalCh_defined (nm : Nat → Option String) :
      (c : Ch1) → (Γ : List String) → (L : List QM.VM.Val) → (flow : QM.VM.Val) → okCh nm c → boundCh Γ c →
      L.length = Γ.length → ∃ v L', evalCh Γ L flow c = some (v, L') ∧ L'.length = (compileCh Γ c).2.length
    | .nil, Γ, L, flow, _, _, hal => ⟨flow, L, rfl, by simpa [compileCh] using hal⟩
    | .cons t r, Γ, L, flow, hok, hb, hal => by
      obtain ⟨v₁, L₁, h₁, l₁⟩ := evalT_defined nm t Γ L flow hok.1 hb.1 hal
      obtain ⟨v₂, L₂, h₂, l₂⟩ := evalCh_defined nm r _ L₁ v₁ hok.2 hb.2 l₁
      exact ⟨v₂, L₂, by simp [evalCh, h₁, h₂], by simpa [compileCh] using l₂⟩
  theorem evalFs_defined (nm : Nat → Option String) :
      (fs : Fs1) → (Γ : List String) → (L : List QM.VM.Val) → (flow : QM.VM.Val) → (k : Nat) → okFs nm fs →
      boundFs Γ fs → L.length = Γ.length →
      ∃ vs L', evalFs Γ L flow fs = some (vs, L') ∧ L'.length = (compileFs Γ fs k).2.length
    | .nil, Γ, L, flow, k, _, _, hal => ⟨[], L, rfl, by simpa [compileFs] using hal⟩
    | .cons c r, Γ, L, flow, k, hok, hb, hal => by
      obtain ⟨v₁, L₁, h₁, l₁⟩ := evalCh_defined nm c Γ L flow hok.1 hb.1 hal
      obtain ⟨vs₂, L₂, h₂, l₂⟩ := evalFs_defined nm r _ L₁ flow (k + 1) hok.2 hb.2 l₁
      exact ⟨v₁ :: vs₂, L₂, by simp [evalFs, h₁, h₂], by simpa [compileFs] using l₂⟩
end

theorem evalSq_defined (nm : Nat → Option String) :
    (sq : Sq1) → (Γ : List String) → (L : List QM.VM.Val) → (flow : QM.VM.Val) → okSq nm sq → boundSq Γ sq →
    L.length = Γ.length → ∃ v L', evalSq Γ L flow sq = some (v, L')
  | .last c, Γ, L, flow, hok, hb, hal => by
    obtain ⟨v, L', h, _⟩ := evalCh_defined nm c Γ L flow hok hb hal
    exact ⟨v, L', by simpa [evalSq] using h⟩
  | .cons c r, Γ, L, flow, hok, hb, hal => by
    obtain ⟨v₁, L₁, h₁, l₁⟩ := evalCh_defined nm c Γ L flow hok.1 hb.1 hal
    by_cases hv : v₁.isNil = true
    · exact ⟨v₁, L₁, by simp [evalSq, h₁, hv]⟩
    · obtain ⟨v₂, L₂, h₂⟩ := evalSq_defined nm r _ L₁ v₁ hok.2 hb.2 l₁
      exact ⟨v₂, L₂, by simp [evalSq, h₁, hv, h₂]⟩

/-- `compileSq1_agrees_with_reference` without presupposing the meaning function's value: for a
straight-line sequence whose variable reads resolve, the compiled code RUNS to a value, and that value
is the reference evaluator's. -/
theorem compileSq1_runs_to_reference_value (O : QM.VM.Oracle) (P : QM.VM.Prog) (hO : C02L.OracleIntEq O)
    (hP : wfProg P) (nm : Nat → Option String) (hnm : NmOk nm) (fn : QM.VM.Function) (f : QM.VM.Frame)
    (r : List QM.VM.Frame) (pre : List QM.VM.Val) (hfn : P.functions[f.functionIndex]? = some fn)
    (hsz : fn.instructions.size < 2 ^ 63 - 1) (sq : Sq1) (Γ : List String) (pc : Nat) (flow : QM.VM.Val)
    (rest L : List QM.VM.Val) (env : QM.RefSem.Env)
    (hl : C02S.Located fn.instructions pc (compileSq Γ sq).1) (hw : wfSq P sq) (hok : okSq nm sq)
    (hb : boundSq Γ sq) (hal : L.length = Γ.length) (hE : EnvRel nm Γ L env) (hflow : C02S.NilOk nm flow)
    (p : QM.VM.Proc) (hp : C02L.InvL p f r pre pc (flow :: rest) L) :
    ∃ q v L' env' N, C02S.TRuns O P p q ∧
      C02L.InvL q f r pre (pc + (compileSq Γ sq).1.length) (v :: rest) L' ∧
      ∀ fuel, N ≤ fuel →
        QM.RefSem.evalSeq fuel env (erase nm flow) (C02R.toRefSq nm sq) = .ok (erase nm v, env') := by
  obtain ⟨v, L', hev⟩ := evalSq_defined nm sq Γ L flow hok hb hal
  obtain ⟨q, env', N, h1, h2, h3⟩ := compileSq1_agrees_with_reference O P hO hP nm hnm fn f r pre hfn hsz sq Γ pc
    flow rest L v L' env hl hw hok hal hE hflow hev p hp
  exact ⟨q, v, L', env', N, h1, h2, h3⟩

end C02R
