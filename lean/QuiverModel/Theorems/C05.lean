import QuiverModel.Lemmas.Exec.Select
import QuiverModel.Core.Types.Compat
/-
C05 — Select follows its documented semantics: priority, filters, timeouts. Property theorems only
(every theorem here is `C05.<name>`; helper lemmas live in Lemmas/Exec/Select.lean).

The model is `QM.Exec` (Core/Exec/Select.lean): `handleSelect` mirrors `Executor::handle_select`
branch by branch. All statements are about ONE execution of the Select instruction ("the completing
(re-)entry") on the process state *at that execution*:

  mailbox   = everything delivered so far and not yet taken — including what arrived while receive
              functions ran across time slices;
  results   = `Proc.knownResults`: what `notify_result` / `notify_failure` recorded for the select's
              targets so far;
  start     = the stored `start_time`, or the clock of this execution when none is stored yet;
  now       = the clock passed to this execution.

That is the true reading of "the state at the moment it completes": the machine re-scans ALL sources
in written order on every re-entry, so a verdict computed earlier (on a message that is still in the
mailbox, by a pure filter) is the only thing carried over, and it is re-validated by the invariant
`Inv` (`cursor_sound`). Hypotheses common to the main theorems:

  `Inv p.mailbox st`   — the select invariant; established by `initialize_select`, preserved by every
                         event (`inv_initialize`, `inv_reenter`, `inv_message`, `inv_run`);
  `VerdictOf st top`   — the value on the stack is what the pending receive function returns on the
                         held message (receive functions are pure: spec.md "avoid side effects in a
                         filter, since it may be evaluated multiple times").
-/
namespace C05
open QM QM.Exec
variable {V : Type}

/-! ## Priority: the machine completes / fails / parks exactly as the specification says -/

/-- Whenever the select completes, it yields what `selectSpec` yields on the state at that moment:
    the first source, in written order, that is ready. -/
theorem select_completes_with_spec (p : Proc V) (st : SelState V) (now : Nat) (srcs : List (Source V))
    (top : Yield V) (hsel : p.sel = some st) (hinv : Inv p.mailbox st) (hv : VerdictOf st top)
    (p' : Proc V) (y : Yield V) (h : handleSelect p now srcs top = (p', .completed y)) :
    ∃ taken, selectSpec p.mailbox p.knownResults (st.startTime.getD now) now st.sources = .yields y taken := by
  obtain ⟨taken, h1, _⟩ := handleSelect_spec p st now srcs top hsel hinv hv p' _ h
  exact ⟨taken, h1⟩

/-- The error of a failed awaited process (or of an invalid source) propagates exactly when that
    source is the first ready one in written order (fix bc74ad3: a failure is a ready source). -/
theorem select_fails_with_spec (p : Proc V) (st : SelState V) (now : Nat) (srcs : List (Source V))
    (top : Yield V) (hsel : p.sel = some st) (hinv : Inv p.mailbox st) (hv : VerdictOf st top)
    (p' : Proc V) (e : ErrClass) (h : handleSelect p now srcs top = (p', .failed e)) :
    selectSpec p.mailbox p.knownResults (st.startTime.getD now) now st.sources = .fails e :=
  (handleSelect_spec p st now srcs top hsel hinv hv p' _ h).1

/-- The select parks (`mark_selecting`) only when NO source is ready: readiness is never overlooked. -/
theorem select_parks_only_if_nothing_ready (p : Proc V) (st : SelState V) (now : Nat) (srcs : List (Source V))
    (top : Yield V) (hsel : p.sel = some st) (hinv : Inv p.mailbox st) (hv : VerdictOf st top)
    (p' : Proc V) (h : handleSelect p now srcs top = (p', .parked)) :
    selectSpec p.mailbox p.knownResults (st.startTime.getD now) now st.sources = .notReady :=
  (handleSelect_spec p st now srcs top hsel hinv hv p' _ h).1

/-- On an existing select state the Select instruction has exactly four outcomes: it never panics
    (the `cursors[receive_idx]` index operations are in range), never reports an internal error, and
    never re-initialises. -/
theorem select_outcomes (p : Proc V) (st : SelState V) (now : Nat) (srcs : List (Source V))
    (top : Yield V) (hsel : p.sel = some st) (hinv : Inv p.mailbox st) (hv : VerdictOf st top) :
    (∃ y, (handleSelect p now srcs top).2 = .completed y) ∨ (∃ e, (handleSelect p now srcs top).2 = .failed e) ∨
    (handleSelect p now srcs top).2 = .parked ∨ (handleSelect p now srcs top).2 = .calledFilter := by
  cases hres : handleSelect p now srcs top with
  | mk p' res =>
    have := handleSelect_spec p st now srcs top hsel hinv hv p' res hres
    cases res with
    | completed y => exact Or.inl ⟨y, rfl⟩
    | failed e => exact Or.inr (Or.inl ⟨e, rfl⟩)
    | parked => exact Or.inr (Or.inr (Or.inl rfl))
    | calledFilter => exact Or.inr (Or.inr (Or.inr rfl))
    | awaitAction _ => exact this.elim
    | initialized => exact this.elim
    | panic => exact this.elim

/-! ## Messages that are not taken stay, in order; cursors are discarded -/

/-- The mailbox after completion is the mailbox before with exactly the taken message removed (order
    preserved), the select state — cursors included — is gone, and the awaits of this select have
    ended (`complete_select` drops the entries of its process sources). -/
theorem untaken_preserved (p : Proc V) (st : SelState V) (now : Nat) (srcs : List (Source V))
    (top : Yield V) (hsel : p.sel = some st) (hinv : Inv p.mailbox st) (hv : VerdictOf st top)
    (p' : Proc V) (y : Yield V) (h : handleSelect p now srcs top = (p', .completed y)) :
    ∃ taken, selectSpec p.mailbox p.knownResults (st.startTime.getD now) now st.sources = .yields y taken ∧
      p'.mailbox = (match taken with | none => p.mailbox | some i => p.mailbox.eraseIdx i) ∧
      p'.sel = none ∧
      p'.awaiting = dropAwaits st.sources p.awaiting ∧
      p'.awaitingFailed = dropAwaits st.sources p.awaitingFailed :=
  let ⟨taken, h1, h2, h3, h4, h5, _⟩ := handleSelect_spec p st now srcs top hsel hinv hv p' _ h
  ⟨taken, h1, h2, h3, h4, h5⟩

/-- A taken message is a mailbox message, at the index the specification names, and it is the
    earliest one the taking source accepts. -/
theorem taken_is_earliest_accepted (mb : List V) (results : Nat → Option (Res V)) (start now : Nat) :
    ∀ (srcs : List (Source V)) (y : Yield V) (i : Nat),
      selectSpec mb results start now srcs = .yields y (some i) →
      ∃ m ty f, mb[i]? = some m ∧ y = .value m ∧ Source.receive ty f ∈ srcs ∧
        firstIdx (accepts ty f) mb = some i := by
  intro srcs
  induction srcs with
  | nil => intro y i h; simp [selectSpec] at h
  | cons s rest ih =>
    intro y i h
    cases s with
    | await t =>
      simp only [selectSpec] at h
      cases hr : results t with
      | none =>
        rw [hr] at h
        obtain ⟨m, ty, f, h1, h2, h3, h4⟩ := ih y i h
        exact ⟨m, ty, f, h1, h2, List.mem_cons_of_mem _ h3, h4⟩
      | some r => rw [hr] at h; cases r <;> simp at h
    | timeout ms =>
      simp only [selectSpec] at h
      split at h
      · simp at h
      · obtain ⟨m, ty, f, h1, h2, h3, h4⟩ := ih y i h
        exact ⟨m, ty, f, h1, h2, List.mem_cons_of_mem _ h3, h4⟩
    | invalid e => simp [selectSpec] at h
    | receive ty f =>
      simp only [selectSpec] at h
      cases hf : firstIdx (accepts ty f) mb with
      | none =>
        rw [hf] at h
        obtain ⟨m, ty', f', h1, h2, h3, h4⟩ := ih y i h
        exact ⟨m, ty', f', h1, h2, List.mem_cons_of_mem _ h3, h4⟩
      | some j =>
        rw [hf] at h
        simp only [] at h
        cases hg : mb[j]? with
        | none => rw [hg] at h; simp at h
        | some m =>
          rw [hg] at h
          simp only [SpecOutcome.yields.injEq, Option.some.injEq] at h
          obtain ⟨rfl, rfl⟩ := h
          exact ⟨m, ty, f, hg, rfl, List.mem_cons_self, hf⟩

/-- A new select starts with all cursors at 0 and satisfies the invariant on the WHOLE mailbox: every
    message left behind by an earlier select is receivable again. -/
theorem inv_initialize (p : Proc V) (srcs : List (Source V)) (now : Nat) (top : Yield V) (hsel : p.sel = none) :
    ∃ st, (handleSelect p now srcs top).1.sel = some st ∧ Inv p.mailbox st ∧ st.sources = srcs ∧
      st.receiving = none ∧ (∀ k, st.cursors.getD k 0 = 0) ∧
      (handleSelect p now srcs top).1.mailbox = p.mailbox := by
  unfold handleSelect
  rw [hsel]
  simp only []
  cases hinit : initializeSelect p srcs now with
  | mk p' res =>
    obtain ⟨h1, _, st, h2, h3, h4, h5, h6, _⟩ := initializeSelect_inv p srcs now p' res hinit
    exact ⟨st, h2, h3, h4, h5, h6, h1⟩

/-! ## A filter's result is only a verdict -/

/-- The machine inspects the value a receive function returns only for nil-ness: two non-nil results
    are indistinguishable — so the result can never be what the select yields. -/
theorem filter_is_verdict (p : Proc V) (now : Nat) (srcs : List (Source V)) (a b : V) :
    handleSelect p now srcs (.value a) = handleSelect p now srcs (.value b) := by
  unfold handleSelect
  cases p.sel with
  | none => rfl
  | some st =>
    simp only [reenterSelect]
    cases st.receiving with
    | none => rfl
    | some im => simp only [Option.isSome_some, if_true, scanSources_value_irrel _ _ _ _ _ a b]

/-- What a select yields is `nil` (a timeout), a stored result of an awaited process, or a message of
    the mailbox — never anything else. -/
theorem yield_is_message_or_result (p : Proc V) (st : SelState V) (now : Nat) (srcs : List (Source V))
    (top : Yield V) (hsel : p.sel = some st) (hinv : Inv p.mailbox st) (hv : VerdictOf st top)
    (p' : Proc V) (v : V) (h : handleSelect p now srcs top = (p', .completed (.value v))) :
    v ∈ p.mailbox ∨ ∃ t, p.knownResults t = some (.ok v) := by
  obtain ⟨taken, h1, _⟩ := handleSelect_spec p st now srcs top hsel hinv hv p' _ h
  cases taken with
  | some i =>
    obtain ⟨m, _, _, h2, h3, _, _⟩ := taken_is_earliest_accepted _ _ _ _ _ _ _ h1
    simp only [Yield.value.injEq] at h3
    subst h3
    exact Or.inl (List.mem_of_getElem? h2)
  | none =>
    right
    clear h hv hinv hsel
    generalize st.sources = ss at h1
    induction ss with
    | nil => simp [selectSpec] at h1
    | cons s rest ih =>
      cases s with
      | await t =>
        simp only [selectSpec] at h1
        cases hr : p.knownResults t with
        | none => rw [hr] at h1; exact ih h1
        | some r =>
          rw [hr] at h1
          cases r with
          | ok v' =>
            simp only [SpecOutcome.yields.injEq, Yield.value.injEq, and_true] at h1
            subst h1; exact ⟨t, hr⟩
          | err e => simp at h1
      | timeout ms =>
        simp only [selectSpec] at h1
        split at h1
        · simp at h1
        · exact ih h1
      | invalid e => simp [selectSpec] at h1
      | receive ty f =>
        simp only [selectSpec] at h1
        cases hf : firstIdx (accepts ty f) p.mailbox with
        | none => rw [hf] at h1; exact ih h1
        | some j =>
          rw [hf] at h1
          simp only [] at h1
          cases hg : p.mailbox[j]? with
          | none => rw [hg] at h1; simp at h1
          | some m => rw [hg] at h1; simp at h1

/-! ## Timeouts -/

/-- Completion with the nil of a timeout implies that a timeout source of this select has run its
    full effective duration since `start`. -/
theorem timeout_not_early (p : Proc V) (st : SelState V) (now : Nat) (srcs : List (Source V))
    (top : Yield V) (hsel : p.sel = some st) (hinv : Inv p.mailbox st) (hv : VerdictOf st top)
    (p' : Proc V) (h : handleSelect p now srcs top = (p', .completed .nil)) :
    ∃ ms, Source.timeout ms ∈ st.sources ∧ effDur ms ≤ now - st.startTime.getD now := by
  obtain ⟨taken, h1, _⟩ := handleSelect_spec p st now srcs top hsel hinv hv p' _ h
  clear h hv hinv hsel
  generalize st.sources = ss at h1
  induction ss with
  | nil => simp [selectSpec] at h1
  | cons s rest ih =>
    cases s with
    | await t =>
      simp only [selectSpec] at h1
      cases hr : p.knownResults t with
      | none =>
        rw [hr] at h1
        obtain ⟨ms, h2, h3⟩ := ih h1
        exact ⟨ms, List.mem_cons_of_mem _ h2, h3⟩
      | some r => rw [hr] at h1; cases r <;> simp at h1
    | timeout ms =>
      simp only [selectSpec] at h1
      split at h1
      · next hle => exact ⟨ms, List.mem_cons_self, hle⟩
      · obtain ⟨ms', h2, h3⟩ := ih h1
        exact ⟨ms', List.mem_cons_of_mem _ h2, h3⟩
    | invalid e => simp [selectSpec] at h1
    | receive ty f =>
      simp only [selectSpec] at h1
      cases hf : firstIdx (accepts ty f) p.mailbox with
      | none =>
        rw [hf] at h1
        obtain ⟨ms, h2, h3⟩ := ih h1
        exact ⟨ms, List.mem_cons_of_mem _ h2, h3⟩
      | some j =>
        rw [hf] at h1
        simp only [] at h1
        cases hg : p.mailbox[j]? with
        | none => rw [hg] at h1; simp at h1
        | some m => rw [hg] at h1; simp at h1

/-- What `start` is. Without process sources it is the clock of the initialising execution; with
    process sources nothing is stored at initialisation (the process parks with `Action::Await`), and
    the FIRST execution of the instruction after that — whatever woke the process: normally the merged
    answer to the await query, but a message that arrives earlier wakes it too — stores its own clock.
    Once stored it never changes for this select. (So "start = first evaluation after the initial
    await answers arrived" is true only when nothing else wakes the process first; what always holds
    is: start is the clock of the first evaluation of the sources, which is never before the entry.) -/
theorem start_at_entry_without_awaits (p : Proc V) (srcs : List (Source V)) (now : Nat) (top : Yield V)
    (hsel : p.sel = none) (hno : pidTargets srcs = []) :
    ∃ st, (handleSelect p now srcs top) = ({ p with sel := some st }, .initialized) ∧ st.startTime = some now := by
  unfold handleSelect
  rw [hsel]
  simp [initializeSelect, hno]

theorem start_deferred_with_awaits (p : Proc V) (srcs : List (Source V)) (now : Nat) (top : Yield V)
    (hsel : p.sel = none) (hsome : pidTargets srcs ≠ []) :
    ∃ st, (handleSelect p now srcs top).1.sel = some st ∧ st.startTime = none ∧
      (handleSelect p now srcs top).2 = .awaitAction (pidTargets srcs) := by
  unfold handleSelect
  rw [hsel]
  simp [initializeSelect, hsome]

theorem start_fixed_at_first_evaluation (p : Proc V) (st : SelState V) (now : Nat) (srcs : List (Source V))
    (top : Yield V) (hsel : p.sel = some st) (hinv : Inv p.mailbox st) (hv : VerdictOf st top)
    (p' : Proc V) (st' : SelState V) (hsel' : p'.sel = some st')
    (h : (handleSelect p now srcs top).1 = p') :
    st'.startTime = some (st.startTime.getD now) := by
  cases hres : handleSelect p now srcs top with
  | mk p'' res =>
    rw [hres] at h
    simp only [] at h
    subst h
    have := handleSelect_spec p st now srcs top hsel hinv hv p'' res hres
    cases res with
    | completed y =>
      obtain ⟨_, _, _, h3, _⟩ := this
      rw [h3] at hsel'; cases hsel'
    | failed e =>
      -- the error arm leaves the select state as it was scanned: read it off `reenterSelect`
      unfold handleSelect at hres
      rw [hsel] at hres
      simp only [reenterSelect] at hres
      split at hres
      · simp at hres
      · simp only [Prod.mk.injEq] at hres
        obtain ⟨rfl, _⟩ := hres
        simp only [Option.some.injEq] at hsel'
        subst hsel'
        rename_i mb' st'' r heq _
        have ht : Thread st.sources { st with startTime := some (st.startTime.getD now) }
            (if st.receiving.isSome then some top else none) p.mailbox 0
            { st with startTime := some (st.startTime.getD now) } := by
          refine ⟨hinv.len, hinv.sound, rfl, rfl, ?_, ?_⟩
          · intro idx m hm; exact ⟨Nat.zero_le _, hm⟩
          · intro idx m hm _
            obtain ⟨ty, g, h1, h2, h3, h4⟩ := pending_of_held hinv hm
            have := hv (g m) h2
            exact ⟨ty, g, top, h1, this, by simp [show st.receiving = some (idx, m) from hm], h3, h4⟩
        exact scanSources_startTime _ _ _ _ _ _ _ _ _ _ _ _ _ heq
    | parked =>
      obtain ⟨_, _, _, _, _, st'', h5, _, _, _, h9⟩ := this
      rw [h5] at hsel'; simp only [Option.some.injEq] at hsel'; subst hsel'; exact h9
    | calledFilter =>
      obtain ⟨_, _, _, _, st'', h5, _, _, _, h9⟩ := this
      rw [h5] at hsel'; simp only [Option.some.injEq] at hsel'; subst hsel'; exact h9
    | awaitAction _ => exact this.elim
    | initialized => exact this.elim
    | panic => exact this.elim

/-- The property's own wording: "a timeout yields nil no earlier than its duration after the select
    started waiting". `entry` is the clock at which the select was entered; the hypothesis says what
    `start_at_entry_without_awaits` / `start_fixed_at_first_evaluation` give for a clock that does not
    go backwards: a stored start time is never before the entry, and neither is `now`. -/
theorem timeout_not_early_since_entry (p : Proc V) (st : SelState V) (now entry : Nat) (srcs : List (Source V))
    (top : Yield V) (hsel : p.sel = some st) (hinv : Inv p.mailbox st) (hv : VerdictOf st top)
    (hstart : ∀ s, st.startTime = some s → entry ≤ s) (hnow : entry ≤ now)
    (p' : Proc V) (h : handleSelect p now srcs top = (p', .completed .nil)) :
    ∃ ms, Source.timeout ms ∈ st.sources ∧ effDur ms ≤ now - entry := by
  obtain ⟨ms, h1, h2⟩ := timeout_not_early p st now srcs top hsel hinv hv p' h
  refine ⟨ms, h1, ?_⟩
  cases hs : st.startTime with
  | none => rw [hs] at h2; simp only [Option.getD_none] at h2; omega
  | some s =>
    have := hstart s hs
    rw [hs] at h2; simp only [Option.getD_some] at h2; omega

/-- … and that hypothesis is kept by every (re-)entry at a clock that is not before the entry. -/
theorem start_never_before_entry (p : Proc V) (st : SelState V) (now entry : Nat) (srcs : List (Source V))
    (top : Yield V) (hsel : p.sel = some st) (hinv : Inv p.mailbox st) (hv : VerdictOf st top)
    (hstart : ∀ s, st.startTime = some s → entry ≤ s) (hnow : entry ≤ now)
    (st' : SelState V) (hsel' : (handleSelect p now srcs top).1.sel = some st') :
    ∀ s', st'.startTime = some s' → entry ≤ s' := by
  intro s' hs'
  have := start_fixed_at_first_evaluation p st now srcs top hsel hinv hv _ st' hsel' rfl
  rw [this] at hs'
  simp only [Option.some.injEq] at hs'
  subst hs'
  cases hs : st.startTime with
  | none => simpa using hnow
  | some s => simpa using hstart s hs

/-! ## The cursor invariant -/

/-- A message skipped by a cursor was rejected by that source — by type or by its filter. (Filters
    being pure, skipping it again is unobservable.) -/
theorem cursor_sound (mb : List V) (st : SelState V) (hinv : Inv mb st) (k : Nat) (ty : V → Bool)
    (f : Option (V → FilterRes V)) (hk : nthRecv st.sources k = some (ty, f)) (i : Nat)
    (hi : i < st.cursors.getD k 0) :
    ∃ m, mb[i]? = some m ∧ accepts ty f m = false := by
  have hs := hinv.sound k ty f hk
  have hlt : i < mb.length := Nat.lt_of_lt_of_le hi hs.le
  refine ⟨mb[i], by simp [hlt], hs.rejected _ ?_⟩
  rw [List.mem_take_iff_getElem]
  exact ⟨i, by omega, rfl⟩

/-- The invariant of a live process: its select state (if any) satisfies `Inv` on its mailbox. -/
def ProcInv (p : Proc V) : Prop := p.result = none → ∀ st, p.sel = some st → Inv p.mailbox st

/-- A message arrival keeps the invariant (the mailbox only grows at the end). -/
theorem inv_message (p : Proc V) (m : V) (h : ProcInv p) : ProcInv (p.pushMessage m) := by
  intro hr st hsel
  exact (h hr st hsel).pushMessage m

/-- A (re-)entry that does not complete leaves a state that satisfies the invariant again. -/
theorem inv_reenter (p : Proc V) (st : SelState V) (now : Nat) (srcs : List (Source V)) (top : Yield V)
    (hsel : p.sel = some st) (hinv : Inv p.mailbox st) (hv : VerdictOf st top)
    (st' : SelState V) (hres : (handleSelect p now srcs top).2 = .parked ∨ (handleSelect p now srcs top).2 = .calledFilter)
    (hsel' : (handleSelect p now srcs top).1.sel = some st') :
    Inv (handleSelect p now srcs top).1.mailbox st' ∧ st'.sources = st.sources := by
  cases hh : handleSelect p now srcs top with
  | mk p' res =>
    rw [hh] at hres hsel'
    simp only [] at hres hsel'
    have := handleSelect_spec p st now srcs top hsel hinv hv p' res hh
    rcases hres with rfl | rfl
    · obtain ⟨_, h2, _, _, _, st'', h5, h6, _, h8, _⟩ := this
      rw [h5] at hsel'; simp only [Option.some.injEq] at hsel'; subst hsel'
      exact ⟨by rw [h2]; exact h6, h8⟩
    · obtain ⟨h2, _, _, _, st'', h5, h6, _, h8, _⟩ := this
      rw [h5] at hsel'; simp only [Option.some.injEq] at hsel'; subst hsel'
      exact ⟨by rw [h2]; exact h6, h8⟩

/-- Every event keeps the invariant … -/
theorem inv_step (p : Proc V) (e : Event V) (h : ProcInv p) : ProcInv (p.step e) := by
  cases e with
  | msg m => exact inv_message p m h
  | resultOk pid v =>
    simp only [Proc.step, Proc.storeResult]
    split
    · exact h
    · exact h
  | failure pid err =>
    simp only [Proc.step]
    split
    · exact h
    · exact h
  | select now srcs =>
    simp only [Proc.step]
    split
    · exact h
    · rename_i hres
      have hres : p.result = none := by simpa using hres
      intro hr' st' hsel'
      rcases stepSelectPure_cases p now srcs with ⟨e, he⟩ | ⟨top, he, hv⟩
      · rw [he] at hr'; simp at hr'
      · rw [he] at hr' hsel' ⊢
        obtain ⟨h1, h2, _, h4⟩ := stepSelect_proj p now srcs top
        rw [h1]; rw [h2] at hsel'
        have hnf := h4 hr'
        cases hsel : p.sel with
        | none =>
          obtain ⟨st0, g1, g2, _, _, _, g6⟩ := inv_initialize p srcs now top hsel
          rw [g1] at hsel'; simp only [Option.some.injEq] at hsel'; subst hsel'
          rw [g6]; exact g2
        | some st =>
          have hinv := h hres st hsel
          cases hh : handleSelect p now srcs top with
          | mk p' res =>
            have hpost := handleSelect_spec p st now srcs top hsel hinv (hv st hsel) p' res hh
            rw [hh] at hsel' hnf
            simp only [] at hsel' hnf ⊢
            cases res with
            | completed y =>
              obtain ⟨_, _, _, h3, _⟩ := hpost
              rw [h3] at hsel'; cases hsel'
            | failed err => exact (hnf err rfl).elim
            | parked =>
              obtain ⟨_, g2, _, _, _, st'', g5, g6, _⟩ := hpost
              rw [g5] at hsel'; simp only [Option.some.injEq] at hsel'; subst hsel'; rw [g2]; exact g6
            | calledFilter =>
              obtain ⟨g2, _, _, _, st'', g5, g6, _⟩ := hpost
              rw [g5] at hsel'; simp only [Option.some.injEq] at hsel'; subst hsel'; rw [g2]; exact g6
            | awaitAction _ => exact hpost.elim
            | initialized => exact hpost.elim
            | panic => exact hpost.elim

/-- … so it holds after every history, of any length, in any order, from a fresh process. -/
theorem inv_run (es : List (Event V)) : ∀ (p : Proc V), ProcInv p → ProcInv (p.run es) := by
  induction es with
  | nil => intro p h; exact h
  | cons e rest ih => intro p h; exact ih _ (inv_step p e h)

theorem inv_fresh : ProcInv ({} : Proc V) := by
  intro _ st h; cases h

/-- The headline, quantified over histories: after ANY sequence of message arrivals, result /
    failure notifications and (re-)entries at any clock values, if the next execution of the Select
    instruction completes, it yields `selectSpec` on the process state at that execution. -/
theorem history_completion_with_spec (es : List (Event V)) (now : Nat) (srcs : List (Source V))
    (st : SelState V) (hsel : (({} : Proc V).run es).sel = some st)
    (hlive : (({} : Proc V).run es).result = none)
    (p' : Proc V) (y : Yield V)
    (h : stepSelectPure (({} : Proc V).run es) now srcs = (p', .completed y)) :
    ∃ taken, selectSpec (({} : Proc V).run es).mailbox (({} : Proc V).run es).knownResults
        (st.startTime.getD now) now st.sources = .yields y taken ∧
      p'.mailbox = (match taken with
        | none => (({} : Proc V).run es).mailbox
        | some i => (({} : Proc V).run es).mailbox.eraseIdx i) := by
  have hinv := inv_run es _ inv_fresh hlive st hsel
  generalize ({} : Proc V).run es = p at *
  rcases stepSelectPure_cases p now srcs with ⟨e, he⟩ | ⟨top, he, hv⟩
  · rw [he] at h; simp at h
  · rw [he] at h
    obtain ⟨h1, _, h3, _⟩ := stepSelect_proj p now srcs top
    rw [h] at h1 h3
    simp only [] at h1 h3
    cases hh : handleSelect p now srcs top with
    | mk p'' res =>
      rw [hh] at h1 h3
      simp only [] at h1 h3
      subst h3
      obtain ⟨taken, g1, g2, _⟩ := handleSelect_spec p st now srcs top hsel hinv (hv st hsel) _ _ hh
      exact ⟨taken, g1, by rw [h1]; exact g2⟩


/-! ## Expiry: `check_expired_timeouts` and `next_timeout_ms` -/

/-- `check_expired_timeouts` re-queues a parked process exactly when one of its timeouts has expired
    (and touches nothing else). -/
theorem expiry_wakes (ex : Exec V) (now pid : Nat) :
    (pid ∈ (ex.checkExpiredTimeouts now).selecting ↔ pid ∈ ex.selecting ∧ ex.isExpired now pid = false) ∧
    (pid ∈ (ex.checkExpiredTimeouts now).queue ↔
      pid ∈ ex.queue ∨ (pid ∈ ex.selecting ∧ ex.isExpired now pid = true)) ∧
    (ex.checkExpiredTimeouts now).procs = ex.procs := by
  simp [Exec.checkExpiredTimeouts, List.mem_filter]

/-- … where "expired" means: it has a select state with a stored start time `s` and a timeout source
    whose effective duration has elapsed, `now − s ≥ d` (saturating subtraction, `≥` not `>`). -/
theorem expired_iff (ex : Exec V) (now pid : Nat) :
    ex.isExpired now pid = true ↔
      ∃ p st s ms, ex.getProc pid = some p ∧ p.sel = some st ∧ st.startTime = some s ∧
        Source.timeout ms ∈ st.sources ∧ effDur ms ≤ now - s := by
  unfold Exec.isExpired
  cases hp : ex.getProc pid with
  | none => simp
  | some p =>
    simp only [timeoutExpired_iff]
    constructor
    · rintro ⟨st, s, ms, h1, h2, h3, h4⟩; exact ⟨p, st, s, ms, rfl, h1, h2, h3, h4⟩
    · rintro ⟨p', st, s, ms, h0, h1, h2, h3, h4⟩
      simp only [Option.some.injEq] at h0; subst h0
      exact ⟨st, s, ms, h1, h2, h3, h4⟩

/-- `next_timeout_ms` is the minimum expiry instant over the parked processes that have one
    (`nextExpiry_some`: start + least effective duration, saturated at `u64::MAX`). -/
theorem next_timeout_is_min (ex : Exec V) (t : Nat) (h : ex.nextTimeoutMs = some t) :
    (∃ pid p, pid ∈ ex.selecting ∧ ex.getProc pid = some p ∧ p.nextExpiry = some t) ∧
    (∀ pid p e, pid ∈ ex.selecting → ex.getProc pid = some p → p.nextExpiry = some e → t ≤ e) := by
  unfold Exec.nextTimeoutMs at h
  obtain ⟨h1, h2⟩ := listMin_some _ t h
  constructor
  · obtain ⟨pid, hpid, hb⟩ := List.mem_filterMap.mp h1
    cases hp : ex.getProc pid with
    | none => rw [hp] at hb; simp at hb
    | some p => rw [hp] at hb; exact ⟨pid, p, hpid, hp, by simpa using hb⟩
  · intro pid p e hpid hp he
    apply h2
    exact List.mem_filterMap.mpr ⟨pid, hpid, by simp [hp, he]⟩

theorem next_timeout_none_iff (ex : Exec V) :
    ex.nextTimeoutMs = none ↔
      ∀ pid p, pid ∈ ex.selecting → ex.getProc pid = some p → p.nextExpiry = none := by
  unfold Exec.nextTimeoutMs
  rw [listMin_none]
  constructor
  · intro h pid p hpid hp
    cases he : p.nextExpiry with
    | none => rfl
    | some e =>
      have : e ∈ ex.selecting.filterMap (fun pid => (ex.getProc pid).bind Proc.nextExpiry) :=
        List.mem_filterMap.mpr ⟨pid, hpid, by simp [hp, he]⟩
      rw [h] at this; simp at this
  · intro h
    apply List.eq_nil_iff_forall_not_mem.mpr
    intro e he
    obtain ⟨pid, hpid, hb⟩ := List.mem_filterMap.mp he
    cases hp : ex.getProc pid with
    | none => rw [hp] at hb; simp at hb
    | some p => rw [hp] at hb; simp only [Option.bind_some] at hb; rw [h pid p hpid hp] at hb; cases hb

/-- A runtime that sleeps until `next_timeout_ms` misses no wake-up and wakes nobody early: with a
    clock that has not gone backwards for any parked process and is below `u64::MAX`,
    `check_expired_timeouts now` wakes somebody iff `next_timeout_ms ≤ now`. -/
theorem wakes_iff_next_timeout_reached (ex : Exec V) (now : Nat) (hnow : now < u64Max)
    (hmono : ∀ pid p st s, pid ∈ ex.selecting → ex.getProc pid = some p → p.sel = some st →
      st.startTime = some s → s ≤ now) :
    (∃ pid, pid ∈ ex.selecting ∧ ex.isExpired now pid = true) ↔ ∃ t, ex.nextTimeoutMs = some t ∧ t ≤ now := by
  constructor
  · rintro ⟨pid, hpid, hexp⟩
    obtain ⟨p, st, s, ms, h0, h1, h2, h3, h4⟩ := (expired_iff ex now pid).mp hexp
    have hs := hmono pid p st s hpid h0 h1 h2
    have : p.timeoutExpired now = true := (timeoutExpired_iff p now).mpr ⟨st, s, ms, h1, h2, h3, h4⟩
    obtain ⟨e, he, hle⟩ := (timeoutExpired_iff_nextExpiry_le p st s now h1 h2 hs hnow).mp this
    cases hn : ex.nextTimeoutMs with
    | none => rw [(next_timeout_none_iff ex).mp hn pid p hpid h0] at he; cases he
    | some t =>
      obtain ⟨_, hmin⟩ := next_timeout_is_min ex t hn
      exact ⟨t, rfl, Nat.le_trans (hmin pid p e hpid h0 he) hle⟩
  · rintro ⟨t, ht, hle⟩
    obtain ⟨⟨pid, p, hpid, hp, he⟩, _⟩ := next_timeout_is_min ex t ht
    obtain ⟨st, s, _, h1, h2, _⟩ := (nextExpiry_some p t).mp he
    have hs := hmono pid p st s hpid hp h1 h2
    have := (timeoutExpired_iff_nextExpiry_le p st s now h1 h2 hs hnow).mpr ⟨t, he, hle⟩
    exact ⟨pid, hpid, by simp [Exec.isExpired, hp, this]⟩

/-! ## Effective durations: the documented clamp, and an observation -/

theorem effDur_nonneg_in_range (ms : Int) (h0 : 0 ≤ ms) (h1 : ms ≤ i64Max) : effDur ms = ms.toNat := by
  have : i64Min ≤ ms := by unfold i64Min; omega
  simp [effDur, toI64OrMax, this, h1, Int.max_eq_left h0]

theorem effDur_negative_in_range (ms : Int) (h0 : ms < 0) (h1 : i64Min ≤ ms) : effDur ms = 0 := by
  have : ms ≤ i64Max := by unfold i64Max; omega
  simp [effDur, toI64OrMax, this, h1]
  omega

/-- Observation (not a violation of C05: "no earlier than its duration" holds trivially): an integer
    BELOW `i64::MIN` is not treated as a negative duration (fire at once) but, like one above
    `i64::MAX`, as unbounded — `to_i64().unwrap_or(i64::MAX)` applies to both sides. -/
theorem effDur_out_of_range (ms : Int) (h : ms < i64Min ∨ i64Max < ms) : effDur ms = i64Max.toNat := by
  have : ¬ (i64Min ≤ ms ∧ ms ≤ i64Max) := by omega
  unfold effDur toI64OrMax
  rw [if_neg this]
  decide


/-! ## The awaits of a select end with it (fix bc74ad3), and the witness of the old behaviour -/

/-- After a select has completed, the process no longer awaits any of that select's targets … -/
theorem completion_ends_awaits (p : Proc V) (st : SelState V) (now : Nat) (srcs : List (Source V))
    (top : Yield V) (hsel : p.sel = some st) (hinv : Inv p.mailbox st) (hv : VerdictOf st top)
    (p' : Proc V) (y : Yield V) (h : handleSelect p now srcs top = (p', .completed y))
    (t : Nat) (ht : Source.await t ∈ st.sources) :
    p'.stillAwaiting t = false ∧ amLookup t p'.awaitingFailed = none := by
  obtain ⟨_, _, _, _, h4, h5, _⟩ := handleSelect_spec p st now srcs top hsel hinv hv p' _ h
  constructor
  · simp [Proc.stillAwaiting, h4, amLookup_dropAwaits_mem st.sources p.awaiting t ht]
  · rw [h5]; exact amLookup_dropAwaits_mem st.sources p.awaitingFailed t ht

/-- … so a later failure (or result) of such a target does not concern it any more: the
    notification leaves the whole executor unchanged (no kill, no stored value, no wake-up of a
    process that did not ask). Likewise for a process that has already finished or failed. -/
theorem stale_failure_has_no_effect (ex : Exec V) (awaiter awaited : Nat) (e : ErrClass) (p : Proc V)
    (hp : ex.getProc awaiter = some p) (hstale : p.stillAwaiting awaited = false) :
    ex.notifyFailure awaiter awaited e = ex := by
  simp [Exec.notifyFailure, hp, hstale]

theorem stale_result_is_not_stored (p : Proc V) (awaited : Nat) (v : V)
    (hstale : p.stillAwaiting awaited = false) : p.storeResult awaited v = p := by
  simp [Proc.storeResult, hstale]

/-- A recorded failure never changes the result of the awaiter by itself: the error reaches the
    process only through its select, in source order (`select_fails_with_spec`). -/
theorem failure_is_recorded_not_applied (ex : Exec V) (awaiter awaited : Nat) (e : ErrClass) (p : Proc V)
    (hp : ex.getProc awaiter = some p) :
    ∃ p', (ex.notifyFailure awaiter awaited e).getProc awaiter = some p' ∧ p'.result = p.result ∧
      p'.mailbox = p.mailbox := by
  unfold Exec.notifyFailure
  rw [hp]
  simp only []
  split
  · refine ⟨p.recordFailure awaited e, ?_, rfl, rfl⟩
    unfold Exec.wake
    split <;> simp [Exec.getProc, Exec.setProc, amLookup_insert_self]
  · exact ⟨p, hp, rfl, rfl⟩

/-! ### Witnesses of the repaired defects (the OLD behaviour, kept as definitions in the model) -/

/-- a process that finished with `Ok 7` after `! [q, 5]` timed out; `q` is pid 1 -/
def finishedProc : Proc Nat := { result := some (.ok 7), awaiting := [(1, none)] }

/-- Before bc74ad3 the awaiting entry was still there (never removed) and the failure of pid 1 was
    applied by overwriting the result: the finished process turned into a failed one. -/
theorem old_failure_overwrote_finished_result :
    (((({ procs := [(0, finishedProc)] } : Exec Nat).killAwaiterOld 0 .invalidArgument).getProc 0).map (·.result))
      = some (some (.err .invalidArgument)) := by decide

/-- Now: the same notification is ignored. -/
theorem new_failure_ignores_finished_process :
    (((({ procs := [(0, finishedProc)] } : Exec Nat).notifyFailure 0 1 .invalidArgument).getProc 0).map (·.result))
      = some (some (.ok 7)) := by decide

/-- `! [2, q]` whose timeout (source 0) has expired while parked; then q's failure arrives. Old: the
    process was failed on arrival. New: the failure is recorded, the re-entry yields the nil of the
    higher-priority timeout. -/
def parkedOnTimeoutAndAwait : Proc Nat :=
  { awaiting := [(1, none)],
    sel := some { sources := [.timeout 2, .await 1], cursors := [], startTime := some 0, receiving := none } }

theorem new_error_does_not_preempt_ready_timeout :
    (stepSelectPure (((({ procs := [(0, parkedOnTimeoutAndAwait)], selecting := [0] } : Exec Nat).notifyFailure 0 1
        .invalidArgument).getProc 0).getD {}) 10 []).2 = .completed .nil := by decide

theorem old_error_preempted_ready_timeout :
    (((({ procs := [(0, parkedOnTimeoutAndAwait)], selecting := [0] } : Exec Nat).killAwaiterOld 0
        .invalidArgument).getProc 0).map (·.result)) = some (some (.err .invalidArgument)) := by decide

/-- … and when the failed process IS the first ready source, its error propagates. -/
theorem error_propagates_in_order :
    (stepSelectPure (((({ procs := [(0, parkedOnTimeoutAndAwait)], selecting := [0] } : Exec Nat).notifyFailure 0 1
        .invalidArgument).getProc 0).getD {}) 1 []).2 = .failed .invalidArgument := by decide

/-! ### Examples: the hypotheses are satisfiable by non-trivial histories -/

/-- sources `[#int {even}, #bin, 10]` over `Nat` messages: "int" = below 100, "bin" = from 100 -/
def exSources : List (Source Nat) :=
  [.receive (fun m => m < 100) (some (fun m => if m % 2 = 0 then .ret (.value 999) else .ret .nil)),
   .receive (fun m => m ≥ 100) none,
   .timeout 10]

/-- entry at t=5; 3 arrives; the filter is called on 3; while it runs, 4 arrives; re-entry (verdict
    nil → cursor moves on, filter called on 4); while it runs, the "bin" 100 arrives -/
def exHistory : List (Event Nat) :=
  [.select 5 exSources, .msg 3, .select 5 exSources, .msg 4, .select 6 exSources, .msg 100]

/-- the next execution completes with the MESSAGE 4 (not the filter's 999, not the "bin" 100 of the
    lower-priority source), and leaves `[3, 100]` in that order -/
example : (stepSelectPure (({} : Proc Nat).run exHistory) 7 exSources).2 = .completed (.value 4) ∧
    (stepSelectPure (({} : Proc Nat).run exHistory) 7 exSources).1.mailbox = [3, 100] ∧
    (({} : Proc Nat).run exHistory).result = none ∧ (({} : Proc Nat).run exHistory).sel.isSome = true := by decide

example : selectSpec [3, 4, 100] (fun _ => none) 5 7 exSources = .yields (.value 4) (some 1) := by decide

/-- F7's shape: `[#bin {Ok}, #str {slow Ok}]` ("bin" < 100 ≤ "str"): the str message 200 arrives, its
    slow filter is called; the bin message 1 arrives; at the re-entry the higher-priority source
    takes over (the pending verdict on 200 is abandoned: `receiving` now holds 1) … -/
def f7Sources : List (Source Nat) :=
  [.receive (fun m => m < 100) (some (fun _ => .ret (.value 999))),
   .receive (fun m => m ≥ 100) (some (fun _ => .ret (.value 999)))]

def f7History : List (Event Nat) :=
  [.select 0 f7Sources, .select 0 f7Sources, .msg 200, .select 1 f7Sources, .msg 1, .select 4 f7Sources]

example : ((({} : Proc Nat).run f7History).sel.map (·.receiving)) = some (some (0, 1)) ∧
    (({} : Proc Nat).run f7History).mailbox = [200, 1] := by decide

/-- … the select then completes with 1, and the abandoned 200 is still in the mailbox for the next
    select (`!#Str[bin]` in the original program). -/
example : (stepSelectPure (({} : Proc Nat).run f7History) 5 f7Sources).2 = .completed (.value 1) ∧
    (stepSelectPure (({} : Proc Nat).run f7History) 5 f7Sources).1.mailbox = [200] := by decide

/-- `expiry_wakes` / `wakes_iff_next_timeout_reached` on a concrete executor: started at 3 with
    timeouts 10 and 4 → next timeout 7; at 6 nobody is woken, at 7 the process is. -/
def exExec : Exec Nat :=
  { procs := [(0, { sel := some { sources := [.timeout 10, .receive (fun _ => true) none, .timeout 4],
                                  cursors := [0], startTime := some 3, receiving := none } })],
    selecting := [0] }

example : exExec.nextTimeoutMs = some 7 ∧ (exExec.checkExpiredTimeouts 6).queue = [] ∧
    (exExec.checkExpiredTimeouts 7).queue = [0] ∧ (exExec.checkExpiredTimeouts 7).selecting = [] := by decide


/-! ## `typeOk` is C08's `check_message_compatible` on the tables of the LAST program update

The abstract predicate `typeOk` of a receive source is, in the executor, `check_message_compatible`:
the concrete tag of the message looked up in `function_param_compatibility` /
`builtin_param_compatibility` — C08's `QM.Types.checkMessage` (Core/Types/Compat.lean, imported
read-only; `C08.mailbox_filter_spec`, `C08.compatSet_spec` say what the tables contain). The tables are
recomputed for the WHOLE merged program and REPLACED by every `update_program`, so a receive function
loaded by an earlier update accepts concrete types that only a later update introduced. -/

/-- the receive source the executor builds from a function / builtin value, against the tables
`fp` / `bp` currently installed; `tagOf` = `get_concrete_type` -/
def tableSource (fp bp : List (List QM.Types.CTag)) (tagOf : V → QM.Types.CTag) (src : QM.Types.Source)
    (filter : Option (V → FilterRes V)) : Source V :=
  .receive (fun m => QM.Types.checkMessage fp bp (tagOf m) src) filter

/-- a type-only receive function with a table entry takes exactly the messages whose concrete tag is in
its compatible set -/
theorem accepts_by_table (fp bp : List (List QM.Types.CTag)) (tagOf : V → QM.Types.CTag) (f : Nat)
    (set : List QM.Types.CTag) (h : fp[f]? = some set) (m : V) :
    accepts (fun m => QM.Types.checkMessage fp bp (tagOf m) (.function f)) none m = set.contains (tagOf m) := by
  simp [accepts, QM.Types.checkMessage, h]

/-- … so the select yields the EARLIEST mailbox message whose tag is in the set installed by the last
update (when no earlier source is ready) -/
theorem spec_takes_earliest_by_table (fp bp : List (List QM.Types.CTag)) (tagOf : V → QM.Types.CTag) (f : Nat)
    (set : List QM.Types.CTag) (h : fp[f]? = some set) (mb : List V) (results : Nat → Option (Res V))
    (start now : Nat) (rest : List (Source V)) (i : Nat) (m : V)
    (hfirst : firstIdx (fun m => set.contains (tagOf m)) mb = some i) (hm : mb[i]? = some m) :
    selectSpec mb results start now (tableSource fp bp tagOf (.function f) none :: rest) = .yields (.value m) (some i) := by
  have hacc : accepts (fun m => QM.Types.checkMessage fp bp (tagOf m) (.function f)) none =
      (fun m => set.contains (tagOf m)) := funext (accepts_by_table fp bp tagOf f set h)
  simp only [selectSpec, tableSource, hacc, hfirst, hm]

/-- an update can only be observed through the tables: if the new set of the function contains the old
one (types are only ever added), every message accepted before the update is accepted after it -/
theorem acceptance_survives_update (fp bp fp' bp' : List (List QM.Types.CTag)) (tagOf : V → QM.Types.CTag)
    (f : Nat) (set set' : List QM.Types.CTag) (h : fp[f]? = some set) (h' : fp'[f]? = some set')
    (hsub : ∀ c ∈ set, c ∈ set') (m : V)
    (hacc : QM.Types.checkMessage fp bp (tagOf m) (.function f) = true) :
    QM.Types.checkMessage fp' bp' (tagOf m) (.function f) = true := by
  simp only [QM.Types.checkMessage, h, h', List.contains_iff_mem] at hacc ⊢
  exact hsub _ hacc

/-- Witness of seeded/C05-4 (stale tables): function 0 was loaded by update 1 with the set `[tuple 3]`;
update 2 introduces tuple 7, compatible with its (partial) parameter type, and a message of that type
arrives. With the tables of update 2 the select takes it; with the stale entry of update 1 (only the
delta shipped) the message is skipped and the select waits. -/
theorem stale_table_skips_message :
    selectSpec [(7 : Nat)] (fun _ => none) 0 0
      [tableSource [[.tuple 3, .tuple 7]] [] (fun m => QM.Types.CTag.tuple m) (.function 0) none]
      = .yields (.value 7) (some 0) ∧
    selectSpec [(7 : Nat)] (fun _ => none) 0 0
      [tableSource [[.tuple 3]] [] (fun m => QM.Types.CTag.tuple m) (.function 0) none]
      = .notReady := by decide


/-! ## Variant `selectWaitsForAnswer` (patch notes/C05-fixes/01) -/

/-- **Flag off = HEAD**: while no process has unanswered targets recorded (always the case with the flag
    off — the second conjunct keeps it so), the variant's Select step IS `Exec.selectPure`: every theorem
    above is a theorem about the flag-off machine. -/
theorem variant_off_is_head (w : ExecW V) (pid now : Nat) (srcs : List (Source V)) (hun : w.un pid = []) :
    (w.selectPure {} pid now srcs).1.ex = (w.ex.selectPure pid now srcs).1 ∧
    (w.selectPure {} pid now srcs).2 = (w.ex.selectPure pid now srcs).2 ∧
    (w.selectPure {} pid now srcs).1.un pid = [] := by
  unfold ExecW.selectPure
  cases hp : w.ex.getProc pid with
  | none => simp [Exec.selectPure, hp, hun]
  | some p =>
    cases hs : p.sel with
    | none => simp [hs, ExecW.un, amLookup_insert_self]
    | some st =>
      have hun' : (amLookup pid w.unanswered).getD [] = [] := hun
      simp [hs, ExecW.un, hun']

/-- **Flag on: nothing is evaluated before the answer is in.** A select with an unanswered target parks
    again: no source is looked at, the process record (mailbox, cursors, start time, awaiting) is untouched. -/
theorem waits_parks_before_answer (v : Variant) (w : ExecW V) (pid now : Nat) (srcs : List (Source V))
    (p : Proc V) (st : SelState V) (hp : w.ex.getProc pid = some p) (hs : p.sel = some st) (hun : w.un pid ≠ []) :
    (w.selectPure v pid now srcs).2 = some .parked ∧
    (w.selectPure v pid now srcs).1.ex = w.ex.markSelecting pid ∧
    (w.selectPure v pid now srcs).1.unanswered = w.unanswered := by
  unfold ExecW.selectPure
  have : (w.un pid).isEmpty = false := by
    cases h : w.un pid with
    | nil => exact absurd h hun
    | cons _ _ => rfl
  simp [hp, hs, this]

/-- Flag on: a new select lists exactly its process sources as unanswered. -/
theorem waits_initialize_lists_targets (w : ExecW V) (pid now : Nat) (srcs : List (Source V))
    (p : Proc V) (hp : w.ex.getProc pid = some p) (hs : p.sel = none) :
    (w.selectPure { selectWaitsForAnswer := true } pid now srcs).1.un pid = pidTargets srcs := by
  unfold ExecW.selectPure
  simp [hp, hs, ExecW.un, amLookup_insert_self]

/-- An answer for `t` (result, failure, placeholder) removes `t` from the list and nothing else. -/
theorem answer_removes_target (w : ExecW V) (a t : Nat) :
    (w.notifyPending a t).un a = (w.un a).filter (· != t) := by
  simp [ExecW.notifyPending, ExecW.markAnswered, ExecW.un, amLookup_insert_self]

/-- Flag on: the select evaluates (reaches `Exec.selectPure`) only with every target answered. -/
theorem waits_evaluates_only_when_answered (v : Variant) (w : ExecW V) (pid now : Nat) (srcs : List (Source V))
    (p : Proc V) (st : SelState V) (hp : w.ex.getProc pid = some p) (hs : p.sel = some st)
    (r : StepRes V) (hr : (w.selectPure v pid now srcs).2 = some r) (hne : r ≠ .parked) : w.un pid = [] := by
  by_cases hun : w.un pid = []
  · exact hun
  · rw [(waits_parks_before_answer v w pid now srcs p st hp hs hun).1] at hr
    cases hr; exact absurd rfl hne

/-! ### System-level readiness -/

theorem selectSpec_congr (mb : List V) (r1 r2 : Nat → Option (Res V)) (start now : Nat) :
    ∀ (srcs : List (Source V)), (∀ t, t ∈ pidTargets srcs → r1 t = r2 t) →
      selectSpec mb r1 start now srcs = selectSpec mb r2 start now srcs
  | [], _ => rfl
  | .await t :: rest, h => by
    have ht : r1 t = r2 t := h t (by simp [pidTargets])
    have ih := selectSpec_congr mb r1 r2 start now rest (fun t' ht' => h t' (by simp [pidTargets, ht']))
    simp only [selectSpec, ht, ih]
  | .receive ty f :: rest, h => by
    have ih := selectSpec_congr mb r1 r2 start now rest (fun t' ht' => h t' (by simpa [pidTargets] using ht'))
    simp only [selectSpec, ih]
  | .timeout ms :: rest, h => by
    have ih := selectSpec_congr mb r1 r2 start now rest (fun t' ht' => h t' (by simpa [pidTargets] using ht'))
    simp only [selectSpec, ih]
  | .invalid e :: rest, _ => rfl

/-- **Knowledge-based and system-level specification agree once the answers are in**: if every target
    that had certainly finished before the select started is known to the process (what an answer
    delivers: it is produced after the select started, so it carries the result of such a target), the
    first ready source by what is TRUE is the first ready source by what the process KNOWS. With
    `select_completes_with_spec` / `select_fails_with_spec`: under the variant a completing select yields
    the system-level specification. -/
theorem spec_sys_eq_spec_when_answered (mb : List V) (known certain : Nat → Option (Res V)) (start now : Nat)
    (srcs : List (Source V)) (hcov : ∀ t, t ∈ pidTargets srcs → known t = none → certain t = none) :
    selectSpecSys mb known certain start now srcs = selectSpec mb known start now srcs := by
  unfold selectSpecSys
  apply selectSpec_congr
  intro t ht
  unfold sysResults
  cases hk : known t with
  | some r => rfl
  | none => simp [hcov t ht hk]


/-! ### Witnesses (`decide`): `! [p, #'int]`, a message arrives before the await answer; `p` (= process 1)
had finished with 7 before the select started. -/

def raceSources : List (Source Nat) := [.await 1, .receive (fun _ => true) none]

/-- the select is initialised (Action::Await, parked), then the message 5 arrives and wakes it -/
def wokenByMessage (v : Variant) : ExecW Nat :=
  ((({ ex := { procs := [(0, {})] } } : ExecW Nat).selectPure v 0 0 raceSources).1).notifyMessage 0 5

/-- HEAD (flag off): the woken select completes with the message although process 1 — whose answer has not
    arrived — finished before the select started: the system-level specification says 7. -/
theorem head_completes_before_answer :
    ((wokenByMessage {}).selectPure {} 0 0 raceSources).2 = some (.completed (.value 5)) ∧
    selectSpecSys [5] (fun _ => none) (fun t => if t = 1 then some (.ok 7) else none) 0 0 raceSources
      = .yields (.value 7) none := by decide

/-- Patched (flag on): the same wake-up parks again; the placeholder answer alone lets the select go on
    (process 1 unfinished at query time: the message wins, legitimately); the answer carrying 7 makes it
    yield 7 although the message has been in the mailbox all along. -/
theorem waits_parks_then_yields_the_finished_target :
    ((wokenByMessage { selectWaitsForAnswer := true }).selectPure { selectWaitsForAnswer := true } 0 0 raceSources).2
      = some .parked ∧
    ((((wokenByMessage { selectWaitsForAnswer := true }).selectPure { selectWaitsForAnswer := true } 0 0 raceSources).1.notifyResultOk 0 1 7).selectPure
        { selectWaitsForAnswer := true } 0 0 raceSources).2 = some (.completed (.value 7)) ∧
    (((((wokenByMessage { selectWaitsForAnswer := true }).selectPure { selectWaitsForAnswer := true } 0 0 raceSources).1.notifyPending 0 1).wake 0).selectPure
        { selectWaitsForAnswer := true } 0 0 raceSources).2 = some (.completed (.value 5)) := by decide

/-! ## Variant `releaseDead` (notes/C06-fixes/01, `release_dead_roots`) -/

/-- flag off = the code without the repair: `notify_message` is the old function -/
theorem release_off_is_old (persistent : Nat → Bool) (ex : Exec V) (pid : Nat) (m : V) :
    Exec.notifyMessageV {} persistent ex pid m = ex.notifyMessage pid m := rfl

/-- what a released (dead, non-persistent) process record keeps: its result — what awaiters and GetResult read — and
    nothing else the select machinery ever looks at -/
theorem released_record (p : Proc V) :
    p.releaseDead.result = p.result ∧ p.releaseDead.mailbox = [] ∧ p.releaseDead.awaiting = [] ∧
    p.releaseDead.awaitingFailed = [] ∧ p.releaseDead.sel = none := ⟨rfl, rfl, rfl, rfl, rfl⟩

/-- flag on: a message for a process that has failed is dropped — the record is untouched, only the wake-up of
    `notify_message` stays (the messages of a LIVE process are untouched by the variant: `untaken_preserved` still
    speaks about every mailbox a select can see) -/
theorem message_for_failed_process_dropped (persistent : Nat → Bool) (ex : Exec V) (pid : Nat) (m : V) (p : Proc V)
    (e : ErrClass) (hp : ex.getProc pid = some p) (hr : p.result = some (.err e)) :
    Exec.notifyMessageV { releaseDead := true } persistent ex pid m = ex.wake pid := by
  simp [Exec.notifyMessageV, hp, Proc.deliverable, hr]

/-- flag on: a live process receives exactly as before -/
theorem message_for_live_process_delivered (persistent : Nat → Bool) (ex : Exec V) (pid : Nat) (m : V) (p : Proc V)
    (hp : ex.getProc pid = some p) (hr : p.result = none) :
    Exec.notifyMessageV { releaseDead := true } persistent ex pid m = ex.notifyMessage pid m := by
  simp [Exec.notifyMessageV, hp, Proc.deliverable, hr]

end C05
