import QuiverModel.Generated.BuiltinSigs
import QuiverModel.Lemmas.Builtins.SigKinds
/-
C12 — theorems tied to tables regenerated from the live code on every run (`pregen`:
`gen_builtins` writes `Generated/BuiltinSigs.lean` from `BuiltinRegistry` and from the source text
of `builtins/binary.rs`). If a signature, a name, the size limit or a hash constant changes in the
code, these no longer check.
-/
namespace C12
open QM QM.Builtins

/-- one registry entry agrees with the model: a pure builtin is either modelled with the declared
    parameter and result spec, or is one of the two float builtins (totality checked only) -/
def sigMatches (e : String × TSpec × TSpec × Bool) : Bool :=
  !e.2.2.2 || (match modelSig e.1 with
    | some (p, k) => TSpec.beq e.2.1 p.toTSpec && kindFits k e.2.2.1
    | none => e.1 == "integer_sin" || e.1 == "integer_cos")

/-- **every pure builtin of the live registry is modelled with its declared signature** -/
theorem registry_signatures_match_model : Generated.builtinSigs.all sigMatches = true := by decide

/-- every name the model answers for is a pure builtin of the live registry -/
theorem modelled_are_registered :
    modelledNames.all (fun n => Generated.builtinSigs.any (fun e => e.1 == n && e.2.2.2)) = true := by
  decide

/-- **every modelled builtin's successful result inhabits the result `TypeSpec` the registry
    declares for it** (for every argument) -/
theorem result_inhabits_declared_spec (e : String × TSpec × TSpec × Bool)
    (he : e ∈ Generated.builtinSigs) (hp : e.2.2.2 = true) (hm : (modelSig e.1).isSome = true)
    (arg v : BArg) (h : callBuiltin e.1 arg = some (.ok v)) : inh e.2.2.1 v = true := by
  have hall := List.all_eq_true.mp registry_signatures_match_model e he
  unfold sigMatches at hall
  rw [hp] at hall
  cases hs : modelSig e.1 with
  | none => rw [hs] at hm; cases hm
  | some pk =>
    obtain ⟨p, k⟩ := pk
    rw [hs] at hall
    simp only [Bool.not_true, Bool.false_or, Bool.and_eq_true] at hall
    exact kindFits_sound hall.2 (callBuiltin_result_kind e.1 arg v p k hs h)

/-- the hypotheses are satisfiable: e.g. `binary_index` is in the table, pure and modelled -/
example : (Generated.builtinSigs.any fun e =>
    e.1 == "binary_index" && e.2.2.2 && (modelSig e.1).isSome &&
      TSpec.beq e.2.2.1 (.union [.integer, .nil])) = true := by decide

/-- **the model uses the code's constants**: FNV-1a offset bases and primes as written in
    `builtins/binary.rs`, and `MAX_BINARY_SIZE` (both definitions, value.rs and binary.rs) -/
theorem constants_match_code :
    fnv32Offset = Generated.fnv32Offset ∧ fnv32Prime = Generated.fnv32Prime ∧
    fnv64Offset = Generated.fnv64Offset ∧ fnv64Prime = Generated.fnv64Prime ∧
    Generated.maxBinarySizeValue = 16777216 ∧ Generated.maxBinarySizeBinary = 16777216 := by decide

end C12
