import QuiverModel.Lemmas.Soundness.FieldAccessSound
/-
C01 — by-name field access (`e.x` compiled to one positional `Get(index)`).

Model: `QM.Soundness.getFieldByName` (type_queries.rs `get_field_by_name` as of 548536f, tied to the
code by the harness's field differential: verdict, emitted `Get` index and result type id).
  * `field_by_name_sound_tuple` / `field_by_name_sound_union`: when the access is accepted on a tuple
    type, resp. on a union of tuple types, with index `idx` and field types `tys`, every value of
    the type is a tuple whose field number `idx` carries the label and lies in one of `tys`
    (so `Get(idx)` reads the right field, at the type the compiler gives the access);
  * `skip_seen_types_unsound`: the same-index check must be made for EVERY variant — under the rule
    that skips a variant whose field type was already collected, `A[x: 'int, y: 'bin] |
    B[y: 'bin, x: 'int]` is accepted with index 0 and the value `B[y: 0xff, x: 2]` has a binary
    there; the current rule rejects the instance.
Not covered: partial-typed sources (finding N4: for a partial type the index is the position in the
partial type, which is unsound) and nested unions.
-/
namespace C01
open QM.Types QM.Soundness

theorem field_by_name_sound_tuple (T : Table) (fuel t id idx : Nat) (x : Name) (tys : List Nat)
    (hty : T.types[t]? = some (.tuple id))
    (h : getFieldByName T (fuel + 1) t x = .ok idx tys) :
    ∀ v, inh T [] t v → ∃ name fs u ty, v = .tup name fs ∧ fs.toList[idx]? = some (some x, u) ∧
      ty ∈ tys ∧ inh T [] ty u := by
  intro v hv
  unfold getFieldByName getFieldByNameWith at h
  have hx : extractFieldSources T (fuel + 1) t = some [.tuple id] := by
    unfold extractFieldSources; rw [hty]
  have hn : hasNonTupleVariant T (fuel + 1) t = some false := by
    unfold hasNonTupleVariant; rw [hty]
  rw [hx, hn] at h
  simp only [List.isEmpty_cons, Bool.or_self, Bool.false_eq_true, if_false] at h
  obtain ⟨_, _, h3⟩ := fieldLoop_ok _ _ _ _ _ h
  obtain ⟨ft, hsrc, hft⟩ := h3 (.tuple id) (by simp)
  obtain ⟨name, fs, u, rfl, hu, hin⟩ := tuple_field hty hsrc hv
  exact ⟨name, fs, u, ft, rfl, hu, hft, hin⟩

theorem field_by_name_sound_union (T : Table) (fuel t idx : Nat) (x : Name) (ids tys : List Nat)
    (hty : T.types[t]? = some (.union ids))
    (hflat : ∀ i ∈ ids, ∃ id, T.types[i]? = some (.tuple id))
    (h : getFieldByName T (fuel + 2) t x = .ok idx tys) :
    ∀ v, inh T [] t v → ∃ name fs u ty, v = .tup name fs ∧ fs.toList[idx]? = some (some x, u) ∧
      ty ∈ tys ∧ inh T [t] ty u := by
  intro v hv
  unfold getFieldByName getFieldByNameWith at h
  obtain ⟨l, hl, hm⟩ := extract_union_tuples (T := T) (fuel := fuel) ids [] hflat
  have hx : extractFieldSources T (fuel + 2) t = some l := by
    unfold extractFieldSources; rw [hty]; simpa using hl
  rw [hx] at h
  cases hn : hasNonTupleVariant T (fuel + 2) t with
  | none => rw [hn] at h; cases h
  | some nt =>
    rw [hn] at h
    simp only at h
    split at h
    · cases h
    · obtain ⟨_, _, h3⟩ := fieldLoop_ok _ _ _ _ _ h
      -- the value is in one member
      obtain ⟨f, hf⟩ := hv
      cases f with
      | zero => simp [inhB] at hf
      | succ f =>
        unfold inhB at hf; rw [hty] at hf; simp only at hf
        obtain ⟨i, hi, hiv⟩ := List.any_eq_true.mp hf
        obtain ⟨id, hid⟩ := hflat i hi
        obtain ⟨ft, hsrc, hft⟩ := h3 (.tuple id) (hm i hi id hid)
        obtain ⟨name, fs, u, rfl, hu, hin⟩ := tuple_field (st := [t]) hid hsrc ⟨f, hiv⟩
        exact ⟨name, fs, u, ft, rfl, hu, hft, hin⟩

/-! ### the same-index check is necessary

names: x = 1, y = 2, A = 10, B = 11.
tuples: 2 `A[x: 'int, y: 'bin]`, 3 `B[y: 'bin, x: 'int]`; types: 0 'int, 1 'bin, 2 A…, 3 B…, 4 `A… | B…`. -/
def tPerm : Table :=
  { types := [.integer, .binary, .tuple 2, .tuple 3, .union [2, 3]],
    tuples := [⟨none, []⟩, ⟨some 9, []⟩, ⟨some 10, [(some 1, 0), (some 2, 1)]⟩,
               ⟨some 11, [(some 2, 1), (some 1, 0)]⟩] }

def fsPerm : VFields := .cons (some 2) (.bin [255]) (.cons (some 1) (.int 2) .nil)

/-- `B[y: 0xff, x: 2]` -/
def vPerm : V := .tup (some 11) fsPerm

/-- the code rejects `e.x` on the permuted union… -/
theorem permuted_rejected : getFieldByName tPerm 8 4 1 = .notFound := by decide

/-- …while the rule that skips a variant whose field type was already seen accepts it with index 0
at type 'int, and a value of the type has a binary at index 0. -/
theorem skip_seen_types_unsound :
    getFieldByNameWith .skipSeenTypes tPerm 8 4 1 = .ok 0 [0] ∧ inhB tPerm 8 [] 4 vPerm = true ∧
      fsPerm.toList[0]? = some (some 2, .bin [255]) := by
  refine ⟨by decide, by decide, by decide⟩

/-- the hypotheses of the union theorem are satisfiable: same label at the same index in both
variants (`A[x: 'int, y: 'bin] | B[x: 'int, z: 'bin]`). -/
def tSame : Table :=
  { types := [.integer, .binary, .tuple 2, .tuple 3, .union [2, 3]],
    tuples := [⟨none, []⟩, ⟨some 9, []⟩, ⟨some 10, [(some 1, 0), (some 2, 1)]⟩,
               ⟨some 11, [(some 1, 0), (some 3, 1)]⟩] }

example : getFieldByName tSame 8 4 1 = .ok 0 [0, 0] := by decide

end C01
