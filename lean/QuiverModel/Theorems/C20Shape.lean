import QuiverModel.Core.NumShapeModel
import QuiverModel.Generated.NumShape
/-
C20 — the hand-written model is tied to the *current text* of std/num.qv: `Generated/NumShape.lean`
is regenerated on every run of `./check C20` (pregen `gen_numshape`: std/num.qv parsed with the real
parser `quiver_compiler::parse`), and the statements below are re-checked by the kernel against it.
When num.qv gains or loses an export, a definition or a branch, reorders branches, changes a
pattern, a callee or any other token of a body, `num_shape_matches` no longer checks (so do harmless
rewrites — intended: whoever changes num.qv re-reads the model). The finer statements say how deep
a change goes: names only / branch structure / full bodies.
-/
namespace C20
open QM QM.Num

/-- branch structure without the bodies' full text -/
def structureOf (d : DefShape) : String × String × String × List BranchShape :=
  (d.name, d.param, d.binds, d.branches)

/-- the module's type aliases are the ones the model's value types mirror -/
theorem num_aliases_match : Generated.numShape.aliases = modelShape.aliases := by first | rfl | fail "num_aliases_match: std/num.qv no longer has the structure the model Core/Num.lean was written against (compare Generated/NumShape.lean with Core/NumShapeModel.lean)"

/-- same top-level definitions, in the same order -/
theorem num_definition_names_match :
    Generated.numShape.defs.map (·.name) = modelShape.defs.map (·.name) := by first | rfl | fail "num_definition_names_match: std/num.qv no longer has the structure the model Core/Num.lean was written against (compare Generated/NumShape.lean with Core/NumShapeModel.lean)"

/-- same exported record fields, in the same order (every export is modelled, none is missing) -/
theorem num_export_names_match :
    Generated.numShape.exports.map (·.name) = modelShape.exports.map (·.name) := by first | rfl | fail "num_export_names_match: std/num.qv no longer has the structure the model Core/Num.lean was written against (compare Generated/NumShape.lean with Core/NumShapeModel.lean)"

/-- same parameter types, same branches in the same order with the same leading patterns,
consequences and callees — for every definition and every export -/
theorem num_branch_structure_matches :
    Generated.numShape.defs.map structureOf = modelShape.defs.map structureOf ∧
    Generated.numShape.exports.map structureOf = modelShape.exports.map structureOf := by
  first | exact ⟨rfl, rfl⟩ | fail "num_branch_structure_matches: a parameter type, branch, leading pattern or callee of std/num.qv differs from the model's table (compare Generated/NumShape.lean with Core/NumShapeModel.lean)"

/-- **the live std/num.qv has exactly the structure the model was written against** (full canonical
bodies included) -/
theorem num_shape_matches : Generated.numShape = modelShape := by first | rfl | fail "num_shape_matches: std/num.qv no longer has the structure the model Core/Num.lean was written against (compare Generated/NumShape.lean with Core/NumShapeModel.lean)"

/-- the table is not vacuous: 29 definitions, 22 exports, `add` dispatches over six branches -/
example : modelShape.defs.length = 29 ∧ modelShape.exports.length = 22 ∧
    (modelShape.exports.filter (·.name == "add")).map (·.branches.length) = [6] := by decide +kernel

end C20
