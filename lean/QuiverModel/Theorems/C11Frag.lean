import QuiverModel.Theorems.C02Loc
import QuiverModel.Theorems.C11
/-
C11, fragment theorem — **for straight-line binding lines the index-assignment assumption of
`C11.runLine_preserves_aligned` is a theorem, not an oracle.**

Reuses (read-only) b-c02's fragment compiler with locals (`Core/RefSem/Compile1.lean`: `compileSq`,
`evalSq`, `slot`, tied to compiler.rs by C02's "fragment" stream) and its correctness on M-VM
(`Theorems/C02Loc.lean`: `compileSq_aruns` / `compileSq1_correct`: the compiled code of a sequence `sq`,
started with the frame's locals `L` aligned with the compile-time names `Γ` (`L.length = Γ.length`),
ends with the locals `evalSq Γ L flow sq` says). Nothing of C02 is duplicated; what is added here:

  * `compile*_extends` / `eval*_extends` — compile-time names and run-time locals only grow by appending;
  * `evalSq_aligned` — if no step evaluated to nil, the locals afterwards are again aligned with the names;
  * `slot_append` — a name of the extended context resolves either to its old slot (untouched) or to a
    slot at or above the old length, at the position of its binder among the new names;
  * `fragment_line_assignment` — the three together are exactly the hypothesis `hnew` of
    `runLine_preserves_aligned`, and `fragment_line_keeps_session_aligned` draws the conclusion for a
    session whose line is in the fragment.

The fragment: literals, `~`, tuples, reads of variables, `x = e` / `e =x`, placeholder, integer-literal
and flat tuple-destructuring patterns, sequences with the nil short-circuit. Outside it (blocks, calls,
closures, imports, processes) the assumption stays a per-line check of the harness.
-/
namespace C11Frag
open QM.VM QM.RefSem.C1

/-! ### Names and locals only grow -/

mutual
theorem compileT_extends : (t : T1) → (Γ : List String) → ∃ names, (compileT Γ t).2 = Γ ++ names
  | .int _ _, Γ => ⟨[], by simp [compileT]⟩
  | .ripple, Γ => ⟨[], by simp [compileT]⟩
  | .tup _ fs, Γ => by
    obtain ⟨n, hn⟩ := compileFs_extends fs Γ 0
    exact ⟨n, by simp only [compileT]; exact hn⟩
  | .var _, Γ => ⟨[], by simp [compileT]⟩
  | .mtch p, Γ => ⟨patBinds p, by simp [compileT]⟩
theorem compileCh_extends : (c : Ch1) → (Γ : List String) → ∃ names, (compileCh Γ c).2 = Γ ++ names
  | .nil, Γ => ⟨[], by simp [compileCh]⟩
  | .cons t r, Γ => by
    obtain ⟨n1, h1⟩ := compileT_extends t Γ
    obtain ⟨n2, h2⟩ := compileCh_extends r (compileT Γ t).2
    exact ⟨n1 ++ n2, by simp only [compileCh]; rw [h2, h1, List.append_assoc]⟩
theorem compileFs_extends : (fs : Fs1) → (Γ : List String) → (k : Nat) →
    ∃ names, (compileFs Γ fs k).2 = Γ ++ names
  | .nil, Γ, _ => ⟨[], by simp [compileFs]⟩
  | .cons c r, Γ, k => by
    obtain ⟨n1, h1⟩ := compileCh_extends c Γ
    obtain ⟨n2, h2⟩ := compileFs_extends r (compileCh Γ c).2 (k + 1)
    exact ⟨n1 ++ n2, by simp only [compileFs]; rw [h2, h1, List.append_assoc]⟩
end

theorem compileSq_extends : (sq : Sq1) → (Γ : List String) → ∃ names, (compileSq Γ sq).2 = Γ ++ names
  | .last c, Γ => by simpa [compileSq] using compileCh_extends c Γ
  | .cons c r, Γ => by
    obtain ⟨n1, h1⟩ := compileCh_extends c Γ
    obtain ⟨n2, h2⟩ := compileSq_extends r (compileCh Γ c).2
    exact ⟨n1 ++ n2, by simp only [compileSq]; rw [h2, h1, List.append_assoc]⟩

mutual
theorem evalT_extends : (t : T1) → (Γ : List String) → (L : List Val) → (flow v : Val) → (L' : List Val) →
    evalT Γ L flow t = some (v, L') → ∃ app, L' = L ++ app
  | .int _ _, _, L, _, _, _, h => by simp [evalT] at h; exact ⟨[], by simp [h.2]⟩
  | .ripple, _, L, _, _, _, h => by simp [evalT] at h; exact ⟨[], by simp [h.2]⟩
  | .tup _ fs, Γ, L, flow, _, L', h => by
    simp only [evalT, Option.map_eq_some_iff] at h
    obtain ⟨⟨vs, L1⟩, hfs, heq⟩ := h
    cases heq
    exact evalFs_extends fs Γ L flow vs _ hfs
  | .var x, Γ, L, _, _, L', h => by
    simp only [evalT, Option.bind_eq_some_iff, Option.map_eq_some_iff] at h
    obtain ⟨i, _, w, _, heq⟩ := h
    cases heq
    exact ⟨[], by simp⟩
  | .mtch p, _, L, flow, _, L', h => by
    simp only [evalT, Option.map_eq_some_iff] at h
    obtain ⟨⟨w, b⟩, _, heq⟩ := h
    cases heq
    exact ⟨b, rfl⟩
theorem evalCh_extends : (c : Ch1) → (Γ : List String) → (L : List Val) → (flow v : Val) → (L' : List Val) →
    evalCh Γ L flow c = some (v, L') → ∃ app, L' = L ++ app
  | .nil, _, L, _, _, _, h => by simp [evalCh] at h; exact ⟨[], by simp [h.2]⟩
  | .cons t r, Γ, L, flow, v, L', h => by
    simp only [evalCh, Option.bind_eq_some_iff] at h
    obtain ⟨⟨v1, L1⟩, ht, hr⟩ := h
    obtain ⟨a1, h1⟩ := evalT_extends t Γ L flow v1 L1 ht
    obtain ⟨a2, h2⟩ := evalCh_extends r (compileT Γ t).2 L1 v1 v L' hr
    exact ⟨a1 ++ a2, by rw [h2, h1, List.append_assoc]⟩
theorem evalFs_extends : (fs : Fs1) → (Γ : List String) → (L : List Val) → (flow : Val) → (vs L' : List Val) →
    evalFs Γ L flow fs = some (vs, L') → ∃ app, L' = L ++ app
  | .nil, _, L, _, _, _, h => by simp [evalFs] at h; exact ⟨[], by simp [h.2]⟩
  | .cons c r, Γ, L, flow, vs, L', h => by
    simp only [evalFs, Option.bind_eq_some_iff, Option.map_eq_some_iff] at h
    obtain ⟨⟨v1, L1⟩, hc, ⟨vs2, L2⟩, hr, heq⟩ := h
    cases heq
    obtain ⟨a1, h1⟩ := evalCh_extends c Γ L flow v1 L1 hc
    obtain ⟨a2, h2⟩ := evalFs_extends r (compileCh Γ c).2 L1 flow vs2 _ hr
    exact ⟨a1 ++ a2, by rw [h2, h1, List.append_assoc]⟩
end

theorem evalSq_extends : (sq : Sq1) → (Γ : List String) → (L : List Val) → (flow v : Val) → (L' : List Val) →
    evalSq Γ L flow sq = some (v, L') → ∃ app, L' = L ++ app
  | .last c, Γ, L, flow, v, L', h => by simpa [evalSq] using evalCh_extends c Γ L flow v L' (by simpa [evalSq] using h)
  | .cons c r, Γ, L, flow, v, L', h => by
    simp only [evalSq, Option.bind_eq_some_iff] at h
    obtain ⟨⟨v1, L1⟩, hc, hr⟩ := h
    obtain ⟨a1, h1⟩ := evalCh_extends c Γ L flow v1 L1 hc
    split at hr
    · cases hr; exact ⟨a1, h1⟩
    · obtain ⟨a2, h2⟩ := evalSq_extends r (compileCh Γ c).2 L1 v1 v L' hr
      exact ⟨a1 ++ a2, by rw [h2, h1, List.append_assoc]⟩

/-! ### Alignment is restored when nothing short-circuits -/

theorem evalPat_bound_length (flow : Val) : (p : Pat1) → (v : Val) → (b : List Val) →
    evalPat flow p = some (v, b) → b.length = (patBinds p).length
  | .top s, v, b, h => by
    simp only [evalPat] at h
    split at h
    · cases h; cases s <;> simp [subBound, subBinds, patBinds]
    · cases h; simp [patBinds]
  | .tup subs, v, b, h => by
    simp only [evalPat] at h
    split at h
    · simp only [Option.map_eq_some_iff] at h
      obtain ⟨vs, hvs, heq⟩ := h
      cases heq
      rw [C02L.bindVals_length _ _ _ hvs]
      simp [patBinds, subsBinds]
    · cases h; simp [patBinds]
    · cases h

mutual
theorem evalT_aligned : (t : T1) → (Γ : List String) → (L : List Val) → (flow v : Val) → (L' : List Val) →
    L.length = Γ.length → evalT Γ L flow t = some (v, L') → L'.length = (compileT Γ t).2.length
  | .int _ _, _, L, _, _, _, hal, h => by simp [evalT] at h; simp [compileT, ← h.2, hal]
  | .ripple, _, L, _, _, _, hal, h => by simp [evalT] at h; simp [compileT, ← h.2, hal]
  | .tup _ fs, Γ, L, flow, _, L', hal, h => by
    simp only [evalT, Option.map_eq_some_iff] at h
    obtain ⟨⟨vs, L1⟩, hfs, heq⟩ := h
    cases heq
    simpa [compileT] using evalFs_aligned fs Γ L flow vs _ 0 hal hfs
  | .var x, Γ, L, _, _, L', hal, h => by
    simp only [evalT, Option.bind_eq_some_iff, Option.map_eq_some_iff] at h
    obtain ⟨i, _, w, _, heq⟩ := h
    cases heq
    simp [compileT, hal]
  | .mtch p, Γ, L, flow, _, L', hal, h => by
    simp only [evalT, Option.map_eq_some_iff] at h
    obtain ⟨⟨w, b⟩, hp, heq⟩ := h
    cases heq
    simp [compileT, hal, evalPat_bound_length flow p w b hp]
theorem evalCh_aligned : (c : Ch1) → (Γ : List String) → (L : List Val) → (flow v : Val) → (L' : List Val) →
    L.length = Γ.length → evalCh Γ L flow c = some (v, L') → L'.length = (compileCh Γ c).2.length
  | .nil, _, L, _, _, _, hal, h => by simp [evalCh] at h; simp [compileCh, ← h.2, hal]
  | .cons t r, Γ, L, flow, v, L', hal, h => by
    simp only [evalCh, Option.bind_eq_some_iff] at h
    obtain ⟨⟨v1, L1⟩, ht, hr⟩ := h
    have a1 := evalT_aligned t Γ L flow v1 L1 hal ht
    simpa [compileCh] using evalCh_aligned r (compileT Γ t).2 L1 v1 v L' a1 hr
theorem evalFs_aligned : (fs : Fs1) → (Γ : List String) → (L : List Val) → (flow : Val) → (vs L' : List Val) →
    (k : Nat) → L.length = Γ.length → evalFs Γ L flow fs = some (vs, L') →
    L'.length = (compileFs Γ fs k).2.length
  | .nil, _, L, _, _, _, _, hal, h => by simp [evalFs] at h; simp [compileFs, ← h.2, hal]
  | .cons c r, Γ, L, flow, vs, L', k, hal, h => by
    simp only [evalFs, Option.bind_eq_some_iff, Option.map_eq_some_iff] at h
    obtain ⟨⟨v1, L1⟩, hc, ⟨vs2, L2⟩, hr, heq⟩ := h
    cases heq
    have a1 := evalCh_aligned c Γ L flow v1 L1 hal hc
    simpa [compileFs] using evalFs_aligned r (compileCh Γ c).2 L1 flow vs2 _ (k + 1) a1 hr
end

/-- If the sequence's value is not nil — no step short-circuited — the locals afterwards are aligned
    with the compile-time names afterwards. (After a nil step they are not: the skipped steps' Stores
    did not happen; that is the case C11's statement excludes.) -/
theorem evalSq_aligned : (sq : Sq1) → (Γ : List String) → (L : List Val) → (flow v : Val) → (L' : List Val) →
    L.length = Γ.length → evalSq Γ L flow sq = some (v, L') → v.isNil = false →
    L'.length = (compileSq Γ sq).2.length
  | .last c, Γ, L, flow, v, L', hal, h, _ => by
    simpa [compileSq] using evalCh_aligned c Γ L flow v L' hal (by simpa [evalSq] using h)
  | .cons c r, Γ, L, flow, v, L', hal, h, hv => by
    simp only [evalSq, Option.bind_eq_some_iff] at h
    obtain ⟨⟨v1, L1⟩, hc, hr⟩ := h
    have a1 := evalCh_aligned c Γ L flow v1 L1 hal hc
    split at hr
    · rename_i hnil
      cases hr
      rw [hnil] at hv; cases hv
    · simpa [compileSq] using evalSq_aligned r (compileCh Γ c).2 L1 v1 v L' a1 hr hv

/-! ### Where a name of the extended context lives -/

theorem slot_lt : (Γ : List String) → (x : String) → (i : Nat) → slot Γ x = some i → i < Γ.length
  | [], _, _, h => by simp [slot] at h
  | y :: r, x, i, h => by
    simp only [slot] at h
    split at h
    · rename_i j hj
      cases h
      have := slot_lt r x j hj
      simp; omega
    · split at h
      · cases h; simp
      · cases h

theorem slot_append : (Γ names : List String) → (x : String) → (i : Nat) →
    slot (Γ ++ names) x = some i →
    (slot names x = none ∧ slot Γ x = some i) ∨ (Γ.length ≤ i ∧ slot names x = some (i - Γ.length))
  | [], names, x, i, h => by
    right
    simpa using h
  | y :: r, names, x, i, h => by
    simp only [List.cons_append, slot] at h
    cases hrec : slot (r ++ names) x with
    | some j =>
      rw [hrec] at h
      simp only [Option.some.injEq] at h
      subst h
      rcases slot_append r names x j hrec with ⟨hn, hr⟩ | ⟨hge, hn⟩
      · left; exact ⟨hn, by simp [slot, hr]⟩
      · right
        refine ⟨by simp; omega, ?_⟩
        have : j + 1 - (y :: r).length = j - r.length := by simp
        rw [this]; exact hn
    | none =>
      rw [hrec] at h
      simp only at h
      split at h
      · rename_i hxy
        cases h
        -- `x` occurs neither in `r` nor in `names`
        have hnn : slot names x = none := by
          cases hn : slot names x with
          | none => rfl
          | some k =>
            exfalso
            have : ∀ (Γ' : List String), slot (Γ' ++ names) x ≠ none := by
              intro Γ'
              induction Γ' with
              | nil => simp [hn]
              | cons z zs ih =>
                simp only [List.cons_append, slot]
                cases hz : slot (zs ++ names) x with
                | none => exact (ih hz).elim
                | some _ => simp
            exact this r hrec
        have hr : slot r x = none := by
          cases hr : slot r x with
          | none => rfl
          | some k =>
            exfalso
            have : ∀ (r' : List String) (k' : Nat), slot r' x = some k' → slot (r' ++ names) x ≠ none := by
              intro r'
              induction r' with
              | nil => intro k' hk; simp [slot] at hk
              | cons z zs ih =>
                intro k' hk
                simp only [List.cons_append, slot]
                cases hz : slot (zs ++ names) x with
                | some _ => simp
                | none =>
                  simp only [slot] at hk
                  cases hzs : slot zs x with
                  | some m => exact (ih m hzs hz).elim
                  | none =>
                    rw [hzs] at hk
                    simp only at hk
                    split at hk
                    · rename_i hxz; simp [hxz]
                    · cases hk
            exact this r k hr hrec
        left
        subst hxy
        exact ⟨hnn, by simp [slot, hr]⟩
      · cases h

/-! ### The index-assignment assumption, for the fragment -/

/-- **For a fragment line, the assumption of `runLine_preserves_aligned` holds.** Start: names `Γ`,
    locals `L`, aligned. The line `sq` evaluates to a non-nil `v` with locals `L'`. Then the names
    afterwards are `Γ ++ names`, the locals `L ++ app` with `app.length = names.length`, and every name
    `x` of the new context resolves either to its old slot — below `L.length`, where the old value still
    sits — or to a slot `i ≥ L.length` holding `app[i - L.length]`, the value its binder stored. -/
theorem fragment_line_assignment (sq : Sq1) (Γ : List String) (L : List Val) (flow v : Val) (L' : List Val)
    (hal : L.length = Γ.length) (hev : evalSq Γ L flow sq = some (v, L')) (hv : v.isNil = false) :
    ∃ names app, (compileSq Γ sq).2 = Γ ++ names ∧ L' = L ++ app ∧ app.length = names.length ∧
      ∀ x i, slot (Γ ++ names) x = some i →
        (i < L.length ∧ slot Γ x = some i ∧ L'[i]? = L[i]?) ∨
        (L.length ≤ i ∧ L'[i]? = app[i - L.length]? ∧ i - L.length < app.length) := by
  obtain ⟨names, hn⟩ := compileSq_extends sq Γ
  obtain ⟨app, ha⟩ := evalSq_extends sq Γ L flow v L' hev
  have hlen := evalSq_aligned sq Γ L flow v L' hal hev hv
  have happ : app.length = names.length := by
    rw [hn, ha] at hlen
    simp only [List.length_append] at hlen
    omega
  refine ⟨names, app, hn, ha, happ, ?_⟩
  intro x i hs
  rcases slot_append Γ names x i hs with ⟨_, hold⟩ | ⟨hge, hnew⟩
  · left
    have hlt : i < L.length := by rw [hal]; exact slot_lt Γ x i hold
    exact ⟨hlt, hold, by rw [ha, List.getElem?_append_left hlt]⟩
  · right
    have hge' : L.length ≤ i := by rw [hal]; exact hge
    refine ⟨hge', by rw [ha, List.getElem?_append_right hge'], ?_⟩
    have := slot_lt names x _ hnew
    rw [hal, happ]; exact this

/-- The same on the machine: C02's `compileSq_aruns` runs the compiled line to exactly those locals, so
    after a fragment line the frame's locals hold, at the slot of every name in scope, the value the
    reference evaluation of the line binds to it — alignment without any per-line oracle. -/
theorem fragment_line_runs_aligned {O : Oracle} {P : Prog} {code : Array Instr}
    (hO : C02L.OracleIntEq O) (hP : wfProg P) (hsz : code.size < 2 ^ 63 - 1)
    (sq : Sq1) (Γ : List String) (pc : Nat) (flow : Val) (rest L : List Val) (v : Val) (L' : List Val)
    (hl : C02S.Located code pc (compileSq Γ sq).1) (hw : wfSq P sq) (hal : L.length = Γ.length)
    (hev : evalSq Γ L flow sq = some (v, L')) (hv : v.isNil = false) :
    C02L.ARunsL O P code (pc, flow :: rest, L) (pc + (compileSq Γ sq).1.length, v :: rest, L') ∧
    L'.length = (compileSq Γ sq).2.length ∧
    (∀ x i, slot Γ x = some i → (∀ j, slot (compileSq Γ sq).2 x = some j → j = i ∨ L.length ≤ j) ∧ L'[i]? = L[i]?) := by
  refine ⟨C02L.compileSq_aruns hO hP hsz sq Γ pc flow rest L v L' hl hw hal hev,
    evalSq_aligned sq Γ L flow v L' hal hev hv, ?_⟩
  intro x i hx
  obtain ⟨names, app, hn, ha, _, hass⟩ := fragment_line_assignment sq Γ L flow v L' hal hev hv
  have hlt : i < L.length := by rw [hal]; exact slot_lt Γ x i hx
  refine ⟨?_, by rw [ha, List.getElem?_append_left hlt]⟩
  intro j hj
  rw [hn] at hj
  rcases hass x j hj with ⟨_, hold, _⟩ | ⟨hge, _, _⟩
  · left; rw [hold] at hx; cases hx; rfl
  · right; exact hge


/-! ### Back to the session state machine -/

open QM.Repl in
/-- **A fragment line keeps the session aligned — no oracle.** `s` is the session before the line,
    `c = compact s` what `Repl::evaluate` compiles against. `Γ` / `L` are the compile-time names and the
    frame's locals when the line's steps start: the session's variables (`hΓ`: a session binding is a
    name's slot below the session's locals) followed by whatever the wrapper stored first (`pre`: the
    parameter slot, reachable by no source name). The line `sq` evaluates (C02's `evalSq`, which
    `compileSq_aruns` proves is what the compiled code does) to a non-nil value with locals `L'`; the
    compiler returns the bindings of the new context (`hb`). Then after `runLine` — compaction, the
    line, orphan release — every variable's slot holds the value the line's evaluation left there:
    `Aligned`, with the hypothesis `hnew` of `C11.runLine_preserves_aligned` *derived* from
    `fragment_line_assignment` instead of assumed. -/
theorem fragment_line_keeps_session_aligned (nil : Val) (s : Session Val) (Γ : List String) (L pre : List Val)
    (sq : Sq1) (flow v : Val) (L' : List Val) (V : String → Val)
    (hV : Aligned (compact s) V) (hL : L = (compact s).locals ++ pre) (hal : L.length = Γ.length)
    (hΓ : ∀ x i, (compact s).bindings.lookup x = some i ↔ (slot Γ x = some i ∧ i < (compact s).locals.length))
    (hev : evalSq Γ L flow sq = some (v, L')) (hv : v.isNil = false)
    (eff : LineEffect Val) (hb : ∀ x i, eff.bindings.lookup x = some i → slot (compileSq Γ sq).2 x = some i)
    (happ : (compact s).locals ++ eff.appended = L') :
    Aligned (runLine nil s (.ran eff))
      (fun x => match slot (compileSq Γ sq).2 x with
        | some i => (L'[i]?).getD nil
        | none => V x) := by
  obtain ⟨names, app, hn, ha, _, hass⟩ := fragment_line_assignment sq Γ L flow v L' hal hev hv
  have hlen := evalSq_aligned sq Γ L flow v L' hal hev hv
  apply C11.runLine_preserves_aligned nil s eff V _ hV
  intro x i hx
  have hs := hb x i hx
  have hi : i < L'.length := by rw [hlen]; exact slot_lt _ x i hs
  have hsome : L'[i]? = some L'[i] := List.getElem?_eq_getElem hi
  by_cases hlt : i < (compact s).locals.length
  · left
    rw [hn] at hs
    rcases hass x i hs with ⟨_, hold, hget⟩ | ⟨hge, _, _⟩
    · refine ⟨hlt, (hΓ x i).mpr ⟨hold, hlt⟩, ?_⟩
      have h1 : L[i]? = (compact s).locals[i]? := by rw [hL, List.getElem?_append_left hlt]
      have h2 := hV x i ((hΓ x i).mpr ⟨hold, hlt⟩)
      simp only [hn, hs, hget, h1, h2, Option.getD_some]
    · rw [hL] at hge
      simp only [List.length_append] at hge
      omega
  · right
    have hge : (compact s).locals.length ≤ i := Nat.le_of_not_lt hlt
    refine ⟨hge, ?_⟩
    have : eff.appended[i - (compact s).locals.length]? = L'[i]? := by
      rw [← happ, List.getElem?_append_right hge]
    rw [this, hsome]
    simp only [hs, hsome, Option.getD_some]

end C11Frag
