import QuiverModel.Core.RefSem.Compile0
import QuiverModel.Core.RefSem.Eval
/-
C02, stretch goal — **fragment compiler correctness** against M-VM (C07's `QM.VM.stepInstr`).

`QM.RefSem.C0.compileCh` (Core/RefSem/Compile0.lean) models what compiler.rs emits for the jump-free
value-flow fragment: integer literals, `~`, nested tuple literals, chains. Proved here:

* `compile0_correct` — run by M-VM with the flowing value on top of the stack, the emitted
  instructions leave exactly the chain's value (`evalCh`) in its place; the rest of the stack and the
  locals are untouched; no instruction fails. This is the `RippleContext.stack_offset` bookkeeping
  (`Pick(offset + fields_compiled)`, `Tuple`, `Rotate(2)`, `Pop`) for every nesting depth and width.
* `Bridge.ref_evalCh` — `evalCh` is what the reference evaluator M-RefSem computes for the same chain
  (after resolving tuple ids to names): so compiled execution agrees with the reference semantics on
  the whole fragment (`compile0_agrees_with_reference`).

The model `compileCh` is tied to the real compiler on every run of the check by instruction-sequence
equality on generated programs of the fragment (`harness/src/bin/c02`, stream "fragment"; the driver
request `(compile0 …)`). Not covered by the theorem: everything with jumps (sequences, branches,
matches), calls, locals — stated as future work in notes/C02.md.
-/
namespace C02

section VMPart
open QM.VM QM.RefSem.C0

/-- running `is` from `p` succeeds, leaves the stack `s'` and touches no local -/
def Runs (O : Oracle) (P : Prog) (is : List Instr) (p : Proc) (s' : List Val) : Prop :=
  ∃ p', runList O P is p = .ok p' ∧ p'.stack = s' ∧ p'.locals = p.locals

theorem Runs.nil (O : Oracle) (P : Prog) (p : Proc) : Runs O P [] p p.stack := ⟨p, rfl, rfl, rfl⟩

theorem Runs.append {O : Oracle} {P : Prog} {a b : List Instr} {p : Proc} {s₁ s₂ : List Val}
    (h₁ : Runs O P a p s₁)
    (h₂ : ∀ q : Proc, q.stack = s₁ → Runs O P b q s₂) : Runs O P (a ++ b) p s₂ := by
  obtain ⟨p₁, hr₁, hs₁, hl₁⟩ := h₁
  obtain ⟨p₂, hr₂, hs₂, hl₂⟩ := h₂ p₁ hs₁
  refine ⟨p₂, ?_, hs₂, by rw [hl₂, hl₁]⟩
  rw [runList_append, hr₁]
  exact hr₂

@[simp] theorem bump_stack (p : Proc) : p.bump.stack = p.stack := by
  unfold Proc.bump; split <;> rfl
@[simp] theorem bump_locals (p : Proc) : p.bump.locals = p.locals := by
  unfold Proc.bump; split <;> rfl

theorem runs_single {O : Oracle} {P : Prog} {i : Instr} {p q : Proc} {s' : List Val}
    (h : stepInstr O P p i = .ok (q, none)) (hs : q.stack = s') (hl : q.locals = p.locals) :
    Runs O P [i] p s' := ⟨q, by simp [runList, h], hs, hl⟩

theorem runs_pop (O : Oracle) (P : Prog) (p : Proc) (v : Val) (s : List Val) (h : p.stack = v :: s) :
    Runs O P [.pop] p s := by
  refine runs_single (q := ({ p with stack := s } : Proc).bump) ?_ (by simp) (by simp)
  simp [stepInstr, handlePop, h, QM.VM.ok]

theorem runs_constant (O : Oracle) (P : Prog) (p : Proc) (i : Nat) (z : Int)
    (h : P.constants[i]? = some (.int z)) : Runs O P [.constant i] p (.int z :: p.stack) := by
  refine runs_single (q := (p.push (.int z)).bump) ?_ (by simp [Proc.push]) (by simp [Proc.push])
  simp [stepInstr, handleConstant, h, QM.VM.ok]

theorem runs_pick (O : Oracle) (P : Prog) (p : Proc) (n : Nat) (v : Val) (h : p.stack[n]? = some v) :
    Runs O P [.pick n] p (v :: p.stack) := by
  refine runs_single (q := (p.push v).bump) ?_ (by simp [Proc.push]) (by simp [Proc.push])
  simp [stepInstr, handlePick, h, QM.VM.ok]

theorem runs_rotate2 (O : Oracle) (P : Prog) (p : Proc) (a b : Val) (s : List Val)
    (h : p.stack = a :: b :: s) : Runs O P [.rotate 2] p (b :: a :: s) := by
  refine runs_single (q := ({ p with stack := b :: a :: s } : Proc).bump) ?_ (by simp) (by simp)
  simp [stepInstr, handleRotate, h, QM.VM.ok]

theorem runs_tuple (O : Oracle) (P : Prog) (p : Proc) (id : Nat) (vs rest : List Val)
    (hid : P.tuples[id]? = some vs.length) (h : p.stack = vs.reverse ++ rest) :
    Runs O P [.tuple id] p (.tup id (ValList.ofList vs) :: rest) := by
  refine runs_single
    (q := ({ p with stack := .tup id (ValList.ofList vs) :: rest } : Proc).bump) ?_ (by simp) (by simp)
  have hlen : ¬ (vs.reverse ++ rest).length < vs.length := by simp
  simp [stepInstr, handleTuple, hid, h, QM.VM.ok]


theorem list_getElem?_append_reverse (acc : List Val) (flow : Val) (rest : List Val) :
    (acc.reverse ++ flow :: rest)[acc.length]? = some flow := by
  have : acc.length = acc.reverse.length := by simp
  rw [this, List.getElem?_append_right (Nat.le_refl _)]
  simp

mutual
  /-- a term turns the flowing value on top of the stack into its value -/
  theorem compileT_runs (O : Oracle) (P : Prog) :
      (t : T0) → (p : Proc) → (flow : Val) → (rest : List Val) →
      p.stack = flow :: rest → wfT P t → Runs O P (compileT t) p (evalT flow t :: rest)
    | .int z i, p, flow, rest, hs, hw => by
      simp only [compileT, evalT]
      have h1 := runs_pop O P p flow rest hs
      have : [Instr.pop, Instr.constant i] = [Instr.pop] ++ [Instr.constant i] := rfl
      rw [this]
      refine Runs.append h1 (fun q hq => ?_)
      have := runs_constant O P q i z hw
      rw [hq] at this
      exact this
    | .ripple, p, flow, rest, hs, _ => by
      simp only [compileT, evalT]
      have := Runs.nil O P p
      rw [hs] at this
      exact this
    | .tup id fs, p, flow, rest, hs, hw => by
      simp only [compileT, evalT]
      obtain ⟨hid, hwf⟩ := hw
      have hfs := compileFs_runs O P fs p flow rest [] (by simpa using hs) hwf
      simp only [List.length_nil, List.nil_append] at hfs
      refine Runs.append hfs (fun q hq => ?_)
      have e3 : [Instr.tuple id, Instr.rotate 2, Instr.pop] =
          [Instr.tuple id] ++ ([Instr.rotate 2] ++ [Instr.pop]) := rfl
      rw [e3]
      have hlen : P.tuples[id]? = some (evalFs flow fs).length := by rw [evalFs_length]; exact hid
      refine Runs.append (runs_tuple O P q id (evalFs flow fs) (flow :: rest) hlen hq) (fun q2 hq2 => ?_)
      refine Runs.append (runs_rotate2 O P q2 _ flow rest hq2) (fun q3 hq3 => ?_)
      exact runs_pop O P q3 flow _ hq3
  theorem compileCh_runs (O : Oracle) (P : Prog) :
      (c : Ch0) → (p : Proc) → (flow : Val) → (rest : List Val) →
      p.stack = flow :: rest → wfCh P c → Runs O P (compileCh c) p (evalCh flow c :: rest)
    | .nil, p, flow, rest, hs, _ => by
      simp only [compileCh, evalCh]
      have := Runs.nil O P p
      rw [hs] at this
      exact this
    | .cons t r, p, flow, rest, hs, hw => by
      simp only [compileCh, evalCh]
      obtain ⟨hwt, hwr⟩ := hw
      refine Runs.append (compileT_runs O P t p flow rest hs hwt) (fun q hq => ?_)
      exact compileCh_runs O P r q (evalT flow t) rest hq hwr
  /-- fields: `acc` = the fields computed so far, sitting above the flowing value -/
  theorem compileFs_runs (O : Oracle) (P : Prog) :
      (fs : Fs0) → (p : Proc) → (flow : Val) → (rest : List Val) → (acc : List Val) →
      p.stack = acc.reverse ++ flow :: rest → wfFs P fs →
      Runs O P (compileFs fs acc.length) p ((acc ++ evalFs flow fs).reverse ++ flow :: rest)
    | .nil, p, flow, rest, acc, hs, _ => by
      simp only [compileFs, evalFs, List.append_nil]
      have := Runs.nil O P p
      rw [hs] at this
      exact this
    | .cons c r, p, flow, rest, acc, hs, hw => by
      simp only [compileFs, evalFs]
      obtain ⟨hwc, hwr⟩ := hw
      have hpick : p.stack[acc.length]? = some flow := by
        rw [hs]; exact list_getElem?_append_reverse acc flow rest
      rw [List.append_assoc]
      refine Runs.append (runs_pick O P p acc.length flow hpick) (fun q hq => ?_)
      refine Runs.append
        (compileCh_runs O P c q flow (acc.reverse ++ flow :: rest) (by rw [hq, hs]) hwc)
        (fun q2 hq2 => ?_)
      have := compileFs_runs O P r q2 flow rest (acc ++ [evalCh flow c])
        (by rw [hq2]; simp) hwr
      simpa using this
end

/-- **Fragment compiler correctness** (the stretch goal of C02, jump-free value-flow fragment): the
instructions the compiler emits for a chain of integer literals, `~` and (nested) tuple literals,
run by M-VM from a state with the flowing value on top of the stack, leave exactly the value the
spec assigns to the chain in its place — nothing else on the stack is touched, no local is
touched, and no instruction fails. -/
theorem compile0_correct (O : Oracle) (P : Prog) (c : Ch0) (p : Proc) (flow : Val) (rest : List Val)
    (hs : p.stack = flow :: rest) (hw : wfCh P c) :
    ∃ p', runList O P (compileCh c) p = .ok p' ∧ p'.stack = evalCh flow c :: rest ∧
      p'.locals = p.locals :=
  compileCh_runs O P c p flow rest hs hw


end VMPart

section BridgePart
open QM.RefSem.C0

namespace Bridge
open QM.RefSem

/-! ### From M-VM values / fragment terms to M-RefSem (tuple ids resolved to names, fields unlabelled) -/

mutual
  def erase (nm : Nat → Option String) : QM.VM.Val → Val
    | .int z => .int z
    | .tup id vs => .tup (nm id) (eraseL nm vs)
    | _ => .int 0
  def eraseL (nm : Nat → Option String) : QM.VM.ValList → Fields
    | .nil => []
    | .cons v vs => (none, erase nm v) :: eraseL nm vs
end

theorem eraseL_ofList (nm : Nat → Option String) (l : List QM.VM.Val) :
    eraseL nm (QM.VM.ValList.ofList l) = l.map (fun v => (none, erase nm v)) := by
  induction l with
  | nil => rfl
  | cons v vs ih => simp [QM.VM.ValList.ofList, eraseL, ih]

def nameOf : Option String → TupName
  | none => .anon
  | some s => .named s

mutual
  def toRefT (nm : Nat → Option String) : T0 → Term
    | .int z _ => .lit (.int z)
    | .ripple => .access .ripple []
    | .tup id fs => .tuple (nameOf (nm id)) (toRefFs nm fs)
  def toRefCh (nm : Nat → Option String) : Ch0 → List Term
    | .nil => []
    | .cons t r => toRefT nm t :: toRefCh nm r
  def toRefFs (nm : Nat → Option String) : Fs0 → List Field
    | .nil => []
    | .cons c r => .val none (.mk none (toRefCh nm c)) :: toRefFs nm r
end

theorem tupleName_nameOf (n : Option String) : tupleName (nameOf n) none = n := by
  cases n <;> rfl

mutual
  theorem ref_evalT (nm : Nat → Option String) (env : Env) :
      (t : T0) → (flow : QM.VM.Val) → ∃ N, ∀ fuel, N ≤ fuel →
        evalTerm fuel env (erase nm flow) (toRefT nm t) = .ok (erase nm (evalT flow t), env)
    | .int z i, flow => ⟨1, fun fuel h => by
        obtain ⟨k, rfl⟩ : ∃ k, fuel = k + 1 := ⟨fuel - 1, by omega⟩
        simp [toRefT, evalT, QM.RefSem.evalTerm, litVal, erase]⟩
    | .ripple, flow => ⟨1, fun fuel h => by
        obtain ⟨k, rfl⟩ : ∃ k, fuel = k + 1 := ⟨fuel - 1, by omega⟩
        simp [toRefT, evalT, QM.RefSem.evalTerm, project, Res.bind]⟩
    | .tup id fs, flow => by
      obtain ⟨N, hN⟩ := ref_evalFs nm env fs flow []
      refine ⟨N + 1, fun fuel h => ?_⟩
      obtain ⟨k, rfl⟩ : ∃ k, fuel = k + 1 := ⟨fuel - 1, by omega⟩
      simp only [toRefT, evalT, QM.RefSem.evalTerm]
      rw [hN k (by omega)]
      simp [Res.bind, erase, eraseL_ofList, tupleName_nameOf]
  theorem ref_evalCh (nm : Nat → Option String) (env : Env) :
      (c : Ch0) → (flow : QM.VM.Val) → ∃ N, ∀ fuel, N ≤ fuel →
        evalTerms fuel env (erase nm flow) (toRefCh nm c) = .ok (erase nm (evalCh flow c), env)
    | .nil, flow => ⟨1, fun fuel h => by
        obtain ⟨k, rfl⟩ : ∃ k, fuel = k + 1 := ⟨fuel - 1, by omega⟩
        simp [toRefCh, evalCh, QM.RefSem.evalTerms]⟩
    | .cons t r, flow => by
      obtain ⟨N₁, h₁⟩ := ref_evalT nm env t flow
      obtain ⟨N₂, h₂⟩ := ref_evalCh nm env r (evalT flow t)
      refine ⟨max N₁ N₂ + 1, fun fuel h => ?_⟩
      obtain ⟨k, rfl⟩ : ∃ k, fuel = k + 1 := ⟨fuel - 1, by omega⟩
      simp only [toRefCh, evalCh, QM.RefSem.evalTerms]
      rw [h₁ k (by omega)]
      simp only [Res.bind]
      exact h₂ k (by omega)
  theorem ref_evalFs (nm : Nat → Option String) (env : Env) :
      (fs : Fs0) → (flow : QM.VM.Val) → (acc : Fields) → ∃ N, ∀ fuel, N ≤ fuel →
        evalFields fuel env (erase nm flow) (toRefFs nm fs) acc none =
          .ok (acc ++ (evalFs flow fs).map (fun v => (none, erase nm v)), none, env)
    | .nil, flow, acc => ⟨1, fun fuel h => by
        obtain ⟨k, rfl⟩ : ∃ k, fuel = k + 1 := ⟨fuel - 1, by omega⟩
        simp [toRefFs, evalFs, QM.RefSem.evalFields]⟩
    | .cons c r, flow, acc => by
      obtain ⟨N₁, h₁⟩ := ref_evalCh nm env c flow
      obtain ⟨N₂, h₂⟩ := ref_evalFs nm env r flow (acc ++ [(none, erase nm (evalCh flow c))])
      refine ⟨max N₁ N₂ + 2, fun fuel h => ?_⟩
      obtain ⟨k, rfl⟩ : ∃ k, fuel = k + 2 := ⟨fuel - 2, by omega⟩
      simp only [toRefFs, evalFs, QM.RefSem.evalFields, QM.RefSem.evalChain]
      rw [h₁ k (by omega)]
      simp only [Res.bind, setOrAppend]
      rw [h₂ (k + 1) (by omega)]
      simp
end

end Bridge

end BridgePart

section Final
open QM.RefSem.C0 Bridge

/-- **Compiled execution = reference semantics on the fragment**: for a well-formed chain, the VM run
of the compiled code leaves a value whose name-resolved form is exactly what the reference evaluator
computes for the chain from the name-resolved flowing value (for every sufficiently large fuel). -/
theorem compile0_agrees_with_reference (O : QM.VM.Oracle) (P : QM.VM.Prog) (nm : Nat → Option String)
    (env : QM.RefSem.Env) (c : Ch0) (p : QM.VM.Proc) (flow : QM.VM.Val) (rest : List QM.VM.Val)
    (hs : p.stack = flow :: rest) (hw : wfCh P c) :
    ∃ p' v N, runList O P (compileCh c) p = .ok p' ∧ p'.stack = v :: rest ∧
      ∀ fuel, N ≤ fuel →
        QM.RefSem.evalTerms fuel env (erase nm flow) (toRefCh nm c) = .ok (erase nm v, env) := by
  obtain ⟨p', hr, hst, _⟩ := compile0_correct O P c p flow rest hs hw
  obtain ⟨N, hN⟩ := ref_evalCh nm env c flow
  exact ⟨p', evalCh flow c, N, hr, hst, hN⟩

end Final

/-! ### A concrete instance: `7 [~, [1, ~]]` -/

namespace Ex0
open QM.VM QM.RefSem.C0
/-- constants: #0 = 7, #1 = 1; tuple ids: 2 = `[_, _]` (both tuples have two fields) -/
def chain : Ch0 :=
  .cons (.int 7 0) (.cons (.tup 2 (.cons (.cons .ripple .nil)
    (.cons (.cons (.tup 2 (.cons (.cons (.int 1 1) .nil) (.cons (.cons .ripple .nil) .nil))) .nil) .nil))) .nil)

example : compileCh chain =
    [.pop, .constant 0,
     .pick 0, .pick 1, .pick 0, .pop, .constant 1, .pick 1, .tuple 2, .rotate 2, .pop,
     .tuple 2, .rotate 2, .pop] := by rfl

example : evalCh Val.nil chain =
    .tup 2 (.cons (.int 7) (.cons (.tup 2 (.cons (.int 1) (.cons (.int 7) .nil))) .nil)) := by rfl
end Ex0

end C02
